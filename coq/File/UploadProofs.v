(* C20: the upload direction end to end (master sends a file): file ready, (section ready, segments, last segment)*, last section. *)
From Coq Require Import ZArith List Bool Lia.
From L60870 Require Import Dispatch.DispatchBase File.FileServer File.FileSpec File.FileProofs.
Import ListNotations.
Local Open Scope Z_scope.

(* messages of the uploading master, by content *)
Definition is_file_ready_msg (c : fcfg) (a : asdu) (ca ioa nof lof : Z) : Prop :=
  tid a = 120 /\ get_ca (f_alp c) a = ca /\ exists n0 n1 l0 l1 l2 frq,
    dec (f_alp c) 6 (payload a) = Some (ioa, [n0; n1; l0; l1; l2; frq]) /\ n0 + 256 * n1 = nof /\ l0 + 256 * l1 + 65536 * l2 = lof.
Definition is_section_ready_msg (c : fcfg) (a : asdu) (k los : Z) : Prop :=
  tid a = 121 /\ exists ioa n0 n1 l0 l1 l2 srq,
    dec (f_alp c) 7 (payload a) = Some (ioa, [n0; n1; k; l0; l1; l2; srq]) /\ l0 + 256 * l1 + 65536 * l2 = los.
Definition is_last_msg (c : fcfg) (a : asdu) (k lsq : Z) : Prop :=
  tid a = 123 /\ exists ioa n0 n1 chs, dec (f_alp c) 5 (payload a) = Some (ioa, [n0; n1; k; lsq; chs]).

(* one uploaded section: section-ready, its segments, last-segment *)
Definition up_item := (asdu * Z * list (asdu * Z * list Z) * asdu)%type.     (* section ready, announced length, segments, last segment *)
Definition up_events (it : up_item) : list event :=
  [ERx 0 (fst (fst (fst it)))] ++ map (fun m => ERx 0 (fst (fst m))) (snd (fst it)) ++ [ERx 0 (snd it)].
Fixpoint up_ok (c : fcfg) (k : Z) (its : list up_item) : Prop :=
  match its with
  | [] => True
  | it :: t => is_section_ready_msg c (fst (fst (fst it))) k (snd (fst (fst it))) /\
               Forall (fun m => is_segment_msg c (fst (fst m)) (snd (fst m)) (snd m)) (snd (fst it)) /\
               is_last_msg c (snd it) k 3 /\ up_ok c (k + 1) t
  end.
(* what the slave application and the master observe for one section *)
Definition up_obs (oa_sr oa_ls ca ioa nof k : Z) (it : up_item) : list obs :=
  [OSend 0 oa_sr ca ioa nof (TCallSection k)] ++ offsets_obs 0 (snd (fst it)) ++ [OSend 0 oa_ls ca ioa nof (TAck k 3)].

Definition upS (b : fs) (x : fstate) (n o sz lt : Z) : fs :=
  {| st := x; s_ca := s_ca b; s_ioa := s_ioa b; s_oa := s_oa b; s_nof := s_nof b; last := lt; nos := n; off := o; size := sz;
     schs := schs b; fchs := fchs b; sel := sel b; selc := selc b; rcv := true |}.

Lemma to_upS c b x n o sz now : 0 <= f_timeout c -> timed_out c now (upS b x n o sz now) = false.
Proof. intros H. unfold timed_out. cbn [upS last]. apply no_timeout; [assumption|reflexivity]. Qed.

Lemma up_section c e b now k n0 o0 sz0 (it : up_item) : 0 <= f_timeout c ->
  is_section_ready_msg c (fst (fst (fst it))) k (snd (fst (fst it))) ->
  Forall (fun m => is_segment_msg c (fst (fst m)) (snd (fst m)) (snd m)) (snd (fst it)) -> is_last_msg c (snd it) k 3 ->
  exists oa1 oa2,
    run c e (up_events it) (upS b WaitSectionReady n0 o0 sz0 now) now [] =
    ROk (upS b WaitSectionReady k (total_len (snd (fst it))) (snd (fst (fst it))) now) now (up_obs oa1 oa2 (s_ca b) (s_ioa b) (s_nof b) k it).
Proof.
  intros Ht (T1 & ioa1 & a0 & a1 & l0 & l1 & l2 & srq & D1 & L1) HF (T3 & ioa3 & c0 & c1 & chs & D3).
  unfold up_events. cbn [app run].
  (* section ready *)
  unfold handle_asdu at 1. rewrite T1. cbn [Z.leb Z.compare Pos.compare Pos.compare_cont andb Z.eqb Pos.eqb].
  rewrite to_upS by assumption. rewrite andb_false_r. unfold h_section_ready. cbn [upS st fstate_eqb s_ca s_ioa s_nof]. rewrite D1.
  change (fld [a0; a1; k; l0; l1; l2; srq] 2) with k. change (le24 [a0; a1; k; l0; l1; l2; srq] 3) with (l0 + 256 * l1 + 65536 * l2).
  rewrite L1. cbn [app].
  change (set_st (set_last (set_sec _ k 0 (snd (fst (fst it)))) now) Receive) with (upS b Receive k 0 (snd (fst (fst it))) now).
  (* segments *)
  rewrite run_app, run_acc.
  rewrite (upload_offsets c e now Ht (snd (fst it)) (upS b Receive k 0 (snd (fst (fst it))) now) HF eq_refl eq_refl eq_refl).
  (* last segment *)
  change (set_last (set_sec (upS b Receive k 0 (snd (fst (fst it))) now) (nos (upS b Receive k 0 (snd (fst (fst it))) now))
                            (off (upS b Receive k 0 (snd (fst (fst it))) now) + total_len (snd (fst it)))
                            (size (upS b Receive k 0 (snd (fst (fst it))) now))) now)
    with (upS b Receive k (total_len (snd (fst it))) (snd (fst (fst it))) now).
  cbn [run]. unfold handle_asdu. rewrite T3. cbn [Z.leb Z.compare Pos.compare Pos.compare_cont andb Z.eqb Pos.eqb].
  rewrite to_upS by assumption. rewrite andb_false_r.
  unfold h_last. rewrite D3.
  change (fld [c0; c1; k; 3; chs] 2) with k. change (fld [c0; c1; k; 3; chs] 3) with 3.
  cbn [upS st fstate_eqb Z.eqb Pos.eqb s_ca s_ioa s_nof off nos size].
  exists (get_oa (f_alp c) (fst (fst (fst it)))), (get_oa (f_alp c) (snd it)).
  unfold up_obs. rewrite <- !app_assoc. reflexivity.
Qed.

(* the whole upload: file ready accepted, every section, last section -> positive file acknowledgement and finished(success) *)
Fixpoint ups_events (its : list up_item) : list event :=
  match its with [] => [] | it :: t => up_events it ++ ups_events t end.
Inductive ups_obs (ca ioa nof : Z) : Z -> list up_item -> list obs -> Prop :=
| uo_nil k : ups_obs ca ioa nof k [] []
| uo_cons k it t o oa1 oa2 : ups_obs ca ioa nof (k + 1) t o -> ups_obs ca ioa nof k (it :: t) (up_obs oa1 oa2 ca ioa nof k it ++ o).

Lemma up_sections c e b now : 0 <= f_timeout c -> forall its k n0 o0 sz0, up_ok c k its ->
  exists n1 o1 sz1 os, run c e (ups_events its) (upS b WaitSectionReady n0 o0 sz0 now) now [] =
                       ROk (upS b WaitSectionReady n1 o1 sz1 now) now os /\ ups_obs (s_ca b) (s_ioa b) (s_nof b) k its os.
Proof.
  intros Ht. induction its as [|it its IH]; intros k n0 o0 sz0 Hok.
  - exists n0, o0, sz0, []. split; [reflexivity|constructor].
  - cbn [up_ok] in Hok. destruct Hok as (H1 & H2 & H3 & H4).
    destruct (up_section c e b now k n0 o0 sz0 it Ht H1 H2 H3) as (oa1 & oa2 & R1).
    destruct (IH (k + 1) k (total_len (snd (fst it))) (snd (fst (fst it))) H4) as (n1 & o1 & sz1 & os & R2 & O2).
    cbn [ups_events]. rewrite run_app, R1, run_acc, R2.
    exists n1, o1, sz1, (up_obs oa1 oa2 (s_ca b) (s_ioa b) (s_nof b) k it ++ os). split; [reflexivity|].
    constructor. exact O2.
Qed.

Theorem upload_complete c e s0 now fr its ls ca ioa nof lof kl :
  0 <= f_timeout c -> e_recv e = 1 -> is_file_ready_msg c fr ca ioa nof lof -> up_ok c 1 its -> is_last_msg c ls kl 1 ->
  exists s' os oa0 oa1,
    run c e ([ERx 0 fr] ++ ups_events its ++ [ERx 0 ls]) s0 now [] =
    ROk s' now ([CFileReady ca ioa nof lof; OSend 0 oa0 ca ioa nof TCallFile] ++ os ++ [OSend 0 oa1 ca ioa nof (TAck kl 1); CFinished 0]) /\
    st s' = Idle /\ ups_obs ca ioa nof 1 its os.
Proof.
  intros Ht Hrecv (T0 & Hca & n0 & n1 & l0 & l1 & l2 & frq & D0 & N0 & L0) Hok (T3 & ioa3 & c0 & c1 & chs & D3).
  cbn [app run]. unfold handle_asdu at 1. rewrite T0. cbn [Z.leb Z.compare Pos.compare Pos.compare_cont andb Z.eqb Pos.eqb].
  set (s1 := if negb (fstate_eqb (st s0) Idle) && timed_out c now s0 then set_st s0 Idle else s0).
  unfold h_file_ready. rewrite Hrecv. cbn [Z.eqb Pos.eqb negb]. rewrite D0.
  change (le16 [n0; n1; l0; l1; l2; frq] 0) with (n0 + 256 * n1). change (le24 [n0; n1; l0; l1; l2; frq] 2) with (l0 + 256 * l1 + 65536 * l2).
  rewrite N0, L0, Hca. cbn [app].
  set (b := set_chs (set_oa (set_id (set_rcv s1 true) ca ioa nof) (u8 (get_oa (f_alp c) fr))) (schs s1) 0).
  change (set_st (set_last b now) WaitSectionReady) with (upS b WaitSectionReady (nos b) (off b) (size b) now).
  rewrite run_app, run_acc.
  destruct (up_sections c e b now Ht its 1 (nos b) (off b) (size b) Hok) as (k1 & o1 & sz1 & os & R & O).
  rewrite R. cbn [run]. unfold handle_asdu. rewrite T3. cbn [Z.leb Z.compare Pos.compare Pos.compare_cont andb Z.eqb Pos.eqb].
  rewrite to_upS by assumption. rewrite andb_false_r. unfold h_last. rewrite D3.
  change (fld [c0; c1; kl; 1; chs] 2) with kl. change (fld [c0; c1; kl; 1; chs] 3) with 1.
  cbn [upS st fstate_eqb Z.eqb Pos.eqb rcv s_ca s_ioa s_nof].
  eexists _, os, _, _. split.
  { rewrite <- app_assoc. cbn [app]. reflexivity. }
  split; [reflexivity|exact O].
Qed.
