(* C20: the file-service plugin (src/file-service/file_server.c): CS101_FileServer_handleAsdu and
   CS101_FileServer_runTask transcribed as total step functions; provider / receiver callbacks and the ASDUs
   handed to IMasterConnection_sendASDU are observations.  `fixd = true` is the code with the repairs
   (NULL checks after the six decoders; the section checksum enters the file checksum when the section is
   positively acknowledged; both checksums reset at call-file); `fixd = false` is the pinned snapshot. *)
From Coq Require Import ZArith List Bool Lia.
From L60870 Require Import Dispatch.DispatchBase.
Import ListNotations.
Local Open Scope Z_scope.

Record fcfg := { f_alp : alp; f_max : Z (* maxSizeOfASDU *); f_timeout : Z; f_fixd : bool }.
Definition max_seg (c : fcfg) : Z := f_max c - 1 - 1 - ca_sz (f_alp c) - cot_sz (f_alp c) - ioa_sz (f_alp c) - 4.

(* the slave application: one file (list of sections) at (ca, ioa, nof); no file at all when e_present = false *)
Record fenv := { e_present : bool; e_ca : Z; e_ioa : Z; e_nof : Z; e_secs : list (list Z);
                 e_recv : Z (* file-ready handler: 0 none, 1 accept, 2 refuse, 3 errCode 1, 4 errCode 2 *) }.

Inductive fstate := Idle | WaitFileCall | WaitSectionCall | Transmit | WaitSectionAck | WaitFileAck | SendAbort
                  | Completed | WaitSectionReady | Receive.
Definition fstate_eqb (a b : fstate) : bool :=
  match a, b with
  | Idle, Idle | WaitFileCall, WaitFileCall | WaitSectionCall, WaitSectionCall | Transmit, Transmit
  | WaitSectionAck, WaitSectionAck | WaitFileAck, WaitFileAck | SendAbort, SendAbort | Completed, Completed
  | WaitSectionReady, WaitSectionReady | Receive, Receive => true
  | _, _ => false
  end.

Record fs := { st : fstate; s_ca : Z; s_ioa : Z; s_oa : Z; s_nof : Z; last : Z; nos : Z; off : Z; size : Z;
               schs : Z; fchs : Z; sel : bool; selc : Z; rcv : bool }.
Definition fs0 : fs := {| st := Idle; s_ca := 0; s_ioa := 0; s_oa := 0; s_nof := 0; last := 0; nos := 0; off := 0; size := 0;
                          schs := 0; fchs := 0; sel := false; selc := -1; rcv := false |}.

Inductive ftx :=
| TFileReady (lof : Z) (positive : bool) | TSectionReady (n los : Z) | TSegment (n : Z) (data : list Z)
| TLastSegment (n chs : Z) | TLastSection (n chs : Z) | TCallFile | TCallSection (n : Z) | TAck (n afq : Z).

Inductive obs :=
| OSend (conn oa ca ioa nof : Z) (t : ftx)         (* a new ASDU built by the plugin *)
| OMirror (conn : Z) (a : asdu)                     (* the received ASDU sent back (modified in place) *)
| CGetFile (ca ioa nof r : Z)                       (* r = -1 found, else errCode *)
| CFileSize (v : Z) | CSectionSize (n v : Z) | CSegData (sec o n : Z) | CComplete (ok : bool)
| CFileReady (ca ioa nof lof : Z) | CSegment (n o : Z) (data : list Z) | CFinished (code : Z).

Inductive pres := NotHandled | Handled | Invalid.
Inductive hres := HFault | HOk (s : fs) (o : list obs) (r : pres).

(* ---- setters (one field at a time keeps the transcription readable) *)
Definition set_st (s : fs) (x : fstate) : fs := {| st := x; s_ca := s_ca s; s_ioa := s_ioa s; s_oa := s_oa s; s_nof := s_nof s; last := last s; nos := nos s; off := off s; size := size s; schs := schs s; fchs := fchs s; sel := sel s; selc := selc s; rcv := rcv s |}.
Definition set_last (s : fs) (x : Z) : fs := {| st := st s; s_ca := s_ca s; s_ioa := s_ioa s; s_oa := s_oa s; s_nof := s_nof s; last := x; nos := nos s; off := off s; size := size s; schs := schs s; fchs := fchs s; sel := sel s; selc := selc s; rcv := rcv s |}.
Definition set_id (s : fs) (ca ioa nof : Z) : fs := {| st := st s; s_ca := ca; s_ioa := ioa; s_oa := s_oa s; s_nof := nof; last := last s; nos := nos s; off := off s; size := size s; schs := schs s; fchs := fchs s; sel := sel s; selc := selc s; rcv := rcv s |}.
Definition set_oa (s : fs) (x : Z) : fs := {| st := st s; s_ca := s_ca s; s_ioa := s_ioa s; s_oa := x; s_nof := s_nof s; last := last s; nos := nos s; off := off s; size := size s; schs := schs s; fchs := fchs s; sel := sel s; selc := selc s; rcv := rcv s |}.
Definition set_sec (s : fs) (n o sz : Z) : fs := {| st := st s; s_ca := s_ca s; s_ioa := s_ioa s; s_oa := s_oa s; s_nof := s_nof s; last := last s; nos := n; off := o; size := sz; schs := schs s; fchs := fchs s; sel := sel s; selc := selc s; rcv := rcv s |}.
Definition set_chs (s : fs) (sc fc : Z) : fs := {| st := st s; s_ca := s_ca s; s_ioa := s_ioa s; s_oa := s_oa s; s_nof := s_nof s; last := last s; nos := nos s; off := off s; size := size s; schs := sc; fchs := fc; sel := sel s; selc := selc s; rcv := rcv s |}.
Definition set_sel (s : fs) (b : bool) (c : Z) : fs := {| st := st s; s_ca := s_ca s; s_ioa := s_ioa s; s_oa := s_oa s; s_nof := s_nof s; last := last s; nos := nos s; off := off s; size := size s; schs := schs s; fchs := fchs s; sel := b; selc := c; rcv := rcv s |}.
Definition set_rcv (s : fs) (b : bool) : fs := {| st := st s; s_ca := s_ca s; s_ioa := s_ioa s; s_oa := s_oa s; s_nof := s_nof s; last := last s; nos := nos s; off := off s; size := size s; schs := schs s; fchs := fchs s; sel := sel s; selc := selc s; rcv := b |}.

(* ---- the provider *)
Definition sum (l : list Z) : Z := fold_right Z.add 0 l.
Definition file_size (e : fenv) : Z := sum (map (fun s => Z.of_nat (length s)) (e_secs e)).
Definition section_size (e : fenv) (n : Z) : Z :=
  if (0 <=? n) && (n <? Z.of_nat (length (e_secs e))) then Z.of_nat (length (nth (Z.to_nat n) (e_secs e) [])) else 0.
Definition seg_data (e : fenv) (sec o n : Z) : list Z :=
  let s := if (0 <=? sec) && (sec <? Z.of_nat (length (e_secs e))) then nth (Z.to_nat sec) (e_secs e) [] else [] in
  firstn (Z.to_nat n) (skipn (Z.to_nat o) s ++ repeat 0 (Z.to_nat n)).
Definition get_file (e : fenv) (ca ioa nof : Z) : Z :=      (* -1 found, else the errCode *)
  if negb (e_present e) then 0 else if negb (ca =? e_ca e) then 1 else if negb (ioa =? e_ioa e) then 2
  else if negb (nof =? e_nof e) then 0 else -1.

(* ---- header getters of the received ASDU *)
Definition get_oa (p : alp) (a : asdu) : Z := if cot_sz p <? 2 then -1 else nth 0 (addr a) 0.
Definition get_ca (p : alp) (a : asdu) : Z :=
  let i := Z.to_nat (cot_sz p - 1) in
  nth i (addr a) 0 + (if 1 <? ca_sz p then nth (S i) (addr a) 0 * 256 else 0).
Definition fld (bd : list Z) (i : nat) : Z := nth i bd 0.
Definition le16 (bd : list Z) (i : nat) : Z := fld bd i + 256 * fld bd (S i).
Definition le24 (bd : list Z) (i : nat) : Z := fld bd i + 256 * fld bd (S i) + 65536 * fld bd (S (S i)).

(* FileSegment_getFromBuffer: ioa + 4 octets, then LOS more *)
Definition dec_segment (p : alp) (pl : list Z) : option (Z * list Z) :=
  match dec p 4 pl with
  | None => None
  | Some (ioa, bd) =>
    let los := fld bd 3 in
    if Z.of_nat (length pl) <? ioa_sz p + 4 + los then None
    else Some (ioa, bd ++ firstn (Z.to_nat los) (skipn (Z.to_nat (ioa_sz p + 4)) pl))
  end.

Definition timed_out (c : fcfg) (now : Z) (s : fs) : bool := now >? last s + f_timeout c.

(* negative mirror: setNegative(true); setCOT(cause); send *)
Definition neg_mirror (conn : Z) (a : asdu) (cause : Z) : obs := OMirror conn (set_cot (set_neg a true) cause).

Definition u8 (x : Z) : Z := x mod 256.

(* ------------------------------------------------------------------ CS101_FileServer_handleAsdu *)
Definition h_file_ready (c : fcfg) (e : fenv) (now conn : Z) (a : asdu) (s : fs) : hres :=
  let p := f_alp c in let oa := get_oa p a in
  if negb (e_recv e =? 0) then
    match dec p 6 (payload a) with
    | None => if f_fixd c then HOk s [] Invalid else HFault
    | Some (ioa, bd) =>
      let nof := le16 bd 0 in let lof := le24 bd 2 in let ca := get_ca p a in
      let cb := CFileReady ca ioa nof lof in
      if e_recv e =? 1 then
        let s1 := set_chs (set_oa (set_id (set_rcv s true) ca ioa nof) (u8 oa)) (schs s) 0 in
        HOk (set_st (set_last s1 now) WaitSectionReady) [cb; OSend conn oa ca ioa nof TCallFile] Handled
      else
        let s1 := set_rcv s false in
        if e_recv e =? 3 then HOk s1 [cb; neg_mirror conn a 46] Handled
        else if e_recv e =? 4 then HOk s1 [cb; neg_mirror conn a 47] Handled
        else HOk (set_id s1 ca ioa nof) [cb; OSend conn oa ca ioa nof (TFileReady 0 false)] Handled
    end
  else HOk s [neg_mirror conn a 47] Handled.

Definition h_section_ready (c : fcfg) (now conn : Z) (a : asdu) (s : fs) : hres :=
  let p := f_alp c in let oa := get_oa p a in
  if fstate_eqb (st s) WaitSectionReady then
    match dec p 7 (payload a) with
    | None => if f_fixd c then HOk s [] Invalid else HFault
    | Some (ioa, bd) =>
      let s1 := set_sec s (fld bd 2) 0 (le24 bd 3) in
      HOk (set_st (set_last s1 now) Receive) [OSend conn oa (s_ca s) (s_ioa s) (s_nof s) (TCallSection (fld bd 2))] Handled
    end
  else HOk s [] Handled.

Definition h_segment (c : fcfg) (now conn : Z) (a : asdu) (s : fs) : hres :=
  let p := f_alp c in
  if fstate_eqb (st s) Receive then
    match dec_segment p (payload a) with
    | None => if f_fixd c then HOk s [] Invalid else HFault
    | Some (ioa, bd) =>
      let n := fld bd 2 in let los := fld bd 3 in
      let cb := if rcv s then [CSegment n (off s) (skipn 4 bd)] else [] in
      HOk (set_last (set_sec s (nos s) (off s + los) (size s)) now) cb Handled
    end
  else HOk s [] Handled.

Definition h_last (c : fcfg) (now conn : Z) (a : asdu) (s : fs) : hres :=
  let p := f_alp c in let oa := get_oa p a in
  match dec p 5 (payload a) with
  | None => if f_fixd c then HOk s [] Invalid else HFault
  | Some (ioa, bd) =>
    let n := fld bd 2 in let lsq := fld bd 3 in
    let fin code := if rcv s then [CFinished code] else [] in
    if fstate_eqb (st s) Receive then
      if lsq =? 3 then HOk (set_st (set_last s now) WaitSectionReady) [OSend conn oa (s_ca s) (s_ioa s) (s_nof s) (TAck n 3)] Handled
      else if lsq =? 2 then HOk (set_st s Idle) (fin 8) Handled
      else HOk s [] Handled
    else if fstate_eqb (st s) WaitSectionReady then
      if lsq =? 1 then HOk (set_st (set_last s now) Idle) (OSend conn oa (s_ca s) (s_ioa s) (s_nof s) (TAck n 1) :: fin 0) Handled
      else if lsq =? 2 then HOk (set_st s Idle) (fin 8) Handled
      else HOk s [] Handled
    else HOk s [] Handled
  end.

Definition h_ack (c : fcfg) (e : fenv) (now conn : Z) (a : asdu) (s : fs) : hres :=
  let p := f_alp c in let oa := get_oa p a in
  if negb (fstate_eqb (st s) Idle) then
    match dec p 4 (payload a) with
    | None => if f_fixd c then HOk s [] Invalid else HFault
    | Some (ioa, bd) =>
      let afq := fld bd 3 in
      let file_ack ok :=
        if fstate_eqb (st s) WaitFileAck
        then HOk (set_st (set_sel s false (-1)) Idle) (if sel s then [CComplete ok] else []) Handled
        else HOk (set_st s SendAbort) [] Handled in
      if afq =? 1 then file_ack true
      else if afq mod 16 =? 2 then file_ack false
      else if afq mod 16 =? 4 then
        if fstate_eqb (st s) WaitSectionAck then
          let s1 := set_chs (set_sec s (nos s) 0 (size s)) 0 (fchs s) in
          HOk (set_st (set_last s1 now) Transmit) [OSend conn oa (s_ca s) (s_ioa s) (s_nof s) (TSectionReady (nos s) (size s))] Handled
        else HOk (set_st s SendAbort) [] Handled
      else if afq mod 16 =? 3 then
        if fstate_eqb (st s) WaitSectionAck then
          let fc := if f_fixd c then u8 (fchs s + schs s) else fchs s in
          let n := u8 (nos s + 1) in
          let next := section_size e (n - 1) in
          if next <=? 0 then
            let s1 := set_chs (set_sec s n 0 (size s)) 0 fc in
            HOk (set_st (set_last s1 now) WaitFileAck) [CSectionSize (n - 1) next; OSend conn oa (s_ca s) (s_ioa s) (s_nof s) (TLastSection n fc)] Handled
          else
            let s1 := set_chs (set_sec s n 0 next) 0 fc in
            HOk (set_st (set_last s1 now) WaitSectionCall) [CSectionSize (n - 1) next; OSend conn oa (s_ca s) (s_ioa s) (s_nof s) (TSectionReady n next)] Handled
        else HOk (set_st s SendAbort) [] Handled
      else HOk s [] Handled
    end
  else HOk s [OMirror conn (set_cot a 46)] Handled.

Definition h_call (c : fcfg) (e : fenv) (now conn : Z) (a : asdu) (s : fs) : hres :=
  let p := f_alp c in let oa := get_oa p a in
  if cot a =? 13 then
    match dec p 4 (payload a) with
    | None => if f_fixd c then HOk s [] Invalid else HFault
    | Some (ioa, bd) =>
      let nof := le16 bd 0 in let msgnos := fld bd 2 in let scq := fld bd 3 in let ca := get_ca p a in
      let not_selected := OMirror conn (set_neg (set_cot a (if negb (ca =? s_ca s) then 46 else 47)) true) in
      if scq =? 1 then
        if fstate_eqb (st s) Idle then
          let r := get_file e ca ioa nof in
          if r =? -1 then
            let s1 := set_id (set_sel s true conn) ca ioa nof in
            HOk (set_st (set_last s1 now) WaitFileCall)
                [CGetFile ca ioa nof r; CFileSize (file_size e); OSend conn oa ca ioa nof (TFileReady (file_size e) true)] Handled
          else if r =? 1 then HOk s [CGetFile ca ioa nof r; neg_mirror conn a 46] Handled
          else if r =? 2 then HOk s [CGetFile ca ioa nof r; neg_mirror conn a 47] Handled
          else HOk (set_id s ca ioa nof) [CGetFile ca ioa nof r; OSend conn oa ca ioa nof (TFileReady 0 false)] Handled
        else HOk s [] Handled
      else if scq =? 3 then
        if fstate_eqb (st s) Idle then HOk (set_sel s false (-1)) [] Handled else HOk s [] Handled
      else if scq =? 2 then
        if fstate_eqb (st s) WaitFileCall then
          if negb (ioa =? s_ioa s) || negb (ca =? s_ca s) then HOk s [not_selected] Handled
          else
            let sz := section_size e 0 in
            let s1 := set_chs (set_sec s 1 0 sz) (if f_fixd c then 0 else schs s) 0 in
            HOk (set_st (set_last s1 now) WaitSectionCall) [CSectionSize 0 sz; OSend conn oa (s_ca s) (s_ioa s) (s_nof s) (TSectionReady 1 sz)] Handled
        else HOk s [] Handled
      else if scq =? 6 then
        if fstate_eqb (st s) WaitSectionCall then
          if negb (ioa =? s_ioa s) || negb (ca =? s_ca s) then HOk s [not_selected] Handled
          else if pn a then
            let n := u8 (nos s + 1) in
            let sz := section_size e (n - 1) in
            let s1 := set_sec s n 0 sz in
            if 0 <? sz then HOk (set_st (set_last s1 now) WaitSectionCall) [CSectionSize (n - 1) sz; OSend conn oa (s_ca s) (s_ioa s) (s_nof s) (TSectionReady n sz)] Handled
            else HOk (set_st (set_last s1 now) WaitFileAck) [CSectionSize (n - 1) sz; OSend conn oa (s_ca s) (s_ioa s) (s_nof s) (TLastSection n (fchs s))] Handled
          else
            let sz := section_size e (msgnos - 1) in
            if 0 <? sz then HOk (set_st (set_sec s msgnos 0 sz) Transmit) [CSectionSize (msgnos - 1) sz] Handled
            else HOk (set_last (set_sec s (nos s) (off s) sz) now) [CSectionSize (msgnos - 1) sz; OMirror conn (set_neg a true)] Handled
        else HOk s [] Handled
      else HOk s [] Handled
    end
  else HOk s [] Handled.

Definition handle_asdu (c : fcfg) (e : fenv) (now conn : Z) (a : asdu) (s : fs) : hres :=
  if (120 <=? tid a) && (tid a <=? 127) then
    let s := if negb (fstate_eqb (st s) Idle) && timed_out c now s then set_st s Idle else s in
    if tid a =? 120 then h_file_ready c e now conn a s
    else if tid a =? 121 then h_section_ready c now conn a s
    else if tid a =? 125 then h_segment c now conn a s
    else if tid a =? 123 then h_last c now conn a s
    else if tid a =? 124 then h_ack c e now conn a s
    else if tid a =? 122 then h_call c e now conn a s
    else HOk s [] Handled
  else HOk s [] NotHandled.

(* ------------------------------------------------------------------ CS101_FileServer_runTask *)
Definition run_task (c : fcfg) (e : fenv) (now conn : Z) (s : fs) : fs * list obs :=
  if negb (fstate_eqb (st s) Idle) then
    let '(s1, o) :=
      if fstate_eqb (st s) Transmit && (selc s =? conn) && sel s then
        let cur := size s - off s in
        if 0 <? cur then
          let n := if max_seg c <? cur then max_seg c else cur in
          let data := seg_data e (nos s - 1) (off s) n in
          (set_chs (set_last (set_sec s (nos s) (off s + n) (size s)) now) (u8 (schs s + sum data)) (fchs s),
           [CSegData (nos s - 1) (off s) n; OSend conn (s_oa s) (s_ca s) (s_ioa s) (s_nof s) (TSegment (nos s) data)])
        else
          let s2 := if f_fixd c then s else set_chs s 0 (u8 (fchs s + schs s)) in
          (set_st (set_last s2 now) WaitSectionAck, [OSend conn (s_oa s) (s_ca s) (s_ioa s) (s_nof s) (TLastSegment (nos s) (schs s))])
      else (s, []) in
    if timed_out c now s1 then (set_st s1 Idle, o) else (s1, o)
  else (s, []).

(* ------------------------------------------------------------------ events *)
Inductive event := ERx (conn : Z) (a : asdu) | ERun (conn : Z) | EAdv (ms : Z).

Inductive rres := RFault | ROk (s : fs) (now : Z) (o : list obs).

Fixpoint run (c : fcfg) (e : fenv) (evs : list event) (s : fs) (now : Z) (acc : list obs) : rres :=
  match evs with
  | [] => ROk s now acc
  | ERx conn a :: rest =>
    match handle_asdu c e now conn a s with
    | HFault => RFault
    | HOk s' o _ => run c e rest s' now (acc ++ o)
    end
  | ERun conn :: rest => let '(s', o) := run_task c e now conn s in run c e rest s' now (acc ++ o)
  | EAdv ms :: rest => run c e rest s (now + ms) acc
  end.

(* ------------------------------------------------------------------ octets of the ASDUs the plugin builds *)
Definition enc_nof (nof : Z) : list Z := [nof mod 256; (nof / 256) mod 256].
Definition enc24 (v : Z) : list Z := [v mod 256; (v / 256) mod 256; (v / 65536) mod 256].
Definition enc_ftx (t : ftx) (nof : Z) : Z * list Z :=       (* type id, octets after the IOA *)
  match t with
  | TFileReady lof pos => (120, enc_nof nof ++ enc24 lof ++ [if pos then 0 else 128])
  | TSectionReady n los => (121, enc_nof nof ++ [n mod 256] ++ enc24 los ++ [0])
  | TCallFile => (122, enc_nof nof ++ [0; 2])
  | TCallSection n => (122, enc_nof nof ++ [n mod 256; 6])
  | TLastSegment n chs => (123, enc_nof nof ++ [n mod 256; 3; chs mod 256])
  | TLastSection n chs => (123, enc_nof nof ++ [n mod 256; 1; chs mod 256])
  | TAck n afq => (124, enc_nof nof ++ [n mod 256; afq mod 256])
  | TSegment n data => (125, enc_nof nof ++ [n mod 256; Z.of_nat (length data) mod 256] ++ data)
  end.
Definition enc_send (p : alp) (oa ca ioa nof : Z) (t : ftx) : list Z :=
  let '(ty, body) := enc_ftx t nof in
  [ty; 1; 13] ++ (if 1 <? cot_sz p then [oa mod 256] else []) ++ [ca mod 256] ++ (if 1 <? ca_sz p then [(ca / 256) mod 256] else [])
  ++ ioa_enc p ioa ++ body.
