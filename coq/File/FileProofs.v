(* C20: proofs about the transcribed file server. *)
From Coq Require Import ZArith List Bool Lia.
From L60870 Require Import Dispatch.DispatchBase File.FileServer File.FileSpec.
Import ListNotations.
Local Open Scope Z_scope.

Lemma sum_app a b : sum (a ++ b) = sum a + sum b.
Proof. unfold sum. induction a as [|x a IH]; cbn; [reflexivity|]. fold (sum (a ++ b)) in *. fold (sum a) in *. unfold sum in *. lia. Qed.

Lemma skipn_skipn' {A} (l : list A) : forall a b, skipn a (skipn b l) = skipn (b + a) l.
Proof.
  induction l as [|x l IH]; intros a b.
  - rewrite !skipn_nil. reflexivity.
  - destruct b; [reflexivity|]. cbn [skipn Nat.add]. apply IH.
Qed.

Lemma run_acc c e evs : forall s now acc,
  run c e evs s now acc = match run c e evs s now [] with ROk s' n' o => ROk s' n' (acc ++ o) | RFault => RFault end.
Proof.
  induction evs as [|ev evs IH]; intros s now acc; cbn [run].
  - rewrite app_nil_r. reflexivity.
  - destruct ev as [conn a|conn|ms].
    + destruct (handle_asdu c e now conn a s) as [|s' o r]; [reflexivity|].
      rewrite IH. rewrite (IH s' now ([] ++ o)). destruct (run c e evs s' now []); [reflexivity|]. cbn [app]. rewrite app_assoc. reflexivity.
    + destruct (run_task c e now conn s) as [s' o].
      rewrite IH. rewrite (IH s' now ([] ++ o)). destruct (run c e evs s' now []); [reflexivity|]. cbn [app]. rewrite app_assoc. reflexivity.
    + apply IH.
Qed.

Lemma run_app c e ev1 : forall ev2 s now acc,
  run c e (ev1 ++ ev2) s now acc =
  match run c e ev1 s now acc with ROk s' n' o => run c e ev2 s' n' o | RFault => RFault end.
Proof.
  induction ev1 as [|ev ev1 IH]; intros ev2 s now acc; cbn [app run]; [reflexivity|].
  destruct ev as [conn a|conn|ms].
  - destruct (handle_asdu c e now conn a s); [reflexivity|apply IH].
  - destruct (run_task c e now conn s). apply IH.
  - apply IH.
Qed.

(* a state of the download direction: everything except the progress fields comes from `b` *)
Definition mkS (b : fs) (x : fstate) (n o sz sc fc lt : Z) : fs :=
  {| st := x; s_ca := s_ca b; s_ioa := s_ioa b; s_oa := s_oa b; s_nof := s_nof b; last := lt; nos := n; off := o; size := sz;
     schs := sc; fchs := fc; sel := sel b; selc := selc b; rcv := rcv b |}.

Definition section (e : fenv) (k : Z) (sec : list Z) : Prop :=
  1 <= k <= Z.of_nat (length (e_secs e)) /\ nth (Z.to_nat (k - 1)) (e_secs e) [] = sec.
Definition len (l : list Z) : Z := Z.of_nat (length l).

Lemma no_timeout c now lt : 0 <= f_timeout c -> lt = now -> (now >? lt + f_timeout c) = false.
Proof. intros H ->. rewrite Z.gtb_ltb. apply Z.ltb_ge. lia. Qed.

Lemma seg_data_in e k sec o n : section e k sec -> 0 <= o -> 0 <= n -> o + n <= len sec ->
  seg_data e (k - 1) o n = firstn (Z.to_nat n) (skipn (Z.to_nat o) sec).
Proof.
  intros [Hk Hs] Ho Hn Hl. unfold seg_data.
  replace ((0 <=? k - 1) && (k - 1 <? Z.of_nat (length (e_secs e)))) with true
    by (symmetry; apply andb_true_intro; split; [apply Z.leb_le|apply Z.ltb_lt]; lia).
  rewrite Hs. rewrite firstn_app.
  replace (Z.to_nat n - length (skipn (Z.to_nat o) sec))%nat with 0%nat.
  - cbn [firstn]. apply app_nil_r.
  - rewrite skipn_length. unfold len in Hl. lia.
Qed.

(* idle runs: in WaitSectionAck (no timeout) runTask does nothing *)
Lemma idle_runs c e n : forall s now, 0 <= f_timeout c -> st s = WaitSectionAck -> last s = now ->
  run c e (repeat (ERun 0) n) s now [] = ROk s now [].
Proof.
  induction n as [|n IH]; intros s now Ht Hs Hl; cbn [repeat run]; [reflexivity|].
  unfold run_task. rewrite Hs. cbn [fstate_eqb negb andb].
  unfold timed_out. rewrite (no_timeout c now (last s) Ht Hl). cbn [app]. apply IH; assumption.
Qed.

Definition only_transfer (k : Z) (o : obs) : bool :=
  match o with
  | CSegData _ _ _ | OSend _ _ _ _ _ (TLastSegment _ _) => true
  | OSend _ _ _ _ _ (TSegment n _) => n =? k
  | _ => false
  end.

(* the segment pump: from offset o of section k, enough runTask calls send exactly the remaining octets, in segments
   no longer than max_seg, then one last-segment message with the running checksum *)
Lemma transmit_runs c e b k sec : good_cfg c -> section e k sec -> sel b = true -> selc b = 0 ->
  forall n o sc fc now, 0 <= o <= len sec -> 0 <= sc < 256 -> (Z.to_nat (len sec - o) < n)%nat ->
  exists obs,
    run c e (repeat (ERun 0) n) (mkS b Transmit k o (len sec) sc fc now) now [] =
      ROk (mkS b WaitSectionAck k (len sec) (len sec) ((sc + sum (skipn (Z.to_nat o) sec)) mod 256) fc now) now obs /\
    segments k obs = skipn (Z.to_nat o) sec /\ forallb (seg_len_ok (max_seg c)) obs = true /\
    last_segments obs = [(k, (sc + sum (skipn (Z.to_nat o) sec)) mod 256)] /\ forallb (only_transfer k) obs = true.
Proof.
  intros (Hm & Ht & Hf) Hsec Hsel Hselc. induction n as [|n IH]; intros o sc fc now Ho Hsc Hn; [lia|].
  cbn [repeat run]. unfold run_task.
  cbn [mkS st selc sel fstate_eqb negb andb size off nos schs fchs s_oa s_ca s_ioa s_nof].
  rewrite Hsel, Hselc. cbn [Z.eqb andb].
  destruct (0 <? len sec - o) eqn:Hcur.
  - (* a segment *)
    apply Z.ltb_lt in Hcur.
    set (m := if max_seg c <? len sec - o then max_seg c else len sec - o).
    assert (Hmr : 1 <= m /\ m <= max_seg c /\ o + m <= len sec).
    { unfold m. destruct (max_seg c <? len sec - o) eqn:E; [apply Z.ltb_lt in E|apply Z.ltb_ge in E]; lia. }
    rewrite (seg_data_in e k sec o m Hsec) by lia.
    set (data := firstn (Z.to_nat m) (skipn (Z.to_nat o) sec)).
    assert (Hdl : length data = Z.to_nat m).
    { unfold data. rewrite firstn_length, skipn_length. unfold len in Hmr. lia. }
    unfold timed_out. cbn [set_chs set_last set_sec last st]. rewrite (no_timeout c now now Ht eq_refl).
    rewrite run_acc.
    change (set_chs (set_last (set_sec (mkS b Transmit k o (len sec) sc fc now) k (o + m) (len sec)) now) (u8 (sc + sum data)) fc)
      with (mkS b Transmit k (o + m) (len sec) (u8 (sc + sum data)) fc now).
    destruct (IH (o + m) (u8 (sc + sum data)) fc now) as (obs & R & S1 & S2 & S3 & S4).
    { lia. } { unfold u8. apply Z.mod_pos_bound. lia. } { lia. }
    rewrite R.
    assert (Hsplit : skipn (Z.to_nat o) sec = data ++ skipn (Z.to_nat (o + m)) sec).
    { unfold data. rewrite <- (firstn_skipn (Z.to_nat m) (skipn (Z.to_nat o) sec)) at 1. f_equal.
      rewrite skipn_skipn'. f_equal. lia. }
    assert (Hchs : (u8 (sc + sum data) + sum (skipn (Z.to_nat (o + m)) sec)) mod 256 = (sc + sum (skipn (Z.to_nat o) sec)) mod 256).
    { rewrite Hsplit, sum_app. unfold u8. rewrite Zplus_mod_idemp_l. f_equal. lia. }
    rewrite Hchs in *.
    eexists. split; [reflexivity|]. cbn [app].
    split; [|split; [|split]].
    + unfold segments. cbn [map concat seg_of]. rewrite Z.eqb_refl. cbn [app]. fold (segments k obs). rewrite S1. symmetry. exact Hsplit.
    + cbn [forallb seg_len_ok andb]. rewrite S2. rewrite Hdl. replace (Z.of_nat (Z.to_nat m) <=? max_seg c) with true by (symmetry; apply Z.leb_le; lia). reflexivity.
    + unfold last_segments. cbn [map concat app]. exact S3.
    + cbn [forallb only_transfer andb]. rewrite Z.eqb_refl. exact S4.
  - (* nothing left: the last-segment message *)
    apply Z.ltb_ge in Hcur. assert (o = len sec) by lia. subst o.
    rewrite Hf. unfold timed_out. cbn [set_st set_last last st]. rewrite (no_timeout c now now Ht eq_refl).
    rewrite run_acc.
    change (set_st (set_last (mkS b Transmit k (len sec) (len sec) sc fc now) now) WaitSectionAck)
      with (mkS b WaitSectionAck k (len sec) (len sec) sc fc now).
    rewrite idle_runs by (try assumption; reflexivity).
    assert (Hnil : skipn (Z.to_nat (len sec)) sec = []) by (apply skipn_all2; unfold len; lia).
    rewrite Hnil. cbn [sum fold_right]. rewrite Z.add_0_r, Z.mod_small by lia.
    eexists. split; [reflexivity|]. cbn. repeat split; reflexivity.
Qed.

(* ------------------------------------------------------------------ single messages of the procedure *)
Lemma section_size_in e k sec : section e k sec -> section_size e (k - 1) = len sec.
Proof.
  intros [Hk Hs]. unfold section_size.
  replace ((0 <=? k - 1) && (k - 1 <? Z.of_nat (length (e_secs e)))) with true
    by (symmetry; apply andb_true_intro; split; [apply Z.leb_le|apply Z.ltb_lt]; lia).
  rewrite Hs. reflexivity.
Qed.
Lemma section_size_out e k : Z.of_nat (length (e_secs e)) < k -> section_size e (k - 1) = 0.
Proof.
  intros Hk. unfold section_size.
  replace (k - 1 <? Z.of_nat (length (e_secs e))) with false by (symmetry; apply Z.ltb_ge; lia).
  rewrite andb_false_r. reflexivity.
Qed.

Lemma to_mkS c b x n o sz sc fc now : 0 <= f_timeout c -> timed_out c now (mkS b x n o sz sc fc now) = false.
Proof. intros H. unfold timed_out. cbn [mkS last]. apply no_timeout; [assumption|reflexivity]. Qed.

Definition bound (b : fs) (e : fenv) : Prop := s_ca b = e_ca e /\ s_ioa b = e_ioa e /\ sel b = true /\ selc b = 0.

Ltac msg_open H := destruct H as (n0 & n1 & Hnof & Htid & Hcot & Hpn & Hca & Hdec).
Ltac msg_open3 H := destruct H as (n0 & n1 & nx & Hnof & Htid & Hcot & Hpn & Hca & Hdec).
Ltac hstart := unfold handle_asdu; match goal with H : tid _ = _ |- _ => rewrite H end; cbn [Z.leb Z.compare Pos.compare Pos.compare_cont andb Z.eqb Pos.eqb].

Lemma step_call_section c e b k sec fc now a : good_cfg c -> bound b e -> section e k sec -> sec <> [] ->
  is_call_section c e a k ->
  handle_asdu c e now 0 a (mkS b WaitSectionCall k 0 (len sec) 0 fc now) =
  HOk (mkS b Transmit k 0 (len sec) 0 fc now) [CSectionSize (k - 1) (len sec)] Handled.
Proof.
  intros (Hm & Ht & Hf) (B1 & B2 & B3 & B4) Hsec Hne Hmsg. msg_open Hmsg. hstart.
  rewrite to_mkS by assumption. cbn [mkS st fstate_eqb negb andb].
  unfold h_call. rewrite Hcot. cbn [Z.eqb Pos.eqb]. cbn [length Z.of_nat Pos.of_succ_nat Pos.succ] in Hdec. rewrite Hdec.
  cbn [mkS fld nth Z.eqb Pos.eqb st fstate_eqb s_ioa s_ca]. rewrite Hca, B1, B2, !Z.eqb_refl. cbn [negb orb]. rewrite Hpn.
  rewrite (section_size_in e k sec Hsec).
  replace (0 <? len sec) with true by (symmetry; apply Z.ltb_lt; unfold len; destruct sec; [congruence|cbn; lia]).
  reflexivity.
Qed.

Lemma step_nack_section c e b k L sc fc now a : good_cfg c -> bound b e -> is_ack c e a 4 ->
  handle_asdu c e now 0 a (mkS b WaitSectionAck k L L sc fc now) =
  HOk (mkS b Transmit k 0 L 0 fc now) [OSend 0 (get_oa (f_alp c) a) (s_ca b) (s_ioa b) (s_nof b) (TSectionReady k L)] Handled.
Proof.
  intros (Hm & Ht & Hf) (B1 & B2 & B3 & B4) Hmsg. msg_open3 Hmsg. hstart.
  rewrite to_mkS by assumption. cbn [mkS st fstate_eqb negb andb].
  unfold h_ack. cbn [st fstate_eqb negb]. cbn [length Z.of_nat Pos.of_succ_nat Pos.succ] in Hdec. rewrite Hdec.
  cbn [mkS fld nth]. reflexivity.
Qed.

Lemma step_ack_section_next c e b k L sc fc now a nxt : good_cfg c -> bound b e -> is_ack c e a 3 ->
  section e (k + 1) nxt -> nxt <> [] -> 0 <= k < 255 ->
  handle_asdu c e now 0 a (mkS b WaitSectionAck k L L sc fc now) =
  HOk (mkS b WaitSectionCall (k + 1) 0 (len nxt) 0 (u8 (fc + sc)) now)
      [CSectionSize k (len nxt); OSend 0 (get_oa (f_alp c) a) (s_ca b) (s_ioa b) (s_nof b) (TSectionReady (k + 1) (len nxt))] Handled.
Proof.
  intros (Hm & Ht & Hf) (B1 & B2 & B3 & B4) Hmsg Hsec Hne Hk. msg_open3 Hmsg. hstart.
  rewrite to_mkS by assumption. cbn [mkS st fstate_eqb negb andb].
  unfold h_ack. cbn [st fstate_eqb negb]. cbn [length Z.of_nat Pos.of_succ_nat Pos.succ] in Hdec. rewrite Hdec.
  cbn [mkS fld nth nos fchs schs]. rewrite Hf.
  assert (E : u8 (k + 1) = k + 1) by (unfold u8; apply Z.mod_small; lia). rewrite E.
  replace (k + 1 - 1) with k by lia.
  pose proof (section_size_in e (k + 1) nxt Hsec) as Hs. replace (k + 1 - 1) with k in Hs by lia. rewrite Hs.
  replace (len nxt <=? 0) with false by (symmetry; apply Z.leb_gt; unfold len; destruct nxt; [congruence|cbn; lia]).
  reflexivity.
Qed.

Lemma step_ack_section_last c e b k L sc fc now a : good_cfg c -> bound b e -> is_ack c e a 3 ->
  k = Z.of_nat (length (e_secs e)) -> 0 <= k < 255 ->
  handle_asdu c e now 0 a (mkS b WaitSectionAck k L L sc fc now) =
  HOk (mkS b WaitFileAck (k + 1) 0 L 0 (u8 (fc + sc)) now)
      [CSectionSize k 0; OSend 0 (get_oa (f_alp c) a) (s_ca b) (s_ioa b) (s_nof b) (TLastSection (k + 1) (u8 (fc + sc)))] Handled.
Proof.
  intros (Hm & Ht & Hf) (B1 & B2 & B3 & B4) Hmsg Hk Hr. msg_open3 Hmsg. hstart.
  rewrite to_mkS by assumption. cbn [mkS st fstate_eqb negb andb].
  unfold h_ack. cbn [st fstate_eqb negb]. cbn [length Z.of_nat Pos.of_succ_nat Pos.succ] in Hdec. rewrite Hdec.
  cbn [mkS fld nth nos fchs schs]. rewrite Hf.
  assert (E : u8 (k + 1) = k + 1) by (unfold u8; apply Z.mod_small; lia). rewrite E.
  pose proof (section_size_out e (k + 1) ltac:(lia)) as Hs. rewrite Hs. cbn [Z.leb Z.compare].
  replace (k + 1 - 1) with k by lia. reflexivity.
Qed.

Lemma step_ack_file c e b k o L sc fc now a : good_cfg c -> bound b e -> is_ack c e a 1 ->
  handle_asdu c e now 0 a (mkS b WaitFileAck k o L sc fc now) =
  HOk (set_st (set_sel (mkS b WaitFileAck k o L sc fc now) false (-1)) Idle) [CComplete true] Handled.
Proof.
  intros (Hm & Ht & Hf) (B1 & B2 & B3 & B4) Hmsg. msg_open3 Hmsg. hstart.
  rewrite to_mkS by assumption. cbn [mkS st fstate_eqb negb andb].
  unfold h_ack. cbn [st fstate_eqb negb]. cbn [length Z.of_nat Pos.of_succ_nat Pos.succ] in Hdec. rewrite Hdec.
  cbn [mkS fld nth Z.eqb Pos.eqb st fstate_eqb sel]. rewrite B3. reflexivity.
Qed.

(* select + call file from the idle state *)
Definition selected (s : fs) (e : fenv) : fs :=
  {| st := Idle; s_ca := e_ca e; s_ioa := e_ioa e; s_oa := s_oa s; s_nof := e_nof e; last := last s; nos := nos s; off := off s; size := size s;
     schs := schs s; fchs := fchs s; sel := true; selc := 0; rcv := rcv s |}.

Lemma step_select c e s now a : good_cfg c -> good_env e -> st s = Idle -> is_select c e a ->
  handle_asdu c e now 0 a s =
  HOk (mkS (selected s e) WaitFileCall (nos s) (off s) (size s) (schs s) (fchs s) now)
      [CGetFile (e_ca e) (e_ioa e) (e_nof e) (-1); CFileSize (file_size e);
       OSend 0 (get_oa (f_alp c) a) (e_ca e) (e_ioa e) (e_nof e) (TFileReady (file_size e) true)] Handled.
Proof.
  intros (Hm & Ht & Hf) (E1 & E2 & E3) Hs Hmsg. msg_open3 Hmsg. hstart.
  rewrite Hs. cbn [fstate_eqb negb andb].
  unfold h_call. rewrite Hcot. cbn [Z.eqb Pos.eqb]. cbn [length Z.of_nat Pos.of_succ_nat Pos.succ] in Hdec. rewrite Hdec.
  cbn [mkS fld nth Z.eqb Pos.eqb le16]. rewrite Hs. cbn [fstate_eqb]. rewrite Hca.
  change (le16 [n0; n1; nx; 1] 0) with (n0 + 256 * n1). unfold nof_ok in Hnof. rewrite Hnof.
  unfold get_file. rewrite E1, !Z.eqb_refl. cbn [negb Z.eqb].
  destruct s. cbn in Hs. subst. reflexivity.
Qed.

Lemma step_call_file c e s now a fst_sec : good_cfg c -> good_env e -> is_call_file c e a -> section e 1 fst_sec ->
  let b := selected s e in
  handle_asdu c e now 0 a (mkS b WaitFileCall (nos s) (off s) (size s) (schs s) (fchs s) now) =
  HOk (mkS b WaitSectionCall 1 0 (len fst_sec) 0 0 now)
      [CSectionSize 0 (len fst_sec); OSend 0 (get_oa (f_alp c) a) (e_ca e) (e_ioa e) (e_nof e) (TSectionReady 1 (len fst_sec))] Handled.
Proof.
  intros (Hm & Ht & Hf) (E1 & E2 & E3) Hmsg Hsec b. msg_open3 Hmsg. hstart.
  rewrite to_mkS by assumption. cbn [mkS st fstate_eqb negb andb].
  unfold h_call. rewrite Hcot. cbn [Z.eqb Pos.eqb]. cbn [length Z.of_nat Pos.of_succ_nat Pos.succ] in Hdec. rewrite Hdec.
  cbn [mkS fld nth Z.eqb Pos.eqb st fstate_eqb s_ioa s_ca b selected]. rewrite Hca, !Z.eqb_refl. cbn [negb orb].
  rewrite Hf. pose proof (section_size_in e 1 fst_sec Hsec) as Hs. cbn in Hs. rewrite Hs. reflexivity.
Qed.

(* ------------------------------------------------------------------ one section, with any number of repetitions *)
Lemma segments_app k a b : segments k (a ++ b) = segments k a ++ segments k b.
Proof. unfold segments. rewrite map_app, concat_app. reflexivity. Qed.
Lemma last_segments_app a b : last_segments (a ++ b) = last_segments a ++ last_segments b.
Proof. unfold last_segments. rewrite map_app, concat_app. reflexivity. Qed.
Lemma last_sections_app a b : last_sections (a ++ b) = last_sections a ++ last_sections b.
Proof. unfold last_sections. rewrite map_app, concat_app. reflexivity. Qed.
Lemma completes_app a b : completes (a ++ b) = completes a ++ completes b.
Proof. unfold completes. rewrite map_app, concat_app. reflexivity. Qed.

(* summary of what was sent for section k: r complete copies of the section, nothing of other sections, every
   segment within the size limit, r last-segment messages each carrying the section's checksum *)
Definition sec_obs (c : fcfg) (k : Z) (sec : list Z) (r : nat) (os : list obs) : Prop :=
  segments k os = concat (repeat sec r) /\ (forall k', k' <> k -> segments k' os = []) /\
  forallb (seg_len_ok (max_seg c)) os = true /\ last_segments os = repeat (k, chk sec) r /\
  completes os = [] /\ last_sections os = [].

Lemma sec_obs_app c k sec r1 r2 o1 o2 : sec_obs c k sec r1 o1 -> sec_obs c k sec r2 o2 -> sec_obs c k sec (r1 + r2) (o1 ++ o2).
Proof.
  intros (A1 & A2 & A3 & A4 & A5 & A6) (B1 & B2 & B3 & B4 & B5 & B6). unfold sec_obs.
  rewrite segments_app, last_segments_app, completes_app, last_sections_app, forallb_app, A1, B1, A3, B3, A4, B4, A5, B5, A6, B6.
  rewrite !repeat_app, concat_app. repeat split; try reflexivity.
  intros k' Hk. rewrite segments_app, (A2 k' Hk), (B2 k' Hk). reflexivity.
Qed.

Lemma only_transfer_quiet k os : forallb (only_transfer k) os = true ->
  (forall k', k' <> k -> segments k' os = []) /\ completes os = [] /\ last_sections os = [].
Proof.
  induction os as [|o os IH]; intros H; [repeat split; reflexivity|].
  cbn [forallb] in H. apply andb_prop in H as [Ho H]. destruct (IH H) as (I1 & I2 & I3).
  split; [|split].
  - intros k' Hk. unfold segments. cbn [map concat]. fold (segments k' os). rewrite (I1 k' Hk), app_nil_r.
    destruct o as [? ? ? ? ? t| | | | | | | | |]; try reflexivity. destruct t; try reflexivity.
    cbn in Ho. apply Z.eqb_eq in Ho. subst. cbn. replace (k =? k') with false by (symmetry; apply Z.eqb_neq; congruence). reflexivity.
  - unfold completes. cbn [map concat]. fold (completes os). rewrite I2.
    destruct o as [? ? ? ? ? t| | | | | | | | |]; try reflexivity; try discriminate.
  - unfold last_sections. cbn [map concat]. fold (last_sections os). rewrite I3.
    destruct o as [? ? ? ? ? t| | | | | | | | |]; try reflexivity. destruct t; try reflexivity; discriminate.
Qed.

Definition runs (sec : list Z) : list event := repeat (ERun 0) (S (length sec)).

(* one transmission of the whole section from the Transmit state *)
Lemma one_round c e b k sec fc now : good_cfg c -> bound b e -> section e k sec ->
  exists os, run c e (runs sec) (mkS b Transmit k 0 (len sec) 0 fc now) now [] =
             ROk (mkS b WaitSectionAck k (len sec) (len sec) (chk sec) fc now) now os /\ sec_obs c k sec 1 os.
Proof.
  intros Hc (B1 & B2 & B3 & B4) Hsec.
  destruct (transmit_runs c e b k sec Hc Hsec B3 B4 (S (length sec)) 0 0 fc now) as (os & R & S1 & S2 & S3 & S4).
  { unfold len. lia. } { lia. } { unfold len. lia. }
  cbn [Z.to_nat skipn Z.add] in *. fold (chk sec) in *.
  exists os. split; [exact R|]. destruct (only_transfer_quiet k os S4) as (Q1 & Q2 & Q3).
  unfold sec_obs. cbn [repeat concat]. rewrite app_nil_r. repeat split; assumption.
Qed.

Definition round_events (sec : list Z) (na : asdu) : list event := ERx 0 na :: runs sec.

Lemma repeated_rounds c e b k sec fc now : good_cfg c -> bound b e -> section e k sec ->
  forall nacks, Forall (fun a => is_ack c e a 4) nacks ->
  exists os, run c e (concat (map (round_events sec) nacks)) (mkS b WaitSectionAck k (len sec) (len sec) (chk sec) fc now) now [] =
             ROk (mkS b WaitSectionAck k (len sec) (len sec) (chk sec) fc now) now os /\ sec_obs c k sec (length nacks) os.
Proof.
  intros Hc Hb Hsec. induction nacks as [|na nacks IH]; intros HF.
  - exists []. split; [reflexivity|]. unfold sec_obs. cbn. repeat split; reflexivity.
  - inversion HF as [|? ? Hna HF']; subst. destruct (IH HF') as (os2 & R2 & O2).
    destruct (one_round c e b k sec fc now Hc Hb Hsec) as (os1 & R1 & O1).
    cbn [map concat]. unfold round_events at 1. cbn [app run].
    rewrite (step_nack_section c e b k (len sec) (chk sec) fc now na Hc Hb Hna). cbn [app].
    rewrite run_app, run_acc, R1, run_acc, R2.
    eexists. split; [reflexivity|].
    cbn [length]. change (S (length nacks)) with (0 + (1 + length nacks))%nat.
    apply (sec_obs_app c k sec 0 (1 + length nacks) [_] (os1 ++ os2)).
    + unfold sec_obs. cbn. repeat split; reflexivity.
    + apply sec_obs_app; assumption.
Qed.

(* ------------------------------------------------------------------ the whole file *)
Definition plan_item := (asdu * list asdu * asdu)%type.      (* call section, negative section acks, positive section ack *)
Definition section_events (pl : plan_item) (sec : list Z) : list event :=
  [ERx 0 (fst (fst pl))] ++ runs sec ++ concat (map (round_events sec) (snd (fst pl))) ++ [ERx 0 (snd pl)].
Fixpoint file_events (pls : list plan_item) (secs : list (list Z)) : list event :=
  match pls, secs with
  | pl :: pls', sec :: secs' => section_events pl sec ++ file_events pls' secs'
  | _, _ => []
  end.
Fixpoint plan_ok (c : fcfg) (e : fenv) (k : Z) (pls : list plan_item) : Prop :=
  match pls with
  | [] => True
  | pl :: t => is_call_section c e (fst (fst pl)) k /\ Forall (fun a => is_ack c e a 4) (snd (fst pl)) /\ is_ack c e (snd pl) 3 /\ plan_ok c e (k + 1) t
  end.

Inductive file_obs (c : fcfg) : Z -> list (list Z) -> list plan_item -> list obs -> Prop :=
| fo_nil k : file_obs c k [] [] []
| fo_cons k sec secs pl pls o os : sec_obs c k sec (S (length (snd (fst pl)))) o -> file_obs c (k + 1) secs pls os ->
                                   file_obs c k (sec :: secs) (pl :: pls) (o ++ os).

Lemma section_upto_ack c e b k sec fc now (pl : plan_item) : good_cfg c -> bound b e -> section e k sec -> sec <> [] ->
  is_call_section c e (fst (fst pl)) k -> Forall (fun a => is_ack c e a 4) (snd (fst pl)) ->
  exists os, run c e ([ERx 0 (fst (fst pl))] ++ runs sec ++ concat (map (round_events sec) (snd (fst pl))))
                 (mkS b WaitSectionCall k 0 (len sec) 0 fc now) now [] =
             ROk (mkS b WaitSectionAck k (len sec) (len sec) (chk sec) fc now) now os /\
             sec_obs c k sec (S (length (snd (fst pl)))) os.
Proof.
  intros Hc Hb Hsec Hne Hcall Hn.
  destruct (one_round c e b k sec fc now Hc Hb Hsec) as (os1 & R1 & O1).
  destruct (repeated_rounds c e b k sec fc now Hc Hb Hsec _ Hn) as (os2 & R2 & O2).
  cbn [app run]. rewrite (step_call_section c e b k sec fc now _ Hc Hb Hsec Hne Hcall). cbn [app].
  rewrite run_app, run_acc, R1, run_acc, R2.
  eexists. split; [reflexivity|].
  change (S (length (snd (fst pl)))) with (0 + (1 + length (snd (fst pl))))%nat.
  apply (sec_obs_app c k sec 0 _ [_] (os1 ++ os2)).
  - unfold sec_obs. cbn. repeat split; reflexivity.
  - apply sec_obs_app; assumption.
Qed.

Lemma nth_mid {A} (pre : list A) x rest d : nth (length pre) (pre ++ x :: rest) d = x.
Proof. rewrite app_nth2 by lia. rewrite Nat.sub_diag. reflexivity. Qed.

Lemma u8_chk fc sec : u8 (fc + chk sec) = (fc + sum sec) mod 256.
Proof. unfold u8, chk. apply Zplus_mod_idemp_r. Qed.

Lemma sections_run c e b now : good_cfg c -> good_env e -> bound b e ->
  forall rest pls pre fc, e_secs e = pre ++ rest -> rest <> [] -> length pls = length rest ->
  plan_ok c e (Z.of_nat (length pre) + 1) pls ->
  exists os oa, run c e (file_events pls rest) (mkS b WaitSectionCall (Z.of_nat (length pre) + 1) 0 (len (hd [] rest)) 0 fc now) now [] =
    ROk (mkS b WaitFileAck (Z.of_nat (length (e_secs e)) + 1) 0 (len (List.last rest [])) 0 ((fc + sum (concat rest)) mod 256) now) now
        (os ++ [CSectionSize (Z.of_nat (length (e_secs e))) 0;
                OSend 0 oa (s_ca b) (s_ioa b) (s_nof b) (TLastSection (Z.of_nat (length (e_secs e)) + 1) ((fc + sum (concat rest)) mod 256))]) /\
    file_obs c (Z.of_nat (length pre) + 1) rest pls os.
Proof.
  intros Hc He Hb. destruct He as (E1 & E2 & E3).
  induction rest as [|sec rest IH]; intros pls pre fc Hsecs Hne Hlen Hplan; [congruence|].
  destruct pls as [|pl pls]; [discriminate|]. cbn [plan_ok] in Hplan. destruct Hplan as (P1 & P2 & P3 & P4).
  set (k := Z.of_nat (length pre) + 1).
  assert (Hsec : section e k sec).
  { split.
    - rewrite Hsecs, app_length. cbn [length]. unfold k. lia.
    - unfold k. replace (Z.to_nat (Z.of_nat (length pre) + 1 - 1)) with (length pre) by lia. rewrite Hsecs. apply nth_mid. }
  assert (Hsne : sec <> []).
  { rewrite Hsecs in E2. apply Forall_app in E2 as [_ E2]. inversion E2; assumption. }
  assert (Hk : 0 <= k < 255).
  { rewrite Hsecs, app_length in E3. cbn [length] in E3. unfold k. lia. }
  destruct (section_upto_ack c e b k sec fc now pl Hc Hb Hsec Hsne P1 P2) as (os1 & R1 & O1).
  cbn [file_events hd]. unfold section_events.
  rewrite !app_assoc. rewrite <- (app_assoc _ [ERx 0 (snd pl)]). rewrite run_app.
  rewrite <- (app_assoc [ERx 0 (fst (fst pl))] (runs sec)). rewrite R1.
  cbn [app run].
  destruct rest as [|sec' rest'].
  - (* the last section *)
    assert (Hkn : k = Z.of_nat (length (e_secs e))).
    { rewrite Hsecs, app_length. cbn [length]. unfold k. lia. }
    rewrite (step_ack_section_last c e b k (len sec) (chk sec) fc now _ Hc Hb P3 Hkn Hk).
    destruct pls; [|discriminate]. cbn [file_events run List.last concat app]. rewrite app_nil_r.
    rewrite u8_chk. rewrite <- Hkn.
    exists (os1 ++ []), (get_oa (f_alp c) (snd pl)). split.
    + rewrite app_nil_r. reflexivity.
    + apply fo_cons; [exact O1|constructor].
  - (* more sections follow *)
    assert (Hnxt : section e (k + 1) sec').
    { split.
      - rewrite Hsecs, app_length. cbn [length]. unfold k. lia.
      - unfold k. replace (Z.to_nat (Z.of_nat (length pre) + 1 + 1 - 1)) with (length (pre ++ [sec])) by (rewrite app_length; cbn; lia).
        rewrite Hsecs. replace (pre ++ sec :: sec' :: rest') with ((pre ++ [sec]) ++ sec' :: rest') by (rewrite <- app_assoc; reflexivity).
        apply nth_mid. }
    assert (Hnne : sec' <> []).
    { rewrite Hsecs in E2. apply Forall_app in E2 as [_ E2]. inversion E2 as [|? ? _ E2']. inversion E2'; assumption. }
    rewrite (step_ack_section_next c e b k (len sec) (chk sec) fc now _ sec' Hc Hb P3 Hnxt Hnne Hk).
    cbn [app]. rewrite run_acc.
    destruct (IH pls (pre ++ [sec]) (u8 (fc + chk sec))) as (os2 & oa & R2 & O2).
    { rewrite <- app_assoc. exact Hsecs. } { discriminate. } { cbn in Hlen. cbn. lia. }
    { rewrite app_length. cbn [length]. replace (Z.of_nat (length pre + 1) + 1) with (k + 1) by (unfold k; lia). exact P4. }
    rewrite app_length in R2, O2. cbn [length hd] in R2, O2.
    replace (Z.of_nat (length pre + 1) + 1) with (k + 1) in R2, O2 by (unfold k; lia).
    rewrite R2.
    replace ((u8 (fc + chk sec) + sum (concat (sec' :: rest'))) mod 256) with ((fc + sum (concat (sec :: sec' :: rest'))) mod 256).
    2:{ rewrite u8_chk. cbn [concat]. rewrite !sum_app. rewrite Zplus_mod_idemp_l. f_equal. lia. }
    cbn [List.last].
    exists (os1 ++ [CSectionSize k (len sec'); OSend 0 (get_oa (f_alp c) (snd pl)) (s_ca b) (s_ioa b) (s_nof b) (TSectionReady (k + 1) (len sec'))] ++ os2), oa.
    split.
    + rewrite <- !app_assoc. reflexivity.
    + rewrite app_assoc. apply fo_cons; [|exact O2].
      rewrite <- (Nat.add_0_r (S (length (snd (fst pl))))).
      apply sec_obs_app; [exact O1|]. unfold sec_obs. cbn. repeat split; reflexivity.
Qed.

Lemma file_obs_quiet c k secs pls os : file_obs c k secs pls os -> completes os = [] /\ last_sections os = [] /\
  forallb (seg_len_ok (max_seg c)) os = true.
Proof.
  induction 1 as [|k sec secs pl pls o os (A1 & A2 & A3 & A4 & A5 & A6) _ (I1 & I2 & I3)]; [repeat split; reflexivity|].
  rewrite completes_app, last_sections_app, forallb_app, A5, A6, A3, I1, I2, I3. repeat split; reflexivity.
Qed.

(* THE download theorem: for ANY file (non-empty sections) and a master following select / call file /
   (call section, [negative ack -> repetition]*, positive ack)* / ack file *)
Theorem download_exact c e s0 now sel_m callf pls ackf :
  good_cfg c -> good_env e -> e_secs e <> [] -> st s0 = Idle ->
  is_select c e sel_m -> is_call_file c e callf -> length pls = length (e_secs e) -> plan_ok c e 1 pls -> is_ack c e ackf 1 ->
  exists s' os oa0 oa1 oa2,
    run c e ([ERx 0 sel_m; ERx 0 callf] ++ file_events pls (e_secs e) ++ [ERx 0 ackf]) s0 now [] =
    ROk s' now ([CGetFile (e_ca e) (e_ioa e) (e_nof e) (-1); CFileSize (file_size e);
                 OSend 0 oa0 (e_ca e) (e_ioa e) (e_nof e) (TFileReady (file_size e) true);
                 CSectionSize 0 (len (hd [] (e_secs e)));
                 OSend 0 oa1 (e_ca e) (e_ioa e) (e_nof e) (TSectionReady 1 (len (hd [] (e_secs e))))]
                ++ os ++
                [CSectionSize (Z.of_nat (length (e_secs e))) 0;
                 OSend 0 oa2 (e_ca e) (e_ioa e) (e_nof e) (TLastSection (Z.of_nat (length (e_secs e)) + 1) (chk (concat (e_secs e))));
                 CComplete true]) /\
    st s' = Idle /\ sel s' = false /\ file_obs c 1 (e_secs e) pls os.
Proof.
  intros Hc He Hne Hs0 Hsel Hcall Hlen Hplan Hack.
  destruct (e_secs e) as [|sec1 rest] eqn:Hsecs; [congruence|].
  assert (Hsec1 : section e 1 sec1).
  { split; [rewrite Hsecs; cbn [length]; lia|]. rewrite Hsecs. reflexivity. }
  set (b := selected s0 e).
  assert (Hb : bound b e) by (repeat split; reflexivity).
  cbn [app run].
  rewrite (step_select c e s0 now sel_m Hc He Hs0 Hsel). cbn [app].
  rewrite (step_call_file c e s0 now callf sec1 Hc He Hcall Hsec1). cbn [app].
  rewrite run_app, run_acc.
  destruct (sections_run c e b now Hc He Hb (sec1 :: rest) pls [] 0) as (os & oa & R & O).
  { rewrite Hsecs. reflexivity. } { discriminate. } { exact Hlen. } { exact Hplan. }
  change (Z.of_nat (length (@nil (list Z))) + 1) with 1 in R, O. change (hd [] (sec1 :: rest)) with sec1 in R.
  rewrite Hsecs in R. subst b. rewrite R.
  cbn [run]. rewrite Z.add_0_l.
  rewrite (step_ack_file c e (selected s0 e) _ _ _ _ _ now ackf Hc Hb Hack). cbn [app].
  fold (chk (concat (sec1 :: rest))).
  eexists _, os, _, _, oa. split.
  { f_equal. cbn [hd selected s_ca s_ioa s_nof]. rewrite <- !app_assoc. cbn [app]. reflexivity. }
  split; [reflexivity|split; [reflexivity|exact O]].
Qed.

(* ------------------------------------------------------------------ upload direction: offsets *)
Definition is_segment_msg (c : fcfg) (a : asdu) (n : Z) (data : list Z) : Prop :=
  tid a = 125 /\ exists ioa n0 n1, dec_segment (f_alp c) (payload a) = Some (ioa, [n0; n1; n; len data] ++ data).

Fixpoint offsets_obs (o : Z) (msgs : list (asdu * Z * list Z)) : list obs :=
  match msgs with
  | [] => []
  | (_, n, d) :: t => CSegment n o d :: offsets_obs (o + len d) t
  end.
Definition total_len (msgs : list (asdu * Z * list Z)) : Z := sum (map (fun m => len (snd m)) msgs).

(* the receiver callback sees every segment of a section with offset 0, los1, los1+los2, ... and exactly its octets *)
Theorem upload_offsets c e now : 0 <= f_timeout c ->
  forall msgs s, Forall (fun m => is_segment_msg c (fst (fst m)) (snd (fst m)) (snd m)) msgs ->
  st s = Receive -> rcv s = true -> last s = now ->
  run c e (map (fun m => ERx 0 (fst (fst m))) msgs) s now [] =
  ROk (set_last (set_sec s (nos s) (off s + total_len msgs) (size s)) now) now (offsets_obs (off s) msgs).
Proof.
  intros Ht. induction msgs as [|[[a n] d] msgs IH]; intros s HF Hs Hr Hl.
  - cbn. unfold total_len. cbn. f_equal. destruct s. cbn in *. subst. unfold set_last, set_sec. cbn. f_equal. lia.
  - inversion_clear HF as [|? ? Hm HF']. destruct Hm as (Htid & ioa & n0 & n1 & Hdec). cbn [fst snd] in *.
    cbn [map run fst]. unfold handle_asdu. rewrite Htid. cbn [Z.leb Z.compare Pos.compare Pos.compare_cont andb Z.eqb Pos.eqb].
    rewrite Hs. cbn [fstate_eqb negb andb]. unfold timed_out. rewrite (no_timeout c now (last s) Ht Hl).
    unfold h_segment. rewrite Hs. cbn [fstate_eqb]. rewrite Hdec. cbn [app fld nth skipn]. rewrite Hr. cbn [app].
    rewrite run_acc.
    rewrite (IH (set_last (set_sec s (nos s) (off s + len d) (size s)) now)); try assumption; try reflexivity.
    cbn [offsets_obs snd fst app]. f_equal.
    unfold total_len. cbn [map sum fold_right snd]. fold (sum (map (fun m : asdu * Z * list Z => len (snd m)) msgs)).
    destruct s. unfold set_last, set_sec. cbn. f_equal. lia.
Qed.

(* ------------------------------------------------------------------ refutations *)
Definition cfg0 (fx : bool) : fcfg := {| f_alp := {| cot_sz := 2; ca_sz := 2; ioa_sz := 3 |}; f_max := 249; f_timeout := 3000; f_fixd := fx |}.
Definition env0 : fenv := {| e_present := true; e_ca := 1; e_ioa := 30000; e_nof := 1; e_secs := [[10; 20; 30]; [1; 2]]; e_recv := 1 |}.
Definition fmsg (t cotb : Z) (body : list Z) : asdu :=
  {| tid := t; vsq := 1; cot := cotb mod 64; pn := (cotb / 64) mod 2 =? 1; tst := false; addr := [0; 1; 0]; payload := [48; 117; 0] ++ body |}.
Definition m_select := fmsg 122 13 [1; 0; 0; 1].
Definition m_callfile := fmsg 122 13 [1; 0; 0; 2].
Definition m_callsec (k : Z) := fmsg 122 13 [1; 0; k; 6].
Definition m_callsec_neg (k : Z) := fmsg 122 (13 + 64) [1; 0; k; 6].
Definition m_ack (k afq : Z) := fmsg 124 13 [1; 0; k; afq].

Definition obs_of (r : rres) : list obs := match r with ROk _ _ o => o | RFault => [] end.

(* open finding: the master may skip a section (negative call-section) and the provider is still told "success" *)
Definition skip_script : list event :=
  [ERx 0 m_select; ERx 0 m_callfile; ERx 0 (m_callsec_neg 1); ERx 0 (m_callsec 2); ERun 0; ERun 0; ERx 0 (m_ack 2 3); ERx 0 (m_ack 3 1)].
Lemma skip_section_success :
  let o := obs_of (run (cfg0 true) env0 skip_script fs0 1000 []) in
  completes o = [true] /\ segments 1 o = [] /\ segments 2 o = [1; 2].
Proof. vm_compute. repeat split; reflexivity. Qed.

(* pinned snapshot: a repeated section is added to the file checksum twice *)
Definition repeat_script : list event :=
  [ERx 0 m_select; ERx 0 m_callfile; ERx 0 (m_callsec 1); ERun 0; ERun 0; ERx 0 (m_ack 1 4); ERun 0; ERun 0; ERx 0 (m_ack 1 3);
   ERx 0 (m_callsec 2); ERun 0; ERun 0; ERx 0 (m_ack 2 3); ERx 0 (m_ack 3 1)].
Lemma snapshot_repeat_falsifies_checksum :
  last_sections (obs_of (run (cfg0 false) env0 repeat_script fs0 1000 [])) = [(3, 123)] /\ chk (concat (e_secs env0)) = 63 /\
  last_sections (obs_of (run (cfg0 true) env0 repeat_script fs0 1000 [])) = [(3, 63)].
Proof. vm_compute. repeat split; reflexivity. Qed.

(* pinned snapshot: a truncated file ASDU is dereferenced without a NULL check (every one of the six decoders) *)
Lemma snapshot_truncated_faults :
  run (cfg0 false) env0 [ERx 0 (fmsg 122 13 [1; 0])] fs0 1000 [] = RFault /\
  run (cfg0 false) env0 [ERx 0 (fmsg 123 13 [1; 0])] fs0 1000 [] = RFault /\
  run (cfg0 false) env0 [ERx 0 (fmsg 120 13 [1; 0])] fs0 1000 [] = RFault /\
  run (cfg0 false) env0 [ERx 0 m_select; ERx 0 (fmsg 124 13 [1; 0])] fs0 1000 [] = RFault /\
  run (cfg0 false) env0 [ERx 0 (fmsg 120 13 [1; 0; 5; 0; 0; 0]); ERx 0 (fmsg 121 13 [1; 0])] fs0 1000 [] = RFault /\
  run (cfg0 false) env0 [ERx 0 (fmsg 120 13 [1; 0; 5; 0; 0; 0]); ERx 0 (fmsg 121 13 [1; 0; 1; 5; 0; 0; 0]); ERx 0 (fmsg 125 13 [1; 0; 1; 9; 7])] fs0 1000 [] = RFault /\
  (exists s o, run (cfg0 true) env0 [ERx 0 (fmsg 122 13 [1; 0])] fs0 1000 [] = ROk s 1000 o).
Proof. vm_compute. repeat split; try reflexivity. do 2 eexists. reflexivity. Qed.

(* pinned snapshot: the section checksum survives an aborted transfer and falsifies the next one *)
Definition stale_script : list event :=
  [ERx 0 m_select; ERx 0 m_callfile; ERx 0 (m_callsec 1); ERun 0; EAdv 3001; ERx 0 m_select; ERx 0 m_callfile; ERx 0 (m_callsec 1); ERun 0; ERun 0].
Lemma snapshot_stale_section_checksum :
  last_segments (obs_of (run (cfg0 false) env0 stale_script fs0 1000 [])) = [(1, 120)] /\
  last_segments (obs_of (run (cfg0 true) env0 stale_script fs0 1000 [])) = [(1, 60)] /\ chk [10; 20; 30] = 60.
Proof. vm_compute. repeat split; reflexivity. Qed.

(* the hypotheses of download_exact are inhabited *)
Lemma example_messages_ok :
  good_cfg (cfg0 true) /\ good_env env0 /\ is_select (cfg0 true) env0 m_select /\ is_call_file (cfg0 true) env0 m_callfile /\
  plan_ok (cfg0 true) env0 1 [(m_callsec 1, [m_ack 1 4], m_ack 1 3); (m_callsec 2, [], m_ack 2 3)] /\ is_ack (cfg0 true) env0 (m_ack 3 1) 1.
Proof.
  split; [repeat split; try reflexivity; discriminate|].
  split; [repeat split; try reflexivity; repeat constructor; discriminate|].
  split; [exists 1, 0, 0; repeat split; reflexivity|].
  split; [exists 1, 0, 0; repeat split; reflexivity|].
  split.
  - cbn [plan_ok fst snd]. repeat split; try (exists 1, 0; repeat split; reflexivity); try (exists 1, 0, 1; repeat split; reflexivity);
      try (exists 1, 0, 2; repeat split; reflexivity).
    + constructor; [|constructor]. exists 1, 0, 1; repeat split; reflexivity.
    + constructor.
  - exists 1, 0, 3; repeat split; reflexivity.
Qed.
