(* C20: proofs about the transcribed file server. *)
From Coq Require Import ZArith List Bool Lia.
From L60870 Require Import Dispatch.DispatchBase File.FileServer File.FileSpec.
Import ListNotations.
Local Open Scope Z_scope.

Lemma sum_app a b : sum (a ++ b) = sum a + sum b.
Proof. unfold sum. induction a as [|x a IH]; cbn; [reflexivity|]. fold (sum (a ++ b)) in *. fold (sum a) in *. unfold sum in *. lia. Qed.

Lemma skipn_skipn' {A} (l : list A) : forall a b, skipn a (skipn b l) = skipn (b + a) l.
Proof.
  induction l as [|x l IH]; intros a b.
  - rewrite !skipn_nil. reflexivity.
  - destruct b; [reflexivity|]. cbn [skipn Nat.add]. apply IH.
Qed.

Lemma run_acc c e evs : forall s now acc,
  run c e evs s now acc = match run c e evs s now [] with ROk s' n' o => ROk s' n' (acc ++ o) | RFault => RFault end.
Proof.
  induction evs as [|ev evs IH]; intros s now acc; cbn [run].
  - rewrite app_nil_r. reflexivity.
  - destruct ev as [conn a|conn|ms].
    + destruct (handle_asdu c e now conn a s) as [|s' o r]; [reflexivity|].
      rewrite IH. rewrite (IH s' now ([] ++ o)). destruct (run c e evs s' now []); [reflexivity|]. cbn [app]. rewrite app_assoc. reflexivity.
    + destruct (run_task c e now conn s) as [s' o].
      rewrite IH. rewrite (IH s' now ([] ++ o)). destruct (run c e evs s' now []); [reflexivity|]. cbn [app]. rewrite app_assoc. reflexivity.
    + apply IH.
Qed.

Lemma run_app c e ev1 : forall ev2 s now acc,
  run c e (ev1 ++ ev2) s now acc =
  match run c e ev1 s now acc with ROk s' n' o => run c e ev2 s' n' o | RFault => RFault end.
Proof.
  induction ev1 as [|ev ev1 IH]; intros ev2 s now acc; cbn [app run]; [reflexivity|].
  destruct ev as [conn a|conn|ms].
  - destruct (handle_asdu c e now conn a s); [reflexivity|apply IH].
  - destruct (run_task c e now conn s). apply IH.
  - apply IH.
Qed.

(* a state of the download direction: everything except the progress fields comes from `b` *)
Definition mkS (b : fs) (x : fstate) (n o sz sc fc lt : Z) : fs :=
  {| st := x; s_ca := s_ca b; s_ioa := s_ioa b; s_oa := s_oa b; s_nof := s_nof b; last := lt; nos := n; off := o; size := sz;
     schs := sc; fchs := fc; sel := sel b; selc := selc b; rcv := rcv b |}.

Definition section (e : fenv) (k : Z) (sec : list Z) : Prop :=
  1 <= k <= Z.of_nat (length (e_secs e)) /\ nth (Z.to_nat (k - 1)) (e_secs e) [] = sec.
Definition len (l : list Z) : Z := Z.of_nat (length l).

Lemma no_timeout c now lt : 0 <= f_timeout c -> lt = now -> (now >? lt + f_timeout c) = false.
Proof. intros H ->. rewrite Z.gtb_ltb. apply Z.ltb_ge. lia. Qed.

Lemma seg_data_in e k sec o n : section e k sec -> 0 <= o -> 0 <= n -> o + n <= len sec ->
  seg_data e (k - 1) o n = firstn (Z.to_nat n) (skipn (Z.to_nat o) sec).
Proof.
  intros [Hk Hs] Ho Hn Hl. unfold seg_data.
  replace ((0 <=? k - 1) && (k - 1 <? Z.of_nat (length (e_secs e)))) with true
    by (symmetry; apply andb_true_intro; split; [apply Z.leb_le|apply Z.ltb_lt]; lia).
  rewrite Hs. rewrite firstn_app.
  replace (Z.to_nat n - length (skipn (Z.to_nat o) sec))%nat with 0%nat.
  - cbn [firstn]. apply app_nil_r.
  - rewrite skipn_length. unfold len in Hl. lia.
Qed.

(* idle runs: in WaitSectionAck (no timeout) runTask does nothing *)
Lemma idle_runs c e n : forall s now, 0 <= f_timeout c -> st s = WaitSectionAck -> last s = now ->
  run c e (repeat (ERun 0) n) s now [] = ROk s now [].
Proof.
  induction n as [|n IH]; intros s now Ht Hs Hl; cbn [repeat run]; [reflexivity|].
  unfold run_task. rewrite Hs. cbn [fstate_eqb negb andb].
  unfold timed_out. rewrite (no_timeout c now (last s) Ht Hl). cbn [app]. apply IH; assumption.
Qed.

Definition only_transfer (o : obs) : bool :=
  match o with
  | CSegData _ _ _ | OSend _ _ _ _ _ (TSegment _ _) | OSend _ _ _ _ _ (TLastSegment _ _) => true
  | _ => false
  end.

(* the segment pump: from offset o of section k, enough runTask calls send exactly the remaining octets, in segments
   no longer than max_seg, then one last-segment message with the running checksum *)
Lemma transmit_runs c e b k sec : good_cfg c -> section e k sec -> sel b = true -> selc b = 0 ->
  forall n o sc fc now, 0 <= o <= len sec -> 0 <= sc < 256 -> (Z.to_nat (len sec - o) < n)%nat ->
  exists obs,
    run c e (repeat (ERun 0) n) (mkS b Transmit k o (len sec) sc fc now) now [] =
      ROk (mkS b WaitSectionAck k (len sec) (len sec) ((sc + sum (skipn (Z.to_nat o) sec)) mod 256) fc now) now obs /\
    segments k obs = skipn (Z.to_nat o) sec /\ forallb (seg_len_ok (max_seg c)) obs = true /\
    last_segments obs = [(k, (sc + sum (skipn (Z.to_nat o) sec)) mod 256)] /\ forallb only_transfer obs = true.
Proof.
  intros (Hm & Ht & Hf) Hsec Hsel Hselc. induction n as [|n IH]; intros o sc fc now Ho Hsc Hn; [lia|].
  cbn [repeat run]. unfold run_task.
  cbn [mkS st selc sel fstate_eqb negb andb size off nos schs fchs s_oa s_ca s_ioa s_nof].
  rewrite Hsel, Hselc. cbn [Z.eqb andb].
  destruct (0 <? len sec - o) eqn:Hcur.
  - (* a segment *)
    apply Z.ltb_lt in Hcur.
    set (m := if max_seg c <? len sec - o then max_seg c else len sec - o).
    assert (Hmr : 1 <= m /\ m <= max_seg c /\ o + m <= len sec).
    { unfold m. destruct (max_seg c <? len sec - o) eqn:E; [apply Z.ltb_lt in E|apply Z.ltb_ge in E]; lia. }
    rewrite (seg_data_in e k sec o m Hsec) by lia.
    set (data := firstn (Z.to_nat m) (skipn (Z.to_nat o) sec)).
    assert (Hdl : length data = Z.to_nat m).
    { unfold data. rewrite firstn_length, skipn_length. unfold len in Hmr. lia. }
    unfold timed_out. cbn [set_chs set_last set_sec last st]. rewrite (no_timeout c now now Ht eq_refl).
    rewrite run_acc.
    change (set_chs (set_last (set_sec (mkS b Transmit k o (len sec) sc fc now) k (o + m) (len sec)) now) (u8 (sc + sum data)) fc)
      with (mkS b Transmit k (o + m) (len sec) (u8 (sc + sum data)) fc now).
    destruct (IH (o + m) (u8 (sc + sum data)) fc now) as (obs & R & S1 & S2 & S3 & S4).
    { lia. } { unfold u8. apply Z.mod_pos_bound. lia. } { lia. }
    rewrite R.
    assert (Hsplit : skipn (Z.to_nat o) sec = data ++ skipn (Z.to_nat (o + m)) sec).
    { unfold data. rewrite <- (firstn_skipn (Z.to_nat m) (skipn (Z.to_nat o) sec)) at 1. f_equal.
      rewrite skipn_skipn'. f_equal. lia. }
    assert (Hchs : (u8 (sc + sum data) + sum (skipn (Z.to_nat (o + m)) sec)) mod 256 = (sc + sum (skipn (Z.to_nat o) sec)) mod 256).
    { rewrite Hsplit, sum_app. unfold u8. rewrite Zplus_mod_idemp_l. f_equal. lia. }
    rewrite Hchs in *.
    eexists. split; [reflexivity|]. cbn [app].
    split; [|split; [|split]].
    + unfold segments. cbn [map concat seg_of]. rewrite Z.eqb_refl. cbn [app]. fold (segments k obs). rewrite S1. symmetry. exact Hsplit.
    + cbn [forallb seg_len_ok andb]. rewrite S2. rewrite Hdl. replace (Z.of_nat (Z.to_nat m) <=? max_seg c) with true by (symmetry; apply Z.leb_le; lia). reflexivity.
    + unfold last_segments. cbn [map concat app]. exact S3.
    + cbn [forallb only_transfer andb]. exact S4.
  - (* nothing left: the last-segment message *)
    apply Z.ltb_ge in Hcur. assert (o = len sec) by lia. subst o.
    rewrite Hf. unfold timed_out. cbn [set_st set_last last st]. rewrite (no_timeout c now now Ht eq_refl).
    rewrite run_acc.
    change (set_st (set_last (mkS b Transmit k (len sec) (len sec) sc fc now) now) WaitSectionAck)
      with (mkS b WaitSectionAck k (len sec) (len sec) sc fc now).
    rewrite idle_runs by (try assumption; reflexivity).
    assert (Hnil : skipn (Z.to_nat (len sec)) sec = []) by (apply skipn_all2; unfold len; lia).
    rewrite Hnil. cbn [sum fold_right]. rewrite Z.add_0_r, Z.mod_small by lia.
    eexists. split; [reflexivity|]. cbn. repeat split; reflexivity.
Qed.

(* ------------------------------------------------------------------ single messages of the procedure *)
Lemma section_size_in e k sec : section e k sec -> section_size e (k - 1) = len sec.
Proof.
  intros [Hk Hs]. unfold section_size.
  replace ((0 <=? k - 1) && (k - 1 <? Z.of_nat (length (e_secs e)))) with true
    by (symmetry; apply andb_true_intro; split; [apply Z.leb_le|apply Z.ltb_lt]; lia).
  rewrite Hs. reflexivity.
Qed.
Lemma section_size_out e k : Z.of_nat (length (e_secs e)) < k -> section_size e (k - 1) = 0.
Proof.
  intros Hk. unfold section_size.
  replace (k - 1 <? Z.of_nat (length (e_secs e))) with false by (symmetry; apply Z.ltb_ge; lia).
  rewrite andb_false_r. reflexivity.
Qed.

Lemma to_mkS c b x n o sz sc fc now : 0 <= f_timeout c -> timed_out c now (mkS b x n o sz sc fc now) = false.
Proof. intros H. unfold timed_out. cbn [mkS last]. apply no_timeout; [assumption|reflexivity]. Qed.

Definition bound (b : fs) (e : fenv) : Prop := s_ca b = e_ca e /\ s_ioa b = e_ioa e /\ sel b = true /\ selc b = 0.

Ltac msg_open H := destruct H as (n0 & n1 & Hnof & Htid & Hcot & Hpn & Hca & Hdec).
Ltac msg_open3 H := destruct H as (n0 & n1 & nx & Hnof & Htid & Hcot & Hpn & Hca & Hdec).
Ltac hstart := unfold handle_asdu; match goal with H : tid _ = _ |- _ => rewrite H end; cbn [Z.leb Z.compare Pos.compare Pos.compare_cont andb Z.eqb Pos.eqb].

Lemma step_call_section c e b k sec fc now a : good_cfg c -> bound b e -> section e k sec -> sec <> [] ->
  is_call_section c e a k ->
  handle_asdu c e now 0 a (mkS b WaitSectionCall k 0 (len sec) 0 fc now) =
  HOk (mkS b Transmit k 0 (len sec) 0 fc now) [CSectionSize (k - 1) (len sec)] Handled.
Proof.
  intros (Hm & Ht & Hf) (B1 & B2 & B3 & B4) Hsec Hne Hmsg. msg_open Hmsg. hstart.
  rewrite to_mkS by assumption. cbn [mkS st fstate_eqb negb andb].
  unfold h_call. rewrite Hcot. cbn [Z.eqb Pos.eqb]. cbn [length Z.of_nat Pos.of_succ_nat Pos.succ] in Hdec. rewrite Hdec.
  cbn [mkS fld nth Z.eqb Pos.eqb st fstate_eqb s_ioa s_ca]. rewrite Hca, B1, B2, !Z.eqb_refl. cbn [negb orb]. rewrite Hpn.
  rewrite (section_size_in e k sec Hsec).
  replace (0 <? len sec) with true by (symmetry; apply Z.ltb_lt; unfold len; destruct sec; [congruence|cbn; lia]).
  reflexivity.
Qed.

Lemma step_nack_section c e b k L sc fc now a : good_cfg c -> bound b e -> is_ack c e a 4 ->
  handle_asdu c e now 0 a (mkS b WaitSectionAck k L L sc fc now) =
  HOk (mkS b Transmit k 0 L 0 fc now) [OSend 0 (get_oa (f_alp c) a) (s_ca b) (s_ioa b) (s_nof b) (TSectionReady k L)] Handled.
Proof.
  intros (Hm & Ht & Hf) (B1 & B2 & B3 & B4) Hmsg. msg_open3 Hmsg. hstart.
  rewrite to_mkS by assumption. cbn [mkS st fstate_eqb negb andb].
  unfold h_ack. cbn [st fstate_eqb negb]. cbn [length Z.of_nat Pos.of_succ_nat Pos.succ] in Hdec. rewrite Hdec.
  cbn [mkS fld nth]. reflexivity.
Qed.

Lemma step_ack_section_next c e b k L sc fc now a nxt : good_cfg c -> bound b e -> is_ack c e a 3 ->
  section e (k + 1) nxt -> nxt <> [] -> 0 <= k < 255 ->
  handle_asdu c e now 0 a (mkS b WaitSectionAck k L L sc fc now) =
  HOk (mkS b WaitSectionCall (k + 1) 0 (len nxt) 0 (u8 (fc + sc)) now)
      [CSectionSize k (len nxt); OSend 0 (get_oa (f_alp c) a) (s_ca b) (s_ioa b) (s_nof b) (TSectionReady (k + 1) (len nxt))] Handled.
Proof.
  intros (Hm & Ht & Hf) (B1 & B2 & B3 & B4) Hmsg Hsec Hne Hk. msg_open3 Hmsg. hstart.
  rewrite to_mkS by assumption. cbn [mkS st fstate_eqb negb andb].
  unfold h_ack. cbn [st fstate_eqb negb]. cbn [length Z.of_nat Pos.of_succ_nat Pos.succ] in Hdec. rewrite Hdec.
  cbn [mkS fld nth nos fchs schs]. rewrite Hf.
  assert (E : u8 (k + 1) = k + 1) by (unfold u8; apply Z.mod_small; lia). rewrite E.
  replace (k + 1 - 1) with k by lia.
  pose proof (section_size_in e (k + 1) nxt Hsec) as Hs. replace (k + 1 - 1) with k in Hs by lia. rewrite Hs.
  replace (len nxt <=? 0) with false by (symmetry; apply Z.leb_gt; unfold len; destruct nxt; [congruence|cbn; lia]).
  reflexivity.
Qed.

Lemma step_ack_section_last c e b k L sc fc now a : good_cfg c -> bound b e -> is_ack c e a 3 ->
  k = Z.of_nat (length (e_secs e)) -> 0 <= k < 255 ->
  handle_asdu c e now 0 a (mkS b WaitSectionAck k L L sc fc now) =
  HOk (mkS b WaitFileAck (k + 1) 0 L 0 (u8 (fc + sc)) now)
      [CSectionSize k 0; OSend 0 (get_oa (f_alp c) a) (s_ca b) (s_ioa b) (s_nof b) (TLastSection (k + 1) (u8 (fc + sc)))] Handled.
Proof.
  intros (Hm & Ht & Hf) (B1 & B2 & B3 & B4) Hmsg Hk Hr. msg_open3 Hmsg. hstart.
  rewrite to_mkS by assumption. cbn [mkS st fstate_eqb negb andb].
  unfold h_ack. cbn [st fstate_eqb negb]. cbn [length Z.of_nat Pos.of_succ_nat Pos.succ] in Hdec. rewrite Hdec.
  cbn [mkS fld nth nos fchs schs]. rewrite Hf.
  assert (E : u8 (k + 1) = k + 1) by (unfold u8; apply Z.mod_small; lia). rewrite E.
  pose proof (section_size_out e (k + 1) ltac:(lia)) as Hs. rewrite Hs. cbn [Z.leb Z.compare].
  replace (k + 1 - 1) with k by lia. reflexivity.
Qed.

Lemma step_ack_file c e b k o L sc fc now a : good_cfg c -> bound b e -> is_ack c e a 1 ->
  handle_asdu c e now 0 a (mkS b WaitFileAck k o L sc fc now) =
  HOk (set_st (set_sel (mkS b WaitFileAck k o L sc fc now) false (-1)) Idle) [CComplete true] Handled.
Proof.
  intros (Hm & Ht & Hf) (B1 & B2 & B3 & B4) Hmsg. msg_open3 Hmsg. hstart.
  rewrite to_mkS by assumption. cbn [mkS st fstate_eqb negb andb].
  unfold h_ack. cbn [st fstate_eqb negb]. cbn [length Z.of_nat Pos.of_succ_nat Pos.succ] in Hdec. rewrite Hdec.
  cbn [mkS fld nth Z.eqb Pos.eqb st fstate_eqb sel]. rewrite B3. reflexivity.
Qed.

(* select + call file from the idle state *)
Definition selected (s : fs) (e : fenv) : fs :=
  {| st := Idle; s_ca := e_ca e; s_ioa := e_ioa e; s_oa := s_oa s; s_nof := e_nof e; last := last s; nos := nos s; off := off s; size := size s;
     schs := schs s; fchs := fchs s; sel := true; selc := 0; rcv := rcv s |}.

Lemma step_select c e s now a : good_cfg c -> good_env e -> st s = Idle -> is_select c e a ->
  handle_asdu c e now 0 a s =
  HOk (mkS (selected s e) WaitFileCall (nos s) (off s) (size s) (schs s) (fchs s) now)
      [CGetFile (e_ca e) (e_ioa e) (e_nof e) (-1); CFileSize (file_size e);
       OSend 0 (get_oa (f_alp c) a) (e_ca e) (e_ioa e) (e_nof e) (TFileReady (file_size e) true)] Handled.
Proof.
  intros (Hm & Ht & Hf) (E1 & E2 & E3) Hs Hmsg. msg_open3 Hmsg. hstart.
  rewrite Hs. cbn [fstate_eqb negb andb].
  unfold h_call. rewrite Hcot. cbn [Z.eqb Pos.eqb]. cbn [length Z.of_nat Pos.of_succ_nat Pos.succ] in Hdec. rewrite Hdec.
  cbn [mkS fld nth Z.eqb Pos.eqb le16]. rewrite Hs. cbn [fstate_eqb]. rewrite Hca.
  unfold nof_ok in Hnof. rewrite Hnof.
  unfold get_file. rewrite E1, !Z.eqb_refl. cbn [negb Z.eqb].
  destruct s. cbn in Hs. subst. reflexivity.
Qed.

Lemma step_call_file c e s now a fst_sec : good_cfg c -> good_env e -> is_call_file c e a -> section e 1 fst_sec ->
  let b := selected s e in
  handle_asdu c e now 0 a (mkS b WaitFileCall (nos s) (off s) (size s) (schs s) (fchs s) now) =
  HOk (mkS b WaitSectionCall 1 0 (len fst_sec) 0 0 now)
      [CSectionSize 0 (len fst_sec); OSend 0 (get_oa (f_alp c) a) (e_ca e) (e_ioa e) (e_nof e) (TSectionReady 1 (len fst_sec))] Handled.
Proof.
  intros (Hm & Ht & Hf) (E1 & E2 & E3) Hmsg Hsec b. msg_open3 Hmsg. hstart.
  rewrite to_mkS by assumption. cbn [mkS st fstate_eqb negb andb].
  unfold h_call. rewrite Hcot. cbn [Z.eqb Pos.eqb]. cbn [length Z.of_nat Pos.of_succ_nat Pos.succ] in Hdec. rewrite Hdec.
  cbn [mkS fld nth Z.eqb Pos.eqb st fstate_eqb s_ioa s_ca b selected]. rewrite Hca, !Z.eqb_refl. cbn [negb orb].
  rewrite Hf. pose proof (section_size_in e 1 fst_sec Hsec) as Hs. cbn in Hs. rewrite Hs. reflexivity.
Qed.
