(* C20: where an outcome notification can come from (one-step facts, any state, any message). *)
From Coq Require Import ZArith List Bool Lia.
From L60870 Require Import Dispatch.DispatchBase File.FileServer File.FileSpec.
Import ListNotations.
Local Open Scope Z_scope.

Definition no_complete (o : list obs) : Prop := forall b, ~ In (CComplete b) o.

Ltac split_ifs :=
  repeat match goal with
         | |- context [match ?x with _ => _ end] =>
           match type of x with
           | bool => destruct x eqn:?
           | option _ => destruct x as [[? ?]|] eqn:?
           | fstate => fail 1
           end
         end.

Ltac leaf := intros H; inversion H; subst; clear H; intros b Hin; cbn in Hin;
             repeat (destruct Hin as [Hin|Hin]; [try discriminate|]); try contradiction.

Lemma h_file_ready_quiet c e now conn a s s' o r : h_file_ready c e now conn a s = HOk s' o r -> no_complete o.
Proof. unfold h_file_ready, neg_mirror. split_ifs; leaf. Qed.
Lemma h_section_ready_quiet c now conn a s s' o r : h_section_ready c now conn a s = HOk s' o r -> no_complete o.
Proof. unfold h_section_ready. split_ifs; leaf. Qed.
Lemma h_segment_quiet c now conn a s s' o r : h_segment c now conn a s = HOk s' o r -> no_complete o.
Proof. unfold h_segment. split_ifs; leaf. Qed.
Lemma h_last_quiet c now conn a s s' o r : h_last c now conn a s = HOk s' o r -> no_complete o.
Proof. unfold h_last. split_ifs; leaf. Qed.
Lemma h_call_quiet c e now conn a s s' o r : h_call c e now conn a s = HOk s' o r -> no_complete o.
Proof. unfold h_call, neg_mirror. split_ifs; leaf. Qed.

(* the provider is told an outcome only by a file acknowledgement (F_AF_NA_1, AFQ 1 or 2) received while the server
   waits for it, with a file selected; the transfer is then over (idle, nothing selected) *)
Lemma h_ack_complete c e now conn a s s' o r b : h_ack c e now conn a s = HOk s' o r -> In (CComplete b) o ->
  st s = WaitFileAck /\ sel s = true /\ st s' = Idle /\ sel s' = false /\ o = [CComplete b].
Proof.
  unfold h_ack. split_ifs; intros H; inversion H; subst; clear H; intros Hin; cbn in Hin;
    repeat (destruct Hin as [Hin|Hin]; [try discriminate|]); try contradiction.
  all: inversion Hin; subst; destruct (st s); try discriminate; repeat split; reflexivity.
Qed.

Theorem outcome_only_on_file_ack c e now conn a s s' o r b : handle_asdu c e now conn a s = HOk s' o r -> In (CComplete b) o ->
  tid a = 124 /\ st s' = Idle /\ sel s' = false /\ o = [CComplete b].
Proof.
  unfold handle_asdu. destruct ((120 <=? tid a) && (tid a <=? 127)); [|intros H; inversion H; subst; intros []].
  set (s1 := if negb (fstate_eqb (st s) Idle) && timed_out c now s then set_st s Idle else s).
  destruct (tid a =? 120) eqn:E0. { intros H Hin. exfalso. exact (h_file_ready_quiet _ _ _ _ _ _ _ _ _ H b Hin). }
  destruct (tid a =? 121) eqn:E1. { intros H Hin. exfalso. exact (h_section_ready_quiet _ _ _ _ _ _ _ _ H b Hin). }
  destruct (tid a =? 125) eqn:E5. { intros H Hin. exfalso. exact (h_segment_quiet _ _ _ _ _ _ _ _ H b Hin). }
  destruct (tid a =? 123) eqn:E3. { intros H Hin. exfalso. exact (h_last_quiet _ _ _ _ _ _ _ _ H b Hin). }
  destruct (tid a =? 124) eqn:E4.
  { intros H Hin. destruct (h_ack_complete _ _ _ _ _ _ _ _ _ _ H Hin) as (_ & _ & A & B & C). apply Z.eqb_eq in E4. auto. }
  destruct (tid a =? 122) eqn:E2. { intros H Hin. exfalso. exact (h_call_quiet _ _ _ _ _ _ _ _ _ H b Hin). }
  intros H; inversion H; subst; intros [].
Qed.

Theorem run_task_tells_no_outcome c e now conn s b : ~ In (CComplete b) (snd (run_task c e now conn s)).
Proof.
  unfold run_task. split_ifs; cbn; intros Hin; repeat (destruct Hin as [Hin|Hin]; [try discriminate|]); try contradiction.
Qed.
