(* C20: which connection the plugin talks to.  One-step facts (any state, any message, any clock value) and the
   history-level statement: over every sequence of messages (from any connection), task runs (for any connection)
   and clock steps, file data (segments, last-segment) goes only to the connection whose SELECT was answered with
   the last positive FILE READY. *)
From Coq Require Import ZArith List Bool Lia.
From L60870 Require Import Dispatch.DispatchBase File.FileServer File.FileSpec File.FileInv File.FileProofs.
Import ListNotations.
Local Open Scope Z_scope.

Definition obs_conn (x : obs) : option Z :=
  match x with OSend c _ _ _ _ _ => Some c | OMirror c _ => Some c | _ => None end.

(* everything the step sends, it sends on `conn` *)
Definition on_conn (conn : Z) (o : list obs) : Prop := forall x c', In x o -> obs_conn x = Some c' -> c' = conn.

Ltac conn_leaf := intros H; inversion H; subst; clear H; intros x c' Hin Hc; cbn in Hin;
  repeat (destruct Hin as [Hin|Hin]; [subst x; cbn in Hc; try discriminate; try (inversion Hc; reflexivity)|]); try contradiction.

Lemma h_file_ready_conn c e now conn a s s' o r : h_file_ready c e now conn a s = HOk s' o r -> on_conn conn o.
Proof. unfold h_file_ready, neg_mirror. split_ifs; conn_leaf. Qed.
Lemma h_section_ready_conn c now conn a s s' o r : h_section_ready c now conn a s = HOk s' o r -> on_conn conn o.
Proof. unfold h_section_ready. split_ifs; conn_leaf. Qed.
Lemma h_segment_conn c now conn a s s' o r : h_segment c now conn a s = HOk s' o r -> on_conn conn o.
Proof. unfold h_segment. split_ifs; conn_leaf. Qed.
Lemma h_last_conn c now conn a s s' o r : h_last c now conn a s = HOk s' o r -> on_conn conn o.
Proof. unfold h_last. split_ifs; conn_leaf. Qed.
Lemma h_ack_conn c e now conn a s s' o r : h_ack c e now conn a s = HOk s' o r -> on_conn conn o.
Proof. unfold h_ack. split_ifs; conn_leaf. Qed.
Lemma h_call_conn c e now conn a s s' o r : h_call c e now conn a s = HOk s' o r -> on_conn conn o.
Proof. unfold h_call, neg_mirror. split_ifs; conn_leaf. Qed.

(* a request is answered on the connection it arrived on, never on another one *)
Theorem answers_on_asking_connection c e now conn a s s' o r :
  handle_asdu c e now conn a s = HOk s' o r -> on_conn conn o.
Proof.
  unfold handle_asdu. destruct ((120 <=? tid a) && (tid a <=? 127)); [|intros H; inversion H; subst; intros x c' []].
  set (s1 := if negb (fstate_eqb (st s) Idle) && timed_out c now s then set_st s Idle else s).
  destruct (tid a =? 120). { apply h_file_ready_conn. }
  destruct (tid a =? 121). { apply h_section_ready_conn. }
  destruct (tid a =? 125). { apply h_segment_conn. }
  destruct (tid a =? 123). { apply h_last_conn. }
  destruct (tid a =? 124). { apply h_ack_conn. }
  destruct (tid a =? 122). { apply h_call_conn. }
  intros H; inversion H; subst; intros x c' [].
Qed.

(* the segment pump sends only when it runs for the selecting connection, and then on that connection *)
Theorem pump_only_to_selecting_connection c e now conn s x c' :
  In x (snd (run_task c e now conn s)) -> obs_conn x = Some c' ->
  c' = conn /\ selc s = conn /\ sel s = true /\ st s = Transmit.
Proof.
  unfold run_task.
  destruct (negb (fstate_eqb (st s) Idle)); [|intros []].
  destruct (fstate_eqb (st s) Transmit) eqn:ET; cbn [andb].
  2:{ destruct (timed_out c now s); intros []. }
  destruct (selc s =? conn) eqn:EC; cbn [andb].
  2:{ destruct (timed_out c now s); intros []. }
  destruct (sel s) eqn:ES.
  2:{ destruct (timed_out c now s); intros []. }
  apply Z.eqb_eq in EC. assert (st s = Transmit) by (destruct (st s); try discriminate; reflexivity).
  split_ifs; cbn; intros Hin Hc; repeat (destruct Hin as [Hin|Hin]; [subst x; cbn in Hc; try discriminate; inversion Hc; subst; repeat split; auto|]); contradiction.
Qed.

(* run for any other connection, the task sends nothing and touches nothing but the supervision timeout *)
Theorem pump_other_connection_inert c e now conn s : selc s <> conn ->
  snd (run_task c e now conn s) = [] /\ (fst (run_task c e now conn s) = s \/ fst (run_task c e now conn s) = set_st s Idle).
Proof.
  intros Hn. unfold run_task.
  destruct (negb (fstate_eqb (st s) Idle)); [|cbn; auto].
  assert (E : (selc s =? conn) = false) by (apply Z.eqb_neq; exact Hn). rewrite E, andb_false_r. cbn [andb].
  destruct (timed_out c now s); cbn; auto.
Qed.

(* ---- history level *)
Definition is_data (t : ftx) : bool := match t with TSegment _ _ | TLastSegment _ _ => true | _ => false end.

(* monitor over the observation stream: `owner` = connection that received the last positive FILE READY *)
Fixpoint mon (owner : option Z) (o : list obs) : option (option Z) :=
  match o with
  | [] => Some owner
  | OSend cn _ _ _ _ (TFileReady _ true) :: rest => mon (Some cn) rest
  | OSend cn _ _ _ _ t :: rest =>
    if is_data t then match owner with Some w => if w =? cn then mon owner rest else None | None => None end
    else mon owner rest
  | _ :: rest => mon owner rest
  end.

Lemma mon_app ow o1 o2 : mon ow (o1 ++ o2) = match mon ow o1 with Some ow' => mon ow' o2 | None => None end.
Proof.
  revert ow; induction o1 as [|x o1 IH]; intros ow; cbn [app mon]; [reflexivity|].
  destruct x as [cn oa ca ioa nof t| | | | | | | | | ]; try apply IH.
  destruct t as [lof [|]| | | | | | | ]; cbn [is_data]; try apply IH.
  destruct ow as [w|]; [destruct (w =? cn); [apply IH|reflexivity]|reflexivity].
  destruct ow as [w|]; [destruct (w =? cn); [apply IH|reflexivity]|reflexivity].
Qed.

(* invariant tying the server state to the monitor *)
Definition minv (ow : option Z) (s : fs) : Prop := sel s = true -> ow = Some (selc s).

Ltac mon_leaf := intros H; inversion H; subst; clear H; intros ow Hi; cbn [mon is_data neg_mirror];
  (eexists; split; [reflexivity|]); unfold minv in *; cbn; try exact Hi; try (intros; discriminate); try (intros; reflexivity).

Definition step_ok (s : fs) (o : list obs) (s' : fs) : Prop :=
  forall ow, minv ow s -> exists ow', mon ow o = Some ow' /\ minv ow' s'.

Lemma h_file_ready_mon c e now conn a s s' o r : h_file_ready c e now conn a s = HOk s' o r -> step_ok s o s'.
Proof. unfold h_file_ready, step_ok. split_ifs; mon_leaf. Qed.
Lemma h_section_ready_mon c now conn a s s' o r : h_section_ready c now conn a s = HOk s' o r -> step_ok s o s'.
Proof. unfold h_section_ready, step_ok. split_ifs; mon_leaf. Qed.
Lemma h_segment_mon c now conn a s s' o r : h_segment c now conn a s = HOk s' o r -> step_ok s o s'.
Proof. unfold h_segment, step_ok. split_ifs; mon_leaf. Qed.
Lemma h_last_mon c now conn a s s' o r : h_last c now conn a s = HOk s' o r -> step_ok s o s'.
Proof. unfold h_last, step_ok. split_ifs; mon_leaf. Qed.
Lemma h_ack_mon c e now conn a s s' o r : h_ack c e now conn a s = HOk s' o r -> step_ok s o s'.
Proof. unfold h_ack, step_ok. split_ifs; mon_leaf. Qed.
Lemma h_call_mon c e now conn a s s' o r : h_call c e now conn a s = HOk s' o r -> step_ok s o s'.
Proof. unfold h_call, step_ok. split_ifs; mon_leaf. Qed.

Lemma handle_asdu_mon c e now conn a s s' o r : handle_asdu c e now conn a s = HOk s' o r -> step_ok s o s'.
Proof.
  unfold handle_asdu. destruct ((120 <=? tid a) && (tid a <=? 127)).
  2:{ intros H; inversion H; subst; intros ow Hi; exists ow; split; [reflexivity|exact Hi]. }
  set (s1 := if negb (fstate_eqb (st s) Idle) && timed_out c now s then set_st s Idle else s).
  assert (M : forall ow, minv ow s -> minv ow s1).
  { intros ow Hi. unfold s1. destruct (negb (fstate_eqb (st s) Idle) && timed_out c now s); [exact Hi|exact Hi]. }
  assert (K : forall o' s2, step_ok s1 o' s2 -> step_ok s o' s2).
  { intros o' s2 Hs ow Hi. apply Hs, M, Hi. }
  destruct (tid a =? 120). { intros H; eapply K, h_file_ready_mon, H. }
  destruct (tid a =? 121). { intros H; eapply K, h_section_ready_mon, H. }
  destruct (tid a =? 125). { intros H; eapply K, h_segment_mon, H. }
  destruct (tid a =? 123). { intros H; eapply K, h_last_mon, H. }
  destruct (tid a =? 124). { intros H; eapply K, h_ack_mon, H. }
  destruct (tid a =? 122). { intros H; eapply K, h_call_mon, H. }
  intros H; inversion H; subst; intros ow Hi; exists ow; split; [reflexivity|apply M, Hi].
Qed.

Lemma run_task_mon c e now conn s : step_ok s (snd (run_task c e now conn s)) (fst (run_task c e now conn s)).
Proof.
  intros ow Hi. unfold run_task.
  destruct (negb (fstate_eqb (st s) Idle)); [|exists ow; split; [reflexivity|exact Hi]].
  destruct (fstate_eqb (st s) Transmit); cbn [andb].
  2:{ destruct (timed_out c now s); exists ow; (split; [reflexivity|exact Hi]). }
  destruct (selc s =? conn) eqn:EC; cbn [andb].
  2:{ destruct (timed_out c now s); exists ow; (split; [reflexivity|exact Hi]). }
  destruct (sel s) eqn:ES.
  2:{ destruct (timed_out c now s); exists ow; (split; [reflexivity|exact Hi]). }
  apply Z.eqb_eq in EC. assert (O : ow = Some conn) by (rewrite <- EC; apply Hi; exact ES). subst ow.
  split_ifs; cbn [fst snd mon is_data]; rewrite Z.eqb_refl; (eexists; split; [reflexivity|]); unfold minv; cbn; intros _; rewrite EC; reflexivity.
Qed.

(* every history: whatever messages arrive on whatever connection, for whichever connection the task is run and
   however the clock moves, the monitor accepts the observation stream *)
Theorem data_goes_to_the_selecting_connection_gen c e evs : forall s now acc ow s' now' o,
  minv ow s -> run c e evs s now acc = ROk s' now' o ->
  exists o2, o = acc ++ o2 /\ exists ow', mon ow o2 = Some ow' /\ minv ow' s'.
Proof.
  induction evs as [|ev evs IH]; intros s now acc ow s' now' o Hi; cbn [run].
  - intros H; inversion H; subst. exists []. rewrite app_nil_r. split; [reflexivity|]. exists ow. split; [reflexivity|exact Hi].
  - destruct ev as [conn a|conn|ms].
    + destruct (handle_asdu c e now conn a s) as [|s1 o1 r1] eqn:EH; [discriminate|].
      intros H. destruct (handle_asdu_mon _ _ _ _ _ _ _ _ _ EH ow Hi) as (ow1 & M1 & I1).
      destruct (IH _ _ _ _ _ _ _ I1 H) as (o2 & E2 & ow2 & M2 & I2).
      exists (o1 ++ o2). split; [rewrite E2, app_assoc; reflexivity|]. exists ow2. rewrite mon_app, M1. split; assumption.
    + destruct (run_task c e now conn s) as [s1 o1] eqn:ER.
      intros H. pose proof (run_task_mon c e now conn s ow Hi) as (ow1 & M1 & I1). rewrite ER in M1, I1. cbn [fst snd] in M1, I1.
      destruct (IH _ _ _ _ _ _ _ I1 H) as (o2 & E2 & ow2 & M2 & I2).
      exists (o1 ++ o2). split; [rewrite E2, app_assoc; reflexivity|]. exists ow2. rewrite mon_app, M1. split; assumption.
    + intros H. exact (IH _ _ _ _ _ _ _ Hi H).
Qed.

Theorem data_goes_to_the_selecting_connection c e evs s' now' o :
  run c e evs fs0 0 [] = ROk s' now' o -> exists ow', mon None o = Some ow'.
Proof.
  intros H. assert (Hi : minv None fs0) by (intros X; discriminate X).
  destruct (data_goes_to_the_selecting_connection_gen c e evs _ _ _ _ _ _ _ Hi H) as (o2 & E & ow' & M & _).
  cbn in E. subst o2. exists ow'. exact M.
Qed.

(* what the monitor's acceptance means: a data ASDU in the stream is preceded by a positive FILE READY on the same connection,
   with no positive FILE READY on another connection in between *)
Lemma mon_data_owner o : forall ow ow' pre cn oa ca ioa nof t post,
  mon ow o = Some ow' -> o = pre ++ OSend cn oa ca ioa nof t :: post -> is_data t = true ->
  exists w, mon ow pre = Some (Some w) /\ w = cn.
Proof.
  intros ow ow' pre cn oa ca ioa nof t post M E D. subst o. rewrite mon_app in M.
  destruct (mon ow pre) as [w|] eqn:EP; [|discriminate].
  cbn [mon] in M. destruct t as [lof [|]| | | | | | | ]; try discriminate D; cbn [is_data] in M;
    (destruct w as [w|]; [destruct (w =? cn) eqn:EW; [apply Z.eqb_eq in EW; exists w; split; [reflexivity|exact EW]|discriminate]|discriminate]).
Qed.

(* the monitor does refuse streams in which data goes elsewhere (it is not trivially true) *)
Example mon_refuses : mon None [OSend 0 0 1 2 3 (TFileReady 5 true); OSend 1 0 1 2 3 (TSegment 1 [7])] = None.
Proof. reflexivity. Qed.
Example mon_accepts : mon None [OSend 0 0 1 2 3 (TFileReady 5 true); OSend 1 0 1 2 3 (TSectionReady 1 1); OSend 0 0 1 2 3 (TSegment 1 [7])] = Some (Some 0).
Proof. reflexivity. Qed.

(* non-vacuity: two connections; c0 selects and calls, the task runs for c1 and for c0 in turn, c1 acknowledges the section:
   segments and last-segment appear (on c0 only), the answer to c1's acknowledgement goes to c1, the monitor accepts *)
Definition two_conn_script : list event :=
  [ERx 0 m_select; ERx 0 m_callfile; ERx 0 (m_callsec 1); ERun 1; ERun 0; ERun 1; ERun 0; ERx 1 (m_ack 1 3); ERun 1; ERx 0 (m_callsec 2); ERun 1; ERun 0].
Definition data_conns (o : list obs) : list Z :=
  flat_map (fun x => match x with OSend cn _ _ _ _ t => if is_data t then [cn] else [] | _ => [] end) o.
Definition ready_conns (o : list obs) : list Z :=
  flat_map (fun x => match x with OSend cn _ _ _ _ (TSectionReady _ _) => [cn] | _ => [] end) o.
Example two_connections :
  let o := obs_of (run (cfg0 true) env0 two_conn_script fs0 0 []) in
  data_conns o = [0; 0; 0] /\ ready_conns o = [0; 1] /\ mon None o = Some (Some 0).
Proof. vm_compute. repeat split; reflexivity. Qed.
