(* C20: what "a master that follows the standard procedure" sends, stated as properties of the received ASDUs
   (so the theorems hold for every encoding of these messages), and the views of the observations a master /
   the slave application has. *)
From Coq Require Import ZArith List Bool Lia.
From L60870 Require Import Dispatch.DispatchBase File.FileServer.
Import ListNotations.
Local Open Scope Z_scope.

Definition good_cfg (c : fcfg) : Prop := 0 < max_seg c /\ 0 <= f_timeout c /\ f_fixd c = true.
(* a file: at most 254 sections (the section name is one octet), none of them empty *)
Definition good_env (e : fenv) : Prop :=
  e_present e = true /\ Forall (fun s => s <> []) (e_secs e) /\ Z.of_nat (length (e_secs e)) < 255.

(* an F_* ASDU in control direction addressed to the offered file: cause 13, positive, the file's CA and IOA, and
   an information element made of exactly these octets after the IOA *)
Definition file_msg (c : fcfg) (e : fenv) (a : asdu) (t : Z) (body : list Z) : Prop :=
  tid a = t /\ cot a = 13 /\ pn a = false /\ get_ca (f_alp c) a = e_ca e /\
  dec (f_alp c) (Z.of_nat (length body)) (payload a) = Some (e_ioa e, body).
Definition nof_ok (e : fenv) (n0 n1 : Z) : Prop := n0 + 256 * n1 = e_nof e.

Definition is_select c e a := exists n0 n1 x, nof_ok e n0 n1 /\ file_msg c e a 122 [n0; n1; x; 1].
Definition is_call_file c e a := exists n0 n1 x, nof_ok e n0 n1 /\ file_msg c e a 122 [n0; n1; x; 2].
Definition is_call_section c e a (k : Z) := exists n0 n1, nof_ok e n0 n1 /\ file_msg c e a 122 [n0; n1; k; 6].
Definition is_ack c e a (afq : Z) := exists n0 n1 x, nof_ok e n0 n1 /\ file_msg c e a 124 [n0; n1; x; afq].

(* what the master keeps of the ASDUs sent to it *)
Definition seg_of (k : Z) (o : obs) : list Z :=
  match o with OSend _ _ _ _ _ (TSegment n d) => if n =? k then d else [] | _ => [] end.
Definition segments (k : Z) (os : list obs) : list Z := concat (map (seg_of k) os).
Definition is_segment (o : obs) : bool := match o with OSend _ _ _ _ _ (TSegment _ _) => true | _ => false end.
Definition seg_len_ok (m : Z) (o : obs) : bool :=
  match o with OSend _ _ _ _ _ (TSegment _ d) => Z.of_nat (length d) <=? m | _ => true end.
Definition completes (os : list obs) : list bool :=
  concat (map (fun o => match o with CComplete b => [b] | _ => [] end) os).
Definition last_segments (os : list obs) : list (Z * Z) :=
  concat (map (fun o => match o with OSend _ _ _ _ _ (TLastSegment n chs) => [(n, chs)] | _ => [] end) os).
Definition last_sections (os : list obs) : list (Z * Z) :=
  concat (map (fun o => match o with OSend _ _ _ _ _ (TLastSection n chs) => [(n, chs)] | _ => [] end) os).

Definition chk (l : list Z) : Z := sum l mod 256.
