(* Soundness of the lock-discipline checker (proved once, for every program).
   check_except K p = true  ->  every path of every function outside K (paths not entering K), run from the locks its
   contract requires plus any frame F ranking below everything it may acquire, performs a DISCIPLINED trace:
   replay succeeds (no post without wait, no acquisition of a held instance, every acquisition strictly above
   everything held in the certified ranking), and a completed path leaves exactly the contract's lock + F held. *)
From Coq Require Import String List Bool Arith PeanoNat Permutation Lia.
From L60870 Require Import Locks.Skeleton Locks.Checker.
Import ListNotations.
Local Open Scope string_scope.
Local Open Scope list_scope.

(* ------------------------------------------------------------------ small facts *)
Lemma list_eqb_eq {A} (eqb : A -> A -> bool) :
  (forall x y, eqb x y = true -> x = y) -> forall a b, list_eqb eqb a b = true -> a = b.
Proof.
  intros He a. induction a as [|x a IH]; intros [|y b] H; simpl in H; try discriminate; [reflexivity|].
  apply andb_true_iff in H as [H1 H2]. f_equal; [apply He; exact H1 | apply IH; exact H2].
Qed.

Lemma str_eqb_eq x y : String.eqb x y = true -> x = y.
Proof. apply String.eqb_eq. Qed.

Lemma recv_eqb_eq a b : recv_eqb a b = true -> a = b.
Proof.
  destruct a as [ra pa], b as [rb' pb]. unfold recv_eqb; simpl. intros H.
  apply andb_true_iff in H as [H1 H2]. apply str_eqb_eq in H1. apply (list_eqb_eq _ str_eqb_eq) in H2. congruence.
Qed.

Lemma lock_eqb_eq a b : lock_eqb a b = true -> a = b.
Proof.
  destruct a as [ca ra], b as [cb rb']. unfold lock_eqb; simpl. intros H.
  apply andb_true_iff in H as [H1 H2]. apply str_eqb_eq in H1. apply recv_eqb_eq in H2. congruence.
Qed.

Lemma astate_eqb_eq a b : astate_eqb a b = true -> a = b.
Proof. apply list_eqb_eq. exact lock_eqb_eq. Qed.

Lemma mem_In x l : mem x l = true -> In x l.
Proof.
  induction l as [|y t IH]; simpl; [discriminate|]. intros H. apply orb_true_iff in H as [H|H].
  - left. symmetry. apply str_eqb_eq. exact H.
  - right. apply IH. exact H.
Qed.

Lemma In_mem x l : In x l -> mem x l = true.
Proof.
  induction l as [|y t IH]; simpl; [tauto|]. intros [->|H].
  - rewrite String.eqb_refl. reflexivity.
  - rewrite (IH H). apply orb_true_r.
Qed.

Lemma subset_In a b : subset a b = true -> forall x, In x a -> In x b.
Proof. unfold subset. intros H x Hx. rewrite forallb_forall in H. apply mem_In. apply H. exact Hx. Qed.

Lemma find_fn_in_some fs f d : find_fn_in fs f = Some d -> In d fs /\ fname d = f.
Proof.
  induction fs as [|e t IH]; simpl; [discriminate|]. destruct (String.eqb (fname e) f) eqn:E.
  - intros H; inversion H; subst. split; [left; reflexivity | apply str_eqb_eq; exact E].
  - intros H. destruct (IH H). split; [right; assumption | assumption].
Qed.

Lemma aremove_perm l A A' : aremove l A = Some A' -> Permutation A (l :: A').
Proof.
  revert A'. induction A as [|h t IH]; simpl; [discriminate|]. intros A'. destruct (lock_eqb l h) eqn:E.
  - intros H; inversion H; subst. apply lock_eqb_eq in E. subst. apply Permutation_refl.
  - destruct (aremove l t) as [t'|]; simpl; [|discriminate]. intros H; inversion H; subst.
    eapply perm_trans; [apply perm_skip; apply IH; reflexivity | apply perm_swap].
Qed.

Lemma inst_eqb_eq a b : inst_eqb a b = true -> a = b.
Proof.
  destruct a as [c o], b as [c' o']. unfold inst_eqb; simpl. intros H. apply andb_true_iff in H as [H1 H2].
  apply str_eqb_eq in H1. apply Nat.eqb_eq in H2. congruence.
Qed.

Lemma inst_eqb_refl a : inst_eqb a a = true.
Proof. destruct a. unfold inst_eqb; simpl. rewrite String.eqb_refl, Nat.eqb_refl. reflexivity. Qed.

Lemma remove1_some i H H' : remove1 i H = Some H' -> Permutation H (i :: H').
Proof.
  revert H'. induction H as [|h t IH]; simpl; [discriminate|]. intros H'. destruct (inst_eqb i h) eqn:E.
  - intros X; inversion X; subst. apply inst_eqb_eq in E. subst. apply Permutation_refl.
  - destruct (remove1 i t) as [t'|]; simpl; [|discriminate]. intros X; inversion X; subst.
    eapply perm_trans; [apply perm_skip; apply IH; reflexivity | apply perm_swap].
Qed.

Lemma remove1_in i H : In i H -> exists H', remove1 i H = Some H'.
Proof.
  induction H as [|h t IH]; simpl; [tauto|]. intros Hin. destruct (inst_eqb i h) eqn:E; [eexists; reflexivity|].
  destruct Hin as [->|Hin]; [rewrite inst_eqb_refl in E; discriminate|].
  destruct (IH Hin) as [t' ->]. simpl. eexists; reflexivity.
Qed.

Lemma remove1_perm i H X : Permutation H (i :: X) -> exists H', remove1 i H = Some H' /\ Permutation H' X.
Proof.
  intros Hp. destruct (remove1_in i H) as [H' E].
  - eapply Permutation_in; [apply Permutation_sym; exact Hp | left; reflexivity].
  - exists H'. split; [exact E|]. apply remove1_some in E. eapply Permutation_cons_inv.
    eapply perm_trans; [apply Permutation_sym; exact E | exact Hp].
Qed.

Lemma replay_app rank t1 t2 H H1 : replay rank t1 H = Some H1 -> replay rank (t1 ++ t2) H = replay rank t2 H1.
Proof.
  revert H. induction t1 as [|e t IH]; intros H; simpl.
  - intros X; inversion X; reflexivity.
  - destruct e as [i|i].
    + destruct (forallb (fun h => Nat.ltb (rank (fst h)) (rank (fst i))) H); [apply IH | discriminate].
    + destruct (remove1 i H); [apply IH | discriminate].
Qed.

(* ------------------------------------------------------------------ results of the abstract interpreter *)
Lemma join_l x y z a : join x y = OK z -> x = Some a -> z = Some a.
Proof.
  intros H ->. unfold join in H. destruct y as [b|]; [|inversion H; reflexivity].
  destruct (astate_eqb a b); inversion H; reflexivity.
Qed.

Lemma join_r x y z a : join x y = OK z -> y = Some a -> z = Some a.
Proof.
  intros H ->. unfold join in H. destruct x as [b|]; [|inversion H; reflexivity].
  destruct (astate_eqb b a) eqn:E; inversion H. apply astate_eqb_eq in E. subst. reflexivity.
Qed.

Lemma merge_inv a b m : merge a b = OK m ->
  join (rn a) (rn b) = OK (rn m) /\ join (rr a) (rr b) = OK (rr m) /\ join (rb a) (rb b) = OK (rb m) /\
  join (rc a) (rc b) = OK (rc m) /\ join (rg a) (rg b) = OK (rg m).
Proof.
  unfold merge. destruct (join (rn a) (rn b)), (join (rr a) (rr b)), (join (rb a) (rb b)), (join (rc a) (rc b)), (join (rg a) (rg b));
    intros H; inversion H; subst; simpl; repeat split; reflexivity.
Qed.

Lemma merge_get_l a b m k x : merge a b = OK m -> get a k = Some x -> get m k = Some x.
Proof.
  intros H G. apply merge_inv in H as (H1 & H2 & H3 & H4 & H5).
  destruct k; simpl in *; try discriminate; eauto using join_l.
Qed.

Lemma merge_get_r a b m k x : merge a b = OK m -> get b k = Some x -> get m k = Some x.
Proof.
  intros H G. apply merge_inv in H as (H1 & H2 & H3 & H4 & H5).
  destruct k; simpl in *; try discriminate; eauto using join_r.
Qed.

Lemma same_or_none_some x A B : same_or_none x A = true -> x = Some B -> B = A.
Proof. intros H ->. simpl in H. apply astate_eqb_eq. exact H. Qed.

(* ------------------------------------------------------------------ the invariant *)
Section Sound.
Variable K : list string.
Variable p : program.

Definition insts (r : env) (A : astate) : list inst := map (inst_of r) A.
Definition frame_ok (F : list inst) (acqd : list cls) : Prop :=
  forall x c, In x F -> In c acqd -> rk p (fst x) < rk p c.
Definition program_ok : Prop := forall d, In d (funs p) -> mem (fname d) K = false -> fn_ok p d = true.

Lemma check_except_ok : check_except K p = true -> program_ok.
Proof.
  unfold check_except, program_ok. intros H d Hd Hk. rewrite forallb_forall in H. specialize (H d Hd).
  rewrite Hk in H. exact H.
Qed.

Lemma insts_agree r r1 A : (forall h, In h A -> r1 (lrecv h) = r (lrecv h)) -> insts r1 A = insts r A.
Proof.
  intros H. unfold insts. apply map_ext_in. intros h Hh. unfold inst_of. rewrite (H h Hh). reflexivity.
Qed.

Lemma order_ok_spec A cs : order_ok p A cs = true -> forall h c, In h A -> In c cs -> rk p (lcls h) < rk p c.
Proof.
  unfold order_ok. intros H h c Hh Hc. rewrite forallb_forall in H. specialize (H h Hh).
  rewrite forallb_forall in H. specialize (H c Hc). apply Nat.ltb_lt. exact H.
Qed.

(* acquiring an instance of class c is allowed by replay when everything held ranks below c *)
Lemma acq_allowed H A F r c acqd :
  Permutation H (insts r A ++ F) -> frame_ok F acqd -> In c acqd ->
  (forall h, In h A -> rk p (lcls h) < rk p c) ->
  forall o : obj, forallb (fun h : inst => Nat.ltb (rk p (fst h)) (rk p (fst ((c, o) : inst)))) H = true.
Proof.
  intros Hp Hf Hc Ha o. apply forallb_forall. intros x Hx. apply Nat.ltb_lt. simpl.
  eapply Permutation_in in Hx; [|exact Hp]. apply in_app_or in Hx as [Hx|Hx].
  - unfold insts in Hx. apply in_map_iff in Hx as (h & <- & Hh). simpl. apply Ha. exact Hh.
  - apply Hf; assumption.
Qed.

Lemma subst_lock_inst params args l l' r r' :
  subst_lock params args l = Some l' -> bind_ok r r' params args -> inst_of r' l = inst_of r l'.
Proof.
  unfold subst_lock. destruct l as [c [x path]]; simpl.
  destruct (index_of x params) as [i|] eqn:Ei; [|discriminate].
  destruct (nth_error args i) as [[a|]|] eqn:Ea; try discriminate.
  intros H; inversion H; subst. intros Hb. unfold inst_of; simpl. f_equal.
  assert (Hn : nth_error params i = Some x).
  { clear -Ei. revert i Ei. induction params as [|y t IH]; simpl; [discriminate|]. intros i.
    destruct (String.eqb x y) eqn:E.
    - intros X; inversion X; subst. simpl. apply str_eqb_eq in E. subst. reflexivity.
    - destruct (index_of x t) as [j|]; simpl; [|discriminate]. intros X; inversion X; subst. simpl. apply IH. reflexivity. }
  apply (Hb i x a path Hn Ea Ei).
Qed.

Definition conclusion (r : env) (tr : list event) (k : okind) (r1 : env) (frozen : list string) (res : res)
           (F H : list inst) : Prop :=
  exists H1, replay (rk p) tr H = Some H1 /\
             (forall x, In (rroot x) frozen -> r1 x = r x) /\
             (k <> OAbort -> exists A1, get res k = Some A1 /\ Permutation H1 (insts r1 A1 ++ F)).

Lemma fn_ok_inv d : fn_ok p d = true ->
  exists r, check_stmt p (facq d) (froots d) (fbody d) (olist (fpre d)) = OK r /\
            same_or_none (rn r) (olist (fpost d)) = true /\ same_or_none (rr r) (olist (fpost d)) = true /\
            rb r = None /\ rc r = None /\ rg r = None /\
            (fpublic d = true -> fpre d = None -> fpost d = None -> subset (facq d) (api_acq p) = true).
Proof.
  unfold fn_ok, check_fn. destruct (check_stmt p (facq d) (froots d) (fbody d) (olist (fpre d))) as [r|]; [|discriminate].
  destruct (same_or_none (rn r) (olist (fpost d))) eqn:E1; [|simpl; discriminate].
  destruct (same_or_none (rr r) (olist (fpost d))) eqn:E2; [|simpl; discriminate].
  destruct (rb r) eqn:E3; [simpl; discriminate|]. destruct (rc r) eqn:E4; [simpl; discriminate|].
  destruct (rg r) eqn:E5; [simpl; discriminate|].
  destruct (subset (froots d) (fparams d)); [|simpl; discriminate].
  intros H. exists r. split; [reflexivity|]. split; [exact E1|]. split; [exact E2|]. split; [exact E3|]. split; [exact E4|]. split; [exact E5|].
  intros Hp Hpre Hpost. rewrite Hp, Hpre, Hpost in H. simpl in H.
  destruct (subset (facq d) (api_acq p)); [reflexivity | discriminate].
Qed.

(* a whole function body, run from its contract's precondition plus a frame *)
Definition fn_conclusion (d : fn) (r' : env) (tr : list event) (k : okind) (r'' : env) (F H : list inst) : Prop :=
  exists H1, replay (rk p) tr H = Some H1 /\
             (k = ONormal \/ k = ORet -> Permutation H1 (insts r' (olist (fpost d)) ++ F)).

Lemma fn_from_stmt d r' tr k r'' F H res :
  same_or_none (rn res) (olist (fpost d)) = true -> same_or_none (rr res) (olist (fpost d)) = true ->
  conclusion r' tr k r'' (froots d) res F H -> fn_conclusion d r' tr k r'' F H.
Proof.
  intros S1 S2 (H1 & Hr & Hag & Hk). exists H1. split; [exact Hr|]. intros Hkk.
  assert (Hne : k <> OAbort) by (destruct Hkk; subst; discriminate).
  destruct (Hk Hne) as (A1 & Hg & Hp).
  assert (A1 = olist (fpost d)).
  { destruct Hkk; subst; simpl in Hg; eauto using same_or_none_some. }
  subst A1. erewrite <- insts_agree; [exact Hp|]. intros h Hh. apply Hag. unfold froots. apply in_map_iff.
  exists h. split; [reflexivity|]. apply in_or_app. right. exact Hh.
Qed.

Theorem sound_stmt : program_ok -> forall r s tr k r1, exec K p r s tr k r1 ->
  forall acqd frozen A res F HH, check_stmt p acqd frozen s A = OK res ->
    Permutation HH (insts r A ++ F) -> frame_ok F acqd -> conclusion r tr k r1 frozen res F HH.
Proof.
  intros Hok r s tr k r1 Hex.
  induction Hex; intros acqd frozen A res F HH Hck Hperm Hfr; unfold conclusion.
  - (* abort *) exists HH. split; [reflexivity|]. split; [auto|]. intros X; congruence.
  - (* skip *) simpl in Hck. inversion Hck; subst. exists HH. split; [reflexivity|]. split; [auto|].
    intros _. exists A. split; [reflexivity | exact Hperm].
  - (* seq normal *)
    simpl in Hck. destruct (check_stmt p acqd frozen a A) as [ra|] eqn:Ea; [|discriminate].
    destruct (IHHex1 _ _ _ _ _ _ Ea Hperm Hfr) as (G1 & Hr1 & Hag1 & Hk1).
    destruct (Hk1 ltac:(discriminate)) as (A1 & Hg1 & Hp1). simpl in Hg1. rewrite Hg1 in Hck.
    destruct (check_stmt p acqd frozen b A1) as [rb'|] eqn:Eb; [|discriminate].
    destruct (IHHex2 _ _ _ _ _ _ Eb Hp1 Hfr) as (G2 & Hr2 & Hag2 & Hk2).
    exists G2. split; [rewrite (replay_app _ _ _ _ _ Hr1); exact Hr2|].
    split; [intros x Hx; rewrite (Hag2 x Hx); apply Hag1; exact Hx|].
    intros Hne. destruct (Hk2 Hne) as (A2 & Hg2 & Hp2). exists A2. split; [|exact Hp2].
    eapply merge_get_r; eassumption.
  - (* seq exit *)
    simpl in Hck. destruct (check_stmt p acqd frozen a A) as [ra|] eqn:Ea; [|discriminate].
    destruct (IHHex _ _ _ _ _ _ Ea Hperm Hfr) as (G1 & Hr1 & Hag1 & Hk1).
    exists G1. split; [exact Hr1|]. split; [exact Hag1|]. intros Hne.
    destruct (Hk1 Hne) as (A1 & Hg1 & Hp1). exists A1. split; [|exact Hp1].
    destruct (rn ra) as [An|] eqn:En.
    + destruct (check_stmt p acqd frozen b An) as [rb'|]; [|discriminate].
      eapply merge_get_l; [exact Hck|]. destruct k; simpl in *; congruence.
    + inversion Hck; subst. exact Hg1.
  - (* if left *)
    simpl in Hck. destruct (check_stmt p acqd frozen a A) as [ra|] eqn:Ea; [|discriminate].
    destruct (check_stmt p acqd frozen b A) as [rb'|] eqn:Eb; [|discriminate].
    destruct (IHHex _ _ _ _ _ _ Ea Hperm Hfr) as (G1 & Hr1 & Hag1 & Hk1).
    exists G1. split; [exact Hr1|]. split; [exact Hag1|]. intros Hne.
    destruct (Hk1 Hne) as (A1 & Hg1 & Hp1). exists A1. split; [|exact Hp1]. eapply merge_get_l; eassumption.
  - (* if right *)
    simpl in Hck. destruct (check_stmt p acqd frozen a A) as [ra|] eqn:Ea; [|discriminate].
    destruct (check_stmt p acqd frozen b A) as [rb'|] eqn:Eb; [|discriminate].
    destruct (IHHex _ _ _ _ _ _ Eb Hperm Hfr) as (G1 & Hr1 & Hag1 & Hk1).
    exists G1. split; [exact Hr1|]. split; [exact Hag1|]. intros Hne.
    destruct (Hk1 Hne) as (A1 & Hg1 & Hp1). exists A1. split; [|exact Hp1]. eapply merge_get_r; eassumption.
  - (* loop iteration *)
    pose proof Hck as Hck0. simpl in Hck. destruct (check_stmt p acqd frozen s A) as [rs|] eqn:Es; [|discriminate].
    destruct (same_or_none (rn rs) A) eqn:S1; simpl in Hck; [|discriminate].
    destruct (same_or_none (rc rs) A) eqn:S2; simpl in Hck; [|discriminate].
    destruct (IHHex1 _ _ _ _ _ _ Es Hperm Hfr) as (G1 & Hr1 & Hag1 & Hk1).
    assert (Hne : k <> OAbort) by (destruct H; subst; discriminate).
    destruct (Hk1 Hne) as (A1 & Hg1 & Hp1).
    assert (A1 = A) by (destruct H; subst; simpl in Hg1; eauto using same_or_none_some). subst A1.
    destruct (IHHex2 _ _ _ _ _ _ Hck0 Hp1 Hfr) as (G2 & Hr2 & Hag2 & Hk2).
    exists G2. split; [rewrite (replay_app _ _ _ _ _ Hr1); exact Hr2|].
    split; [intros x Hx; rewrite (Hag2 x Hx); apply Hag1; exact Hx | exact Hk2].
  - (* loop break *)
    simpl in Hck. destruct (check_stmt p acqd frozen s A) as [rs|] eqn:Es; [|discriminate].
    destruct (same_or_none (rn rs) A && same_or_none (rc rs) A); [|discriminate]. inversion Hck; subst.
    destruct (IHHex _ _ _ _ _ _ Es Hperm Hfr) as (G1 & Hr1 & Hag1 & Hk1).
    exists G1. split; [exact Hr1|]. split; [exact Hag1|]. intros _.
    destruct (Hk1 ltac:(discriminate)) as (A1 & Hg1 & Hp1). exists A1. split; [exact Hg1 | exact Hp1].
  - (* loop exit *)
    simpl in Hck. destruct (check_stmt p acqd frozen s A) as [rs|] eqn:Es; [|discriminate].
    destruct (same_or_none (rn rs) A && same_or_none (rc rs) A); [|discriminate]. inversion Hck; subst.
    destruct (IHHex _ _ _ _ _ _ Es Hperm Hfr) as (G1 & Hr1 & Hag1 & Hk1).
    exists G1. split; [exact Hr1|]. split; [exact Hag1|]. intros Hne.
    destruct (Hk1 Hne) as (A1 & Hg1 & Hp1). exists A1. split; [|exact Hp1].
    destruct H as [->|[->| ->]]; simpl in *; congruence.
  - (* brkscope: break *)
    simpl in Hck. destruct (check_stmt p acqd frozen s A) as [rs|] eqn:Es; [|discriminate].
    destruct (join (rn rs) (rb rs)) as [n|] eqn:Ej; [|discriminate]. inversion Hck; subst.
    destruct (IHHex _ _ _ _ _ _ Es Hperm Hfr) as (G1 & Hr1 & Hag1 & Hk1).
    exists G1. split; [exact Hr1|]. split; [exact Hag1|]. intros _.
    destruct (Hk1 ltac:(discriminate)) as (A1 & Hg1 & Hp1). exists A1. split; [|exact Hp1].
    simpl in *. eapply join_r; eassumption.
  - (* brkscope: other *)
    simpl in Hck. destruct (check_stmt p acqd frozen s A) as [rs|] eqn:Es; [|discriminate].
    destruct (join (rn rs) (rb rs)) as [n|] eqn:Ej; [|discriminate]. inversion Hck; subst.
    destruct (IHHex _ _ _ _ _ _ Es Hperm Hfr) as (G1 & Hr1 & Hag1 & Hk1).
    exists G1. split; [exact Hr1|]. split; [exact Hag1|]. intros Hne.
    destruct (Hk1 Hne) as (A1 & Hg1 & Hp1). exists A1. split; [|exact Hp1].
    destruct k; simpl in *; try congruence. eapply join_l; eassumption.
  - (* contscope: continue *)
    simpl in Hck. destruct (check_stmt p acqd frozen s A) as [rs|] eqn:Es; [|discriminate].
    destruct (join (rn rs) (rc rs)) as [n|] eqn:Ej; [|discriminate]. inversion Hck; subst.
    destruct (IHHex _ _ _ _ _ _ Es Hperm Hfr) as (G1 & Hr1 & Hag1 & Hk1).
    exists G1. split; [exact Hr1|]. split; [exact Hag1|]. intros _.
    destruct (Hk1 ltac:(discriminate)) as (A1 & Hg1 & Hp1). exists A1. split; [|exact Hp1].
    simpl in *. eapply join_r; eassumption.
  - (* contscope: other *)
    simpl in Hck. destruct (check_stmt p acqd frozen s A) as [rs|] eqn:Es; [|discriminate].
    destruct (join (rn rs) (rc rs)) as [n|] eqn:Ej; [|discriminate]. inversion Hck; subst.
    destruct (IHHex _ _ _ _ _ _ Es Hperm Hfr) as (G1 & Hr1 & Hag1 & Hk1).
    exists G1. split; [exact Hr1|]. split; [exact Hag1|]. intros Hne.
    destruct (Hk1 Hne) as (A1 & Hg1 & Hp1). exists A1. split; [|exact Hp1].
    destruct k; simpl in *; try congruence. eapply join_l; eassumption.
  - (* block: epilogue entered *)
    simpl in Hck. destruct (check_stmt p acqd frozen s A) as [rs|] eqn:Es; [|discriminate].
    destruct (join (rn rs) (rg rs)) as [n|] eqn:Ej; [|discriminate].
    destruct (IHHex1 _ _ _ _ _ _ Es Hperm Hfr) as (G1 & Hr1 & Hag1 & Hk1).
    assert (Hne : k <> OAbort) by (destruct H; subst; discriminate).
    destruct (Hk1 Hne) as (A1 & Hg1 & Hp1).
    assert (n = Some A1) by (destruct H; subst; simpl in Hg1; eauto using join_l, join_r). subst n.
    destruct (check_stmt p acqd frozen e A1) as [re|] eqn:Ee; [|discriminate].
    destruct (IHHex2 _ _ _ _ _ _ Ee Hp1 Hfr) as (G2 & Hr2 & Hag2 & Hk2).
    exists G2. split; [rewrite (replay_app _ _ _ _ _ Hr1); exact Hr2|].
    split; [intros x Hx; rewrite (Hag2 x Hx); apply Hag1; exact Hx|].
    intros Hne2. destruct (Hk2 Hne2) as (A2 & Hg2 & Hp2). exists A2. split; [|exact Hp2].
    eapply merge_get_r; eassumption.
  - (* block: leaves otherwise *)
    simpl in Hck. destruct (check_stmt p acqd frozen s A) as [rs|] eqn:Es; [|discriminate].
    destruct (join (rn rs) (rg rs)) as [n|] eqn:Ej; [|discriminate].
    destruct (IHHex _ _ _ _ _ _ Es Hperm Hfr) as (G1 & Hr1 & Hag1 & Hk1).
    exists G1. split; [exact Hr1|]. split; [exact Hag1|]. intros Hne.
    destruct (Hk1 Hne) as (A1 & Hg1 & Hp1). exists A1. split; [|exact Hp1].
    assert (Hg : get (mkRes None (rr rs) (rb rs) (rc rs) None) k = Some A1) by (destruct k; simpl in *; congruence).
    destruct n as [An|].
    + destruct (check_stmt p acqd frozen e An) as [re|]; [|discriminate]. eapply merge_get_l; eassumption.
    + inversion Hck; subst. exact Hg.
  - (* wait *)
    simpl in Hck.
    destruct (forallb (fun h => Nat.ltb (rk p (lcls h)) (rk p (lcls l))) A) eqn:Eo; simpl in Hck; [|discriminate].
    destruct (mem (lcls l) acqd) eqn:Em; simpl in Hck; [|discriminate]. inversion Hck; subst.
    exists (inst_of r l :: HH). split.
    + assert (Hlt : forall h, In h A -> rk p (lcls h) < rk p (lcls l)).
      { intros h Hh. rewrite forallb_forall in Eo. apply Nat.ltb_lt. apply Eo. exact Hh. }
      pose proof (acq_allowed HH A F r (lcls l) acqd Hperm Hfr (mem_In _ _ Em) Hlt (r (lrecv l))) as Hall.
      unfold inst_of. cbn [replay fst]. cbn [fst] in Hall. unfold inst in Hall. rewrite Hall. reflexivity.
    + split; [auto|]. intros _. exists (l :: A). split; [reflexivity|]. simpl. apply perm_skip. exact Hperm.
  - (* post *)
    simpl in Hck. destruct (aremove l A) as [A'|] eqn:Er; [|discriminate]. inversion Hck; subst.
    apply aremove_perm in Er.
    assert (Hp2 : Permutation HH (inst_of r l :: (insts r A' ++ F))).
    { eapply perm_trans; [exact Hperm|]. change (inst_of r l :: insts r A' ++ F) with (insts r (l :: A') ++ F).
      apply Permutation_app_tail. unfold insts. apply Permutation_map. exact Er. }
    destruct (remove1_perm _ _ _ Hp2) as (H' & E1 & E2).
    exists H'. split; [simpl; rewrite E1; reflexivity|]. split; [auto|]. intros _. exists A'. split; [reflexivity | exact E2].
  - (* assign *)
    simpl in Hck. destruct (mem v frozen) eqn:Ef; [discriminate|].
    destruct (forallb (fun h => negb (String.eqb (rroot (lrecv h)) v)) A) eqn:Ea; [|discriminate]. inversion Hck; subst.
    exists HH. split; [reflexivity|]. split.
    + intros x Hx. apply H. intros E. rewrite E in Hx. apply In_mem in Hx. congruence.
    + intros _. exists A. split; [reflexivity|]. rewrite (insts_agree r r1 A); [exact Hperm|].
      intros h Hh. apply H. rewrite forallb_forall in Ea. specialize (Ea h Hh). apply negb_true_iff in Ea.
      intros E. rewrite E, String.eqb_refl in Ea. discriminate.
  - (* return *) simpl in Hck. inversion Hck; subst. exists HH. split; [reflexivity|]. split; [auto|].
    intros _. exists A. split; [reflexivity | exact Hperm].
  - (* break *) simpl in Hck. inversion Hck; subst. exists HH. split; [reflexivity|]. split; [auto|].
    intros _. exists A. split; [reflexivity | exact Hperm].
  - (* continue *) simpl in Hck. inversion Hck; subst. exists HH. split; [reflexivity|]. split; [auto|].
    intros _. exists A. split; [reflexivity | exact Hperm].
  - (* goto *) simpl in Hck. inversion Hck; subst. exists HH. split; [reflexivity|]. split; [auto|].
    intros _. exists A. split; [reflexivity | exact Hperm].
  - (* external call *)
    simpl in Hck. unfold check_call in Hck. rewrite H, H0 in Hck. inversion Hck; subst.
    exists HH. split; [reflexivity|]. split; [auto|]. intros _. exists A. split; [reflexivity | exact Hperm].
  - (* call, completed *)
    simpl in Hck. destruct (check_call p acqd A f args) as [A'|] eqn:Ec; [|discriminate]. inversion Hck; subst. clear Hck.
    unfold check_call in Ec. rewrite H in Ec.
    apply find_fn_in_some in H as [Hin Hname]. subst f.
    destruct (fn_ok_inv d (Hok d Hin H0)) as (rd & Hcd & S1 & S2 & _ & _ & _ & _).
    (* the caller's state split into the callee's precondition and the rest *)
    assert (Hsplit : exists Arest, (match fpre d with
                      | None => OK A
                      | Some l => match subst_lock (fparams d) args l with
                                  | None => Bad ("cannot name the lock required by " ++ fname d)%string
                                  | Some l' => match aremove l' A with
                                               | None => Bad ("lock required by " ++ fname d ++ " is not held: " ++ lcls l')%string
                                               | Some A' => OK A'
                                               end
                                  end
                      end) = OK Arest /\ Permutation (insts r A) (insts r' (olist (fpre d)) ++ insts r Arest)).
    { destruct (fpre d) as [l|]; simpl.
      - destruct (subst_lock (fparams d) args l) as [l'|] eqn:El; [|discriminate].
        destruct (aremove l' A) as [A0|] eqn:Ea; [|discriminate]. exists A0. split; [reflexivity|].
        rewrite (subst_lock_inst _ _ _ _ _ _ El H1). change (inst_of r l' :: insts r A0) with (insts r (l' :: A0)).
        unfold insts. apply Permutation_map. apply aremove_perm. exact Ea.
      - exists A. split; [reflexivity | apply Permutation_refl]. }
    destruct Hsplit as (Arest & Er & Hps). rewrite Er in Ec.
    destruct (order_ok p Arest (facq d)) eqn:Eo; simpl in Ec; [|discriminate].
    destruct (subset (facq d) acqd) eqn:Es; simpl in Ec; [|discriminate].
    assert (Hfr' : frame_ok (insts r Arest ++ F) (facq d)).
    { intros x c Hx Hc. apply in_app_or in Hx as [Hx|Hx].
      - unfold insts in Hx. apply in_map_iff in Hx as (h & <- & Hh). simpl. eapply order_ok_spec; eassumption.
      - apply Hfr; [exact Hx|]. eapply subset_In; eassumption. }
    assert (Hperm' : Permutation HH (insts r' (olist (fpre d)) ++ (insts r Arest ++ F))).
    { eapply perm_trans; [exact Hperm|]. rewrite app_assoc. apply Permutation_app_tail. exact Hps. }
    pose proof (IHHex _ _ _ _ _ _ Hcd Hperm' Hfr') as Hc.
    apply (fn_from_stmt d r' t k r'' _ _ _ S1 S2) in Hc. destruct Hc as (H1' & Hr1 & Hp1).
    exists H1'. split; [exact Hr1|]. split; [auto|]. intros _. specialize (Hp1 H2).
    destruct (fpost d) as [l|] eqn:Epost; simpl in Hp1.
    + destruct (subst_lock (fparams d) args l) as [l'|] eqn:El; [|discriminate]. inversion Ec; subst.
      exists (l' :: Arest). split; [reflexivity|]. simpl. rewrite <- (subst_lock_inst _ _ _ _ _ _ El H1). exact Hp1.
    + inversion Ec; subst. exists A'. split; [reflexivity | exact Hp1].
  - (* call, cut inside the callee *)
    simpl in Hck. destruct (check_call p acqd A f args) as [A'|] eqn:Ec; [|discriminate]. inversion Hck; subst. clear Hck.
    unfold check_call in Ec. rewrite H in Ec.
    apply find_fn_in_some in H as [Hin Hname]. subst f.
    destruct (fn_ok_inv d (Hok d Hin H0)) as (rd & Hcd & S1 & S2 & _ & _ & _ & _).
    assert (Hsplit : exists Arest, (match fpre d with
                      | None => OK A
                      | Some l => match subst_lock (fparams d) args l with
                                  | None => Bad ("cannot name the lock required by " ++ fname d)%string
                                  | Some l' => match aremove l' A with
                                               | None => Bad ("lock required by " ++ fname d ++ " is not held: " ++ lcls l')%string
                                               | Some A' => OK A'
                                               end
                                  end
                      end) = OK Arest /\ Permutation (insts r A) (insts r' (olist (fpre d)) ++ insts r Arest)).
    { destruct (fpre d) as [l|]; simpl.
      - destruct (subst_lock (fparams d) args l) as [l'|] eqn:El; [|discriminate].
        destruct (aremove l' A) as [A0|] eqn:Ea; [|discriminate]. exists A0. split; [reflexivity|].
        rewrite (subst_lock_inst _ _ _ _ _ _ El H1). change (inst_of r l' :: insts r A0) with (insts r (l' :: A0)).
        unfold insts. apply Permutation_map. apply aremove_perm. exact Ea.
      - exists A. split; [reflexivity | apply Permutation_refl]. }
    destruct Hsplit as (Arest & Er & Hps). rewrite Er in Ec.
    destruct (order_ok p Arest (facq d)) eqn:Eo; simpl in Ec; [|discriminate].
    destruct (subset (facq d) acqd) eqn:Es; simpl in Ec; [|discriminate].
    assert (Hfr' : frame_ok (insts r Arest ++ F) (facq d)).
    { intros x c Hx Hc. apply in_app_or in Hx as [Hx|Hx].
      - unfold insts in Hx. apply in_map_iff in Hx as (h & <- & Hh). simpl. eapply order_ok_spec; eassumption.
      - apply Hfr; [exact Hx|]. eapply subset_In; eassumption. }
    assert (Hperm' : Permutation HH (insts r' (olist (fpre d)) ++ (insts r Arest ++ F))).
    { eapply perm_trans; [exact Hperm|]. rewrite app_assoc. apply Permutation_app_tail. exact Hps. }
    destruct (IHHex _ _ _ _ _ _ Hcd Hperm' Hfr') as (H1' & Hr1 & _ & _).
    exists H1'. split; [exact Hr1|]. split; [auto|]. intros X; congruence.
  - (* observer *) simpl in Hck. inversion Hck; subst. exists HH. split; [reflexivity|]. split; [auto|].
    intros _. exists A. split; [reflexivity | exact Hperm].
  - (* callback returns *)
    simpl in Hck. destruct (order_ok p A (api_acq p)); simpl in Hck; [|discriminate].
    destruct (subset (api_acq p) acqd); simpl in Hck; [|discriminate]. inversion Hck; subst.
    exists HH. split; [reflexivity|]. split; [auto|]. intros _. exists A. split; [reflexivity | exact Hperm].
  - (* callback calls a public API function, then goes on *)
    pose proof Hck as Hck0. simpl in Hck.
    destruct (order_ok p A (api_acq p)) eqn:Eo; simpl in Hck; [|discriminate].
    destruct (subset (api_acq p) acqd) eqn:Es; simpl in Hck; [|discriminate]. inversion Hck; subst. clear Hck.
    destruct (fn_ok_inv d (Hok d H H3)) as (rd & Hcd & S1 & S2 & _ & _ & _ & Hapi).
    specialize (Hapi H0 H1 H2).
    assert (Hfr' : frame_ok (insts r A ++ F) (facq d)).
    { intros x c Hx Hc. pose proof (subset_In _ _ Hapi c Hc) as Hc'. apply in_app_or in Hx as [Hx|Hx].
      - unfold insts in Hx. apply in_map_iff in Hx as (h & <- & Hh). simpl. eapply order_ok_spec; eassumption.
      - apply Hfr; [exact Hx|]. eapply subset_In; eassumption. }
    assert (Hperm' : Permutation HH (insts r' (olist (fpre d)) ++ (insts r A ++ F))) by (rewrite H1; simpl; exact Hperm).
    pose proof (IHHex1 _ _ _ _ _ _ Hcd Hperm' Hfr') as Hc.
    apply (fn_from_stmt d r' t1 k1 r'' _ _ _ S1 S2) in Hc. destruct Hc as (H1' & Hr1 & Hp1).
    specialize (Hp1 H4). rewrite H2 in Hp1. simpl in Hp1.
    destruct (IHHex2 _ _ _ _ _ _ Hck0 Hp1 Hfr) as (H2' & Hr2 & Hag2 & Hk2).
    exists H2'. split; [rewrite (replay_app _ _ _ _ _ Hr1); exact Hr2|]. split; [exact Hag2 | exact Hk2].
  - (* callback cut inside a public API function *)
    simpl in Hck.
    destruct (order_ok p A (api_acq p)) eqn:Eo; simpl in Hck; [|discriminate].
    destruct (subset (api_acq p) acqd) eqn:Es; simpl in Hck; [|discriminate]. inversion Hck; subst. clear Hck.
    destruct (fn_ok_inv d (Hok d H H3)) as (rd & Hcd & S1 & S2 & _ & _ & _ & Hapi).
    specialize (Hapi H0 H1 H2).
    assert (Hfr' : frame_ok (insts r A ++ F) (facq d)).
    { intros x c Hx Hc. pose proof (subset_In _ _ Hapi c Hc) as Hc'. apply in_app_or in Hx as [Hx|Hx].
      - unfold insts in Hx. apply in_map_iff in Hx as (h & <- & Hh). simpl. eapply order_ok_spec; eassumption.
      - apply Hfr; [exact Hx|]. eapply subset_In; eassumption. }
    assert (Hperm' : Permutation HH (insts r' (olist (fpre d)) ++ (insts r A ++ F))) by (rewrite H1; simpl; exact Hperm).
    destruct (IHHex _ _ _ _ _ _ Hcd Hperm' Hfr') as (H1' & Hr1 & _ & _).
    exists H1'. split; [exact Hr1|]. split; [auto|]. intros X; congruence.
Qed.

End Sound.

(* ------------------------------------------------------------------ function-level statements *)
Section Functions.
Variable K : list string.
Variable p : program.

(* every path of a checked function, from its precondition + any frame ranking below what it may acquire *)
Theorem check_sound_fn : check_except K p = true ->
  forall d, In d (funs p) -> mem (fname d) K = false ->
  forall r tr k r1 F H, exec K p r (fbody d) tr k r1 ->
    Permutation H (insts r (olist (fpre d)) ++ F) -> frame_ok p F (facq d) ->
    exists H1, replay (rk p) tr H = Some H1 /\
               (k = ONormal \/ k = ORet \/ k = OAbort) /\
               (k = ONormal \/ k = ORet -> Permutation H1 (insts r (olist (fpost d)) ++ F)).
Proof.
  intros Hc d Hd Hk r tr k r1 F H Hex Hp Hf.
  pose proof (check_except_ok K p Hc) as Hok.
  destruct (fn_ok_inv p d (Hok d Hd Hk)) as (rd & Hcd & S1 & S2 & B1 & B2 & B3 & _).
  pose proof (sound_stmt K p Hok _ _ _ _ _ Hex _ _ _ _ _ _ Hcd Hp Hf) as Hcon.
  pose proof (fn_from_stmt p d r tr k r1 F H rd S1 S2 Hcon) as (H1 & Hr & Hpost).
  exists H1. split; [exact Hr|]. split; [|exact Hpost].
  destruct Hcon as (H1' & _ & _ & Hk').
  destruct k; auto; exfalso; destruct (Hk' ltac:(discriminate)) as (A1 & Hg & _); simpl in Hg; congruence.
Qed.

(* the balanced case, no frame: nothing held at the end, trace disciplined all the way *)
Corollary check_sound_balance : check_except K p = true ->
  forall d, In d (funs p) -> mem (fname d) K = false -> fpre d = None -> fpost d = None ->
  forall r tr k r1, exec K p r (fbody d) tr k r1 ->
    exists H1, replay (rk p) tr [] = Some H1 /\ (k = ONormal \/ k = ORet \/ k = OAbort) /\ (k <> OAbort -> H1 = []).
Proof.
  intros Hc d Hd Hk Hpre Hpost r tr k r1 Hex.
  destruct (check_sound_fn Hc d Hd Hk r tr k r1 [] [] Hex) as (H1 & Hr & Hkk & Hp).
  - rewrite Hpre. simpl. apply Permutation_refl.
  - intros x c [].
  - exists H1. split; [exact Hr|]. split; [exact Hkk|]. intros Hne.
    assert (Hk2 : k = ONormal \/ k = ORet) by (destruct Hkk as [|[|]]; auto; congruence).
    specialize (Hp Hk2). rewrite Hpost in Hp. simpl in Hp. apply Permutation_nil. apply Permutation_sym. exact Hp.
Qed.
End Functions.

(* ------------------------------------------------------------------ what a disciplined trace guarantees *)
Lemma replay_split rank t1 t2 H H2 : replay rank (t1 ++ t2) H = Some H2 ->
  exists Hm, replay rank t1 H = Some Hm /\ replay rank t2 Hm = Some H2.
Proof.
  revert H. induction t1 as [|e t IH]; intros H; simpl.
  - intros X. exists H. split; [reflexivity | exact X].
  - destruct e as [i|i].
    + destruct (forallb (fun h => Nat.ltb (rank (fst h)) (rank (fst i))) H); [apply IH | discriminate].
    + destruct (remove1 i H); [apply IH | discriminate].
Qed.

(* counters stay in {0,1}: no instance is ever held twice by the thread, at any point of the trace *)
Lemma replay_nodup rank tr : forall H H1, NoDup H -> replay rank tr H = Some H1 -> NoDup H1.
Proof.
  induction tr as [|e t IH]; intros H H1 Hn; simpl.
  - intros X; inversion X; subst; exact Hn.
  - destruct e as [i|i].
    + destruct (forallb (fun h => Nat.ltb (rank (fst h)) (rank (fst i))) H) eqn:E; [|discriminate].
      apply IH. constructor; [|exact Hn]. intros Hin. rewrite forallb_forall in E. specialize (E i Hin).
      apply Nat.ltb_lt in E. lia.
    + destruct (remove1 i H) as [H'|] eqn:E; [|discriminate]. apply IH.
      apply remove1_some in E. eapply Permutation_NoDup in Hn; [|exact E]. inversion Hn; assumption.
Qed.

Theorem disciplined_prefixes rank tr H1 : replay rank tr [] = Some H1 ->
  forall t1 t2, tr = t1 ++ t2 -> exists Hm, replay rank t1 [] = Some Hm /\ NoDup Hm.
Proof.
  intros Hr t1 t2 ->. destruct (replay_split _ _ _ _ _ Hr) as (Hm & E1 & _). exists Hm. split; [exact E1|].
  eapply replay_nodup; [constructor | exact E1].
Qed.
