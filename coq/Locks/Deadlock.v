(* Abstract multi-thread semantics of counting semaphores used as mutexes, and the classical
   ordered-locking argument: threads whose traces are disciplined (Skeleton.replay succeeds and ends
   with nothing held) never deadlock, and no semaphore value ever exceeds 1 (mutual exclusion is kept).
   Threads are sequences of lock operations; the scheduler is arbitrary. *)
From Coq Require Import String List Bool Arith PeanoNat Permutation Lia.
From L60870 Require Import Locks.Skeleton Locks.Checker Locks.CheckerSound.
Import ListNotations.

Record thread := mkT { todo : list event; held : list inst }.
Definition pool := list thread.
Definition sems := inst -> nat.                      (* value of every semaphore; created with value 1 *)

Definition inst_dec (a b : inst) : {a = b} + {a <> b}.
Proof. decide equality; [apply Nat.eq_dec | apply string_dec]. Defined.

Definition upd (v : sems) (i : inst) (n : nat) : sems := fun j => if inst_dec j i then n else v j.

(* one thread performs its next operation; sem_wait blocks while the value is 0, sem_post never blocks *)
Inductive tstep : sems -> thread -> sems -> thread -> Prop :=
| ts_acq v i tr H : v i > 0 -> tstep v (mkT (EAcq i :: tr) H) (upd v i (v i - 1)) (mkT tr (i :: H))
| ts_rel v i tr H H' : remove1 i H = Some H' -> tstep v (mkT (ERel i :: tr) H) (upd v i (v i + 1)) (mkT tr H').

Inductive step : sems * pool -> sems * pool -> Prop :=
| step_at v v' pre t t' post : tstep v t v' t' -> step (v, pre ++ t :: post) (v', pre ++ t' :: post).

Inductive steps : sems * pool -> sems * pool -> Prop :=
| steps_refl s : steps s s
| steps_more s1 s2 s3 : steps s1 s2 -> step s2 s3 -> steps s1 s3.

Section Order.
Variable rank : cls -> nat.

Definition wf_thread (t : thread) : Prop := replay rank (todo t) (held t) = Some [].
Definition holders (st : pool) (i : inst) : nat := fold_right (fun t n => count_occ inst_dec (held t) i + n) 0 st.
(* value + number of holders = 1 for every semaphore: value <= 1 and at most one holder *)
Definition inv (v : sems) (st : pool) : Prop := forall i, v i + holders st i = 1.
Definition good (s : sems * pool) : Prop := Forall wf_thread (snd s) /\ inv (fst s) (snd s).

Lemma holders_app a b i : holders (a ++ b) i = holders a i + holders b i.
Proof. induction a as [|t a IH]; simpl; [reflexivity | rewrite IH; lia]. Qed.

Lemma remove1_count i H H' j : remove1 i H = Some H' ->
  count_occ inst_dec H j = count_occ inst_dec H' j + (if inst_dec j i then 1 else 0).
Proof.
  intros E. apply remove1_some in E. rewrite (Permutation_count_occ inst_dec) in E. rewrite (E j). simpl.
  destruct (inst_dec i j), (inst_dec j i); subst; try congruence; lia.
Qed.

Lemma good_step s s' : good s -> step s s' -> good s'.
Proof.
  intros [Hwf Hinv] Hs. inversion Hs as [v v' pre t t' post Ht]; subst. simpl in *.
  apply Forall_app in Hwf as [Hpre Hwf]. inversion Hwf as [|? ? Ht0 Hpost]; subst.
  inversion Ht; subst; unfold wf_thread in Ht0; simpl in Ht0.
  - (* acquire *)
    destruct (forallb (fun h => Nat.ltb (rank (fst h)) (rank (fst i))) H) eqn:E; [|discriminate].
    split.
    + simpl. apply Forall_app. split; [exact Hpre|]. constructor; [exact Ht0 | exact Hpost].
    + intros j. specialize (Hinv j). simpl. rewrite holders_app in *. simpl in *. unfold upd.
      destruct (inst_dec j i) as [->|Hne].
      * destruct (inst_dec i i); [|congruence]. lia.
      * destruct (inst_dec i j); [congruence|]. lia.
  - (* release *)
    rewrite H0 in Ht0. split.
    + simpl. apply Forall_app. split; [exact Hpre|]. constructor; [exact Ht0 | exact Hpost].
    + intros j. specialize (Hinv j). simpl. rewrite holders_app in *. simpl in *. unfold upd.
      rewrite (remove1_count _ _ _ j H0) in Hinv. destruct (inst_dec j i) as [->|]; lia.
Qed.

Lemma good_steps s s' : good s -> steps s s' -> good s'.
Proof. intros Hg Hs. induction Hs; [exact Hg | eapply good_step; [apply IHHs; exact Hg | eassumption]]. Qed.

(* mutual exclusion: in every reachable state a semaphore's value is 0 or 1 and at most one thread holds it *)
Theorem mutual_exclusion s : good s -> forall i, fst s i <= 1 /\ holders (snd s) i <= 1.
Proof. intros [_ Hinv] i. specialize (Hinv i). lia. Qed.

Definition unfinished (t : thread) : Prop := todo t <> [].
Definition arank (t : thread) : nat := match todo t with EAcq i :: _ => rank (fst i) | _ => 0 end.

Lemma unfinished_dec t : {unfinished t} + {todo t = []}.
Proof. unfold unfinished. destruct (todo t); [right; reflexivity | left; discriminate]. Qed.

Lemma argmax (st : pool) : (exists t, In t st /\ unfinished t) ->
  exists t, In t st /\ unfinished t /\ forall t', In t' st -> unfinished t' -> arank t' <= arank t.
Proof.
  induction st as [|a st IH]; intros (t & Hin & Hu); [destruct Hin|].
  assert (Hdec : (exists t, In t st /\ unfinished t) \/ (forall t, In t st -> todo t = [])).
  { clear. induction st as [|b st IH]; [right; intros t []|].
    destruct (unfinished_dec b) as [Hb|Hb]; [left; exists b; split; [left; reflexivity | exact Hb]|].
    destruct IH as [(t & Hi & Hu)|Hn]; [left; exists t; split; [right; exact Hi | exact Hu]|].
    right. intros t [<-|Hi]; [exact Hb | apply Hn; exact Hi]. }
  destruct Hdec as [Hex|Hnone].
  - destruct (IH Hex) as (m & Hm & Hmu & Hmax).
    destruct (unfinished_dec a) as [Ha|Ha].
    + destruct (le_lt_dec (arank a) (arank m)) as [Hle|Hlt].
      * exists m. split; [right; exact Hm|]. split; [exact Hmu|]. intros t' [<-|Hi] Hu'; [exact Hle | apply Hmax; assumption].
      * exists a. split; [left; reflexivity|]. split; [exact Ha|]. intros t' [<-|Hi] Hu'; [lia|].
        specialize (Hmax t' Hi Hu'). lia.
    + exists m. split; [right; exact Hm|]. split; [exact Hmu|]. intros t' [<-|Hi] Hu'; [contradiction | apply Hmax; assumption].
  - destruct Hin as [<-|Hin]; [|exfalso; apply Hu; apply Hnone; exact Hin].
    exists a. split; [left; reflexivity|]. split; [exact Hu|]. intros t' [<-|Hi] Hu'; [lia|].
    exfalso. apply Hu'. apply Hnone. exact Hi.
Qed.

Lemma holders_pos st i : holders st i > 0 -> exists t, In t st /\ In i (held t).
Proof.
  induction st as [|a st IH]; simpl; [lia|]. intros H.
  destruct (count_occ inst_dec (held a) i) eqn:E.
  - destruct IH as (t & Hi & Hh); [lia|]. exists t. split; [right; exact Hi | exact Hh].
  - exists a. split; [left; reflexivity|]. apply (count_occ_In inst_dec). lia.
Qed.

Lemma step_in v st t v' t' : In t st -> tstep v t v' t' -> exists st', step (v, st) (v', st').
Proof.
  intros Hin Ht. apply in_split in Hin as (pre & post & ->). eexists. constructor. exact Ht.
Qed.

(* an unfinished, locally disciplined thread whose next operation is a release can always move;
   one whose next operation is an acquisition can move when the semaphore is free *)
Lemma can_move v t : wf_thread t -> unfinished t ->
  (exists v' t', tstep v t v' t') \/
  (exists i tr, todo t = EAcq i :: tr /\ v i = 0 /\ forall h, In h (held t) -> rank (fst h) < rank (fst i)).
Proof.
  destruct t as [td H]. unfold wf_thread, unfinished; simpl. intros Hwf Hu.
  destruct td as [|[i|i] tr]; [congruence| |].
  - simpl in Hwf. destruct (forallb (fun h => Nat.ltb (rank (fst h)) (rank (fst i))) H) eqn:E; [|discriminate].
    destruct (v i) eqn:Ev.
    + right. exists i, tr. split; [reflexivity|]. split; [exact Ev|]. intros h Hh.
      rewrite forallb_forall in E. apply Nat.ltb_lt. apply E. exact Hh.
    + left. eexists. eexists. apply ts_acq. lia.
  - simpl in Hwf. destruct (remove1 i H) as [H'|] eqn:E; [|discriminate]. left. eexists. eexists. apply ts_rel. exact E.
Qed.

(* DEADLOCK FREEDOM: in a good state, as long as some thread has work left, some thread can move *)
Theorem progress v st : good (v, st) -> (exists t, In t st /\ unfinished t) -> exists s', step (v, st) s'.
Proof.
  intros [Hwf Hinv] Hex. simpl in *. rewrite Forall_forall in Hwf.
  destruct (argmax st Hex) as (t & Hin & Hu & Hmax).
  destruct (can_move v t (Hwf t Hin) Hu) as [(v' & t' & Hs)|(i & tr & Etd & Ev & Hlt)].
  - destruct (step_in v st t v' t' Hin Hs) as (st' & Hst). eexists; exact Hst.
  - (* t waits for i, whose value is 0: somebody holds it *)
    assert (Hh : holders st i > 0) by (specialize (Hinv i); lia).
    destruct (holders_pos st i Hh) as (o & Hoin & Hoh).
    assert (Hou : unfinished o).
    { unfold unfinished. intros E. pose proof (Hwf o Hoin) as W. unfold wf_thread in W. rewrite E in W. simpl in W.
      inversion W as [W']. rewrite W' in Hoh. destruct Hoh. }
    destruct (can_move v o (Hwf o Hoin) Hou) as [(v' & o' & Hs)|(j & tr' & Etd' & Ev' & Hlt')].
    + destruct (step_in v st o v' o' Hoin Hs) as (st' & Hst). eexists; exact Hst.
    + (* the owner waits for a lock ranking above i: contradicts the choice of t *)
      exfalso. specialize (Hlt' i Hoh). specialize (Hmax o Hoin Hou).
      unfold arank in Hmax. rewrite Etd, Etd' in Hmax. lia.
Qed.

Corollary no_deadlock s0 s : good s0 -> steps s0 s ->
  (exists t, In t (snd s) /\ unfinished t) -> exists s', step s s'.
Proof. intros Hg Hs Hex. destruct s as [v st]. apply progress; [eapply good_steps; eassumption | exact Hex]. Qed.
End Order.

(* ------------------------------------------------------------------ threads produced by a checked program *)
Section Program.
Variable K : list string.
Variable p : program.

(* a thread runs one complete path of a balanced function of the program (e.g. a thread root or an API call) *)
Definition thread_of_program (t : thread) : Prop :=
  held t = [] /\ exists d r k r1, In d (funs p) /\ mem (fname d) K = false /\ fpre d = None /\ fpost d = None /\
                                  exec K p r (fbody d) (todo t) k r1 /\ (k = ONormal \/ k = ORet).

Lemma thread_of_program_wf t : check_except K p = true -> thread_of_program t -> wf_thread (rk p) t.
Proof.
  intros Hc (Hh & d & r & k & r1 & Hd & Hk & Hpre & Hpost & Hex & Hkk).
  destruct (check_sound_balance K p Hc d Hd Hk Hpre Hpost r _ k r1 Hex) as (H1 & Hr & _ & Hn).
  unfold wf_thread. rewrite Hh, Hr. f_equal. apply Hn. destruct Hkk; subst; discriminate.
Qed.

Lemma holders_nil st i : Forall (fun t => held t = []) st -> holders st i = 0.
Proof. induction 1 as [|t st Ht _ IH]; simpl; [reflexivity | rewrite Ht, IH; reflexivity]. Qed.

(* any number of threads, each running any path of any checked function, all semaphores initially 1:
   no reachable state is a deadlock, and mutual exclusion holds in every reachable state *)
Theorem check_sound_order : check_except K p = true ->
  forall st, Forall thread_of_program st ->
  forall s, steps (fun _ => 1, st) s ->
    (forall i, fst s i <= 1 /\ holders (snd s) i <= 1) /\
    ((exists t, In t (snd s) /\ unfinished t) -> exists s', step s s').
Proof.
  intros Hc st Hst s Hs.
  assert (Hg : good (rk p) (fun _ => 1, st)).
  { split; simpl.
    - rewrite Forall_forall in *. intros t Ht. apply thread_of_program_wf; [exact Hc | apply Hst; exact Ht].
    - intros i. rewrite holders_nil; [reflexivity|]. rewrite Forall_forall in *. intros t Ht. apply (Hst t Ht). }
  split.
  - apply (mutual_exclusion (rk p)). eapply good_steps; eassumption.
  - apply (no_deadlock (rk p) _ _ Hg Hs).
Qed.
End Program.
