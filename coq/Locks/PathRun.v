(* An executable, choice-driven walk through a skeleton, sound w.r.t. Skeleton.exec.
   Used only to state `..._refuted` witnesses: a list of choices (which branch of every If, what a callback does)
   determines one concrete path; `run_sound` turns the computed result into an `exec` derivation. *)
From Coq Require Import String List Bool Arith PeanoNat.
From L60870 Require Import Locks.Skeleton Locks.Checker.
Import ListNotations.

Definition const_env : env := fun _ => 0.      (* every receiver denotes object 0: locks of one class all coincide *)

Definition bind_env (r : env) (params : list string) (args : list (option recv)) : env :=
  fun x => match index_of (rroot x) params with
           | Some i => match nth_error args i with
                       | Some (Some a) => r (mkR (rroot a) (rpath a ++ rpath x))
                       | _ => 0
                       end
           | None => 0
           end.

Definition rres := (list event * okind * env * list nat)%type.

Definition after_call (r : env) (x : option rres) : option rres :=
  match x with
  | Some (t, ONormal, _, c) => Some (t, ONormal, r, c)
  | Some (t, ORet, _, c) => Some (t, ONormal, r, c)
  | Some (t, OAbort, _, c) => Some (t, OAbort, r, c)
  | _ => None
  end.

Fixpoint run (p : program) (fuel : nat) (r : env) (s : stmt) (ch : list nat) : option rres :=
  match fuel with
  | O => None
  | S n =>
    match s with
    | Skip => Some ([], ONormal, r, ch)
    | Seq a b =>
      match run p n r a ch with
      | Some (t1, ONormal, r1, c1) =>
        match run p n r1 b c1 with Some (t2, k, r2, c2) => Some (t1 ++ t2, k, r2, c2) | None => None end
      | other => other
      end
    | If a b =>
      match ch with
      | [] => Some ([], OAbort, r, [])
      | O :: c => run p n r a c
      | S _ :: c => run p n r b c
      end
    | Loop s1 =>
      match run p n r s1 ch with
      | Some (t1, ONormal, r1, c1) | Some (t1, OCont, r1, c1) =>
        match run p n r1 (Loop s1) c1 with Some (t2, k, r2, c2) => Some (t1 ++ t2, k, r2, c2) | None => None end
      | Some (t1, OBrk, r1, c1) => Some (t1, ONormal, r1, c1)
      | other => other
      end
    | BrkScope s1 =>
      match run p n r s1 ch with
      | Some (t1, OBrk, r1, c1) => Some (t1, ONormal, r1, c1)
      | other => other
      end
    | ContScope s1 =>
      match run p n r s1 ch with
      | Some (t1, OCont, r1, c1) => Some (t1, ONormal, r1, c1)
      | other => other
      end
    | Block s1 e =>
      match run p n r s1 ch with
      | Some (t1, ONormal, r1, c1) | Some (t1, OGoto, r1, c1) =>
        match run p n r1 e c1 with Some (t2, k, r2, c2) => Some (t1 ++ t2, k, r2, c2) | None => None end
      | other => other
      end
    | Wait l => Some ([EAcq (inst_of r l)], ONormal, r, ch)
    | Post l => Some ([ERel (inst_of r l)], ONormal, r, ch)
    | Assign _ => Some ([], ONormal, r, ch)
    | Return => Some ([], ORet, r, ch)
    | Break => Some ([], OBrk, r, ch)
    | Continue => Some ([], OCont, r, ch)
    | Goto => Some ([], OGoto, r, ch)
    | Observer _ => Some ([], ONormal, r, ch)
    | Call f args =>
      match find_fn p f with
      | None => if mem f (externals p) then Some ([], ONormal, r, ch) else None
      | Some d => after_call r (run p n (bind_env r (fparams d) args) (fbody d) ch)
      end
    | Callback kind =>
      match ch with
      | [] => Some ([], OAbort, r, [])
      | O :: c => Some ([], ONormal, r, c)
      | S i :: c =>
        match nth_error (funs p) i with
        | Some d =>
          if fpublic d && is_none (fpre d) && is_none (fpost d) then
            match run p n const_env (fbody d) c with
            | Some (t1, ONormal, _, c1) | Some (t1, ORet, _, c1) =>
              match run p n r (Callback kind) c1 with Some (t2, k, r2, c2) => Some (t1 ++ t2, k, r2, c2) | None => None end
            | Some (t1, OAbort, _, c1) => Some (t1, OAbort, r, c1)
            | _ => None
            end
          else None
        | None => None
        end
      end
    | Unrecognised _ => None
    end
  end.

Lemma bind_env_ok r params args : bind_ok r (bind_env r params args) params args.
Proof.
  intros i x a path Hp Ha Hi. unfold bind_env. simpl. rewrite Hi, Ha. reflexivity.
Qed.

Lemma is_none_eq {A} (o : option A) : is_none o = true -> o = None.
Proof. destruct o; [discriminate | reflexivity]. Qed.

Theorem run_sound p : forall fuel r s ch t k r1 c1,
  run p fuel r s ch = Some (t, k, r1, c1) -> exec [] p r s t k r1.
Proof.
  induction fuel as [|n IH]; [discriminate|]. intros r s ch t k r1 c1 H.
  destruct s; simpl in H.
  - inversion H; subst. constructor.
  - (* Seq *)
    destruct (run p n r s1 ch) as [[[[t1 k1] r1'] c1']|] eqn:E1; [|discriminate].
    destruct k1; try (inversion H; subst; eapply E_seq_x; [eapply IH; exact E1 | discriminate]).
    destruct (run p n r1' s2 c1') as [[[[t2 k2] r2] c2]|] eqn:E2; [|discriminate]. inversion H; subst.
    eapply E_seq_n; eapply IH; eassumption.
  - (* If *)
    destruct ch as [|[|c] ch']; [inversion H; subst; constructor | apply E_if_l | apply E_if_r]; eapply IH; exact H.
  - (* Loop *)
    destruct (run p n r s ch) as [[[[t1 k1] r1'] c1']|] eqn:E1; [|discriminate].
    destruct k1.
    + destruct (run p n r1' (Loop s) c1') as [[[[t2 k2] r2] c2]|] eqn:E2; [|discriminate]. inversion H; subst.
      eapply E_loop_iter; [eapply IH; exact E1 | left; reflexivity | eapply IH; exact E2].
    + inversion H; subst. eapply E_loop_x; [eapply IH; exact E1 | left; reflexivity].
    + inversion H; subst. eapply E_loop_brk. eapply IH; exact E1.
    + destruct (run p n r1' (Loop s) c1') as [[[[t2 k2] r2] c2]|] eqn:E2; [|discriminate]. inversion H; subst.
      eapply E_loop_iter; [eapply IH; exact E1 | right; reflexivity | eapply IH; exact E2].
    + inversion H; subst. eapply E_loop_x; [eapply IH; exact E1 | right; left; reflexivity].
    + inversion H; subst. eapply E_loop_x; [eapply IH; exact E1 | right; right; reflexivity].
  - (* BrkScope *)
    destruct (run p n r s ch) as [[[[t1 k1] r1'] c1']|] eqn:E1; [|discriminate].
    destruct k1; inversion H; subst;
      try (eapply E_brk_x; [eapply IH; exact E1 | discriminate]).
    eapply E_brk_b. eapply IH; exact E1.
  - (* ContScope *)
    destruct (run p n r s ch) as [[[[t1 k1] r1'] c1']|] eqn:E1; [|discriminate].
    destruct k1; inversion H; subst;
      try (eapply E_cont_x; [eapply IH; exact E1 | discriminate]).
    eapply E_cont_c. eapply IH; exact E1.
  - (* Block *)
    destruct (run p n r s1 ch) as [[[[t1 k1] r1'] c1']|] eqn:E1; [|discriminate].
    destruct k1; try (inversion H; subst; eapply E_block_x; [eapply IH; exact E1 | discriminate | discriminate]).
    + destruct (run p n r1' s2 c1') as [[[[t2 k2] r2] c2]|] eqn:E2; [|discriminate]. inversion H; subst.
      eapply E_block_e; [eapply IH; exact E1 | left; reflexivity | eapply IH; exact E2].
    + destruct (run p n r1' s2 c1') as [[[[t2 k2] r2] c2]|] eqn:E2; [|discriminate]. inversion H; subst.
      eapply E_block_e; [eapply IH; exact E1 | right; reflexivity | eapply IH; exact E2].
  - inversion H; subst. constructor.
  - inversion H; subst. constructor.
  - (* Call *)
    destruct (find_fn p f) as [d|] eqn:Ef.
    + unfold after_call in H.
      destruct (run p n (bind_env r (fparams d) args) (fbody d) ch) as [[[[t1 k1] r1'] c1']|] eqn:E1; [|discriminate].
      destruct k1; inversion H; subst.
      * eapply E_call; [exact Ef | reflexivity | apply bind_env_ok | eapply IH; exact E1 | left; reflexivity].
      * eapply E_call; [exact Ef | reflexivity | apply bind_env_ok | eapply IH; exact E1 | right; reflexivity].
      * eapply E_call_abort; [exact Ef | reflexivity | apply bind_env_ok | eapply IH; exact E1].
    + destruct (mem f (externals p)) eqn:Em; [|discriminate]. inversion H; subst. apply E_call_ext; assumption.
  - (* Callback *)
    destruct ch as [|[|i] c]; [inversion H; subst; constructor | inversion H; subst; apply E_cb_done |].
    destruct (nth_error (funs p) i) as [d|] eqn:En; [|discriminate].
    destruct (fpublic d && is_none (fpre d) && is_none (fpost d)) eqn:Eb; [|discriminate].
    apply andb_true_iff in Eb as [Eb Epost]. apply andb_true_iff in Eb as [Epub Epre].
    apply is_none_eq in Epre. apply is_none_eq in Epost. apply nth_error_In in En.
    destruct (run p n const_env (fbody d) c) as [[[[t1 k1] r1'] c1']|] eqn:E1; [|discriminate].
    destruct k1; try discriminate.
    + destruct (run p n r (Callback kind) c1') as [[[[t2 k2] r2] c2]|] eqn:E2; [|discriminate]. inversion H; subst.
      eapply E_cb_call; [exact En | exact Epub | exact Epre | exact Epost | reflexivity | eapply IH; exact E1 | left; reflexivity | eapply IH; exact E2].
    + destruct (run p n r (Callback kind) c1') as [[[[t2 k2] r2] c2]|] eqn:E2; [|discriminate]. inversion H; subst.
      eapply E_cb_call; [exact En | exact Epub | exact Epre | exact Epost | reflexivity | eapply IH; exact E1 | right; reflexivity | eapply IH; exact E2].
    + inversion H; subst. eapply E_cb_abort; [exact En | exact Epub | exact Epre | exact Epost | reflexivity | eapply IH; exact E1].
  - inversion H; subst. constructor.
  - inversion H; subst. apply E_assign. intros; reflexivity.
  - inversion H; subst. constructor.
  - inversion H; subst. constructor.
  - inversion H; subst. constructor.
  - inversion H; subst. constructor.
  - discriminate.
Qed.

(* a path violates the discipline when its trace does not replay, or it completes with something held *)
Definition violates (p : program) (x : option rres) : bool :=
  match x with
  | Some (t, k, _, _) =>
    match replay (rk p) t [] with
    | None => true
    | Some H => match k, H with
                | ONormal, _ :: _ | ORet, _ :: _ => true
                | _, _ => false
                end
    end
  | None => false
  end.

Theorem violates_sound p fuel d ch : violates p (run p fuel const_env (fbody d) ch) = true ->
  exists r tr k r1, exec [] p r (fbody d) tr k r1 /\
    (replay (rk p) tr [] = None \/ exists H, replay (rk p) tr [] = Some H /\ H <> [] /\ (k = ONormal \/ k = ORet)).
Proof.
  unfold violates. destruct (run p fuel const_env (fbody d) ch) as [[[[t k] r1] c1]|] eqn:E; [|discriminate].
  intros H. exists const_env, t, k, r1. split; [eapply run_sound; exact E|].
  destruct (replay (rk p) t []) as [Hh|]; [|left; reflexivity]. right. exists Hh. split; [reflexivity|].
  destruct k, Hh; try discriminate; split; try discriminate; auto.
Qed.
