(* The lock-discipline checker: a modular abstract interpretation of skeletons.
   Abstract state = the list of locks (class + receiver NAME) held since function entry.
   Every function is checked on its own against the declared contracts (fpre/fpost/facq) of its callees.
   No proofs in this file (see CheckerSound.v). *)
From Coq Require Import String List Bool Arith PeanoNat.
From L60870 Require Import Locks.Skeleton.
Import ListNotations.
Local Open Scope string_scope.

Inductive chk (A : Type) := OK (a : A) | Bad (why : string).
Arguments OK {A} a.
Arguments Bad {A} why.

Definition astate := list lock.

Fixpoint list_eqb {A} (eqb : A -> A -> bool) (a b : list A) : bool :=
  match a, b with
  | [], [] => true
  | x :: a', y :: b' => eqb x y && list_eqb eqb a' b'
  | _, _ => false
  end.
Definition recv_eqb (a b : recv) := String.eqb (rroot a) (rroot b) && list_eqb String.eqb (rpath a) (rpath b).
Definition lock_eqb (a b : lock) := String.eqb (lcls a) (lcls b) && recv_eqb (lrecv a) (lrecv b).
Definition astate_eqb := list_eqb lock_eqb.

Fixpoint aremove (l : lock) (A : astate) : option astate :=
  match A with
  | [] => None
  | h :: t => if lock_eqb l h then Some t else option_map (cons h) (aremove l t)
  end.

Definition subset (a b : list string) : bool := forallb (fun x => mem x b) a.

(* every held lock ranks strictly below every class in cs *)
Definition order_ok (p : program) (A : astate) (cs : list cls) : bool :=
  forallb (fun h => forallb (fun c => Nat.ltb (rk p (lcls h)) (rk p c)) cs) A.

Record res := mkRes { rn : option astate; rr : option astate; rb : option astate; rc : option astate; rg : option astate }.
Definition res0 := mkRes None None None None None.
Definition get (r : res) (k : okind) : option astate :=
  match k with ONormal => rn r | ORet => rr r | OBrk => rb r | OCont => rc r | OGoto => rg r | OAbort => None end.

Definition join (x y : option astate) : chk (option astate) :=
  match x, y with
  | None, _ => OK y
  | _, None => OK x
  | Some a, Some b => if astate_eqb a b then OK (Some a) else Bad "paths join with different locks held"
  end.

Definition merge (a b : res) : chk res :=
  match join (rn a) (rn b), join (rr a) (rr b), join (rb a) (rb b), join (rc a) (rc b), join (rg a) (rg b) with
  | OK n, OK r, OK b', OK c, OK g => OK (mkRes n r b' c g)
  | Bad w, _, _, _, _ => Bad w
  | _, Bad w, _, _, _ => Bad w
  | _, _, Bad w, _, _ => Bad w
  | _, _, _, Bad w, _ => Bad w
  | _, _, _, _, Bad w => Bad w
  end.

Definition same_or_none (x : option astate) (A : astate) : bool :=
  match x with None => true | Some B => astate_eqb B A end.

Definition check_call (p : program) (acqd : list cls) (A : astate) (f : string) (args : list (option recv)) : chk astate :=
  match find_fn p f with
  | None => if mem f (externals p) then OK A else Bad ("call of unknown function " ++ f)
  | Some d =>
    let rest := match fpre d with
                | None => OK A
                | Some l => match subst_lock (fparams d) args l with
                            | None => Bad ("cannot name the lock required by " ++ f)
                            | Some l' => match aremove l' A with
                                         | None => Bad ("lock required by " ++ f ++ " is not held: " ++ lcls l')
                                         | Some A' => OK A'
                                         end
                            end
                end in
    match rest with
    | Bad w => Bad w
    | OK A' =>
      if negb (order_ok p A' (facq d)) then Bad ("lock order: " ++ f ++ " may acquire a lock that does not rank above one held here")
      else if negb (subset (facq d) acqd) then Bad ("certificate: facq misses a class acquired by " ++ f)
      else match fpost d with
           | None => OK A'
           | Some l => match subst_lock (fparams d) args l with
                       | None => Bad ("cannot name the lock returned by " ++ f)
                       | Some l' => OK (l' :: A')
                       end
           end
    end
  end.

Fixpoint check_stmt (p : program) (acqd : list cls) (frozen : list string) (s : stmt) (A : astate) : chk res :=
  match s with
  | Skip => OK (mkRes (Some A) None None None None)
  | Seq a b =>
    match check_stmt p acqd frozen a A with
    | Bad w => Bad w
    | OK ra => match rn ra with
               | None => OK ra
               | Some A1 => match check_stmt p acqd frozen b A1 with
                            | Bad w => Bad w
                            | OK rb' => merge (mkRes None (rr ra) (rb ra) (rc ra) (rg ra)) rb'
                            end
               end
    end
  | If a b =>
    match check_stmt p acqd frozen a A, check_stmt p acqd frozen b A with
    | OK ra, OK rb' => merge ra rb'
    | Bad w, _ => Bad w
    | _, Bad w => Bad w
    end
  | Loop s1 =>
    match check_stmt p acqd frozen s1 A with
    | Bad w => Bad w
    | OK r => if same_or_none (rn r) A && same_or_none (rc r) A
              then OK (mkRes (rb r) (rr r) None None (rg r))
              else Bad "loop body changes the set of held locks"
    end
  | BrkScope s1 =>
    match check_stmt p acqd frozen s1 A with
    | Bad w => Bad w
    | OK r => match join (rn r) (rb r) with
              | Bad w => Bad w
              | OK n => OK (mkRes n (rr r) None (rc r) (rg r))
              end
    end
  | ContScope s1 =>
    match check_stmt p acqd frozen s1 A with
    | Bad w => Bad w
    | OK r => match join (rn r) (rc r) with
              | Bad w => Bad w
              | OK n => OK (mkRes n (rr r) (rb r) None (rg r))
              end
    end
  | Block s1 e =>
    match check_stmt p acqd frozen s1 A with
    | Bad w => Bad w
    | OK r => match join (rn r) (rg r) with
              | Bad w => Bad w
              | OK None => OK (mkRes None (rr r) (rb r) (rc r) None)
              | OK (Some A1) => match check_stmt p acqd frozen e A1 with
                                | Bad w => Bad w
                                | OK re => merge (mkRes None (rr r) (rb r) (rc r) None) re
                                end
              end
    end
  | Wait l =>
    if negb (forallb (fun h => Nat.ltb (rk p (lcls h)) (rk p (lcls l))) A)
    then Bad ("lock order / self-deadlock: wait on " ++ lcls l ++ " while holding a lock that does not rank below it")
    else if negb (mem (lcls l) acqd) then Bad ("certificate: facq misses " ++ lcls l)
    else OK (mkRes (Some (l :: A)) None None None None)
  | Post l =>
    match aremove l A with
    | None => Bad ("post without matching wait: " ++ lcls l)
    | Some A' => OK (mkRes (Some A') None None None None)
    end
  | Call f args =>
    match check_call p acqd A f args with
    | Bad w => Bad w
    | OK A' => OK (mkRes (Some A') None None None None)
    end
  | Callback kind =>
    if negb (order_ok p A (api_acq p))
    then Bad ("callback " ++ kind ++ " invoked while holding a lock that the public API may acquire")
    else if negb (subset (api_acq p) acqd) then Bad "certificate: facq misses the API classes reachable through a callback"
    else OK (mkRes (Some A) None None None None)
  | Observer _ => OK (mkRes (Some A) None None None None)
  | Assign v =>
    if mem v frozen then Bad ("parameter naming a contract lock is re-assigned: " ++ v)
    else if forallb (fun h => negb (String.eqb (rroot (lrecv h)) v)) A then OK (mkRes (Some A) None None None None)
    else Bad ("receiver variable re-assigned while its lock is held: " ++ v)
  | Return => OK (mkRes None (Some A) None None None)
  | Break => OK (mkRes None None (Some A) None None)
  | Continue => OK (mkRes None None None (Some A) None)
  | Goto => OK (mkRes None None None None (Some A))
  | Unrecognised why => Bad ("unrecognised: " ++ why)
  end.

Definition olist {A} (o : option A) : list A := match o with Some x => [x] | None => [] end.
Definition froots (d : fn) : list string := map (fun l => rroot (lrecv l)) (olist (fpre d) ++ olist (fpost d)).
Definition is_none {A} (o : option A) : bool := match o with None => true | Some _ => false end.

Definition check_fn (p : program) (d : fn) : chk unit :=
  match check_stmt p (facq d) (froots d) (fbody d) (olist (fpre d)) with
  | Bad w => Bad w
  | OK r =>
    if negb (same_or_none (rn r) (olist (fpost d)) && same_or_none (rr r) (olist (fpost d)))
    then Bad "a path ends with a different set of held locks than the contract says (lock left held / released twice)"
    else if negb (is_none (rb r) && is_none (rc r) && is_none (rg r)) then Bad "break/continue/goto escapes the function body"
    else if negb (subset (froots d) (fparams d)) then Bad "certificate: contract lock not named through a parameter"
    else if fpublic d && is_none (fpre d) && is_none (fpost d) && negb (subset (facq d) (api_acq p))
    then Bad "certificate: api_acq misses a class acquired by this public function"
    else OK tt
  end.

Definition fn_ok (p : program) (d : fn) : bool := match check_fn p d with OK _ => true | Bad _ => false end.

(* the whole-program check; K = known rows (functions excluded, their paths are excluded from the theorems) *)
Definition check_except (K : list string) (p : program) : bool :=
  forallb (fun d => mem (fname d) K || fn_ok p d) (funs p).
Definition check (p : program) : bool := check_except [] p.

(* diagnostics: every function that fails, with the reason *)
Definition report (p : program) : list (string * string) :=
  flat_map (fun d => match check_fn p d with OK _ => [] | Bad w => [(fname d, w)] end) (funs p).
