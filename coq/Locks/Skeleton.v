(* Lock skeletons (C17): syntax, path semantics, trace discipline.
   A skeleton keeps of a C function only what matters for lock discipline: control flow shape,
   Semaphore_wait / Semaphore_post with the lock they name, calls, application callbacks, and
   re-assignments of the variables through which locks are named.  translate/locks.py emits one
   skeleton per function of the analysed files (coq/gen/LockProgram.v).  No proofs in this file. *)
From Coq Require Import String List Bool Arith PeanoNat.
Import ListNotations.
Local Open Scope string_scope.

Definition cls := string.                                   (* lock class: "<struct>.<field>" *)
Record recv := mkR { rroot : string; rpath : list string }. (* receiver: variable + field path *)
Record lock := mkL { lcls : cls; lrecv : recv }.

Inductive stmt :=
| Skip
| Seq (a b : stmt)
| If (a b : stmt)                 (* nondeterministic choice *)
| Loop (s : stmt)                 (* while (1) s : left by Break (normal), Return, Goto *)
| BrkScope (s : stmt)             (* switch: Break ends the scope normally *)
| ContScope (s : stmt)            (* for/do body: Continue ends the scope normally *)
| Block (s e : stmt)              (* body; label-at-end: epilogue -- Goto jumps to the epilogue *)
| Wait (l : lock)
| Post (l : lock)
| Call (f : string) (args : list (option recv))
| Callback (kind : string)        (* application code: may call back into the public API *)
| Observer (kind : string)        (* debugging tap (raw message handler): assumed not to call the API; reported separately *)
| Assign (v : string)             (* variable v now denotes an arbitrary (other) object *)
| Return | Break | Continue | Goto
| Unrecognised (why : string).

Record fn := mkFn {
  fname : string; fparams : list string; fpublic : bool;
  fpre : option lock;              (* certificate: lock that must be held on entry (unlock wrappers) *)
  fpost : option lock;             (* certificate: lock held on exit (lock wrappers) *)
  facq : list cls;                 (* certificate: classes possibly acquired, transitively, incl. via callbacks *)
  fbody : stmt }.

Record program := mkProg {
  funs : list fn;
  externals : list string;         (* functions outside the analysed files, assumed lock-neutral (listed in the evidence) *)
  ranks : list (cls * nat);        (* certificate: the lock order *)
  api_acq : list cls }.            (* certificate: classes any public API function may acquire *)

(* ------------------------------------------------------------------ lookups *)
Fixpoint mem (x : string) (l : list string) : bool :=
  match l with [] => false | y :: t => String.eqb x y || mem x t end.

Fixpoint find_fn_in (fs : list fn) (f : string) : option fn :=
  match fs with [] => None | d :: t => if String.eqb (fname d) f then Some d else find_fn_in t f end.
Definition find_fn (p : program) (f : string) := find_fn_in (funs p) f.

Fixpoint assoc (c : cls) (l : list (cls * nat)) : option nat :=
  match l with [] => None | (k, v) :: t => if String.eqb c k then Some v else assoc c t end.
Definition rk (p : program) (c : cls) : nat := match assoc c (ranks p) with Some n => n | None => 0 end.

Fixpoint index_of (x : string) (l : list string) : option nat :=
  match l with [] => None | y :: t => if String.eqb x y then Some 0 else option_map S (index_of x t) end.

(* the callee's lock l (named through one of its parameters) as named by the caller *)
Definition subst_lock (params : list string) (args : list (option recv)) (l : lock) : option lock :=
  match index_of (rroot (lrecv l)) params with
  | None => None
  | Some i => match nth_error args i with
              | Some (Some a) => Some (mkL (lcls l) (mkR (rroot a) (rpath a ++ rpath (lrecv l))))
              | _ => None
              end
  end.

(* ------------------------------------------------------------------ semantics *)
Definition obj := nat.
Definition inst := (cls * obj)%type.                 (* a lock instance: class + the object it belongs to *)
Definition env := recv -> obj.                       (* what receiver expressions denote; arbitrary, aliasing allowed *)
Inductive event := EAcq (i : inst) | ERel (i : inst).
Inductive okind := ONormal | ORet | OBrk | OCont | OGoto | OAbort.   (* OAbort: the path is cut here (prefix) *)

Definition inst_of (r : env) (l : lock) : inst := (lcls l, r (lrecv l)).

Definition bind_ok (r r' : env) (params : list string) (args : list (option recv)) : Prop :=
  forall i x a path, nth_error params i = Some x -> nth_error args i = Some (Some a) ->
    index_of x params = Some i ->
    r' (mkR x path) = r (mkR (rroot a) (rpath a ++ path)).

Section Exec.
Variable K : list string.       (* functions whose paths are excluded (known rows); [] = everything *)
Variable p : program.

(* exec r s tr k r' : from environment r, one path through s performs the lock operations tr and ends as k in r' *)
Inductive exec : env -> stmt -> list event -> okind -> env -> Prop :=
| E_abort r s : exec r s [] OAbort r
| E_skip r : exec r Skip [] ONormal r
| E_seq_n r a b t1 r1 t2 k r2 : exec r a t1 ONormal r1 -> exec r1 b t2 k r2 -> exec r (Seq a b) (t1 ++ t2) k r2
| E_seq_x r a b t1 k r1 : exec r a t1 k r1 -> k <> ONormal -> exec r (Seq a b) t1 k r1
| E_if_l r a b t k r1 : exec r a t k r1 -> exec r (If a b) t k r1
| E_if_r r a b t k r1 : exec r b t k r1 -> exec r (If a b) t k r1
| E_loop_iter r s t1 k r1 t2 k2 r2 : exec r s t1 k r1 -> k = ONormal \/ k = OCont ->
    exec r1 (Loop s) t2 k2 r2 -> exec r (Loop s) (t1 ++ t2) k2 r2
| E_loop_brk r s t r1 : exec r s t OBrk r1 -> exec r (Loop s) t ONormal r1
| E_loop_x r s t k r1 : exec r s t k r1 -> k = ORet \/ k = OGoto \/ k = OAbort -> exec r (Loop s) t k r1
| E_brk_b r s t r1 : exec r s t OBrk r1 -> exec r (BrkScope s) t ONormal r1
| E_brk_x r s t k r1 : exec r s t k r1 -> k <> OBrk -> exec r (BrkScope s) t k r1
| E_cont_c r s t r1 : exec r s t OCont r1 -> exec r (ContScope s) t ONormal r1
| E_cont_x r s t k r1 : exec r s t k r1 -> k <> OCont -> exec r (ContScope s) t k r1
| E_block_e r s e t1 k r1 t2 k2 r2 : exec r s t1 k r1 -> k = ONormal \/ k = OGoto ->
    exec r1 e t2 k2 r2 -> exec r (Block s e) (t1 ++ t2) k2 r2
| E_block_x r s e t k r1 : exec r s t k r1 -> k <> ONormal -> k <> OGoto -> exec r (Block s e) t k r1
| E_wait r l : exec r (Wait l) [EAcq (inst_of r l)] ONormal r
| E_post r l : exec r (Post l) [ERel (inst_of r l)] ONormal r
| E_assign r v r1 : (forall x, rroot x <> v -> r1 x = r x) -> exec r (Assign v) [] ONormal r1
| E_return r : exec r Return [] ORet r
| E_break r : exec r Break [] OBrk r
| E_continue r : exec r Continue [] OCont r
| E_goto r : exec r Goto [] OGoto r
| E_call_ext r f args : find_fn p f = None -> mem f (externals p) = true -> exec r (Call f args) [] ONormal r
| E_call r f args d r' t k r'' : find_fn p f = Some d -> mem f K = false ->
    bind_ok r r' (fparams d) args -> exec r' (fbody d) t k r'' -> k = ONormal \/ k = ORet ->
    exec r (Call f args) t ONormal r
| E_call_abort r f args d r' t r'' : find_fn p f = Some d -> mem f K = false ->
    bind_ok r r' (fparams d) args -> exec r' (fbody d) t OAbort r'' ->
    exec r (Call f args) t OAbort r
  (* application code reached through a function pointer: it may return at once, or call any public
     API function (no lock precondition) on arbitrary objects, any number of times *)
| E_observer r kind : exec r (Observer kind) [] ONormal r
| E_cb_done r kind : exec r (Callback kind) [] ONormal r
| E_cb_call r kind d r' t1 k1 r'' t2 k2 r2 : In d (funs p) -> fpublic d = true -> fpre d = None -> fpost d = None ->
    mem (fname d) K = false ->
    exec r' (fbody d) t1 k1 r'' -> k1 = ONormal \/ k1 = ORet ->
    exec r (Callback kind) t2 k2 r2 -> exec r (Callback kind) (t1 ++ t2) k2 r2
| E_cb_abort r kind d r' t1 r'' : In d (funs p) -> fpublic d = true -> fpre d = None -> fpost d = None ->
    mem (fname d) K = false ->
    exec r' (fbody d) t1 OAbort r'' -> exec r (Callback kind) t1 OAbort r.
End Exec.

(* ------------------------------------------------------------------ trace discipline *)
Definition inst_eqb (a b : inst) : bool := String.eqb (fst a) (fst b) && Nat.eqb (snd a) (snd b).

Fixpoint remove1 (i : inst) (H : list inst) : option (list inst) :=
  match H with
  | [] => None
  | h :: t => if inst_eqb i h then Some t else option_map (cons h) (remove1 i t)
  end.

(* replay rank tr H: run the lock operations of one thread from the held multiset H.
   EAcq i is allowed only when every lock already held has a strictly smaller rank than i
   (in particular i itself is not held: no self-deadlock, counter stays <= 1);
   ERel i only when i is held (no post without wait, counter stays >= 0). *)
Fixpoint replay (rank : cls -> nat) (tr : list event) (H : list inst) : option (list inst) :=
  match tr with
  | [] => Some H
  | EAcq i :: tr' => if forallb (fun h => Nat.ltb (rank (fst h)) (rank (fst i))) H then replay rank tr' (i :: H) else None
  | ERel i :: tr' => match remove1 i H with Some H' => replay rank tr' H' | None => None end
  end.
