(* C19, frame part: every setter of every time-tag / counter / packed-status record changes exactly its
   own field.  `fieldsNN` lists EVERY bit of the record (reserved bits appear as pseudo-fields), so
   "fields (set_f r v) = upd k v (fields r)" says both "reads back v" and "nothing else changes".
   All definitions c_* are regenerated from the C source on every run (gen/Gen*.v). *)
From Coq Require Import ZArith List Bool Lia.
From L60870 Require Import Base.CInt Base.Sweep Time.Civil Time.BytesTac Time.Bytes32 gen.GenTime gen.GenBcr gen.GenIO.
Import ListNotations.
Local Open Scope Z_scope.
Ltac Zify.zify_post_hook ::= Z.to_euclidean_division_equations.

Lemma recompose16 m : 0 <= m < 65536 -> u8 (Z.land m 255) + u8 (Z.land (Z.quot m 256) 255) * 256 = m.
Proof. revert m; sweep. Qed.
Lemma recompose16' m : 0 <= m < 65536 -> u8 (Z.rem m 256) + u8 (Z.quot m 256) * 256 = m.
Proof. revert m; sweep. Qed.
Lemma recompose16'' m : 0 <= m < 65536 -> u16 (u8 (Z.rem m 256) + 256 * u8 (Z.quot m 256)) = m.
Proof. revert m; sweep. Qed.

(* ---------------------------------------------------------------- CP56Time2a *)
Definition fields56 (l : list Z) : list Z :=
  [ c_CP56Time2a_getMillisecond l; c_CP56Time2a_getSecond l; c_CP56Time2a_getMinute l;
    c_CP56Time2a_isSubstituted l; c_CP56Time2a_isInvalid l; c_CP56Time2a_getHour l;
    Z.land (Z.shiftr (nthz 3 l) 5) 3; c_CP56Time2a_isSummerTime l;
    c_CP56Time2a_getDayOfMonth l; c_CP56Time2a_getDayOfWeek l; c_CP56Time2a_getMonth l;
    Z.shiftr (nthz 5 l) 4; c_CP56Time2a_getYear l; Z.shiftr (nthz 6 l) 7 ].

Definition rec_ok (n : nat) (l : list Z) : Prop := length l = n /\ bytesb l = true.

Ltac frame_start l H :=
  let Hlen := fresh "Hlen" in let Hb := fresh "Hb" in
  destruct H as [Hlen Hb]; explode_bytes l Hlen Hb.

Ltac frame_tac fields := unfold fields; autounfold with cgen; eval_buf; list_sweep.

(* the millisecond/second word: in-range records have second <= 59, i.e. word < 60000 *)
Ltac word_tac fields :=
  unfold fields; autounfold with cgen; eval_buf;
  match goal with
  | |- context [u8 (Z.land ?m 255) + u8 (Z.land (Z.quot ?m 256) 255) * 256] =>
      rewrite !(recompose16 m) by lia
  end;
  repeat (apply cons_eq; [ first [reflexivity | lia] | ]); reflexivity.

Lemma frame56_ms l v : rec_ok 7 l -> c_CP56Time2a_getSecond l <= 59 -> 0 <= v < 1000 ->
  fields56 (c_CP56Time2a_setMillisecond l v) = upd 0 v (fields56 l).
Proof. intros H Hs Hv. frame_start l H. revert Hs. autounfold with cgen. eval_buf. intros Hs. word_tac fields56. Qed.

Lemma frame56_sec l v : rec_ok 7 l -> c_CP56Time2a_getSecond l <= 59 -> 0 <= v < 60 ->
  fields56 (c_CP56Time2a_setSecond l v) = upd 1 v (fields56 l).
Proof. intros H Hs Hv. frame_start l H. revert Hs. autounfold with cgen. eval_buf. intros Hs. word_tac fields56. Qed.

Lemma frame56_min l v : rec_ok 7 l -> 0 <= v < 60 ->
  fields56 (c_CP56Time2a_setMinute l v) = upd 2 v (fields56 l).
Proof. intros H Hv. frame_start l H. frame_tac fields56. Qed.

Lemma frame56_subst l v : rec_ok 7 l -> 0 <= v < 2 ->
  fields56 (c_CP56Time2a_setSubstituted l v) = upd 3 v (fields56 l).
Proof. intros H Hv. frame_start l H. assert (v = 0 \/ v = 1) as [-> | ->] by lia; frame_tac fields56. Qed.

Lemma frame56_invalid l v : rec_ok 7 l -> 0 <= v < 2 ->
  fields56 (c_CP56Time2a_setInvalid l v) = upd 4 v (fields56 l).
Proof. intros H Hv. frame_start l H. assert (v = 0 \/ v = 1) as [-> | ->] by lia; frame_tac fields56. Qed.

Lemma frame56_hour l v : rec_ok 7 l -> 0 <= v < 24 ->
  fields56 (c_CP56Time2a_setHour l v) = upd 5 v (fields56 l).
Proof. intros H Hv. frame_start l H. frame_tac fields56. Qed.

Lemma frame56_su l v : rec_ok 7 l -> 0 <= v < 2 ->
  fields56 (c_CP56Time2a_setSummerTime l v) = upd 7 v (fields56 l).
Proof. intros H Hv. frame_start l H. assert (v = 0 \/ v = 1) as [-> | ->] by lia; frame_tac fields56. Qed.

Lemma frame56_dom l v : rec_ok 7 l -> 0 <= v < 32 ->
  fields56 (c_CP56Time2a_setDayOfMonth l v) = upd 8 v (fields56 l).
Proof. intros H Hv. frame_start l H. frame_tac fields56. Qed.

Lemma frame56_dow l v : rec_ok 7 l -> 0 <= v < 8 ->
  fields56 (c_CP56Time2a_setDayOfWeek l v) = upd 9 v (fields56 l).
Proof. intros H Hv. frame_start l H. frame_tac fields56. Qed.

Lemma frame56_month l v : rec_ok 7 l -> 0 <= v < 16 ->
  fields56 (c_CP56Time2a_setMonth l v) = upd 10 v (fields56 l).
Proof. intros H Hv. frame_start l H. frame_tac fields56. Qed.

Lemma frame56_year l v : rec_ok 7 l -> 0 <= v < 100 ->
  fields56 (c_CP56Time2a_setYear l v) = upd 12 v (fields56 l).
Proof. intros H Hv. frame_start l H. frame_tac fields56. Qed.

(* the hypothesis on the second field is necessary: outside the standard's range the word overflows *)
Lemma frame56_ms_refuted_outside_range :
  exists l v, rec_ok 7 l /\ 0 <= v < 1000 /\ c_CP56Time2a_getSecond l = 65 /\
              fields56 (c_CP56Time2a_setMillisecond l v) <> upd 0 v (fields56 l).
Proof. exists [255; 255; 0; 0; 0; 0; 0], 999. repeat split; try lia; try reflexivity. vm_compute. discriminate. Qed.

(* fields56 determines the record: no bit is outside the field list *)
Lemma fields56_injective l l' : rec_ok 7 l -> rec_ok 7 l' ->
  c_CP56Time2a_getSecond l <= 59 -> c_CP56Time2a_getSecond l' <= 59 ->
  fields56 l = fields56 l' -> l = l'.
Proof.
  intros H H' Hs Hs' E. frame_start l H. frame_start l' H'.
  revert Hs Hs' E. unfold fields56. autounfold with cgen. eval_buf. intros Hs Hs' E.
  injection E as E0 E1 E2 E3 E4 E5 E6 E7 E8 E9 E10 E11 E12 E13.
  assert (b = b6 /\ b0 = b7) as [-> ->] by lia.
  assert (b1 = b8). { clear - E2 E3 E4 Hb2 Hb9. revert E2 E3 E4. revert b1 Hb2 b8 Hb9. sweep. }
  assert (b2 = b9). { clear - E5 E6 E7 Hb3 Hb10. revert E5 E6 E7. revert b2 Hb3 b9 Hb10. sweep. }
  assert (b3 = b10). { clear - E8 E9 Hb4 Hb11. revert E8 E9. revert b3 Hb4 b10 Hb11. sweep. }
  assert (b4 = b11). { clear - E10 E11 Hb5 Hb12. revert E10 E11. revert b4 Hb5 b11 Hb12. sweep. }
  assert (b5 = b12). { clear - E12 E13 Hb6 Hb13. revert E12 E13. revert b5 Hb6 b12 Hb13. sweep. }
  subst. reflexivity.
Qed.

(* ---------------------------------------------------------------- CP32Time2a *)
Definition fields32 (l : list Z) : list Z :=
  [ c_CP32Time2a_getMillisecond l; c_CP32Time2a_getSecond l; c_CP32Time2a_getMinute l;
    c_CP32Time2a_isSubstituted l; c_CP32Time2a_isInvalid l; c_CP32Time2a_getHour l;
    Z.land (Z.shiftr (nthz 3 l) 5) 3; c_CP32Time2a_isSummerTime l ].

Lemma frame32_ms l v : rec_ok 4 l -> c_CP32Time2a_getSecond l <= 59 -> 0 <= v < 1000 ->
  fields32 (c_CP32Time2a_setMillisecond l v) = upd 0 v (fields32 l).
Proof. intros H Hs Hv. frame_start l H. revert Hs. autounfold with cgen. eval_buf. intros Hs. word_tac fields32. Qed.
Lemma frame32_sec l v : rec_ok 4 l -> c_CP32Time2a_getSecond l <= 59 -> 0 <= v < 60 ->
  fields32 (c_CP32Time2a_setSecond l v) = upd 1 v (fields32 l).
Proof. intros H Hs Hv. frame_start l H. revert Hs. autounfold with cgen. eval_buf. intros Hs. word_tac fields32. Qed.
Lemma frame32_min l v : rec_ok 4 l -> 0 <= v < 60 ->
  fields32 (c_CP32Time2a_setMinute l v) = upd 2 v (fields32 l).
Proof. intros H Hv. frame_start l H. frame_tac fields32. Qed.
Lemma frame32_subst l v : rec_ok 4 l -> 0 <= v < 2 ->
  fields32 (c_CP32Time2a_setSubstituted l v) = upd 3 v (fields32 l).
Proof. intros H Hv. frame_start l H. assert (v = 0 \/ v = 1) as [-> | ->] by lia; frame_tac fields32. Qed.
Lemma frame32_invalid l v : rec_ok 4 l -> 0 <= v < 2 ->
  fields32 (c_CP32Time2a_setInvalid l v) = upd 4 v (fields32 l).
Proof. intros H Hv. frame_start l H. assert (v = 0 \/ v = 1) as [-> | ->] by lia; frame_tac fields32. Qed.
Lemma frame32_hour l v : rec_ok 4 l -> 0 <= v < 24 ->
  fields32 (c_CP32Time2a_setHour l v) = upd 5 v (fields32 l).
Proof. intros H Hv. frame_start l H. frame_tac fields32. Qed.
Lemma frame32_su l v : rec_ok 4 l -> 0 <= v < 2 ->
  fields32 (c_CP32Time2a_setSummerTime l v) = upd 7 v (fields32 l).
Proof. intros H Hv. frame_start l H. assert (v = 0 \/ v = 1) as [-> | ->] by lia; frame_tac fields32. Qed.

(* ---------------------------------------------------------------- CP24Time2a *)
Definition fields24 (l : list Z) : list Z :=
  [ c_CP24Time2a_getMillisecond l; c_CP24Time2a_getSecond l; c_CP24Time2a_getMinute l;
    c_CP24Time2a_isSubstituted l; c_CP24Time2a_isInvalid l ].

Lemma frame24_ms l v : rec_ok 3 l -> c_CP24Time2a_getSecond l <= 59 -> 0 <= v < 1000 ->
  fields24 (c_CP24Time2a_setMillisecond l v) = upd 0 v (fields24 l).
Proof. intros H Hs Hv. frame_start l H. revert Hs. autounfold with cgen. eval_buf. intros Hs. word_tac fields24. Qed.
Lemma frame24_sec l v : rec_ok 3 l -> c_CP24Time2a_getSecond l <= 59 -> 0 <= v < 60 ->
  fields24 (c_CP24Time2a_setSecond l v) = upd 1 v (fields24 l).
Proof. intros H Hs Hv. frame_start l H. revert Hs. autounfold with cgen. eval_buf. intros Hs. word_tac fields24. Qed.
Lemma frame24_min l v : rec_ok 3 l -> 0 <= v < 60 ->
  fields24 (c_CP24Time2a_setMinute l v) = upd 2 v (fields24 l).
Proof. intros H Hv. frame_start l H. frame_tac fields24. Qed.
Lemma frame24_subst l v : rec_ok 3 l -> 0 <= v < 2 ->
  fields24 (c_CP24Time2a_setSubstituted l v) = upd 3 v (fields24 l).
Proof. intros H Hv. frame_start l H. assert (v = 0 \/ v = 1) as [-> | ->] by lia; frame_tac fields24. Qed.
Lemma frame24_invalid l v : rec_ok 3 l -> 0 <= v < 2 ->
  fields24 (c_CP24Time2a_setInvalid l v) = upd 4 v (fields24 l).
Proof. intros H Hv. frame_start l H. assert (v = 0 \/ v = 1) as [-> | ->] by lia; frame_tac fields24. Qed.

(* ---------------------------------------------------------------- CP16Time2a *)
Lemma frame16 l v : rec_ok 2 l -> 0 <= v < 65536 ->
  c_CP16Time2a_getEplapsedTimeInMs (c_CP16Time2a_setEplapsedTimeInMs l v) = v.
Proof. intros H Hv. frame_start l H. autounfold with cgen. eval_buf. apply recompose16'. exact Hv. Qed.

(* ---------------------------------------------------------------- BinaryCounterReading *)
Definition fieldsBcr (l : list Z) : list Z :=
  [ c_BinaryCounterReading_getValue l; c_BinaryCounterReading_getSequenceNumber l;
    c_BinaryCounterReading_hasCarry l; c_BinaryCounterReading_isAdjusted l; c_BinaryCounterReading_isInvalid l ].

Lemma frameBcr_value l v : rec_ok 5 l -> -2147483648 <= v < 2147483648 ->
  fieldsBcr (c_BinaryCounterReading_setValue l v) = upd 0 v (fieldsBcr l).
Proof.
  intros H Hv. frame_start l H. unfold fieldsBcr. autounfold with cgen. eval_buf.
  apply cons_eq; [apply bytes32_roundtrip; exact Hv | reflexivity].
Qed.
Lemma frameBcr_seq l v : rec_ok 5 l -> 0 <= v < 32 ->
  fieldsBcr (c_BinaryCounterReading_setSequenceNumber l v) = upd 1 v (fieldsBcr l).
Proof. intros H Hv. frame_start l H. frame_tac fieldsBcr. Qed.
Lemma frameBcr_carry l v : rec_ok 5 l -> 0 <= v < 2 ->
  fieldsBcr (c_BinaryCounterReading_setCarry l v) = upd 2 v (fieldsBcr l).
Proof. intros H Hv. frame_start l H. assert (v = 0 \/ v = 1) as [-> | ->] by lia; frame_tac fieldsBcr. Qed.
Lemma frameBcr_adjusted l v : rec_ok 5 l -> 0 <= v < 2 ->
  fieldsBcr (c_BinaryCounterReading_setAdjusted l v) = upd 3 v (fieldsBcr l).
Proof. intros H Hv. frame_start l H. assert (v = 0 \/ v = 1) as [-> | ->] by lia; frame_tac fieldsBcr. Qed.
Lemma frameBcr_invalid l v : rec_ok 5 l -> 0 <= v < 2 ->
  fieldsBcr (c_BinaryCounterReading_setInvalid l v) = upd 4 v (fieldsBcr l).
Proof. intros H Hv. frame_start l H. assert (v = 0 \/ v = 1) as [-> | ->] by lia; frame_tac fieldsBcr. Qed.

(* ---------------------------------------------------------------- packed status types *)
(* SingleEvent: one octet = event state (2 bits) + QDP (upper 6 bits, passed as an octet with the low 2 bits clear) *)
Definition fieldsSE (l : list Z) : list Z := [ c_SingleEvent_getEventState l; c_SingleEvent_getQDP l ].
Lemma frameSE_state l v : rec_ok 1 l -> 0 <= v < 4 ->
  fieldsSE (c_SingleEvent_setEventState l v) = upd 0 v (fieldsSE l).
Proof. intros H Hv. frame_start l H. frame_tac fieldsSE. Qed.
Lemma frameSE_qdp l q : rec_ok 1 l -> 0 <= q < 64 ->
  fieldsSE (c_SingleEvent_setQDP l (4 * q)) = upd 1 (4 * q) (fieldsSE l).
Proof. intros H Hv. frame_start l H. frame_tac fieldsSE. Qed.

(* StatusAndStatusChangeDetection: ST word + CD word; only ST has a setter *)
Definition fieldsSCD (l : list Z) : list Z :=
  [ c_StatusAndStatusChangeDetection_getSTn l; c_StatusAndStatusChangeDetection_getCDn l ].
Lemma frameSCD_st l v : rec_ok 4 l -> 0 <= v < 65536 ->
  fieldsSCD (c_StatusAndStatusChangeDetection_setSTn l v) = upd 0 v (fieldsSCD l).
Proof.
  intros H Hv. frame_start l H. unfold fieldsSCD. autounfold with cgen. eval_buf.
  apply cons_eq; [apply recompose16''; exact Hv | reflexivity].
Qed.
(* single-bit readers agree with the word *)
Lemma SCD_bits l i : rec_ok 4 l -> 0 <= i < 16 ->
  c_StatusAndStatusChangeDetection_getST l i = Z.land (Z.shiftr (c_StatusAndStatusChangeDetection_getSTn l) i) 1 /\
  c_StatusAndStatusChangeDetection_getCD l i = Z.land (Z.shiftr (c_StatusAndStatusChangeDetection_getCDn l) i) 1.
Proof.
  intros H Hi. frame_start l H. autounfold with cgen. eval_buf.
  assert (Hi' : (i >=? 0) && (i <? 16) = true) by (apply andb_true_intro; split; [apply Z.geb_le | apply Z.ltb_lt]; lia).
  rewrite Hi'. split.
  - assert (W: 0 <= u16 (b + 256 * b0) < 65536) by (unfold u16; apply Z.mod_pos_bound; lia).
    generalize dependent (u16 (b + 256 * b0)). intros w Hw. clear - Hi Hw. revert w Hw i Hi. sweep.
  - assert (W: 0 <= u16 (b1 + 256 * b2) < 65536) by (unfold u16; apply Z.mod_pos_bound; lia).
    generalize dependent (u16 (b1 + 256 * b2)). intros w Hw. clear - Hi Hw. revert w Hw i Hi. sweep.
Qed.
