(* C19, scaled / normalised values.  c_* are regenerated from cs101_information_objects.c;
   float arithmetic is Flocq binary32 (round to nearest even), see Time/FloatPrims.v. *)
From Coq Require Import ZArith List Bool Lia.
From Flocq Require Import IEEE754.BinarySingleNaN IEEE754.Binary IEEE754.Bits.
From L60870 Require Import Base.CInt Base.Sweep Time.BytesTac Time.FloatPrims gen.GenIO gen.GenFloat.
Import ListNotations.
Local Open Scope Z_scope.

(* every 16-bit raw value survives raw -> normalised float -> raw  (65536 evaluations through Flocq) *)
Definition raw_ok (r : Z) : bool := c_NormalizedValue_toScaled (c_NormalizedValue_fromScaled r) =? r.
Lemma raws_ok : forallb raw_ok (zrange (-32768) 32768) = true.
Proof. vm_cast_no_check (eq_refl true). Qed.

Lemma raw_roundtrip r : -32768 <= r < 32768 -> c_NormalizedValue_toScaled (c_NormalizedValue_fromScaled r) = r.
Proof.
  intros H. pose proof raws_ok as S. rewrite forallb_forall in S.
  specialize (S r (zrange_in _ _ _ H)). unfold raw_ok in S. apply Z.eqb_eq in S. exact S.
Qed.

(* the two-octet encoding of a scaled value *)
Lemma scaled_octets l r : length l = 2%nat -> -32768 <= r < 32768 ->
  c_getScaledValue (c_setScaledValue l r) = r.
Proof.
  intros Hlen Hr. destruct l as [|a [|b [|]]]; try discriminate Hlen.
  autounfold with cgen. eval_buf. clear Hlen. revert r Hr. sweep.
Qed.

(* octets -> value -> octets is the identity too (no pattern is lost) *)
Lemma scaled_octets_inv a b : 0 <= a < 256 -> 0 <= b < 256 ->
  c_setScaledValue [a; b] (c_getScaledValue [a; b]) = [a; b].
Proof. intros Ha Hb. autounfold with cgen. eval_buf. revert a Ha b Hb. sweep. Qed.

(* saturation: both tails *)
Definition NMAX : f32 := f_div (f_of_int 32767) (f_of_int 32768).
Definition NMIN : f32 := f_neg (f_of_int 1).

Lemma saturate_high f : f_gt f NMAX = true -> c_NormalizedValue_toScaled f = 32767.
Proof.
  intros H. unfold c_NormalizedValue_toScaled, c_normalizedToScaled. cbv zeta.
  fold NMAX. rewrite H. vm_compute. reflexivity.
Qed.

Lemma nmax_sf : exists m e, BinarySingleNaN.B2SF (B2BSN 24 128 NMAX) = SpecFloat.S754_finite false m e.
Proof. eexists _, _. vm_compute. reflexivity. Qed.
Lemma nmin_sf : exists m e, BinarySingleNaN.B2SF (B2BSN 24 128 NMIN) = SpecFloat.S754_finite true m e.
Proof. eexists _, _. vm_compute. reflexivity. Qed.
Lemma lt_min_not_gt_max f : f_lt f NMIN = true -> f_gt f NMAX = false.
Proof.
  destruct nmax_sf as (m1 & e1 & E1). destruct nmin_sf as (m2 & e2 & E2).
  unfold f_lt, f_gt, f_cmp, b32_compare, Bcompare, BinarySingleNaN.Bcompare.
  rewrite E1, E2. clear E1 E2.
  destruct f as [s|s|pl s Hn|s m e Hb]; cbn [B2BSN BinarySingleNaN.B2SF SpecFloat.SFcompare]; try destruct s; try congruence.
Qed.

Lemma saturate_low f : f_lt f NMIN = true -> c_NormalizedValue_toScaled f = -32768.
Proof.
  intros H. unfold c_NormalizedValue_toScaled, c_normalizedToScaled. cbv zeta.
  fold NMAX NMIN. rewrite (lt_min_not_gt_max f H), H. vm_compute. reflexivity.
Qed.

(* infinities are covered by the two lemmas above *)
Example saturate_inf :
  c_NormalizedValue_toScaled (f_of_bits 2139095040) = 32767 /\ c_NormalizedValue_toScaled (f_of_bits 4286578688) = -32768.
Proof. split; vm_compute; reflexivity. Qed.
