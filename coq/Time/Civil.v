(* Hand model of gmtime_r for non-negative time_t (proleptic Gregorian calendar, no leap seconds).
   It stands in for the libc call inside the generated CPxxTime2a_setFromMsTimestamp; it is validated
   against the real gmtime_r by harness/h_time on every day of 2000..2099 (and every second in thorough). *)
From Coq Require Import ZArith.
Local Open Scope Z_scope.

Definition civil_from_days (z0 : Z) : Z * Z * Z :=
  let z := z0 + 719468 in
  let era := z / 146097 in
  let doe := z - era * 146097 in
  let yoe := (doe - doe / 1460 + doe / 36524 - doe / 146096) / 365 in
  let y := yoe + era * 400 in
  let doy := doe - (365 * yoe + yoe / 4 - yoe / 100) in
  let mp := (5 * doy + 2) / 153 in
  let d := doy - (153 * mp + 2) / 5 + 1 in
  let m := if mp <? 10 then mp + 3 else mp - 9 in
  (if m <=? 2 then y + 1 else y, m, d).

Definition gm_sec (t : Z) : Z := t mod 60.
Definition gm_min (t : Z) : Z := (t / 60) mod 60.
Definition gm_hour (t : Z) : Z := (t / 3600) mod 24.
Definition gm_mday (t : Z) : Z := let '(_, _, d) := civil_from_days (t / 86400) in d.
Definition gm_mon (t : Z) : Z := let '(_, m, _) := civil_from_days (t / 86400) in m - 1.
Definition gm_year (t : Z) : Z := let '(y, _, _) := civil_from_days (t / 86400) in y - 1900.
