(* IEEE-754 binary32 primitives (Flocq) used by the generated float code.
   C semantics modelled: round-to-nearest-even arithmetic, comparisons false on NaN,
   float->int conversion truncates toward zero (UB outside int range: modelled as 0, and
   the theorems only use it on values proved to be in range). *)
From Coq Require Import ZArith.
From Flocq Require Import IEEE754.BinarySingleNaN IEEE754.Binary IEEE754.Bits.
Local Open Scope Z_scope.

Definition f32 : Set := binary32.
Definition f_of_int (z : Z) : binary32 := binary_normalize 24 128 eq_refl eq_refl mode_NE z 0 false.
Definition f_half : binary32 := binary_normalize 24 128 eq_refl eq_refl mode_NE 1 (-1) false.
Definition f_zero : binary32 := f_of_int 0.
Definition f_add (a b : binary32) : binary32 := b32_plus mode_NE a b.
Definition f_sub (a b : binary32) : binary32 := b32_minus mode_NE a b.
Definition f_mul (a b : binary32) : binary32 := b32_mult mode_NE a b.
Definition f_div (a b : binary32) : binary32 := b32_div mode_NE a b.
Definition f_neg (a : binary32) : binary32 := b32_opp a.
Definition f_cmp (a b : binary32) : option comparison := b32_compare a b.
Definition f_lt a b := match f_cmp a b with Some Lt => true | _ => false end.
Definition f_gt a b := match f_cmp a b with Some Gt => true | _ => false end.
Definition f_le a b := match f_cmp a b with Some Lt | Some Eq => true | _ => false end.
Definition f_ge a b := match f_cmp a b with Some Gt | Some Eq => true | _ => false end.
Definition f_eq a b := match f_cmp a b with Some Eq => true | _ => false end.
Definition f_ne a b := negb (f_eq a b).
(* (int) x : truncation toward zero *)
Definition f_to_int (a : binary32) : Z :=
  match a with
  | B754_finite _ _ s m e _ =>
      let mz := Zpos m in
      let v := if 0 <=? e then mz * 2 ^ e else mz / 2 ^ (- e) in
      if s then - v else v
  | _ => 0
  end.
Definition f_of_bits (w : Z) : binary32 := b32_of_bits w.
Definition f_bits (a : binary32) : Z := bits_of_b32 a.
Definition f_is_nan (a : binary32) : bool := match a with B754_nan _ _ _ _ _ => true | _ => false end.
