(* 32-bit little-endian byte view lemmas (for BinaryCounterReading get/setValue). *)
From Coq Require Import ZArith List Bool Lia.
From L60870 Require Import Base.CInt.
Local Open Scope Z_scope.
Ltac Zify.zify_post_hook ::= Z.to_euclidean_division_equations.
Lemma s32_small x : 0 <= x < 2147483648 -> s32 x = x.
Proof. intros H. unfold s32, swrap. rewrite Z.mod_small by lia. destruct (x <? 2147483648) eqn:E; [reflexivity|]. apply Z.ltb_ge in E. lia. Qed.

Lemma set_byte32_step x i b : 0 <= i <= 3 -> 0 <= x < 256 ^ i -> 0 <= b < 256 ->
  x + b * 256 ^ i < 2147483648 -> set_byte32 x i b = x + b * 256 ^ i.
Proof.
  intros Hi Hx Hb Hlt. unfold set_byte32, byte_of, u32.
  assert (P: 0 < 256 ^ i) by (apply Z.pow_pos_nonneg; lia).
  assert (Q: 256 ^ i <= 256 ^ 3) by (apply Z.pow_le_mono_r; lia). change (256^3) with 16777216 in Q.
  rewrite (Z.mod_small x) by lia. rewrite (Z.div_small x) by lia. rewrite (Z.mod_small b) by lia.
  cbn [Z.modulo Z.div_eucl Z.mul]. rewrite Z.sub_0_r.
  apply s32_small. nia.
Qed.

Lemma s32_u32 v : -2147483648 <= v < 2147483648 -> s32 (u32 v) = v.
Proof.
  intros H. unfold s32, swrap, u32. change (2 * 2147483648) with 4294967296.
  rewrite Z.mod_mod by lia.
  destruct (v mod 4294967296 <? 2147483648) eqn:E; [apply Z.ltb_lt in E | apply Z.ltb_ge in E]; lia.
Qed.

Lemma bytes32_roundtrip v : -2147483648 <= v < 2147483648 ->
  set_byte32 (set_byte32 (set_byte32 (set_byte32 0 0 (byte_of v 0)) 1 (byte_of v 1)) 2 (byte_of v 2)) 3 (byte_of v 3) = v.
Proof.
  intros H.
  assert (HV: 0 <= u32 v < 4294967296) by (unfold u32; apply Z.mod_pos_bound; lia).
  set (V := u32 v) in *.
  assert (B0: 0 <= byte_of v 0 < 256) by (unfold byte_of; apply Z.mod_pos_bound; lia).
  assert (B1: 0 <= byte_of v 1 < 256) by (unfold byte_of; apply Z.mod_pos_bound; lia).
  assert (B2: 0 <= byte_of v 2 < 256) by (unfold byte_of; apply Z.mod_pos_bound; lia).
  assert (B3: 0 <= byte_of v 3 < 256) by (unfold byte_of; apply Z.mod_pos_bound; lia).
  assert (D: V = byte_of v 0 + byte_of v 1 * 256 + byte_of v 2 * 65536 + byte_of v 3 * 16777216).
  { unfold byte_of. fold V. change (256 ^ 0) with 1. change (256 ^ 1) with 256. change (256^2) with 65536. change (256^3) with 16777216. lia. }
  rewrite (set_byte32_step 0 0) by (change (256^0) with 1; lia). change (256^0) with 1.
  rewrite (set_byte32_step _ 1) by (change (256^1) with 256; lia). change (256^1) with 256.
  rewrite (set_byte32_step _ 2) by (change (256^2) with 65536; lia). change (256^2) with 65536.
  (* last byte: may set the sign bit *)
  set (X := 0 + byte_of v 0 * 1 + byte_of v 1 * 256 + byte_of v 2 * 65536).
  assert (HX: 0 <= X < 16777216) by (unfold X; lia).
  unfold set_byte32 at 1. unfold byte_of at 1. unfold u32 at 1 2.
  change (256^3) with 16777216.
  rewrite (Z.mod_small X) by lia. rewrite (Z.div_small X) by lia.
  rewrite (Z.mod_small (byte_of v 3)) by lia.
  change (0 mod 256) with 0. rewrite Z.mul_0_l, Z.sub_0_r.
  replace (X + byte_of v 3 * 16777216) with V by (unfold X; lia).
  unfold V. apply s32_u32. exact H.
Qed.

(* reading back the four bytes of a value that was stored byte by byte *)
Lemma byte_of_range v i : 0 <= byte_of v i < 256.
Proof. unfold byte_of. apply Z.mod_pos_bound. lia. Qed.
