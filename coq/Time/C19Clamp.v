(* C19, scaled / normalised values: the int -> float direction saturates too.  Kept apart from C19Scaled.v so that
   the 65536-value sweep there is not recompiled with it. *)
From Coq Require Import ZArith List Bool Lia.
From L60870 Require Import Base.CInt Time.FloatPrims gen.GenFloat Time.C19Scaled.
Local Open Scope Z_scope.

Definition clamp16 (r : Z) : Z := if r >? 32767 then 32767 else if r <? -32768 then -32768 else r.
Lemma clamp16_range r : -32768 <= clamp16 r < 32768.
Proof. unfold clamp16. destruct (r >? 32767) eqn:E1; [lia|]. destruct (r <? -32768) eqn:E2; lia. Qed.
Lemma clamp16_id r : -32768 <= r < 32768 -> clamp16 r = r.
Proof. intros H. unfold clamp16. destruct (r >? 32767) eqn:E1; [lia|]. destruct (r <? -32768) eqn:E2; lia. Qed.
Lemma fromScaled_clamp r : c_NormalizedValue_fromScaled r = c_NormalizedValue_fromScaled (clamp16 r).
Proof.
  unfold c_NormalizedValue_fromScaled, c_scaledToNormalized, clamp16. cbv zeta.
  destruct (r >? 32767) eqn:E1; [reflexivity|]. destruct (r <? -32768) eqn:E2; [reflexivity|].
  rewrite E1, E2. reflexivity.
Qed.
Lemma fromScaled_high r : 32767 < r -> c_NormalizedValue_fromScaled r = c_NormalizedValue_fromScaled 32767.
Proof. intros H. rewrite fromScaled_clamp. unfold clamp16. replace (r >? 32767) with true by lia. reflexivity. Qed.
Lemma fromScaled_low r : r < -32768 -> c_NormalizedValue_fromScaled r = c_NormalizedValue_fromScaled (-32768).
Proof.
  intros H. rewrite fromScaled_clamp. unfold clamp16. replace (r >? 32767) with false by lia.
  replace (r <? -32768) with true by lia. reflexivity.
Qed.
(* the two ends are the floats the other direction saturates at: 32767/32768 and -1 *)
Lemma fromScaled_ends : f_eq (c_NormalizedValue_fromScaled 32767) NMAX = true /\ f_eq (c_NormalizedValue_fromScaled (-32768)) NMIN = true.
Proof. split; vm_compute; reflexivity. Qed.
Lemma raw_clamp r : c_NormalizedValue_toScaled (c_NormalizedValue_fromScaled r) = clamp16 r.
Proof. rewrite fromScaled_clamp. apply raw_roundtrip. apply clamp16_range. Qed.
