(* C19, calendar part: ms timestamp -> CP56Time2a -> ms timestamp is the identity on
   [2000-01-01T00:00:00.000Z, 2100-01-01T00:00:00.000Z).  The C functions are the regenerated
   c_CP56Time2a_setFromMsTimestamp / c_CP56Time2a_toMsTimestamp; gmtime_r is the hand model Civil. *)
From Coq Require Import ZArith List Bool Lia.
From L60870 Require Import Base.CInt Base.Sweep Time.Civil Time.BytesTac Time.C19Frames gen.GenTime.
Import ListNotations.
Local Open Scope Z_scope.
Ltac Zify.zify_post_hook ::= Z.to_euclidean_division_equations.

Definition T2000 : Z := 946684800000.
Definition T2100 : Z := 4102444800000.
Definition D2000 : Z := 10957.
Definition D2100 : Z := 47482.

(* the seven field values the C code derives from t *)
Definition set_fields (l : list Z) (ms s mi h d mo y : Z) : list Z :=
  c_CP56Time2a_setYear (c_CP56Time2a_setMonth (c_CP56Time2a_setDayOfWeek (c_CP56Time2a_setDayOfMonth
    (c_CP56Time2a_setHour (c_CP56Time2a_setMinute (c_CP56Time2a_setSecond (c_CP56Time2a_setMillisecond (zfill 7 l) ms) s) mi) h) d) 0) (mo + 1)) y.

(* the generated function is exactly this composition (checked by conversion: re-checked whenever the C changes) *)
Lemma setFrom_unfold l t :
  c_CP56Time2a_setFromMsTimestamp l t =
  let T := s64 (Z.quot t (u64 1000)) in
  set_fields l (s32 (Z.rem t (u64 1000))) (gm_sec T) (gm_min T) (gm_hour T) (gm_mday T) (gm_mon T) (gm_year T).
Proof. reflexivity. Qed.

(* getters after the setter chain, for in-range field values, on any 7-octet buffer *)
Lemma get_set_fields l ms s mi h d mo y :
  rec_ok 7 l -> 0 <= ms < 1000 -> 0 <= s < 60 -> 0 <= mi < 60 -> 0 <= h < 24 -> 1 <= d < 32 -> 0 <= mo < 12 ->
  100 <= y < 200 ->
  let r := set_fields l ms s mi h d mo y in
  [ c_CP56Time2a_getMillisecond r; c_CP56Time2a_getSecond r; c_CP56Time2a_getMinute r; c_CP56Time2a_getHour r;
    c_CP56Time2a_getDayOfMonth r; c_CP56Time2a_getMonth r; c_CP56Time2a_getYear r ] =
  [ ms; s; mi; h; d; mo + 1; y - 100 ].
Proof.
  intros H Hms Hs Hmi Hh Hd Hmo Hy. frame_start l H. unfold set_fields. autounfold with cgen. eval_buf.
  assert (Hw : 0 <= s * 1000 + ms < 65536) by lia.
  (* the ms/sec word: (0 - 0 rem 1000 + ms) then (s*1000 + that rem 1000) *)
  assert (E0 : 0 + 0 * 256 - Z.rem (0 + 0 * 256) 1000 + ms = ms) by lia.
  repeat match goal with
  | |- context [u8 (Z.land ?m 255) + u8 (Z.land (Z.quot ?m 256) 255) * 256] =>
      rewrite !(recompose16 m) by lia
  end.
  apply cons_eq; [lia|]. apply cons_eq; [lia|].
  apply cons_eq; [sweep_used|]. apply cons_eq; [sweep_used|]. apply cons_eq; [sweep_used|].
  apply cons_eq; [sweep_used|].
  apply cons_eq; [|reflexivity].
  assert (Hy' : 0 <= y - 100 < 100) by lia. replace y with ((y - 100) + 100) at 1 by lia.
  remember (y - 100) as z eqn:Ez. clear - Hy'. revert z Hy'. sweep.
Qed.

(* day part: mktime of the civil date of day d is d, for every day of the century (finite sweep, bound in the statement) *)
Definition day_ok (d : Z) : bool :=
  let '(y, m, dd) := civil_from_days d in
  (1 <=? dd) && (dd <? 32) && (1 <=? m) && (m <? 13) && (2000 <=? y) && (y <? 2100) &&
  (c_my_mktime (y - 1900) (m - 1) dd 0 0 0 =? d * 86400).

Lemma days_ok : forallb day_ok (zrange D2000 D2100) = true.
Proof. vm_cast_no_check (eq_refl true). Qed.

Lemma mktime_civil_day : forall d, D2000 <= d < D2100 ->
  let T := d * 86400 in
  (1 <= gm_mday T < 32) /\ (0 <= gm_mon T < 12) /\ (100 <= gm_year T < 200) /\
  c_my_mktime (gm_year T) (gm_mon T) (gm_mday T) 0 0 0 = T.
Proof.
  intros d Hd. pose proof days_ok as S. rewrite forallb_forall in S.
  specialize (S d (zrange_in _ _ _ Hd)). unfold day_ok in S.
  cbv zeta. unfold gm_mday, gm_mon, gm_year. rewrite Z.div_mul by lia.
  destruct (civil_from_days d) as [[y m] dd].
  repeat (apply andb_prop in S; destruct S as [S ?]).
  repeat match goal with
         | H : (_ <=? _) = true |- _ => apply Z.leb_le in H
         | H : (_ <? _) = true |- _ => apply Z.ltb_lt in H
         | H : (_ =? _) = true |- _ => apply Z.eqb_eq in H
         end.
  repeat split; try lia.
Qed.

(* the date depends only on the day *)
Lemma gm_date_day T : 0 <= T -> gm_mday T = gm_mday (T / 86400 * 86400) /\ gm_mon T = gm_mon (T / 86400 * 86400)
                              /\ gm_year T = gm_year (T / 86400 * 86400).
Proof. intros H. unfold gm_mday, gm_mon, gm_year. rewrite Z.div_mul by lia. auto. Qed.

(* my_mktime is linear in hour, minute, second *)
Lemma mktime_linear y m d h mi s : c_my_mktime y m d h mi s = c_my_mktime y m d 0 0 0 + h * 3600 + mi * 60 + s.
Proof. unfold c_my_mktime. destruct (m <? 2); cbv zeta; ring. Qed.

Theorem time_roundtrip l t : rec_ok 7 l -> T2000 <= t < T2100 ->
  c_CP56Time2a_toMsTimestamp (c_CP56Time2a_setFromMsTimestamp l t) = t.
Proof.
  intros Hl Ht. unfold T2000, T2100 in Ht. rewrite setFrom_unfold. cbv zeta.
  change (u64 1000) with 1000.
  assert (Hq : Z.quot t 1000 = t / 1000) by (apply Z.quot_div_nonneg; lia).
  assert (Hr : Z.rem t 1000 = t mod 1000) by (apply Z.rem_mod_nonneg; lia).
  rewrite Hq, Hr.
  assert (HT : 946684800 <= t / 1000 < 4102444800) by lia.
  assert (Hs64 : s64 (t / 1000) = t / 1000).
  { unfold s64, swrap. rewrite Z.mod_small by lia. destruct (t / 1000 <? 9223372036854775808) eqn:E; [reflexivity|]. apply Z.ltb_ge in E. lia. }
  assert (Hs32 : s32 (t mod 1000) = t mod 1000).
  { unfold s32, swrap. rewrite Z.mod_small by lia. destruct (t mod 1000 <? 2147483648) eqn:E; [reflexivity|]. apply Z.ltb_ge in E. lia. }
  rewrite Hs64, Hs32. set (T := t / 1000) in *.
  set (day := T / 86400).
  assert (Hday : D2000 <= day < D2100) by (unfold day, D2000, D2100; lia).
  destruct (mktime_civil_day day Hday) as (Hd & Hmo & Hy & Hmk). cbv zeta in Hd, Hmo, Hy, Hmk.
  destruct (gm_date_day T ltac:(lia)) as (E1 & E2 & E3). fold day in E1, E2, E3.
  rewrite <- E1 in Hd, Hmk. rewrite <- E2 in Hmo, Hmk. rewrite <- E3 in Hy, Hmk.
  assert (Hsec : 0 <= gm_sec T < 60) by (unfold gm_sec; apply Z.mod_pos_bound; lia).
  assert (Hmin : 0 <= gm_min T < 60) by (unfold gm_min; apply Z.mod_pos_bound; lia).
  assert (Hhour : 0 <= gm_hour T < 24) by (unfold gm_hour; apply Z.mod_pos_bound; lia).
  assert (Hms : 0 <= t mod 1000 < 1000) by (apply Z.mod_pos_bound; lia).
  pose proof (get_set_fields l (t mod 1000) (gm_sec T) (gm_min T) (gm_hour T) (gm_mday T) (gm_mon T) (gm_year T)
                Hl Hms Hsec Hmin Hhour Hd Hmo Hy) as G. cbv zeta in G.
  injection G as G0 G1 G2 G3 G4 G5 G6.
  unfold c_CP56Time2a_toMsTimestamp. cbv zeta.
  rewrite G0, G1, G2, G3, G4, G5, G6.
  replace (gm_mon T + 1 - 1) with (gm_mon T) by lia.
  replace (gm_year T - 100 + 100) with (gm_year T) by lia.
  rewrite mktime_linear, Hmk.
  assert (HTT : day * 86400 + gm_hour T * 3600 + gm_min T * 60 + gm_sec T = T).
  { unfold day, gm_hour, gm_min, gm_sec. lia. }
  rewrite HTT. unfold u64. change (1000 mod 18446744073709551616) with 1000.
  rewrite (Z.mod_small T) by lia. rewrite (Z.mod_small (T * 1000)) by lia.
  rewrite (Z.mod_small (t mod 1000)) by lia. rewrite Z.mod_small by lia.
  unfold T. lia.
Qed.

(* non-vacuity: the hypotheses are met by ordinary inputs, and the result is not a constant *)
Example time_roundtrip_example :
  rec_ok 7 [9; 9; 9; 9; 9; 9; 9] /\ T2000 <= 1700000123456 < T2100 /\
  c_CP56Time2a_setFromMsTimestamp [9; 9; 9; 9; 9; 9; 9] 1700000123456 = [160; 91; 15; 22; 14; 11; 23].
Proof. repeat split; vm_compute; congruence. Qed.
