(* C15, history level: "a retransmission after an acknowledgement timeout repeats the identical frame".
   Along EVERY sequence of received frames, state-machine runs at any clock values and application calls (send, class request,
   link test -- at any time, also while a frame waits for its confirmation), every frame a primary writes while it stays inside an
   exchange (SEND/CONFIRM or REQUEST/RESPOND) is octet for octet the frame that opened the exchange.
   Unbalanced primary: needs the repaired code (variants fg: what is outstanding decides, fc_: a request is repeated with its own
   function code).  Balanced primary: variant fg. *)
From Coq Require Import ZArith List Bool Lia.
From L60870 Require Import Link.Ft12 Link.LinkSec Link.LinkPrim Link.LinkProofs Link.LinkHist Link.LinkOnce.
Import ListNotations.
Local Open Scope Z_scope.

(* ================================================================== unbalanced primary, one slave connection *)
Definition in_exchange (ps : Z) : bool := (ps =? PLL_SEND_CONFIRM) || (ps =? PLL_REQUEST_RESPOND).

(* (what was written, what opened the exchange) for every frame written by a run step that stays inside an exchange *)
Fixpoint rep_trace (v : variant) (c : llcfg) (s : sc) (last : list out) (evs : list uev) : list (list out * list out) :=
  match evs with
  | [] => []
  | e :: r =>
      let '(s', o) := u_step v c s e in
      match e with
      | URun _ =>
          if sc_ps s =? PLL_AVAILABLE then rep_trace v c s' (if in_exchange (sc_ps s') then o else last) r
          else if in_exchange (sc_ps s) && (sc_ps s' =? sc_ps s) then
            match o with
            | [] => rep_trace v c s' last r
            | _ => (o, last) :: rep_trace v c s' last r
            end
          else rep_trace v c s' last r
      | _ => rep_trace v c s' last r
      end
  end.

Definition ud_frame (c : llcfg) (s : sc) : list out :=
  tx_opt (enc_var (alen c) 3 (sc_addr s) true false (negb (sc_nfcb s)) true (sc_msg s)).
Definition rq_frame (c : llcfg) (s : sc) : list out :=
  [OTx (enc_fixed (alen c) (sc_lastfc s) (sc_addr s) true false (negb (sc_nfcb s)) true)].

Definition rgood (c : llcfg) (s : sc) (last : list out) : Prop :=
  (sc_ps s = PLL_SEND_CONFIRM -> sc_has s = true /\ last = ud_frame c s) /\
  (sc_ps s = PLL_REQUEST_RESPOND -> last = rq_frame c s).

Ltac r_simpl := cbn [fst snd sc_ps sc_nfcb sc_ls sc_has sc_msg sc_addr sc_lastfc sc_mk sc_with_ps sc_with_wait sc_with_r sc_with_lastsend
                     sc_with_msg sc_with_test andb orb negb Z.eqb Pos.eqb]; cbv beta iota.
Ltac r_consts := unfold PLL_AVAILABLE, PLL_IDLE, PLL_REQ_STATUS, PLL_RESET, PLL_SEND_CONFIRM, PLL_BUSY, PLL_REQUEST_RESPOND, PLL_TIMEOUT in *.
Ltac r_leaf := unfold rgood, ud_frame, rq_frame; r_simpl; to_prop2; r_consts;
  repeat match goal with H : _ /\ _ |- _ => destruct H end;
  repeat split; intros;
  repeat match goal with
         | H : ?a = ?a -> _ |- _ => specialize (H eq_refl)
         | H : _ /\ _ |- _ => destruct H
         end;
  try reflexivity; try discriminate; try congruence; try lia;
  try (rewrite negb_involutive; reflexivity); try assumption.

(* states outside an exchange put no constraint on [last]; handling a frame never enters an exchange and never changes what the
   exchange frame is made of *)
Lemma sc_handle_rgood : forall v c now s fc acd dfc address msg uds udl last, rgood c s last ->
  rgood c (fst (sc_handle v c now s fc acd dfc address msg uds udl)) last.
Proof.
  intros v c now s fc acd dfc address msg uds udl last [G1 G2].
  unfold sc_handle, sc_set_state. r_consts.
  destruct (sc_ps s =? 4) eqn:P4; [apply Z.eqb_eq in P4; destruct (G1 P4) as [Gh Gl]; clear G1 G2; rewrite P4 |
    destruct (sc_ps s =? 5) eqn:P5; [apply Z.eqb_eq in P5; pose proof (G2 P5) as Gl; clear G1 G2; rewrite P5 | clear G1 G2]];
  destruct dfc; destruct acd; r_simpl; repeat (hstep; r_simpl); r_leaf.
Qed.

Lemma sc_run_rgood : forall v c now s last, fg v = true -> fc_ v = true -> rgood c s last ->
  let '(s', o) := sc_run v c now s in
  rgood c s' (if sc_ps s =? PLL_AVAILABLE then (if in_exchange (sc_ps s') then o else last) else last) /\
  (in_exchange (sc_ps s) = true -> sc_ps s' = sc_ps s -> o <> [] -> o = last).
Proof.
  intros v c now s last Hg Hc [G1 G2]. unfold sc_run, sc_set_state, clamp, in_exchange. rewrite Hg, Hc. r_consts.
  destruct (sc_ps s =? 4) eqn:P4; [apply Z.eqb_eq in P4; destruct (G1 P4) as [Gh Gl]; clear G1 G2; rewrite P4 |
    destruct (sc_ps s =? 5) eqn:P5; [apply Z.eqb_eq in P5; pose proof (G2 P5) as Gl; clear G1 G2; rewrite P5 | clear G1 G2]];
  r_simpl; repeat (hstep; r_simpl); split; try r_leaf; intros; try r_leaf;
  try (exfalso; to_prop2; r_consts; lia); try (exfalso; congruence);
  try (rewrite Gl; unfold ud_frame, rq_frame; reflexivity).
Qed.

Lemma u_app_rgood : forall v c s e last, rgood c s last -> (forall now, e <> URun now) ->
  rgood c (fst (u_step v c s e)) last.
Proof.
  intros v c s e last G Hn. destruct e as [now fc acd dfc address msg uds udl | now | d | cls1 | ]; cbn [u_step].
  - apply sc_handle_rgood; exact G.
  - exfalso; apply (Hn now); reflexivity.
  - destruct (sc_has s) eqn:Hh; cbn [fst]; [exact G|]. destruct G as [G1 G2].
    unfold rgood, ud_frame, rq_frame. r_simpl. split; intros P.
    + destruct (G1 P) as [Gh _]. congruence.
    + apply G2; exact P.
  - destruct G as [G1 G2]. destruct cls1; cbn [fst]; unfold rgood, ud_frame, rq_frame in *; r_simpl; split; assumption.
  - destruct G as [G1 G2]. cbn [fst]. unfold rgood, ud_frame, rq_frame in *. r_simpl. split; assumption.
Qed.

Theorem sc_retransmissions_identical : forall v c evs s last, fg v = true -> fc_ v = true -> rgood c s last ->
  Forall (fun p => fst p = snd p) (rep_trace v c s last evs).
Proof.
  intros v c evs. induction evs as [|e r IH]; intros s last Hg Hc G; cbn [rep_trace]; [constructor|].
  destruct e as [now fc acd dfc address msg uds udl | now | d | cls1 | ].
  - pose proof (sc_handle_rgood v c now s fc acd dfc address msg uds udl last G) as G'. cbn [u_step].
    destruct (sc_handle v c now s fc acd dfc address msg uds udl) as [s' o]. apply IH; assumption.
  - cbn [u_step]. pose proof (sc_run_rgood v c now s last Hg Hc G) as R. destruct (sc_run v c now s) as [s' o]. destruct R as [G' Rp].
    destruct (sc_ps s =? PLL_AVAILABLE) eqn:A.
    + apply IH; assumption.
    + destruct (in_exchange (sc_ps s) && (sc_ps s' =? sc_ps s)) eqn:X.
      * apply andb_true_iff in X. destruct X as [X1 X2]. apply Z.eqb_eq in X2.
        destruct o as [|x o']; [apply IH; assumption|].
        constructor; [cbn [fst snd]; apply Rp; [exact X1 | exact X2 | discriminate] | apply IH; assumption].
      * apply IH; assumption.
  - pose proof (u_app_rgood v c s (USend d) last G ltac:(intros; discriminate)) as G'. cbn [u_step] in *.
    destruct (if sc_has s then s else sc_with_msg s true d) eqn:E; apply IH; assumption.
  - pose proof (u_app_rgood v c s (UReq cls1) last G ltac:(intros; discriminate)) as G'. cbn [u_step] in *. apply IH; assumption.
  - pose proof (u_app_rgood v c s UTest last G ltac:(intros; discriminate)) as G'. cbn [u_step] in *. apply IH; assumption.
Qed.

Corollary sc_retransmissions_identical_from_power_up : forall v c a evs, fg v = true -> fc_ v = true ->
  Forall (fun p => fst p = snd p) (rep_trace v c (sc_init a) [] evs).
Proof.
  intros. apply sc_retransmissions_identical; try assumption. unfold rgood, sc_init. cbn [sc_ps]. unfold PLL_IDLE, PLL_SEND_CONFIRM, PLL_REQUEST_RESPOND.
  split; intros; discriminate.
Qed.

(* the original code: send, link test requested while the frame waits, acknowledgement lost, timeout: a test frame is written *)
Theorem sc_retransmissions_identical_refuted : exists v c s evs,
  fg v = false /\ rgood c s [] /\ exists o l, In (o, l) (rep_trace v c s [] evs) /\ o <> l.
Proof.
  exists {| fa := true; fb := true; fc_ := true; fd := true; fe := true; ff := true; fg := false; fh := false; fi := false |},
         {| alen := 1; single_ack := false; t_ack := 200; t_rep := 1000; t_ls := 5000 |},
         (sc_mk (sc_init 1) LS_AVAILABLE PLL_AVAILABLE false [] 1000 1000 false false false false true 11),
         [USend [45; 1; 6; 0; 1; 0; 7; 0]; URun 1000; UTest; URun 1300].
  split; [reflexivity|]. split.
  - unfold rgood. cbn [sc_ps sc_mk]. unfold PLL_AVAILABLE, PLL_SEND_CONFIRM, PLL_REQUEST_RESPOND. split; intros; discriminate.
  - eexists. eexists. split; [vm_compute; left; reflexivity | discriminate].
Qed.

(* ================================================================== balanced primary *)
Inductive bev := BMsg (now fc : Z) (dfc : bool) | BRun (now : Z) (q : list (list Z)) | BTest.   (* BTest: LinkLayerBalanced_sendLinkLayerTestFunction *)

Definition b_step (v : variant) (c : llcfg) (dir : bool) (p : pb) (e : bev) : pb * list out :=
  match e with
  | BMsg now fc dfc => pb_handle v c now dir p fc dfc
  | BRun now q => let '(p', _, o) := pb_run v c now dir p q in (p', o)
  | BTest => (pb_with_test p true, [])
  end.

Fixpoint brep_trace (v : variant) (c : llcfg) (dir : bool) (p : pb) (last : list out) (evs : list bev) : list (list out * list out) :=
  match evs with
  | [] => []
  | e :: r =>
      let '(p', o) := b_step v c dir p e in
      match e with
      | BRun _ _ =>
          if pb_ps p =? PLL_AVAILABLE then brep_trace v c dir p' (if pb_ps p' =? PLL_SEND_CONFIRM then o else last) r
          else if (pb_ps p =? PLL_SEND_CONFIRM) && (pb_ps p' =? PLL_SEND_CONFIRM) then
            match o with
            | [] => brep_trace v c dir p' last r
            | _ => (o, last) :: brep_trace v c dir p' last r
            end
          else brep_trace v c dir p' last r
      | _ => brep_trace v c dir p' last r
      end
  end.

Definition b_frame (c : llcfg) (dir : bool) (p : pb) : list out :=
  if pb_tout p then [OTx (enc_fixed (alen c) 2 (pb_other p) true dir (negb (pb_nfcb p)) true)]
  else tx_opt (enc_var (alen c) 3 (pb_other p) true dir (negb (pb_nfcb p)) true (pb_last p)).

Definition bgood (c : llcfg) (dir : bool) (p : pb) (last : list out) : Prop :=
  pb_ps p = PLL_SEND_CONFIRM -> last = b_frame c dir p.

Ltac b_simpl := cbn [fst snd pb_ps pb_nfcb pb_ls pb_last pb_other pb_tout pb_test pb_upd pb_with_ps pb_with_wait pb_with_test pb_with_lastrx pb_with_tout
                     andb orb negb Z.eqb Pos.eqb]; cbv beta iota.
Ltac b_leaf := unfold bgood, b_frame; b_simpl; to_prop2; r_consts; intros;
  repeat match goal with H : ?a = ?a -> _ |- _ => specialize (H eq_refl) end;
  try reflexivity; try discriminate; try congruence; try lia; try (rewrite negb_involutive; reflexivity); try assumption.

Lemma pb_handle_bgood : forall v c now dir p fc dfc last, bgood c dir p last -> bgood c dir (fst (pb_handle v c now dir p fc dfc)) last.
Proof.
  intros v c now dir p fc dfc last G. unfold pb_handle, pb_set_state. cbn [pb_with_lastrx pb_ps pb_ls]. r_consts.
  destruct (pb_ps p =? 4) eqn:P4; [apply Z.eqb_eq in P4; pose proof (G P4) as Gl; clear G; rewrite P4 | clear G];
  destruct dfc; b_simpl; repeat (hstep; b_simpl); b_leaf.
Qed.

Lemma pb_run_bgood : forall v c now dir p q last, fg v = true -> bgood c dir p last ->
  let '(p', _, o) := pb_run v c now dir p q in
  bgood c dir p' (if pb_ps p =? PLL_AVAILABLE then (if pb_ps p' =? PLL_SEND_CONFIRM then o else last) else last) /\
  (pb_ps p = PLL_SEND_CONFIRM -> pb_ps p' = PLL_SEND_CONFIRM -> o <> [] -> o = last).
Proof.
  intros v c now dir p q last Hg G. unfold pb_run, pb_set_state, clamp. rewrite Hg. r_consts.
  destruct (pb_ps p =? 4) eqn:P4; [apply Z.eqb_eq in P4; pose proof (G P4) as Gl; clear G; rewrite P4 | clear G];
  b_simpl; repeat (hstep; b_simpl); split; try b_leaf; intros; try b_leaf;
  try (exfalso; to_prop2; r_consts; lia); try (exfalso; congruence);
  try (rewrite Gl; unfold b_frame; repeat match goal with H : pb_tout _ = _ |- _ => rewrite H end; reflexivity).
Qed.

Theorem pb_retransmissions_identical : forall v c dir evs p last, fg v = true -> bgood c dir p last ->
  Forall (fun x => fst x = snd x) (brep_trace v c dir p last evs).
Proof.
  intros v c dir evs. induction evs as [|e r IH]; intros p last Hg G; cbn [brep_trace]; [constructor|].
  destruct e as [now fc dfc | now q | ].
  - pose proof (pb_handle_bgood v c now dir p fc dfc last G) as G'. cbn [b_step].
    destruct (pb_handle v c now dir p fc dfc) as [p' o]. apply IH; assumption.
  - cbn [b_step]. pose proof (pb_run_bgood v c now dir p q last Hg G) as R. destruct (pb_run v c now dir p q) as [[p' q'] o]. destruct R as [G' Rp].
    destruct (pb_ps p =? PLL_AVAILABLE) eqn:A.
    + apply IH; assumption.
    + destruct ((pb_ps p =? PLL_SEND_CONFIRM) && (pb_ps p' =? PLL_SEND_CONFIRM)) eqn:X.
      * apply andb_true_iff in X. destruct X as [X1 X2]. apply Z.eqb_eq in X1. apply Z.eqb_eq in X2.
        destruct o as [|x o']; [apply IH; assumption|].
        constructor; [cbn [fst snd]; apply Rp; [exact X1 | exact X2 | discriminate] | apply IH; assumption].
      * apply IH; assumption.
  - cbn [b_step]. apply IH; [exact Hg|]. unfold bgood, b_frame in *. b_simpl. exact G.
Qed.

Corollary pb_retransmissions_identical_from_power_up : forall v c dir other idle evs, fg v = true ->
  Forall (fun x => fst x = snd x) (brep_trace v c dir (pb_init other idle) [] evs).
Proof.
  intros. apply pb_retransmissions_identical; [assumption|]. unfold bgood, pb_init. cbn [pb_ps]. unfold PLL_IDLE, PLL_SEND_CONFIRM. intros; discriminate.
Qed.

(* the original code: user data sent, link test requested, acknowledgement timeout: the test frame replaces the repetition *)
Theorem pb_retransmissions_identical_refuted : exists v c dir p evs,
  fg v = false /\ bgood c dir p [] /\ exists o l, In (o, l) (brep_trace v c dir p [] evs) /\ o <> l.
Proof.
  exists {| fa := true; fb := true; fc_ := true; fd := true; fe := true; ff := true; fg := false; fh := false; fi := false |},
         {| alen := 1; single_ack := false; t_ack := 200; t_rep := 1000; t_ls := 5000 |}, true,
         (pb_with_ps (pb_with_lastrx (pb_init 2 5000) 1000) PLL_AVAILABLE),
         [BRun 1000 [[45; 1; 6; 0; 1; 0; 7; 0]]; BTest; BRun 1300 []].
  split; [reflexivity|]. split.
  - unfold bgood. cbn [pb_ps pb_with_ps pb_upd]. unfold PLL_AVAILABLE, PLL_SEND_CONFIRM. intros; discriminate.
  - eexists. eexists. split; [vm_compute; left; reflexivity | discriminate].
Qed.
