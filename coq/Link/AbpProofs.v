(* C16 proofs: the stop-and-wait transfer with a frame count bit and an unnumbered acknowledgement
   delivers the sent stream in order, exactly once, for ALL interleavings of send / loss / receive /
   acknowledge / timeout events. *)
From Coq Require Import ZArith List Bool Lia.
From L60870 Require Import Link.Abp.
Import ListNotations.

Section AbpProofs.
Variable msg : Type.

Notation st := (abp msg).

(* inductive invariant; the bit of the outstanding frame is negb (sb s) *)
Definition AInv (s : st) : Prop :=
  match out msg s with
  | None =>
      ch_sr msg s = None /\ ch_rs msg s = false /\ re msg s = sb msg s /\
      delivered msg s = taken msg s
  | Some m =>
      exists pre, taken msg s = pre ++ [m] /\
        (ch_sr msg s = None \/ ch_sr msg s = Some (negb (sb msg s), m)) /\
        (ch_sr msg s = None \/ ch_rs msg s = false) /\
        ((re msg s = negb (sb msg s) /\ delivered msg s = pre /\ ch_rs msg s = false) \/
         (re msg s = sb msg s /\ delivered msg s = pre ++ [m]))
  end.

Lemma AInv_init : forall todo, AInv (abp_init msg todo).
Proof. intros todo. unfold AInv. cbn. repeat split; reflexivity. Qed.

Lemma AInv_step : forall s e, AInv s -> AInv (abp_step msg s e).
Proof.
  intros [q b o c a r d t] e. unfold AInv. cbn [out ch_sr ch_rs re sb delivered taken inq].
  intros H. destruct e; cbn [abp_step out ch_sr ch_rs re sb delivered taken inq].
  - (* ESend *)
    destruct o as [m|].
    + cbn [out ch_sr ch_rs re sb delivered taken]. exact H.
    + destruct q as [|m rest]; cbn [out ch_sr ch_rs re sb delivered taken]; [exact H|].
      destruct H as (Hc & Ha & Hr & Hd). subst. exists t.
      rewrite negb_involutive. split; [reflexivity|]. split; [right; reflexivity|].
      split; [right; reflexivity|]. left. destruct b; repeat split; reflexivity.
  - (* ELoseData *)
    destruct o as [m|].
    + destruct H as (pre & Ht & _ & _ & Hd). exists pre. split; [exact Ht|].
      split; [left; reflexivity|]. split; [left; reflexivity|]. exact Hd.
    + destruct H as (_ & Ha & Hr & Hd). repeat split; assumption.
  - (* ELoseAck *)
    destruct o as [m|].
    + destruct H as (pre & Ht & Hc & _ & Hd). exists pre. split; [exact Ht|].
      split; [exact Hc|]. split; [right; reflexivity|].
      destruct Hd as [(Hr & Hd & _)|Hd]; [left; repeat split; assumption|right; exact Hd].
    + destruct H as (Hc & _ & Hr & Hd). repeat split; assumption.
  - (* ERecv *)
    destruct o as [m|].
    + destruct H as (pre & Ht & Hc & Hx & Hd).
      destruct c as [[b' m']|]; cbn [out ch_sr ch_rs re sb delivered taken].
      * destruct Hc as [Hc|Hc]; [discriminate|]. injection Hc as Hb Hm. subst b' m'.
        destruct (Bool.eqb (negb b) r) eqn:E; cbn [out ch_sr ch_rs re sb delivered taken].
        -- apply eqb_prop in E. subst r. exists pre. split; [exact Ht|].
           split; [left; reflexivity|]. split; [left; reflexivity|]. right.
           destruct Hd as [(_ & Hd & _)|(Hr & _)].
           ++ subst d. rewrite negb_involutive. split; reflexivity.
           ++ destruct b; discriminate.
        -- apply eqb_false_iff in E. exists pre. split; [exact Ht|].
           split; [left; reflexivity|]. split; [left; reflexivity|]. right.
           destruct Hd as [(Hr & _ & _)|Hd]; [congruence|exact Hd].
      * exists pre. repeat split; assumption.
    + destruct H as (Hc & Ha & Hr & Hd). subst c. cbn [out ch_sr ch_rs re sb delivered taken].
      repeat split; assumption.
  - (* EAck *)
    destruct a; cbn [out ch_sr ch_rs re sb delivered taken]; [|exact H].
    destruct o as [m|].
    + destruct H as (pre & Ht & Hc & Hx & Hd).
      destruct Hx as [Hx|Hx]; [|discriminate].
      destruct Hd as [(_ & _ & Ha)|(Hr & Hd)]; [discriminate|].
      repeat split; try assumption; try reflexivity. congruence.
    + destruct H as (_ & Ha & _). discriminate.
  - (* ETimeout *)
    destruct o as [m|]; [|cbn [out ch_sr ch_rs re sb delivered taken]; exact H].
    destruct c as [p|]; [cbn [out ch_sr ch_rs re sb delivered taken]; exact H|].
    destruct a; cbn [out ch_sr ch_rs re sb delivered taken]; [exact H|].
    destruct H as (pre & Ht & _ & _ & Hd). exists pre. split; [exact Ht|].
    split; [right; reflexivity|]. split; [right; reflexivity|]. exact Hd.
Qed.

Lemma AInv_run : forall evs s, AInv s -> AInv (abp_run msg s evs).
Proof.
  induction evs as [|e evs IH]; intros s H; cbn [abp_run]; [exact H|].
  apply IH, AInv_step, H.
Qed.

(* what the invariant says about delivered vs. taken *)
Lemma AInv_exactly_once : forall s, AInv s ->
  delivered msg s = taken msg s \/
  exists m, taken msg s = delivered msg s ++ [m] /\ out msg s = Some m.
Proof.
  intros s H. unfold AInv in H. destruct (out msg s) as [m|].
  - destruct H as (pre & Ht & _ & _ & [(_ & Hd & _)|(_ & Hd)]).
    + right. exists m. subst pre. split; [exact Ht|reflexivity].
    + left. congruence.
  - left. apply H.
Qed.

Theorem abp_exactly_once : forall todo evs,
  let s := abp_run msg (abp_init msg todo) evs in
  (delivered msg s = taken msg s \/
   exists m, taken msg s = delivered msg s ++ [m] /\ out msg s = Some m).
Proof. intros todo evs s. apply AInv_exactly_once, AInv_run, AInv_init. Qed.

Theorem abp_confirmed_delivered : forall todo evs,
  let s := abp_run msg (abp_init msg todo) evs in
  out msg s = None -> delivered msg s = taken msg s.
Proof.
  intros todo evs s Ho.
  assert (H : AInv s) by apply AInv_run, AInv_init.
  unfold AInv in H. rewrite Ho in H. apply H.
Qed.

(* the sender takes messages in the order given *)
Lemma taken_step : forall todo s e,
  todo = taken msg s ++ inq msg s ->
  todo = taken msg (abp_step msg s e) ++ inq msg (abp_step msg s e).
Proof.
  intros todo [q b o c a r d t] e. cbn [taken inq]. intros H.
  destruct e; cbn [abp_step out ch_sr ch_rs inq re taken]; try exact H.
  - destruct o; [exact H|]. destruct q as [|m rest]; cbn [taken inq]; [exact H|].
    rewrite <- app_assoc. exact H.
  - destruct c as [[b' m']|]; [|exact H]. destruct (Bool.eqb b' r); exact H.
  - destruct a; exact H.
  - destruct o; [|exact H]. destruct c; [exact H|]. destruct a; exact H.
Qed.

Lemma taken_run : forall todo evs s,
  todo = taken msg s ++ inq msg s ->
  todo = taken msg (abp_run msg s evs) ++ inq msg (abp_run msg s evs).
Proof.
  intros todo. induction evs as [|e evs IH]; intros s H; cbn [abp_run]; [exact H|].
  apply IH, taken_step, H.
Qed.

Theorem abp_taken_prefix : forall todo evs,
  let s := abp_run msg (abp_init msg todo) evs in
  todo = taken msg s ++ inq msg s.
Proof. intros todo evs s. apply taken_run. reflexivity. Qed.

Lemma NoDup_app_l : forall (a b : list msg), NoDup (a ++ b) -> NoDup a.
Proof.
  induction a as [|x a IH]; intros b H; [constructor|].
  cbn [app] in H. inversion H as [|y l Hn Hd]; subst. constructor.
  - intro Hin. apply Hn, in_or_app. left. exact Hin.
  - apply IH with b. exact Hd.
Qed.

Theorem abp_no_dup : forall todo evs,
  NoDup todo -> NoDup (delivered msg (abp_run msg (abp_init msg todo) evs)).
Proof.
  intros todo evs Hnd.
  pose proof (abp_taken_prefix todo evs) as Hp. cbv zeta in Hp.
  pose proof (abp_exactly_once todo evs) as He. cbv zeta in He.
  rewrite Hp in Hnd. apply NoDup_app_l in Hnd.
  destruct He as [He|(m & He & _)].
  - rewrite He. exact Hnd.
  - rewrite He in Hnd. apply NoDup_app_l in Hnd. exact Hnd.
Qed.

(* non-vacuity / liveness on the loss-free path *)
Theorem abp_progress : forall s m rest,
  AInv s -> out msg s = None -> inq msg s = m :: rest ->
  let s' := abp_run msg s [ESend; ERecv; EAck] in
  delivered msg s' = delivered msg s ++ [m] /\ out msg s' = None /\ inq msg s' = rest.
Proof.
  intros [q b o c a r d t] m rest H Ho Hq. unfold AInv in H.
  cbn [out inq ch_sr ch_rs re sb delivered taken] in *. subst o q.
  destruct H as (Hc & Ha & Hr & Hd). subst c a r.
  cbn [abp_run abp_step out inq ch_sr ch_rs re sb delivered taken].
  rewrite eqb_reflx. cbn [out inq ch_sr ch_rs re sb delivered taken].
  repeat split; reflexivity.
Qed.

(* the data frame is lost once, then the acknowledgement is lost once *)
Theorem abp_progress_after_loss : forall s m rest,
  AInv s -> out msg s = None -> inq msg s = m :: rest ->
  let s' := abp_run msg s [ESend; ELoseData; ETimeout; ERecv; ELoseAck; ETimeout; ERecv; EAck] in
  delivered msg s' = delivered msg s ++ [m] /\ out msg s' = None /\ inq msg s' = rest.
Proof.
  intros [q b o c a r d t] m rest H Ho Hq. unfold AInv in H.
  cbn [out inq ch_sr ch_rs re sb delivered taken] in *. subst o q.
  destruct H as (Hc & Ha & Hr & Hd). subst c a r.
  destruct b; cbn; repeat split; reflexivity.
Qed.

End AbpProofs.

(* concrete run: three messages, data and acknowledgement losses, repetitions, a duplicate *)
Example abp_example :
  delivered nat
    (abp_run nat (abp_init nat [1; 2; 3])
       [ESend; ELoseData; ETimeout; ERecv; EAck;
        ESend; ERecv; ELoseAck; ETimeout; ERecv; EAck;
        ESend; ELoseData; ETimeout; ELoseData; ETimeout; ERecv; ELoseAck; ETimeout; ERecv; EAck])
  = [1; 2; 3].
Proof. vm_compute; reflexivity. Qed.

