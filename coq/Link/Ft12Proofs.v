(* C14: proofs about the FT 1.2 codec, the transceiver's delimiting and the two header parsers. *)
From Coq Require Import ZArith List Bool Lia.
From L60870 Require Import Link.Ft12.
Import ListNotations.
Local Open Scope Z_scope.

(* ------------------------------------------------------------------ checksum = sum mod 256 *)
Lemma cs8_acc : forall l a, fold_left (fun a b => (a + b) mod 256) l (a mod 256) = (a + sumz l) mod 256.
Proof.
  induction l as [|x t IH]; intros a; cbn [fold_left sumz fold_right].
  - rewrite Z.add_0_r. reflexivity.
  - rewrite (IH (a mod 256 + x)). fold (sumz t). rewrite <- Z.add_assoc, Zplus_mod_idemp_l. reflexivity.
Qed.

Lemma cs8_spec : forall l, cs8 l = sumz l mod 256.
Proof. intros l. unfold cs8. change 0 with (0 mod 256) at 1. rewrite cs8_acc. reflexivity. Qed.

Lemma sumz_app : forall a b, sumz (a ++ b) = sumz a + sumz b.
Proof. induction a as [|x a IH]; intros b; unfold sumz in *; cbn [app fold_right]; [lia | rewrite IH; lia]. Qed.

Lemma lenz_app : forall a b, lenz (a ++ b) = lenz a + lenz b.
Proof. intros. unfold lenz. rewrite app_length. lia. Qed.
Lemma lenz_cons : forall x a, lenz (x :: a) = 1 + lenz a.
Proof. intros. unfold lenz. cbn [length]. lia. Qed.
Lemma lenz_nil : lenz [] = 0.
Proof. reflexivity. Qed.
Ltac lz := cbn [app]; repeat (rewrite lenz_cons || rewrite lenz_app || rewrite lenz_nil).
Lemma lenz_nonneg : forall a, 0 <= lenz a.
Proof. intros. unfold lenz. lia. Qed.

(* ------------------------------------------------------------------ the encoders produce well-formed frames *)
Lemma ctrl_byte : forall fc prm dir acd dfc, is_byte (ctrl fc prm dir acd dfc).
Proof.
  intros. unfold ctrl, is_byte. pose proof (Z.mod_pos_bound fc 16 ltac:(lia)).
  destruct prm, dir, acd, dfc; lia.
Qed.

Lemma addr_octets_ok : forall alen address, 0 <= alen <= 2 ->
  Forall is_byte (addr_octets alen address) /\ lenz (addr_octets alen address) = alen.
Proof.
  intros alen address H. unfold addr_octets, is_byte.
  pose proof (Z.mod_pos_bound address 256 ltac:(lia)). pose proof (Z.mod_pos_bound (address / 256) 256 ltac:(lia)).
  assert (alen = 0 \/ alen = 1 \/ alen = 2) as [-> | [-> | ->]] by lia; cbn; repeat constructor; lia.
Qed.

Theorem enc_fixed_wf : forall alen fc address prm dir acd dfc, 0 <= alen <= 2 ->
  wf_frame alen (enc_fixed alen fc address prm dir acd dfc) /\
  lenz (enc_fixed alen fc address prm dir acd dfc) = 4 + alen.
Proof.
  intros alen fc address prm dir acd dfc H. unfold enc_fixed. cbv zeta.
  destruct (addr_octets_ok alen address H) as [Hb Hl].
  rewrite cs8_spec. cbn [sumz fold_right]. fold (sumz (addr_octets alen address)).
  split.
  - apply (wf_fixed alen (ctrl fc prm dir acd dfc) (addr_octets alen address)); [apply ctrl_byte | exact Hb | exact Hl].
  - lz. lia.
Qed.

Theorem enc_var_wf : forall alen fc address prm dir acd dfc data f, 0 <= alen <= 2 ->
  enc_var alen fc address prm dir acd dfc data = Some f ->
  wf_frame alen f /\ lenz f = lenz data + alen + 7 /\ lenz f <= 261 /\
  nthz f 1 = 1 + alen + lenz data /\ nthz f 2 = 1 + alen + lenz data.
Proof.
  intros alen fc address prm dir acd dfc data f H E. unfold enc_var in E. cbv zeta in E.
  destruct (1 + alen + lenz data >? 255) eqn:L; [discriminate|]. rewrite Z.gtb_ltb in L. apply Z.ltb_ge in L.
  destruct (addr_octets_ok alen address H) as [Hb Hl].
  set (c := ctrl fc prm dir acd dfc) in *. set (a := addr_octets alen address) in *. set (l := 1 + alen + lenz data) in *.
  assert (Ef : f = [104; l; l; 104] ++ (c :: a ++ data) ++ [cs8 (c :: a ++ data); 22]) by congruence.
  rewrite Ef. clear E Ef.
  assert (CS : cs8 (c :: a ++ data) = (c + sumz a + sumz data) mod 256).
  { rewrite cs8_spec. change (sumz (c :: a ++ data)) with (c + sumz (a ++ data)). rewrite sumz_app. f_equal. lia. }
  rewrite CS.
  assert (Eq : [104; l; l; 104] ++ (c :: a ++ data) ++ [(c + sumz a + sumz data) mod 256; 22] =
               [104; l; l; 104; c] ++ a ++ data ++ [(c + sumz a + sumz data) mod 256; 22]).
  { change ([104; l; l; 104] ++ (c :: a ++ data) ++ [(c + sumz a + sumz data) mod 256; 22])
      with ([104; l; l; 104; c] ++ (a ++ data) ++ [(c + sumz a + sumz data) mod 256; 22]).
    rewrite <- app_assoc. reflexivity. }
  rewrite Eq.
  split; [|split; [|split; [|split]]].
  - apply (wf_var alen c a data); [apply ctrl_byte | exact Hb | exact Hl | exact L].
  - change ([104; l; l; 104; c] ++ a ++ data ++ [(c + sumz a + sumz data) mod 256; 22])
      with (104 :: l :: l :: 104 :: c :: (a ++ data ++ [(c + sumz a + sumz data) mod 256; 22])).
    rewrite !lenz_cons, !lenz_app, !lenz_cons. change (lenz []) with 0. lia.
  - change ([104; l; l; 104; c] ++ a ++ data ++ [(c + sumz a + sumz data) mod 256; 22])
      with (104 :: l :: l :: 104 :: c :: (a ++ data ++ [(c + sumz a + sumz data) mod 256; 22])).
    rewrite !lenz_cons, !lenz_app, !lenz_cons. change (lenz []) with 0. lia.
  - reflexivity.
  - reflexivity.
Qed.

Theorem enc_var_none : forall alen fc address prm dir acd dfc data,
  enc_var alen fc address prm dir acd dfc data = None <-> 255 < 1 + alen + lenz data.
Proof.
  intros. unfold enc_var. cbv zeta. destruct (1 + alen + lenz data >? 255) eqn:L.
  - apply Z.gtb_lt in L. split; [lia | reflexivity].
  - rewrite Z.gtb_ltb in L. apply Z.ltb_ge in L. split; [discriminate | lia].
Qed.

Lemma wf_frame_length : forall alen f, 0 <= alen <= 2 -> wf_frame alen f -> 1 <= lenz f <= 261.
Proof.
  intros alen f H W. destruct W.
  - unfold lenz. cbn. lia.
  - lz. lia.
  - lz. pose proof (lenz_nonneg d). lia.
Qed.

(* ------------------------------------------------------------------ the transceiver delimits exactly one well-formed frame *)
Lemma firstn_app_exact : forall (a b : list Z) n, n = length a -> firstn n (a ++ b) = a.
Proof. intros a b n ->. rewrite firstn_app, Nat.sub_diag, firstn_all. cbn. apply app_nil_r. Qed.
Lemma skipn_app_exact : forall (a b : list Z) n, n = length a -> skipn n (a ++ b) = b.
Proof. intros a b n ->. rewrite skipn_app, Nat.sub_diag, skipn_all. reflexivity. Qed.

Theorem read_next_wf : forall alen f rest, 0 <= alen <= 2 -> wf_frame alen f ->
  read_next alen (f ++ rest) = (Some f, rest).
Proof.
  intros alen f rest H W. destruct W as [ | c a Hc Ha Hl | c a d Hc Ha Hl Hle].
  - reflexivity.
  - cbn [app read_next]. change (16 =? 104) with false. change (16 =? 16) with true. cbv iota.
    unfold read_bytes.
    set (body := c :: a ++ [(c + sumz a) mod 256; 22]).
    assert (Hn : Z.to_nat (3 + alen) = length body).
    { unfold body. cbn [length]. rewrite app_length. cbn [length]. unfold lenz in Hl. lia. }
    change (c :: (a ++ [(c + sumz a) mod 256; 22]) ++ rest) with (body ++ rest).
    rewrite (firstn_app_exact body rest _ Hn), (skipn_app_exact body rest _ Hn).
    assert (E : lenz body =? 3 + alen = true) by (apply Z.eqb_eq; unfold lenz in *; lia).
    rewrite E. reflexivity.
  - cbn [app read_next]. change (104 =? 104) with true. cbv iota.
    set (l := 1 + alen + lenz d).
    set (body := l :: 104 :: c :: a ++ d ++ [(c + sumz a + sumz d) mod 256; 22]).
    unfold read_bytes.
    assert (Hn : Z.to_nat (l + 4) = length body).
    { unfold body, l. cbn [length]. rewrite !app_length. cbn [length]. unfold lenz in *. lia. }
    replace (l :: 104 :: c :: (a ++ d ++ [(c + sumz a + sumz d) mod 256; 22]) ++ rest) with (body ++ rest)
      by (unfold body; cbn [app]; rewrite <- !app_assoc; reflexivity).
    rewrite (firstn_app_exact body rest _ Hn), (skipn_app_exact body rest _ Hn).
    assert (E : lenz body =? l + 4 = true) by (apply Z.eqb_eq; pose proof (lenz_nonneg d); unfold l in *; unfold lenz in *; lia).
    rewrite E. reflexivity.
Qed.

(* whatever the transceiver hands on has one of the three shapes and the announced size *)
Theorem read_next_shape : forall alen rx m rest, read_next alen rx = (Some m, rest) ->
  m = [229] \/ (nthz m 0 = 16 /\ lenz m = 4 + alen) \/ (nthz m 0 = 104 /\ lenz m = nthz m 1 + 6).
Proof.
  intros alen rx m rest E. destruct rx as [|b r]; [discriminate|]. cbn [read_next] in E.
  destruct (b =? 104) eqn:B1.
  - destruct r as [|l r2]; [discriminate|]. unfold read_bytes in E.
    destruct (lenz (firstn (Z.to_nat (l + 4)) r2) =? l + 4) eqn:L; [|discriminate].
    injection E as <- _. right; right. apply Z.eqb_eq in L. split; [reflexivity|].
    assert (N : forall x y t, nthz (x :: y :: t) 1 = y) by reflexivity.
    rewrite N, !lenz_cons, L. lia.
  - destruct (b =? 16) eqn:B2.
    + unfold read_bytes in E. destruct (lenz (firstn (Z.to_nat (3 + alen)) r) =? 3 + alen) eqn:L; [|discriminate].
      assert (Em : m = 16 :: firstn (Z.to_nat (3 + alen)) r) by congruence. subst m.
      right; left. apply Z.eqb_eq in L. split; [reflexivity|]. rewrite lenz_cons, L. lia.
    + destruct (b =? 229) eqn:B3; [|discriminate]. injection E as <- _. left. reflexivity.
Qed.

(* ------------------------------------------------------------------ what the parsers accept *)
Definition su_accepts (alen own : Z) (msg : list Z) (fc : Z) (bc fcb fcv : bool) (uds udl : Z) : Prop :=
  ((rx_var_ok alen msg /\ uds = 5 + alen /\ udl = nthz msg 1 - alen - 1) \/
   (rx_fixed_ok alen msg /\ uds = 0 /\ udl = 0)) /\
  (if bc then rx_address alen msg = broadcast_addr alen /\ fc = 4 else rx_address alen msg = own) /\
  bitz (rx_ctrl msg) 64 = true /\
  fc = rx_ctrl msg mod 16 /\ fcb = bitz (rx_ctrl msg) 32 /\ fcv = bitz (rx_ctrl msg) 16.

Ltac alen_cases H := match type of H with 0 <= ?a <= 2 =>
  let E := fresh in assert (E : a = 0 \/ a = 1 \/ a = 2) by lia; destruct E as [-> | [-> | ->]] end.

(* decide the comparisons between numerals that appear once alen is 0, 1 or 2 *)
Ltac numsimp :=
  change (0 >? 0) with false in *; change (1 >? 0) with true in *; change (2 >? 0) with true in *;
  change (0 >? 1) with false in *; change (1 >? 1) with false in *; change (2 >? 1) with true in *;
  change (0 =? 0) with true in *; change (1 =? 0) with false in *; change (2 =? 0) with false in *;
  change (1 =? 1) with true in *; change (2 =? 1) with false in *; change (2 =? 2) with true in *;
  change (0 =? 1) with false in *; change (0 =? 2) with false in *; change (1 =? 2) with false in *; cbv iota in *.

(* resolve the outermost `if` of hypothesis P by deciding one atom of its condition *)
Ltac step P :=
  match type of P with
  | context [if ?b then _ else _] =>
     match b with
     | context [?x =? ?y] => let E := fresh "E" in destruct (x =? y) eqn:E
     | context [?x <? ?y] => let E := fresh "E" in destruct (x <? y) eqn:E
     | context [bitz ?x ?y] => let E := fresh "E" in destruct (bitz x y) eqn:E
     end; cbn [negb andb orb] in P; cbv beta iota in P; try discriminate P
  end.
Ltac to_prop := repeat match goal with
  | H : (_ =? _) = true |- _ => apply Z.eqb_eq in H
  | H : (_ =? _) = false |- _ => apply Z.eqb_neq in H
  | H : (_ <? _) = true |- _ => apply Z.ltb_lt in H
  | H : (_ <? _) = false |- _ => apply Z.ltb_ge in H
  end.

Ltac fin := first [assumption | reflexivity | lia
  | match goal with E : _ = nthz ?m ?k |- nthz ?m ?j = _ => replace j with k by lia; symmetry; exact E end ].

Theorem parse_su_sound : forall alen own msg fc bc fcb fcv uds udl, 0 <= alen <= 2 ->
  parse_su true alen own msg = SuOk fc bc fcb fcv uds udl ->
  su_accepts alen own msg fc bc fcb fcv uds udl.
Proof.
  intros alen own msg fc bc fcb fcv uds udl H P. unfold parse_su in P. cbv zeta in P.
  unfold su_accepts, rx_var_ok, rx_fixed_ok, rx_address, rx_ctrl, broadcast_addr.
  alen_cases H; numsimp; cbn [andb] in P; repeat step P;
    injection P as <- <- <- <- <- <-; to_prop; rewrite ?cs8_spec in *;
    (split; [first [left; repeat split; fin | right; repeat split; fin] | repeat split; fin]).
Qed.

Definition bp_accepts (alen : Z) (msg : list Z) (uds udl : Z) : Prop :=
  (rx_var_ok alen msg /\ uds = 5 + alen /\ udl = nthz msg 1 - alen - 1) \/ (rx_fixed_ok alen msg /\ uds = 0 /\ udl = 0).

Theorem parse_bp_sound : forall alen msg, 0 <= alen <= 2 ->
  match parse_bp true alen msg with
  | BpDrop => True
  | BpAck => nthz msg 0 = 229
  | BpSec fc fcb fcv uds udl =>
      bp_accepts alen msg uds udl /\ bitz (rx_ctrl msg) 64 = true /\ fc = rx_ctrl msg mod 16 /\
      fcb = bitz (rx_ctrl msg) 32 /\ fcv = bitz (rx_ctrl msg) 16
  | BpPri fc dir dfc acd address uds udl =>
      bp_accepts alen msg uds udl /\ bitz (rx_ctrl msg) 64 = false /\ fc = rx_ctrl msg mod 16 /\
      address = rx_address alen msg /\ dfc = bitz (rx_ctrl msg) 16 /\ acd = bitz (rx_ctrl msg) 32
  end.
Proof.
  intros alen msg H. destruct (parse_bp true alen msg) eqn:P; [exact I | | | ];
    unfold parse_bp in P; cbv zeta in P;
    unfold bp_accepts, rx_var_ok, rx_fixed_ok, rx_address, rx_ctrl.
  - alen_cases H; numsimp; cbn [andb] in P; repeat step P; to_prop; assumption.
  - alen_cases H; numsimp; cbn [andb] in P; repeat step P;
      injection P as <- <- <- <- <-; to_prop; rewrite ?cs8_spec in *;
      (split; [first [left; repeat split; fin | right; repeat split; fin] | repeat split; fin]).
  - alen_cases H; numsimp; cbn [andb] in P; repeat step P;
      injection P as <- <- <- <- <- <- <-; to_prop; rewrite ?cs8_spec in *;
      change (4 + 1) with 5 in *; change (4 + 2) with 6 in *; change (1 + 1) with 2 in *; change (1 + 2) with 3 in *;
      (split; [first [left; repeat split; fin | right; repeat split; fin] | repeat split; fin]).
Qed.

(* ------------------------------------------------------------------ round trip: a well-formed frame for this station is accepted, data unchanged *)
Lemma nthz_app2 : forall p x t, nthz (p ++ x :: t) (lenz p) = x.
Proof.
  intros p x t. unfold nthz, lenz. assert (E : Z.of_nat (length p) <? 0 = false) by (apply Z.ltb_ge; lia). rewrite E.
  rewrite Nat2Z.id. rewrite app_nth2 by lia. rewrite Nat.sub_diag. reflexivity.
Qed.

Lemma slice_mid : forall p m t, slice (p ++ m ++ t) (lenz p) (lenz p + lenz m) = m.
Proof.
  intros p m t. unfold slice, lenz. rewrite Nat2Z.id.
  replace (Z.to_nat (Z.of_nat (length p) + Z.of_nat (length m) - Z.of_nat (length p))) with (length m) by lia.
  rewrite (skipn_app_exact p (m ++ t) _ eq_refl). apply firstn_app_exact. reflexivity.
Qed.

Ltac Zify.zify_post_hook ::= Z.div_mod_to_equations.
Lemma ctrl_bits : forall fc dir fcb fcv, 0 <= fc < 16 ->
  let c := ctrl fc true dir fcb fcv in bitz c 64 = true /\ bitz c 32 = fcb /\ bitz c 16 = fcv /\ c mod 16 = fc.
Proof.
  intros fc dir fcb fcv H. unfold ctrl, bitz. rewrite (Z.mod_small fc 16) by lia.
  destruct dir, fcb, fcv; cbv zeta; repeat split; try (apply Z.eqb_eq; lia); try (apply Z.eqb_neq; lia); lia.
Qed.
Ltac Zify.zify_post_hook ::= idtac.

(* the address octets of a frame decode to the address they were made from *)
Definition addr_in_range (alen address : Z) : Prop := 0 <= address < (if alen =? 0 then 1 else if alen =? 1 then 256 else 65536).

Ltac gstep :=
  match goal with
  | |- context [if ?b then _ else _] =>
     match b with
     | context [?x =? ?y] => let E := fresh "G" in destruct (x =? y) eqn:E
     | context [?x <? ?y] => let E := fresh "G" in destruct (x <? y) eqn:E
     end; cbn [negb andb orb]; cbv beta iota
  end.
Ltac rt_finish :=
  repeat (rewrite ?andb_false_r;
          repeat match goal with
                 | H : slice _ _ _ = _ |- _ => rewrite H
                 | H : nthz _ _ = cs8 _ |- _ => rewrite H
                 | H : bitz _ _ = _ |- _ => rewrite H
                 | H : _ mod 16 = _ |- _ => rewrite H
                 end;
          cbn [negb andb orb]; cbv beta iota;
          try (gstep; try (exfalso; to_prop; solve [lia | congruence]))).

Theorem parse_su_roundtrip : forall ff alen own fc dir fcb fcv data f, 0 <= alen <= 2 -> 0 <= fc < 16 ->
  addr_in_range alen own -> own <> broadcast_addr alen ->
  enc_var alen fc own true dir fcb fcv data = Some f ->
  parse_su ff alen own f = SuOk fc false fcb fcv (5 + alen) (lenz data) /\ user_data f (5 + alen) (lenz data) = data.
Proof.
  intros ff alen own fc dir fcb fcv data f H Hfc Hr Hnb E.
  unfold enc_var in E. cbv zeta in E. destruct (1 + alen + lenz data >? 255) eqn:L; [discriminate|].
  set (c := ctrl fc true dir fcb fcv) in *. set (l := 1 + alen + lenz data) in *.
  pose proof (lenz_nonneg data) as Hd.
  pose proof (ctrl_bits fc dir fcb fcv Hfc) as Hc64. cbv zeta in Hc64. fold c in Hc64.
  destruct Hc64 as (C64 & C32 & C16 & Cfc).
  unfold addr_in_range, broadcast_addr in *.
  alen_cases H; numsimp; unfold addr_octets in E; numsimp.
  - (* no address field *)
    assert (Ef : f = [104; l; l; 104] ++ (c :: data) ++ [cs8 (c :: data); 22]) by (injection E; intro X; rewrite <- X; reflexivity). clear E.
    assert (own = 0) by lia. subst own.
    split.
    + unfold parse_su. cbv zeta. numsimp.
      assert (N0 : nthz f 0 = 104) by (rewrite Ef; reflexivity).
      assert (N1 : nthz f 1 = l) by (rewrite Ef; reflexivity).
      assert (N2 : nthz f 2 = l) by (rewrite Ef; reflexivity).
      assert (N4 : nthz f 4 = c) by (rewrite Ef; reflexivity).
      assert (Lf : lenz f = l + 6) by (rewrite Ef; lz; unfold l; lia).
      assert (SL : slice f 4 (5 + 0 + (l - 0 - 1)) = c :: data).
      { rewrite Ef. replace (5 + 0 + (l - 0 - 1)) with (lenz [104; l; l; 104] + lenz (c :: data)) by (lz; unfold l; lia).
        change 4 with (lenz [104; l; l; 104]). apply slice_mid. }
      assert (NC : nthz f (5 + 0 + (l - 0 - 1)) = cs8 (c :: data)).
      { rewrite Ef. rewrite app_assoc. replace (5 + 0 + (l - 0 - 1)) with (lenz ([104; l; l; 104] ++ c :: data)) by (lz; unfold l; lia).
        apply nthz_app2. }
      pose proof (eq_refl : l = 1 + 0 + lenz data) as Hl'.
      rewrite ?N0, ?N1, ?N2, ?N4, ?N5, ?N6, ?Hdec.
      rt_finish.
      f_equal; lia.
    + unfold user_data. rewrite Ef.
      change ([104; l; l; 104] ++ (c :: data) ++ [cs8 (c :: data); 22]) with ([104; l; l; 104; c] ++ data ++ [cs8 (c :: data); 22]).
      change (5 + 0) with (lenz [104; l; l; 104; c]). apply slice_mid.
  - (* one address octet *)
    rewrite (Z.mod_small own 256) in E by lia.
    assert (Ef : f = [104; l; l; 104] ++ (c :: own :: data) ++ [cs8 (c :: own :: data); 22]) by (injection E; intro X; rewrite <- X; reflexivity). clear E.
    split.
    + unfold parse_su. cbv zeta. numsimp.
      assert (N0 : nthz f 0 = 104) by (rewrite Ef; reflexivity).
      assert (N1 : nthz f 1 = l) by (rewrite Ef; reflexivity).
      assert (N2 : nthz f 2 = l) by (rewrite Ef; reflexivity).
      assert (N4 : nthz f 4 = c) by (rewrite Ef; reflexivity).
      assert (N5 : nthz f (4 + 1) = own) by (rewrite Ef; reflexivity).
      assert (Lf : lenz f = l + 6) by (rewrite Ef; lz; unfold l; lia).
      assert (SL : slice f 4 (5 + 1 + (l - 1 - 1)) = c :: own :: data).
      { rewrite Ef. replace (5 + 1 + (l - 1 - 1)) with (lenz [104; l; l; 104] + lenz (c :: own :: data)) by (lz; unfold l; lia).
        change 4 with (lenz [104; l; l; 104]). apply slice_mid. }
      assert (NC : nthz f (5 + 1 + (l - 1 - 1)) = cs8 (c :: own :: data)).
      { rewrite Ef. rewrite app_assoc. replace (5 + 1 + (l - 1 - 1)) with (lenz ([104; l; l; 104] ++ c :: own :: data)) by (lz; unfold l; lia).
        apply nthz_app2. }
      pose proof (eq_refl : l = 1 + 1 + lenz data) as Hl'.
      rewrite ?N0, ?N1, ?N2, ?N4, ?N5, ?N6, ?Hdec.
      rt_finish.
      f_equal; lia.
    + unfold user_data. rewrite Ef.
      change ([104; l; l; 104] ++ (c :: own :: data) ++ [cs8 (c :: own :: data); 22]) with ([104; l; l; 104; c; own] ++ data ++ [cs8 (c :: own :: data); 22]).
      change (5 + 1) with (lenz [104; l; l; 104; c; own]). apply slice_mid.
  - (* two address octets *)
    set (a0 := own mod 256) in *. set (a1 := (own / 256) mod 256) in *.
    assert (Hdec : a0 + a1 * 256 = own).
    { unfold a0, a1. rewrite (Z.mod_small (own / 256) 256) by (split; [apply Z.div_pos; lia | apply Z.div_lt_upper_bound; lia]).
      pose proof (Z.div_mod own 256 ltac:(lia)). lia. }
    assert (Ef : f = [104; l; l; 104] ++ (c :: a0 :: a1 :: data) ++ [cs8 (c :: a0 :: a1 :: data); 22]) by (injection E; intro X; rewrite <- X; reflexivity). clear E.
    split.
    + unfold parse_su. cbv zeta. numsimp.
      assert (N0 : nthz f 0 = 104) by (rewrite Ef; reflexivity).
      assert (N1 : nthz f 1 = l) by (rewrite Ef; reflexivity).
      assert (N2 : nthz f 2 = l) by (rewrite Ef; reflexivity).
      assert (N4 : nthz f 4 = c) by (rewrite Ef; reflexivity).
      assert (N5 : nthz f (4 + 1) = a0) by (rewrite Ef; reflexivity).
      assert (N6 : nthz f (4 + 2) = a1) by (rewrite Ef; reflexivity).
      assert (Lf : lenz f = l + 6) by (rewrite Ef; lz; unfold l; lia).
      assert (SL : slice f 4 (5 + 2 + (l - 2 - 1)) = c :: a0 :: a1 :: data).
      { rewrite Ef. replace (5 + 2 + (l - 2 - 1)) with (lenz [104; l; l; 104] + lenz (c :: a0 :: a1 :: data)) by (lz; unfold l; lia).
        change 4 with (lenz [104; l; l; 104]). apply slice_mid. }
      assert (NC : nthz f (5 + 2 + (l - 2 - 1)) = cs8 (c :: a0 :: a1 :: data)).
      { rewrite Ef. rewrite app_assoc. replace (5 + 2 + (l - 2 - 1)) with (lenz ([104; l; l; 104] ++ c :: a0 :: a1 :: data)) by (lz; unfold l; lia).
        apply nthz_app2. }
      pose proof (eq_refl : l = 1 + 2 + lenz data) as Hl'.
      rewrite ?N0, ?N1, ?N2, ?N4, ?N5, ?N6, ?Hdec.
      rt_finish.
      f_equal; lia.
    + unfold user_data. rewrite Ef.
      change ([104; l; l; 104] ++ (c :: a0 :: a1 :: data) ++ [cs8 (c :: a0 :: a1 :: data); 22]) with ([104; l; l; 104; c; a0; a1] ++ data ++ [cs8 (c :: a0 :: a1 :: data); 22]).
      change (5 + 2) with (lenz [104; l; l; 104; c; a0; a1]). apply slice_mid.
Qed.

(* ------------------------------------------------------------------ completeness: every frame satisfying the clauses is accepted *)
Ltac cstep :=
  match goal with
  | |- context [if ?b then _ else _] =>
     match b with
     | context [?x =? ?y] =>
         match x with context [if _ then _ else _] => fail 1 | _ => idtac end;
         let E := fresh "G" in destruct (x =? y) eqn:E
     | context [?x <? ?y] => let E := fresh "G" in destruct (x <? y) eqn:E
     | context [bitz ?x ?y] => let E := fresh "G" in destruct (bitz x y) eqn:E
     end; cbn [negb andb orb]; cbv beta iota
  end.

Ltac norm45 := change (4 + 1) with 5 in *; change (4 + 2) with 6 in *; change (1 + 1) with 2 in *; change (1 + 2) with 3 in *;
  change (2 + 0) with 2 in *; change (2 + 1) with 3 in *; change (2 + 2) with 4 in *.

Theorem parse_su_complete : forall alen own msg fc bc fcb fcv uds udl, 0 <= alen <= 2 ->
  own <> broadcast_addr alen ->
  su_accepts alen own msg fc bc fcb fcv uds udl ->
  parse_su true alen own msg = SuOk fc bc fcb fcv uds udl.
Proof.
  intros alen own msg fc bc fcb fcv uds udl H Hnb A.
  unfold su_accepts, rx_var_ok, rx_fixed_ok, rx_address, rx_ctrl, broadcast_addr in *.
  destruct A as (Sh & Ad & Pr & -> & -> & ->).
  unfold parse_su. cbv zeta.
  destruct Sh as [((V0 & V1 & V2 & V3 & V4) & -> & ->) | ((F0 & F1) & -> & ->)].
  - assert (E0 : nthz msg 0 =? 104 = true) by (apply Z.eqb_eq; exact V0). rewrite E0 in *. cbv iota in *.
    alen_cases H; numsimp; cbn [andb];
    repeat (cstep; try (exfalso; norm45; to_prop; rewrite ?cs8_spec in *;
                        first [ lia | congruence
                              | match goal with G : sumz (slice msg 4 ?k) mod 256 <> nthz msg ?k |- _ => replace k with (lenz msg - 2) in G by lia; congruence end
                              | destruct bc; [destruct Ad; congruence | congruence] ]));
    norm45; to_prop; destruct bc; try (destruct Ad); try congruence; try lia; rewrite ?Pr in *; try discriminate;
    f_equal; try lia; try congruence.
  - assert (E0 : nthz msg 0 =? 104 = false) by (apply Z.eqb_neq; lia). rewrite E0 in *. cbv iota in *.
    assert (E1 : nthz msg 0 =? 16 = true) by (apply Z.eqb_eq; exact F0). rewrite E1. cbv iota.
    alen_cases H; numsimp; cbn [andb];
    repeat (cstep; try (exfalso; norm45; to_prop; rewrite ?cs8_spec in *;
                        first [ lia | congruence | destruct bc; [destruct Ad; congruence | congruence] ]));
    norm45; to_prop; destruct bc; try (destruct Ad); try congruence; try lia; rewrite ?Pr in *; try discriminate;
    f_equal; try lia; try congruence.
Qed.
