(* C16: the CS101 application-layer queue (cs101_queue.c), transcribed literally.
   struct sCS101_Queue { size; entryCounter; lastMsgIndex; firstMsgIndex; elements[size] }.
   An element is the encoded ASDU (list of octets).  CS101_Queue_enqueue overwrites the oldest
   entry when the ring is full; CS101_Queue_dequeue takes the entry at firstMsgIndex. *)
From Coq Require Import ZArith List Bool Lia.
Import ListNotations.
Local Open Scope Z_scope.

Record cq := { q_size : Z; q_count : Z; q_last : Z; q_first : Z; q_elems : list (list Z) }.

Definition cq_init (size : Z) : cq :=
  {| q_size := size; q_count := 0; q_last := 0; q_first := 0; q_elems := repeat [] (Z.to_nat size) |}.

Fixpoint set_nth {A} (i : nat) (v : A) (l : list A) : list A :=
  match l, i with
  | [], _ => []
  | _ :: t, O => v :: t
  | h :: t, S j => h :: set_nth j v t
  end.

Definition elem (q : cq) (i : Z) : list Z := nth (Z.to_nat i) (q_elems q) [].

(* CS101_Queue_enqueue *)
Definition cq_enqueue (q : cq) (e : list Z) : cq :=
  let first0 := if q_count q =? 0 then 0 else q_first q in
  let next0 := if q_count q =? 0 then 0 else q_last q + 1 in
  let next := if next0 =? q_size q then 0 else next0 in
  let removeEntry := q_count q =? q_size q in
  if negb removeEntry then
    {| q_size := q_size q; q_count := q_count q + 1; q_last := next; q_first := first0;
       q_elems := set_nth (Z.to_nat next) e (q_elems q) |}
  else
    let firstIndex0 := next + 1 in
    let firstIndex := if firstIndex0 =? q_size q then 0 else firstIndex0 in
    {| q_size := q_size q; q_count := q_count q; q_last := next; q_first := firstIndex;
       q_elems := set_nth (Z.to_nat next) e (q_elems q) |}.

(* CS101_Queue_dequeue (with a result storage): None when empty *)
Definition cq_dequeue (q : cq) : option (list Z) * cq :=
  if negb (q_count q =? 0) then
    let cur := q_first q in
    (Some (elem q cur),
     {| q_size := q_size q; q_count := q_count q - 1; q_last := q_last q;
        q_first := (cur + 1) mod q_size q; q_elems := q_elems q |})
  else (None, q).

Definition cq_is_full (q : cq) : bool := q_count q =? q_size q.
Definition cq_is_empty (q : cq) : bool := q_count q =? 0.

(* CS101_Queue_flush *)
Definition cq_flush (q : cq) : cq :=
  {| q_size := q_size q; q_count := 0; q_last := 0; q_first := 0; q_elems := q_elems q |}.

(* ---- specification: a FIFO of capacity n that displaces the oldest entry *)
Definition fifo_enqueue (n : Z) (l : list (list Z)) (e : list Z) : list (list Z) :=
  if Z.of_nat (length l) <? n then l ++ [e] else tl l ++ [e].
Definition fifo_dequeue (l : list (list Z)) : option (list Z) * list (list Z) :=
  match l with [] => (None, []) | x :: t => (Some x, t) end.

(* abstraction: the entries from firstMsgIndex, entryCounter of them, wrapping at size *)
Fixpoint ring_list (q : cq) (i : Z) (n : nat) : list (list Z) :=
  match n with
  | O => []
  | S m => elem q i :: ring_list q ((i + 1) mod q_size q) m
  end.
Definition cq_abs (q : cq) : list (list Z) := ring_list q (q_first q) (Z.to_nat (q_count q)).

Inductive qop := QEnq (e : list Z) | QDeq | QFlush.
Fixpoint cq_run (q : cq) (ops : list qop) (out : list (option (list Z))) : cq * list (option (list Z)) :=
  match ops with
  | [] => (q, out)
  | QEnq e :: r => cq_run (cq_enqueue q e) r out
  | QDeq :: r => let '(o, q') := cq_dequeue q in cq_run q' r (out ++ [o])
  | QFlush :: r => cq_run (cq_flush q) r out
  end.
Fixpoint fifo_run (n : Z) (l : list (list Z)) (ops : list qop) (out : list (option (list Z))) : list (list Z) * list (option (list Z)) :=
  match ops with
  | [] => (l, out)
  | QEnq e :: r => fifo_run n (fifo_enqueue n l e) r out
  | QDeq :: r => let '(o, l') := fifo_dequeue l in fifo_run n l' r (out ++ [o])
  | QFlush :: r => fifo_run n [] r out
  end.
