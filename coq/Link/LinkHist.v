(* C15, history level: along EVERY sequence of received frames and state-machine runs of the balanced primary, the frame
   count bit of consecutive NEW frames alternates, and the first new frame after RESET REMOTE LINK was sent carries 1. *)
From Coq Require Import ZArith List Bool Lia.
From L60870 Require Import Link.Ft12 Link.LinkSec Link.LinkPrim Link.LinkProofs.
Import ListNotations.
Local Open Scope Z_scope.

Inductive pev := PMsg (now fc : Z) (dfc : bool) | PRun (now : Z) (q : list (list Z)).

Definition pb_step (v : variant) (c : llcfg) (dir : bool) (p : pb) (e : pev) : pb * list out :=
  match e with
  | PMsg now fc dfc => pb_handle v c now dir p fc dfc
  | PRun now q => let '(p', _, o) := pb_run v c now dir p q in (p', o)
  end.

(* what a step did to the frame count bit, read off the state transition *)
Inductive fev := FNew (b : bool) | FReset.

Definition classify (p p' : pb) : option fev :=
  if (pb_ps p =? PLL_AVAILABLE) && (pb_ps p' =? PLL_SEND_CONFIRM) then Some (FNew (pb_nfcb p))
  else if (pb_ps p =? PLL_REQ_STATUS) && (pb_ps p' =? PLL_RESET) then Some FReset
  else None.

Fixpoint pb_log (v : variant) (c : llcfg) (dir : bool) (p : pb) (evs : list pev) : list fev :=
  match evs with
  | [] => []
  | e :: r =>
      let p' := fst (pb_step v c dir p e) in
      (match classify p p' with Some f => [f] | None => [] end) ++ pb_log v c dir p' r
  end.

Fixpoint log_ok (prev : option fev) (l : list fev) : Prop :=
  match l with
  | [] => True
  | FNew b :: r =>
      match prev with Some (FNew b0) => b = negb b0 | Some FReset => b = true | None => True end /\ log_ok (Some (FNew b)) r
  | FReset :: r => log_ok (Some FReset) r
  end.

Definition linked (prev : option fev) (p : pb) : Prop :=
  match prev with Some (FNew b0) => pb_nfcb p = negb b0 | Some FReset => pb_nfcb p = true | None => True end.

Ltac hstep :=
  match goal with
  | |- context [if ?b then _ else _] =>
     match b with
     | context [?x =? ?y] =>
         match x with context [if _ then _ else _] => fail 1 | context [match _ with _ => _ end] => fail 1 | _ => idtac end;
         let E := fresh "G" in destruct (x =? y) eqn:E
     | context [?x >? ?y] =>
         match y with context [if _ then _ else _] => fail 1 | context [match _ with _ => _ end] => fail 1 | _ => idtac end;
         let E := fresh "G" in destruct (x >? y) eqn:E
     | _ => match b with context [_ =? _] => fail 1 | context [_ >? _] => fail 1 | _ => destruct b eqn:? end
     end
  | |- context [match ?x with _ => _ end] =>
      match x with context [match _ with _ => _ end] => fail 1 | _ => destruct x eqn:? end
  end.

Lemma pb_handle_fcb : forall v c now dir p fc dfc, fa v = true ->
  let p' := fst (pb_handle v c now dir p fc dfc) in
  match classify p p' with
  | Some (FNew _) => pb_nfcb p' = negb (pb_nfcb p)
  | Some FReset => pb_nfcb p' = true
  | None => pb_nfcb p' = pb_nfcb p
  end.
Proof.
  intros v c now dir p fc dfc Hv. cbv zeta. unfold classify, pb_handle, pb_set_state. rewrite Hv.
  cbn [pb_with_lastrx pb_ps pb_ls].
  unfold PLL_AVAILABLE, PLL_IDLE, PLL_REQ_STATUS, PLL_RESET, PLL_SEND_CONFIRM, PLL_BUSY.
  repeat (hstep; cbn [fst snd pb_ps pb_nfcb pb_ls pb_upd pb_with_ps pb_with_wait pb_with_test pb_with_lastrx andb orb negb Z.eqb Pos.eqb]; cbv beta iota;
          try reflexivity; try discriminate; try (exfalso; to_prop2; lia)).
Qed.

Lemma pb_run_fcb : forall v c now dir p q, fa v = true ->
  let p' := fst (fst (pb_run v c now dir p q)) in
  match classify p p' with
  | Some (FNew _) => pb_nfcb p' = negb (pb_nfcb p)
  | Some FReset => pb_nfcb p' = true
  | None => pb_nfcb p' = pb_nfcb p
  end.
Proof.
  intros v c now dir p q Hv. cbv zeta. unfold classify, pb_run, pb_set_state, clamp. rewrite Hv.
  unfold PLL_AVAILABLE, PLL_IDLE, PLL_REQ_STATUS, PLL_RESET, PLL_SEND_CONFIRM, PLL_BUSY.
  repeat (hstep; cbn [fst snd pb_ps pb_nfcb pb_ls pb_upd pb_with_ps pb_with_wait pb_with_test pb_with_lastrx andb orb negb Z.eqb Pos.eqb]; cbv beta iota;
          try reflexivity; try discriminate; try (exfalso; to_prop2; lia)).
Qed.

Lemma pb_step_fcb : forall v c dir p e, fa v = true ->
  let p' := fst (pb_step v c dir p e) in
  match classify p p' with
  | Some (FNew _) => pb_nfcb p' = negb (pb_nfcb p)
  | Some FReset => pb_nfcb p' = true
  | None => pb_nfcb p' = pb_nfcb p
  end.
Proof.
  intros v c dir p e Hv. destruct e as [now fc dfc | now q]; cbn [pb_step].
  - apply pb_handle_fcb. exact Hv.
  - pose proof (pb_run_fcb v c now dir p q Hv) as R. cbv zeta in R. destruct (pb_run v c now dir p q) as [[p' q'] o]. exact R.
Qed.

Lemma classify_new_bit : forall p p' b, classify p p' = Some (FNew b) -> b = pb_nfcb p.
Proof.
  intros p p' b H. unfold classify in H.
  destruct ((pb_ps p =? PLL_AVAILABLE) && (pb_ps p' =? PLL_SEND_CONFIRM)); [injection H as <-; reflexivity|].
  destruct ((pb_ps p =? PLL_REQ_STATUS) && (pb_ps p' =? PLL_RESET)); discriminate.
Qed.

Theorem pb_history_fcb : forall v c dir evs p prev, fa v = true -> linked prev p -> log_ok prev (pb_log v c dir p evs).
Proof.
  intros v c dir evs. induction evs as [|e r IH]; intros p prev Hv L; [exact I|].
  cbn [pb_log]. pose proof (pb_step_fcb v c dir p e Hv) as S. cbv zeta in S.
  set (p' := fst (pb_step v c dir p e)) in *.
  destruct (classify p p') as [[b|]|] eqn:C; cbn [app].
  - pose proof (classify_new_bit p p' b C) as Eb. cbn [log_ok]. split.
    + unfold linked in L. destruct prev as [[b0|]|]; [rewrite Eb; exact L | rewrite Eb; exact L | exact I].
    + apply IH; [exact Hv|]. unfold linked. rewrite S, Eb. reflexivity.
  - cbn [log_ok]. apply IH; [exact Hv | exact S].
  - apply IH; [exact Hv|]. unfold linked in *. destruct prev as [[b0|]|]; [rewrite S; exact L | rewrite S; exact L | exact I].
Qed.

(* from power-up (nextFcb = 1, as after a reset): the very first new frame carries 1, then the bits alternate;
   after every RESET REMOTE LINK the next new frame carries 1 again *)
Corollary pb_history_from_init : forall v c dir other idle evs, fa v = true ->
  log_ok (Some FReset) (pb_log v c dir (pb_init other idle) evs).
Proof. intros. apply pb_history_fcb; [assumption | reflexivity]. Qed.

(* the classification is about real frames: a step classified FNew b wrote exactly one frame, with FCV = 1 and FCB = b *)
Theorem pb_new_frame_octets : forall v c now dir p q b,
  classify p (fst (fst (pb_run v c now dir p q))) = Some (FNew b) ->
  snd (pb_run v c now dir p q) = [OTx (enc_fixed (alen c) 2 (pb_other p) true dir b true)] \/
  exists d, snd (pb_run v c now dir p q) = tx_opt (enc_var (alen c) 3 (pb_other p) true dir b true d).
Proof.
  intros v c now dir p q b H. pose proof (classify_new_bit _ _ _ H) as ->.
  unfold classify in H. destruct (pb_ps p =? PLL_AVAILABLE) eqn:A; cbn [andb] in H.
  - apply Z.eqb_eq in A. unfold pb_run in *. rewrite A in *. unfold PLL_AVAILABLE, PLL_IDLE, PLL_REQ_STATUS, PLL_RESET, PLL_SEND_CONFIRM in *.
    cbn [Z.eqb Pos.eqb] in *. cbv beta iota in *.
    destruct (if now - clamp (pb_lastrx p) now >? pb_idle p then true else pb_test p).
    + left. reflexivity.
    + destruct q as [|d rest]; [|right; exists d; reflexivity].
      cbn [fst pb_ps pb_with_lastrx] in H. rewrite A in H. discriminate.
  - destruct ((pb_ps p =? PLL_REQ_STATUS) && (pb_ps (fst (fst (pb_run v c now dir p q))) =? PLL_RESET)); discriminate.
Qed.

(* ---------------------------------------------------------------- the same for one slave connection of the unbalanced primary *)
Inductive sev := SMsg (now fc : Z) (acd dfc : bool) (address : Z) (msg : list Z) (uds udl : Z) | SRun (now : Z)
               | SApp (has : bool) (m : list Z) (r1 r2 test : bool).     (* application requests between steps *)

Definition sc_app (s : sc) (has : bool) (m : list Z) (r1 r2 test : bool) : sc :=
  sc_mk s (sc_ls s) (sc_ps s) has m (sc_lastsend s) (sc_origsend s) r1 r2 (sc_wait s) test (sc_nfcb s) (sc_lastfc s).

Definition sc_step (v : variant) (c : llcfg) (s : sc) (e : sev) : sc * list out :=
  match e with
  | SMsg now fc acd dfc address msg uds udl => sc_handle v c now s fc acd dfc address msg uds udl
  | SRun now => sc_run v c now s
  | SApp has m r1 r2 test => (sc_app s has m r1 r2 test, [])
  end.

Definition classify_sc (s s' : sc) : option fev :=
  if (sc_ps s =? PLL_AVAILABLE) && ((sc_ps s' =? PLL_SEND_CONFIRM) || (sc_ps s' =? PLL_REQUEST_RESPOND)) then Some (FNew (sc_nfcb s))
  else if (sc_ps s =? PLL_REQ_STATUS) && (sc_ps s' =? PLL_RESET) then Some FReset
  else None.

Fixpoint sc_log (v : variant) (c : llcfg) (s : sc) (evs : list sev) : list fev :=
  match evs with
  | [] => []
  | e :: r =>
      let s' := fst (sc_step v c s e) in
      (match classify_sc s s' with Some f => [f] | None => [] end) ++ sc_log v c s' r
  end.

Definition linked_sc (prev : option fev) (s : sc) : Prop :=
  match prev with Some (FNew b0) => sc_nfcb s = negb b0 | Some FReset => sc_nfcb s = true | None => True end.

Ltac sc_simpl := cbn [fst snd sc_ps sc_nfcb sc_ls sc_mk sc_with_ps sc_with_wait sc_with_r sc_with_lastsend sc_with_msg sc_with_test sc_app
                      andb orb negb Z.eqb Pos.eqb]; cbv beta iota.

Lemma sc_handle_fcb : forall v c now s fc acd dfc address msg uds udl, fa v = true ->
  let s' := fst (sc_handle v c now s fc acd dfc address msg uds udl) in
  match classify_sc s s' with
  | Some (FNew _) => sc_nfcb s' = negb (sc_nfcb s)
  | Some FReset => sc_nfcb s' = true
  | None => sc_nfcb s' = sc_nfcb s
  end.
Proof.
  intros v c now s fc acd dfc address msg uds udl Hv. cbv zeta. unfold classify_sc, sc_handle, sc_set_state. rewrite Hv.
  unfold PLL_AVAILABLE, PLL_IDLE, PLL_REQ_STATUS, PLL_RESET, PLL_SEND_CONFIRM, PLL_BUSY, PLL_REQUEST_RESPOND, PLL_TIMEOUT.
  destruct acd; sc_simpl;
  repeat (hstep; sc_simpl; try reflexivity; try discriminate; try (exfalso; to_prop2; lia)).
Qed.

Lemma sc_run_fcb : forall v c now s, fa v = true ->
  let s' := fst (sc_run v c now s) in
  match classify_sc s s' with
  | Some (FNew _) => sc_nfcb s' = negb (sc_nfcb s)
  | Some FReset => sc_nfcb s' = true
  | None => sc_nfcb s' = sc_nfcb s
  end.
Proof.
  intros v c now s Hv. cbv zeta. unfold classify_sc, sc_run, sc_set_state, clamp.
  unfold PLL_AVAILABLE, PLL_IDLE, PLL_REQ_STATUS, PLL_RESET, PLL_SEND_CONFIRM, PLL_BUSY, PLL_REQUEST_RESPOND, PLL_TIMEOUT.
  repeat (hstep; sc_simpl; try reflexivity; try discriminate; try (exfalso; to_prop2; lia)).
Qed.

Lemma classify_sc_new_bit : forall s s' b, classify_sc s s' = Some (FNew b) -> b = sc_nfcb s.
Proof.
  intros s s' b H. unfold classify_sc in H.
  destruct ((sc_ps s =? PLL_AVAILABLE) && ((sc_ps s' =? PLL_SEND_CONFIRM) || (sc_ps s' =? PLL_REQUEST_RESPOND))); [injection H as <-; reflexivity|].
  destruct ((sc_ps s =? PLL_REQ_STATUS) && (sc_ps s' =? PLL_RESET)); discriminate.
Qed.

Theorem sc_history_fcb : forall v c evs s prev, fa v = true -> linked_sc prev s -> log_ok prev (sc_log v c s evs).
Proof.
  intros v c evs. induction evs as [|e r IH]; intros s prev Hv L; [exact I|].
  cbn [sc_log].
  assert (S : let s' := fst (sc_step v c s e) in
              match classify_sc s s' with
              | Some (FNew _) => sc_nfcb s' = negb (sc_nfcb s) | Some FReset => sc_nfcb s' = true | None => sc_nfcb s' = sc_nfcb s end).
  { destruct e as [now fc acd dfc address msg uds udl | now | has m r1 r2 test]; cbn [sc_step].
    - apply sc_handle_fcb; exact Hv.
    - apply sc_run_fcb; exact Hv.
    - cbv zeta. unfold classify_sc. cbn [fst sc_app sc_ps sc_mk sc_nfcb].
      destruct (sc_ps s =? PLL_AVAILABLE) eqn:A; cbn [andb].
      + apply Z.eqb_eq in A. rewrite A. reflexivity.
      + destruct (sc_ps s =? PLL_REQ_STATUS) eqn:B; cbn [andb]; [apply Z.eqb_eq in B; rewrite B|]; reflexivity. }
  cbv zeta in S. set (s' := fst (sc_step v c s e)) in *.
  destruct (classify_sc s s') as [[b|]|] eqn:C; cbn [app].
  - pose proof (classify_sc_new_bit s s' b C) as Eb. cbn [log_ok]. split.
    + unfold linked_sc in L. destruct prev as [[b0|]|]; [rewrite Eb; exact L | rewrite Eb; exact L | exact I].
    + apply IH; [exact Hv|]. unfold linked_sc. rewrite S, Eb. reflexivity.
  - cbn [log_ok]. apply IH; [exact Hv | exact S].
  - apply IH; [exact Hv|]. unfold linked_sc in *. destruct prev as [[b0|]|]; [rewrite S; exact L | rewrite S; exact L | exact I].
Qed.

Corollary sc_history_from_init : forall v c a evs, fa v = true -> log_ok (Some FReset) (sc_log v c (sc_init a) evs).
Proof. intros. apply sc_history_fcb; [assumption | reflexivity]. Qed.
