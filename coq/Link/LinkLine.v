(* C16: composition of the literal balanced primary (pb_run / pb_handle, station A) with the literal balanced secondary
   (sb_handle, station B) over a line that may lose any frame in either direction and delivers the others at once
   (octets on the line, parsed by the receiving station with parse_bp as in bal_on_msg).
   For every sequence of station runs (at any clock values), losses, application hand-overs, link test requests and
   idle-timer resets, as long as A has not reported the link in error: what B's application was handed is exactly what A
   took from its queue, in order, each message once -- except possibly the one message still outstanding. *)
From Coq Require Import ZArith List Bool Lia.
From L60870 Require Import Link.Ft12 Link.Ft12Proofs Link.Ft12Bp Link.LinkSec Link.LinkPrim Link.LinkProofs.
Import ListNotations.
Local Open Scope Z_scope.

Section Line.
Variables (v : variant) (c : llcfg).
Variables (addrB : Z) (dirA dirB : bool).
Hypothesis Hal : 0 <= alen c <= 2.
Hypothesis Hfb : fb v = true.
Hypothesis Hfg : fg v = true.
Hypothesis HaB : addr_in_range (alen c) addrB.

Definition frames (o : list out) : list (list Z) := flat_map (fun x => match x with OTx f => [f] | _ => [] end) o.
Definition inds (o : list out) : list (list Z) := flat_map (fun x => match x with OInd _ d => [d] | _ => [] end) o.
Definition reports_error (o : list out) : bool := existsb (fun x => match x with OLs _ s => s =? LS_ERROR | _ => false end) o.

(* station B receives a frame: bal_on_msg, branch for our secondary function (the application accepts what it is handed) *)
Definition b_recv (s : sb) (f : list Z) : sb * list out :=
  match parse_bp (ff v) (alen c) f with
  | BpSec fc fcb fcv uds udl => sb_handle v c addrB dirB true s fc fcb fcv f uds udl
  | _ => (s, [])
  end.
(* station A receives a frame: bal_on_msg, branches for our primary function *)
Definition a_recv (now : Z) (p : pb) (f : list Z) : pb * list out :=
  match parse_bp (ff v) (alen c) f with
  | BpAck => pb_handle v c now dirA p 0 false
  | BpPri fc dir dfc acd address uds udl => pb_handle v c now dirA p fc dfc
  | _ => (p, [])
  end.

Definition msg_ok (d : list Z) : Prop := 0 < lenz d /\ 1 + alen c + lenz d <= 255.
Definition msg_okb (d : list Z) : bool := (0 <? lenz d) && (1 + alen c + lenz d <=? 255).
Lemma msg_okb_ok d : msg_okb d = true -> msg_ok d.
Proof. unfold msg_okb, msg_ok. intros H. apply andb_prop in H. destruct H as [A B]. apply Z.ltb_lt in A. apply Z.leb_le in B. lia. Qed.

(* ---- what crosses the line *)
Lemma b_gets_fixed s fc address fcb fcv : 0 <= fc < 16 ->
  b_recv s (enc_fixed (alen c) fc address true dirA fcb fcv) =
  sb_handle v c addrB dirB true s fc fcb fcv (enc_fixed (alen c) fc address true dirA fcb fcv) 0 0.
Proof. intros H. unfold b_recv. rewrite (parse_bp_fixed_prm (ff v) (alen c) fc address dirA fcb fcv Hal H). reflexivity. Qed.

Lemma enc_var_some fc address dir fcb fcv d : msg_ok d -> exists f, enc_var (alen c) fc address true dir fcb fcv d = Some f.
Proof.
  intros [_ H]. unfold enc_var. cbv zeta. assert (E : (1 + alen c + lenz d >? 255) = false) by (rewrite Z.gtb_ltb; apply Z.ltb_ge; lia).
  rewrite E. eexists. reflexivity.
Qed.

Lemma b_gets_data s address fcb d f : enc_var (alen c) 3 address true dirA fcb true d = Some f ->
  b_recv s f = sb_handle v c addrB dirB true s 3 fcb true f (5 + alen c) (lenz d) /\ user_data f (5 + alen c) (lenz d) = d.
Proof.
  intros E. destruct (parse_bp_var_prm (ff v) (alen c) 3 address dirA fcb true d f Hal ltac:(lia) E) as [P U].
  unfold b_recv. rewrite P. split; [reflexivity | exact U].
Qed.

Lemma a_gets_ack now p : a_recv now p (bal_ack c addrB dirB) = pb_handle v c now dirA p 0 false.
Proof.
  unfold a_recv, bal_ack. destruct (single_ack c).
  - reflexivity.
  - rewrite (parse_bp_fixed_sec (ff v) (alen c) 0 addrB dirB false false Hal ltac:(lia) HaB). reflexivity.
Qed.

(* ---- the line *)
Record line := { lp : pb; lq : list (list Z); lsb : sb; lT : list (list Z); lD : list (list Z); lfail : bool }.

Inductive lev :=
| LRun (now : Z) (l1 l2 : bool)      (* A's station runs; l1: its frame is lost, l2: B's answer is lost *)
| LTouch (now : Z)                   (* A's own secondary function received a frame: idle timer reset *)
| LTest                              (* A's application requests a link test *)
| LEnq (d : list Z).                 (* A's application hands over a message *)

Definition dequeued (q q1 : list (list Z)) : list (list Z) := firstn (length q - length q1) q.

Definition cross (now : Z) (l1 l2 : bool) (p1 : pb) (s : sb) (o1 : list out) : pb * sb * list (list Z) * list out :=
  match frames o1 with
  | f :: _ =>
      if l1 then (p1, s, [], [])
      else let '(s1, ob) := b_recv s f in
           match frames ob with
           | a :: _ => if l2 then (p1, s1, inds ob, []) else let '(p2, oa) := a_recv now p1 a in (p2, s1, inds ob, oa)
           | [] => (p1, s1, inds ob, [])
           end
  | [] => (p1, s, [], [])
  end.

Definition lstep (st : line) (e : lev) : line :=
  match e with
  | LRun now l1 l2 =>
      let '(p1, q1, o1) := pb_run v c now dirA (lp st) (lq st) in
      let '(p2, s2, dl, oa) := cross now l1 l2 p1 (lsb st) o1 in
      {| lp := p2; lq := q1; lsb := s2; lT := lT st ++ dequeued (lq st) q1; lD := lD st ++ dl;
         lfail := lfail st || reports_error o1 || reports_error oa |}
  | LTouch now => {| lp := pb_with_lastrx (lp st) now; lq := lq st; lsb := lsb st; lT := lT st; lD := lD st; lfail := lfail st |}
  | LTest => {| lp := pb_with_test (lp st) true; lq := lq st; lsb := lsb st; lT := lT st; lD := lD st; lfail := lfail st |}
  | LEnq d => {| lp := lp st; lq := if msg_okb d then lq st ++ [d] else lq st; lsb := lsb st; lT := lT st; lD := lD st; lfail := lfail st |}
  end.

(* the joint invariant of the data phase *)
Definition J (st : line) : Prop :=
  let p := lp st in let s := lsb st in
  pb_ls p = LS_AVAILABLE /\ Forall msg_ok (lq st) /\
  ((pb_ps p = PLL_AVAILABLE /\ pb_nfcb p = sb_efcb s /\ lD st = lT st) \/
   (pb_ps p = PLL_SEND_CONFIRM /\ pb_tout p = true /\ lD st = lT st) \/
   (pb_ps p = PLL_SEND_CONFIRM /\ pb_tout p = false /\ msg_ok (pb_last p) /\
      exists pre, lT st = pre ++ [pb_last p] /\
        ((sb_efcb s = negb (pb_nfcb p) /\ lD st = pre) \/ (sb_efcb s = pb_nfcb p /\ lD st = pre ++ [pb_last p])))).

Ltac pbs := cbn [pb_ps pb_nfcb pb_ls pb_last pb_other pb_tout pb_test pb_wait pb_lastsend pb_origsend pb_lastrx pb_idle
                 pb_upd pb_with_ps pb_with_wait pb_with_test pb_with_lastrx pb_with_tout sb_efcb fst snd].

(* B's secondary function on a test frame *)
Lemma sb_test (s : sb) (fcb : bool) msg :
  sb_handle v c addrB dirB true s 2 fcb true msg 0 0 =
  if Bool.eqb fcb (sb_efcb s) then ({| sb_efcb := negb (sb_efcb s) |}, [OTx (bal_ack c addrB dirB)]) else (s, [OTx (bal_ack c addrB dirB)]).
Proof. unfold sb_handle. rewrite Hfb. destruct fcb, (sb_efcb s); reflexivity. Qed.

(* B's secondary function on a user data frame *)
Lemma sb_data (s : sb) (fcb : bool) msg uds udl : 0 < udl ->
  sb_handle v c addrB dirB true s 3 fcb true msg uds udl =
  if Bool.eqb fcb (sb_efcb s) then ({| sb_efcb := negb (sb_efcb s) |}, [OInd false (user_data msg uds udl); OTx (bal_ack c addrB dirB)])
  else (s, [OTx (bal_ack c addrB dirB)]).
Proof.
  intros H. unfold sb_handle. rewrite Hfb. assert (E : udl >? 0 = true) by (apply Z.gtb_lt; lia).
  destruct fcb, (sb_efcb s); cbn [andb negb Bool.eqb Z.eqb Pos.eqb orb]; rewrite ?E; reflexivity.
Qed.

(* A's primary function on the acknowledgement while it waits for one *)
Lemma pb_ack_in_send_confirm now p : pb_ps p = PLL_SEND_CONFIRM -> pb_ls p = LS_AVAILABLE ->
  pb_handle v c now dirA p 0 false = (pb_with_ps (pb_with_wait (pb_with_lastrx p now) false) PLL_AVAILABLE, []).
Proof.
  intros Hps Hl. destruct p as [x1 x2 x3 x4 x5 x6 x7 x8 x9 x10 x11 x12]. cbn [pb_ps pb_ls] in Hps, Hl. subst. unfold pb_handle, pb_set_state. rewrite Hfg. reflexivity.
Qed.

Lemma dequeued_same (q : list (list Z)) : dequeued q q = [].
Proof. unfold dequeued. rewrite Nat.sub_diag. reflexivity. Qed.
Lemma dequeued_head (d : list Z) rest : dequeued (d :: rest) rest = [d].
Proof. unfold dequeued. cbn [length]. replace (S (length rest) - length rest)%nat with 1%nat by lia. reflexivity. Qed.

Ltac lns := cbn [lp lq lsb lT lD lfail].
Ltac fr := cbn [frames inds flat_map app reports_error existsb orb].

Lemma J_run_available x3 x4 x5 x6 x7 x8 x9 x10 x11 x12 q e T D now l1 l2 :
  let st := {| lp := {| pb_ls := LS_AVAILABLE; pb_ps := PLL_AVAILABLE; pb_wait := x3; pb_lastsend := x4; pb_origsend := x5; pb_test := x6; pb_nfcb := x7;
                         pb_other := x8; pb_last := x9; pb_lastrx := x10; pb_idle := x11; pb_tout := x12 |};
              lq := q; lsb := {| sb_efcb := e |}; lT := T; lD := D; lfail := false |} in
  Forall msg_ok q -> x7 = e -> D = T -> J (lstep st (LRun now l1 l2)).
Proof.
  intros st Hq Hfcb HD. subst e D. unfold st, lstep. lns. unfold pb_run. pbs. rewrite Hfg.
  unfold PLL_AVAILABLE, PLL_IDLE, PLL_REQ_STATUS, PLL_RESET, PLL_SEND_CONFIRM. cbn [Z.eqb Pos.eqb negb].
  set (lr := clamp x10 now).
  assert (TEST : forall Q,
    J (let '(p2, s2, dl, oa) := cross now l1 l2
          {| pb_ls := LS_AVAILABLE; pb_ps := 4; pb_wait := x3; pb_lastsend := now; pb_origsend := now; pb_test := false; pb_nfcb := negb x7;
             pb_other := x8; pb_last := x9; pb_lastrx := lr; pb_idle := x11; pb_tout := true |} {| sb_efcb := x7 |}
          [OTx (enc_fixed (alen c) 2 x8 true dirA x7 true)] in
       {| lp := p2; lq := q; lsb := s2; lT := T ++ dequeued q q; lD := T ++ dl; lfail := false || Q || reports_error oa |})).
  { intros Q. unfold cross. fr. destruct l1.
    - unfold J. lns. pbs. rewrite dequeued_same, !app_nil_r. split; [reflexivity|]. split; [exact Hq|]. right; left. repeat split; reflexivity.
    - rewrite (b_gets_fixed _ 2 x8 x7 true ltac:(lia)), sb_test. cbn [sb_efcb]. rewrite Bool.eqb_reflx. fr. destruct l2.
      + unfold J. lns. pbs. rewrite dequeued_same, !app_nil_r. split; [reflexivity|]. split; [exact Hq|]. right; left. repeat split; reflexivity.
      + rewrite a_gets_ack, pb_ack_in_send_confirm by reflexivity. unfold J. lns. pbs. rewrite dequeued_same, !app_nil_r.
        split; [reflexivity|]. split; [exact Hq|]. left. repeat split; reflexivity. }
  destruct (now - lr >? x11) eqn:Ei.
  { cbn [negb]. fr. exact (TEST false). }
  destruct x6.
  { cbn [negb]. fr. exact (TEST false). }
  destruct q as [|d rest].
  - unfold cross. fr. unfold J. lns. pbs. rewrite dequeued_same, !app_nil_r. split; [reflexivity|]. split; [constructor|]. left. repeat split; reflexivity.
  - apply Forall_cons_iff in Hq. destruct Hq as [Hd Hrest].
    destruct (enc_var_some 3 x8 dirA x7 true d Hd) as (f & Ef). rewrite Ef. cbn [tx_opt]. unfold cross. fr.
    rewrite dequeued_head. destruct l1.
    + unfold J. lns. pbs. rewrite !app_nil_r. split; [reflexivity|]. split; [exact Hrest|]. right; right.
      split; [reflexivity|]. split; [reflexivity|]. split; [exact Hd|]. exists T. split; [reflexivity|]. left. split; [rewrite negb_involutive; reflexivity | reflexivity].
    + destruct (b_gets_data {| sb_efcb := x7 |} x8 x7 d f Ef) as [Eb Eu]. rewrite Eb, sb_data by (destruct Hd; lia). cbn [sb_efcb]. rewrite Bool.eqb_reflx, Eu. fr.
      destruct l2.
      * unfold J. lns. pbs. split; [reflexivity|]. split; [exact Hrest|]. right; right.
        split; [reflexivity|]. split; [reflexivity|]. split; [exact Hd|]. exists T. split; [reflexivity|]. right. split; reflexivity.
      * rewrite a_gets_ack, pb_ack_in_send_confirm by reflexivity. unfold J. lns. pbs.
        split; [reflexivity|]. split; [exact Hrest|]. left. repeat split; reflexivity.
Qed.

Lemma eqb_negb_l (a : bool) : Bool.eqb (negb a) a = false. Proof. destruct a; reflexivity. Qed.

Lemma J_run_send_confirm x3 x4 x5 x6 x7 x8 x9 x10 x11 x12 q e T D now l1 l2 :
  let st := {| lp := {| pb_ls := LS_AVAILABLE; pb_ps := PLL_SEND_CONFIRM; pb_wait := x3; pb_lastsend := x4; pb_origsend := x5; pb_test := x6; pb_nfcb := x7;
                         pb_other := x8; pb_last := x9; pb_lastrx := x10; pb_idle := x11; pb_tout := x12 |};
              lq := q; lsb := {| sb_efcb := e |}; lT := T; lD := D; lfail := false |} in
  Forall msg_ok q ->
  ((x12 = true /\ D = T) \/
   (x12 = false /\ msg_ok x9 /\ exists pre, T = pre ++ [x9] /\ ((e = negb x7 /\ D = pre) \/ (e = x7 /\ D = pre ++ [x9])))) ->
  lfail (lstep st (LRun now l1 l2)) = false -> J (lstep st (LRun now l1 l2)).
Proof.
  intros st Hq HJ. unfold st, lstep. lns. unfold pb_run. pbs. rewrite Hfg.
  unfold PLL_AVAILABLE, PLL_IDLE, PLL_REQ_STATUS, PLL_RESET, PLL_SEND_CONFIRM. cbn [Z.eqb Pos.eqb negb].
  set (lsd := clamp x4 now).
  destruct (now >? lsd + t_ack c) eqn:Ea.
  2:{ (* no acknowledgement timeout yet *)
      unfold cross. fr. intros _. unfold J. lns. pbs. rewrite dequeued_same, !app_nil_r. split; [reflexivity|]. split; [exact Hq|].
      destruct HJ as [(-> & ->) | (-> & Hok & pre & -> & Hrec)].
      - right; left. repeat split; reflexivity.
      - right; right. split; [reflexivity|]. split; [reflexivity|]. split; [exact Hok|]. exists pre. split; [reflexivity | exact Hrec]. }
  destruct (now >? x5 + t_rep c) eqn:Er.
  { (* repeat timeout: the link is reported in error *)
    unfold pb_set_state. pbs. unfold LS_AVAILABLE, LS_ERROR. cbn [Z.eqb Pos.eqb]. unfold cross. fr. cbn [Z.eqb Pos.eqb orb]. intros X. discriminate X. }
  destruct HJ as [(-> & ->) | (-> & Hok & pre & -> & Hrec)].
  - (* the outstanding frame is a test frame: repeated with its bit *)
    unfold cross. fr. rewrite dequeued_same, !app_nil_r. destruct l1.
    + intros _. unfold J. lns. pbs. rewrite !app_nil_r. split; [reflexivity|]. split; [exact Hq|]. right; left. repeat split; reflexivity.
    + rewrite (b_gets_fixed _ 2 x8 (negb x7) true ltac:(lia)), sb_test. cbn [sb_efcb].
      destruct (Bool.eqb (negb x7) e) eqn:Eq; fr; destruct l2; intros _; try rewrite a_gets_ack, pb_ack_in_send_confirm by reflexivity;
        unfold J; lns; pbs; rewrite ?app_nil_r; (split; [reflexivity|]); (split; [exact Hq|]).
      * right; left. repeat split; reflexivity.
      * left. repeat split; try reflexivity. apply Bool.eqb_prop in Eq. subst e. rewrite negb_involutive. reflexivity.
      * right; left. repeat split; reflexivity.
      * left. repeat split; try reflexivity. destruct x7, e; try reflexivity; discriminate Eq.
  - (* the outstanding frame carries a message: the same frame again *)
    destruct (enc_var_some 3 x8 dirA (negb x7) true x9 Hok) as (f & Ef). rewrite Ef. cbn [tx_opt]. unfold cross. fr.
    rewrite dequeued_same, !app_nil_r. destruct l1.
    + intros _. unfold J. lns. pbs. rewrite !app_nil_r. split; [reflexivity|]. split; [exact Hq|]. right; right.
      split; [reflexivity|]. split; [reflexivity|]. split; [exact Hok|]. exists pre. split; [reflexivity | exact Hrec].
    + destruct (b_gets_data {| sb_efcb := e |} x8 (negb x7) x9 f Ef) as [Eb Eu]. rewrite Eb, sb_data by (destruct Hok; lia). cbn [sb_efcb]. rewrite Eu.
      destruct Hrec as [(-> & ->) | (-> & ->)].
      * (* not yet received: delivered now *)
        rewrite Bool.eqb_reflx. fr. destruct l2; intros _; try rewrite a_gets_ack, pb_ack_in_send_confirm by reflexivity;
          unfold J; lns; pbs; (split; [reflexivity|]); (split; [exact Hq|]).
        -- right; right. split; [reflexivity|]. split; [reflexivity|]. split; [exact Hok|]. exists pre. split; [reflexivity|]. right.
           split; [apply negb_involutive | reflexivity].
        -- left. repeat split; try reflexivity. rewrite negb_involutive. reflexivity.
      * (* already received: acknowledged again, not delivered again *)
        rewrite eqb_negb_l. fr. rewrite ?app_nil_r. destruct l2; intros _; try rewrite a_gets_ack, pb_ack_in_send_confirm by reflexivity;
          unfold J; lns; pbs; rewrite ?app_nil_r; (split; [reflexivity|]); (split; [exact Hq|]).
        -- right; right. split; [reflexivity|]. split; [reflexivity|]. split; [exact Hok|]. exists pre. split; [reflexivity|]. right. split; reflexivity.
        -- left. repeat split; reflexivity.
Qed.

(* ---- every step, every history *)
Lemma J_step st e : J st -> lfail st = false -> lfail (lstep st e) = false -> J (lstep st e).
Proof.
  intros HJ Hf Hf'. destruct e as [now l1 l2|now| |d].
  - destruct st as [p q s T D fl]. cbn [lfail] in Hf. subst fl.
    destruct p as [x1 x2 x3 x4 x5 x6 x7 x8 x9 x10 x11 x12]. destruct s as [e].
    unfold J in HJ. cbn [lp lq lsb lT lD pb_ls pb_ps pb_nfcb pb_tout pb_last sb_efcb] in HJ.
    destruct HJ as (Hls & Hq & HJ). subst x1.
    destruct HJ as [(-> & Hfcb & HD) | [(-> & Hto & HD) | (-> & Hto & Hok & pre & HT & Hrec)]].
    + apply J_run_available; assumption.
    + apply J_run_send_confirm; [exact Hq | left; split; assumption | exact Hf'].
    + apply J_run_send_confirm; [exact Hq | right; split; [exact Hto | split; [exact Hok | exists pre; split; assumption]] | exact Hf'].
  - destruct st as [p q s T D fl]. destruct p as [x1 x2 x3 x4 x5 x6 x7 x8 x9 x10 x11 x12]. exact HJ.
  - destruct st as [p q s T D fl]. destruct p as [x1 x2 x3 x4 x5 x6 x7 x8 x9 x10 x11 x12]. exact HJ.
  - destruct st as [p q s T D fl]. unfold J in *. cbn [lstep lp lq lsb lT lD] in *. destruct HJ as (A & B & C). split; [exact A|]. split; [|exact C].
    destruct (msg_okb d) eqn:E; [|exact B]. apply Forall_app. split; [exact B|]. constructor; [apply msg_okb_ok, E | constructor].
Qed.

Lemma lfail_step_mono st e : lfail st = true -> lfail (lstep st e) = true.
Proof.
  intros H. destruct e as [now l1 l2|now| |d]; cbn [lstep]; try exact H.
  destruct (pb_run v c now dirA (lp st) (lq st)) as [[p1 q1] o1]. destruct (cross now l1 l2 p1 (lsb st) o1) as [[[p2 s2] dl] oa].
  cbn [lfail]. rewrite H. reflexivity.
Qed.

Lemma lfail_run_mono evs : forall st, lfail st = true -> lfail (fold_left lstep evs st) = true.
Proof. induction evs as [|e r IH]; intros st H; cbn [fold_left]; [exact H | apply IH, lfail_step_mono, H]. Qed.

Theorem line_invariant evs : forall st, J st -> lfail st = false -> lfail (fold_left lstep evs st) = false -> J (fold_left lstep evs st).
Proof.
  induction evs as [|e r IH]; intros st HJ Hf Hend; cbn [fold_left] in *; [exact HJ|].
  destruct (lfail (lstep st e)) eqn:E.
  - rewrite (lfail_run_mono r _ E) in Hend. discriminate Hend.
  - apply IH; [apply J_step; assumption | exact E | exact Hend].
Qed.

(* what the invariant says about the two applications: every message A's link layer took from the queue has reached B's
   application exactly once and in order, except possibly the single message whose confirmation is still outstanding *)
Theorem line_exactly_once evs st : J st -> lfail st = false ->
  let st' := fold_left lstep evs st in lfail st' = false ->
  lD st' = lT st' \/ (lT st' = lD st' ++ [pb_last (lp st')] /\ pb_ps (lp st') = PLL_SEND_CONFIRM).
Proof.
  intros HJ Hf st' Hend. pose proof (line_invariant evs st HJ Hf Hend) as (_ & _ & H). fold st' in H.
  destruct H as [(_ & _ & HD) | [(_ & _ & HD) | (Hps & _ & _ & pre & HT & [(_ & HD) | (_ & HD)])]].
  - left; exact HD.
  - left; exact HD.
  - right. rewrite HD. split; [exact HT | exact Hps].
  - left. rewrite HD, HT. reflexivity.
Qed.

(* the data phase starts synchronised: B handles A's RESET REMOTE LINK (expected bit := 1, acknowledged), A handles the
   acknowledgement in state RESET: AVAILABLE, and with the bit the reset frame left it with (1 when fa) both sides agree *)
Lemma reset_synchronises now p s q : pb_ps p = PLL_RESET -> pb_nfcb p = true -> Forall msg_ok q ->
  let '(s1, ob) := b_recv s (reset_frame c (pb_other p) dirA) in
  ob = [OTx (bal_ack c addrB dirB)] /\
  let '(p1, oa) := a_recv now p (bal_ack c addrB dirB) in
  J {| lp := p1; lq := q; lsb := s1; lT := []; lD := []; lfail := false |}.
Proof.
  intros Hps Hn Hq. unfold reset_frame. rewrite (b_gets_fixed s 0 (pb_other p) false false ltac:(lia)).
  unfold sb_handle. cbn [andb Z.eqb]. split; [reflexivity|].
  rewrite a_gets_ack. destruct p as [x1 x2 x3 x4 x5 x6 x7 x8 x9 x10 x11 x12]. cbn [pb_ps pb_nfcb] in Hps, Hn. subst x2 x7.
  unfold pb_handle, pb_set_state. pbs. unfold PLL_RESET, PLL_AVAILABLE, LS_AVAILABLE. cbn [Z.eqb Pos.eqb].
  destruct (x1 =? 3) eqn:E; unfold J; lns; pbs; (split; [try reflexivity|]); try (apply Z.eqb_eq in E; exact E);
    (split; [exact Hq|]); left; repeat split; reflexivity.
Qed.
End Line.

(* non-vacuity: a concrete line (all repairs, one address octet), two messages, the first transmission lost, then the
   acknowledgement of its repetition lost, then everything gets through: both messages delivered once, in order, no failure *)
Definition ex_v : variant := {| fa := true; fb := true; fc_ := true; fd := true; fe := true; ff := true; fg := true; fh := true; fi := true |}.
Definition ex_c : llcfg := {| alen := 1; single_ack := false; t_ack := 200; t_rep := 1000; t_ls := 5000 |}.
Definition ex_st : line :=
  {| lp := {| pb_ls := LS_AVAILABLE; pb_ps := PLL_AVAILABLE; pb_wait := false; pb_lastsend := 0; pb_origsend := 0; pb_test := false; pb_nfcb := true;
              pb_other := 2; pb_last := []; pb_lastrx := 0; pb_idle := 100000; pb_tout := false |};
     lq := []; lsb := {| sb_efcb := true |}; lT := []; lD := []; lfail := false |}.
Definition ex_evs : list lev :=
  [LEnq [45; 1; 6; 0; 1; 0; 7; 0]; LEnq [45; 1; 6; 0; 2; 0; 8; 1]; LRun 10 true false; LRun 250 false true; LRun 500 false false; LTest; LRun 600 false false;
   LRun 700 false false; LRun 800 false false].
Example line_example :
  let st' := fold_left (lstep ex_v ex_c 2 true false) ex_evs ex_st in
  lfail st' = false /\ lD st' = [[45; 1; 6; 0; 1; 0; 7; 0]; [45; 1; 6; 0; 2; 0; 8; 1]] /\ lT st' = lD st' /\ lq st' = [].
Proof. vm_compute. repeat split; reflexivity. Qed.

(* the theorem needs the repaired primary (fg): on the original code a link test requested while a message waits for its
   confirmation replaces the repetition; B confirms the test frame, A takes that for the confirmation of the message *)
Definition ex_v0 : variant := {| fa := true; fb := true; fc_ := true; fd := true; fe := true; ff := true; fg := false; fh := false; fi := false |}.
Example line_exactly_once_refuted :
  let st' := fold_left (lstep ex_v0 ex_c 2 true false) [LEnq [45; 1; 6; 0; 1; 0; 7; 0]; LRun 10 true false; LTest; LRun 250 false false] ex_st in
  lfail st' = false /\ pb_ps (lp st') = PLL_AVAILABLE /\ lT st' = [[45; 1; 6; 0; 1; 0; 7; 0]] /\ lD st' = [].
Proof. vm_compute. repeat split; reflexivity. Qed.
