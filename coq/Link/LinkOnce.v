(* C16 / C15, history level, unbalanced primary (one slave connection): along EVERY sequence of received frames, state-machine
   runs and application calls (send, request class 1/2, link test), a message handed over with sendConfirmed is written as a
   NEW user-data frame (fresh frame count bit, which the secondary delivers) at most once -- unless in between the link
   failure was reported through the state callback, the secondary answered negatively (service not functioning / not
   implemented: it did not take the frame), or the message was confirmed and a new one handed over.
   This is what the original code violates when a link test is requested while the user data waits for its confirmation
   (sc_message_new_once_refuted): the confirmation is given to the test request and the message goes out again as a new frame.
   Holds for the repaired code (variant fg). *)
From Coq Require Import ZArith List Bool Lia.
From L60870 Require Import Link.Ft12 Link.LinkSec Link.LinkPrim Link.LinkProofs Link.LinkHist.
Import ListNotations.
Local Open Scope Z_scope.

Inductive uev :=
| UMsg (now fc : Z) (acd dfc : bool) (address : Z) (msg : list Z) (uds udl : Z)   (* a frame of the slave was received *)
| URun (now : Z)                                                                 (* runStateMachine at clock value now *)
| USend (m : list Z)          (* LinkLayerPrimaryUnbalanced_sendConfirmed: taken only when no message is waiting (pu_send_confirmed) *)
| UReq (cls1 : bool)          (* requestClass1Data / requestClass2Data (pu_request) *)
| UTest.                      (* sendLinkLayerTestFunction (pu_test) *)

Definition u_step (v : variant) (c : llcfg) (s : sc) (e : uev) : sc * list out :=
  match e with
  | UMsg now fc acd dfc address msg uds udl => sc_handle v c now s fc acd dfc address msg uds udl
  | URun now => sc_run v c now s
  | USend m => (if sc_has s then s else sc_with_msg s true m, [])
  | UReq cls1 => (if cls1 then sc_with_r s true (sc_r2 s) else sc_with_r s (sc_r1 s) true, [])
  | UTest => (sc_with_test s true, [])
  end.

(* the monitor *)
Record mon := { m_sent : bool;     (* the waiting message has been written as a new frame already *)
                m_bad : bool }.    (* ... and was written as a new frame again *)

Definition neg_answer (e : uev) : bool :=
  match e with
  | UMsg _ fc _ dfc _ _ _ _ => if dfc then false else if fc =? 14 then true else if fc =? 15 then true else false
  | _ => false
  end.

Definition mon_step (s s' : sc) (e : uev) (m : mon) : mon :=
  if sc_ps s =? PLL_AVAILABLE then
    if sc_ps s' =? PLL_SEND_CONFIRM then {| m_sent := true; m_bad := if m_sent m then true else m_bad m |}      (* new user-data frame *)
    else m
  else if sc_ls s' =? LS_ERROR then
    if sc_ls s =? LS_ERROR then (if neg_answer e then {| m_sent := false; m_bad := m_bad m |} else m)
    else {| m_sent := false; m_bad := m_bad m |}                                                                (* failure reported *)
  else if neg_answer e then {| m_sent := false; m_bad := m_bad m |}
  else if sc_has s then (if sc_has s' then m else {| m_sent := false; m_bad := m_bad m |})                      (* confirmed *)
  else m.

Fixpoint u_mon (v : variant) (c : llcfg) (s : sc) (m : mon) (evs : list uev) : mon :=
  match evs with
  | [] => m
  | e :: r => let s' := fst (u_step v c s e) in u_mon v c s' (mon_step s s' e m) r
  end.

(* the invariant *)
Definition good (s : sc) (m : mon) : Prop :=
  (3 <= sc_ps s <= 6 -> sc_ls s <> LS_ERROR) /\                 (* AVAILABLE, SEND_CONFIRM, REQUEST_RESPOND, BUSY: link not in error *)
  (m_sent m = true -> sc_has s = true /\ (sc_ps s = PLL_SEND_CONFIRM \/ sc_ps s = PLL_BUSY)) /\
  m_bad m = false.

Ltac o_simpl := cbn [fst snd sc_ps sc_nfcb sc_ls sc_has sc_mk sc_with_ps sc_with_wait sc_with_r sc_with_lastsend sc_with_msg sc_with_test
                     m_sent m_bad andb orb negb Z.eqb Pos.eqb neg_answer]; cbv beta iota.
Ltac consts := unfold PLL_AVAILABLE, PLL_IDLE, PLL_REQ_STATUS, PLL_RESET, PLL_SEND_CONFIRM, PLL_BUSY, PLL_REQUEST_RESPOND, PLL_TIMEOUT,
                      LS_IDLE, LS_ERROR, LS_BUSY, LS_AVAILABLE in *.
Ltac leaf := unfold good; o_simpl; to_prop2; consts;
  repeat match goal with H : _ /\ _ |- _ => destruct H end;
  repeat split; intros;
  try match goal with H : true = true -> _ |- _ => specialize (H eq_refl) end;
  repeat match goal with H : _ /\ _ |- _ => destruct H end;
  try reflexivity; try discriminate; try congruence; try lia;
  try (match goal with H : ?a -> _ <> _ |- _ <> _ => apply H; lia end);
  try (left; lia); try (right; lia).

Lemma sc_handle_good : forall v c now s fc acd dfc address msg uds udl m, fg v = true -> good s m ->
  let s' := fst (sc_handle v c now s fc acd dfc address msg uds udl) in
  good s' (mon_step s s' (UMsg now fc acd dfc address msg uds udl) m).
Proof.
  intros v c now s fc acd dfc address msg uds udl [sent bad] Hg [G1 [G2 G3]]. cbv zeta.
  cbn [m_sent m_bad] in G2, G3. subst bad.
  unfold mon_step, sc_handle, sc_set_state. rewrite Hg.
  unfold PLL_AVAILABLE, PLL_IDLE, PLL_REQ_STATUS, PLL_RESET, PLL_SEND_CONFIRM, PLL_BUSY, PLL_REQUEST_RESPOND, PLL_TIMEOUT.
  destruct sent; [destruct (G2 eq_refl) as [Gh Gp]; rewrite Gh | clear G2];
  destruct dfc; destruct acd; o_simpl;
  repeat (hstep; o_simpl); leaf.
Qed.

Lemma sc_run_good : forall v c now s m, fg v = true -> good s m ->
  let s' := fst (sc_run v c now s) in good s' (mon_step s s' (URun now) m).
Proof.
  intros v c now s [sent bad] Hg [G1 [G2 G3]]. cbv zeta.
  cbn [m_sent m_bad] in G2, G3. subst bad.
  unfold mon_step, sc_run, sc_set_state, clamp. rewrite Hg.
  unfold PLL_AVAILABLE, PLL_IDLE, PLL_REQ_STATUS, PLL_RESET, PLL_SEND_CONFIRM, PLL_BUSY, PLL_REQUEST_RESPOND, PLL_TIMEOUT.
  destruct sent; [destruct (G2 eq_refl) as [Gh Gp]; rewrite Gh | clear G2]; o_simpl;
  repeat (hstep; o_simpl); leaf.
Qed.

Lemma u_step_good : forall v c s e m, fg v = true -> good s m ->
  let s' := fst (u_step v c s e) in good s' (mon_step s s' e m).
Proof.
  intros v c s e m Hg G. destruct e as [now fc acd dfc address msg uds udl | now | d | cls1 | ]; cbn [u_step].
  - apply sc_handle_good; assumption.
  - apply sc_run_good; assumption.
  - destruct m as [sent bad]. destruct G as [G1 [G2 G3]]. cbn [m_sent m_bad] in G2, G3. subst bad. cbv zeta. unfold mon_step.
    unfold PLL_AVAILABLE, PLL_SEND_CONFIRM.
    destruct sent; [destruct (G2 eq_refl) as [Gh Gp]; rewrite Gh | clear G2]; o_simpl; repeat (hstep; o_simpl); leaf.
  - destruct m as [sent bad]. destruct G as [G1 [G2 G3]]. cbn [m_sent m_bad] in G2, G3. subst bad. cbv zeta. unfold mon_step.
    unfold PLL_AVAILABLE, PLL_SEND_CONFIRM.
    destruct sent; [destruct (G2 eq_refl) as [Gh Gp]; rewrite Gh | clear G2]; destruct cls1; o_simpl; repeat (hstep; o_simpl); leaf.
  - destruct m as [sent bad]. destruct G as [G1 [G2 G3]]. cbn [m_sent m_bad] in G2, G3. subst bad. cbv zeta. unfold mon_step.
    unfold PLL_AVAILABLE, PLL_SEND_CONFIRM.
    destruct sent; [destruct (G2 eq_refl) as [Gh Gp]; rewrite Gh | clear G2]; o_simpl; repeat (hstep; o_simpl); leaf.
Qed.

Theorem sc_message_new_once : forall v c evs s m, fg v = true -> good s m -> m_bad (u_mon v c s m evs) = false.
Proof.
  intros v c evs. induction evs as [|e r IH]; intros s m Hg G; cbn [u_mon].
  - exact (proj2 (proj2 G)).
  - apply IH; [exact Hg | apply u_step_good; assumption].
Qed.

Corollary sc_message_new_once_from_power_up : forall v c a evs, fg v = true ->
  m_bad (u_mon v c (sc_init a) {| m_sent := false; m_bad := false |} evs) = false.
Proof.
  intros v c a evs Hg. apply sc_message_new_once; [exact Hg|]. unfold good, sc_init. cbn [sc_ps sc_ls m_sent m_bad].
  unfold PLL_IDLE. repeat split; try discriminate; intros; lia.
Qed.

(* what the monitor's "new user-data frame" is on the line: exactly one frame, function code 3, FCV = 1, the frame count bit
   nextFcb and the waiting message as user data -- a frame the secondary delivers when the bit is the expected one *)
Theorem new_data_frame_octets : forall v c now s,
  sc_ps s = PLL_AVAILABLE -> sc_ps (fst (sc_run v c now s)) = PLL_SEND_CONFIRM ->
  snd (sc_run v c now s) = tx_opt (enc_var (alen c) 3 (sc_addr s) true false (sc_nfcb s) true (sc_msg s)) /\ sc_has s = true.
Proof.
  intros v c now s Hs. unfold sc_run. rewrite Hs.
  unfold PLL_AVAILABLE, PLL_IDLE, PLL_REQ_STATUS, PLL_RESET, PLL_SEND_CONFIRM, PLL_BUSY, PLL_REQUEST_RESPOND, PLL_TIMEOUT.
  o_simpl. repeat (hstep; o_simpl); intros H; try discriminate H; try (rewrite Hs in H; discriminate H); split; reflexivity.
Qed.

(* "failure reported" of the monitor is the callback: the state variable changes to ERROR exactly when the callback fires *)
Theorem failure_is_reported : forall v c s e, sc_ls s <> LS_ERROR -> sc_ls (fst (u_step v c s e)) = LS_ERROR ->
  In (OLs (sc_addr s) LS_ERROR) (snd (u_step v c s e)).
Proof.
  intros v c s e Hn. destruct e as [now fc acd dfc address msg uds udl | now | d | cls1 | ]; cbn [u_step].
  - unfold sc_handle, sc_set_state.
    unfold PLL_AVAILABLE, PLL_IDLE, PLL_REQ_STATUS, PLL_RESET, PLL_SEND_CONFIRM, PLL_BUSY, PLL_REQUEST_RESPOND, PLL_TIMEOUT, LS_ERROR, LS_BUSY, LS_AVAILABLE in *.
    destruct dfc; destruct acd; o_simpl; repeat (hstep; o_simpl); intros H; try (exfalso; to_prop2; congruence);
      try discriminate H; cbn [In app]; rewrite ?in_app_iff; cbn [In]; auto.
  - unfold sc_run, sc_set_state, clamp.
    unfold PLL_AVAILABLE, PLL_IDLE, PLL_REQ_STATUS, PLL_RESET, PLL_SEND_CONFIRM, PLL_BUSY, PLL_REQUEST_RESPOND, PLL_TIMEOUT, LS_ERROR, LS_BUSY, LS_AVAILABLE in *.
    o_simpl; repeat (hstep; o_simpl); intros H; try (exfalso; to_prop2; congruence); try discriminate H; cbn [In]; auto.
  - destruct (sc_has s); o_simpl; intros H; congruence.
  - destruct cls1; o_simpl; intros H; congruence.
  - o_simpl. intros H; congruence.
Qed.

(* the original code: send, request a link test while the frame waits, confirmation, run: the SAME message is a new frame again *)
Theorem sc_message_new_once_refuted : exists v c s evs,
  fg v = false /\ good s {| m_sent := false; m_bad := false |} /\
  m_bad (u_mon v c s {| m_sent := false; m_bad := false |} evs) = true.
Proof.
  exists {| fa := true; fb := true; fc_ := true; fd := true; fe := true; ff := true; fg := false; fh := false; fi := false |},
         {| alen := 1; single_ack := false; t_ack := 200; t_rep := 1000; t_ls := 5000 |},
         (sc_mk (sc_init 1) LS_AVAILABLE PLL_AVAILABLE false [] 1000 1000 false false false false true 11),
         [USend [45; 1; 6; 0; 1; 0; 7; 0]; URun 1000; UTest; UMsg 1050 0 false false 1 [] 0 0; URun 1070].
  split; [reflexivity|]. split; [|vm_compute; reflexivity].
  unfold good. cbn [sc_ps sc_ls sc_mk m_sent m_bad]. unfold LS_AVAILABLE, LS_ERROR. repeat split; try discriminate; intros; lia.
Qed.
