(* C16: the unbalanced line whose slave keeps its class queues in the literal rings of cs101_queue.c (Link/LinkSecQ.v).  Every step
   of this line is, under the abstraction of the rings, a step of the line with bounded FIFO queues (Link/LinkLineUQ.v), whose
   invariant and exactly-once statement are those of Link/LinkLineU.v: the composition link layers x line x class-queue rings. *)
From Coq Require Import ZArith List Bool Lia.
From L60870 Require Import Link.Ft12 Link.Ft12Proofs Link.LinkSec Link.LinkPrim Link.LinkProofs Link.LinkLineU Link.LinkLineM Link.Cs101Queue
  Link.Cs101QueueProofs Link.LinkSecQ Link.LinkLineUQ.
Import ListNotations.
Local Open Scope Z_scope.

Record ulineR := { rm : sc; rs : suq; rT : list (list Z); rD : list (list Z); rR : list (list Z); rU : list (list Z); rfail : bool }.
Definition absR (st : ulineR) : uline :=
  {| um := rm st; us := suq_abs (rs st); uT := rT st; uD := rD st; uR := rR st; uU := rU st; ufail := rfail st |}.

Section LineUR.
Variables (v : variant) (c : llcfg).

Definition ucross_r (now : Z) (l1 l2 : bool) (m1 : sc) (x : suq) (o1 : list out) : sc * suq * list (list Z) * list (list Z) * list out :=
  match uframes o1 with
  | f :: _ =>
      if l1 then (m1, x, [], [], [])
      else let '(x1, ob) := su_on_msg_r v c now x f in
           match uframes ob with
           | a :: _ => if l2 then (m1, x1, uinds ob, [], []) else let '(m2, oa) := m_recv v c now m1 a in (m2, x1, uinds ob, uuds oa, oa)
           | [] => (m1, x1, uinds ob, [], [])
           end
  | [] => (m1, x, [], [], [])
  end.

Definition ustep_r (st : ulineR) (e : uev) : ulineR :=
  match e with
  | URun now l1 l2 =>
      let '(m1, o1) := sc_run v c now (rm st) in
      let '(m2, x2, dl, ul, oa) := ucross_r now l1 l2 m1 (rs st) o1 in
      {| rm := m2; rs := x2; rT := rT st ++ unew (rm st) m1; rD := rD st ++ dl; rR := rR st ++ udeq (suq_abs (rs st)) (suq_abs x2); rU := rU st ++ ul;
         rfail := rfail st || ureports_error o1 || ureports_error oa |}
  | UMsg d => {| rm := if negb (sc_has (rm st)) && umsg_okb c d then sc_with_msg (rm st) true d else rm st;
                 rs := rs st; rT := rT st; rD := rD st; rR := rR st; rU := rU st; rfail := rfail st |}
  | UReq cls => {| rm := if cls then sc_with_r (rm st) true (sc_r2 (rm st)) else sc_with_r (rm st) (sc_r1 (rm st)) true;
                   rs := rs st; rT := rT st; rD := rD st; rR := rR st; rU := rU st; rfail := rfail st |}
  | UTest => {| rm := sc_with_test (rm st) true; rs := rs st; rT := rT st; rD := rD st; rR := rR st; rU := rU st; rfail := rfail st |}
  | UEnq cls d => {| rm := rm st; rs := if umsg_okb c d then suq_enqueue (rs st) cls d else rs st;
                     rT := rT st; rD := rD st; rR := rR st; rU := rU st; rfail := rfail st |}
  end.

Lemma uline_ext a b : um a = um b -> us a = us b -> uT a = uT b -> uD a = uD b -> uR a = uR b -> uU a = uU b -> ufail a = ufail b -> a = b.
Proof. destruct a as [a1 a2 a3 a4 a5 a6 a7], b as [b1 b2 b3 b4 b5 b6 b7]; cbn [um us uT uD uR uU ufail]; intros; subst; reflexivity. Qed.

Definition sizes (x : suq) : Z * Z := (q_size (sq_1 x), q_size (sq_2 x)).

Lemma on_msg_r_sizes now x msg : QI x -> sizes (fst (su_on_msg_r v c now x msg)) = sizes x.
Proof.
  intros HQ. unfold su_on_msg_r. set (x1 := suq_with_s x (su_with_lastrx (sq_s x) now)).
  destruct (parse_su (ff v) (alen c) (su_addr (sq_s x1)) msg) as [| |fc bc fcb fcv uds udl].
  - destruct (su_set_state (sq_s x1) LS_ERROR) as [s' o]. reflexivity.
  - reflexivity.
  - destruct (handle_r_sizes (fi v) c x1 fc bc fcb fcv msg uds udl HQ) as [A B]. unfold sizes. rewrite A, B. reflexivity.
Qed.

Lemma enqueue_sizes x cls d : sizes (suq_enqueue x cls d) = sizes x.
Proof. unfold sizes, suq_enqueue, cq_enqueue. destruct cls; cbn [sq_1 sq_2]; destruct (negb (q_count _ =? q_size _)); reflexivity. Qed.

Theorem ustep_r_refines st e : QI (rs st) ->
  absR (ustep_r st e) = ustepq v c (fst (sizes (rs st))) (snd (sizes (rs st))) (absR st) e /\
  QI (rs (ustep_r st e)) /\ sizes (rs (ustep_r st e)) = sizes (rs st).
Proof.
  intros HQ. destruct e as [now l1 l2|d|cl| |cls d]; cbn [ustep_r ustepq ustep].
  - (* a run of the master *)
    cbn [absR um us]. destruct (sc_run v c now (rm st)) as [m1 o1]. unfold ucross_r, ucross.
    destruct (uframes o1) as [|f fr].
    { cbn [absR rm rs rT rD rR rU rfail]. split; [reflexivity|]. split; [exact HQ | reflexivity]. }
    destruct l1.
    { cbn [absR rm rs rT rD rR rU rfail]. split; [reflexivity|]. split; [exact HQ | reflexivity]. }
    destruct (su_on_msg_r_refines v c now (rs st) f HQ) as [E Q]. pose proof (on_msg_r_sizes now (rs st) f HQ) as S. rewrite E.
    destruct (su_on_msg_r v c now (rs st) f) as [x1 ob]. cbn [fst snd] in *.
    destruct (uframes ob) as [|a ar].
    { cbn [absR rm rs rT rD rR rU rfail]. split; [reflexivity|]. split; [exact Q | exact S]. }
    destruct l2.
    { cbn [absR rm rs rT rD rR rU rfail]. split; [reflexivity|]. split; [exact Q | exact S]. }
    destruct (m_recv v c now m1 a) as [m2 oa]. cbn [absR rm rs rT rD rR rU rfail]. split; [reflexivity|]. split; [exact Q | exact S].
  - split; [reflexivity|]. split; [exact HQ | reflexivity].
  - split; [reflexivity|]. split; [exact HQ | reflexivity].
  - split; [reflexivity|]. split; [exact HQ | reflexivity].
  - (* the slave application hands over an ASDU *)
    destruct (umsg_okb c d) eqn:Eo; cbn [rs].
    2:{ split; [reflexivity|]. split; [exact HQ | reflexivity]. }
    destruct (suq_enqueue_refines (rs st) cls d HQ) as [Q E]. split; [|split; [exact Q | apply enqueue_sizes]].
    pose proof (ustepq_enqueue v c (fst (sizes (rs st))) (snd (sizes (rs st))) (absR st) cls d Eo) as U.
    unfold ustepq in U. rewrite Eo in U.
    set (L := ustep v c (if qfull (fst (sizes (rs st))) (snd (sizes (rs st))) (absR st) cls then udrop (absR st) cls else absR st) (UEnq cls d)) in *.
    assert (F : um L = rm st /\ uT L = rT st /\ uD L = rD st /\ uR L = rR st /\ uU L = rU st /\ ufail L = rfail st).
    { unfold L. destruct (qfull _ _ (absR st) cls); cbn [ustep um uT uD uR uU ufail udrop absR]; repeat split; reflexivity. }
    destruct F as (F1 & F2 & F3 & F4 & F5 & F6).
    apply uline_ext; cbn [absR um us uT uD uR uU ufail rm rs rT rD rR rU rfail]; try (symmetry; assumption).
    rewrite E. unfold fifo_enqueue, qfull, udrop, sizes. cbn [absR us um fst snd suq_abs su_with_q su_q1 su_q2 negb].
    destruct cls.
    + destruct (Z.of_nat (length (cq_abs (sq_1 (rs st)))) <? q_size (sq_1 (rs st))); reflexivity.
    + destruct (Z.of_nat (length (cq_abs (sq_2 (rs st)))) <? q_size (sq_2 (rs st))); reflexivity.
Qed.

(* every history: the line with the ring-backed slave is, under the abstraction, the line with bounded FIFO class queues *)
Theorem uline_r_refines : forall evs st, QI (rs st) ->
  absR (fold_left ustep_r evs st) = fold_left (ustepq v c (fst (sizes (rs st))) (snd (sizes (rs st)))) evs (absR st) /\
  QI (rs (fold_left ustep_r evs st)).
Proof.
  induction evs as [|e r IH]; intros st HQ; cbn [fold_left]; [split; [reflexivity | exact HQ]|].
  destruct (ustep_r_refines st e HQ) as (E & Q & S). destruct (IH _ Q) as [E2 Q2]. rewrite S in E2. rewrite E2, E. split; [reflexivity | exact Q2].
Qed.
End LineUR.

(* the composition: literal unbalanced primary x literal unbalanced secondary x literal class-queue rings over a lossy line, every
   history: delivered = taken from the rings, in order, each once, except possibly the one outstanding item, in both directions *)
Theorem uline_r_exactly_once v c addr : 0 <= alen c <= 2 -> fc_ v = true -> fg v = true -> fh v = true -> fi v = true ->
  addr_in_range (alen c) addr -> addr <> broadcast_addr (alen c) ->
  forall evs st, QI (rs st) -> JU c addr (absR st) -> rfail st = false ->
  let st' := fold_left (ustep_r v c) evs st in rfail st' = false ->
  (rD st' = rT st' \/ (rT st' = rD st' ++ [sc_msg (rm st')] /\ sc_ps (rm st') = PLL_SEND_CONFIRM)) /\
  (rU st' = rR st' \/ (rR st' = rU st' ++ [su_udbuf (sq_s (rs st'))] /\ sc_ps (rm st') = PLL_REQUEST_RESPOND)).
Proof.
  intros Hal Hfc Hfg Hfh Hfi Har Hnb evs st HQ HJ Hf st' Hend.
  destruct (uline_r_refines v c evs st HQ) as [E _]. fold st' in E.
  pose proof (ulineq_exactly_once v c addr Hal Hfc Hfg Hfh Hfi Har Hnb (fst (sizes (rs st))) (snd (sizes (rs st))) evs (absR st) HJ Hf) as X.
  cbv zeta in X. rewrite <- E in X. exact (X Hend).
Qed.

(* non-vacuity: class 1 ring of ONE entry: two ASDUs handed over (the first is displaced before the link layer takes it), class 2 ring
   of two entries; requests with a lost request and a lost response: what was taken is delivered exactly once, the displaced ASDU is
   the only loss, and it never was the link's *)
Definition uexr_st : ulineR :=
  {| rm := um uex_st; rs := {| sq_s := us uex_st; sq_1 := cq_init 1; sq_2 := cq_init 2 |}; rT := []; rD := []; rR := []; rU := []; rfail := false |}.
Example uline_r_hypotheses : QI (rs uexr_st) /\ absR uexr_st = uex_st.
Proof. split; [split; apply QInv_init; lia | reflexivity]. Qed.
Example uline_r_example :
  let st' := fold_left (ustep_r uex_v uex_c) uex_evs uexr_st in
  rfail st' = false /\ rD st' = [[45; 1; 6; 0; 1; 0; 7]] /\ rT st' = rD st' /\
  rU st' = [[30; 1; 3; 0; 1; 0; 2]; [9; 1; 3; 0; 1; 0; 3]] /\ rR st' = rU st'.
Proof. vm_compute. repeat split; reflexivity. Qed.
Example uline_r_invariant_holds_initially : JU uex_c 3 (absR uexr_st).
Proof.
  unfold JU, absR, uexr_st, uex_st. cbn.
  split; [reflexivity|]. split; [reflexivity|]. split; [reflexivity|]. split; [reflexivity|]. split; [constructor|]. split; [constructor|].
  split; [intros X; discriminate X|]. left. repeat split; reflexivity.
Qed.
