(* C16: the unbalanced line (one slave connection) with frames IN TRANSIT.  Same stations as Link/LinkLineU.v (literal sc_run /
   sc_handle of the master's slave connection, literal su_on_msg of the slave, octets parsed by the literal parsers), but a frame the
   master writes stays on the line until a later event delivers it to the slave or loses it, and likewise the slave's answer:
   master runs at any clock values, deliveries, losses and application calls on either side interleave in any order.
   Timing assumption of the procedure (IEC 60870-5-2: the acknowledgement timeout exceeds the round trip): nothing is transmitted
   while a frame or its answer is still in transit; a breach raises the flag `xtm`, the theorem is about histories in which it
   stays down (without it the statement is false of the procedure itself, see Link/LinkLineD.v). *)
From Coq Require Import ZArith List Bool Lia.
From L60870 Require Import Link.Ft12 Link.Ft12Proofs Link.Ft12Bp Link.LinkSec Link.LinkPrim Link.LinkProofs Link.LinkLineU.
Import ListNotations.
Local Open Scope Z_scope.

Record udl := { xm : sc; xs : su; xT : list (list Z); xD : list (list Z); xR : list (list Z); xU : list (list Z);
                xAB : option (list Z); xBA : option (list Z); xfl : bool; xtm : bool }.

Inductive udev :=
| XRunM (now : Z)                 (* the master runs this slave connection *)
| XToS (now : Z)                  (* the frame in transit reaches the slave *)
| XToM (now : Z)                  (* the slave's answer in transit reaches the master *)
| XLoseAB | XLoseBA               (* what is in transit is lost *)
| XMsg (d : list Z) | XReq (class1 : bool) | XTest | XEnq (class1 : bool) (d : list Z).

Definition ffirst (o : list out) : option (list Z) := match uframes o with f :: _ => Some f | [] => None end.
Definition xocc (st : udl) : bool := match xAB st, xBA st with None, None => false | _, _ => true end.

Section LineUD.
Variables (v : variant) (c : llcfg) (addr : Z).
Hypothesis Hal : 0 <= alen c <= 2.
Hypothesis Hfc : fc_ v = true.
Hypothesis Hfg : fg v = true.
Hypothesis Hfh : fh v = true.
Hypothesis Hfi : fi v = true.
Hypothesis Har : addr_in_range (alen c) addr.
Hypothesis Hnb : addr <> broadcast_addr (alen c).

Definition xstep (st : udl) (e : udev) : udl :=
  match e with
  | XRunM now =>
      let '(m1, o1) := sc_run v c now (xm st) in
      match ffirst o1 with
      | Some f => {| xm := m1; xs := xs st; xT := xT st ++ unew (xm st) m1; xD := xD st; xR := xR st; xU := xU st; xAB := Some f; xBA := xBA st;
                     xfl := xfl st || ureports_error o1; xtm := xtm st || xocc st |}
      | None => {| xm := m1; xs := xs st; xT := xT st ++ unew (xm st) m1; xD := xD st; xR := xR st; xU := xU st; xAB := xAB st; xBA := xBA st;
                   xfl := xfl st || ureports_error o1; xtm := xtm st |}
      end
  | XToS now =>
      match xAB st with
      | Some f => let '(s1, ob) := su_on_msg v c now (xs st) f in
                  {| xm := xm st; xs := s1; xT := xT st; xD := xD st ++ uinds ob; xR := xR st ++ udeq (xs st) s1; xU := xU st; xAB := None;
                     xBA := match ffirst ob with Some a => Some a | None => xBA st end; xfl := xfl st;
                     xtm := xtm st || (match ffirst ob, xBA st with Some _, Some _ => true | _, _ => false end) |}
      | None => st
      end
  | XToM now =>
      match xBA st with
      | Some a => let '(m2, oa) := m_recv v c now (xm st) a in
                  {| xm := m2; xs := xs st; xT := xT st; xD := xD st; xR := xR st; xU := xU st ++ uuds oa; xAB := xAB st; xBA := None;
                     xfl := xfl st || ureports_error oa; xtm := xtm st |}
      | None => st
      end
  | XLoseAB => {| xm := xm st; xs := xs st; xT := xT st; xD := xD st; xR := xR st; xU := xU st; xAB := None; xBA := xBA st; xfl := xfl st; xtm := xtm st |}
  | XLoseBA => {| xm := xm st; xs := xs st; xT := xT st; xD := xD st; xR := xR st; xU := xU st; xAB := xAB st; xBA := None; xfl := xfl st; xtm := xtm st |}
  | XMsg d => {| xm := if negb (sc_has (xm st)) && umsg_okb c d then sc_with_msg (xm st) true d else xm st;
                 xs := xs st; xT := xT st; xD := xD st; xR := xR st; xU := xU st; xAB := xAB st; xBA := xBA st; xfl := xfl st; xtm := xtm st |}
  | XReq cls => {| xm := if cls then sc_with_r (xm st) true (sc_r2 (xm st)) else sc_with_r (xm st) (sc_r1 (xm st)) true;
                   xs := xs st; xT := xT st; xD := xD st; xR := xR st; xU := xU st; xAB := xAB st; xBA := xBA st; xfl := xfl st; xtm := xtm st |}
  | XTest => {| xm := sc_with_test (xm st) true; xs := xs st; xT := xT st; xD := xD st; xR := xR st; xU := xU st; xAB := xAB st; xBA := xBA st;
                xfl := xfl st; xtm := xtm st |}
  | XEnq cls d => {| xm := xm st;
                     xs := if umsg_okb c d then (if cls then su_with_q (xs st) (su_q1 (xs st) ++ [d]) (su_q2 (xs st))
                                                  else su_with_q (xs st) (su_q1 (xs st)) (su_q2 (xs st) ++ [d])) else xs st;
                     xT := xT st; xD := xD st; xR := xR st; xU := xU st; xAB := xAB st; xBA := xBA st; xfl := xfl st; xtm := xtm st |}
  end.

(* the frame the master is waiting to have answered *)
Definition fr_msg (nf : bool) (msg f : list Z) : Prop := enc_var (alen c) 3 addr true false (negb nf) true msg = Some f.
Definition fr_fix (fc : Z) (nf : bool) (f : list Z) : Prop := f = enc_fixed (alen c) fc addr true false (negb nf) true.
(* nothing under way towards the master, and towards the slave nothing or the outstanding frame *)
Definition quiet_or (st : udl) (F : list Z -> Prop) : Prop := xBA st = None /\ (xAB st = None \/ exists f, xAB st = Some f /\ F f).
(* the slave's answer under way *)
Definition answer (st : udl) (A : list Z -> Prop) : Prop := xAB st = None /\ exists a, xBA st = Some a /\ A a.

Definition JUD (st : udl) : Prop :=
  let m := xm st in let s := xs st in
  sc_ls m = LS_AVAILABLE /\ sc_addr m = addr /\ su_addr s = addr /\ su_ls s = LS_AVAILABLE /\
  Forall (umsg_ok c) (su_q1 s) /\ Forall (umsg_ok c) (su_q2 s) /\ (sc_has m = true -> umsg_ok c (sc_msg m)) /\
  ((sc_ps m = PLL_AVAILABLE /\ sc_nfcb m = su_efcb s /\ xD st = xT st /\ xU st = xR st /\ xAB st = None /\ xBA st = None) \/
   (sc_ps m = PLL_SEND_CONFIRM /\ sc_has m = true /\ xU st = xR st /\
      exists pre, xT st = pre ++ [sc_msg m] /\
        ((su_efcb s = negb (sc_nfcb m) /\ xD st = pre /\ quiet_or st (fr_msg (sc_nfcb m) (sc_msg m))) \/
         (su_efcb s = sc_nfcb m /\ xD st = pre ++ [sc_msg m] /\
            (quiet_or st (fr_msg (sc_nfcb m) (sc_msg m)) \/ answer st (fun a => exists acd, a = short_frame c addr 0 acd))))) \/
   (sc_ps m = PLL_REQUEST_RESPOND /\ sc_lastfc m = 2 /\ xD st = xT st /\ xU st = xR st /\
      (quiet_or st (fr_fix 2 (sc_nfcb m)) \/
       (su_efcb s = sc_nfcb m /\ answer st (fun a => a = enc_fixed (alen c) 15 addr false false false false)))) \/
   (sc_ps m = PLL_REQUEST_RESPOND /\ (sc_lastfc m = 10 \/ sc_lastfc m = 11) /\ xD st = xT st /\
      ((su_efcb s = negb (sc_nfcb m) /\ xU st = xR st /\ quiet_or st (fr_fix (sc_lastfc m) (sc_nfcb m))) \/
       (su_efcb s = sc_nfcb m /\
          ((su_udsz s = 0 /\ xU st = xR st /\
              (quiet_or st (fr_fix (sc_lastfc m) (sc_nfcb m)) \/ answer st (fun a => exists acd, a = short_frame c addr 9 acd))) \/
           (exists pre d, xR st = pre ++ [d] /\ xU st = pre /\ su_udbuf s = d /\ su_udsz s = lenz d /\ umsg_ok c d /\
              (quiet_or st (fr_fix (sc_lastfc m) (sc_nfcb m)) \/
               answer st (fun a => exists acd, enc_var (alen c) 8 addr false false acd false d = Some a)))))))).

Ltac xus := cbn [xm xs xT xD xR xU xAB xBA xfl xtm].
Ltac xus_in H := cbn [xm xs xT xD xR xU xAB xBA xfl xtm] in H.
Ltac scs := cbn [sc_addr sc_ls sc_ps sc_has sc_msg sc_lastsend sc_origsend sc_r1 sc_r2 sc_wait sc_test sc_nfcb sc_lastfc
                 sc_mk sc_with_ps sc_with_wait sc_with_r sc_with_lastsend sc_with_msg sc_with_test
                 su_ls su_efcb su_udsz su_udbuf su_lastrx su_idle su_addr su_q1 su_q2
                 su_with_ls su_with_efcb su_with_ud su_with_lastrx su_with_q fst snd].
Ltac scs2 := unfold sc_with_lastsend, sc_with_wait, sc_with_ps, sc_with_r, sc_with_msg, sc_with_test, sc_mk; scs.
Ltac scs_in H := cbn [sc_addr sc_ls sc_ps sc_has sc_msg sc_lastsend sc_origsend sc_r1 sc_r2 sc_wait sc_test sc_nfcb sc_lastfc su_ls su_efcb su_udsz su_udbuf su_lastrx su_idle su_addr su_q1 su_q2] in H.
Ltac ufr := cbn [uframes uinds uuds flat_map app ureports_error existsb orb ffirst].
Ltac base Hq1 Hq2 Hm :=
  unfold JUD; xus; unfold SC, SU; scs;
  split; [reflexivity|]; split; [reflexivity|]; split; [reflexivity|]; split; [reflexivity|];
  split; [exact Hq1|]; split; [exact Hq2|]; split; [exact Hm|].
Ltac un0 := unfold unew, SC; scs; cbn [Z.eqb Pos.eqb andb app]; rewrite ?app_nil_r.

Notation SCa := (SC addr).
Notation SUa := (SU addr).

(* ---- the master runs *)
Lemma JUD_run_available has msg y6 y7 r1 r2 wt tst nf lfc usz ubuf lrx idl q1 q2 T R now :
  let st := {| xm := SCa PLL_AVAILABLE has msg y6 y7 r1 r2 wt tst nf lfc; xs := SUa nf usz ubuf lrx idl q1 q2;
              xT := T; xD := T; xR := R; xU := R; xAB := None; xBA := None; xfl := false; xtm := false |} in
  Forall (umsg_ok c) q1 -> Forall (umsg_ok c) q2 -> (has = true -> umsg_ok c msg) -> JUD (xstep st (XRunM now)).
Proof.
  intros st Hq1 Hq2 Hm. unfold st, xstep. xus. unfold sc_run, SC. scs. rewrite Hfg.
  unfold PLL_AVAILABLE, PLL_IDLE, PLL_REQ_STATUS, PLL_RESET, PLL_SEND_CONFIRM, PLL_REQUEST_RESPOND, PLL_TIMEOUT. cbn [Z.eqb Pos.eqb negb].
  destruct tst.
  { ufr. un0. base Hq1 Hq2 Hm. right; right; left. split; [reflexivity|]. split; [reflexivity|]. split; [reflexivity|]. split; [reflexivity|].
    left. split; [reflexivity|]. right. eexists. split; [reflexivity|]. unfold fr_fix. rewrite negb_involutive. reflexivity. }
  destruct has.
  { specialize (Hm eq_refl). destruct (uenc_var_some c addr 3 true nf true msg Hm) as (f & Ef). rewrite Ef. cbn [tx_opt]. ufr. un0.
    base Hq1 Hq2 (fun _ : true = true => Hm). right; left. split; [reflexivity|]. split; [reflexivity|]. split; [reflexivity|].
    exists T. split; [reflexivity|]. left. split; [rewrite negb_involutive; reflexivity|]. split; [reflexivity|].
    split; [reflexivity|]. right. exists f. split; [reflexivity|]. unfold fr_msg. rewrite negb_involutive. exact Ef. }
  destruct r1.
  { cbn [orb]. ufr. un0. base Hq1 Hq2 Hm. right; right; right. split; [reflexivity|]. split; [left; reflexivity|]. split; [reflexivity|].
    left. split; [rewrite negb_involutive; reflexivity|]. split; [reflexivity|]. split; [reflexivity|]. right. eexists. split; [reflexivity|].
    unfold fr_fix. rewrite negb_involutive. reflexivity. }
  destruct r2.
  { cbn [orb]. ufr. un0. base Hq1 Hq2 Hm. right; right; right. split; [reflexivity|]. split; [right; reflexivity|]. split; [reflexivity|].
    left. split; [rewrite negb_involutive; reflexivity|]. split; [reflexivity|]. split; [reflexivity|]. right. eexists. split; [reflexivity|].
    unfold fr_fix. rewrite negb_involutive. reflexivity. }
  cbn [orb]. ufr. un0. base Hq1 Hq2 Hm. left. repeat split; reflexivity.
Qed.

Lemma xocc_false st : xocc st = false -> xAB st = None /\ xBA st = None.
Proof. unfold xocc. destruct (xAB st), (xBA st); intros H; try discriminate H; split; reflexivity. Qed.

Lemma JUD_run_send_confirm msg y6 y7 r1 r2 wt tst nf lfc e usz ubuf lrx idl q1 q2 T D R ab ba now :
  let st := {| xm := SCa PLL_SEND_CONFIRM true msg y6 y7 r1 r2 wt tst nf lfc; xs := SUa e usz ubuf lrx idl q1 q2;
              xT := T; xD := D; xR := R; xU := R; xAB := ab; xBA := ba; xfl := false; xtm := false |} in
  JUD st -> xfl (xstep st (XRunM now)) = false -> xtm (xstep st (XRunM now)) = false -> JUD (xstep st (XRunM now)).
Proof.
  intros st HJ. unfold st in HJ |- *. unfold JUD in HJ. xus_in HJ. unfold SC, SU in HJ. scs_in HJ.
  destruct HJ as (_ & _ & _ & _ & Hq1 & Hq2 & Hm & HJ). specialize (Hm eq_refl).
  destruct HJ as [(X & _) | [(_ & _ & _ & pre & HT & Hrec) | [(X & _) | (X & _)]]]; try discriminate X.
  unfold xstep. xus. unfold sc_run, SC. scs. rewrite Hfg.
  unfold PLL_AVAILABLE, PLL_IDLE, PLL_REQ_STATUS, PLL_RESET, PLL_SEND_CONFIRM, PLL_REQUEST_RESPOND, PLL_TIMEOUT. cbn [Z.eqb Pos.eqb negb andb].
  set (lsd := clamp y6 now).
  destruct (now >? lsd + t_ack c) eqn:Ea.
  2:{ ufr. scs2. intros _ _. un0. base Hq1 Hq2 (fun _ : true = true => Hm). right; left.
      split; [reflexivity|]. split; [reflexivity|]. split; [reflexivity|]. exists pre. split; [exact HT | exact Hrec]. }
  destruct (now >? y7 + t_rep c) eqn:Er.
  { unfold sc_set_state. scs. unfold LS_AVAILABLE, LS_ERROR. cbn [Z.eqb Pos.eqb]. ufr. cbn [Z.eqb Pos.eqb orb]. intros X. discriminate X. }
  destruct (uenc_var_some c addr 3 true (negb nf) true msg Hm) as (f & Ef). rewrite Ef. cbn [tx_opt]. ufr. scs2. intros _ Ht. xus_in Ht.
  cbn [orb] in Ht. destruct (xocc_false _ Ht) as [Hab Hba]. xus_in Hab. xus_in Hba. subst ab ba.
  un0. base Hq1 Hq2 (fun _ : true = true => Hm). right; left.
  split; [reflexivity|]. split; [reflexivity|]. split; [reflexivity|]. exists pre. split; [exact HT|].
  assert (Q : quiet_or {| xm := SCa 4 true msg now y7 r1 r2 wt tst nf lfc; xs := SUa e usz ubuf lrx idl q1 q2; xT := T; xD := D; xR := R; xU := R;
                          xAB := Some f; xBA := None; xfl := false; xtm := false |} (fr_msg nf msg)).
  { split; [reflexivity|]. right. exists f. split; [reflexivity | exact Ef]. }
  destruct Hrec as [(A & B & _) | (A & B & _)].
  - left. split; [exact A|]. split; [exact B | exact Q].
  - right. split; [exact A|]. split; [exact B|]. left. exact Q.
Qed.

Lemma JUD_run_rr has msg y6 y7 r1 r2 wt tst nf lfc e usz ubuf lrx idl q1 q2 T D R U ab ba now :
  let st := {| xm := SCa PLL_REQUEST_RESPOND has msg y6 y7 r1 r2 wt tst nf lfc; xs := SUa e usz ubuf lrx idl q1 q2;
              xT := T; xD := D; xR := R; xU := U; xAB := ab; xBA := ba; xfl := false; xtm := false |} in
  JUD st -> xfl (xstep st (XRunM now)) = false -> xtm (xstep st (XRunM now)) = false -> JUD (xstep st (XRunM now)).
Proof.
  intros st HJ. unfold st in HJ |- *. unfold JUD in HJ. xus_in HJ. unfold SC, SU in HJ. scs_in HJ.
  destruct HJ as (_ & _ & _ & _ & Hq1 & Hq2 & Hm & HJ).
  destruct HJ as [(X & _) | [(X & _) | HJ]]; try discriminate X.
  unfold xstep. xus. unfold sc_run, SC. scs. rewrite Hfc.
  unfold PLL_AVAILABLE, PLL_IDLE, PLL_REQ_STATUS, PLL_RESET, PLL_SEND_CONFIRM, PLL_REQUEST_RESPOND, PLL_TIMEOUT. cbn [Z.eqb Pos.eqb negb andb].
  set (lsd := clamp y6 now).
  destruct (now >? lsd + t_ack c) eqn:Ea.
  2:{ ufr. scs2. intros _ _. un0. base Hq1 Hq2 Hm. right; right. exact HJ. }
  destruct (now >? y7 + t_rep c) eqn:Er.
  { unfold sc_set_state. scs2. unfold LS_AVAILABLE, LS_ERROR. cbn [Z.eqb Pos.eqb]. ufr. cbn [Z.eqb Pos.eqb orb]. intros X. discriminate X. }
  ufr. scs2. intros _ Ht. xus_in Ht. cbn [orb] in Ht. destruct (xocc_false _ Ht) as [Hab Hba]. xus_in Hab. xus_in Hba. subst ab ba.
  un0. base Hq1 Hq2 Hm. right; right.
  assert (Q : quiet_or {| xm := SCa 5 has msg now y7 r1 r2 wt tst nf lfc; xs := SUa e usz ubuf lrx idl q1 q2; xT := T; xD := D; xR := R; xU := U;
                          xAB := Some (enc_fixed (alen c) lfc addr true false (negb nf) true); xBA := None; xfl := false; xtm := false |} (fr_fix lfc nf)).
  { split; [reflexivity|]. right. eexists. split; [reflexivity | reflexivity]. }
  destruct HJ as [(A1 & A2 & A3 & A4 & _) | (A1 & A2 & A3 & HJ)].
  - left. split; [exact A1|]. split; [exact A2|]. split; [exact A3|]. split; [exact A4|]. left. replace (fr_fix 2 nf) with (fr_fix lfc nf) by (rewrite A2; reflexivity). exact Q.
  - right. split; [exact A1|]. split; [exact A2|]. split; [exact A3|].
    destruct HJ as [(B1 & B2 & _) | (B1 & [(C1 & C2 & _) | (pre & d & C1 & C2 & C3 & C4 & C5 & _)])].
    + left. split; [exact B1|]. split; [exact B2 | exact Q].
    + right. split; [exact B1|]. left. split; [exact C1|]. split; [exact C2|]. left. exact Q.
    + right. split; [exact B1|]. right. exists pre, d. split; [exact C1|]. split; [exact C2|]. split; [exact C3|]. split; [exact C4|]. split; [exact C5|]. left. exact Q.
Qed.

(* ---- the frame in transit reaches the slave *)
Lemma tog_nf (nf e : bool) : (if Bool.eqb (negb nf) e then negb e else e) = nf.
Proof. destruct nf, e; reflexivity. Qed.

Ltac dq0 := unfold udeq, SU; scs; rewrite ?firstn_sub_self, ?firstn_sub_cons; cbn [app]; rewrite ?app_nil_r.

Lemma JUD_toS_msg msg y6 y7 r1 r2 wt tst nf lfc e usz ubuf lrx idl q1 q2 T D R f now :
  let st := {| xm := SCa PLL_SEND_CONFIRM true msg y6 y7 r1 r2 wt tst nf lfc; xs := SUa e usz ubuf lrx idl q1 q2;
              xT := T; xD := D; xR := R; xU := R; xAB := Some f; xBA := None; xfl := false; xtm := false |} in
  Forall (umsg_ok c) q1 -> Forall (umsg_ok c) q2 -> umsg_ok c msg -> fr_msg nf msg f ->
  (exists pre, T = pre ++ [msg] /\ ((e = negb nf /\ D = pre) \/ (e = nf /\ D = pre ++ [msg]))) ->
  JUD (xstep st (XToS now)).
Proof.
  intros st Hq1 Hq2 Hm Ef (pre & HT & Hrec). unfold st, xstep. xus.
  rewrite (s_data v c addr Hal Hfi Har Hnb now e usz ubuf lrx idl q1 q2 (negb nf) msg f Hm Ef). rewrite tog_nf.
  assert (A : answer {| xm := SCa PLL_SEND_CONFIRM true msg y6 y7 r1 r2 wt tst nf lfc; xs := SUa nf usz ubuf now idl q1 q2; xT := T; xD := pre ++ [msg];
                        xR := R; xU := R; xAB := None; xBA := Some (short_frame c addr 0 (q_nonempty q1)); xfl := false; xtm := false |}
                     (fun a => exists acd, a = short_frame c addr 0 acd)).
  { split; [reflexivity|]. eexists. split; [reflexivity|]. eexists. reflexivity. }
  destruct Hrec as [(-> & ->) | (-> & ->)].
  - rewrite Bool.eqb_reflx. ufr. dq0. base Hq1 Hq2 (fun _ : true = true => Hm). right; left.
    split; [reflexivity|]. split; [reflexivity|]. split; [reflexivity|]. exists pre. split; [exact HT|]. right.
    split; [reflexivity|]. split; [reflexivity|]. right. exact A.
  - rewrite eqb_negb_l'. ufr. dq0. base Hq1 Hq2 (fun _ : true = true => Hm). right; left.
    split; [reflexivity|]. split; [reflexivity|]. split; [reflexivity|]. exists pre. split; [exact HT|]. right.
    split; [reflexivity|]. split; [reflexivity|]. right. exact A.
Qed.

Lemma JUD_toS_test has msg y6 y7 r1 r2 wt tst nf e usz ubuf lrx idl q1 q2 T R now :
  let st := {| xm := SCa PLL_REQUEST_RESPOND has msg y6 y7 r1 r2 wt tst nf 2; xs := SUa e usz ubuf lrx idl q1 q2;
              xT := T; xD := T; xR := R; xU := R; xAB := Some (enc_fixed (alen c) 2 addr true false (negb nf) true); xBA := None; xfl := false; xtm := false |} in
  Forall (umsg_ok c) q1 -> Forall (umsg_ok c) q2 -> (has = true -> umsg_ok c msg) -> JUD (xstep st (XToS now)).
Proof.
  intros st Hq1 Hq2 Hm. unfold st, xstep. xus. rewrite (s_test v c addr Hal Hfi Har Hnb). rewrite tog_nf. ufr. dq0.
  base Hq1 Hq2 Hm. right; right; left. split; [reflexivity|]. split; [reflexivity|]. split; [reflexivity|]. split; [reflexivity|].
  right. split; [reflexivity|]. split; [reflexivity|]. eexists. split; reflexivity.
Qed.

Lemma JUD_toS_req (cls : bool) has msg y6 y7 r1 r2 wt tst nf e usz ubuf lrx idl q1 q2 T R U now :
  let st := {| xm := SCa PLL_REQUEST_RESPOND has msg y6 y7 r1 r2 wt tst nf (if cls then 10 else 11); xs := SUa e usz ubuf lrx idl q1 q2;
              xT := T; xD := T; xR := R; xU := U;
              xAB := Some (enc_fixed (alen c) (if cls then 10 else 11) addr true false (negb nf) true); xBA := None; xfl := false; xtm := false |} in
  Forall (umsg_ok c) q1 -> Forall (umsg_ok c) q2 -> (has = true -> umsg_ok c msg) ->
  ((e = negb nf /\ U = R) \/
   (e = nf /\ ((usz = 0 /\ U = R) \/ (exists pre d, R = pre ++ [d] /\ U = pre /\ ubuf = d /\ usz = lenz d /\ umsg_ok c d)))) ->
  JUD (xstep st (XToS now)).
Proof.
  intros st Hq1 Hq2 Hm HJ. unfold st, xstep. xus.
  assert (Hl : (if cls then 10 else 11) = 10 \/ (if cls then 10 else 11) = 11) by (destruct cls; [left | right]; reflexivity).
  rewrite (s_req v c addr Hal Hfi Har Hnb now e usz ubuf lrx idl q1 q2 (negb nf) cls).
  destruct HJ as [(-> & ->) | (-> & [(-> & ->) | (pre & d & -> & -> & -> & -> & Hd)])].
  - (* the slave sees the request for the first time *)
    destruct ((if cls then q1 else q2)) as [|d rest] eqn:Eq.
    + rewrite (su_request_new_empty c addr (negb nf) usz ubuf now idl q1 q2 cls Eq). ufr. rewrite negb_involutive. dq0.
      base Hq1 Hq2 Hm. right; right; right. split; [reflexivity|]. split; [exact Hl|]. split; [reflexivity|].
      right. split; [reflexivity|]. left. split; [reflexivity|]. split; [reflexivity|]. right. split; [reflexivity|].
      eexists. split; [reflexivity|]. exists (q_nonempty q1). reflexivity.
    + assert (Hd : umsg_ok c d /\ Forall (umsg_ok c) (if cls then rest else q1) /\ Forall (umsg_ok c) (if cls then q2 else rest)).
      { destruct cls; subst; [apply Forall_cons_iff in Hq1 | apply Forall_cons_iff in Hq2]; tauto. }
      destruct Hd as (Hd & Hn1 & Hn2).
      destruct (uenc_var_some c addr 8 false (q_nonempty (if cls then rest else q1)) false d Hd) as (f & Ef).
      rewrite (su_request_new_data c addr Hal (negb nf) usz ubuf now idl q1 q2 cls d rest f Eq Hd Ef). ufr. rewrite negb_involutive.
      assert (Hdq : udeq (SUa (negb nf) usz ubuf lrx idl q1 q2) (SUa nf (lenz d) d now idl (if cls then rest else q1) (if cls then q2 else rest)) = [d]).
      { unfold udeq, SU. scs. destruct cls; subst; rewrite ?firstn_sub_self, ?firstn_sub_cons; reflexivity. }
      rewrite Hdq. cbn [app]. rewrite ?app_nil_r. base Hn1 Hn2 Hm. right; right; right. split; [reflexivity|]. split; [exact Hl|]. split; [reflexivity|].
      right. split; [reflexivity|]. right. exists R, d. split; [reflexivity|]. split; [reflexivity|]. split; [reflexivity|]. split; [reflexivity|].
      split; [exact Hd|]. right. split; [reflexivity|]. eexists. split; [reflexivity|]. eexists. exact Ef.
  - (* seen before, answered "no data": the same answer again *)
    rewrite (su_request_repeat_empty c addr nf ubuf now idl q1 q2 cls). ufr. dq0.
    base Hq1 Hq2 Hm. right; right; right. split; [reflexivity|]. split; [exact Hl|]. split; [reflexivity|].
    right. split; [reflexivity|]. left. split; [reflexivity|]. split; [reflexivity|]. right. split; [reflexivity|].
    eexists. split; [reflexivity|]. exists (q_nonempty q1). reflexivity.
  - (* seen before, answered with data: the remembered response again, nothing new is taken *)
    destruct (uenc_var_some c addr 8 false (q_nonempty q1) false d Hd) as (f & Ef).
    rewrite (su_request_repeat_data c addr nf d now idl q1 q2 cls f Hd Ef). ufr. dq0.
    base Hq1 Hq2 Hm. right; right; right. split; [reflexivity|]. split; [exact Hl|]. split; [reflexivity|].
    right. split; [reflexivity|]. right. exists pre, d. split; [reflexivity|]. split; [reflexivity|]. split; [reflexivity|]. split; [reflexivity|].
    split; [exact Hd|]. right. split; [reflexivity|]. eexists. split; [reflexivity|]. eexists. exact Ef.
Qed.

(* ---- the slave's answer in transit reaches the master *)
Lemma JUD_toM_msg msg y6 y7 r1 r2 wt tst nf lfc usz ubuf lrx idl q1 q2 pre R acd now :
  let st := {| xm := SCa PLL_SEND_CONFIRM true msg y6 y7 r1 r2 wt tst nf lfc; xs := SUa nf usz ubuf lrx idl q1 q2;
              xT := pre ++ [msg]; xD := pre ++ [msg]; xR := R; xU := R; xAB := None; xBA := Some (short_frame c addr 0 acd); xfl := false; xtm := false |} in
  Forall (umsg_ok c) q1 -> Forall (umsg_ok c) q2 -> JUD (xstep st (XToM now)).
Proof.
  intros st Hq1 Hq2. unfold st, xstep. xus. rewrite (m_ack_send v c addr Hal Hfg Har).
  destruct acd; ufr; rewrite ?app_nil_r; base Hq1 Hq2 (fun X : false = true => False_ind (umsg_ok c msg) (Bool.diff_false_true X));
    left; repeat split; reflexivity.
Qed.

Lemma JUD_toM_test has msg y6 y7 r1 r2 wt tst nf usz ubuf lrx idl q1 q2 T R now :
  let st := {| xm := SCa PLL_REQUEST_RESPOND has msg y6 y7 r1 r2 wt tst nf 2; xs := SUa nf usz ubuf lrx idl q1 q2;
              xT := T; xD := T; xR := R; xU := R; xAB := None; xBA := Some (enc_fixed (alen c) 15 addr false false false false); xfl := false; xtm := false |} in
  Forall (umsg_ok c) q1 -> Forall (umsg_ok c) q2 -> (has = true -> umsg_ok c msg) -> JUD (xstep st (XToM now)).
Proof.
  intros st Hq1 Hq2 Hm. unfold st, xstep. xus. rewrite (m_neg_rr v c addr Hal Hfh Har). ufr. rewrite ?app_nil_r.
  base Hq1 Hq2 Hm. left. repeat split; reflexivity.
Qed.

Lemma JUD_toM_nodata has msg y6 y7 r1 r2 wt tst nf lfc ubuf lrx idl q1 q2 T R acd now :
  let st := {| xm := SCa PLL_REQUEST_RESPOND has msg y6 y7 r1 r2 wt tst nf lfc; xs := SUa nf 0 ubuf lrx idl q1 q2;
              xT := T; xD := T; xR := R; xU := R; xAB := None; xBA := Some (short_frame c addr 9 acd); xfl := false; xtm := false |} in
  Forall (umsg_ok c) q1 -> Forall (umsg_ok c) q2 -> (has = true -> umsg_ok c msg) -> JUD (xstep st (XToM now)).
Proof.
  intros st Hq1 Hq2 Hm. unfold st, xstep. xus. rewrite (m_short_rr v c addr Hal Hfh Har now 9) by (right; left; reflexivity).
  destruct acd; ufr; rewrite ?app_nil_r; base Hq1 Hq2 Hm; left; repeat split; reflexivity.
Qed.

Lemma JUD_toM_data has msg y6 y7 r1 r2 wt tst nf lfc d lrx idl q1 q2 T pre acd f now :
  let st := {| xm := SCa PLL_REQUEST_RESPOND has msg y6 y7 r1 r2 wt tst nf lfc; xs := SUa nf (lenz d) d lrx idl q1 q2;
              xT := T; xD := T; xR := pre ++ [d]; xU := pre; xAB := None; xBA := Some f; xfl := false; xtm := false |} in
  Forall (umsg_ok c) q1 -> Forall (umsg_ok c) q2 -> (has = true -> umsg_ok c msg) ->
  enc_var (alen c) 8 addr false false acd false d = Some f -> JUD (xstep st (XToM now)).
Proof.
  intros st Hq1 Hq2 Hm Ef. unfold st, xstep. xus. rewrite (m_data_rr v c addr Hal Har now _ _ _ _ _ _ _ _ _ _ _ d f Ef).
  destruct acd; ufr; base Hq1 Hq2 Hm; left; repeat split; reflexivity.
Qed.

(* ---- what is in transit is lost *)
Lemma JUD_lose st st' : JUD st -> xm st' = xm st -> xs st' = xs st -> xT st' = xT st -> xD st' = xD st -> xR st' = xR st -> xU st' = xU st ->
  (xAB st' = None /\ xBA st' = xBA st \/ xAB st' = xAB st /\ xBA st' = None) -> JUD st'.
Proof.
  intros HJ Em Es ET ED ER EU Hch. unfold JUD in *. rewrite Em, Es, ET, ED, ER, EU.
  destruct HJ as (B1 & B2 & B3 & B4 & B5 & B6 & B7 & HJ). repeat (split; [assumption|]).
  assert (Q : forall F, quiet_or st F -> quiet_or st' F).
  { intros F (A & B). unfold quiet_or. destruct Hch as [(X & Y) | (X & Y)].
    - split; [rewrite Y; exact A | left; exact X].
    - split; [exact Y | rewrite X; exact B]. }
  assert (A : forall F P, answer st P -> quiet_or st' F \/ answer st' P).
  { intros F P (A1 & a & A2 & A3). destruct Hch as [(X & Y) | (X & Y)].
    - right. split; [exact X|]. exists a. split; [rewrite Y; exact A2 | exact A3].
    - left. split; [exact Y | left; rewrite X; exact A1]. }
  destruct HJ as [(C1 & C2 & C3 & C4 & C5 & C6) | [(C1 & C2 & C3 & pre & C4 & HJ) | [(C1 & C2 & C3 & C4 & HJ) | (C1 & C2 & C3 & HJ)]]].
  - left. repeat (split; [assumption|]). destruct Hch as [(X & Y) | (X & Y)]; split; congruence.
  - right; left. repeat (split; [assumption|]). exists pre. split; [exact C4|].
    destruct HJ as [(D1 & D2 & D3) | (D1 & D2 & [D3 | D3])].
    + left. repeat (split; [assumption|]). apply Q, D3.
    + right. repeat (split; [assumption|]). left. apply Q, D3.
    + right. repeat (split; [assumption|]). apply (A (fr_msg (sc_nfcb (xm st)) (sc_msg (xm st)))), D3.
  - right; right; left. repeat (split; [assumption|]). destruct HJ as [D3 | (D1 & D3)].
    + left. apply Q, D3.
    + destruct (A (fr_fix 2 (sc_nfcb (xm st))) _ D3) as [X | X]; [left; exact X | right; split; [exact D1 | exact X]].
  - right; right; right. repeat (split; [assumption|]).
    destruct HJ as [(D1 & D2 & D3) | (D1 & [(E1 & E2 & [D3 | D3]) | (pre & d & E1 & E2 & E3 & E4 & E5 & [D3 | D3])])].
    + left. repeat (split; [assumption|]). apply Q, D3.
    + right. split; [exact D1|]. left. repeat (split; [assumption|]). left. apply Q, D3.
    + right. split; [exact D1|]. left. repeat (split; [assumption|]). apply (A (fr_fix (sc_lastfc (xm st)) (sc_nfcb (xm st)))), D3.
    + right. split; [exact D1|]. right. exists pre, d. repeat (split; [assumption|]). left. apply Q, D3.
    + right. split; [exact D1|]. right. exists pre, d. repeat (split; [assumption|]). apply (A (fr_fix (sc_lastfc (xm st)) (sc_nfcb (xm st)))), D3.
Qed.

(* ---- the applications *)
Lemma JUD_app st e : (match e with XMsg _ | XReq _ | XTest | XEnq _ _ => True | _ => False end) -> JUD st -> JUD (xstep st e).
Proof.
  intros He HJ. destruct st as [m s T D R U ab ba fl tm].
  destruct m as [a1 a2 a3 has msg y6 y7 r1 r2 wt tst nf lfc]. destruct s as [b1 e0 usz ubuf lrx idl b7 q1 q2].
  unfold JUD in HJ. xus_in HJ. scs_in HJ. destruct HJ as (E1 & E2 & E3 & E4 & Hq1 & Hq2 & Hm & HJ). subst a2 a1 b7 b1.
  destruct e as [now|now|now| | |d|cls| |cls d]; try (exfalso; exact He).
  - unfold xstep. xus. scs. destruct has; cbn [negb andb].
    + unfold JUD. xus. scs. (split; [reflexivity|]); (split; [reflexivity|]); (split; [reflexivity|]); (split; [reflexivity|]); (split; [exact Hq1|]); (split; [exact Hq2|]); (split; [exact Hm|]); exact HJ.
    + destruct (umsg_okb c d) eqn:Ed.
      * unfold JUD. xus. scs2. split; [reflexivity|]. split; [reflexivity|]. split; [reflexivity|]. split; [reflexivity|]. split; [exact Hq1|]. split; [exact Hq2|].
        split; [intros _; apply umsg_okb_ok, Ed|].
        destruct HJ as [H | [(_ & X & _) | [H | H]]]; [left; exact H | discriminate X | right; right; left; exact H | right; right; right; exact H].
      * unfold JUD. xus. scs. (split; [reflexivity|]); (split; [reflexivity|]); (split; [reflexivity|]); (split; [reflexivity|]); (split; [exact Hq1|]); (split; [exact Hq2|]); (split; [exact Hm|]); exact HJ.
  - unfold xstep. xus. destruct cls; unfold JUD; xus; scs2; (split; [reflexivity|]); (split; [reflexivity|]); (split; [reflexivity|]); (split; [reflexivity|]);
      (split; [exact Hq1|]); (split; [exact Hq2|]); (split; [exact Hm|]); exact HJ.
  - unfold xstep. xus. unfold JUD; xus; scs2. split; [reflexivity|]. split; [reflexivity|]. split; [reflexivity|]. split; [reflexivity|].
    split; [exact Hq1|]. split; [exact Hq2|]. split; [exact Hm|]. exact HJ.
  - unfold xstep. xus. scs. destruct (umsg_okb c d) eqn:Ed.
    + assert (Hd : umsg_ok c d) by (apply umsg_okb_ok, Ed).
      destruct cls; unfold JUD; xus; unfold su_with_q; scs; (split; [reflexivity|]); (split; [reflexivity|]); (split; [reflexivity|]); (split; [reflexivity|]).
      * split; [apply Forall_app; split; [exact Hq1 | constructor; [exact Hd | constructor]]|]. split; [exact Hq2|]. split; [exact Hm|]. exact HJ.
      * split; [exact Hq1|]. split; [apply Forall_app; split; [exact Hq2 | constructor; [exact Hd | constructor]]|]. split; [exact Hm|]. exact HJ.
    + unfold JUD. xus. scs. (split; [reflexivity|]); (split; [reflexivity|]); (split; [reflexivity|]); (split; [reflexivity|]); (split; [exact Hq1|]); (split; [exact Hq2|]); (split; [exact Hm|]); exact HJ.
Qed.

(* ---- every step *)
Lemma JUD_step st ev : JUD st -> xfl st = false -> xtm st = false ->
  xfl (xstep st ev) = false -> xtm (xstep st ev) = false -> JUD (xstep st ev).
Proof.
  intros HJ0 Hf Ht Hf' Ht'.
  destruct ev as [now|now|now| | |d|cls| |cls d]; try (apply JUD_app; [exact I | exact HJ0]).
  - (* the master runs *)
    destruct st as [m s T D R U ab ba fl tm]. cbn [xfl xtm] in Hf, Ht. subst fl tm.
    destruct m as [a1 a2 a3 has msg y6 y7 r1 r2 wt tst nf lfc]. destruct s as [b1 e usz ubuf lrx idl b7 q1 q2].
    pose proof HJ0 as HJ. unfold JUD in HJ. xus_in HJ. scs_in HJ. destruct HJ as (E1 & E2 & E3 & E4 & Hq1 & Hq2 & Hm & HJ). subst a2 a1 b7 b1.
    destruct HJ as [(-> & -> & -> & -> & -> & ->) | [(-> & -> & -> & _) | [(-> & _) | (-> & _)]]].
    + apply JUD_run_available; assumption.
    + apply JUD_run_send_confirm; assumption.
    + apply JUD_run_rr; assumption.
    + apply JUD_run_rr; assumption.
  - (* the frame reaches the slave *)
    destruct st as [m s T D R U ab ba fl tm]. cbn [xfl xtm] in Hf, Ht. subst fl tm.
    destruct ab as [f|]; [|exact HJ0].
    destruct m as [a1 a2 a3 has msg y6 y7 r1 r2 wt tst nf lfc]. destruct s as [b1 e usz ubuf lrx idl b7 q1 q2].
    pose proof HJ0 as HJ. unfold JUD in HJ. xus_in HJ. scs_in HJ. destruct HJ as (E1 & E2 & E3 & E4 & Hq1 & Hq2 & Hm & HJ). subst a2 a1 b7 b1.
    assert (QO : forall F, quiet_or {| xm := {| sc_addr := addr; sc_ls := LS_AVAILABLE; sc_ps := a3; sc_has := has; sc_msg := msg; sc_lastsend := y6; sc_origsend := y7;
                                              sc_r1 := r1; sc_r2 := r2; sc_wait := wt; sc_test := tst; sc_nfcb := nf; sc_lastfc := lfc |};
                                      xs := {| su_ls := LS_AVAILABLE; su_efcb := e; su_udsz := usz; su_udbuf := ubuf; su_lastrx := lrx; su_idle := idl; su_addr := addr; su_q1 := q1; su_q2 := q2 |};
                                      xT := T; xD := D; xR := R; xU := U; xAB := Some f; xBA := ba; xfl := false; xtm := false |} F -> ba = None /\ F f).
    { intros F (A & B). xus_in A. xus_in B. split; [exact A|]. destruct B as [X | (f' & X & Y)]; [discriminate X | inversion X; subst; exact Y]. }
    assert (AN : forall P, answer {| xm := {| sc_addr := addr; sc_ls := LS_AVAILABLE; sc_ps := a3; sc_has := has; sc_msg := msg; sc_lastsend := y6; sc_origsend := y7;
                                             sc_r1 := r1; sc_r2 := r2; sc_wait := wt; sc_test := tst; sc_nfcb := nf; sc_lastfc := lfc |};
                                     xs := {| su_ls := LS_AVAILABLE; su_efcb := e; su_udsz := usz; su_udbuf := ubuf; su_lastrx := lrx; su_idle := idl; su_addr := addr; su_q1 := q1; su_q2 := q2 |};
                                     xT := T; xD := D; xR := R; xU := U; xAB := Some f; xBA := ba; xfl := false; xtm := false |} P -> False).
    { intros P (A & _). xus_in A. discriminate A. }
    destruct HJ as [(_ & _ & _ & _ & X & _) | [(-> & -> & -> & pre & HT & Hrec) | [(-> & -> & -> & -> & HJ) | (-> & Hl & -> & HJ)]]]; [discriminate X | | |].
    + specialize (Hm eq_refl).
      destruct Hrec as [(A1 & A2 & Q) | (A1 & A2 & [Q | Q])]; try (exfalso; exact (AN _ Q)); destruct (QO _ Q) as [-> Ef].
      * apply JUD_toS_msg; try assumption. exists pre. split; [exact HT | left; split; assumption].
      * apply JUD_toS_msg; try assumption. exists pre. split; [exact HT | right; split; assumption].
    + destruct HJ as [Q | (_ & Q)]; [|exfalso; exact (AN _ Q)]. destruct (QO _ Q) as [-> Ef]. unfold fr_fix in Ef. subst f.
      apply JUD_toS_test; assumption.
    + assert (Hc : exists cls : bool, lfc = if cls then 10 else 11) by (destruct Hl as [-> | ->]; [exists true | exists false]; reflexivity).
      destruct Hc as (cls & ->).
      destruct HJ as [(A1 & A2 & Q) | (A1 & [(B1 & B2 & [Q | Q]) | (pre & d & B1 & B2 & B3 & B4 & B5 & [Q | Q])])]; try (exfalso; exact (AN _ Q));
        destruct (QO _ Q) as [-> Ef]; unfold fr_fix in Ef; subst f; apply (JUD_toS_req cls); try assumption.
      * left. split; assumption.
      * right. split; [exact A1|]. left. split; assumption.
      * right. split; [exact A1|]. right. exists pre, d. repeat (split; [assumption|]). exact B5.
  - (* the answer reaches the master *)
    destruct st as [m s T D R U ab ba fl tm]. cbn [xfl xtm] in Hf, Ht. subst fl tm.
    destruct ba as [a|]; [|exact HJ0].
    destruct m as [a1 a2 a3 has msg y6 y7 r1 r2 wt tst nf lfc]. destruct s as [b1 e usz ubuf lrx idl b7 q1 q2].
    pose proof HJ0 as HJ. unfold JUD in HJ. xus_in HJ. scs_in HJ. destruct HJ as (E1 & E2 & E3 & E4 & Hq1 & Hq2 & Hm & HJ). subst a2 a1 b7 b1.
    assert (QO : forall F, quiet_or {| xm := {| sc_addr := addr; sc_ls := LS_AVAILABLE; sc_ps := a3; sc_has := has; sc_msg := msg; sc_lastsend := y6; sc_origsend := y7;
                                              sc_r1 := r1; sc_r2 := r2; sc_wait := wt; sc_test := tst; sc_nfcb := nf; sc_lastfc := lfc |};
                                      xs := {| su_ls := LS_AVAILABLE; su_efcb := e; su_udsz := usz; su_udbuf := ubuf; su_lastrx := lrx; su_idle := idl; su_addr := addr; su_q1 := q1; su_q2 := q2 |};
                                      xT := T; xD := D; xR := R; xU := U; xAB := ab; xBA := Some a; xfl := false; xtm := false |} F -> False).
    { intros F (A & _). xus_in A. discriminate A. }
    assert (AN : forall P, answer {| xm := {| sc_addr := addr; sc_ls := LS_AVAILABLE; sc_ps := a3; sc_has := has; sc_msg := msg; sc_lastsend := y6; sc_origsend := y7;
                                             sc_r1 := r1; sc_r2 := r2; sc_wait := wt; sc_test := tst; sc_nfcb := nf; sc_lastfc := lfc |};
                                     xs := {| su_ls := LS_AVAILABLE; su_efcb := e; su_udsz := usz; su_udbuf := ubuf; su_lastrx := lrx; su_idle := idl; su_addr := addr; su_q1 := q1; su_q2 := q2 |};
                                     xT := T; xD := D; xR := R; xU := U; xAB := ab; xBA := Some a; xfl := false; xtm := false |} P -> ab = None /\ P a).
    { intros P (A & a' & B & C). xus_in A. xus_in B. inversion B; subst. split; [reflexivity | exact C]. }
    destruct HJ as [(_ & _ & _ & _ & _ & X) | [(-> & -> & -> & pre & HT & Hrec) | [(-> & -> & -> & -> & HJ) | (-> & Hl & -> & HJ)]]]; [discriminate X | | |].
    + destruct Hrec as [(_ & _ & Q) | (A1 & A2 & [Q | Q])]; try (exfalso; exact (QO _ Q)).
      destruct (AN _ Q) as [-> (acd & ->)]. subst e D T. apply JUD_toM_msg; assumption.
    + destruct HJ as [Q | (A1 & Q)]; [exfalso; exact (QO _ Q)|]. destruct (AN _ Q) as [-> ->]. subst e. apply JUD_toM_test; assumption.
    + destruct HJ as [(_ & _ & Q) | (A1 & [(B1 & B2 & [Q | Q]) | (pre & d & B1 & B2 & B3 & B4 & B5 & [Q | Q])])]; try (exfalso; exact (QO _ Q)).
      * destruct (AN _ Q) as [-> (acd & ->)]. subst e usz U. apply JUD_toM_nodata; assumption.
      * destruct (AN _ Q) as [-> (acd & Ef)]. subst e R U ubuf usz. apply (JUD_toM_data has msg y6 y7 r1 r2 wt tst nf lfc d lrx idl q1 q2 T pre acd a now); assumption.
  - (* losses *)
    eapply JUD_lose; [exact HJ0 | reflexivity .. |]. left. split; reflexivity.
  - eapply JUD_lose; [exact HJ0 | reflexivity .. |]. right. split; reflexivity.
Qed.

Lemma xfl_step_mono st e : xfl st = true -> xfl (xstep st e) = true.
Proof.
  intros H. destruct e as [now|now|now| | |d|cls| |cls d]; cbn [xstep]; try exact H.
  - destruct (sc_run v c now (xm st)) as [m1 o1]. destruct (ffirst o1); cbn [xfl]; rewrite H; reflexivity.
  - destruct (xAB st); [|exact H]. destruct (su_on_msg v c now (xs st) l) as [s1 ob]. exact H.
  - destruct (xBA st); [|exact H]. destruct (m_recv v c now (xm st) l) as [m2 oa]. cbn [xfl]. rewrite H. reflexivity.
Qed.
Lemma xtm_step_mono st e : xtm st = true -> xtm (xstep st e) = true.
Proof.
  intros H. destruct e as [now|now|now| | |d|cls| |cls d]; cbn [xstep]; try exact H.
  - destruct (sc_run v c now (xm st)) as [m1 o1]. destruct (ffirst o1); cbn [xtm]; rewrite H; reflexivity.
  - destruct (xAB st); [|exact H]. destruct (su_on_msg v c now (xs st) l) as [s1 ob]. cbn [xtm]. rewrite H. reflexivity.
  - destruct (xBA st); [|exact H]. destruct (m_recv v c now (xm st) l) as [m2 oa]. exact H.
Qed.
Lemma xfl_run_mono evs : forall st, xfl st = true -> xfl (fold_left xstep evs st) = true.
Proof. induction evs as [|e r IH]; intros st H; cbn [fold_left]; [exact H | apply IH, xfl_step_mono, H]. Qed.
Lemma xtm_run_mono evs : forall st, xtm st = true -> xtm (fold_left xstep evs st) = true.
Proof. induction evs as [|e r IH]; intros st H; cbn [fold_left]; [exact H | apply IH, xtm_step_mono, H]. Qed.

(* every history of master runs, deliveries, losses and application calls - in any order - in which the link was not given up and
   nothing was transmitted while a frame or its answer was still in transit *)
Theorem udline_invariant evs : forall st, JUD st -> xfl st = false -> xtm st = false ->
  xfl (fold_left xstep evs st) = false -> xtm (fold_left xstep evs st) = false -> JUD (fold_left xstep evs st).
Proof.
  induction evs as [|e r IH]; intros st HJ Hf Ht Hfe Hte; cbn [fold_left] in *; [exact HJ|].
  destruct (xfl (xstep st e)) eqn:E1; [rewrite (xfl_run_mono r _ E1) in Hfe; discriminate Hfe|].
  destruct (xtm (xstep st e)) eqn:E2; [rewrite (xtm_run_mono r _ E2) in Hte; discriminate Hte|].
  apply IH; [apply JUD_step; assumption | exact E1 | exact E2 | exact Hfe | exact Hte].
Qed.

(* both directions: what the receiving application was handed is what the sender took from its queue, in order, each once, except
   possibly the one item whose exchange is outstanding *)
Theorem udline_exactly_once evs st : JUD st -> xfl st = false -> xtm st = false ->
  let st' := fold_left xstep evs st in xfl st' = false -> xtm st' = false ->
  (xD st' = xT st' \/ (xT st' = xD st' ++ [sc_msg (xm st')] /\ sc_ps (xm st') = PLL_SEND_CONFIRM)) /\
  (xU st' = xR st' \/ (xR st' = xU st' ++ [su_udbuf (xs st')] /\ sc_ps (xm st') = PLL_REQUEST_RESPOND)).
Proof.
  intros HJ Hf Ht st' Hfe Hte. pose proof (udline_invariant evs st HJ Hf Ht Hfe Hte) as (_ & _ & _ & _ & _ & _ & _ & H). fold st' in H.
  destruct H as [(_ & _ & HD & HU & _) | [(Hps & _ & HU & pre & HT & [(_ & HD & _) | (_ & HD & _)]) | [(_ & _ & HD & HU & _) | (Hps & _ & HD & [(_ & HU & _) | (_ & [(_ & HU & _) | (pre & d & HR & HU & Hb & _)])])]]].
  - split; left; assumption.
  - split; [right; rewrite HD; split; [exact HT | exact Hps] | left; exact HU].
  - split; [left; rewrite HD, HT; reflexivity | left; exact HU].
  - split; left; assumption.
  - split; left; assumption.
  - split; left; assumption.
  - split; [left; exact HD | right; rewrite HU, Hb; split; [exact HR | exact Hps]].
Qed.

(* in the quiescent state nothing is on the line and both frame count bits agree *)
Theorem udline_quiescent evs st : JUD st -> xfl st = false -> xtm st = false ->
  let st' := fold_left xstep evs st in xfl st' = false -> xtm st' = false -> sc_ps (xm st') = PLL_AVAILABLE ->
  xD st' = xT st' /\ xU st' = xR st' /\ xAB st' = None /\ xBA st' = None /\ sc_nfcb (xm st') = su_efcb (xs st').
Proof.
  intros HJ Hf Ht st' Hfe Hte Hps. pose proof (udline_invariant evs st HJ Hf Ht Hfe Hte) as (_ & _ & _ & _ & _ & _ & _ & H). fold st' in H.
  destruct H as [(_ & A & B & C & D1 & D2) | [(X & _) | [(X & _) | (X & _)]]]; try (rewrite Hps in X; discriminate X).
  repeat split; assumption.
Qed.
End LineUD.

(* non-vacuity (the configuration of Link/LinkLineU.v's example): class 1 and class 2 data of the slave and a message of the master,
   with a lost request, a lost response, a lost acknowledgement, and every frame delayed by application events and idle runs *)
Definition udex_st : udl :=
  {| xm := um uex_st; xs := us uex_st; xT := []; xD := []; xR := []; xU := []; xAB := None; xBA := None; xfl := false; xtm := false |}.
Definition udex_evs : list udev :=
  [XEnq true [30; 1; 3; 0; 1; 0; 1]; XEnq true [30; 1; 3; 0; 1; 0; 2]; XEnq false [9; 1; 3; 0; 1; 0; 3]; XReq true;
   XRunM 10; XRunM 50; XLoseAB; XRunM 250; XToS 260; XRunM 270; XLoseBA; XRunM 500; XToS 510; XEnq true [30; 1; 3; 0; 1; 0; 4]; XToM 520;
   XMsg [45; 1; 6; 0; 1; 0; 7]; XRunM 600; XToS 610; XLoseBA; XTest; XRunM 850; XToS 860; XToM 870;
   XRunM 900; XToS 905; XToM 910; XRunM 1000; XToS 1001; XToM 1002; XReq false; XRunM 1100; XToS 1101; XToM 1102; XRunM 1200; XToS 1201; XToM 1202;
   XRunM 1300; XToS 1301; XToM 1302; XReq false; XRunM 1400; XToS 1401; XToM 1402; XRunM 1500; XToS 1501; XToM 1502; XRunM 1600; XToS 1601; XToM 1602].
Example udline_hypotheses : JUD uex_c 3 udex_st.
Proof.
  unfold JUD, udex_st, uex_st. cbn.
  split; [reflexivity|]. split; [reflexivity|]. split; [reflexivity|]. split; [reflexivity|]. split; [constructor|]. split; [constructor|].
  split; [intros X; discriminate X|]. left. repeat split; reflexivity.
Qed.
Example udline_example :
  let st' := fold_left (xstep uex_v uex_c) udex_evs udex_st in
  xfl st' = false /\ xtm st' = false /\ xD st' = [[45; 1; 6; 0; 1; 0; 7]] /\ xT st' = xD st' /\
  xU st' = [[30; 1; 3; 0; 1; 0; 1]; [30; 1; 3; 0; 1; 0; 2]; [30; 1; 3; 0; 1; 0; 4]; [9; 1; 3; 0; 1; 0; 3]] /\ xR st' = xU st' /\ xAB st' = None /\ xBA st' = None.
Proof. vm_compute. repeat split; reflexivity. Qed.
