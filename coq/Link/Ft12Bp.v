(* C14 / C16: the parser of a balanced station and of the unbalanced primary (HandleMessageBalancedAndPrimaryUnbalanced,
   parse_bp) accepts what the encoders produce and recovers the fields and the user data: round trips for the single
   character, fixed frames with PRM = 1 (for the secondary function) and PRM = 0 (for the primary function), and
   variable frames with PRM = 1, for all address widths. *)
From Coq Require Import ZArith List Bool Lia.
From L60870 Require Import Link.Ft12 Link.Ft12Proofs.
Import ListNotations.
Local Open Scope Z_scope.

Ltac Zify.zify_post_hook ::= Z.div_mod_to_equations.
Lemma ctrl_bits_pri : forall fc dir acd dfc, 0 <= fc < 16 ->
  let c := ctrl fc false dir acd dfc in
  bitz c 64 = false /\ bitz c 128 = dir /\ bitz c 32 = acd /\ bitz c 16 = dfc /\ c mod 16 = fc.
Proof.
  intros fc dir acd dfc H. unfold ctrl, bitz. rewrite (Z.mod_small fc 16) by lia.
  destruct dir, acd, dfc; cbv zeta; repeat split; try (apply Z.eqb_eq; lia); try (apply Z.eqb_neq; lia); lia.
Qed.
Lemma ctrl_range : forall fc prm dir acd dfc, 0 <= ctrl fc prm dir acd dfc < 256.
Proof. intros. unfold ctrl. destruct prm, dir, acd, dfc; lia. Qed.
Ltac Zify.zify_post_hook ::= idtac.

Lemma parse_bp_single : forall ff alen, parse_bp ff alen E5 = BpAck.
Proof. reflexivity. Qed.

Lemma addr_dec alen address : 0 <= alen <= 2 -> addr_in_range alen address ->
  match addr_octets alen address with
  | [] => alen = 0 /\ address = 0
  | [a0] => alen = 1 /\ a0 = address
  | [a0; a1] => alen = 2 /\ a0 + a1 * 256 = address
  | _ => False
  end.
Proof.
  intros H Hr. unfold addr_in_range in Hr. unfold addr_octets. alen_cases H; numsimp.
  - split; [reflexivity | lia].
  - split; [reflexivity | apply Z.mod_small; lia].
  - split; [reflexivity|].
    rewrite (Z.mod_small (address / 256) 256) by (split; [apply Z.div_pos; lia | apply Z.div_lt_upper_bound; lia]).
    pose proof (Z.div_mod address 256 ltac:(lia)). lia.
Qed.

Ltac bp_consts := change (16 =? 229) with false; change (16 =? 104) with false; change (16 =? 16) with true;
  change (104 =? 229) with false; change (104 =? 104) with true; cbv iota.

Ltac fixed_case c body :=
  match goal with |- parse_bp ?ff ?al ?f = _ =>
    let N0 := fresh "N0" in let N1 := fresh "N1" in let NC := fresh "NC" in let SL := fresh "SL" in
    assert (N0 : nthz f 0 = 16) by reflexivity;
    assert (N1 : nthz f 1 = c) by reflexivity;
    assert (NC : nthz f (2 + al) = cs8 body) by reflexivity;
    assert (SL : slice f 1 (2 + al) = body) by reflexivity;
    unfold parse_bp; cbv zeta; rewrite N0; bp_consts; rewrite SL, NC, N1, Z.eqb_refl; cbn [negb]
  end.

(* fixed frame with PRM = 1 *)
Theorem parse_bp_fixed_prm : forall ff alen fc address dir fcb fcv, 0 <= alen <= 2 -> 0 <= fc < 16 ->
  parse_bp ff alen (enc_fixed alen fc address true dir fcb fcv) = BpSec fc fcb fcv 0 0.
Proof.
  intros ff alen fc address dir fcb fcv H Hfc.
  pose proof (ctrl_bits fc dir fcb fcv Hfc) as Hc. cbv zeta in Hc. destruct Hc as (C64 & C32 & C16 & Cfc).
  unfold enc_fixed, addr_octets. cbv zeta. set (c := ctrl fc true dir fcb fcv) in *.
  alen_cases H; numsimp; cbn [app].
  - fixed_case c [c]. rewrite C64, C32, C16, Cfc. reflexivity.
  - fixed_case c [c; address mod 256]. rewrite C64, C32, C16, Cfc. reflexivity.
  - fixed_case c [c; address mod 256; (address / 256) mod 256]. rewrite C64, C32, C16, Cfc. reflexivity.
Qed.

(* fixed frame with PRM = 0 *)
Theorem parse_bp_fixed_sec : forall ff alen fc address dir acd dfc, 0 <= alen <= 2 -> 0 <= fc < 16 -> addr_in_range alen address ->
  parse_bp ff alen (enc_fixed alen fc address false dir acd dfc) = BpPri fc dir dfc acd address 0 0.
Proof.
  intros ff alen fc address dir acd dfc H Hfc Hr.
  pose proof (ctrl_bits_pri fc dir acd dfc Hfc) as Hc. cbv zeta in Hc. destruct Hc as (C64 & C128 & C32 & C16 & Cfc).
  pose proof (addr_dec alen address H Hr) as Hd.
  unfold enc_fixed, addr_octets in *. cbv zeta. set (c := ctrl fc false dir acd dfc) in *.
  alen_cases H; numsimp; cbn [app].
  - destruct Hd as [_ ->]. fixed_case c [c]. rewrite C64, C128, C32, C16, Cfc. numsimp. reflexivity.
  - destruct Hd as [_ Hd]. fixed_case c [c; address mod 256]. rewrite C64, C128, C32, C16, Cfc. numsimp.
    assert (N2 : nthz [16; c; address mod 256; cs8 [c; address mod 256]; 22] 2 = address mod 256) by reflexivity. rewrite N2, Hd.
    f_equal. lia.
  - destruct Hd as [_ Hd]. fixed_case c [c; address mod 256; (address / 256) mod 256]. rewrite C64, C128, C32, C16, Cfc. numsimp.
    match goal with |- context [nthz ?f 2] => assert (N2 : nthz f 2 = address mod 256) by reflexivity; assert (N3 : nthz f 3 = (address / 256) mod 256) by reflexivity end.
    rewrite N2, N3, Hd. reflexivity.
Qed.

(* variable frame with PRM = 1: fields and user data come back *)
Ltac var_case alen_ l c body f Ef Hudl Hsz :=
  let N0 := fresh "N0" in let N1 := fresh "N1" in let N2 := fresh "N2" in let N4 := fresh "N4" in
  let Lf := fresh "Lf" in let SL := fresh "SL" in let NC := fresh "NC" in
  assert (N0 : nthz f 0 = 104) by (rewrite Ef; reflexivity);
  assert (N1 : nthz f 1 = l) by (rewrite Ef; reflexivity);
  assert (N2 : nthz f 2 = l) by (rewrite Ef; reflexivity);
  assert (N4 : nthz f 4 = c) by (rewrite Ef; reflexivity);
  assert (Lf : lenz f = l + 6) by (rewrite Ef; lz; unfold l; lia);
  assert (SL : slice f 4 (5 + alen_ + (l - alen_ - 1)) = body)
    by (rewrite Ef; replace (5 + alen_ + (l - alen_ - 1)) with (lenz [104; l; l; 104] + lenz body) by (lz; unfold l; lia);
        change 4 with (lenz [104; l; l; 104]); apply slice_mid);
  assert (NC : nthz f (5 + alen_ + (l - alen_ - 1)) = cs8 body)
    by (rewrite Ef; rewrite app_assoc; replace (5 + alen_ + (l - alen_ - 1)) with (lenz ([104; l; l; 104] ++ body)) by (lz; unfold l; lia);
        apply nthz_app2);
  unfold parse_bp; cbv zeta; rewrite N0; bp_consts; rewrite N1, N2, Z.eqb_refl; cbn [negb];
  rewrite Lf, (Hudl alen_ eq_refl), (Hsz alen_ eq_refl); cbn [negb]; cbv beta iota; rewrite SL, NC, N4, Z.eqb_refl; cbn [negb].

Theorem parse_bp_var_prm : forall ff alen fc address dir fcb fcv data f, 0 <= alen <= 2 -> 0 <= fc < 16 ->
  enc_var alen fc address true dir fcb fcv data = Some f ->
  parse_bp ff alen f = BpSec fc fcb fcv (5 + alen) (lenz data) /\ user_data f (5 + alen) (lenz data) = data.
Proof.
  intros ff alen fc address dir fcb fcv data f H Hfc E.
  unfold enc_var in E. cbv zeta in E. destruct (1 + alen + lenz data >? 255) eqn:L; [discriminate|].
  set (c := ctrl fc true dir fcb fcv) in *. set (l := 1 + alen + lenz data) in *.
  pose proof (lenz_nonneg data) as Hd.
  pose proof (ctrl_bits fc dir fcb fcv Hfc) as Hc64. cbv zeta in Hc64. fold c in Hc64.
  destruct Hc64 as (C64 & C32 & C16 & Cfc).
  assert (Hudl : forall a, l = 1 + a + lenz data -> (ff && (l - a - 1 <? 0)) = false).
  { intros a Hl. assert (X : l - a - 1 <? 0 = false) by (apply Z.ltb_ge; lia). rewrite X. apply andb_false_r. }
  assert (Hsz : forall a, l = 1 + a + lenz data -> (l + 6 =? 5 + a + (l - a - 1) + 2) = true) by (intros; apply Z.eqb_eq; lia).
  alen_cases H; numsimp; unfold addr_octets in E; numsimp.
  - assert (Ef : f = [104; l; l; 104] ++ (c :: data) ++ [cs8 (c :: data); 22]) by (injection E; intro X; rewrite <- X; reflexivity). clear E.
    split.
    + var_case 0 l c (c :: data) f Ef Hudl Hsz. rewrite C64, C32, C16, Cfc. f_equal; unfold l; lia.
    + unfold user_data. rewrite Ef.
      change ([104; l; l; 104] ++ (c :: data) ++ [cs8 (c :: data); 22]) with ([104; l; l; 104; c] ++ data ++ [cs8 (c :: data); 22]).
      change (5 + 0) with (lenz [104; l; l; 104; c]). apply slice_mid.
  - set (a0 := address mod 256) in *.
    assert (Ef : f = [104; l; l; 104] ++ (c :: a0 :: data) ++ [cs8 (c :: a0 :: data); 22]) by (injection E; intro X; rewrite <- X; reflexivity). clear E.
    split.
    + var_case 1 l c (c :: a0 :: data) f Ef Hudl Hsz. rewrite C64, C32, C16, Cfc. f_equal; unfold l; lia.
    + unfold user_data. rewrite Ef.
      change ([104; l; l; 104] ++ (c :: a0 :: data) ++ [cs8 (c :: a0 :: data); 22]) with ([104; l; l; 104; c; a0] ++ data ++ [cs8 (c :: a0 :: data); 22]).
      change (5 + 1) with (lenz [104; l; l; 104; c; a0]). apply slice_mid.
  - set (a0 := address mod 256) in *. set (a1 := (address / 256) mod 256) in *.
    assert (Ef : f = [104; l; l; 104] ++ (c :: a0 :: a1 :: data) ++ [cs8 (c :: a0 :: a1 :: data); 22]) by (injection E; intro X; rewrite <- X; reflexivity). clear E.
    split.
    + var_case 2 l c (c :: a0 :: a1 :: data) f Ef Hudl Hsz. rewrite C64, C32, C16, Cfc. f_equal; unfold l; lia.
    + unfold user_data. rewrite Ef.
      change ([104; l; l; 104] ++ (c :: a0 :: a1 :: data) ++ [cs8 (c :: a0 :: a1 :: data); 22]) with ([104; l; l; 104; c; a0; a1] ++ data ++ [cs8 (c :: a0 :: a1 :: data); 22]).
      change (5 + 2) with (lenz [104; l; l; 104; c; a0; a1]). apply slice_mid.
Qed.

(* variable frame with PRM = 0 (a response with user data): fields, address and user data come back *)
Ltac var_case_sec alen_ l c body f Ef Hudl Hsz :=
  let N0 := fresh "N0" in let N1 := fresh "N1" in let N2 := fresh "N2" in let N4 := fresh "N4" in
  let Lf := fresh "Lf" in let SL := fresh "SL" in let NC := fresh "NC" in
  assert (N0 : nthz f 0 = 104) by (rewrite Ef; reflexivity);
  assert (N1 : nthz f 1 = l) by (rewrite Ef; reflexivity);
  assert (N2 : nthz f 2 = l) by (rewrite Ef; reflexivity);
  assert (N4 : nthz f 4 = c) by (rewrite Ef; reflexivity);
  assert (Lf : lenz f = l + 6) by (rewrite Ef; lz; unfold l; lia);
  assert (SL : slice f 4 (5 + alen_ + (l - alen_ - 1)) = body)
    by (rewrite Ef; replace (5 + alen_ + (l - alen_ - 1)) with (lenz [104; l; l; 104] + lenz body) by (lz; unfold l; lia);
        change 4 with (lenz [104; l; l; 104]); apply slice_mid);
  assert (NC : nthz f (5 + alen_ + (l - alen_ - 1)) = cs8 body)
    by (rewrite Ef; rewrite app_assoc; replace (5 + alen_ + (l - alen_ - 1)) with (lenz ([104; l; l; 104] ++ body)) by (lz; unfold l; lia);
        apply nthz_app2);
  unfold parse_bp; cbv zeta; rewrite N0; bp_consts; rewrite N1, N2, Z.eqb_refl; cbn [negb];
  rewrite Lf, (Hudl alen_ eq_refl), (Hsz alen_ eq_refl); cbn [negb]; cbv beta iota; rewrite SL, NC, N4, Z.eqb_refl; cbn [negb].

Theorem parse_bp_var_sec : forall ff alen fc address dir acd dfc data f, 0 <= alen <= 2 -> 0 <= fc < 16 -> addr_in_range alen address ->
  enc_var alen fc address false dir acd dfc data = Some f ->
  parse_bp ff alen f = BpPri fc dir dfc acd address (5 + alen) (lenz data) /\ user_data f (5 + alen) (lenz data) = data.
Proof.
  intros ff alen fc address dir acd dfc data f H Hfc Hr E.
  unfold enc_var in E. cbv zeta in E. destruct (1 + alen + lenz data >? 255) eqn:L; [discriminate|].
  set (c := ctrl fc false dir acd dfc) in *. set (l := 1 + alen + lenz data) in *.
  pose proof (lenz_nonneg data) as Hd.
  pose proof (ctrl_bits_pri fc dir acd dfc Hfc) as Hc. cbv zeta in Hc. fold c in Hc. destruct Hc as (C64 & C128 & C32 & C16 & Cfc).
  pose proof (addr_dec alen address H Hr) as Hdec.
  assert (Hudl : forall a, l = 1 + a + lenz data -> (ff && (l - a - 1 <? 0)) = false).
  { intros a Hl. assert (X : l - a - 1 <? 0 = false) by (apply Z.ltb_ge; lia). rewrite X. apply andb_false_r. }
  assert (Hsz : forall a, l = 1 + a + lenz data -> (l + 6 =? 5 + a + (l - a - 1) + 2) = true) by (intros; apply Z.eqb_eq; lia).
  alen_cases H; numsimp; unfold addr_octets in E, Hdec; numsimp.
  - destruct Hdec as [_ ->].
    assert (Ef : f = [104; l; l; 104] ++ (c :: data) ++ [cs8 (c :: data); 22]) by (injection E; intro X; rewrite <- X; reflexivity). clear E.
    split.
    + var_case_sec 0 l c (c :: data) f Ef Hudl Hsz. rewrite C64, C128, C32, C16, Cfc. numsimp. f_equal; unfold l; lia.
    + unfold user_data. rewrite Ef.
      change ([104; l; l; 104] ++ (c :: data) ++ [cs8 (c :: data); 22]) with ([104; l; l; 104; c] ++ data ++ [cs8 (c :: data); 22]).
      change (5 + 0) with (lenz [104; l; l; 104; c]). apply slice_mid.
  - destruct Hdec as [_ Hdec]. set (a0 := address mod 256) in *.
    assert (Ef : f = [104; l; l; 104] ++ (c :: a0 :: data) ++ [cs8 (c :: a0 :: data); 22]) by (injection E; intro X; rewrite <- X; reflexivity). clear E.
    split.
    + var_case_sec 1 l c (c :: a0 :: data) f Ef Hudl Hsz. rewrite C64, C128, C32, C16, Cfc. numsimp.
      assert (N5 : nthz f 5 = a0) by (rewrite Ef; reflexivity). rewrite N5, Hdec. f_equal; unfold l; lia.
    + unfold user_data. rewrite Ef.
      change ([104; l; l; 104] ++ (c :: a0 :: data) ++ [cs8 (c :: a0 :: data); 22]) with ([104; l; l; 104; c; a0] ++ data ++ [cs8 (c :: a0 :: data); 22]).
      change (5 + 1) with (lenz [104; l; l; 104; c; a0]). apply slice_mid.
  - destruct Hdec as [_ Hdec]. set (a0 := address mod 256) in *. set (a1 := (address / 256) mod 256) in *.
    assert (Ef : f = [104; l; l; 104] ++ (c :: a0 :: a1 :: data) ++ [cs8 (c :: a0 :: a1 :: data); 22]) by (injection E; intro X; rewrite <- X; reflexivity). clear E.
    split.
    + var_case_sec 2 l c (c :: a0 :: a1 :: data) f Ef Hudl Hsz. rewrite C64, C128, C32, C16, Cfc. numsimp.
      assert (N5 : nthz f 5 = a0) by (rewrite Ef; reflexivity). assert (N6 : nthz f 6 = a1) by (rewrite Ef; reflexivity). rewrite N5, N6, Hdec. f_equal; unfold l; lia.
    + unfold user_data. rewrite Ef.
      change ([104; l; l; 104] ++ (c :: a0 :: a1 :: data) ++ [cs8 (c :: a0 :: a1 :: data); 22]) with ([104; l; l; 104; c; a0; a1] ++ data ++ [cs8 (c :: a0 :: a1 :: data); 22]).
      change (5 + 2) with (lenz [104; l; l; 104; c; a0; a1]). apply slice_mid.
Qed.

(* fixed frame with PRM = 1 at the unbalanced secondary (its own address, not the broadcast address) *)
Theorem parse_su_fixed : forall ff alen own fc dir fcb fcv, 0 <= alen <= 2 -> 0 <= fc < 16 ->
  addr_in_range alen own -> own <> broadcast_addr alen ->
  parse_su ff alen own (enc_fixed alen fc own true dir fcb fcv) = SuOk fc false fcb fcv 0 0.
Proof.
  intros ff alen own fc dir fcb fcv H Hfc Hr Hnb.
  pose proof (ctrl_bits fc dir fcb fcv Hfc) as Hc. cbv zeta in Hc. destruct Hc as (C64 & C32 & C16 & Cfc).
  pose proof (addr_dec alen own H Hr) as Hd.
  unfold enc_fixed, addr_octets, broadcast_addr in *. cbv zeta. set (c := ctrl fc true dir fcb fcv) in *.
  alen_cases H; numsimp; cbn [app].
  - destruct Hd as [_ ->].
    match goal with |- parse_su _ _ _ ?f = _ =>
      assert (N0 : nthz f 0 = 16) by reflexivity; assert (N1 : nthz f 1 = c) by reflexivity;
      assert (NC : nthz f (2 + 0) = cs8 [c]) by reflexivity; assert (SL : slice f 1 (2 + 0) = [c]) by reflexivity end.
    unfold parse_su. cbv zeta. rewrite N0. bp_consts. numsimp. cbn [andb negb]. rewrite SL, NC, N1, C64, C32, C16, Cfc, ?Z.eqb_refl. cbn [andb negb]. rewrite ?Z.eqb_refl. cbn [negb]. reflexivity.
  - destruct Hd as [_ Hd]. rewrite Hd.
    match goal with |- parse_su _ _ _ ?f = _ =>
      assert (N0 : nthz f 0 = 16) by reflexivity; assert (N1 : nthz f 1 = c) by reflexivity; assert (N2 : nthz f (1 + 1) = own) by reflexivity;
      assert (NC : nthz f (2 + 1) = cs8 [c; own]) by reflexivity; assert (SL : slice f 1 (2 + 1) = [c; own]) by reflexivity end.
    unfold parse_su. cbv zeta. rewrite N0. bp_consts. numsimp. rewrite N2.
    assert (B : own =? 255 = false) by (apply Z.eqb_neq; exact Hnb). rewrite B, Z.eqb_refl. cbn [andb negb].
    rewrite SL, NC, N1, C64, C32, C16, Cfc, ?Z.eqb_refl. cbn [andb negb]. rewrite ?Z.eqb_refl. cbn [negb]. reflexivity.
  - destruct Hd as [_ Hd].
    match goal with |- parse_su _ _ _ ?f = _ =>
      assert (N0 : nthz f 0 = 16) by reflexivity; assert (N1 : nthz f 1 = c) by reflexivity;
      assert (N2 : nthz f (1 + 1) = own mod 256) by reflexivity; assert (N3 : nthz f (1 + 2) = (own / 256) mod 256) by reflexivity;
      assert (NC : nthz f (2 + 2) = cs8 [c; own mod 256; (own / 256) mod 256]) by reflexivity;
      assert (SL : slice f 1 (2 + 2) = [c; own mod 256; (own / 256) mod 256]) by reflexivity end.
    unfold parse_su. cbv zeta. rewrite N0. bp_consts. numsimp. rewrite N2, N3, Hd.
    assert (B : own =? 65535 = false) by (apply Z.eqb_neq; exact Hnb). rewrite B, Z.eqb_refl. cbn [andb negb].
    rewrite SL, NC, N1, C64, C32, C16, Cfc, ?Z.eqb_refl. cbn [andb negb]. rewrite ?Z.eqb_refl. cbn [negb]. reflexivity.
Qed.

(* a frame for another station (not the broadcast address) is ignored by the unbalanced secondary *)
Theorem parse_su_fixed_other : forall ff alen own other fc dir fcb fcv, 0 <= alen <= 2 ->
  addr_in_range alen own -> addr_in_range alen other -> other <> broadcast_addr alen -> other <> own ->
  parse_su ff alen own (enc_fixed alen fc other true dir fcb fcv) = SuIgnore.
Proof.
  intros ff alen own other fc dir fcb fcv H Ho Hr Hnb Hne.
  pose proof (addr_dec alen other H Hr) as Hd.
  unfold enc_fixed, addr_octets, broadcast_addr, addr_in_range in *. cbv zeta. set (c := ctrl fc true dir fcb fcv) in *.
  alen_cases H; numsimp; cbn [app].
  - exfalso. lia.
  - destruct Hd as [_ Hd]. rewrite Hd.
    match goal with |- parse_su _ _ _ ?f = _ => assert (N0 : nthz f 0 = 16) by reflexivity; assert (N2 : nthz f (1 + 1) = other) by reflexivity end.
    unfold parse_su. cbv zeta. rewrite N0. bp_consts. numsimp. rewrite N2.
    assert (B : other =? 255 = false) by (apply Z.eqb_neq; exact Hnb). assert (B2 : other =? own = false) by (apply Z.eqb_neq; exact Hne).
    rewrite B, B2. reflexivity.
  - destruct Hd as [_ Hd].
    match goal with |- parse_su _ _ _ ?f = _ => assert (N0 : nthz f 0 = 16) by reflexivity;
      assert (N2 : nthz f (1 + 1) = other mod 256) by reflexivity; assert (N3 : nthz f (1 + 2) = (other / 256) mod 256) by reflexivity end.
    unfold parse_su. cbv zeta. rewrite N0. bp_consts. numsimp. rewrite N2, N3, Hd.
    assert (B : other =? 65535 = false) by (apply Z.eqb_neq; exact Hnb). assert (B2 : other =? own = false) by (apply Z.eqb_neq; exact Hne).
    rewrite B, B2. reflexivity.
Qed.

Theorem parse_su_var_other : forall ff alen own other fc dir fcb fcv data f, 0 <= alen <= 2 ->
  addr_in_range alen own -> addr_in_range alen other -> other <> broadcast_addr alen -> other <> own ->
  enc_var alen fc other true dir fcb fcv data = Some f -> parse_su ff alen own f = SuIgnore.
Proof.
  intros ff alen own other fc dir fcb fcv data f H Ho Hr Hnb Hne E.
  unfold enc_var in E. cbv zeta in E. destruct (1 + alen + lenz data >? 255) eqn:L; [discriminate|].
  set (c := ctrl fc true dir fcb fcv) in *. set (l := 1 + alen + lenz data) in *.
  pose proof (lenz_nonneg data) as Hd0. pose proof (addr_dec alen other H Hr) as Hd.
  assert (Hudl : forall a, l = 1 + a + lenz data -> (ff && (l - a - 1 <? 0)) = false).
  { intros a Hl. assert (X : l - a - 1 <? 0 = false) by (apply Z.ltb_ge; lia). rewrite X. apply andb_false_r. }
  assert (Hsz : forall a, l = 1 + a + lenz data -> (l + 6 =? 5 + a + (l - a - 1) + 2) = true) by (intros; apply Z.eqb_eq; lia).
  unfold broadcast_addr, addr_in_range in *.
  alen_cases H; numsimp; unfold addr_octets in E, Hd; numsimp.
  - exfalso. lia.
  - destruct Hd as [_ Hd]. set (a0 := other mod 256) in *.
    assert (Ef : f = [104; l; l; 104] ++ (c :: a0 :: data) ++ [cs8 (c :: a0 :: data); 22]) by (injection E; intro X; rewrite <- X; reflexivity). clear E.
    assert (N0 : nthz f 0 = 104) by (rewrite Ef; reflexivity). assert (N1 : nthz f 1 = l) by (rewrite Ef; reflexivity).
    assert (N2 : nthz f 2 = l) by (rewrite Ef; reflexivity). assert (N5 : nthz f (4 + 1) = a0) by (rewrite Ef; reflexivity).
    assert (Lf : lenz f = l + 6) by (rewrite Ef; lz; unfold l; lia).
    unfold parse_su. cbv zeta. rewrite N0. bp_consts. rewrite N1, N2, Z.eqb_refl. cbn [negb]. rewrite Lf, (Hudl 1 eq_refl), (Hsz 1 eq_refl). cbn [negb]. cbv beta iota.
    numsimp. rewrite N5, Hd.
    assert (B : other =? 255 = false) by (apply Z.eqb_neq; exact Hnb). assert (B2 : other =? own = false) by (apply Z.eqb_neq; exact Hne).
    rewrite B, B2. reflexivity.
  - destruct Hd as [_ Hd]. set (a0 := other mod 256) in *. set (a1 := (other / 256) mod 256) in *.
    assert (Ef : f = [104; l; l; 104] ++ (c :: a0 :: a1 :: data) ++ [cs8 (c :: a0 :: a1 :: data); 22]) by (injection E; intro X; rewrite <- X; reflexivity). clear E.
    assert (N0 : nthz f 0 = 104) by (rewrite Ef; reflexivity). assert (N1 : nthz f 1 = l) by (rewrite Ef; reflexivity).
    assert (N2 : nthz f 2 = l) by (rewrite Ef; reflexivity). assert (N5 : nthz f (4 + 1) = a0) by (rewrite Ef; reflexivity).
    assert (N6 : nthz f (4 + 2) = a1) by (rewrite Ef; reflexivity).
    assert (Lf : lenz f = l + 6) by (rewrite Ef; lz; unfold l; lia).
    unfold parse_su. cbv zeta. rewrite N0. bp_consts. rewrite N1, N2, Z.eqb_refl. cbn [negb]. rewrite Lf, (Hudl 2 eq_refl), (Hsz 2 eq_refl). cbn [negb]. cbv beta iota.
    numsimp. rewrite N5, N6, Hd.
    assert (B : other =? 65535 = false) by (apply Z.eqb_neq; exact Hnb). assert (B2 : other =? own = false) by (apply Z.eqb_neq; exact Hne).
    rewrite B, B2. reflexivity.
Qed.
