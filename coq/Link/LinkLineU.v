(* C16: composition of the literal unbalanced primary (one slave connection: sc_run / sc_handle) with the literal unbalanced
   secondary (su_on_msg / su_handle / su_request) over a line that may lose any frame in either direction and delivers the others
   at once (octets on the line; the slave parses with parse_su, the master with parse_bp as in pu_on_msg).
   Both directions: messages of the master (SEND/CONFIRM) and the class 1 / class 2 data of the slave (REQUEST/RESPOND), plus the
   link test.  For every sequence of runs at any clock values, losses, application calls on either side, as long as the master
   has not reported the link in error: delivered = taken, in order, each once, except possibly the one outstanding item. *)
From Coq Require Import ZArith List Bool Lia.
From L60870 Require Import Link.Ft12 Link.Ft12Proofs Link.Ft12Bp Link.LinkSec Link.LinkPrim Link.LinkProofs.
Import ListNotations.
Local Open Scope Z_scope.

Section LineU.
Variables (v : variant) (c : llcfg) (addr : Z).
Hypothesis Hal : 0 <= alen c <= 2.
Hypothesis Hfc : fc_ v = true.
Hypothesis Hfg : fg v = true.
Hypothesis Hfh : fh v = true.
Hypothesis Hfi : fi v = true.
Hypothesis Har : addr_in_range (alen c) addr.
Hypothesis Hnb : addr <> broadcast_addr (alen c).

Lemma eqb_negb_l' (a : bool) : Bool.eqb (negb a) a = false. Proof. destruct a; reflexivity. Qed.

Definition uframes (o : list out) : list (list Z) := flat_map (fun x => match x with OTx f => [f] | _ => [] end) o.
Definition uinds (o : list out) : list (list Z) := flat_map (fun x => match x with OInd _ d => [d] | _ => [] end) o.
Definition uuds (o : list out) : list (list Z) := flat_map (fun x => match x with OUd _ d => [d] | _ => [] end) o.
Definition ureports_error (o : list out) : bool := existsb (fun x => match x with OLs _ s => s =? LS_ERROR | _ => false end) o.

(* the master receives a frame (pu_on_msg for the slave connection it is waiting for) *)
Definition m_recv (now : Z) (m : sc) (f : list Z) : sc * list out :=
  match parse_bp (ff v) (alen c) f with
  | BpAck => sc_handle v c now m 0 false false (-1) [] 0 0
  | BpPri fc dir dfc acd address uds udl => sc_handle v c now m fc acd dfc address f uds udl
  | _ => (m, [])
  end.

Definition umsg_ok (d : list Z) : Prop := 0 < lenz d /\ 1 + alen c + lenz d <= 255.
Definition umsg_okb (d : list Z) : bool := (0 <? lenz d) && (1 + alen c + lenz d <=? 255).
Lemma umsg_okb_ok d : umsg_okb d = true -> umsg_ok d.
Proof. unfold umsg_okb, umsg_ok. intros H. apply andb_prop in H. destruct H as [A B]. apply Z.ltb_lt in A. apply Z.leb_le in B. lia. Qed.

Lemma uenc_var_some fc prm b1 b2 d : umsg_ok d -> exists f, enc_var (alen c) fc addr prm false b1 b2 d = Some f.
Proof.
  intros [_ H]. unfold enc_var. cbv zeta. assert (E : (1 + alen c + lenz d >? 255) = false) by (rewrite Z.gtb_ltb; apply Z.ltb_ge; lia).
  rewrite E. eexists. reflexivity.
Qed.

(* ---- what crosses the line *)
Lemma s_gets_fixed now s fc fcb fcv : 0 <= fc < 16 -> su_addr s = addr ->
  su_on_msg v c now s (enc_fixed (alen c) fc addr true false fcb fcv) =
  su_handle (fi v) c (su_with_lastrx s now) fc false fcb fcv (enc_fixed (alen c) fc addr true false fcb fcv) 0 0.
Proof.
  intros H Ha. unfold su_on_msg. cbn [su_addr su_with_lastrx]. rewrite Ha.
  rewrite (parse_su_fixed (ff v) (alen c) addr fc false fcb fcv Hal H Har Hnb). reflexivity.
Qed.

Lemma s_gets_data now s fcb d f : su_addr s = addr -> enc_var (alen c) 3 addr true false fcb true d = Some f ->
  su_on_msg v c now s f = su_handle (fi v) c (su_with_lastrx s now) 3 false fcb true f (5 + alen c) (lenz d) /\
  user_data f (5 + alen c) (lenz d) = d.
Proof.
  intros Ha E. destruct (parse_su_roundtrip (ff v) (alen c) addr 3 false fcb true d f Hal ltac:(lia) Har Hnb E) as [P U].
  unfold su_on_msg. cbn [su_addr su_with_lastrx]. rewrite Ha, P. split; [reflexivity | exact U].
Qed.

Lemma m_gets_fixed now m fc acd : 0 <= fc < 16 ->
  m_recv now m (enc_fixed (alen c) fc addr false false acd false) =
  sc_handle v c now m fc acd false addr (enc_fixed (alen c) fc addr false false acd false) 0 0.
Proof. intros H. unfold m_recv. rewrite (parse_bp_fixed_sec (ff v) (alen c) fc addr false acd false Hal H Har). reflexivity. Qed.

Lemma m_gets_e5 now m : m_recv now m E5 = sc_handle v c now m 0 false false (-1) [] 0 0.
Proof. reflexivity. Qed.

Lemma m_gets_data now m acd d f : enc_var (alen c) 8 addr false false acd false d = Some f ->
  m_recv now m f = sc_handle v c now m 8 acd false addr f (5 + alen c) (lenz d) /\ user_data f (5 + alen c) (lenz d) = d.
Proof.
  intros E. destruct (parse_bp_var_sec (ff v) (alen c) 8 addr false acd false d f Hal ltac:(lia) Har E) as [P U].
  unfold m_recv. rewrite P. split; [reflexivity | exact U].
Qed.

(* ---- the line *)
Record uline := { um : sc; us : su; uT : list (list Z); uD : list (list Z); uR : list (list Z); uU : list (list Z); ufail : bool }.

Inductive uev :=
| URun (now : Z) (l1 l2 : bool)        (* the master runs this slave connection; l1: its frame is lost, l2: the answer is lost *)
| UMsg (d : list Z)                    (* master application: send confirmed *)
| UReq (class1 : bool)                 (* master application: request class 1 / class 2 data *)
| UTest                                (* master application: link test *)
| UEnq (class1 : bool) (d : list Z).   (* slave application: queue an ASDU *)

Definition unew (m m1 : sc) : list (list Z) :=
  if (sc_ps m =? PLL_AVAILABLE) && (sc_ps m1 =? PLL_SEND_CONFIRM) then [sc_msg m] else [].
Definition udeq (s s1 : su) : list (list Z) :=
  firstn (length (su_q1 s) - length (su_q1 s1)) (su_q1 s) ++ firstn (length (su_q2 s) - length (su_q2 s1)) (su_q2 s).

Definition ucross (now : Z) (l1 l2 : bool) (m1 : sc) (s : su) (o1 : list out) : sc * su * list (list Z) * list (list Z) * list out :=
  match uframes o1 with
  | f :: _ =>
      if l1 then (m1, s, [], [], [])
      else let '(s1, ob) := su_on_msg v c now s f in
           match uframes ob with
           | a :: _ => if l2 then (m1, s1, uinds ob, [], []) else let '(m2, oa) := m_recv now m1 a in (m2, s1, uinds ob, uuds oa, oa)
           | [] => (m1, s1, uinds ob, [], [])
           end
  | [] => (m1, s, [], [], [])
  end.

Definition ustep (st : uline) (e : uev) : uline :=
  match e with
  | URun now l1 l2 =>
      let '(m1, o1) := sc_run v c now (um st) in
      let '(m2, s2, dl, ul, oa) := ucross now l1 l2 m1 (us st) o1 in
      {| um := m2; us := s2; uT := uT st ++ unew (um st) m1; uD := uD st ++ dl; uR := uR st ++ udeq (us st) s2; uU := uU st ++ ul;
         ufail := ufail st || ureports_error o1 || ureports_error oa |}
  | UMsg d => {| um := if negb (sc_has (um st)) && umsg_okb d then sc_with_msg (um st) true d else um st;
                 us := us st; uT := uT st; uD := uD st; uR := uR st; uU := uU st; ufail := ufail st |}
  | UReq cls => {| um := if cls then sc_with_r (um st) true (sc_r2 (um st)) else sc_with_r (um st) (sc_r1 (um st)) true;
                   us := us st; uT := uT st; uD := uD st; uR := uR st; uU := uU st; ufail := ufail st |}
  | UTest => {| um := sc_with_test (um st) true; us := us st; uT := uT st; uD := uD st; uR := uR st; uU := uU st; ufail := ufail st |}
  | UEnq cls d => {| um := um st;
                     us := if umsg_okb d then (if cls then su_with_q (us st) (su_q1 (us st) ++ [d]) (su_q2 (us st))
                                               else su_with_q (us st) (su_q1 (us st)) (su_q2 (us st) ++ [d])) else us st;
                     uT := uT st; uD := uD st; uR := uR st; uU := uU st; ufail := ufail st |}
  end.

(* the joint invariant of the data phase *)
Definition JU (st : uline) : Prop :=
  let m := um st in let s := us st in
  sc_ls m = LS_AVAILABLE /\ sc_addr m = addr /\ su_addr s = addr /\ su_ls s = LS_AVAILABLE /\
  Forall umsg_ok (su_q1 s) /\ Forall umsg_ok (su_q2 s) /\ (sc_has m = true -> umsg_ok (sc_msg m)) /\
  ((sc_ps m = PLL_AVAILABLE /\ sc_nfcb m = su_efcb s /\ uD st = uT st /\ uU st = uR st) \/
   (sc_ps m = PLL_SEND_CONFIRM /\ sc_has m = true /\ uU st = uR st /\
      exists pre, uT st = pre ++ [sc_msg m] /\
        ((su_efcb s = negb (sc_nfcb m) /\ uD st = pre) \/ (su_efcb s = sc_nfcb m /\ uD st = pre ++ [sc_msg m]))) \/
   (sc_ps m = PLL_REQUEST_RESPOND /\ sc_lastfc m = 2 /\ uD st = uT st /\ uU st = uR st) \/
   (sc_ps m = PLL_REQUEST_RESPOND /\ (sc_lastfc m = 10 \/ sc_lastfc m = 11) /\ uD st = uT st /\
      ((su_efcb s = negb (sc_nfcb m) /\ uU st = uR st) \/
       (su_efcb s = sc_nfcb m /\
          ((su_udsz s = 0 /\ uU st = uR st) \/
           (exists pre d, uR st = pre ++ [d] /\ uU st = pre /\ su_udbuf s = d /\ su_udsz s = lenz d /\ umsg_ok d)))))).

Ltac scs := cbn [sc_addr sc_ls sc_ps sc_has sc_msg sc_lastsend sc_origsend sc_r1 sc_r2 sc_wait sc_test sc_nfcb sc_lastfc
                 sc_mk sc_with_ps sc_with_wait sc_with_r sc_with_lastsend sc_with_msg sc_with_test
                 su_ls su_efcb su_udsz su_udbuf su_lastrx su_idle su_addr su_q1 su_q2
                 su_with_ls su_with_efcb su_with_ud su_with_lastrx su_with_q fst snd].
Ltac scs2 := unfold sc_with_lastsend, sc_with_wait, sc_with_ps, sc_with_r, sc_with_msg, sc_with_test, sc_mk; scs.
Ltac uns := cbn [um us uT uD uR uU ufail].
Ltac uns_in H := cbn [um us uT uD uR uU ufail] in H.
Ltac scs_in H := cbn [sc_addr sc_ls sc_ps sc_has sc_msg sc_lastsend sc_origsend sc_r1 sc_r2 sc_wait sc_test sc_nfcb sc_lastfc su_ls su_efcb su_udsz su_udbuf su_lastrx su_idle su_addr su_q1 su_q2] in H.
Ltac ufr := cbn [uframes uinds uuds flat_map app ureports_error existsb orb].

Definition SU (e : bool) (usz : Z) (ubuf : list Z) (lrx idl : Z) (q1 q2 : list (list Z)) : su :=
  {| su_ls := LS_AVAILABLE; su_efcb := e; su_udsz := usz; su_udbuf := ubuf; su_lastrx := lrx; su_idle := idl; su_addr := addr; su_q1 := q1; su_q2 := q2 |}.

(* the slave's reactions (link state already AVAILABLE) *)
Lemma su_test_react e usz ubuf lrx idl q1 q2 fcb msg :
  su_handle true c (SU e usz ubuf lrx idl q1 q2) 2 false fcb true msg 0 0 =
  (SU (if Bool.eqb fcb e then negb e else e) usz ubuf lrx idl q1 q2, [OTx (enc_fixed (alen c) 15 addr false false false false)]).
Proof. unfold su_handle, su_set_state, SU. destruct fcb, e; reflexivity. Qed.

Lemma su_data_react e usz ubuf lrx idl q1 q2 fcb msg uds udl : 0 < udl ->
  su_handle true c (SU e usz ubuf lrx idl q1 q2) 3 false fcb true msg uds udl =
  (SU (if Bool.eqb fcb e then negb e else e) usz ubuf lrx idl q1 q2,
   (if Bool.eqb fcb e then [OInd false (user_data msg uds udl)] else []) ++
   [OTx (if single_ack c && negb (q_nonempty q1) then E5 else enc_fixed (alen c) 0 addr false false (q_nonempty q1) false)]).
Proof.
  intros H. assert (E : udl >? 0 = true) by (apply Z.gtb_lt; lia).
  unfold su_handle, su_set_state, su_ack, SU. scs. cbn [Z.eqb Pos.eqb orb andb negb]. destruct fcb, e; cbn [Bool.eqb andb negb app]; rewrite ?E; reflexivity.
Qed.

Lemma su_req_react e usz ubuf lrx idl q1 q2 fcb msg (cls : bool) :
  su_handle true c (SU e usz ubuf lrx idl q1 q2) (if cls then 10 else 11) false fcb true msg 0 0 =
  su_request c (SU e usz ubuf lrx idl q1 q2) cls fcb true.
Proof.
  unfold su_handle, su_set_state, SU, LS_AVAILABLE. scs. destruct cls; cbn [Z.eqb Pos.eqb orb andb negb app];
    match goal with |- context [su_request ?a ?b ?d ?e ?f] => destruct (su_request a b d e f) as [s' o] end; reflexivity.
Qed.

(* a class request with the expected bit: the head of the class queue is taken, remembered and sent; an empty queue is answered "no data" *)
Lemma su_request_new_data e usz ubuf lrx idl q1 q2 (cls : bool) d rest f :
  (if cls then q1 else q2) = d :: rest -> umsg_ok d ->
  enc_var (alen c) 8 addr false false (q_nonempty (if cls then rest else q1)) false d = Some f ->
  su_request c (SU e usz ubuf lrx idl q1 q2) cls e true =
  (SU (negb e) (lenz d) d lrx idl (if cls then rest else q1) (if cls then q2 else rest), [OTx f]).
Proof.
  intros Hq Hd Ef. unfold su_request, SU. scs. rewrite Bool.eqb_reflx. cbn [andb negb]. scs.
  assert (M : lenz d mod 256 = lenz d) by (apply Z.mod_small; destruct Hd; lia).
  destruct cls; rewrite Hq; scs; rewrite M, Ef; reflexivity.
Qed.

Lemma su_request_new_empty e usz ubuf lrx idl q1 q2 (cls : bool) :
  (if cls then q1 else q2) = [] ->
  su_request c (SU e usz ubuf lrx idl q1 q2) cls e true =
  (SU (negb e) 0 ubuf lrx idl q1 q2,
   [OTx (if single_ack c && negb (q_nonempty q1) then E5 else enc_fixed (alen c) 9 addr false false (q_nonempty q1) false)]).
Proof.
  intros Hq. unfold su_request, SU. scs. rewrite Bool.eqb_reflx. cbn [andb negb]. scs. destruct cls; rewrite Hq; scs; reflexivity.
Qed.

(* a repeated class request (the other bit): the remembered response again, nothing is taken from the queues *)
Lemma su_request_repeat_data e ubuf lrx idl q1 q2 (cls : bool) f : umsg_ok ubuf ->
  enc_var (alen c) 8 addr false false (q_nonempty q1) false ubuf = Some f ->
  su_request c (SU e (lenz ubuf) ubuf lrx idl q1 q2) cls (negb e) true = (SU e (lenz ubuf) ubuf lrx idl q1 q2, [OTx f]).
Proof.
  intros Hd Ef. unfold su_request, SU. scs. rewrite eqb_negb_l'. cbn [andb negb]. scs.
  assert (G : lenz ubuf >? 0 = true) by (apply Z.gtb_lt; destruct Hd; lia). rewrite G, Ef. reflexivity.
Qed.

Lemma su_request_repeat_empty e ubuf lrx idl q1 q2 (cls : bool) :
  su_request c (SU e 0 ubuf lrx idl q1 q2) cls (negb e) true =
  (SU e 0 ubuf lrx idl q1 q2,
   [OTx (if single_ack c && negb (q_nonempty q1) then E5 else enc_fixed (alen c) 9 addr false false (q_nonempty q1) false)]).
Proof. unfold su_request, SU. scs. rewrite eqb_negb_l'. cbn [andb negb]. scs. reflexivity. Qed.

Definition SC (ps : Z) (has : bool) (msg : list Z) (y6 y7 : Z) (r1 r2 wt tst nf : bool) (lfc : Z) : sc :=
  {| sc_addr := addr; sc_ls := LS_AVAILABLE; sc_ps := ps; sc_has := has; sc_msg := msg; sc_lastsend := y6; sc_origsend := y7;
     sc_r1 := r1; sc_r2 := r2; sc_wait := wt; sc_test := tst; sc_nfcb := nf; sc_lastfc := lfc |}.

(* the master's reactions while it waits for an answer *)
Lemma sc_ack_react_send now has msg y6 y7 r1 r2 wt tst nf lfc (acd : bool) a' m' uds udl :
  sc_handle v c now (SC PLL_SEND_CONFIRM has msg y6 y7 r1 r2 wt tst nf lfc) 0 acd false a' m' uds udl =
  (SC PLL_AVAILABLE false msg y6 y7 (acd || r1) r2 false tst nf lfc, if acd then [OAcd a'] else []).
Proof. unfold sc_handle, sc_set_state, SC, PLL_SEND_CONFIRM, PLL_AVAILABLE, LS_AVAILABLE. scs. rewrite Hfg. destruct acd; reflexivity. Qed.

Lemma sc_end_react now (fc : Z) has msg y6 y7 r1 r2 wt tst nf lfc (acd : bool) a' m' uds udl : fc = 0 \/ fc = 9 \/ fc = 15 ->
  sc_handle v c now (SC PLL_REQUEST_RESPOND has msg y6 y7 r1 r2 wt tst nf lfc) fc acd false a' m' uds udl =
  (SC PLL_AVAILABLE has msg y6 y7 (acd || r1) r2 false tst nf lfc, if acd then [OAcd a'] else []).
Proof.
  intros [-> | [-> | ->]]; unfold sc_handle, sc_set_state, SC, PLL_REQUEST_RESPOND, PLL_SEND_CONFIRM, PLL_AVAILABLE, LS_AVAILABLE; scs; rewrite ?Hfh; destruct acd; reflexivity.
Qed.

Lemma sc_data_react now has msg y6 y7 r1 r2 wt tst nf lfc (acd : bool) a' m' uds udl :
  sc_handle v c now (SC PLL_REQUEST_RESPOND has msg y6 y7 r1 r2 wt tst nf lfc) 8 acd false a' m' uds udl =
  (SC PLL_AVAILABLE has msg y6 y7 acd false false tst nf lfc, OUd a' (user_data m' uds udl) :: (if acd then [OAcd a'] else [])).
Proof. unfold sc_handle, sc_set_state, SC, PLL_REQUEST_RESPOND, PLL_AVAILABLE, LS_AVAILABLE. scs. destruct acd; reflexivity. Qed.

Definition short_frame (fc : Z) (acd : bool) : list Z :=
  if single_ack c && negb acd then E5 else enc_fixed (alen c) fc addr false false acd false.

Lemma m_ack_send now has msg y6 y7 r1 r2 wt tst nf lfc acd :
  m_recv now (SC PLL_SEND_CONFIRM has msg y6 y7 r1 r2 wt tst nf lfc) (short_frame 0 acd) =
  (SC PLL_AVAILABLE false msg y6 y7 (acd || r1) r2 false tst nf lfc, if acd then [OAcd addr] else []).
Proof.
  unfold short_frame. destruct (single_ack c && negb acd) eqn:E.
  - apply andb_prop in E. destruct E as [_ E]. destruct acd; [discriminate E|]. rewrite m_gets_e5, sc_ack_react_send. reflexivity.
  - rewrite m_gets_fixed by lia. apply sc_ack_react_send.
Qed.

Lemma m_short_rr now (fc : Z) has msg y6 y7 r1 r2 wt tst nf lfc acd : fc = 0 \/ fc = 9 \/ fc = 15 ->
  m_recv now (SC PLL_REQUEST_RESPOND has msg y6 y7 r1 r2 wt tst nf lfc) (short_frame fc acd) =
  (SC PLL_AVAILABLE has msg y6 y7 (acd || r1) r2 false tst nf lfc, if acd then [OAcd addr] else []).
Proof.
  intros Hf. unfold short_frame. destruct (single_ack c && negb acd) eqn:E.
  - apply andb_prop in E. destruct E as [_ E]. destruct acd; [discriminate E|]. rewrite m_gets_e5, (sc_end_react now 0) by (left; reflexivity). reflexivity.
  - rewrite m_gets_fixed by lia. apply sc_end_react. exact Hf.
Qed.

Lemma m_neg_rr now has msg y6 y7 r1 r2 wt tst nf lfc :
  m_recv now (SC PLL_REQUEST_RESPOND has msg y6 y7 r1 r2 wt tst nf lfc) (enc_fixed (alen c) 15 addr false false false false) =
  (SC PLL_AVAILABLE has msg y6 y7 r1 r2 false tst nf lfc, []).
Proof. rewrite m_gets_fixed by lia. rewrite (sc_end_react now 15) by (right; right; reflexivity). reflexivity. Qed.

Lemma m_data_rr now has msg y6 y7 r1 r2 wt tst nf lfc acd d f : enc_var (alen c) 8 addr false false acd false d = Some f ->
  m_recv now (SC PLL_REQUEST_RESPOND has msg y6 y7 r1 r2 wt tst nf lfc) f =
  (SC PLL_AVAILABLE has msg y6 y7 acd false false tst nf lfc, OUd addr d :: (if acd then [OAcd addr] else [])).
Proof. intros E. destruct (m_gets_data now (SC PLL_REQUEST_RESPOND has msg y6 y7 r1 r2 wt tst nf lfc) acd d f E) as [A B]. rewrite A, sc_data_react, B. reflexivity. Qed.

(* the slave station on the frames of the master *)
Lemma s_test now e usz ubuf lrx idl q1 q2 fcb :
  su_on_msg v c now (SU e usz ubuf lrx idl q1 q2) (enc_fixed (alen c) 2 addr true false fcb true) =
  (SU (if Bool.eqb fcb e then negb e else e) usz ubuf now idl q1 q2, [OTx (enc_fixed (alen c) 15 addr false false false false)]).
Proof. rewrite s_gets_fixed by (try lia; reflexivity). rewrite Hfi. apply su_test_react. Qed.

Lemma s_req now e usz ubuf lrx idl q1 q2 fcb (cls : bool) :
  su_on_msg v c now (SU e usz ubuf lrx idl q1 q2) (enc_fixed (alen c) (if cls then 10 else 11) addr true false fcb true) =
  su_request c (SU e usz ubuf now idl q1 q2) cls fcb true.
Proof. rewrite s_gets_fixed by (try (destruct cls; lia); reflexivity). rewrite Hfi. apply su_req_react. Qed.

Lemma s_data now e usz ubuf lrx idl q1 q2 fcb d f : umsg_ok d -> enc_var (alen c) 3 addr true false fcb true d = Some f ->
  su_on_msg v c now (SU e usz ubuf lrx idl q1 q2) f =
  (SU (if Bool.eqb fcb e then negb e else e) usz ubuf now idl q1 q2,
   (if Bool.eqb fcb e then [OInd false d] else []) ++ [OTx (short_frame 0 (q_nonempty q1))]).
Proof.
  intros Hd E. destruct (s_gets_data now (SU e usz ubuf lrx idl q1 q2) fcb d f eq_refl E) as [A B]. rewrite A, Hfi.
  change (su_with_lastrx (SU e usz ubuf lrx idl q1 q2) now) with (SU e usz ubuf now idl q1 q2).
  rewrite su_data_react by (destruct Hd; lia). rewrite B. reflexivity.
Qed.

Lemma firstn_sub_self {A} (l : list A) : firstn (length l - length l) l = [].
Proof. rewrite Nat.sub_diag. reflexivity. Qed.
Lemma firstn_sub_cons {A} (d : A) rest : firstn (length (d :: rest) - length rest) (d :: rest) = [d].
Proof. cbn [length]. replace (S (length rest) - length rest)%nat with 1%nat by lia. reflexivity. Qed.

Ltac ju_pre Hq1 Hq2 Hm :=
  unfold JU; uns; unfold SC, SU; scs;
  split; [reflexivity|]; split; [reflexivity|]; split; [reflexivity|]; split; [reflexivity|];
  split; [exact Hq1|]; split; [exact Hq2|]; split; [exact Hm|].
Ltac dq0 := unfold udeq, unew, SC, SU; scs; rewrite ?firstn_sub_self, ?firstn_sub_cons; cbn [Z.eqb Pos.eqb andb app]; rewrite ?app_nil_r.

Lemma JU_run_available has msg y6 y7 r1 r2 wt tst nf lfc usz ubuf lrx idl q1 q2 T R now l1 l2 :
  let st := {| um := SC PLL_AVAILABLE has msg y6 y7 r1 r2 wt tst nf lfc; us := SU nf usz ubuf lrx idl q1 q2;
              uT := T; uD := T; uR := R; uU := R; ufail := false |} in
  Forall umsg_ok q1 -> Forall umsg_ok q2 -> (has = true -> umsg_ok msg) -> JU (ustep st (URun now l1 l2)).
Proof.
  intros st Hq1 Hq2 Hm. unfold st, ustep. uns. unfold sc_run, SC. scs. rewrite Hfg.
  unfold PLL_AVAILABLE, PLL_IDLE, PLL_REQ_STATUS, PLL_RESET, PLL_SEND_CONFIRM, PLL_REQUEST_RESPOND, PLL_TIMEOUT. cbn [Z.eqb Pos.eqb negb].
  destruct tst.
  { (* link test *)
    unfold ucross. ufr. destruct l1.
    - scs. dq0. ju_pre Hq1 Hq2 Hm. right; right; left. repeat split; reflexivity.
    - rewrite s_test. rewrite Bool.eqb_reflx. ufr. destruct l2.
      + scs. dq0. ju_pre Hq1 Hq2 Hm. right; right; left. repeat split; reflexivity.
      + scs. rewrite m_neg_rr. ufr. dq0. ju_pre Hq1 Hq2 Hm. left. repeat split; reflexivity. }
  destruct has.
  { (* a message of the master: SEND/CONFIRM *)
    specialize (Hm eq_refl). destruct (uenc_var_some 3 true nf true msg Hm) as (f & Ef). rewrite Ef. cbn [tx_opt].
    unfold ucross. ufr. destruct l1.
    - scs. dq0. ju_pre Hq1 Hq2 (fun _ : true = true => Hm). right; left. split; [reflexivity|]. split; [reflexivity|]. split; [reflexivity|].
      exists T. split; [reflexivity|]. left. split; [rewrite negb_involutive; reflexivity | reflexivity].
    - rewrite (s_data now nf usz ubuf lrx idl q1 q2 nf msg f Hm Ef). rewrite Bool.eqb_reflx. ufr. destruct l2.
      + scs. dq0. ju_pre Hq1 Hq2 (fun _ : true = true => Hm). right; left. split; [reflexivity|]. split; [reflexivity|]. split; [reflexivity|].
        exists T. split; [reflexivity|]. right. split; reflexivity.
      + scs. rewrite m_ack_send. destruct (q_nonempty q1); ufr; dq0; ju_pre Hq1 Hq2 (fun X : false = true => False_ind (umsg_ok msg) (Bool.diff_false_true X));
          left; repeat split; reflexivity. }
  destruct r1.
  { (* class 1 request *)
    cbn [orb]. unfold ucross. ufr. destruct l1.
    - scs. dq0. ju_pre Hq1 Hq2 Hm. right; right; right. split; [reflexivity|]. split; [left; reflexivity|]. split; [reflexivity|].
      left. split; [rewrite negb_involutive; reflexivity | reflexivity].
    - rewrite (s_req now nf usz ubuf lrx idl q1 q2 nf true).
      destruct q1 as [|d rest].
      + rewrite (su_request_new_empty nf usz ubuf now idl [] q2 true eq_refl). cbn [q_nonempty negb andb]. ufr. destruct l2.
        * scs. dq0. ju_pre Hq1 Hq2 Hm. right; right; right. split; [reflexivity|]. split; [left; reflexivity|]. split; [reflexivity|].
          right. split; [reflexivity|]. left. split; reflexivity.
        * scs. change (if single_ack c && true then E5 else enc_fixed (alen c) 9 addr false false false false) with (short_frame 9 false).
          rewrite (m_short_rr now 9) by (right; left; reflexivity). ufr. dq0. ju_pre Hq1 Hq2 Hm. left. repeat split; reflexivity.
      + apply Forall_cons_iff in Hq1. destruct Hq1 as [Hd Hrest].
        destruct (uenc_var_some 8 false (q_nonempty rest) false d Hd) as (f & Ef).
        rewrite (su_request_new_data nf usz ubuf now idl (d :: rest) q2 true d rest f eq_refl Hd Ef). ufr. destruct l2.
        * scs. dq0. ju_pre Hrest Hq2 Hm. right; right; right. split; [reflexivity|]. split; [left; reflexivity|]. split; [reflexivity|].
          right. split; [reflexivity|]. right. exists R, d. repeat split; try reflexivity; apply Hd.
        * scs. rewrite (m_data_rr now _ _ _ _ _ _ _ _ _ _ _ d f Ef). ufr. destruct (q_nonempty rest); ufr; dq0; ju_pre Hrest Hq2 Hm; left; repeat split; reflexivity. }
  destruct r2.
  { (* class 2 request *)
    cbn [orb]. unfold ucross. ufr. destruct l1.
    - scs. dq0. ju_pre Hq1 Hq2 Hm. right; right; right. split; [reflexivity|]. split; [right; reflexivity|]. split; [reflexivity|].
      left. split; [rewrite negb_involutive; reflexivity | reflexivity].
    - rewrite (s_req now nf usz ubuf lrx idl q1 q2 nf false).
      destruct q2 as [|d rest].
      + rewrite (su_request_new_empty nf usz ubuf now idl q1 [] false eq_refl). ufr. destruct l2.
        * scs. dq0. ju_pre Hq1 Hq2 Hm. right; right; right. split; [reflexivity|]. split; [right; reflexivity|]. split; [reflexivity|].
          right. split; [reflexivity|]. left. split; reflexivity.
        * scs. change (if single_ack c && negb (q_nonempty q1) then E5 else enc_fixed (alen c) 9 addr false false (q_nonempty q1) false) with (short_frame 9 (q_nonempty q1)).
          rewrite (m_short_rr now 9) by (right; left; reflexivity). destruct (q_nonempty q1); ufr; dq0; ju_pre Hq1 Hq2 Hm; left; repeat split; reflexivity.
      + apply Forall_cons_iff in Hq2. destruct Hq2 as [Hd Hrest].
        destruct (uenc_var_some 8 false (q_nonempty q1) false d Hd) as (f & Ef).
        rewrite (su_request_new_data nf usz ubuf now idl q1 (d :: rest) false d rest f eq_refl Hd Ef). ufr. destruct l2.
        * scs. dq0. ju_pre Hq1 Hrest Hm. right; right; right. split; [reflexivity|]. split; [right; reflexivity|]. split; [reflexivity|].
          right. split; [reflexivity|]. right. exists R, d. repeat split; try reflexivity; apply Hd.
        * scs. rewrite (m_data_rr now _ _ _ _ _ _ _ _ _ _ _ d f Ef). destruct (q_nonempty q1); ufr; dq0; ju_pre Hq1 Hrest Hm; left; repeat split; reflexivity. }
  (* nothing to do *)
  cbn [orb]. unfold ucross. ufr. scs. dq0. ju_pre Hq1 Hq2 Hm. left. repeat split; reflexivity.
Qed.

Lemma JU_run_send_confirm msg y6 y7 r1 r2 wt tst nf lfc e usz ubuf lrx idl q1 q2 T D R now l1 l2 :
  let st := {| um := SC PLL_SEND_CONFIRM true msg y6 y7 r1 r2 wt tst nf lfc; us := SU e usz ubuf lrx idl q1 q2;
              uT := T; uD := D; uR := R; uU := R; ufail := false |} in
  Forall umsg_ok q1 -> Forall umsg_ok q2 -> umsg_ok msg ->
  (exists pre, T = pre ++ [msg] /\ ((e = negb nf /\ D = pre) \/ (e = nf /\ D = pre ++ [msg]))) ->
  ufail (ustep st (URun now l1 l2)) = false -> JU (ustep st (URun now l1 l2)).
Proof.
  intros st Hq1 Hq2 Hm (pre & -> & Hrec). unfold st, ustep. uns. unfold sc_run, SC. scs. rewrite Hfg.
  unfold PLL_AVAILABLE, PLL_IDLE, PLL_REQ_STATUS, PLL_RESET, PLL_SEND_CONFIRM, PLL_REQUEST_RESPOND, PLL_TIMEOUT. cbn [Z.eqb Pos.eqb negb andb].
  set (lsd := clamp y6 now).
  destruct (now >? lsd + t_ack c) eqn:Ea.
  2:{ unfold ucross. ufr. scs2. intros _. dq0. ju_pre Hq1 Hq2 (fun _ : true = true => Hm). right; left.
      split; [reflexivity|]. split; [reflexivity|]. split; [reflexivity|]. exists pre. split; [reflexivity | exact Hrec]. }
  destruct (now >? y7 + t_rep c) eqn:Er.
  { unfold sc_set_state. scs. unfold LS_AVAILABLE, LS_ERROR. cbn [Z.eqb Pos.eqb]. unfold ucross. ufr. cbn [Z.eqb Pos.eqb orb]. intros X. discriminate X. }
  destruct (uenc_var_some 3 true (negb nf) true msg Hm) as (f & Ef). rewrite Ef. cbn [tx_opt]. unfold ucross. ufr. destruct l1.
  - scs2. intros _. dq0. ju_pre Hq1 Hq2 (fun _ : true = true => Hm). right; left.
    split; [reflexivity|]. split; [reflexivity|]. split; [reflexivity|]. exists pre. split; [reflexivity | exact Hrec].
  - rewrite (s_data now e usz ubuf lrx idl q1 q2 (negb nf) msg f Hm Ef).
    destruct Hrec as [(-> & ->) | (-> & ->)].
    + rewrite Bool.eqb_reflx. ufr. destruct l2; intros _.
      * scs2. dq0. ju_pre Hq1 Hq2 (fun _ : true = true => Hm). right; left.
        split; [reflexivity|]. split; [reflexivity|]. split; [reflexivity|]. exists pre. split; [reflexivity|]. right. split; [apply negb_involutive | reflexivity].
      * scs2. rewrite m_ack_send. destruct (q_nonempty q1); ufr; dq0; ju_pre Hq1 Hq2 (fun X : false = true => False_ind (umsg_ok msg) (Bool.diff_false_true X));
          left; repeat split; try reflexivity; rewrite negb_involutive; reflexivity.
    + rewrite eqb_negb_l'. ufr. destruct l2; intros _.
      * scs2. dq0. ju_pre Hq1 Hq2 (fun _ : true = true => Hm). right; left.
        split; [reflexivity|]. split; [reflexivity|]. split; [reflexivity|]. exists pre. split; [reflexivity|]. right. split; reflexivity.
      * scs2. rewrite m_ack_send. destruct (q_nonempty q1); ufr; dq0; ju_pre Hq1 Hq2 (fun X : false = true => False_ind (umsg_ok msg) (Bool.diff_false_true X));
          left; repeat split; reflexivity.
Qed.

Lemma JU_run_test has msg y6 y7 r1 r2 wt tst nf e usz ubuf lrx idl q1 q2 T R now l1 l2 :
  let st := {| um := SC PLL_REQUEST_RESPOND has msg y6 y7 r1 r2 wt tst nf 2; us := SU e usz ubuf lrx idl q1 q2;
              uT := T; uD := T; uR := R; uU := R; ufail := false |} in
  Forall umsg_ok q1 -> Forall umsg_ok q2 -> (has = true -> umsg_ok msg) ->
  ufail (ustep st (URun now l1 l2)) = false -> JU (ustep st (URun now l1 l2)).
Proof.
  intros st Hq1 Hq2 Hm. unfold st, ustep. uns. unfold sc_run, SC. scs. rewrite Hfc.
  unfold PLL_AVAILABLE, PLL_IDLE, PLL_REQ_STATUS, PLL_RESET, PLL_SEND_CONFIRM, PLL_REQUEST_RESPOND, PLL_TIMEOUT. cbn [Z.eqb Pos.eqb negb andb].
  set (lsd := clamp y6 now).
  destruct (now >? lsd + t_ack c) eqn:Ea.
  2:{ unfold ucross. ufr. scs2. intros _. dq0. ju_pre Hq1 Hq2 Hm. right; right; left. repeat split; reflexivity. }
  destruct (now >? y7 + t_rep c) eqn:Er.
  { unfold sc_set_state. scs2. unfold LS_AVAILABLE, LS_ERROR. cbn [Z.eqb Pos.eqb]. unfold ucross. ufr. cbn [Z.eqb Pos.eqb orb]. intros X. discriminate X. }
  unfold ucross. ufr. destruct l1.
  - scs2. intros _. dq0. ju_pre Hq1 Hq2 Hm. right; right; left. repeat split; reflexivity.
  - rewrite s_test. ufr. destruct l2; intros _.
    + scs2. dq0. ju_pre Hq1 Hq2 Hm. right; right; left. repeat split; reflexivity.
    + scs2. rewrite m_neg_rr. ufr. dq0. ju_pre Hq1 Hq2 Hm. left. repeat split; try reflexivity. destruct nf, e; reflexivity.
Qed.

Lemma JU_run_request (cls : bool) has msg y6 y7 r1 r2 wt tst nf e usz ubuf lrx idl q1 q2 T R U now l1 l2 :
  let st := {| um := SC PLL_REQUEST_RESPOND has msg y6 y7 r1 r2 wt tst nf (if cls then 10 else 11); us := SU e usz ubuf lrx idl q1 q2;
              uT := T; uD := T; uR := R; uU := U; ufail := false |} in
  Forall umsg_ok q1 -> Forall umsg_ok q2 -> (has = true -> umsg_ok msg) ->
  ((e = negb nf /\ U = R) \/
   (e = nf /\ ((usz = 0 /\ U = R) \/ (exists pre d, R = pre ++ [d] /\ U = pre /\ ubuf = d /\ usz = lenz d /\ umsg_ok d)))) ->
  ufail (ustep st (URun now l1 l2)) = false -> JU (ustep st (URun now l1 l2)).
Proof.
  intros st Hq1 Hq2 Hm HJ. unfold st, ustep. uns. unfold sc_run, SC. scs. rewrite Hfc.
  unfold PLL_AVAILABLE, PLL_IDLE, PLL_REQ_STATUS, PLL_RESET, PLL_SEND_CONFIRM, PLL_REQUEST_RESPOND, PLL_TIMEOUT. cbn [Z.eqb Pos.eqb negb andb].
  set (lsd := clamp y6 now).
  assert (Hl : (if cls then 10 else 11) = 10 \/ (if cls then 10 else 11) = 11) by (destruct cls; [left | right]; reflexivity).
  destruct (now >? lsd + t_ack c) eqn:Ea.
  2:{ unfold ucross. ufr. scs2. intros _. dq0. ju_pre Hq1 Hq2 Hm. right; right; right. split; [reflexivity|]. split; [exact Hl|]. split; [reflexivity | exact HJ]. }
  destruct (now >? y7 + t_rep c) eqn:Er.
  { unfold sc_set_state. scs2. unfold LS_AVAILABLE, LS_ERROR. cbn [Z.eqb Pos.eqb]. unfold ucross. ufr. cbn [Z.eqb Pos.eqb orb]. intros X. discriminate X. }
  unfold ucross. ufr. destruct l1.
  - scs2. intros _. dq0. ju_pre Hq1 Hq2 Hm. right; right; right. split; [reflexivity|]. split; [exact Hl|]. split; [reflexivity | exact HJ].
  - rewrite (s_req now e usz ubuf lrx idl q1 q2 (negb nf) cls).
    destruct HJ as [(-> & ->) | (-> & [(-> & ->) | (pre & d & -> & -> & -> & -> & Hd)])].
    + (* the slave sees the request for the first time *)
      destruct ((if cls then q1 else q2)) as [|d rest] eqn:Eq.
      * rewrite (su_request_new_empty (negb nf) usz ubuf now idl q1 q2 cls Eq). ufr. destruct l2; intros _.
        -- scs2. dq0. ju_pre Hq1 Hq2 Hm. right; right; right. split; [reflexivity|]. split; [exact Hl|]. split; [reflexivity|].
           right. split; [apply negb_involutive|]. left. split; reflexivity.
        -- scs2. change (if single_ack c && negb (q_nonempty q1) then E5 else enc_fixed (alen c) 9 addr false false (q_nonempty q1) false) with (short_frame 9 (q_nonempty q1)).
           rewrite (m_short_rr now 9) by (right; left; reflexivity). destruct (q_nonempty q1); ufr; dq0; ju_pre Hq1 Hq2 Hm; left; repeat split; try reflexivity; rewrite negb_involutive; reflexivity.
      * assert (Hd : umsg_ok d /\ Forall umsg_ok (if cls then rest else q1) /\ Forall umsg_ok (if cls then q2 else rest)).
        { destruct cls; subst; [apply Forall_cons_iff in Hq1 | apply Forall_cons_iff in Hq2]; tauto. }
        destruct Hd as (Hd & Hn1 & Hn2).
        destruct (uenc_var_some 8 false (q_nonempty (if cls then rest else q1)) false d Hd) as (f & Ef).
        rewrite (su_request_new_data (negb nf) usz ubuf now idl q1 q2 cls d rest f Eq Hd Ef). ufr.
        assert (Hdq : udeq (SU (negb nf) usz ubuf lrx idl q1 q2) (SU (negb (negb nf)) (lenz d) d now idl (if cls then rest else q1) (if cls then q2 else rest)) = [d]).
        { unfold udeq, SU. scs. destruct cls; subst; rewrite ?firstn_sub_self, ?firstn_sub_cons; reflexivity. }
        destruct l2; intros _.
        -- scs2. rewrite Hdq. unfold unew, SC; scs; cbn [Z.eqb Pos.eqb andb]; rewrite ?app_nil_r.
           ju_pre Hn1 Hn2 Hm. right; right; right. split; [reflexivity|]. split; [exact Hl|]. split; [reflexivity|].
           right. split; [apply negb_involutive|]. right. exists R, d. repeat split; try reflexivity; apply Hd.
        -- scs2. rewrite (m_data_rr now _ _ _ _ _ _ _ _ _ _ _ d f Ef). rewrite Hdq. unfold unew, SC; scs; cbn [Z.eqb Pos.eqb andb]; rewrite ?app_nil_r.
           destruct (q_nonempty (if cls then rest else q1)); ufr; ju_pre Hn1 Hn2 Hm; left; repeat split; try reflexivity; rewrite negb_involutive; reflexivity.
    + (* seen before, answered "no data": the same answer again *)
      rewrite su_request_repeat_empty. ufr. destruct l2; intros _.
      * scs2. dq0. ju_pre Hq1 Hq2 Hm. right; right; right. split; [reflexivity|]. split; [exact Hl|]. split; [reflexivity|].
        right. split; [reflexivity|]. left. split; reflexivity.
      * scs2. change (if single_ack c && negb (q_nonempty q1) then E5 else enc_fixed (alen c) 9 addr false false (q_nonempty q1) false) with (short_frame 9 (q_nonempty q1)).
        rewrite (m_short_rr now 9) by (right; left; reflexivity). destruct (q_nonempty q1); ufr; dq0; ju_pre Hq1 Hq2 Hm; left; repeat split; reflexivity.
    + (* seen before, answered with data that was lost: the remembered response again, nothing new is taken *)
      destruct (uenc_var_some 8 false (q_nonempty q1) false d Hd) as (f & Ef).
      rewrite (su_request_repeat_data nf d now idl q1 q2 cls f Hd Ef). ufr. destruct l2; intros _.
      * scs2. dq0. ju_pre Hq1 Hq2 Hm. right; right; right. split; [reflexivity|]. split; [exact Hl|]. split; [reflexivity|].
        right. split; [reflexivity|]. right. exists pre, d. repeat split; try reflexivity; apply Hd.
      * scs2. rewrite (m_data_rr now _ _ _ _ _ _ _ _ _ _ _ d f Ef). destruct (q_nonempty q1); ufr; dq0; ju_pre Hq1 Hq2 Hm; left; repeat split; reflexivity.
Qed.

(* ---- every step, every history *)
Lemma JU_step st ev : JU st -> ufail st = false -> ufail (ustep st ev) = false -> JU (ustep st ev).
Proof.
  intros HJ Hf Hf'. destruct st as [m s T D R U fl]. cbn [ufail] in Hf. subst fl.
  destruct m as [a1 a2 a3 has msg y6 y7 r1 r2 wt tst nf lfc]. destruct s as [b1 e usz ubuf lrx idl b7 q1 q2].
  unfold JU in HJ. uns_in HJ. scs_in HJ. destruct HJ as (E1 & E2 & E3 & E4 & Hq1 & Hq2 & Hm & HJ). subst a2 a1 b7 b1.
  destruct ev as [now l1 l2|d|cls| |cls d].
  - (* the master runs *)
    destruct HJ as [(-> & -> & -> & ->) | [(-> & -> & -> & pre & HT & Hrec) | [(-> & -> & -> & ->) | (-> & Hl & -> & Hrec)]]].
    + apply JU_run_available; assumption.
    + apply JU_run_send_confirm; [exact Hq1 | exact Hq2 | exact (Hm eq_refl) | exists pre; split; assumption | exact Hf'].
    + apply JU_run_test; assumption.
    + destruct Hl as [-> | ->].
      * apply (JU_run_request true); assumption.
      * apply (JU_run_request false); assumption.
  - (* the master application hands over a message *)
    unfold ustep. uns. scs. destruct has; cbn [negb andb].
    + unfold JU. uns. scs. (split; [reflexivity|]); (split; [reflexivity|]); (split; [reflexivity|]); (split; [reflexivity|]); (split; [exact Hq1|]); (split; [exact Hq2|]); (split; [exact Hm|]); exact HJ.
    + destruct (umsg_okb d) eqn:Ed.
      * unfold JU. uns. scs2. split; [reflexivity|]. split; [reflexivity|]. split; [reflexivity|]. split; [reflexivity|]. split; [exact Hq1|]. split; [exact Hq2|].
        split; [intros _; apply umsg_okb_ok, Ed|].
        destruct HJ as [H | [(_ & X & _) | [H | H]]]; [left; exact H | discriminate X | right; right; left; exact H | right; right; right; exact H].
      * unfold JU. uns. scs. (split; [reflexivity|]); (split; [reflexivity|]); (split; [reflexivity|]); (split; [reflexivity|]); (split; [exact Hq1|]); (split; [exact Hq2|]); (split; [exact Hm|]); exact HJ.
  - (* the master application asks for class data *)
    unfold ustep. uns. destruct cls; unfold JU; uns; scs2; (split; [reflexivity|]); (split; [reflexivity|]); (split; [reflexivity|]); (split; [reflexivity|]);
      (split; [exact Hq1|]); (split; [exact Hq2|]); (split; [exact Hm|]); exact HJ.
  - (* the master application asks for a link test *)
    unfold ustep. uns. unfold JU; uns; scs2. split; [reflexivity|]. split; [reflexivity|]. split; [reflexivity|]. split; [reflexivity|].
    split; [exact Hq1|]. split; [exact Hq2|]. split; [exact Hm|]. exact HJ.
  - (* the slave application queues an ASDU *)
    unfold ustep. uns. scs. destruct (umsg_okb d) eqn:Ed.
    + assert (Hd : umsg_ok d) by (apply umsg_okb_ok, Ed).
      destruct cls; unfold JU; uns; unfold su_with_q; scs; (split; [reflexivity|]); (split; [reflexivity|]); (split; [reflexivity|]); (split; [reflexivity|]).
      * split; [apply Forall_app; split; [exact Hq1 | constructor; [exact Hd | constructor]]|]. split; [exact Hq2|]. split; [exact Hm|]. exact HJ.
      * split; [exact Hq1|]. split; [apply Forall_app; split; [exact Hq2 | constructor; [exact Hd | constructor]]|]. split; [exact Hm|]. exact HJ.
    + unfold JU. uns. scs. (split; [reflexivity|]); (split; [reflexivity|]); (split; [reflexivity|]); (split; [reflexivity|]); (split; [exact Hq1|]); (split; [exact Hq2|]); (split; [exact Hm|]); exact HJ.
Qed.

Lemma ufail_step_mono st e : ufail st = true -> ufail (ustep st e) = true.
Proof.
  intros H. destruct e as [now l1 l2|d|cls| |cls d]; cbn [ustep ufail]; try exact H.
  destruct (sc_run v c now (um st)) as [m1 o1]. destruct (ucross now l1 l2 m1 (us st) o1) as [[[[m2 s2] dl] ul] oa].
  cbn [ufail]. rewrite H. reflexivity.
Qed.

Lemma ufail_run_mono evs : forall st, ufail st = true -> ufail (fold_left ustep evs st) = true.
Proof. induction evs as [|e r IH]; intros st H; cbn [fold_left]; [exact H | apply IH, ufail_step_mono, H]. Qed.

Theorem uline_invariant evs : forall st, JU st -> ufail st = false -> ufail (fold_left ustep evs st) = false -> JU (fold_left ustep evs st).
Proof.
  induction evs as [|e r IH]; intros st HJ Hf Hend; cbn [fold_left] in *; [exact HJ|].
  destruct (ufail (ustep st e)) eqn:E.
  - rewrite (ufail_run_mono r _ E) in Hend. discriminate Hend.
  - apply IH; [apply JU_step; assumption | exact E | exact Hend].
Qed.

(* both directions, every history, while the master has not reported the link in error:
   master -> slave: delivered = taken, or the one message waiting for its confirmation is missing;
   slave -> master: delivered = taken from the class queues (in the order they were taken, hence first-in first-out within a class),
   or the one response whose request is still being repeated is missing *)
Theorem uline_exactly_once evs st : JU st -> ufail st = false ->
  let st' := fold_left ustep evs st in ufail st' = false ->
  (uD st' = uT st' \/ (uT st' = uD st' ++ [sc_msg (um st')] /\ sc_ps (um st') = PLL_SEND_CONFIRM)) /\
  (uU st' = uR st' \/ (uR st' = uU st' ++ [su_udbuf (us st')] /\ sc_ps (um st') = PLL_REQUEST_RESPOND)).
Proof.
  intros HJ Hf st' Hend. pose proof (uline_invariant evs st HJ Hf Hend) as (_ & _ & _ & _ & _ & _ & _ & H). fold st' in H.
  destruct H as [(_ & _ & HD & HU) | [(Hps & _ & HU & pre & HT & [(_ & HD) | (_ & HD)]) | [(_ & _ & HD & HU) | (Hps & _ & HD & [(_ & HU) | (_ & [(_ & HU) | (pre & d & HR & HU & Hb & _)])])]]].
  - split; left; assumption.
  - split; [right; rewrite HD; split; [exact HT | exact Hps] | left; exact HU].
  - split; [left; rewrite HD, HT; reflexivity | left; exact HU].
  - split; left; assumption.
  - split; left; assumption.
  - split; left; assumption.
  - split; [left; exact HD | right; rewrite HU, Hb; split; [exact HR | exact Hps]].
Qed.

(* the data phase starts synchronised: the slave handles RESET REMOTE LINK (expected bit := 1, acknowledged), the master handles the
   acknowledgement in state RESET and its next run makes the link AVAILABLE with bit 1 *)
Lemma ureset_synchronises now e usz ubuf lrx idl q1 q2 :
  fst (su_on_msg v c now (SU e usz ubuf lrx idl q1 q2) (reset_frame c addr false)) = SU true usz ubuf now idl q1 q2.
Proof.
  unfold reset_frame. rewrite s_gets_fixed by (try lia; reflexivity). unfold su_handle, su_set_state, SU, LS_AVAILABLE. scs. reflexivity.
Qed.
End LineU.

(* non-vacuity: one slave (address 3, one address octet), two class 1 ASDUs and one class 2 ASDU queued, a message of the master,
   a link test; requests, responses and acknowledgements lost in turn: everything arrives once, in order, no failure reported *)
Definition uex_v : variant := {| fa := true; fb := true; fc_ := true; fd := true; fe := true; ff := true; fg := true; fh := true; fi := true |}.
Definition uex_c : llcfg := {| alen := 1; single_ack := false; t_ack := 200; t_rep := 1000; t_ls := 5000 |}.
Definition uex_st : uline :=
  {| um := SC 3 PLL_AVAILABLE false [] 0 0 false false false false true 11; us := SU 3 true 0 [] 0 100000 [] [];
     uT := []; uD := []; uR := []; uU := []; ufail := false |}.
Definition uex_evs : list uev :=
  [UEnq true [30; 1; 3; 0; 1; 0; 1]; UEnq true [30; 1; 3; 0; 1; 0; 2]; UEnq false [9; 1; 3; 0; 1; 0; 3]; UReq true;
   URun 10 true false; URun 250 false true; URun 500 false false;          (* request lost; response lost; repeated request answered with the same ASDU *)
   UMsg [45; 1; 6; 0; 1; 0; 7]; URun 600 false true; UTest; URun 850 false false;  (* message delivered, ack lost; test requested meanwhile; repetition acknowledged *)
   URun 900 false false;                                                   (* link test *)
   URun 1000 false false; UReq false; URun 1100 false false; URun 1200 false false].
Example uline_example :
  let st' := fold_left (ustep uex_v uex_c) uex_evs uex_st in
  ufail st' = false /\ uD st' = [[45; 1; 6; 0; 1; 0; 7]] /\ uT st' = uD st' /\
  uU st' = [[30; 1; 3; 0; 1; 0; 1]; [30; 1; 3; 0; 1; 0; 2]; [9; 1; 3; 0; 1; 0; 3]] /\ uR st' = uU st'.
Proof. vm_compute. repeat split; reflexivity. Qed.

(* the hypotheses are needed.  fi = false (original secondary: a frame whose service it does not implement -- the link test -- does
   not take part in the alternation of the frame count bit): after a link test the next NEW class request is taken for a repetition
   and answered with the previous response: an ASDU is delivered twice, nothing is reported *)
Definition uex_v_nofi : variant := {| fa := true; fb := true; fc_ := true; fd := true; fe := true; ff := true; fg := true; fh := true; fi := false |}.
Example uline_exactly_once_refuted_fi :
  let st' := fold_left (ustep uex_v_nofi uex_c)
               [UEnq true [30; 1; 3; 0; 1; 0; 1]; UReq true; URun 10 false false; UTest; URun 100 false false;
                UEnq true [30; 1; 3; 0; 1; 0; 2]; UReq true; URun 200 false false; URun 300 false false] uex_st in
  ufail st' = false /\ sc_ps (um st') = PLL_AVAILABLE /\ uR st' = [[30; 1; 3; 0; 1; 0; 1]; [30; 1; 3; 0; 1; 0; 2]] /\
  uU st' = [[30; 1; 3; 0; 1; 0; 1]; [30; 1; 3; 0; 1; 0; 1]; [30; 1; 3; 0; 1; 0; 2]].
Proof. vm_compute. repeat split; reflexivity. Qed.

(* fg = false (original primary: a link test requested while a message waits for its confirmation replaces the repetition):
   the slave answers the test frame, the master takes that for the end of the service; the request flag is never cleared on this path, test
   frames go out for ever and the message is never transmitted again: not delivered, nothing is reported *)
Definition uex_v_nofg : variant := {| fa := true; fb := true; fc_ := true; fd := true; fe := true; ff := true; fg := false; fh := true; fi := true |}.
Example uline_exactly_once_refuted_fg :
  let st' := fold_left (ustep uex_v_nofg uex_c)
               [UMsg [45; 1; 6; 0; 1; 0; 7]; URun 10 true false; UTest; URun 250 false false; URun 300 false false; URun 400 false false; URun 500 false false] uex_st in
  ufail st' = false /\ sc_ps (um st') = PLL_AVAILABLE /\ uT st' = [[45; 1; 6; 0; 1; 0; 7]] /\ uD st' = [].
Proof. vm_compute. repeat split; reflexivity. Qed.
