(* C16: the unbalanced secondary station with the literal class queues.  Link/LinkSec.v keeps the two class queues of the slave as
   lists (su_q1, su_q2: the FIFO stub behind GetClass1Data / GetClass2Data / IsClass1DataAvailable); the CS101 slave keeps them in
   the ring of cs101_queue.c (Link/Cs101Queue.v, proved to refine a FIFO that displaces its oldest entry in Cs101QueueProofs.v).
   Here the handler of the secondary is transcribed with the rings in place of the lists - a class request DEQUEUES, the
   access-demand bit is `not isEmpty(class 1 ring)` - and shown to be the list version under the abstraction cq_abs, for every
   frame and every ring state satisfying the ring invariant; the application's enqueue is the bounded FIFO's. *)
From Coq Require Import ZArith List Bool Lia.
From L60870 Require Import Link.Ft12 Link.LinkSec Link.Cs101Queue Link.Cs101QueueProofs.
Import ListNotations.
Local Open Scope Z_scope.

Record suq := { sq_s : su; sq_1 : cq; sq_2 : cq }.       (* the list fields of sq_s are not read *)
Definition suq_abs (x : suq) : su := su_with_q (sq_s x) (cq_abs (sq_1 x)) (cq_abs (sq_2 x)).
Definition suq_with_s (x : suq) (s : su) : suq := {| sq_s := s; sq_1 := sq_1 x; sq_2 := sq_2 x |}.
Definition acd_r (x : suq) : bool := negb (cq_is_empty (sq_1 x)).

Definition su_request_r (c : llcfg) (x : suq) (class1 : bool) (fcb fcv : bool) : suq * list out :=
  let s := sq_s x in
  let invalidFCB := fcv && negb (Bool.eqb fcb (su_efcb s)) in
  let s1 := if fcv && Bool.eqb fcb (su_efcb s) then su_with_efcb s (negb (su_efcb s)) else s in
  let '(x2, asdu) :=
    if invalidFCB then
      (suq_with_s x s1, if su_udsz s1 >? 0 then Some (su_udbuf s1) else None)
    else
      let '(od, q') := cq_dequeue (if class1 then sq_1 x else sq_2 x) in
      match od with
      | Some d => ({| sq_s := su_with_ud s1 (lenz d mod 256) d; sq_1 := if class1 then q' else sq_1 x; sq_2 := if class1 then sq_2 x else q' |}, Some d)
      | None => (suq_with_s x (su_with_ud s1 0 (su_udbuf s1)), None)
      end in
  let acd := acd_r x2 in
  match asdu with
  | Some d => (x2, tx_opt (enc_var (alen c) 8 (su_addr (sq_s x2)) false false acd false d))
  | None =>
      (x2, [OTx (if single_ack c && negb acd then E5 else enc_fixed (alen c) 9 (su_addr (sq_s x2)) false false acd false)])
  end.

Definition su_handle_r (fi_ : bool) (c : llcfg) (x0 : suq) (fc : Z) (bc fcb fcv : bool) (msg : list Z) (uds udl : Z) : suq * list out :=
  let '(s, o0) := su_set_state (sq_s x0) LS_AVAILABLE in
  let x := suq_with_s x0 s in
  let err := let '(s', o) := su_set_state s LS_ERROR in (suq_with_s x0 s', o0 ++ o) in
  if fc =? 9 then
    if fcv then err
    else (x, o0 ++ [OTx (enc_fixed (alen c) 11 (su_addr s) false false (acd_r x) false)])
  else if (fc =? 0) || (fc =? 7) then
    if fcv || fcb then err
    else
      let s1 := su_with_efcb s true in
      (suq_with_s x0 s1, o0 ++ [OTx (if single_ack c then E5 else enc_fixed (alen c) 0 (su_addr s) false false false false);
                                ORcu (fc =? 7)])
  else if fc =? 11 then let '(x', o) := su_request_r c x false fcb fcv in (x', o0 ++ o)
  else if fc =? 10 then let '(x', o) := su_request_r c x true fcb fcv in (x', o0 ++ o)
  else if fc =? 3 then
    let indicate := negb (fcv && negb (Bool.eqb fcb (su_efcb s))) in
    let s1 := if fcv && Bool.eqb fcb (su_efcb s) then su_with_efcb s (negb (su_efcb s)) else s in
    let oi := if indicate && (udl >? 0) then [OInd bc (user_data msg uds udl)] else [] in
    let acd := acd_r x in
    (suq_with_s x0 s1, o0 ++ oi ++ [OTx (su_ack c s1 acd)])
  else if fc =? 4 then
    if fcv then err
    else (x, o0 ++ (if udl >? 0 then [OInd bc (user_data msg uds udl)] else []))
  else (suq_with_s x0 (if fi_ && fcv && Bool.eqb fcb (su_efcb s) then su_with_efcb s (negb (su_efcb s)) else s),
        o0 ++ [OTx (enc_fixed (alen c) 15 (su_addr s) false false false false)]).

(* the application hands over an ASDU of class 1 / class 2: CS101_Queue_enqueue *)
Definition suq_enqueue (x : suq) (class1 : bool) (d : list Z) : suq :=
  if class1 then {| sq_s := sq_s x; sq_1 := cq_enqueue (sq_1 x) d; sq_2 := sq_2 x |}
  else {| sq_s := sq_s x; sq_1 := sq_1 x; sq_2 := cq_enqueue (sq_2 x) d |}.

Definition QI (x : suq) : Prop := QInv (sq_1 x) /\ QInv (sq_2 x).

(* ---- the setters commute with the replacement of the list fields *)
Lemma wq_ls s a b z : su_with_q (su_with_ls s z) a b = su_with_ls (su_with_q s a b) z. Proof. reflexivity. Qed.
Lemma wq_efcb s a b z : su_with_q (su_with_efcb s z) a b = su_with_efcb (su_with_q s a b) z. Proof. reflexivity. Qed.
Lemma wq_ud s a b z w : su_with_q (su_with_ud s z w) a b = su_with_ud (su_with_q s a b) z w. Proof. reflexivity. Qed.
Lemma wq_wq s a b a' b' : su_with_q (su_with_q s a b) a' b' = su_with_q s a' b'. Proof. reflexivity. Qed.

Lemma set_state_abs s a b ns :
  su_set_state (su_with_q s a b) ns = (su_with_q (fst (su_set_state s ns)) a b, snd (su_set_state s ns)).
Proof. unfold su_set_state. cbn [su_with_q su_ls]. destruct (su_ls s =? ns); reflexivity. Qed.

Lemma acd_abs x : QInv (sq_1 x) -> acd_r x = q_nonempty (su_q1 (suq_abs x)).
Proof.
  intros H. unfold acd_r, suq_abs. cbn [su_with_q su_q1]. rewrite (is_empty_spec _ H). destruct (cq_abs (sq_1 x)); reflexivity.
Qed.

(* ---- class request *)
Local Opaque enc_fixed enc_var tx_opt E5 lenz Z.modulo Z.gtb.

Theorem su_request_r_refines c x class1 fcb fcv : QI x ->
  su_request c (suq_abs x) class1 fcb fcv = (suq_abs (fst (su_request_r c x class1 fcb fcv)), snd (su_request_r c x class1 fcb fcv)) /\
  QI (fst (su_request_r c x class1 fcb fcv)).
Proof.
  intros [H1 H2]. destruct x as [s q1 q2]. destruct s as [ls ef usz ub lrx idl ad l1 l2]. cbn [sq_1 sq_2] in H1, H2.
  unfold QI, su_request, su_request_r, suq_abs, suq_with_s, acd_r.
  pose proof (dequeue_refines q1 H1) as D1. pose proof (dequeue_refines q2 H2) as D2. pose proof (is_empty_spec q1 H1) as Z1.
  destruct (cq_dequeue q1) as [od1 q1'] eqn:EQ1. destruct (cq_dequeue q2) as [od2 q2'] eqn:EQ2.
  destruct D1 as (HI1 & EA1 & _). destruct D2 as (HI2 & EA2 & _). pose proof (is_empty_spec q1' HI1) as Z1'.
  unfold fifo_dequeue in EA1, EA2.
  destruct (cq_abs q1) as [|d1 r1] eqn:EL1; destruct (cq_abs q2) as [|d2 r2] eqn:EL2;
    inversion EA1 as [[Eo1 Er1]]; inversion EA2 as [[Eo2 Er2]]; subst od1 od2; rewrite ?Er1 in Z1';
    destruct fcv, fcb, ef, class1;
    cbn [sq_s sq_1 sq_2 su_with_q su_with_efcb su_with_ud su_ls su_efcb su_udsz su_udbuf su_lastrx su_idle su_addr su_q1 su_q2
         andb negb Bool.eqb fst snd q_nonempty];
    rewrite ?EQ1, ?EQ2;
    cbn [sq_s sq_1 sq_2 su_with_q su_with_efcb su_with_ud su_ls su_efcb su_udsz su_udbuf su_lastrx su_idle su_addr su_q1 su_q2
         andb negb Bool.eqb fst snd q_nonempty];
    rewrite ?Z1, ?Z1', ?EL1, ?EL2, ?Er1, ?Er2;
    try (destruct (usz >? 0));
    cbn [sq_s sq_1 sq_2 su_with_q su_with_efcb su_with_ud su_ls su_efcb su_udsz su_udbuf su_lastrx su_idle su_addr su_q1 su_q2
         andb negb Bool.eqb fst snd q_nonempty];
    rewrite ?Z1, ?Z1', ?EL1, ?EL2, ?Er1, ?Er2;
    try (destruct r1); cbn [negb q_nonempty];
    (split; [reflexivity | split; assumption]).
Qed.

(* ---- the handler *)
Ltac sus := cbn [sq_s sq_1 sq_2 su_with_q su_with_efcb su_with_ud su_with_ls su_ls su_efcb su_udsz su_udbuf su_lastrx su_idle su_addr su_q1 su_q2
                 fst snd suq_with_s].

Theorem su_handle_r_refines fi_ c x fc bc fcb fcv msg uds udl : QI x ->
  su_handle fi_ c (suq_abs x) fc bc fcb fcv msg uds udl =
    (suq_abs (fst (su_handle_r fi_ c x fc bc fcb fcv msg uds udl)), snd (su_handle_r fi_ c x fc bc fcb fcv msg uds udl)) /\
  QI (fst (su_handle_r fi_ c x fc bc fcb fcv msg uds udl)).
Proof.
  intros HQ. pose proof HQ as [H1 H2]. unfold su_handle, su_handle_r. unfold suq_abs at 1. rewrite set_state_abs.
  destruct (su_set_state (sq_s x) LS_AVAILABLE) as [s o0]. cbn [fst snd].
  assert (HQx : QI (suq_with_s x s)) by exact HQ.
  assert (Ax : suq_abs (suq_with_s x s) = su_with_q s (cq_abs (sq_1 x)) (cq_abs (sq_2 x))) by reflexivity.
  assert (Aacd : acd_r (suq_with_s x s) = q_nonempty (cq_abs (sq_1 x))).
  { rewrite (acd_abs (suq_with_s x s) H1). reflexivity. }
  assert (Eerr : (let '(s', o) := su_set_state (su_with_q s (cq_abs (sq_1 x)) (cq_abs (sq_2 x))) LS_ERROR in (s', o0 ++ o)) =
                 (suq_abs (fst (let '(s', o) := su_set_state s LS_ERROR in (suq_with_s x s', o0 ++ o))),
                  snd (let '(s', o) := su_set_state s LS_ERROR in (suq_with_s x s', o0 ++ o))) /\
                 QI (fst (let '(s', o) := su_set_state s LS_ERROR in (suq_with_s x s', o0 ++ o)))).
  { rewrite set_state_abs. destruct (su_set_state s LS_ERROR) as [s' o]. cbn [fst snd]. split; [reflexivity | exact HQ]. }
  destruct (fc =? 9).
  { destruct fcv; [exact Eerr|]. cbn [fst snd]. rewrite Aacd. split; [reflexivity | exact HQ]. }
  destruct ((fc =? 0) || (fc =? 7)).
  { destruct (fcv || fcb); [exact Eerr|]. cbn [fst snd]. split; [reflexivity | exact HQ]. }
  destruct (fc =? 11).
  { rewrite <- Ax. destruct (su_request_r_refines c (suq_with_s x s) false fcb fcv HQx) as [E Q]. rewrite E.
    destruct (su_request_r c (suq_with_s x s) false fcb fcv) as [x' o]. cbn [fst snd] in *. split; [reflexivity | exact Q]. }
  destruct (fc =? 10).
  { rewrite <- Ax. destruct (su_request_r_refines c (suq_with_s x s) true fcb fcv HQx) as [E Q]. rewrite E.
    destruct (su_request_r c (suq_with_s x s) true fcb fcv) as [x' o]. cbn [fst snd] in *. split; [reflexivity | exact Q]. }
  destruct (fc =? 3).
  { cbn [fst snd]. sus. rewrite Aacd. split; [|exact HQ].
    destruct (fcv && Bool.eqb fcb (su_efcb s)); reflexivity. }
  destruct (fc =? 4).
  { destruct fcv; [exact Eerr|]. cbn [fst snd]. split; [reflexivity | exact HQ]. }
  cbn [fst snd]. sus. split; [|exact HQ]. destruct (fi_ && fcv && Bool.eqb fcb (su_efcb s)); reflexivity.
Qed.

(* ---- the application's enqueue: the FIFO of the configured capacity that displaces its oldest entry *)
Theorem suq_enqueue_refines x class1 d : QI x ->
  QI (suq_enqueue x class1 d) /\
  suq_abs (suq_enqueue x class1 d) =
    (if class1 then su_with_q (suq_abs x) (fifo_enqueue (q_size (sq_1 x)) (cq_abs (sq_1 x)) d) (cq_abs (sq_2 x))
     else su_with_q (suq_abs x) (cq_abs (sq_1 x)) (fifo_enqueue (q_size (sq_2 x)) (cq_abs (sq_2 x)) d)).
Proof.
  intros [H1 H2]. unfold suq_enqueue, QI. destruct class1; cbn [sq_s sq_1 sq_2].
  - destruct (enqueue_refines (sq_1 x) d H1) as (A & B & _). split; [split; assumption|]. unfold suq_abs. cbn [sq_s sq_1 sq_2]. rewrite B. reflexivity.
  - destruct (enqueue_refines (sq_2 x) d H2) as (A & B & _). split; [split; assumption|]. unfold suq_abs. cbn [sq_s sq_1 sq_2]. rewrite B. reflexivity.
Qed.

(* ---- every history of frames handled and ASDUs handed over: the ring-backed station is the list station whose enqueue is the
   bounded FIFO's; outputs equal frame by frame *)
Inductive qev := QFrame (fc : Z) (bc fcb fcv : bool) (msg : list Z) (uds udl : Z) | QEnqueue (class1 : bool) (d : list Z).

Definition qstep_r (fi_ : bool) (c : llcfg) (x : suq) (e : qev) : suq * list out :=
  match e with
  | QFrame fc bc fcb fcv msg uds udl => su_handle_r fi_ c x fc bc fcb fcv msg uds udl
  | QEnqueue class1 d => (suq_enqueue x class1 d, [])
  end.
Definition qstep_l (fi_ : bool) (c : llcfg) (n1 n2 : Z) (s : su) (e : qev) : su * list out :=
  match e with
  | QFrame fc bc fcb fcv msg uds udl => su_handle fi_ c s fc bc fcb fcv msg uds udl
  | QEnqueue class1 d => (if class1 then su_with_q s (fifo_enqueue n1 (su_q1 s) d) (su_q2 s)
                          else su_with_q s (su_q1 s) (fifo_enqueue n2 (su_q2 s) d), [])
  end.
Fixpoint qrun_r fi_ c (x : suq) (es : list qev) : suq * list out :=
  match es with [] => (x, []) | e :: r => let '(x1, o1) := qstep_r fi_ c x e in let '(x2, o2) := qrun_r fi_ c x1 r in (x2, o1 ++ o2) end.
Fixpoint qrun_l fi_ c n1 n2 (s : su) (es : list qev) : su * list out :=
  match es with [] => (s, []) | e :: r => let '(s1, o1) := qstep_l fi_ c n1 n2 s e in let '(s2, o2) := qrun_l fi_ c n1 n2 s1 r in (s2, o1 ++ o2) end.

Lemma handle_r_sizes fi_ c x fc bc fcb fcv msg uds udl : QI x ->
  q_size (sq_1 (fst (su_handle_r fi_ c x fc bc fcb fcv msg uds udl))) = q_size (sq_1 x) /\
  q_size (sq_2 (fst (su_handle_r fi_ c x fc bc fcb fcv msg uds udl))) = q_size (sq_2 x).
Proof.
  intros [H1 H2]. unfold su_handle_r. destruct (su_set_state (sq_s x) LS_AVAILABLE) as [s o0].
  assert (Hreq : forall cl, q_size (sq_1 (fst (su_request_r c (suq_with_s x s) cl fcb fcv))) = q_size (sq_1 x) /\
                            q_size (sq_2 (fst (su_request_r c (suq_with_s x s) cl fcb fcv))) = q_size (sq_2 x)).
  { intros cl. unfold su_request_r. cbn [suq_with_s sq_s sq_1 sq_2].
    destruct (fcv && negb (Bool.eqb fcb (su_efcb s))).
    - destruct (su_udsz _ >? 0); cbn [fst sq_1 sq_2 suq_with_s]; split; reflexivity.
    - destruct cl.
      + pose proof (dequeue_refines (sq_1 x) H1) as D. destruct (cq_dequeue (sq_1 x)) as [od q']. destruct D as (_ & _ & Hs).
        destruct od; cbn [fst sq_1 sq_2 suq_with_s]; split; try reflexivity; exact Hs.
      + pose proof (dequeue_refines (sq_2 x) H2) as D. destruct (cq_dequeue (sq_2 x)) as [od q']. destruct D as (_ & _ & Hs).
        destruct od; cbn [fst sq_1 sq_2 suq_with_s]; split; try reflexivity; exact Hs. }
  destruct (su_set_state s LS_ERROR) as [s' o'].
  destruct (fc =? 9); [destruct fcv; split; reflexivity|].
  destruct ((fc =? 0) || (fc =? 7)); [destruct (fcv || fcb); split; reflexivity|].
  destruct (fc =? 11); [destruct (Hreq false) as [A B]; destruct (su_request_r c (suq_with_s x s) false fcb fcv); split; assumption|].
  destruct (fc =? 10); [destruct (Hreq true) as [A B]; destruct (su_request_r c (suq_with_s x s) true fcb fcv); split; assumption|].
  destruct (fc =? 3); [split; reflexivity|].
  destruct (fc =? 4); [destruct fcv; split; reflexivity|].
  split; reflexivity.
Qed.

Theorem suq_history fi_ c : forall es x, QI x ->
  qrun_l fi_ c (q_size (sq_1 x)) (q_size (sq_2 x)) (suq_abs x) es = (suq_abs (fst (qrun_r fi_ c x es)), snd (qrun_r fi_ c x es)) /\
  QI (fst (qrun_r fi_ c x es)).
Proof.
  induction es as [|e r IH]; intros x HQ; cbn [qrun_l qrun_r]; [split; [reflexivity | exact HQ]|].
  destruct e as [fc bc fcb fcv msg uds udl | class1 d]; cbn [qstep_l qstep_r].
  - destruct (su_handle_r_refines fi_ c x fc bc fcb fcv msg uds udl HQ) as [E Q]. rewrite E.
    destruct (handle_r_sizes fi_ c x fc bc fcb fcv msg uds udl HQ) as [S1 S2].
    destruct (su_handle_r fi_ c x fc bc fcb fcv msg uds udl) as [x1 o1]. cbn [fst snd] in *.
    rewrite <- S1, <- S2. destruct (IH x1 Q) as [E2 Q2]. rewrite E2.
    destruct (qrun_r fi_ c x1 r) as [x2 o2]. cbn [fst snd] in *. split; [reflexivity | exact Q2].
  - destruct (suq_enqueue_refines x class1 d HQ) as [Q E].
    assert (El : (if class1 then su_with_q (suq_abs x) (fifo_enqueue (q_size (sq_1 x)) (su_q1 (suq_abs x)) d) (su_q2 (suq_abs x))
                  else su_with_q (suq_abs x) (su_q1 (suq_abs x)) (fifo_enqueue (q_size (sq_2 x)) (su_q2 (suq_abs x)) d)) = suq_abs (suq_enqueue x class1 d)).
    { rewrite E. reflexivity. }
    rewrite El.
    assert (S : q_size (sq_1 (suq_enqueue x class1 d)) = q_size (sq_1 x) /\ q_size (sq_2 (suq_enqueue x class1 d)) = q_size (sq_2 x)).
    { unfold suq_enqueue, cq_enqueue. destruct class1; cbn [sq_1 sq_2]; split; try reflexivity; destruct (negb (q_count _ =? q_size _)); reflexivity. }
    destruct S as [S1 S2]. rewrite <- S1, <- S2. destruct (IH _ Q) as [E2 Q2]. rewrite E2.
    destruct (qrun_r fi_ c (suq_enqueue x class1 d) r) as [x2 o2]. cbn [fst snd] in *. split; [reflexivity | exact Q2].
Qed.

(* ---- the station's entry points with the rings: ParserHeaderSecondaryUnbalanced and LinkLayerSecondaryUnbalanced_run *)
Definition su_on_msg_r (v : variant) (c : llcfg) (now : Z) (x0 : suq) (msg : list Z) : suq * list out :=
  let x := suq_with_s x0 (su_with_lastrx (sq_s x0) now) in
  match parse_su (ff v) (alen c) (su_addr (sq_s x)) msg with
  | SuErr => let '(s', o) := su_set_state (sq_s x) LS_ERROR in (suq_with_s x s', o)
  | SuIgnore => (x, [])
  | SuOk fc bc fcb fcv uds udl => su_handle_r (fi v) c x fc bc fcb fcv msg uds udl
  end.

Definition su_run_r (v : variant) (c : llcfg) (now : Z) (x0 : suq) (rx : list Z) : suq * list Z * list out :=
  let '(m, rest) := read_next (alen c) rx in
  let '(x1, o1) := match m with Some msg => let '(x', o) := su_on_msg_r v c now x0 msg in (x', ORx msg :: o) | None => (x0, []) end in
  let '(x2, o2) :=
    if negb (su_ls (sq_s x1) =? LS_IDLE) && (now - su_lastrx (sq_s x1) >? su_idle (sq_s x1))
    then let '(s', o) := su_set_state (sq_s x1) LS_IDLE in (suq_with_s x1 s', o) else (x1, []) in
  (x2, rest, o1 ++ o2).

Theorem su_on_msg_r_refines v c now x msg : QI x ->
  su_on_msg v c now (suq_abs x) msg = (suq_abs (fst (su_on_msg_r v c now x msg)), snd (su_on_msg_r v c now x msg)) /\
  QI (fst (su_on_msg_r v c now x msg)).
Proof.
  intros HQ. unfold su_on_msg, su_on_msg_r.
  assert (E : su_with_lastrx (suq_abs x) now = suq_abs (suq_with_s x (su_with_lastrx (sq_s x) now))) by reflexivity. rewrite E.
  set (x1 := suq_with_s x (su_with_lastrx (sq_s x) now)). assert (HQ1 : QI x1) by exact HQ.
  assert (Ea : su_addr (suq_abs x1) = su_addr (sq_s x1)) by reflexivity. rewrite Ea.
  destruct (parse_su (ff v) (alen c) (su_addr (sq_s x1)) msg) as [| |fc bc fcb fcv uds udl].
  - unfold suq_abs at 1. rewrite set_state_abs. destruct (su_set_state (sq_s x1) LS_ERROR) as [s' o]. cbn [fst snd]. split; [reflexivity | exact HQ].
  - split; [reflexivity | exact HQ1].
  - apply su_handle_r_refines. exact HQ1.
Qed.

Theorem su_run_r_refines v c now x rx : QI x ->
  su_run v c now (suq_abs x) rx =
    (suq_abs (fst (fst (su_run_r v c now x rx))), snd (fst (su_run_r v c now x rx)), snd (su_run_r v c now x rx)) /\
  QI (fst (fst (su_run_r v c now x rx))).
Proof.
  intros HQ. unfold su_run, su_run_r. destruct (read_next (alen c) rx) as [m rest].
  assert (H1 : exists x1 o1, (match m with Some msg => let '(x', o) := su_on_msg_r v c now x msg in (x', ORx msg :: o) | None => (x, []) end) = (x1, o1) /\
                             (match m with Some msg => let '(s', o) := su_on_msg v c now (suq_abs x) msg in (s', ORx msg :: o) | None => (suq_abs x, []) end) = (suq_abs x1, o1) /\ QI x1).
  { destruct m as [msg|].
    - destruct (su_on_msg_r_refines v c now x msg HQ) as [E Q]. rewrite E. destruct (su_on_msg_r v c now x msg) as [x' o]. cbn [fst snd] in *.
      exists x', (ORx msg :: o). split; [reflexivity|]. split; [reflexivity | exact Q].
    - exists x, []. split; [reflexivity|]. split; [reflexivity | exact HQ]. }
  destruct H1 as (x1 & o1 & E1 & E2 & Q1). rewrite E1, E2.
  assert (El : su_ls (suq_abs x1) = su_ls (sq_s x1) /\ su_lastrx (suq_abs x1) = su_lastrx (sq_s x1) /\ su_idle (suq_abs x1) = su_idle (sq_s x1)) by (repeat split).
  destruct El as (A & B & C). rewrite A, B, C.
  destruct (negb (su_ls (sq_s x1) =? LS_IDLE) && (now - su_lastrx (sq_s x1) >? su_idle (sq_s x1))).
  - unfold suq_abs at 1. rewrite set_state_abs. destruct (su_set_state (sq_s x1) LS_IDLE) as [s' o]. cbn [fst snd]. split; [reflexivity | exact Q1].
  - cbn [fst snd]. split; [reflexivity | exact Q1].
Qed.

(* non-vacuity: class 1 ring of two entries: three ASDUs handed over (the first is displaced), two class 1 requests with alternating
   frame count bit, a repeated request (the remembered response), a class 2 request (no data, access demand clear) *)
Transparent enc_fixed enc_var tx_opt E5 lenz Z.modulo Z.gtb.
Definition exq_c : llcfg := {| alen := 1; single_ack := false; t_ack := 200; t_rep := 1000; t_ls := 5000 |}.
Definition exq_x : suq := {| sq_s := su_with_ls (su_init {| fa := true; fb := true; fc_ := true; fd := true; fe := true; ff := true; fg := true; fh := true; fi := true |} 3 100000) LS_AVAILABLE;
                             sq_1 := cq_init 2; sq_2 := cq_init 2 |}.
Definition exq_es : list qev :=
  [QEnqueue true [1; 1]; QEnqueue true [2; 2]; QEnqueue true [3; 3]; QFrame 10 false true true [] 0 0; QFrame 10 false false true [] 0 0;
   QFrame 10 false false true [] 0 0; QFrame 11 false true true [] 0 0].
Example suq_example :
  QI exq_x /\
  map (fun o => match o with OTx f => if nth 0 f 0 =? 104 then nth 4 f 0 else nth 1 f 0 | _ => -1 end) (snd (qrun_r true exq_c exq_x exq_es)) =
  [40; 8; 8; 9].      (* control octets: RESPOND user data + ACD; RESPOND user data; the same again; no data *)
Proof.
  split; [split; apply QInv_init; lia|]. vm_compute. reflexivity.
Qed.
