(* C14: FT 1.2 framing of the CS101 link layer.
   Encoders  = SendSingleCharCharacter / SendFixedFrame / SendVariableLengthFrame   (link_layer.c)
   read_next = SerialTransceiverFT12_readNextMessage                                 (serial_transceiver_ft_1_2.c)
               over the octets that are readable NOW (SerialPort_readByte returns -1 when none is queued:
               the character timeout has expired)
   parse_su  = ParserHeaderSecondaryUnbalanced, parse_bp = HandleMessageBalancedAndPrimaryUnbalanced
               (the header/length/address/checksum part; the dispatch is in LinkSec.v / LinkPrim.v)
   Octets are Z in 0..255.  [ff] selects the tree variant: true = with the proposed check
   "L covers at least C and A" (proposed_fixes/C14-short-length-field), false = the original code. *)
From Coq Require Import ZArith List Bool Lia.
Import ListNotations.
Local Open Scope Z_scope.

Definition nthz (l : list Z) (i : Z) : Z := if i <? 0 then 0 else nth (Z.to_nat i) l 0.
Definition lenz (l : list Z) : Z := Z.of_nat (length l).
Definition slice (l : list Z) (a b : Z) : list Z := firstn (Z.to_nat (b - a)) (skipn (Z.to_nat a) l).
Definition bitz (c k : Z) : bool := (c / k) mod 2 =? 1.

(* uint8_t checksum = 0; for (...) checksum += buffer[i]; *)
Definition cs8 (l : list Z) : Z := fold_left (fun a b => (a + b) mod 256) l 0.

(* the C field: fc & 0x0f, then += 0x40 / 0x80 / 0x20 / 0x10 *)
Definition ctrl (fc : Z) (prm dir acd dfc : bool) : Z :=
  fc mod 16 + (if prm then 64 else 0) + (if dir then 128 else 0) + (if acd then 32 else 0) + (if dfc then 16 else 0).

Definition addr_octets (alen address : Z) : list Z :=
  if alen >? 0 then (address mod 256) :: (if alen >? 1 then [(address / 256) mod 256] else []) else [].

Definition E5 : list Z := [229].

Definition enc_fixed (alen fc address : Z) (prm dir acd dfc : bool) : list Z :=
  let body := ctrl fc prm dir acd dfc :: addr_octets alen address in
  [16] ++ body ++ [cs8 body; 22].

Definition enc_var (alen fc address : Z) (prm dir acd dfc : bool) (data : list Z) : option (list Z) :=
  let l := 1 + alen + lenz data in
  if l >? 255 then None
  else let body := ctrl fc prm dir acd dfc :: addr_octets alen address ++ data in
       Some ([104; l; l; 104] ++ body ++ [cs8 body; 22]).

(* ---------------------------------------------------------------- transceiver *)
Definition read_bytes (rx : list Z) (count : Z) : list Z * list Z :=
  (firstn (Z.to_nat count) rx, skipn (Z.to_nat count) rx).

Definition read_next (alen : Z) (rx : list Z) : option (list Z) * list Z :=
  match rx with
  | [] => (None, [])
  | b :: r =>
    if b =? 104 then
      match r with
      | [] => (None, [])                                   (* sync_error: SerialPort_discardInBuffer *)
      | l :: r2 =>
        let msgSize := l + 4 in
        let '(got, rest) := read_bytes r2 msgSize in
        if lenz got =? msgSize then (Some (104 :: l :: got), rest) else (None, rest)
      end
    else if b =? 16 then
      let msgSize := 3 + alen in
      let '(got, rest) := read_bytes r msgSize in
      if lenz got =? msgSize then (Some (16 :: got), rest) else (None, rest)
    else if b =? 229 then (Some [229], r)
    else (None, [])                                        (* sync_error *)
  end.

(* ---------------------------------------------------------------- parsers *)
Inductive su_parse :=
| SuErr                                   (* rejected, link state -> ERROR *)
| SuIgnore                                (* other station's address: silently ignored *)
| SuOk (fc : Z) (bc fcb fcv : bool) (uds udl : Z).

Definition parse_su (ff : bool) (alen own : Z) (msg : list Z) : su_parse :=
  let msgSize := lenz msg in
  let hdr : option (Z * Z * Z * Z * Z) :=          (* c, csStart, csIndex, userDataStart, userDataLength *)
    if nthz msg 0 =? 104 then
      if negb (nthz msg 1 =? nthz msg 2) then None
      else
        let udl := nthz msg 1 - alen - 1 in
        let uds := 5 + alen in
        if ff && (udl <? 0) then None
        else if negb (msgSize =? uds + udl + 2) then None
        else Some (nthz msg 4, 4, uds + udl, uds, udl)
    else if nthz msg 0 =? 16 then Some (nthz msg 1, 1, 2 + alen, 0, 0)
    else None in
  match hdr with
  | None => SuErr
  | Some (c, csStart, csIndex, uds, udl) =>
    let address :=
      if alen >? 0 then
        if alen >? 1 then nthz msg (csStart + 1) + nthz msg (csStart + 2) * 256 else nthz msg (csStart + 1)
      else 0 in
    let isBroadcast :=
      if alen >? 0 then (if alen >? 1 then address =? 65535 else address =? 255) else false in
    let fc := c mod 16 in
    if isBroadcast && negb (fc =? 4) then SuErr
    else if negb isBroadcast && negb (address =? own) then SuIgnore
    else if negb (cs8 (slice msg csStart csIndex) =? nthz msg csIndex) then SuErr
    else if negb (bitz c 64) then SuErr
    else SuOk fc isBroadcast (bitz c 32) (bitz c 16) uds udl
  end.

Inductive bp_parse :=
| BpDrop
| BpAck                                                      (* single character E5 *)
| BpSec (fc : Z) (fcb fcv : bool) (uds udl : Z)              (* PRM = 1: for our secondary function *)
| BpPri (fc : Z) (dir dfc acd : bool) (address uds udl : Z). (* PRM = 0: for our primary function *)

Definition parse_bp (ff : bool) (alen : Z) (msg : list Z) : bp_parse :=
  let msgSize := lenz msg in
  if nthz msg 0 =? 229 then BpAck
  else
  let hdr : option (Z * Z * Z * Z * Z * Z) :=      (* c, csStart, csIndex, uds, udl, address *)
    if nthz msg 0 =? 104 then
      if negb (nthz msg 1 =? nthz msg 2) then None
      else
        let udl := nthz msg 1 - alen - 1 in
        let uds := 5 + alen in
        if ff && (udl <? 0) then None
        else if negb (msgSize =? uds + udl + 2) then None
        else Some (nthz msg 4, 4, uds + udl, uds, udl,
                   (if alen >? 0 then nthz msg 5 else 0) + (if alen >? 1 then nthz msg 6 * 256 else 0))
    else if nthz msg 0 =? 16 then
      Some (nthz msg 1, 1, 2 + alen, 0, 0,
            (if alen >? 0 then nthz msg 2 else 0) + (if alen >? 1 then nthz msg 3 * 256 else 0))
    else None in
  match hdr with
  | None => BpDrop
  | Some (c, csStart, csIndex, uds, udl, address) =>
    if negb (cs8 (slice msg csStart csIndex) =? nthz msg csIndex) then BpDrop
    else
      let fc := c mod 16 in
      if bitz c 64 then BpSec fc (bitz c 32) (bitz c 16) uds udl
      else BpPri fc (bitz c 128) (bitz c 16) (bitz c 32) address uds udl
  end.

(* the user data handed to the application: msg + userDataStart, userDataLength octets *)
Definition user_data (msg : list Z) (uds udl : Z) : list Z := slice msg uds (uds + udl).

(* ---------------------------------------------------------------- specification (IEC 60870-5-1 6.2.4.2, format class FT 1.2) *)
Definition sumz (l : list Z) : Z := fold_right Z.add 0 l.
Definition is_byte (b : Z) : Prop := 0 <= b < 256.

Inductive wf_frame (alen : Z) : list Z -> Prop :=
| wf_single : wf_frame alen [229]
| wf_fixed : forall c a,
    is_byte c -> Forall is_byte a -> lenz a = alen ->
    wf_frame alen ([16; c] ++ a ++ [(c + sumz a) mod 256; 22])
| wf_var : forall c a d,
    is_byte c -> Forall is_byte a -> lenz a = alen ->
    1 + alen + lenz d <= 255 ->
    wf_frame alen ([104; 1 + alen + lenz d; 1 + alen + lenz d; 104; c] ++ a ++ d ++ [(c + sumz a + sumz d) mod 256; 22]).

(* the receive-side clauses of the property, stated on the octets the transceiver delimited *)
Definition rx_var_ok (alen : Z) (msg : list Z) : Prop :=
  nthz msg 0 = 104 /\ nthz msg 1 = nthz msg 2 /\ 1 + alen <= nthz msg 1 /\
  lenz msg = nthz msg 1 + 6 /\
  nthz msg (lenz msg - 2) = sumz (slice msg 4 (lenz msg - 2)) mod 256.
Definition rx_fixed_ok (alen : Z) (msg : list Z) : Prop :=
  nthz msg 0 = 16 /\ nthz msg (2 + alen) = sumz (slice msg 1 (2 + alen)) mod 256.
Definition rx_address (alen : Z) (msg : list Z) : Z :=
  let s := if nthz msg 0 =? 104 then 4 else 1 in
  if alen =? 0 then 0 else if alen =? 1 then nthz msg (s + 1) else nthz msg (s + 1) + nthz msg (s + 2) * 256.
Definition rx_ctrl (msg : list Z) : Z := if nthz msg 0 =? 104 then nthz msg 4 else nthz msg 1.
Definition broadcast_addr (alen : Z) : Z := if alen =? 1 then 255 else if alen =? 2 then 65535 else -1.
