(* C16: abstract stop-and-wait transfer with a frame count bit and an UNNUMBERED acknowledgement,
   as IEC 60870-5-2 SEND/CONFIRM uses it (the ACK carries no bit), over a channel that may lose any
   frame in either direction.  A repetition happens only after the acknowledgement timeout, i.e. when
   neither the frame nor its acknowledgement is still in transit (the timeout is longer than the
   round trip: "lose or delay", not reorder/duplicate).
   sender   : inq (messages still to send), sb (next frame count bit), out (outstanding message)
   receiver : re (expected bit), delivered (messages handed to the application, in order)
   channel  : ch_sr (data frame in transit), ch_rs (acknowledgement in transit)
   taken    : ghost log of the messages the sender has taken from inq (what "was sent"). *)
From Coq Require Import ZArith List Bool Lia.
Import ListNotations.

Section ABP.
Variable msg : Type.

Record abp := {
  inq : list msg; sb : bool; out : option msg;
  ch_sr : option (bool * msg); ch_rs : bool;
  re : bool; delivered : list msg; taken : list msg }.

Definition abp_init (todo : list msg) : abp :=
  {| inq := todo; sb := true; out := None; ch_sr := None; ch_rs := false;
     re := true; delivered := []; taken := [] |}.

Inductive ev := ESend | ELoseData | ELoseAck | ERecv | EAck | ETimeout.

(* events that are not enabled leave the state unchanged (total step function) *)
Definition abp_step (s : abp) (e : ev) : abp :=
  match e with
  | ESend =>
      match out s, inq s with
      | None, m :: rest =>
          {| inq := rest; sb := negb (sb s); out := Some m; ch_sr := Some (sb s, m); ch_rs := ch_rs s;
             re := re s; delivered := delivered s; taken := taken s ++ [m] |}
      | _, _ => s
      end
  | ELoseData =>
      {| inq := inq s; sb := sb s; out := out s; ch_sr := None; ch_rs := ch_rs s;
         re := re s; delivered := delivered s; taken := taken s |}
  | ELoseAck =>
      {| inq := inq s; sb := sb s; out := out s; ch_sr := ch_sr s; ch_rs := false;
         re := re s; delivered := delivered s; taken := taken s |}
  | ERecv =>
      match ch_sr s with
      | Some (b, m) =>
          if Bool.eqb b (re s)
          then {| inq := inq s; sb := sb s; out := out s; ch_sr := None; ch_rs := true;
                  re := negb (re s); delivered := delivered s ++ [m]; taken := taken s |}
          else {| inq := inq s; sb := sb s; out := out s; ch_sr := None; ch_rs := true;     (* duplicate: acknowledged again, not delivered *)
                  re := re s; delivered := delivered s; taken := taken s |}
      | None => s
      end
  | EAck =>
      if ch_rs s then
        {| inq := inq s; sb := sb s; out := None; ch_sr := ch_sr s; ch_rs := false;
           re := re s; delivered := delivered s; taken := taken s |}
      else s
  | ETimeout =>
      match out s, ch_sr s, ch_rs s with
      | Some m, None, false =>
          {| inq := inq s; sb := sb s; out := out s; ch_sr := Some (negb (sb s), m); ch_rs := false;   (* identical repetition: same bit *)
             re := re s; delivered := delivered s; taken := taken s |}
      | _, _, _ => s
      end
  end.

Fixpoint abp_run (s : abp) (evs : list ev) : abp :=
  match evs with [] => s | e :: r => abp_run (abp_step s e) r end.

End ABP.
