(* C15: secondary stations of the CS101 link layer, transcribed state by state from link_layer.c.
   su_*  : LinkLayerSecondaryUnbalanced  (LinkLayerSecondaryUnbalanced_handleMessage, _run, llsu_setState)
   sb_*  : LinkLayerSecondaryBalanced_handleMessage (the secondary half of a balanced station)
   The application layer above is the FIFO stub of harness/h_ll.c (class 1 / class 2 lists of user data).
   Variant flags (which tree is modelled): fb = balanced secondary repeats the confirmation for a
   retransmitted frame, fe = userDataSize initialised to 0, ff = short-L check (see Ft12.v). *)
From Coq Require Import ZArith List Bool Lia.
From L60870 Require Import Link.Ft12.
Import ListNotations.
Local Open Scope Z_scope.

Record variant := { fa : bool; fb : bool; fc_ : bool; fd : bool; fe : bool; ff : bool; fg : bool; fh : bool; fi : bool }.

Record llcfg := { alen : Z; single_ack : bool; t_ack : Z; t_rep : Z; t_ls : Z }.

(* observations, in the order they happen *)
Inductive out :=
| ORx (m : list Z)                 (* frame delimited by the transceiver *)
| OTx (f : list Z)                 (* frame written to the serial port *)
| OInd (bc : bool) (d : list Z)    (* HandleReceivedData *)
| ORcu (onlyFcb : bool)            (* ResetCUReceived *)
| OLs (a : Z) (s : Z)              (* link layer state changed callback *)
| OUd (a : Z) (d : list Z)         (* primary: UserData *)
| OAcd (a : Z).                    (* primary: AccessDemand *)

(* LinkLayerState *)
Definition LS_IDLE := 0. Definition LS_ERROR := 1. Definition LS_BUSY := 2. Definition LS_AVAILABLE := 3.

Definition tx_opt (f : option (list Z)) : list out := match f with Some x => [OTx x] | None => [] end.

(* ---------------------------------------------------------------- unbalanced secondary *)
Record su := {
  su_ls : Z; su_efcb : bool; su_udsz : Z; su_udbuf : list Z;
  su_lastrx : Z; su_idle : Z; su_addr : Z;
  su_q1 : list (list Z); su_q2 : list (list Z) }.

Definition su_init (v : variant) (addr idle : Z) : su :=
  {| su_ls := LS_IDLE; su_efcb := true;
     su_udsz := if fe v then 0 else 190;                        (* uninitialised: the ASan allocator fills with 0xbe *)
     su_udbuf := if fe v then [] else repeat 190 190%nat;
     su_lastrx := 0; su_idle := idle; su_addr := addr; su_q1 := []; su_q2 := [] |}.

Definition su_with_ls (s : su) (x : Z) : su :=
  {| su_ls := x; su_efcb := su_efcb s; su_udsz := su_udsz s; su_udbuf := su_udbuf s; su_lastrx := su_lastrx s;
     su_idle := su_idle s; su_addr := su_addr s; su_q1 := su_q1 s; su_q2 := su_q2 s |}.
Definition su_with_efcb (s : su) (x : bool) : su :=
  {| su_ls := su_ls s; su_efcb := x; su_udsz := su_udsz s; su_udbuf := su_udbuf s; su_lastrx := su_lastrx s;
     su_idle := su_idle s; su_addr := su_addr s; su_q1 := su_q1 s; su_q2 := su_q2 s |}.
Definition su_with_ud (s : su) (sz : Z) (b : list Z) : su :=
  {| su_ls := su_ls s; su_efcb := su_efcb s; su_udsz := sz; su_udbuf := b; su_lastrx := su_lastrx s;
     su_idle := su_idle s; su_addr := su_addr s; su_q1 := su_q1 s; su_q2 := su_q2 s |}.
Definition su_with_lastrx (s : su) (x : Z) : su :=
  {| su_ls := su_ls s; su_efcb := su_efcb s; su_udsz := su_udsz s; su_udbuf := su_udbuf s; su_lastrx := x;
     su_idle := su_idle s; su_addr := su_addr s; su_q1 := su_q1 s; su_q2 := su_q2 s |}.
Definition su_with_q (s : su) (a b : list (list Z)) : su :=
  {| su_ls := su_ls s; su_efcb := su_efcb s; su_udsz := su_udsz s; su_udbuf := su_udbuf s; su_lastrx := su_lastrx s;
     su_idle := su_idle s; su_addr := su_addr s; su_q1 := a; su_q2 := b |}.

(* llsu_setState *)
Definition su_set_state (s : su) (ns : Z) : su * list out :=
  if su_ls s =? ns then (s, []) else (su_with_ls s ns, [OLs (-1) ns]).

Definition su_ack (c : llcfg) (s : su) (acd : bool) : list Z :=
  if single_ack c && negb acd then E5 else enc_fixed (alen c) 0 (su_addr s) false false acd false.

Definition q_nonempty (q : list (list Z)) : bool := match q with [] => false | _ => true end.

(* FC 10 / FC 11: request user data class 1 / class 2 *)
Definition su_request (c : llcfg) (s : su) (class1 : bool) (fcb fcv : bool) : su * list out :=
  let invalidFCB := fcv && negb (Bool.eqb fcb (su_efcb s)) in
  let s1 := if fcv && Bool.eqb fcb (su_efcb s) then su_with_efcb s (negb (su_efcb s)) else s in   (* checkFCB toggles *)
  let '(s2, asdu) :=
    if invalidFCB then
      (s1, if su_udsz s1 >? 0 then Some (su_udbuf s1) else None)                 (* send old message *)
    else
      match (if class1 then su_q1 s1 else su_q2 s1) with
      | d :: rest =>
          (su_with_ud (if class1 then su_with_q s1 rest (su_q2 s1) else su_with_q s1 (su_q1 s1) rest) (lenz d mod 256) d, Some d)
      | [] => (su_with_ud s1 0 (su_udbuf s1), None)
      end in
  let acd := q_nonempty (su_q1 s2) in
  match asdu with
  | Some d => (s2, tx_opt (enc_var (alen c) 8 (su_addr s2) false false acd false d))
  | None =>
      (s2, [OTx (if single_ack c && negb acd then E5 else enc_fixed (alen c) 9 (su_addr s2) false false acd false)])
  end.

(* LinkLayerSecondaryUnbalanced_handleMessage *)
(* fi_ = variant fi: a frame with FCV = 1 whose service is not implemented still takes part in the alternation of the frame count bit *)
Definition su_handle (fi_ : bool) (c : llcfg) (s0 : su) (fc : Z) (bc fcb fcv : bool) (msg : list Z) (uds udl : Z) : su * list out :=
  let '(s, o0) := su_set_state s0 LS_AVAILABLE in
  let err := let '(s', o) := su_set_state s LS_ERROR in (s', o0 ++ o) in
  if fc =? 9 then
    if fcv then err
    else (s, o0 ++ [OTx (enc_fixed (alen c) 11 (su_addr s) false false (q_nonempty (su_q1 s)) false)])
  else if (fc =? 0) || (fc =? 7) then
    if fcv || fcb then err
    else
      let s1 := su_with_efcb s true in
      (s1, o0 ++ [OTx (if single_ack c then E5 else enc_fixed (alen c) 0 (su_addr s) false false false false);
                  ORcu (fc =? 7)])
  else if fc =? 11 then let '(s', o) := su_request c s false fcb fcv in (s', o0 ++ o)
  else if fc =? 10 then let '(s', o) := su_request c s true fcb fcv in (s', o0 ++ o)
  else if fc =? 3 then
    let indicate := negb (fcv && negb (Bool.eqb fcb (su_efcb s))) in
    let s1 := if fcv && Bool.eqb fcb (su_efcb s) then su_with_efcb s (negb (su_efcb s)) else s in
    let oi := if indicate && (udl >? 0) then [OInd bc (user_data msg uds udl)] else [] in
    let acd := q_nonempty (su_q1 s1) in
    (s1, o0 ++ oi ++ [OTx (su_ack c s1 acd)])
  else if fc =? 4 then
    if fcv then err
    else (s, o0 ++ (if udl >? 0 then [OInd bc (user_data msg uds udl)] else []))
  else (if fi_ && fcv && Bool.eqb fcb (su_efcb s) then su_with_efcb s (negb (su_efcb s)) else s,
        o0 ++ [OTx (enc_fixed (alen c) 15 (su_addr s) false false false false)]).

(* ParserHeaderSecondaryUnbalanced on one delimited frame *)
Definition su_on_msg (v : variant) (c : llcfg) (now : Z) (s0 : su) (msg : list Z) : su * list out :=
  let s := su_with_lastrx s0 now in
  match parse_su (ff v) (alen c) (su_addr s) msg with
  | SuErr => su_set_state s LS_ERROR
  | SuIgnore => (s, [])
  | SuOk fc bc fcb fcv uds udl => su_handle (fi v) c s fc bc fcb fcv msg uds udl
  end.

(* LinkLayerSecondaryUnbalanced_run: at most one frame, then the idle supervision *)
Definition su_run (v : variant) (c : llcfg) (now : Z) (s0 : su) (rx : list Z) : su * list Z * list out :=
  let '(m, rest) := read_next (alen c) rx in
  let '(s1, o1) := match m with Some msg => let '(s', o) := su_on_msg v c now s0 msg in (s', ORx msg :: o) | None => (s0, []) end in
  let '(s2, o2) :=
    if negb (su_ls s1 =? LS_IDLE) && (now - su_lastrx s1 >? su_idle s1) then su_set_state s1 LS_IDLE else (s1, []) in
  (s2, rest, o1 ++ o2).

(* ---------------------------------------------------------------- balanced secondary function *)
Record sb := { sb_efcb : bool }.

Definition bal_ack (c : llcfg) (addr : Z) (dir : bool) : list Z :=
  if single_ack c then E5 else enc_fixed (alen c) 0 addr false dir false false.

(* LinkLayerSecondaryBalanced_handleMessage; indret = what the application's HandleReceivedData returns *)
Definition sb_handle (v : variant) (c : llcfg) (addr : Z) (dir indret : bool) (s : sb)
                     (fc : Z) (fcb fcv : bool) (msg : list Z) (uds udl : Z) : sb * list out :=
  if fcv && negb (Bool.eqb fcb (sb_efcb s)) then
    (s, if fb v && ((fc =? 3) || (fc =? 2)) then [OTx (bal_ack c addr dir)] else [])
  else
    let s1 := if fcv then {| sb_efcb := negb (sb_efcb s) |} else s in
    if fc =? 0 then ({| sb_efcb := true |}, [OTx (bal_ack c addr dir)])
    else if fc =? 2 then (s1, [OTx (bal_ack c addr dir)])
    else if fc =? 3 then
      (s1, if udl >? 0 then OInd false (user_data msg uds udl) :: (if indret then [OTx (bal_ack c addr dir)] else []) else [])
    else if fc =? 4 then (s1, if udl >? 0 then [OInd false (user_data msg uds udl)] else [])
    else if fc =? 9 then (s1, [OTx (enc_fixed (alen c) 11 addr false dir false false)])
    else (s1, [OTx (enc_fixed (alen c) 15 addr false dir false false)]).
