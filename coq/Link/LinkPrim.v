(* C15: primary stations of the CS101 link layer, transcribed state by state from link_layer.c with the
   clock explicit.
   pb_*  : LinkLayerPrimaryBalanced_handleMessage / _runStateMachine           (balanced primary function)
   bal_* : LinkLayerBalanced_run = transceiver + HandleMessageBalancedAndPrimaryUnbalanced + pb_run
   sc_*  : LinkLayerSlaveConnection_HandleMessage / _runStateMachine            (unbalanced primary, per slave)
   pu_*  : LinkLayerPrimaryUnbalanced_handleMessage / _runStateMachine / _run   (round robin, one outstanding request)
   Variant flags: fa = nextFcb re-initialised whenever RESET REMOTE LINK is sent, fc_ = a request is
   repeated with the function code it was sent with (lastRequestFc). *)
From Coq Require Import ZArith List Bool Lia.
From L60870 Require Import Link.Ft12 Link.LinkSec.
Import ListNotations.
Local Open Scope Z_scope.

(* PrimaryLinkLayerState *)
Definition PLL_IDLE := 0. Definition PLL_REQ_STATUS := 1. Definition PLL_RESET := 2. Definition PLL_AVAILABLE := 3.
Definition PLL_SEND_CONFIRM := 4. Definition PLL_REQUEST_RESPOND := 5. Definition PLL_BUSY := 6. Definition PLL_TIMEOUT := 7.

(* ---------------------------------------------------------------- balanced primary *)
Record pb := {
  pb_ls : Z; pb_ps : Z; pb_wait : bool; pb_lastsend : Z; pb_origsend : Z; pb_test : bool; pb_nfcb : bool;
  pb_other : Z; pb_last : list Z; pb_lastrx : Z; pb_idle : Z;
  pb_tout : bool (* testFunctionOutstanding: the frame waiting for its confirmation is a test function (variant fg only) *) }.

Definition pb_init (other idle : Z) : pb :=
  {| pb_ls := LS_IDLE; pb_ps := PLL_IDLE; pb_wait := false; pb_lastsend := 0; pb_origsend := 0; pb_test := false;
     pb_nfcb := true; pb_other := other; pb_last := []; pb_lastrx := 0; pb_idle := idle; pb_tout := false |}.

Definition pb_set_state (p : pb) (ns : Z) : pb * list out :=
  if pb_ls p =? ns then (p, [])
  else ({| pb_ls := ns; pb_ps := pb_ps p; pb_wait := pb_wait p; pb_lastsend := pb_lastsend p; pb_origsend := pb_origsend p;
           pb_test := pb_test p; pb_nfcb := pb_nfcb p; pb_other := pb_other p; pb_last := pb_last p;
           pb_lastrx := pb_lastrx p; pb_idle := pb_idle p; pb_tout := pb_tout p |}, [OLs (-1) ns]).

Definition pb_upd (p : pb) (ps : Z) (wait : bool) (lastsend origsend : Z) (test nfcb : bool) (last : list Z) : pb :=
  {| pb_ls := pb_ls p; pb_ps := ps; pb_wait := wait; pb_lastsend := lastsend; pb_origsend := origsend;
     pb_test := test; pb_nfcb := nfcb; pb_other := pb_other p; pb_last := last; pb_lastrx := pb_lastrx p; pb_idle := pb_idle p;
     pb_tout := pb_tout p |}.
Definition pb_with_ps (p : pb) (ps : Z) : pb := pb_upd p ps (pb_wait p) (pb_lastsend p) (pb_origsend p) (pb_test p) (pb_nfcb p) (pb_last p).
Definition pb_with_wait (p : pb) (w : bool) : pb := pb_upd p (pb_ps p) w (pb_lastsend p) (pb_origsend p) (pb_test p) (pb_nfcb p) (pb_last p).
Definition pb_with_test (p : pb) (t : bool) : pb := pb_upd p (pb_ps p) (pb_wait p) (pb_lastsend p) (pb_origsend p) t (pb_nfcb p) (pb_last p).
Definition pb_with_lastrx (p : pb) (x : Z) : pb :=
  {| pb_ls := pb_ls p; pb_ps := pb_ps p; pb_wait := pb_wait p; pb_lastsend := pb_lastsend p; pb_origsend := pb_origsend p;
     pb_test := pb_test p; pb_nfcb := pb_nfcb p; pb_other := pb_other p; pb_last := pb_last p; pb_lastrx := x; pb_idle := pb_idle p;
     pb_tout := pb_tout p |}.
Definition pb_with_tout (p : pb) (x : bool) : pb :=
  {| pb_ls := pb_ls p; pb_ps := pb_ps p; pb_wait := pb_wait p; pb_lastsend := pb_lastsend p; pb_origsend := pb_origsend p;
     pb_test := pb_test p; pb_nfcb := pb_nfcb p; pb_other := pb_other p; pb_last := pb_last p; pb_lastrx := pb_lastrx p; pb_idle := pb_idle p;
     pb_tout := x |}.

Definition reset_frame (c : llcfg) (address : Z) (dir : bool) : list Z := enc_fixed (alen c) 0 address true dir false false.

(* LinkLayerPrimaryBalanced_handleMessage *)
Definition pb_handle (v : variant) (c : llcfg) (now : Z) (dir : bool) (p0 : pb) (fc : Z) (dfc : bool) : pb * list out :=
  let p := pb_with_lastrx p0 now in
  let ps := pb_ps p in
  if dfc then
    let ns := if (ps =? PLL_REQ_STATUS) || (ps =? PLL_RESET) then PLL_REQ_STATUS
              else if (ps =? PLL_SEND_CONFIRM) || (ps =? PLL_BUSY) then PLL_BUSY else ps in
    let '(p1, o) := pb_set_state p LS_BUSY in (pb_with_ps p1 ns, o)
  else if fc =? 0 then
    if ps =? PLL_RESET then
      let '(p1, o) := pb_set_state p LS_AVAILABLE in (pb_with_ps (pb_with_wait p1 false) PLL_AVAILABLE, o)
    else if ps =? PLL_SEND_CONFIRM then
      (* original: the confirmation clears a test request, also one made while user data is outstanding; fg: the request
         is cleared when the test frame is sent *)
      let '(p1, o) := pb_set_state (if fg v then p else pb_with_test p false) LS_AVAILABLE in (pb_with_ps (pb_with_wait p1 false) PLL_AVAILABLE, o)
    else if ps =? PLL_REQ_STATUS then (p, [])
    else (pb_with_wait p false, [])
  else if fc =? 1 then
    if ps =? PLL_SEND_CONFIRM then let '(p1, o) := pb_set_state p LS_BUSY in (pb_with_ps p1 PLL_BUSY, o) else (p, [])
  else if (fc =? 8) || (fc =? 9) then
    let '(p1, o) := pb_set_state p LS_ERROR in (pb_with_ps p1 PLL_IDLE, o)
  else if fc =? 11 then
    if ps =? PLL_REQ_STATUS then
      let p1 := pb_upd p PLL_RESET true now (pb_origsend p) (pb_test p) (if fa v then true else pb_nfcb p) (pb_last p) in
      let '(p2, o) := pb_set_state p1 LS_BUSY in
      (p2, OTx (reset_frame c (pb_other p) dir) :: o)
    else let '(p1, o) := pb_set_state p LS_ERROR in (pb_with_ps p1 PLL_IDLE, o)
  else if (fc =? 14) || (fc =? 15) then
    let p1 := pb_with_test p false in
    if ps =? PLL_SEND_CONFIRM then let '(p2, o) := pb_set_state p1 LS_AVAILABLE in (pb_with_ps p2 PLL_AVAILABLE, o) else (p1, [])
  else (p, []).

Definition clamp (t now : Z) : Z := if t >? now then now else t.       (* "last sent time not plausible" *)

(* LinkLayerPrimaryBalanced_runStateMachine; q = what the application has queued for GetUserData *)
Definition pb_run (v : variant) (c : llcfg) (now : Z) (dir : bool) (p : pb) (q : list (list Z)) : pb * list (list Z) * list out :=
  let ps := pb_ps p in
  if ps =? PLL_IDLE then
    (pb_upd p PLL_REQ_STATUS true now 0 false (pb_nfcb p) (pb_last p), q,
     [OTx (enc_fixed (alen c) 9 (pb_other p) true dir false false)])
  else if ps =? PLL_REQ_STATUS then
    if pb_wait p then
      let ls := clamp (pb_lastsend p) now in
      let p1 := pb_upd p ps (pb_wait p) ls (pb_origsend p) (pb_test p) (pb_nfcb p) (pb_last p) in
      if now >? ls + t_ack c then (pb_with_ps p1 PLL_IDLE, q, []) else (p1, q, [])
    else
      (pb_upd p PLL_RESET true now (pb_origsend p) (pb_test p) (if fa v then true else pb_nfcb p) (pb_last p), q,
       [OTx (reset_frame c (pb_other p) dir)])
  else if ps =? PLL_RESET then
    if pb_wait p then
      let ls := clamp (pb_lastsend p) now in
      let p1 := pb_upd p ps (pb_wait p) ls (pb_origsend p) (pb_test p) (pb_nfcb p) (pb_last p) in
      if now >? ls + t_ack c then
        let '(p2, o) := pb_set_state (pb_with_wait p1 false) LS_ERROR in (pb_with_ps p2 PLL_IDLE, q, o)
      else (p1, q, [])
    else let '(p1, o) := pb_set_state p LS_AVAILABLE in (pb_with_ps p1 PLL_AVAILABLE, q, o)
  else if ps =? PLL_AVAILABLE then
    let lr := clamp (pb_lastrx p) now in
    let p0 := pb_with_lastrx p lr in
    let test := if now - lr >? pb_idle p then true else pb_test p in
    if test then
      (pb_with_tout (pb_upd p0 PLL_SEND_CONFIRM (pb_wait p) now now (negb (fg v)) (negb (pb_nfcb p)) (pb_last p)) (if fg v then true else pb_tout p), q,
       [OTx (enc_fixed (alen c) 2 (pb_other p) true dir (pb_nfcb p) true)])
    else
      match q with
      | d :: rest =>
          (pb_with_tout (pb_upd p0 PLL_SEND_CONFIRM true now now false (negb (pb_nfcb p)) d) (if fg v then false else pb_tout p), rest,
           tx_opt (enc_var (alen c) 3 (pb_other p) true dir (pb_nfcb p) true d))
      | [] => (p0, q, [])
      end
  else if ps =? PLL_SEND_CONFIRM then
    let ls := clamp (pb_lastsend p) now in
    let p1 := pb_upd p ps (pb_wait p) ls (pb_origsend p) (pb_test p) (pb_nfcb p) (pb_last p) in
    if now >? ls + t_ack c then
      if now >? pb_origsend p + t_rep c then
        let '(p2, o) := pb_set_state p1 LS_ERROR in (pb_with_ps p2 PLL_IDLE, q, o)
      else
        (pb_upd p1 ps (pb_wait p) now (pb_origsend p) (pb_test p) (pb_nfcb p) (pb_last p), q,
         (* original: what is repeated depends on the request flag; fg: on what is outstanding *)
         if (if fg v then pb_tout p else pb_test p) then [OTx (enc_fixed (alen c) 2 (pb_other p) true dir (negb (pb_nfcb p)) true)]
         else tx_opt (enc_var (alen c) 3 (pb_other p) true dir (negb (pb_nfcb p)) true (pb_last p)))
    else (p1, q, [])
  else (p, q, []).

(* ---------------------------------------------------------------- balanced station *)
Record bal := { b_addr : Z; b_dir : bool; b_indret : bool; b_p : pb; b_s : sb; b_q : list (list Z) }.

Definition bal_init (addr other idle : Z) (dir indret : bool) : bal :=
  {| b_addr := addr; b_dir := dir; b_indret := indret; b_p := pb_init other idle; b_s := {| sb_efcb := true |}; b_q := [] |}.

Definition bal_with (b : bal) (p : pb) (s : sb) (q : list (list Z)) : bal :=
  {| b_addr := b_addr b; b_dir := b_dir b; b_indret := b_indret b; b_p := p; b_s := s; b_q := q |}.

(* HandleMessageBalancedAndPrimaryUnbalanced for a balanced station *)
Definition bal_on_msg (v : variant) (c : llcfg) (now : Z) (b : bal) (msg : list Z) : bal * list out :=
  match parse_bp (ff v) (alen c) msg with
  | BpDrop => (b, [])
  | BpAck => let '(p, o) := pb_handle v c now (b_dir b) (b_p b) 0 false in (bal_with b p (b_s b) (b_q b), o)
  | BpSec fc fcb fcv uds udl =>
      let '(s, o) := sb_handle v c (b_addr b) (b_dir b) (b_indret b) (b_s b) fc fcb fcv msg uds udl in
      (bal_with b (pb_with_lastrx (b_p b) now) s (b_q b), o)              (* LinkLayerPrimaryBalanced_resetIdleTimeout *)
  | BpPri fc dir dfc acd address uds udl =>
      let '(p, o) := pb_handle v c now (b_dir b) (b_p b) fc dfc in (bal_with b p (b_s b) (b_q b), o)
  end.

(* LinkLayerBalanced_run *)
Definition bal_run (v : variant) (c : llcfg) (now : Z) (b : bal) (rx : list Z) : bal * list Z * list out :=
  let '(m, rest) := read_next (alen c) rx in
  let '(b1, o1) := match m with Some msg => let '(b', o) := bal_on_msg v c now b msg in (b', ORx msg :: o) | None => (b, []) end in
  let '(p, q, o2) := pb_run v c now (b_dir b1) (b_p b1) (b_q b1) in
  (bal_with b1 p (b_s b1) q, rest, o1 ++ o2).

(* ---------------------------------------------------------------- unbalanced primary: one slave connection *)
Record sc := {
  sc_addr : Z; sc_ls : Z; sc_ps : Z; sc_has : bool; sc_msg : list Z; sc_lastsend : Z; sc_origsend : Z;
  sc_r1 : bool; sc_r2 : bool; sc_wait : bool; sc_test : bool; sc_nfcb : bool; sc_lastfc : Z }.

Definition sc_init (addr : Z) : sc :=
  {| sc_addr := addr; sc_ls := LS_IDLE; sc_ps := PLL_IDLE; sc_has := false; sc_msg := []; sc_lastsend := 0; sc_origsend := 0;
     sc_r1 := false; sc_r2 := false; sc_wait := false; sc_test := false; sc_nfcb := true; sc_lastfc := 11 |}.

Definition sc_mk (s : sc) (ls ps : Z) (has : bool) (msg : list Z) (lastsend origsend : Z) (r1 r2 wait test nfcb : bool) (lastfc : Z) : sc :=
  {| sc_addr := sc_addr s; sc_ls := ls; sc_ps := ps; sc_has := has; sc_msg := msg; sc_lastsend := lastsend; sc_origsend := origsend;
     sc_r1 := r1; sc_r2 := r2; sc_wait := wait; sc_test := test; sc_nfcb := nfcb; sc_lastfc := lastfc |}.
Definition sc_with_ps (s : sc) (x : Z) : sc := sc_mk s (sc_ls s) x (sc_has s) (sc_msg s) (sc_lastsend s) (sc_origsend s) (sc_r1 s) (sc_r2 s) (sc_wait s) (sc_test s) (sc_nfcb s) (sc_lastfc s).
Definition sc_with_wait (s : sc) (x : bool) : sc := sc_mk s (sc_ls s) (sc_ps s) (sc_has s) (sc_msg s) (sc_lastsend s) (sc_origsend s) (sc_r1 s) (sc_r2 s) x (sc_test s) (sc_nfcb s) (sc_lastfc s).
Definition sc_with_r (s : sc) (a b : bool) : sc := sc_mk s (sc_ls s) (sc_ps s) (sc_has s) (sc_msg s) (sc_lastsend s) (sc_origsend s) a b (sc_wait s) (sc_test s) (sc_nfcb s) (sc_lastfc s).
Definition sc_with_lastsend (s : sc) (x : Z) : sc := sc_mk s (sc_ls s) (sc_ps s) (sc_has s) (sc_msg s) x (sc_origsend s) (sc_r1 s) (sc_r2 s) (sc_wait s) (sc_test s) (sc_nfcb s) (sc_lastfc s).
Definition sc_with_msg (s : sc) (has : bool) (m : list Z) : sc := sc_mk s (sc_ls s) (sc_ps s) has m (sc_lastsend s) (sc_origsend s) (sc_r1 s) (sc_r2 s) (sc_wait s) (sc_test s) (sc_nfcb s) (sc_lastfc s).
Definition sc_with_test (s : sc) (x : bool) : sc := sc_mk s (sc_ls s) (sc_ps s) (sc_has s) (sc_msg s) (sc_lastsend s) (sc_origsend s) (sc_r1 s) (sc_r2 s) (sc_wait s) x (sc_nfcb s) (sc_lastfc s).

(* llsc_setState *)
Definition sc_set_state (s : sc) (ns : Z) : sc * list out :=
  if sc_ls s =? ns then (s, [])
  else (sc_mk s ns (sc_ps s) (sc_has s) (sc_msg s) (sc_lastsend s) (sc_origsend s) (sc_r1 s) (sc_r2 s) (sc_wait s) (sc_test s) (sc_nfcb s) (sc_lastfc s),
        [OLs (sc_addr s) ns]).

(* LinkLayerSlaveConnection_HandleMessage.  The AccessDemand callback of cs101_master.c (and of the harness
   stub) calls LinkLayerPrimaryUnbalanced_requestClass1Data for the address in the frame, i.e. this slave. *)
Definition sc_handle (v : variant) (c : llcfg) (now : Z) (s0 : sc) (fc : Z) (acd dfc : bool) (address : Z)
                     (msg : list Z) (uds udl : Z) : sc * list out :=
  let ps := sc_ps s0 in
  if dfc then
    let ns := if (ps =? PLL_REQ_STATUS) || (ps =? PLL_RESET) then PLL_REQ_STATUS
              else if (ps =? PLL_SEND_CONFIRM) || (ps =? PLL_BUSY) then PLL_BUSY else ps in
    let '(s1, o) := sc_set_state s0 LS_BUSY in (sc_with_ps s1 ns, o)
  else
    let s := if acd then sc_with_r s0 true (sc_r2 s0) else s0 in
    let '(s', o) :=
      if fc =? 0 then
        if ps =? PLL_RESET then
          let '(s1, o) := sc_set_state s LS_AVAILABLE in (sc_with_wait (sc_with_ps s1 PLL_AVAILABLE) false, o)
        else if ps =? PLL_SEND_CONFIRM then
          (* original: a pending test request takes the confirmation, the message stays and is sent again as a new frame;
             fg: only user data is sent with SEND/CONFIRM, the message is confirmed *)
          let s1 := if fg v then sc_with_msg s false (sc_msg s)
                    else if sc_test s then sc_with_test s false else sc_with_msg s false (sc_msg s) in
          let '(s2, o) := sc_set_state s1 LS_AVAILABLE in (sc_with_wait (sc_with_ps s2 PLL_AVAILABLE) false, o)
        else if ps =? PLL_REQUEST_RESPOND then
          let '(s1, o) := sc_set_state s LS_AVAILABLE in (sc_with_wait (sc_with_ps s1 PLL_AVAILABLE) false, o)
        else (sc_with_wait s false, [])
      else if fc =? 1 then
        if ps =? PLL_SEND_CONFIRM then
          let '(s1, o) := sc_set_state s LS_BUSY in (sc_with_wait (sc_with_ps s1 PLL_BUSY) false, o)
        else (sc_with_wait s false, [])
      else if fc =? 11 then
        if ps =? PLL_REQ_STATUS then
          let s1 := sc_mk s (sc_ls s) PLL_RESET (sc_has s) (sc_msg s) now (sc_origsend s) (sc_r1 s) (sc_r2 s) true (sc_test s)
                          (if fa v then true else sc_nfcb s) (sc_lastfc s) in
          let '(s2, o) := sc_set_state s1 LS_BUSY in (s2, OTx (reset_frame c (sc_addr s) false) :: o)
        else let '(s1, o) := sc_set_state s LS_ERROR in (sc_with_ps s1 PLL_IDLE, o)
      else if fc =? 8 then
        if ps =? PLL_REQUEST_RESPOND then
          let '(s1, o) := sc_set_state (sc_with_r s false false) LS_AVAILABLE in
          (sc_with_wait (sc_with_ps s1 PLL_AVAILABLE) false, OUd address (user_data msg uds udl) :: o)
        else let '(s1, o) := sc_set_state s LS_ERROR in (sc_with_wait (sc_with_ps s1 PLL_IDLE) false, o)
      else if fc =? 9 then
        if ps =? PLL_REQUEST_RESPOND then
          let '(s1, o) := sc_set_state s LS_AVAILABLE in (sc_with_wait (sc_with_ps s1 PLL_AVAILABLE) false, o)
        else let '(s1, o) := sc_set_state s LS_ERROR in (sc_with_wait (sc_with_ps s1 PLL_IDLE) false, o)
      else if (fc =? 14) || (fc =? 15) then
        if (ps =? PLL_SEND_CONFIRM) || (fh v && (ps =? PLL_REQUEST_RESPOND)) then   (* fh: a negative answer ends REQUEST/RESPOND too *)
          let '(s1, o) := sc_set_state s LS_AVAILABLE in (sc_with_wait (sc_with_ps s1 PLL_AVAILABLE) false, o)
        else (sc_with_wait s false, [])
      else (sc_with_wait s false, []) in
    if acd then (sc_with_r s' true (sc_r2 s'), o ++ [OAcd address]) else (s', o).

(* LinkLayerSlaveConnection_runStateMachine *)
Definition sc_run (v : variant) (c : llcfg) (now : Z) (s : sc) : sc * list out :=
  let ps := sc_ps s in
  let a := sc_addr s in
  if ps =? PLL_TIMEOUT then
    let ls := clamp (sc_lastsend s) now in
    let s1 := sc_with_lastsend s ls in
    if now >? ls + t_ls c then (sc_with_ps s1 PLL_IDLE, []) else (s1, [])
  else if ps =? PLL_IDLE then
    (sc_mk s (sc_ls s) PLL_REQ_STATUS (sc_has s) (sc_msg s) now 0 (sc_r1 s) (sc_r2 s) true false (sc_nfcb s) (sc_lastfc s),
     [OTx (enc_fixed (alen c) 9 a true false false false)])
  else if ps =? PLL_REQ_STATUS then
    if sc_wait s then
      let ls := clamp (sc_lastsend s) now in
      let s1 := sc_with_lastsend s ls in
      if now >? ls + t_ack c then (sc_with_ps (sc_with_lastsend (sc_with_wait s1 false) now) PLL_TIMEOUT, []) else (s1, [])
    else
      (sc_mk s (sc_ls s) PLL_RESET (sc_has s) (sc_msg s) now (sc_origsend s) (sc_r1 s) (sc_r2 s) true (sc_test s) true (sc_lastfc s),
       [OTx (reset_frame c a false)])
  else if ps =? PLL_RESET then
    if sc_wait s then
      let ls := clamp (sc_lastsend s) now in
      let s1 := sc_with_lastsend s ls in
      if now >? ls + t_ack c then
        let '(s2, o) := sc_set_state (sc_with_ps (sc_with_lastsend (sc_with_wait s1 false) now) PLL_TIMEOUT) LS_ERROR in (s2, o)
      else (s1, [])
    else let '(s1, o) := sc_set_state (sc_with_ps s PLL_AVAILABLE) LS_AVAILABLE in (s1, o)
  else if ps =? PLL_AVAILABLE then
    if sc_test s then
      (* original: the request flag is never cleared on this path (test frames for ever); fg: cleared when the frame is sent *)
      (sc_mk s (sc_ls s) PLL_REQUEST_RESPOND (sc_has s) (sc_msg s) now now (sc_r1 s) (sc_r2 s) true (negb (fg v)) (negb (sc_nfcb s)) 2,
       [OTx (enc_fixed (alen c) 2 a true false (sc_nfcb s) true)])
    else if sc_has s then
      (sc_mk s (sc_ls s) PLL_SEND_CONFIRM (sc_has s) (sc_msg s) now now (sc_r1 s) (sc_r2 s) true (sc_test s) (negb (sc_nfcb s)) (sc_lastfc s),
       tx_opt (enc_var (alen c) 3 a true false (sc_nfcb s) true (sc_msg s)))
    else if sc_r1 s || sc_r2 s then
      if sc_r1 s then
        (sc_mk s (sc_ls s) PLL_REQUEST_RESPOND (sc_has s) (sc_msg s) now now false (sc_r2 s) true (sc_test s) (negb (sc_nfcb s)) 10,
         [OTx (enc_fixed (alen c) 10 a true false (sc_nfcb s) true)])
      else
        (sc_mk s (sc_ls s) PLL_REQUEST_RESPOND (sc_has s) (sc_msg s) now now (sc_r1 s) false true (sc_test s) (negb (sc_nfcb s)) 11,
         [OTx (enc_fixed (alen c) 11 a true false (sc_nfcb s) true)])
    else (s, [])
  else if ps =? PLL_SEND_CONFIRM then
    let ls := clamp (sc_lastsend s) now in
    let s1 := sc_with_lastsend s ls in
    if now >? ls + t_ack c then
      if now >? sc_origsend s + t_rep c then
        sc_set_state (sc_with_ps (sc_with_lastsend (sc_with_wait s1 false) now) PLL_TIMEOUT) LS_ERROR
      else
        (sc_with_lastsend s1 now,
         if negb (fg v) && sc_test s then [OTx (enc_fixed (alen c) 2 a true false (negb (sc_nfcb s)) true)]
         else tx_opt (enc_var (alen c) 3 a true false (negb (sc_nfcb s)) true (sc_msg s)))
    else (s1, [])
  else if ps =? PLL_REQUEST_RESPOND then
    let ls := clamp (sc_lastsend s) now in
    let s1 := sc_with_lastsend s ls in
    if now >? ls + t_ack c then
      if now >? sc_origsend s + t_rep c then
        sc_set_state (sc_with_r (sc_with_ps s1 PLL_IDLE) false false) LS_ERROR
      else
        (sc_with_lastsend s1 now,
         [OTx (enc_fixed (alen c) (if fc_ v then sc_lastfc s else if sc_r1 s then 10 else 11) a true false (negb (sc_nfcb s)) true)])
    else (s1, [])
  else (s, []).

(* ---------------------------------------------------------------- unbalanced primary: all slaves *)
Record pu := { pu_cur : Z; pu_idx : Z; pu_bc : option (list Z); pu_slaves : list sc }.

Definition pu_init (addrs : list Z) : pu := {| pu_cur := -1; pu_idx := 0; pu_bc := None; pu_slaves := map sc_init addrs |}.

Fixpoint find_slave (l : list sc) (address : Z) (i : Z) : option (Z * sc) :=
  match l with
  | [] => None
  | s :: t => if sc_addr s =? address then Some (i, s) else find_slave t address (i + 1)
  end.
Fixpoint set_slave (l : list sc) (i : nat) (x : sc) : list sc :=
  match l, i with
  | [], _ => []
  | _ :: t, O => x :: t
  | h :: t, S j => h :: set_slave t j x
  end.
Definition get_slave (l : list sc) (i : Z) : option sc := if i <? 0 then None else nth_error l (Z.to_nat i).
Definition pu_with_slaves (p : pu) (l : list sc) : pu := {| pu_cur := pu_cur p; pu_idx := pu_idx p; pu_bc := pu_bc p; pu_slaves := l |}.

(* LinkLayerPrimaryUnbalanced_handleMessage *)
Definition pu_handle (v : variant) (c : llcfg) (now : Z) (p : pu) (fc : Z) (acd dfc : bool) (address : Z)
                     (msg : list Z) (uds udl : Z) : pu * list out :=
  let tgt := if address =? -1 then (match get_slave (pu_slaves p) (pu_cur p) with Some s => Some (pu_cur p, s) | None => None end)
             else find_slave (pu_slaves p) address 0 in
  match tgt with
  | Some (i, s) =>
      let '(s', o) := sc_handle v c now s fc acd dfc address msg uds udl in
      (pu_with_slaves p (set_slave (pu_slaves p) (Z.to_nat i) s'), o)
  | None => (p, [])
  end.

Definition pu_on_msg (v : variant) (c : llcfg) (now : Z) (p : pu) (msg : list Z) : pu * list out :=
  match parse_bp (ff v) (alen c) msg with
  | BpDrop => (p, [])
  | BpAck => pu_handle v c now p 0 false false (-1) [] 0 0
  | BpSec _ _ _ _ _ => (p, [])                                   (* "No secondary link layer available" *)
  | BpPri fc dir dfc acd address uds udl => pu_handle v c now p fc acd dfc address msg uds udl
  end.

Definition bc_address (c : llcfg) : Z := if alen c =? 1 then 255 else if alen c =? 2 then 65535 else 0.

(* LinkLayerPrimaryUnbalanced_runStateMachine *)
Definition pu_sm (v : variant) (c : llcfg) (now : Z) (p : pu) : pu * list out :=
  let '(p1, o1) :=
    match pu_bc p with
    | Some d => ({| pu_cur := pu_cur p; pu_idx := pu_idx p; pu_bc := None; pu_slaves := pu_slaves p |},
                 tx_opt (enc_var (alen c) 4 (bc_address c) true false false false d))
    | None => (p, [])
    end in
  let n := lenz (map sc_addr (pu_slaves p1)) in
  if n >? 0 then
    let cur1 := match get_slave (pu_slaves p1) (pu_cur p1) with
                | Some s => if sc_wait s then pu_cur p1 else -1
                | None => -1 end in
    let '(cur2, idx2) := if cur1 =? -1 then (pu_idx p1, (pu_idx p1 + 1) mod n) else (cur1, pu_idx p1) in
    match get_slave (pu_slaves p1) cur2 with
    | Some s =>
        let '(s', o2) := sc_run v c now s in
        ({| pu_cur := cur2; pu_idx := idx2; pu_bc := pu_bc p1; pu_slaves := set_slave (pu_slaves p1) (Z.to_nat cur2) s' |}, o1 ++ o2)
    | None => ({| pu_cur := cur2; pu_idx := idx2; pu_bc := pu_bc p1; pu_slaves := pu_slaves p1 |}, o1)
    end
  else (p1, o1).

(* LinkLayerPrimaryUnbalanced_run *)
Definition pu_run (v : variant) (c : llcfg) (now : Z) (p : pu) (rx : list Z) : pu * list Z * list out :=
  let '(m, rest) := read_next (alen c) rx in
  let '(p1, o1) := match m with Some msg => let '(p', o) := pu_on_msg v c now p msg in (p', ORx msg :: o) | None => (p, []) end in
  let '(p2, o2) := pu_sm v c now p1 in
  (p2, rest, o1 ++ o2).

(* application requests *)
Definition pu_send_confirmed (p : pu) (address : Z) (m : list Z) : pu * bool :=
  match find_slave (pu_slaves p) address 0 with
  | Some (i, s) => if sc_has s then (p, false)
                   else (pu_with_slaves p (set_slave (pu_slaves p) (Z.to_nat i) (sc_with_msg s true m)), true)
  | None => (p, false)
  end.
Definition pu_send_broadcast (p : pu) (m : list Z) : pu * bool :=
  match pu_bc p with
  | Some _ => (p, false)
  | None => ({| pu_cur := pu_cur p; pu_idx := pu_idx p; pu_bc := Some m; pu_slaves := pu_slaves p |}, true)
  end.
Definition pu_request (p : pu) (address : Z) (class1 : bool) : pu * bool :=
  match find_slave (pu_slaves p) address 0 with
  | Some (i, s) => (pu_with_slaves p (set_slave (pu_slaves p) (Z.to_nat i)
                     (if class1 then sc_with_r s true (sc_r2 s) else sc_with_r s (sc_r1 s) true)), true)
  | None => (p, false)
  end.
Definition pu_test (p : pu) (address : Z) : pu :=
  match find_slave (pu_slaves p) address 0 with
  | Some (i, s) => pu_with_slaves p (set_slave (pu_slaves p) (Z.to_nat i) (sc_with_test s true))
  | None => p
  end.
