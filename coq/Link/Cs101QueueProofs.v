(* C16: the CS101 ring buffer (cs101_queue.c) refines a bounded FIFO that displaces its oldest
   entry, along every sequence of enqueue / dequeue / flush operations. *)
From Coq Require Import ZArith List Bool Lia.
From L60870 Require Import Link.Cs101Queue.
Import ListNotations.
Local Open Scope Z_scope.

(* ---- well-formedness of the ring *)
Definition QInv (q : cq) : Prop :=
  1 <= q_size q /\ Z.of_nat (length (q_elems q)) = q_size q /\
  0 <= q_count q <= q_size q /\ 0 <= q_first q < q_size q /\ 0 <= q_last q < q_size q /\
  (0 < q_count q -> q_last q = (q_first q + q_count q - 1) mod q_size q).

(* ---- set_nth *)
Lemma set_nth_length {A} : forall i (v : A) l, length (set_nth i v l) = length l.
Proof. induction i; destruct l; cbn [set_nth length]; auto. Qed.

Lemma nth_set_nth_same {A} : forall i (v d : A) l, (i < length l)%nat -> nth i (set_nth i v l) d = v.
Proof.
  induction i; destruct l; cbn [set_nth length nth]; intros; try lia; auto.
  apply IHi; lia.
Qed.

Lemma nth_set_nth_other {A} : forall i j (v d : A) l, i <> j -> nth j (set_nth i v l) d = nth j l d.
Proof.
  induction i; destruct l; destruct j; cbn [set_nth nth]; intros; try congruence; auto.
Qed.

(* ---- modular arithmetic on ring indices *)
Lemma ring_distinct o i j m : 0 < m -> 0 <= i < j -> j - i < m -> (o + i) mod m <> (o + j) mod m.
Proof.
  intros Hm Hij Hd E.
  assert (X : ((o + j) - (o + i)) mod m = 0).
  { rewrite Zminus_mod, E, Z.sub_diag. apply Z.mod_0_l. lia. }
  replace (o + j - (o + i)) with (j - i) in X by lia.
  rewrite Z.mod_small in X; lia.
Qed.

(* the C idiom  x = x + 1; if (x == size) x = 0;  is (x + 1) mod size *)
Lemma wrap_mod x m : 0 <= x < m -> (if x + 1 =? m then 0 else x + 1) = (x + 1) mod m.
Proof.
  intros H. destruct (x + 1 =? m) eqn:E.
  - apply Z.eqb_eq in E. rewrite E. symmetry. apply Z_mod_same_full.
  - apply Z.eqb_neq in E. symmetry. apply Z.mod_small. lia.
Qed.

(* ---- ring_list over explicit (elements, size) *)
Fixpoint rl (els : list (list Z)) (sz i : Z) (n : nat) : list (list Z) :=
  match n with
  | O => []
  | S m => nth (Z.to_nat i) els [] :: rl els sz ((i + 1) mod sz) m
  end.

Lemma ring_list_rl q i n : ring_list q i n = rl (q_elems q) (q_size q) i n.
Proof.
  revert i; induction n as [|n IH]; intros i; cbn [ring_list rl]; [reflexivity|].
  rewrite IH. reflexivity.
Qed.

Lemma rl_length els sz : forall n i, length (rl els sz i n) = n.
Proof. induction n as [|n IH]; intros i; cbn [rl length]; [reflexivity|]. rewrite IH. reflexivity. Qed.

Definition at_ (els : list (list Z)) (sz i : Z) (j : nat) : list Z :=
  nth (Z.to_nat ((i + Z.of_nat j) mod sz)) els [].

(* the j-th listed entry sits at index (i + j) mod size *)
Lemma rl_map els sz : 0 < sz -> forall n i, 0 <= i < sz -> rl els sz i n = map (at_ els sz i) (seq 0 n).
Proof.
  intros Hsz. induction n as [|n IH]; intros i Hi; [reflexivity|].
  cbn [rl]. rewrite IH by (apply Z.mod_pos_bound; lia).
  cbn [seq map]. f_equal.
  - unfold at_. cbn [Z.of_nat]. rewrite Z.add_0_r, Z.mod_small by lia. reflexivity.
  - rewrite <- seq_shift, map_map. apply map_ext. intros j. unfold at_. f_equal. f_equal.
    rewrite Zplus_mod_idemp_l. f_equal. lia.
Qed.

(* writing the slot just behind n listed entries (n < size) appends to the listing *)
Lemma rl_set_snoc els sz e i n :
  0 < sz -> 0 <= i < sz -> Z.of_nat n < sz -> Z.of_nat (length els) = sz ->
  rl (set_nth (Z.to_nat ((i + Z.of_nat n) mod sz)) e els) sz i (S n) = rl els sz i n ++ [e].
Proof.
  intros Hsz Hi Hn Hl. rewrite !rl_map by assumption. rewrite seq_S, map_app. cbn [map Nat.add]. f_equal.
  - apply map_ext_in. intros j Hj. apply in_seq in Hj. unfold at_. apply nth_set_nth_other.
    intro E. apply Z2Nat.inj in E; try (apply Z.mod_pos_bound; lia).
    symmetry in E. revert E. apply ring_distinct; lia.
  - unfold at_. f_equal. apply nth_set_nth_same.
    pose proof (Z.mod_pos_bound (i + Z.of_nat n) sz Hsz). lia.
Qed.

Lemma cq_abs_rl q : cq_abs q = rl (q_elems q) (q_size q) (q_first q) (Z.to_nat (q_count q)).
Proof. unfold cq_abs. apply ring_list_rl. Qed.

(* ---- 1. initial state *)
Theorem QInv_init : forall n, 1 <= n -> QInv (cq_init n) /\ cq_abs (cq_init n) = [].
Proof.
  intros n Hn. split; [|reflexivity].
  unfold QInv, cq_init; cbn [q_size q_count q_first q_last q_elems].
  rewrite repeat_length, Z2Nat.id by lia. repeat split; lia.
Qed.

(* ---- 5. the abstraction has entryCounter entries *)
Theorem abs_length : forall q, QInv q -> Z.of_nat (length (cq_abs q)) = q_count q.
Proof.
  intros q (_ & _ & Hc & _). rewrite cq_abs_rl, rl_length. apply Z2Nat.id. lia.
Qed.

Theorem is_full_spec : forall q, QInv q -> cq_is_full q = (Z.of_nat (length (cq_abs q)) =? q_size q).
Proof. intros q HI. rewrite (abs_length q HI). reflexivity. Qed.

Theorem is_empty_spec : forall q, QInv q ->
  cq_is_empty q = match cq_abs q with [] => true | _ => false end.
Proof.
  intros q HI. pose proof (abs_length q HI) as HL. unfold cq_is_empty.
  destruct (cq_abs q) as [|x t]; cbn [length] in HL.
  - rewrite <- HL. reflexivity.
  - apply Z.eqb_neq. lia.
Qed.

(* ---- 2. enqueue *)
Theorem enqueue_refines : forall q e, QInv q ->
  QInv (cq_enqueue q e) /\
  cq_abs (cq_enqueue q e) = fifo_enqueue (q_size q) (cq_abs q) e /\
  q_size (cq_enqueue q e) = q_size q.
Proof.
  intros q e HI. pose proof (abs_length q HI) as HL. unfold fifo_enqueue. rewrite HL.
  rewrite (cq_abs_rl q). clear HL.
  destruct q as [sz c la fi els]. unfold QInv in HI. cbn [q_size q_count q_first q_last q_elems] in *.
  destruct HI as (Hsz & Hlen & Hc & Hfi & Hla & Hrel).
  unfold cq_enqueue. cbn [q_size q_count q_first q_last q_elems].
  destruct (c =? 0) eqn:E0.
  - (* empty ring: restart at slot 0 *)
    apply Z.eqb_eq in E0. subst c.
    assert (X : (0 =? sz) = false) by (apply Z.eqb_neq; lia). rewrite X. cbn [negb].
    assert (Y : (0 <? sz) = true) by (apply Z.ltb_lt; lia). rewrite Y.
    split; [|split; [|reflexivity]].
    + unfold QInv. cbn [q_size q_count q_first q_last q_elems]. rewrite set_nth_length.
      repeat split; try lia; intros _; rewrite Z.mod_small; lia.
    + rewrite cq_abs_rl. cbn [q_size q_count q_first q_last q_elems].
      change (Z.to_nat (0 + 1)) with 1%nat. change (Z.to_nat 0) with 0%nat. cbn [rl app].
      f_equal. apply nth_set_nth_same. lia.
  - apply Z.eqb_neq in E0. assert (Hc0 : 0 < c) by lia. specialize (Hrel Hc0).
    rewrite (wrap_mod la sz Hla).
    assert (Hnext : (la + 1) mod sz = (fi + c) mod sz).
    { rewrite Hrel, Zplus_mod_idemp_l. f_equal. lia. }
    rewrite Hnext. clear Hrel Hnext.
    destruct (c =? sz) eqn:E1; cbn [negb].
    + (* full ring: the slot of the oldest entry is overwritten *)
      apply Z.eqb_eq in E1. subst c.
      assert (Y : (sz <? sz) = false) by (apply Z.ltb_ge; lia). rewrite Y.
      assert (Hnx : (fi + sz) mod sz = fi).
      { rewrite <- (Z.mul_1_l sz) at 1. rewrite Z_mod_plus_full. apply Z.mod_small. lia. }
      rewrite Hnx. rewrite (wrap_mod fi sz Hfi).
      assert (Hf' : 0 <= (fi + 1) mod sz < sz) by (apply Z.mod_pos_bound; lia).
      split; [|split; [|reflexivity]].
      * unfold QInv. cbn [q_size q_count q_first q_last q_elems]. rewrite set_nth_length.
        repeat split; try lia; intros _.
        replace ((fi + 1) mod sz + sz - 1) with ((fi + 1) mod sz + (sz - 1)) by lia.
        rewrite Zplus_mod_idemp_l. replace (fi + 1 + (sz - 1)) with (fi + sz) by lia. symmetry. exact Hnx.
      * rewrite cq_abs_rl. cbn [q_size q_count q_first q_last q_elems].
        destruct (Z.to_nat sz) as [|m] eqn:Em; [lia|].
        assert (Hm : Z.of_nat m = sz - 1) by lia.
        assert (Hp : fi = ((fi + 1) mod sz + Z.of_nat m) mod sz).
        { rewrite Zplus_mod_idemp_l, Hm. replace (fi + 1 + (sz - 1)) with (fi + sz) by lia.
          symmetry. exact Hnx. }
        rewrite Hp at 1. rewrite rl_set_snoc by lia.
        cbn [rl tl]. reflexivity.
    + (* room left: the slot behind the newest entry is written *)
      apply Z.eqb_neq in E1.
      assert (Y : (c <? sz) = true) by (apply Z.ltb_lt; lia). rewrite Y.
      split; [|split; [|reflexivity]].
      * unfold QInv. cbn [q_size q_count q_first q_last q_elems]. rewrite set_nth_length.
        pose proof (Z.mod_pos_bound (fi + c) sz).
        repeat split; try lia; intros _; f_equal; lia.
      * rewrite cq_abs_rl. cbn [q_size q_count q_first q_last q_elems].
        replace (Z.to_nat (c + 1)) with (S (Z.to_nat c)) by lia.
        replace (fi + c) with (fi + Z.of_nat (Z.to_nat c)) by lia.
        apply rl_set_snoc; lia.
Qed.

(* ---- 3. dequeue *)
Theorem dequeue_refines : forall q, QInv q ->
  let '(o, q') := cq_dequeue q in
  QInv q' /\ (o, cq_abs q') = fifo_dequeue (cq_abs q) /\ q_size q' = q_size q.
Proof.
  intros q HI. unfold cq_dequeue.
  destruct (q_count q =? 0) eqn:E0; cbn [negb].
  - apply Z.eqb_eq in E0. split; [exact HI|]. split; [|reflexivity].
    unfold cq_abs. rewrite E0. reflexivity.
  - apply Z.eqb_neq in E0.
    rewrite (cq_abs_rl q), cq_abs_rl.
    destruct q as [sz c la fi els]. unfold QInv in HI. cbn [q_size q_count q_first q_last q_elems] in *.
    destruct HI as (Hsz & Hlen & Hc & Hfi & Hla & Hrel).
    assert (Hf' : 0 <= (fi + 1) mod sz < sz) by (apply Z.mod_pos_bound; lia).
    split; [|split; [|reflexivity]].
    + unfold QInv. cbn [q_size q_count q_first q_last q_elems].
      repeat split; try lia; intros Hc1; rewrite Hrel by lia.
      replace ((fi + 1) mod sz + (c - 1) - 1) with ((fi + 1) mod sz + (c - 2)) by lia.
      rewrite Zplus_mod_idemp_l. f_equal. lia.
    + replace (Z.to_nat c) with (S (Z.to_nat (c - 1))) by lia.
      cbn [rl fifo_dequeue]. reflexivity.
Qed.

(* ---- 4. flush *)
Theorem flush_refines : forall q, QInv q ->
  QInv (cq_flush q) /\ cq_abs (cq_flush q) = [] /\ q_size (cq_flush q) = q_size q.
Proof.
  intros q (Hsz & Hlen & _). split; [|split; reflexivity].
  unfold QInv, cq_flush. cbn [q_size q_count q_first q_last q_elems]. repeat split; lia.
Qed.

(* ---- 6. refinement along every operation sequence *)
Theorem Q101_refines : forall ops q out, QInv q ->
  let '(q', o1) := cq_run q ops out in
  let '(l', o2) := fifo_run (q_size q) (cq_abs q) ops out in
  o1 = o2 /\ cq_abs q' = l' /\ QInv q'.
Proof.
  induction ops as [|op r IH]; intros q out HI.
  - cbn [cq_run fifo_run]. auto.
  - destruct op as [e| |]; cbn [cq_run fifo_run].
    + destruct (enqueue_refines q e HI) as (HI' & Ha & Hs).
      rewrite <- Ha, <- Hs. apply IH. exact HI'.
    + pose proof (dequeue_refines q HI) as HD.
      destruct (cq_dequeue q) as [o q'] eqn:E. destruct HD as (HI' & Ha & Hs).
      rewrite <- Ha, <- Hs. apply IH. exact HI'.
    + destruct (flush_refines q HI) as (HI' & Ha & Hs).
      rewrite <- Ha, <- Hs. apply IH. exact HI'.
Qed.

(* ---- 7. the specification FIFO is bounded and displaces exactly the oldest entry *)
Theorem fifo_bounded : forall n l e, 1 <= n -> Z.of_nat (length l) <= n ->
  Z.of_nat (length (fifo_enqueue n l e)) <= n.
Proof.
  intros n l e Hn Hl. unfold fifo_enqueue.
  destruct (Z.of_nat (length l) <? n) eqn:E.
  - apply Z.ltb_lt in E. rewrite app_length. cbn [length]. lia.
  - rewrite app_length. cbn [length]. destruct l as [|x t]; cbn [tl length] in *; lia.
Qed.

Theorem fifo_displaces_oldest : forall n l e, Z.of_nat (length l) = n -> 1 <= n ->
  fifo_enqueue n l e = tl l ++ [e].
Proof.
  intros n l e Hl Hn. unfold fifo_enqueue.
  assert (X : (Z.of_nat (length l) <? n) = false) by (apply Z.ltb_ge; lia).
  rewrite X. reflexivity.
Qed.

Theorem fifo_keeps_when_room : forall n l e, Z.of_nat (length l) < n -> fifo_enqueue n l e = l ++ [e].
Proof.
  intros n l e Hl. unfold fifo_enqueue.
  assert (X : (Z.of_nat (length l) <? n) = true) by (apply Z.ltb_lt; lia).
  rewrite X. reflexivity.
Qed.

(* ---- 8. size 3, five enqueues (two displacements), two dequeues, one more enqueue wrapping *)
Example q101_run :
  cq_run (cq_init 3)
    [QEnq [1]; QEnq [2]; QEnq [3]; QEnq [4]; QEnq [5]; QDeq; QDeq; QEnq [6]; QDeq; QDeq; QDeq] [] =
  ({| q_size := 3; q_count := 0; q_last := 2; q_first := 0; q_elems := [[4]; [5]; [6]] |},
   [Some [3]; Some [4]; Some [5]; Some [6]; None]).
Proof. vm_compute; reflexivity. Qed.

Example q101_run_spec :
  fifo_run 3 [] [QEnq [1]; QEnq [2]; QEnq [3]; QEnq [4]; QEnq [5]; QDeq; QDeq] [] =
  ([[5]], [Some [3]; Some [4]]) /\
  cq_abs (fst (cq_run (cq_init 3) [QEnq [1]; QEnq [2]; QEnq [3]; QEnq [4]; QEnq [5]; QDeq; QDeq] [])) = [[5]].
Proof. vm_compute; split; reflexivity. Qed.

