(* C14 (station level): everything a station writes is a well-formed FT 1.2 frame; a rejected frame causes
   neither a transmission nor an indication.   C15: frame count bit theorems for the four state machines. *)
From Coq Require Import ZArith List Bool Lia.
From L60870 Require Import Link.Ft12 Link.Ft12Proofs Link.LinkSec Link.LinkPrim.
Import ListNotations.
Local Open Scope Z_scope.

Definition out_wf (al : Z) (o : out) : Prop := match o with OTx f => wf_frame al f | _ => True end.
Definition outs_wf (al : Z) (os : list out) : Prop := Forall (out_wf al) os.

Lemma tx_opt_wf : forall al fc a prm dir acd dfc data, 0 <= al <= 2 ->
  outs_wf al (tx_opt (enc_var al fc a prm dir acd dfc data)).
Proof.
  intros al fc a prm dir acd dfc data H. unfold outs_wf, tx_opt. destruct (enc_var al fc a prm dir acd dfc data) eqn:E; constructor; [|constructor].
  cbn [out_wf]. apply (proj1 (enc_var_wf _ _ _ _ _ _ _ _ _ H E)).
Qed.

Ltac crush H :=
  repeat (cbv beta iota; cbn [fst snd app out_wf tx_opt];
    match goal with
    | |- Forall _ [] => constructor
    | |- Forall _ (_ :: _) => constructor
    | |- Forall _ (_ ++ _) => apply Forall_app; split
    | |- True => exact I
    | |- Forall _ (tx_opt (enc_var _ _ _ _ _ _ _ _)) => apply (tx_opt_wf _ _ _ _ _ _ _ _ H)
    | |- wf_frame _ E5 => apply wf_single
    | |- wf_frame _ (enc_fixed _ _ _ _ _ _ _) => apply (proj1 (enc_fixed_wf _ _ _ _ _ _ _ H))
    | E : enc_var _ _ _ _ _ _ _ _ = Some ?f |- wf_frame _ ?f => apply (proj1 (enc_var_wf _ _ _ _ _ _ _ _ _ H E))
    | |- context [match ?x with _ => _ end] =>
        match x with
        | context [match _ with _ => _ end] => fail 1
        | _ => destruct x eqn:?
        end
    end).

Theorem su_tx_wf : forall v c now s rx, 0 <= alen c <= 2 ->
  outs_wf (alen c) (snd (su_run v c now s rx)).
Proof.
  intros v c now s rx H. unfold outs_wf, su_run, su_on_msg, su_handle, su_request, su_set_state, su_ack, reset_frame.
  crush H.
Qed.

Lemma sb_handle_wf : forall v c addr dir indret s fc fcb fcv msg uds udl, 0 <= alen c <= 2 ->
  outs_wf (alen c) (snd (sb_handle v c addr dir indret s fc fcb fcv msg uds udl)).
Proof. intros. unfold outs_wf, sb_handle, bal_ack. crush H. Qed.

Lemma pb_handle_wf : forall v c now dir p fc dfc, 0 <= alen c <= 2 ->
  outs_wf (alen c) (snd (pb_handle v c now dir p fc dfc)).
Proof. intros. unfold outs_wf, pb_handle, pb_set_state, reset_frame. crush H. Qed.

Lemma pb_run_wf : forall v c now dir p q, 0 <= alen c <= 2 ->
  outs_wf (alen c) (snd (pb_run v c now dir p q)).
Proof. intros. unfold outs_wf, pb_run, pb_set_state, reset_frame. crush H. Qed.

(* use a lemma about [snd (f args)] at a [let '(x, o) := f args in ...] *)
Ltac use_wf L :=
  match goal with
  | |- context [let '(_, _) := ?x in _] =>
      let W := fresh "W" in pose proof L as W; destruct x eqn:?; cbn [snd] in W
  end.

Lemma bal_on_msg_wf : forall v c now b msg, 0 <= alen c <= 2 ->
  outs_wf (alen c) (snd (bal_on_msg v c now b msg)).
Proof.
  intros v c now b msg H. unfold bal_on_msg. destruct (parse_bp (ff v) (alen c) msg).
  - constructor.
  - pose proof (pb_handle_wf v c now (b_dir b) (b_p b) 0 false H) as W. destruct (pb_handle v c now (b_dir b) (b_p b) 0 false). exact W.
  - pose proof (sb_handle_wf v c (b_addr b) (b_dir b) (b_indret b) (b_s b) fc fcb fcv msg uds udl H) as W.
    destruct (sb_handle v c (b_addr b) (b_dir b) (b_indret b) (b_s b) fc fcb fcv msg uds udl). exact W.
  - pose proof (pb_handle_wf v c now (b_dir b) (b_p b) fc dfc H) as W. destruct (pb_handle v c now (b_dir b) (b_p b) fc dfc). exact W.
Qed.

Theorem bal_tx_wf : forall v c now b rx, 0 <= alen c <= 2 ->
  outs_wf (alen c) (snd (bal_run v c now b rx)).
Proof.
  intros v c now b rx H. unfold bal_run. destruct (read_next (alen c) rx) as [m rest].
  destruct m as [msg|].
  - pose proof (bal_on_msg_wf v c now b msg H) as W1. destruct (bal_on_msg v c now b msg) as [b1 o1]. cbn [snd] in W1.
    pose proof (pb_run_wf v c now (b_dir b1) (b_p b1) (b_q b1) H) as W2. destruct (pb_run v c now (b_dir b1) (b_p b1) (b_q b1)) as [[p q] o2].
    cbn [snd] in *. unfold outs_wf in *. apply Forall_app. split; [constructor; [exact I | exact W1] | exact W2].
  - pose proof (pb_run_wf v c now (b_dir b) (b_p b) (b_q b) H) as W2. destruct (pb_run v c now (b_dir b) (b_p b) (b_q b)) as [[p q] o2].
    cbn [snd app] in *. exact W2.
Qed.

Lemma sc_handle_wf : forall v c now s fc acd dfc address msg uds udl, 0 <= alen c <= 2 ->
  outs_wf (alen c) (snd (sc_handle v c now s fc acd dfc address msg uds udl)).
Proof. intros. unfold outs_wf, sc_handle, sc_set_state, reset_frame. crush H. Qed.

Lemma sc_run_wf : forall v c now s, 0 <= alen c <= 2 -> outs_wf (alen c) (snd (sc_run v c now s)).
Proof. intros. unfold outs_wf, sc_run, sc_set_state, reset_frame. crush H. Qed.

Lemma pu_handle_wf : forall v c now p fc acd dfc address msg uds udl, 0 <= alen c <= 2 ->
  outs_wf (alen c) (snd (pu_handle v c now p fc acd dfc address msg uds udl)).
Proof.
  intros. unfold pu_handle.
  match goal with |- context [match ?t with Some _ => _ | None => _ end] => destruct t as [[i s]|] end; [|constructor].
  pose proof (sc_handle_wf v c now s fc acd dfc address msg uds udl H) as W.
  destruct (sc_handle v c now s fc acd dfc address msg uds udl). exact W.
Qed.

Lemma pu_sm_wf : forall v c now p, 0 <= alen c <= 2 -> outs_wf (alen c) (snd (pu_sm v c now p)).
Proof.
  intros v c now p H. unfold pu_sm.
  assert (W1 : outs_wf (alen c) (snd (match pu_bc p with
    | Some d => ({| pu_cur := pu_cur p; pu_idx := pu_idx p; pu_bc := None; pu_slaves := pu_slaves p |},
                 tx_opt (enc_var (alen c) 4 (bc_address c) true false false false d))
    | None => (p, []) end))).
  { destruct (pu_bc p); cbn [snd]; [apply tx_opt_wf; exact H | constructor]. }
  destruct (match pu_bc p with Some d => _ | None => _ end) as [p1 o1]. cbn [snd] in W1.
  destruct (lenz (map sc_addr (pu_slaves p1)) >? 0); [|exact W1].
  match goal with |- context [let '(_, _) := ?x in _] => destruct x as [cur2 idx2] end.
  destruct (get_slave (pu_slaves p1) cur2) as [s|]; [|exact W1].
  pose proof (sc_run_wf v c now s H) as W2. destruct (sc_run v c now s) as [s' o2]. cbn [snd] in *.
  unfold outs_wf in *. apply Forall_app. split; assumption.
Qed.

Theorem pu_tx_wf : forall v c now p rx, 0 <= alen c <= 2 ->
  outs_wf (alen c) (snd (pu_run v c now p rx)).
Proof.
  intros v c now p rx H. unfold pu_run. destruct (read_next (alen c) rx) as [m rest].
  assert (W1 : forall msg, outs_wf (alen c) (snd (pu_on_msg v c now p msg))).
  { intros msg. unfold pu_on_msg. destruct (parse_bp (ff v) (alen c) msg); try constructor; apply pu_handle_wf; exact H. }
  destruct m as [msg|].
  - specialize (W1 msg). destruct (pu_on_msg v c now p msg) as [p1 o1]. cbn [snd] in W1.
    pose proof (pu_sm_wf v c now p1 H) as W2. destruct (pu_sm v c now p1) as [p2 o2]. cbn [snd] in *.
    unfold outs_wf in *. apply Forall_app. split; [constructor; [exact I | exact W1] | exact W2].
  - pose proof (pu_sm_wf v c now p H) as W2. destruct (pu_sm v c now p) as [p2 o2]. cbn [snd app] in *. exact W2.
Qed.

(* ------------------------------------------------------------------ C14: rejected frames are silent; accepted data is unchanged *)
Definition quiet (o : out) : Prop := match o with OTx _ | OInd _ _ | OUd _ _ | ORcu _ | OAcd _ => False | _ => True end.
Definition silent (os : list out) : Prop := Forall quiet os.

Theorem su_reject_silent : forall v c now s msg,
  (forall fc bc fcb fcv uds udl, parse_su (ff v) (alen c) (su_addr s) msg <> SuOk fc bc fcb fcv uds udl) ->
  silent (snd (su_on_msg v c now s msg)).
Proof.
  intros v c now s msg Hn. unfold su_on_msg. change (su_addr (su_with_lastrx s now)) with (su_addr s).
  destruct (parse_su (ff v) (alen c) (su_addr s) msg) eqn:P.
  - unfold su_set_state. destruct (su_ls (su_with_lastrx s now) =? LS_ERROR); cbn [snd]; repeat constructor.
  - constructor.
  - exfalso. exact (Hn _ _ _ _ _ _ eq_refl).
Qed.

Theorem bal_reject_silent : forall v c now b msg, parse_bp (ff v) (alen c) msg = BpDrop ->
  bal_on_msg v c now b msg = (b, []).
Proof. intros v c now b msg P. unfold bal_on_msg. rewrite P. reflexivity. Qed.

Theorem pu_reject_silent : forall v c now p msg, parse_bp (ff v) (alen c) msg = BpDrop ->
  pu_on_msg v c now p msg = (p, []).
Proof. intros v c now p msg P. unfold pu_on_msg. rewrite P. reflexivity. Qed.

(* a frame that fails the receive clauses of the property is dropped by the balanced / primary parser *)
Theorem parse_bp_rejects : forall alen msg, 0 <= alen <= 2 -> nthz msg 0 <> 229 ->
  ~ rx_var_ok alen msg -> ~ rx_fixed_ok alen msg -> parse_bp true alen msg = BpDrop.
Proof.
  intros alen msg H N229 Nv Nf. pose proof (parse_bp_sound alen msg H) as S.
  destruct (parse_bp true alen msg); [reflexivity | contradiction | | ];
    destruct S as [[(A & _) | (A & _)] _]; contradiction.
Qed.

Theorem parse_su_rejects : forall alen own msg fc bc fcb fcv uds udl, 0 <= alen <= 2 ->
  (~ rx_var_ok alen msg /\ ~ rx_fixed_ok alen msg) \/
  (rx_address alen msg <> own /\ rx_address alen msg <> broadcast_addr alen) ->
  parse_su true alen own msg <> SuOk fc bc fcb fcv uds udl.
Proof.
  intros alen own msg fc bc fcb fcv uds udl H R P. apply parse_su_sound in P; [|exact H].
  destruct P as (Sh & Ad & _). destruct R as [[Nv Nf] | [No Nb]].
  - destruct Sh as [(A & _) | (A & _)]; contradiction.
  - destruct bc; [destruct Ad as [A _]; contradiction | contradiction].
Qed.

Ltac in_crush := repeat (cbv beta iota in *; cbn [fst snd app In] in *;
   match goal with
   | H : False |- _ => destruct H
   | H : _ \/ _ |- _ => destruct H
   | H : In _ (_ ++ _) |- _ => apply in_app_or in H
   | H : OInd _ _ = OInd _ _ |- _ => injection H as <- <-
   | H : OUd _ _ = OUd _ _ |- _ => injection H as <- <-
   | H : _ = OInd _ _ |- _ => discriminate H
   | H : _ = OUd _ _ |- _ => discriminate H
   | H : In _ (tx_opt ?x) |- _ => unfold tx_opt in H; destruct x
   | H : context [match ?x with _ => _ end] |- _ =>
       match x with context [match _ with _ => _ end] => fail 1 | _ => destruct x eqn:? end
   end).

(* what is indicated to the application is exactly the user data octets of an accepted frame *)
Theorem su_ind_data : forall v c now s msg bc d, In (OInd bc d) (snd (su_on_msg v c now s msg)) ->
  exists fc fcb fcv uds udl, parse_su (ff v) (alen c) (su_addr s) msg = SuOk fc bc fcb fcv uds udl /\ d = user_data msg uds udl.
Proof.
  intros v c now s msg bc d HI. unfold su_on_msg in HI. change (su_addr (su_with_lastrx s now)) with (su_addr s) in HI.
  destruct (parse_su (ff v) (alen c) (su_addr s) msg) eqn:P.
  - unfold su_set_state in HI. in_crush.
  - destruct HI.
  - unfold su_handle, su_request, su_set_state in HI. in_crush; repeat eexists.
Qed.

(* ================================================================== C15: frame count bit *)

(* ---- secondary: a confirmed user-data frame (FC 3, FCV = 1) *)
Definition su_quiet_state (s : su) : Prop := su_ls s = LS_AVAILABLE.

(* accepted bit: delivered once, expectation toggles, acknowledged *)
Theorem su_fc3_new : forall fi_ c s bc fcb msg uds udl, su_ls s = LS_AVAILABLE -> fcb = su_efcb s -> 0 < udl ->
  su_handle fi_ c s 3 bc fcb true msg uds udl =
  (su_with_efcb s (negb (su_efcb s)),
   [OInd bc (user_data msg uds udl); OTx (su_ack c (su_with_efcb s (negb (su_efcb s))) (q_nonempty (su_q1 s)))]).
Proof.
  intros fi_ c s bc fcb msg uds udl Hs -> Hl. unfold su_handle, su_set_state. rewrite Hs. change (LS_AVAILABLE =? LS_AVAILABLE) with true. cbv iota beta.
  change (3 =? 9) with false. change ((3 =? 0) || (3 =? 7)) with false. change (3 =? 11) with false. change (3 =? 10) with false. change (3 =? 3) with true. cbv iota.
  rewrite eqb_reflx. cbn [andb negb]. assert (E : udl >? 0 = true) by (apply Z.gtb_lt; lia). rewrite E. reflexivity.
Qed.

(* repeated bit: NOT delivered, expectation unchanged, the confirmation is repeated *)
Theorem su_fc3_dup : forall fi_ c s bc fcb msg uds udl, su_ls s = LS_AVAILABLE -> fcb = negb (su_efcb s) ->
  su_handle fi_ c s 3 bc fcb true msg uds udl = (s, [OTx (su_ack c s (q_nonempty (su_q1 s)))]).
Proof.
  intros fi_ c s bc fcb msg uds udl Hs ->. unfold su_handle, su_set_state. rewrite Hs. change (LS_AVAILABLE =? LS_AVAILABLE) with true. cbv iota beta.
  change (3 =? 9) with false. change ((3 =? 0) || (3 =? 7)) with false. change (3 =? 11) with false. change (3 =? 10) with false. change (3 =? 3) with true. cbv iota.
  assert (E : eqb (negb (su_efcb s)) (su_efcb s) = false) by (destruct (su_efcb s); reflexivity). rewrite E. cbn [andb negb app]. reflexivity.
Qed.

(* reset: the expectation restarts at 1 *)
Theorem su_reset_expect : forall fi_ c s fc bc msg uds udl, fc = 0 \/ fc = 7 ->
  su_efcb (fst (su_handle fi_ c s fc bc false false msg uds udl)) = true.
Proof.
  intros fi_ c s fc bc msg uds udl [-> | ->]; unfold su_handle, su_set_state;
    destruct (su_ls s =? LS_AVAILABLE); cbv iota beta; reflexivity.
Qed.

(* every frame sent with FCV = 1 takes part in the alternation, also one whose service this station does not implement (the link
   test of an unbalanced primary): the expectation toggles and the negative answer is given (variant fi).  Otherwise the primary,
   which toggles for every such frame, and this station are out of step: the next new request is taken for a repetition. *)
Definition su_served (fc : Z) : bool := (fc =? 9) || (fc =? 0) || (fc =? 7) || (fc =? 11) || (fc =? 10) || (fc =? 3) || (fc =? 4).
Theorem su_unserved_takes_fcb : forall c s fc bc fcb msg uds udl, su_served fc = false -> fcb = su_efcb s ->
  let '(s', o) := su_handle true c s fc bc fcb true msg uds udl in
  su_efcb s' = negb (su_efcb s) /\ In (OTx (enc_fixed (alen c) 15 (su_addr s) false false false false)) o /\
  su_q1 s' = su_q1 s /\ su_q2 s' = su_q2 s /\ su_udsz s' = su_udsz s /\ su_udbuf s' = su_udbuf s.
Proof.
  intros c s fc bc fcb msg uds udl Hf ->. unfold su_served in Hf.
  repeat match type of Hf with (_ || _) = false => apply orb_false_elim in Hf; destruct Hf as [Hf ?] end.
  unfold su_handle, su_set_state.
  repeat match goal with H : (fc =? _) = false |- _ => rewrite H; clear H end.
  destruct (su_ls s =? LS_AVAILABLE); cbn [orb andb su_with_ls su_efcb]; rewrite eqb_reflx; cbv iota beta;
    cbn [su_with_ls su_with_efcb su_efcb su_q1 su_q2 su_udsz su_udbuf su_addr snd fst];
    repeat split; try reflexivity; rewrite ?in_app_iff; cbn [In]; auto.
Qed.
Theorem su_unserved_repeat : forall fi_ c s fc bc fcb msg uds udl, su_served fc = false -> fcb = negb (su_efcb s) ->
  su_efcb (fst (su_handle fi_ c s fc bc fcb true msg uds udl)) = su_efcb s.
Proof.
  intros fi_ c s fc bc fcb msg uds udl Hf ->. unfold su_served in Hf.
  repeat match type of Hf with (_ || _) = false => apply orb_false_elim in Hf; destruct Hf as [Hf ?] end.
  unfold su_handle, su_set_state.
  repeat match goal with H : (fc =? _) = false |- _ => rewrite H; clear H end.
  assert (E : eqb (negb (su_efcb s)) (su_efcb s) = false) by (destruct (su_efcb s); reflexivity).
  destruct (su_ls s =? LS_AVAILABLE); cbn [orb andb su_with_ls su_efcb fst]; rewrite E, andb_false_r; reflexivity.
Qed.
(* original code: the link test of the primary (FCV = 1, the expected bit) leaves the expectation where it was; the primary has toggled *)
Theorem su_unserved_takes_fcb_refuted : exists c s, su_efcb s = true /\
  su_efcb (fst (su_handle false c s 2 false true true [] 0 0)) = true.
Proof.
  exists {| alen := 1; single_ack := false; t_ack := 200; t_rep := 1000; t_ls := 5000 |},
         (su_init {| fa := true; fb := true; fc_ := true; fd := true; fe := true; ff := true; fg := true; fh := true; fi := false |} 1 500).
  split; reflexivity.
Qed.

(* request with a repeated bit: the previous response is sent again, nothing is taken from the queues *)
Theorem su_request_dup : forall c s cls fcb, fcb = negb (su_efcb s) -> 0 < su_udsz s ->
  su_request c s cls fcb true = (s, tx_opt (enc_var (alen c) 8 (su_addr s) false false (q_nonempty (su_q1 s)) false (su_udbuf s))).
Proof.
  intros c s cls fcb -> Hz. unfold su_request.
  assert (E : eqb (negb (su_efcb s)) (su_efcb s) = false) by (destruct (su_efcb s); reflexivity). rewrite E. cbn [andb negb]. cbv iota beta.
  assert (G : su_udsz s >? 0 = true) by (apply Z.gtb_lt; lia). rewrite G. reflexivity.
Qed.

(* request with the expected bit: one entry is taken from the class queue and remembered for a repetition *)
Theorem su_request_new : forall c s (cls : bool) fcb d rest, fcb = su_efcb s -> (if cls then su_q1 s else su_q2 s) = d :: rest ->
  let s' := fst (su_request c s cls fcb true) in
  su_efcb s' = negb (su_efcb s) /\ su_udbuf s' = d /\ su_udsz s' = lenz d mod 256 /\ su_addr s' = su_addr s /\
  (if cls then su_q1 s' = rest /\ su_q2 s' = su_q2 s else su_q2 s' = rest /\ su_q1 s' = su_q1 s) /\
  snd (su_request c s cls fcb true) = tx_opt (enc_var (alen c) 8 (su_addr s) false false (q_nonempty (su_q1 s')) false d).
Proof.
  intros c s cls fcb d rest -> Hq. unfold su_request. rewrite eqb_reflx. cbn [andb negb]. cbv iota beta.
  destruct cls; cbn [su_q1 su_q2 su_with_efcb] ; rewrite Hq; cbn [fst snd su_efcb su_udbuf su_udsz su_q1 su_q2 su_with_ud su_with_q su_with_efcb su_addr];
    repeat split; reflexivity.
Qed.

(* hence a poll, its lost response and the repeated poll (even one for the other class) give the SAME
   response frame, and the entry is taken from the queue exactly once *)
Theorem su_poll_repeat_identical : forall c s (cls cls' : bool) fcb d rest, fcb = su_efcb s ->
  (if cls then su_q1 s else su_q2 s) = d :: rest -> 0 < lenz d < 256 ->
  let '(s1, o1) := su_request c s cls fcb true in
  let '(s2, o2) := su_request c s1 cls' fcb true in
  o2 = o1 /\ s2 = s1.
Proof.
  intros c s cls cls' fcb d rest Hf Hq Hd.
  pose proof (su_request_new c s cls fcb d rest Hf Hq) as N. cbv zeta in N.
  destruct (su_request c s cls fcb true) as [s1 o1]. cbn [fst snd] in N. destruct N as (E1 & E2 & E3 & Ea & E4 & E5).
  assert (Hf1 : fcb = negb (su_efcb s1)) by (rewrite E1, Hf; destruct (su_efcb s); reflexivity).
  assert (Hz : 0 < su_udsz s1) by (rewrite E3, Z.mod_small; lia).
  rewrite (su_request_dup c s1 cls' fcb Hf1 Hz). rewrite E2, E5, Ea. split; reflexivity.
Qed.

(* ---- balanced secondary *)
Theorem sb_fc3_new : forall v c addr dir s fcb msg uds udl, fcb = sb_efcb s -> 0 < udl ->
  sb_handle v c addr dir true s 3 fcb true msg uds udl =
  ({| sb_efcb := negb (sb_efcb s) |}, [OInd false (user_data msg uds udl); OTx (bal_ack c addr dir)]).
Proof.
  intros v c addr dir s fcb msg uds udl -> Hl. unfold sb_handle. rewrite eqb_reflx. cbn [andb negb]. cbv iota.
  change (3 =? 0) with false. change (3 =? 2) with false. change (3 =? 3) with true. cbv iota.
  assert (E : udl >? 0 = true) by (apply Z.gtb_lt; lia). rewrite E. reflexivity.
Qed.

(* with the proposed repair a retransmitted frame is acknowledged again and not delivered *)
Theorem sb_fc3_dup : forall v c addr dir indret s fcb msg uds udl, fb v = true -> fcb = negb (sb_efcb s) ->
  sb_handle v c addr dir indret s 3 fcb true msg uds udl = (s, [OTx (bal_ack c addr dir)]).
Proof.
  intros v c addr dir indret s fcb msg uds udl Hv ->. unfold sb_handle.
  assert (E : eqb (negb (sb_efcb s)) (sb_efcb s) = false) by (destruct (sb_efcb s); reflexivity). rewrite E, Hv. reflexivity.
Qed.

(* the original code answers a retransmitted frame with silence: the primary can only run into its repeat timeout *)
Theorem sb_fc3_dup_refuted : forall v c addr dir indret s fcb msg uds udl, fb v = false -> fcb = negb (sb_efcb s) ->
  sb_handle v c addr dir indret s 3 fcb true msg uds udl = (s, []).
Proof.
  intros v c addr dir indret s fcb msg uds udl Hv ->. unfold sb_handle.
  assert (E : eqb (negb (sb_efcb s)) (sb_efcb s) = false) by (destruct (sb_efcb s); reflexivity). rewrite E, Hv. reflexivity.
Qed.

Theorem sb_reset_expect : forall v c addr dir indret s msg uds udl,
  sb_efcb (fst (sb_handle v c addr dir indret s 0 false false msg uds udl)) = true.
Proof. intros. reflexivity. Qed.

(* ---- the retransmission discipline seen by ANY secondary that follows the two rules above:
   a primary sends each new frame with the alternated bit and repeats a frame (any number of times) with
   the same bit; the secondary hands every frame to the application exactly once, in order *)
Fixpoint sec_recv (e : bool) (frames : list (bool * list Z)) : bool * list (list Z) :=
  match frames with
  | [] => (e, [])
  | (b, m) :: r => if eqb b e then let '(e', d) := sec_recv (negb e) r in (e', m :: d) else sec_recv e r
  end.
Fixpoint pri_frames (b : bool) (msgs : list (list Z * nat)) : list (bool * list Z) :=
  match msgs with
  | [] => []
  | (m, reps) :: r => repeat (b, m) (S reps) ++ pri_frames (negb b) r
  end.

Lemma sec_recv_dups : forall n e m r, sec_recv e (repeat (negb e, m) n ++ r) = sec_recv e r.
Proof.
  induction n as [|n IH]; intros e m r; [reflexivity|]. cbn [repeat app sec_recv].
  assert (E : eqb (negb e) e = false) by (destruct e; reflexivity). rewrite E. apply IH.
Qed.

Theorem sec_at_most_once : forall msgs e, snd (sec_recv e (pri_frames e msgs)) = map fst msgs.
Proof.
  induction msgs as [|[m reps] r IH]; intros e; [reflexivity|].
  cbn [pri_frames repeat app sec_recv]. rewrite eqb_reflx.
  replace (repeat (e, m) reps) with (repeat (negb (negb e), m) reps) by (rewrite negb_involutive; reflexivity).
  rewrite sec_recv_dups. specialize (IH (negb e)).
  destruct (sec_recv (negb e) (pri_frames (negb e) r)) as [e' d]. cbn [snd map fst] in *. rewrite IH. reflexivity.
Qed.

(* ================================================================== C15: primaries *)
Ltac to_prop2 := repeat match goal with
  | H : (_ =? _) = true |- _ => apply Z.eqb_eq in H
  | H : (_ =? _) = false |- _ => apply Z.eqb_neq in H
  | H : (_ >? _) = true |- _ => apply Z.gtb_lt in H
  | H : (_ >? _) = false |- _ => rewrite Z.gtb_ltb in H; apply Z.ltb_ge in H
  end.
(* decide the outermost `if` of the goal by case analysis on one comparison; impossible cases by lia *)
Ltac gstep2 :=
  match goal with
  | |- context [if ?b then _ else _] =>
     match b with
     | context [?x =? ?y] => let E := fresh "G" in destruct (x =? y) eqn:E
     | context [?x >? ?y] => let E := fresh "G" in destruct (x >? y) eqn:E
     end; cbn [negb andb orb]; cbv beta iota
  end.
Ltac settle := repeat (cbn [Z.eqb Pos.eqb orb andb negb]; cbv beta iota; try (gstep2; try (exfalso; to_prop2; unfold clamp in *; lia))).

Lemma clamp_le : forall t now, t <= now -> clamp t now = t.
Proof. intros t now H. unfold clamp. destruct (t >? now) eqn:E; [apply Z.gtb_lt in E; lia | reflexivity]. Qed.

Definition fcv_frame (c : llcfg) (fcode address : Z) (dir fcb : bool) (data : list Z) : list out :=
  tx_opt (enc_var (alen c) fcode address true dir fcb true data).

(* a new user-data frame carries nextFcb and toggles it; the frame is remembered *)
Theorem pb_send_new : forall v c now dir p d rest,
  pb_ps p = PLL_AVAILABLE -> pb_test p = false -> now - clamp (pb_lastrx p) now <= pb_idle p ->
  let '(p', q', o) := pb_run v c now dir p (d :: rest) in
  o = fcv_frame c 3 (pb_other p) dir (pb_nfcb p) d /\ q' = rest /\
  pb_ps p' = PLL_SEND_CONFIRM /\ pb_nfcb p' = negb (pb_nfcb p) /\ pb_last p' = d /\ pb_test p' = false /\
  pb_lastsend p' = now /\ pb_origsend p' = now /\ pb_other p' = pb_other p /\ (fg v = true -> pb_tout p' = false).
Proof.
  intros v c now dir p d rest Hs Ht Hi. unfold pb_run. rewrite Hs, Ht. unfold PLL_AVAILABLE, PLL_IDLE, PLL_REQ_STATUS, PLL_RESET, PLL_SEND_CONFIRM.
  settle. cbn [pb_with_tout pb_upd pb_ps pb_nfcb pb_last pb_test pb_lastsend pb_origsend pb_other pb_tout pb_with_lastrx].
  repeat split; try reflexivity. intros ->. reflexivity.
Qed.

(* acknowledgement timeout inside the repeat window: the SAME frame (same bit, same octets) is sent again *)
(* what decides between "repeat the user data" and "repeat the test frame": the frame that is outstanding (fg) /
   the request flag, which the application may set at any time (original) *)
Definition pb_out_is_test (v : variant) (p : pb) : bool := if fg v then pb_tout p else pb_test p.

Theorem pb_repeat : forall v c now dir p,
  pb_ps p = PLL_SEND_CONFIRM -> pb_out_is_test v p = false -> pb_lastsend p <= now ->
  pb_lastsend p + t_ack c < now -> now <= pb_origsend p + t_rep c ->
  let '(p', q', o) := pb_run v c now dir p [] in
  o = fcv_frame c 3 (pb_other p) dir (negb (pb_nfcb p)) (pb_last p) /\
  pb_ps p' = PLL_SEND_CONFIRM /\ pb_nfcb p' = pb_nfcb p /\ pb_last p' = pb_last p /\ pb_test p' = pb_test p /\
  pb_lastsend p' = now /\ pb_origsend p' = pb_origsend p /\ pb_other p' = pb_other p /\ pb_tout p' = pb_tout p.
Proof.
  intros v c now dir p Hs Ht H1 H2 H3. unfold pb_run. unfold pb_out_is_test in Ht. rewrite Hs, Ht, (clamp_le _ _ H1).
  unfold PLL_AVAILABLE, PLL_IDLE, PLL_REQ_STATUS, PLL_RESET, PLL_SEND_CONFIRM.
  settle. repeat split; reflexivity.
Qed.

(* [req]: whether the application asked for a link test (LinkLayerBalanced_sendLinkLayerTestFunction) while the frame
   was waiting for its confirmation.  With fg the retransmission is the identical frame whatever was requested. *)
Theorem pb_retransmit_identical : forall v c t0 t1 dir p d rest (req : bool), fg v = true ->
  pb_ps p = PLL_AVAILABLE -> pb_test p = false -> t0 - clamp (pb_lastrx p) t0 <= pb_idle p ->
  0 <= t_ack c -> t0 + t_ack c < t1 -> t1 <= t0 + t_rep c ->
  let '(p1, q1, o1) := pb_run v c t0 dir p (d :: rest) in
  let '(p2, q2, o2) := pb_run v c t1 dir (if req then pb_with_test p1 true else p1) [] in
  o2 = o1 /\ pb_nfcb p2 = pb_nfcb p1 /\ pb_nfcb p1 = negb (pb_nfcb p) /\ pb_test p2 = req.
Proof.
  intros v c t0 t1 dir p d rest req Hg Hs Ht Hi H0 H1 H2.
  pose proof (pb_send_new v c t0 dir p d rest Hs Ht Hi) as A. destruct (pb_run v c t0 dir p (d :: rest)) as [[p1 q1] o1].
  destruct A as (Ao & _ & As & Af & Al & At & Als & Aos & Aot & Ato). specialize (Ato Hg).
  set (p1' := if req then pb_with_test p1 true else p1).
  assert (E : pb_ps p1' = pb_ps p1 /\ pb_nfcb p1' = pb_nfcb p1 /\ pb_last p1' = pb_last p1 /\ pb_lastsend p1' = pb_lastsend p1 /\
              pb_origsend p1' = pb_origsend p1 /\ pb_other p1' = pb_other p1 /\ pb_tout p1' = pb_tout p1 /\ pb_test p1' = req).
  { unfold p1'. destruct req; cbn [pb_with_test pb_upd pb_ps pb_nfcb pb_last pb_lastsend pb_origsend pb_other pb_tout pb_test]; repeat split; try reflexivity. exact At. }
  destruct E as (E1 & E2 & E3 & E4 & E5 & E6 & E7 & E8).
  assert (Hout : pb_out_is_test v p1' = false) by (unfold pb_out_is_test; rewrite Hg, E7; exact Ato).
  pose proof (pb_repeat v c t1 dir p1' ltac:(rewrite E1; exact As) Hout ltac:(rewrite E4; lia) ltac:(rewrite E4; lia) ltac:(rewrite E5; lia)) as B.
  destruct (pb_run v c t1 dir p1' []) as [[p2 q2] o2].
  destruct B as (Bo & _ & Bf & _ & Bt & _). rewrite Bo, Ao, E2, E3, E6, Af, Al, Aot, negb_involutive.
  split; [reflexivity | split; [rewrite Bf, E2, Af; reflexivity | split; [reflexivity | rewrite Bt; exact E8]]].
Qed.

(* the original code: a link test requested while user data is outstanding replaces the retransmission by a test frame that
   carries the bit of the lost user data -- the secondary accepts it as the new frame, confirms, and the data is gone *)
Theorem pb_retransmit_identical_refuted : exists v c t0 t1 dir p d,
  fg v = false /\ pb_ps p = PLL_AVAILABLE /\ pb_test p = false /\ t0 + t_ack c < t1 /\ t1 <= t0 + t_rep c /\
  let '(p1, q1, o1) := pb_run v c t0 dir p [d] in
  let '(p2, q2, o2) := pb_run v c t1 dir (pb_with_test p1 true) [] in
  o1 = fcv_frame c 3 2 dir true d /\ o2 = [OTx (enc_fixed 1 2 2 true dir true true)].
Proof.
  exists {| fa := true; fb := true; fc_ := true; fd := true; fe := true; ff := true; fg := false; fh := false; fi := false |},
         {| alen := 1; single_ack := false; t_ack := 200; t_rep := 1000; t_ls := 5000 |}, 1000, 1300, true,
         (pb_with_ps (pb_with_lastrx (pb_init 2 5000) 1000) PLL_AVAILABLE), [45; 1; 6; 0; 1; 0; 7; 0].
  split; [reflexivity|]. split; [reflexivity|]. split; [reflexivity|]. split; [reflexivity|]. split; [discriminate|].
  vm_compute. split; reflexivity.
Qed.

(* after the repeat timeout: no further repetition, the link is reported in error (once: the callback
   fires on a state CHANGE), and the machine restarts with REQUEST STATUS OF LINK *)
Theorem pb_repeat_stops : forall v c now dir p,
  pb_ps p = PLL_SEND_CONFIRM -> pb_lastsend p <= now -> pb_lastsend p + t_ack c < now -> pb_origsend p + t_rep c < now ->
  let '(p', q', o) := pb_run v c now dir p [] in
  pb_ps p' = PLL_IDLE /\ pb_ls p' = LS_ERROR /\ o = (if pb_ls p =? LS_ERROR then [] else [OLs (-1) LS_ERROR]).
Proof.
  intros v c now dir p Hs H1 H2 H3. unfold pb_run. rewrite Hs, (clamp_le _ _ H1). unfold pb_set_state, PLL_AVAILABLE, PLL_IDLE, PLL_REQ_STATUS, PLL_RESET, PLL_SEND_CONFIRM.
  cbn [pb_ls pb_upd]. settle; cbn [pb_with_ps pb_upd pb_ps pb_ls]; to_prop2; repeat split; try reflexivity; assumption.
Qed.

Theorem pb_idle_requests_status : forall v c now dir p q, pb_ps p = PLL_IDLE ->
  snd (pb_run v c now dir p q) = [OTx (enc_fixed (alen c) 9 (pb_other p) true dir false false)] /\
  pb_ps (fst (fst (pb_run v c now dir p q))) = PLL_REQ_STATUS.
Proof. intros v c now dir p q Hs. unfold pb_run. rewrite Hs. split; reflexivity. Qed.

(* re-establishment: whenever RESET REMOTE LINK is sent the next frame count bit is 1 (repaired code) *)
Theorem pb_reset_fcb : forall v c now dir p, fa v = true -> pb_ps p = PLL_REQ_STATUS ->
  (let '(p', o) := pb_handle v c now dir p 11 false in
   pb_nfcb p' = true /\ pb_ps p' = PLL_RESET /\ In (OTx (reset_frame c (pb_other p) dir)) o) /\
  (pb_wait p = false ->
   let '(p', q', o) := pb_run v c now dir p [] in
   pb_nfcb p' = true /\ pb_ps p' = PLL_RESET /\ o = [OTx (reset_frame c (pb_other p) dir)]).
Proof.
  intros v c now dir p Hv Hs. split.
  - unfold pb_handle. cbn [pb_with_lastrx pb_ps]. rewrite Hs, Hv. unfold PLL_AVAILABLE, PLL_IDLE, PLL_REQ_STATUS, PLL_RESET, PLL_SEND_CONFIRM.
    cbn [Z.eqb Pos.eqb orb andb negb]. cbv beta iota. unfold pb_set_state. cbn [pb_upd pb_ls pb_with_lastrx].
    destruct (pb_ls p =? LS_BUSY); cbn [pb_nfcb pb_ps pb_upd In]; repeat split; try reflexivity; left; reflexivity.
  - intros Hw. unfold pb_run. rewrite Hs, Hw, Hv. unfold PLL_AVAILABLE, PLL_IDLE, PLL_REQ_STATUS, PLL_RESET, PLL_SEND_CONFIRM.
    cbn [Z.eqb Pos.eqb orb andb negb]. cbv beta iota. cbn [pb_nfcb pb_ps pb_upd]. repeat split; reflexivity.
Qed.


Lemma pb_ack_in_reset : forall v c now dir p, pb_ps p = PLL_RESET ->
  let p' := fst (pb_handle v c now dir p 0 false) in
  pb_ps p' = PLL_AVAILABLE /\ pb_nfcb p' = pb_nfcb p /\ pb_test p' = pb_test p /\ pb_lastrx p' = now /\
  pb_other p' = pb_other p /\ pb_idle p' = pb_idle p.
Proof.
  intros v c now dir p Hs. unfold pb_handle. cbn [pb_with_lastrx pb_ps]. rewrite Hs. unfold PLL_RESET, PLL_AVAILABLE.
  cbn [Z.eqb Pos.eqb orb andb negb]. cbv beta iota. unfold pb_set_state.
  destruct (pb_ls (pb_with_lastrx p now) =? LS_AVAILABLE); cbn [fst pb_with_lastrx pb_with_ps pb_with_wait pb_upd pb_ps pb_nfcb pb_test pb_lastrx pb_other pb_idle]; repeat split; reflexivity.
Qed.

(* after an acknowledged reset the first frame sent with FCV = 1 carries FCB = 1 (repaired code) *)
Theorem pb_first_after_reset : forall v c now dir p d rest, fa v = true ->
  pb_ps p = PLL_REQ_STATUS -> pb_test p = false -> 0 <= pb_idle p ->
  let p1 := fst (pb_handle v c now dir p 11 false) in          (* status of link received: RESET REMOTE LINK is sent *)
  let p2 := fst (pb_handle v c now dir p1 0 false) in          (* the reset is acknowledged *)
  snd (pb_run v c now dir p2 (d :: rest)) = fcv_frame c 3 (pb_other p) dir true d.
Proof.
  intros v c now dir p d rest Hv Hs Ht Hi. cbv zeta.
  pose proof (proj1 (pb_reset_fcb v c now dir p Hv Hs)) as A.
  assert (A' : pb_test (fst (pb_handle v c now dir p 11 false)) = false /\ pb_other (fst (pb_handle v c now dir p 11 false)) = pb_other p /\
               pb_idle (fst (pb_handle v c now dir p 11 false)) = pb_idle p).
  { unfold pb_handle. cbn [pb_with_lastrx pb_ps]. rewrite Hs. unfold PLL_REQ_STATUS. cbn [Z.eqb Pos.eqb orb andb negb]. cbv beta iota.
    unfold pb_set_state. cbn [pb_ls pb_upd pb_with_lastrx pb_test pb_origsend pb_nfcb pb_last]. destruct (pb_ls p =? LS_BUSY); cbn [fst pb_test pb_other pb_idle pb_upd pb_with_lastrx]; repeat split; assumption || reflexivity. }
  destruct (pb_handle v c now dir p 11 false) as [p1 o1]. cbn [fst] in *. destruct A as (An & As & _). destruct A' as (At & Ao & Aid).
  pose proof (pb_ack_in_reset v c now dir p1 As) as B. cbv zeta in B.
  destruct (pb_handle v c now dir p1 0 false) as [p2 o2]. cbn [fst] in *. destruct B as (Bs & Bn & Bt & Br & Bo & Bi).
  assert (Hidle : now - clamp (pb_lastrx p2) now <= pb_idle p2) by (rewrite Br, clamp_le by lia; lia).
  pose proof (pb_send_new v c now dir p2 d rest Bs ltac:(congruence) Hidle) as C.
  destruct (pb_run v c now dir p2 (d :: rest)) as [[p3 q3] o3]. cbn [snd]. destruct C as (Co & _). rewrite Co, Bn, An, Bo, Ao. reflexivity.
Qed.

(* the original code keeps whatever parity the history left: the first frame after the reset can carry FCB = 0,
   which the peer (expecting 1) treats as a repetition *)
Theorem pb_first_after_reset_refuted : exists v c now dir p d,
  fa v = false /\ pb_ps p = PLL_REQ_STATUS /\
  let p1 := fst (pb_handle v c now dir p 11 false) in
  let p2 := fst (pb_handle v c now dir p1 0 false) in
  snd (pb_run v c now dir p2 [d]) = fcv_frame c 3 (pb_other p) dir false d.
Proof.
  exists {| fa := false; fb := false; fc_ := false; fd := false; fe := false; ff := false; fg := false; fh := false; fi := false |},
         {| alen := 1; single_ack := false; t_ack := 200; t_rep := 1000; t_ls := 5000 |}, 5000, true,
         {| pb_ls := LS_ERROR; pb_ps := PLL_REQ_STATUS; pb_wait := true; pb_lastsend := 5000; pb_origsend := 0; pb_test := false;
            pb_nfcb := false; pb_other := 2; pb_last := [170]; pb_lastrx := 4000; pb_idle := 100000; pb_tout := false |}, [187].
  vm_compute. repeat split; reflexivity.
Qed.

(* ---- unbalanced primary, one slave connection *)
Theorem sc_send_new : forall v c now s,
  sc_ps s = PLL_AVAILABLE -> sc_test s = false -> sc_has s = true ->
  let '(s', o) := sc_run v c now s in
  o = fcv_frame c 3 (sc_addr s) false (sc_nfcb s) (sc_msg s) /\ sc_ps s' = PLL_SEND_CONFIRM /\ sc_nfcb s' = negb (sc_nfcb s) /\
  sc_msg s' = sc_msg s /\ sc_test s' = false /\ sc_lastsend s' = now /\ sc_origsend s' = now /\ sc_addr s' = sc_addr s.
Proof.
  intros v c now s Hs Ht Hh. unfold sc_run. rewrite Hs, Ht, Hh. unfold PLL_AVAILABLE, PLL_IDLE, PLL_REQ_STATUS, PLL_RESET, PLL_SEND_CONFIRM, PLL_TIMEOUT.
  settle. repeat split; reflexivity.
Qed.

(* the request flag of the link test decides what is repeated in the original code only *)
Theorem sc_repeat : forall v c now s,
  sc_ps s = PLL_SEND_CONFIRM -> (fg v = true \/ sc_test s = false) -> sc_lastsend s <= now ->
  sc_lastsend s + t_ack c < now -> now <= sc_origsend s + t_rep c ->
  let '(s', o) := sc_run v c now s in
  o = fcv_frame c 3 (sc_addr s) false (negb (sc_nfcb s)) (sc_msg s) /\ sc_ps s' = PLL_SEND_CONFIRM /\ sc_nfcb s' = sc_nfcb s /\ sc_msg s' = sc_msg s.
Proof.
  intros v c now s Hs Ht H1 H2 H3. unfold sc_run. rewrite Hs, (clamp_le _ _ H1). unfold PLL_AVAILABLE, PLL_IDLE, PLL_REQ_STATUS, PLL_RESET, PLL_SEND_CONFIRM, PLL_TIMEOUT.
  assert (E : negb (fg v) && sc_test s = false) by (destruct Ht as [-> | ->]; [reflexivity | apply andb_false_r]). rewrite E.
  settle. cbn [sc_ps sc_nfcb sc_msg sc_with_lastsend sc_mk]. repeat split; try reflexivity; exact Hs.
Qed.

(* [req]: LinkLayerPrimaryUnbalanced_sendLinkLayerTestFunction called while the frame waits for its confirmation *)
Theorem sc_retransmit_identical : forall v c t0 t1 s (req : bool), fg v = true ->
  sc_ps s = PLL_AVAILABLE -> sc_test s = false -> sc_has s = true -> 0 <= t_ack c -> t0 + t_ack c < t1 -> t1 <= t0 + t_rep c ->
  let '(s1, o1) := sc_run v c t0 s in let '(s2, o2) := sc_run v c t1 (if req then sc_with_test s1 true else s1) in o2 = o1.
Proof.
  intros v c t0 t1 s req Hg Hs Ht Hh H0 H1 H2.
  pose proof (sc_send_new v c t0 s Hs Ht Hh) as A. destruct (sc_run v c t0 s) as [s1 o1].
  destruct A as (Ao & As & Af & Am & At & Als & Aos & Aa).
  set (s1' := if req then sc_with_test s1 true else s1).
  assert (E : sc_ps s1' = sc_ps s1 /\ sc_nfcb s1' = sc_nfcb s1 /\ sc_msg s1' = sc_msg s1 /\ sc_lastsend s1' = sc_lastsend s1 /\
              sc_origsend s1' = sc_origsend s1 /\ sc_addr s1' = sc_addr s1).
  { unfold s1'. destruct req; cbn [sc_with_test sc_mk sc_ps sc_nfcb sc_msg sc_lastsend sc_origsend sc_addr]; repeat split; reflexivity. }
  destruct E as (E1 & E2 & E3 & E4 & E5 & E6).
  pose proof (sc_repeat v c t1 s1' ltac:(rewrite E1; exact As) (or_introl Hg) ltac:(rewrite E4; lia) ltac:(rewrite E4; lia) ltac:(rewrite E5; lia)) as B.
  destruct (sc_run v c t1 s1') as [s2 o2].
  destruct B as (Bo & _). rewrite Bo, Ao, E2, E3, E6, Af, Am, Aa, negb_involutive. reflexivity.
Qed.

(* the confirmation of the user data frame: with fg it takes the message (nothing is sent twice as a new frame) and leaves a
   link test requested meanwhile pending; the original code gives the confirmation to the test request and keeps the message *)
Theorem sc_confirm_takes_message : forall v c now s acd address msg uds udl, fg v = true -> sc_ps s = PLL_SEND_CONFIRM ->
  let s' := fst (sc_handle v c now s 0 acd false address msg uds udl) in
  sc_has s' = false /\ sc_ps s' = PLL_AVAILABLE /\ sc_test s' = sc_test s /\ sc_nfcb s' = sc_nfcb s.
Proof.
  intros v c now s acd address msg uds udl Hg Hs. cbv zeta. unfold sc_handle, sc_set_state. rewrite Hs, Hg.
  unfold PLL_AVAILABLE, PLL_IDLE, PLL_REQ_STATUS, PLL_RESET, PLL_SEND_CONFIRM, PLL_BUSY, PLL_REQUEST_RESPOND, PLL_TIMEOUT.
  cbn [Z.eqb Pos.eqb orb andb negb]. cbv beta iota.
  destruct acd; cbn [sc_with_r sc_with_msg sc_mk sc_ls]; destruct (_ =? LS_AVAILABLE);
    cbn [fst sc_with_r sc_with_wait sc_with_ps sc_with_msg sc_mk sc_has sc_ps sc_test sc_nfcb]; repeat split; reflexivity.
Qed.

Theorem sc_confirm_takes_message_refuted : exists v c now s,
  fg v = false /\ sc_ps s = PLL_SEND_CONFIRM /\ sc_has s = true /\
  let s1 := fst (sc_handle v c now s 0 false false 1 [] 0 0) in           (* the confirmation arrives *)
  let '(s2, o2) := sc_run v c now s1 in
  sc_has s1 = true /\ o2 = fcv_frame c 3 1 false (sc_nfcb s) (sc_msg s).  (* the same message again, as a NEW frame *)
Proof.
  exists {| fa := true; fb := true; fc_ := true; fd := true; fe := true; ff := true; fg := false; fh := false; fi := false |},
         {| alen := 1; single_ack := false; t_ack := 200; t_rep := 1000; t_ls := 5000 |}, 1100,
         (sc_mk (sc_init 1) LS_AVAILABLE PLL_SEND_CONFIRM true [45; 1; 6; 0; 1; 0; 7; 0] 1000 1000 false false true true false 11).
  split; [reflexivity|]. split; [reflexivity|]. split; [reflexivity|]. vm_compute. split; reflexivity.
Qed.

(* a link test request is served by exactly one test frame (fg); in the original code the request is never cleared *)
Theorem sc_test_request_served : forall v c now s, fg v = true -> sc_ps s = PLL_AVAILABLE -> sc_test s = true ->
  let '(s', o) := sc_run v c now s in
  o = [OTx (enc_fixed (alen c) 2 (sc_addr s) true false (sc_nfcb s) true)] /\ sc_test s' = false /\ sc_ps s' = PLL_REQUEST_RESPOND /\
  sc_has s' = sc_has s /\ sc_msg s' = sc_msg s /\ sc_nfcb s' = negb (sc_nfcb s) /\ sc_lastfc s' = 2.
Proof.
  intros v c now s Hg Hs Ht. unfold sc_run. rewrite Hs, Ht, Hg. unfold PLL_AVAILABLE, PLL_IDLE, PLL_REQ_STATUS, PLL_RESET, PLL_SEND_CONFIRM, PLL_TIMEOUT.
  settle. repeat split; reflexivity.
Qed.

Theorem sc_test_request_served_refuted : exists v c now s,
  fg v = false /\ sc_ps s = PLL_AVAILABLE /\ sc_test s = true /\ sc_has s = true /\
  let '(s1, o1) := sc_run v c now s in                                      (* test frame *)
  let s2 := fst (sc_handle v c now s1 0 false false 1 [] 0 0) in            (* answered *)
  let '(s3, o3) := sc_run v c now s2 in                                     (* ... and sent again instead of the message *)
  sc_test s2 = true /\ o3 = [OTx (enc_fixed 1 2 1 true false (negb (sc_nfcb s)) true)].
Proof.
  exists {| fa := true; fb := true; fc_ := true; fd := true; fe := true; ff := true; fg := false; fh := false; fi := false |},
         {| alen := 1; single_ack := false; t_ack := 200; t_rep := 1000; t_ls := 5000 |}, 1100,
         (sc_mk (sc_init 1) LS_AVAILABLE PLL_AVAILABLE true [45; 1; 6; 0; 1; 0; 7; 0] 1000 1000 false false false true true 11).
  split; [reflexivity|]. split; [reflexivity|]. split; [reflexivity|]. split; [reflexivity|]. vm_compute. split; reflexivity.
Qed.

(* fh: "service not implemented / not functioning" answers a REQUEST/RESPOND service (e.g. the test frame): the service is over,
   the link stays available -- no repetition, no link error *)
Theorem sc_negative_answer_ends_request : forall v c now s fc acd address msg uds udl, fh v = true -> fc = 14 \/ fc = 15 ->
  sc_ps s = PLL_REQUEST_RESPOND ->
  let '(s', o) := sc_handle v c now s fc acd false address msg uds udl in
  sc_ps s' = PLL_AVAILABLE /\ sc_ls s' = LS_AVAILABLE /\ sc_nfcb s' = sc_nfcb s /\ sc_has s' = sc_has s /\ sc_test s' = sc_test s.
Proof.
  intros v c now s fc acd address msg uds udl Hh Hf Hs. unfold sc_handle, sc_set_state. rewrite Hs, Hh.
  unfold PLL_AVAILABLE, PLL_IDLE, PLL_REQ_STATUS, PLL_RESET, PLL_SEND_CONFIRM, PLL_BUSY, PLL_REQUEST_RESPOND, PLL_TIMEOUT.
  destruct Hf as [-> | ->]; cbn [Z.eqb Pos.eqb orb andb negb]; cbv beta iota;
  destruct acd; cbn [sc_with_r sc_mk sc_ls]; destruct (_ =? LS_AVAILABLE) eqn:L;
    cbn [fst snd sc_with_r sc_with_wait sc_with_ps sc_mk sc_has sc_ps sc_test sc_nfcb sc_ls]; repeat split; try reflexivity;
    apply Z.eqb_eq in L; exact L.
Qed.

Theorem sc_negative_answer_refuted : exists v c s t1,
  fh v = false /\ sc_ps s = PLL_REQUEST_RESPOND /\
  let s1 := fst (sc_handle v c 1100 s 15 false false 1 [] 0 0) in
  let '(s2, o2) := sc_run v c t1 s1 in
  sc_ps s1 = PLL_REQUEST_RESPOND /\ o2 = [OTx (enc_fixed 1 2 1 true false true true)].     (* the answered request is repeated *)
Proof.
  exists {| fa := true; fb := true; fc_ := true; fd := true; fe := true; ff := true; fg := true; fh := false; fi := false |},
         {| alen := 1; single_ack := false; t_ack := 200; t_rep := 1000; t_ls := 5000 |},
         (sc_mk (sc_init 1) LS_AVAILABLE PLL_REQUEST_RESPOND false [] 1000 1000 false false true false false 2), 1300.
  split; [reflexivity|]. split; [reflexivity|]. vm_compute. split; reflexivity.
Qed.

(* a request for class 1 / class 2 data: toggles; its repetition is the same request (repaired code) *)
Theorem sc_request_new : forall v c now s,
  sc_ps s = PLL_AVAILABLE -> sc_test s = false -> sc_has s = false -> (sc_r1 s = true \/ sc_r2 s = true) ->
  let fcode := if sc_r1 s then 10 else 11 in
  let '(s', o) := sc_run v c now s in
  o = [OTx (enc_fixed (alen c) fcode (sc_addr s) true false (sc_nfcb s) true)] /\ sc_ps s' = PLL_REQUEST_RESPOND /\
  sc_nfcb s' = negb (sc_nfcb s) /\ sc_lastfc s' = fcode /\ sc_lastsend s' = now /\ sc_origsend s' = now /\ sc_addr s' = sc_addr s /\
  sc_r1 s' = false.
Proof.
  intros v c now s Hs Ht Hh Hr. unfold sc_run. rewrite Hs, Ht, Hh. unfold PLL_AVAILABLE, PLL_IDLE, PLL_REQ_STATUS, PLL_RESET, PLL_SEND_CONFIRM, PLL_TIMEOUT, PLL_REQUEST_RESPOND.
  cbn [Z.eqb Pos.eqb orb andb negb]. cbv beta iota.
  destruct (sc_r1 s) eqn:R1; cbn [orb]; cbv beta iota.
  - repeat split; reflexivity.
  - destruct Hr as [Hr | Hr]; [discriminate|]. rewrite Hr. cbv beta iota. repeat split; reflexivity.
Qed.

Theorem sc_request_repeat_identical : forall v c t0 t1 s, fc_ v = true ->
  sc_ps s = PLL_AVAILABLE -> sc_test s = false -> sc_has s = false -> (sc_r1 s = true \/ sc_r2 s = true) ->
  0 <= t_ack c -> t0 + t_ack c < t1 -> t1 <= t0 + t_rep c ->
  let '(s1, o1) := sc_run v c t0 s in let '(s2, o2) := sc_run v c t1 s1 in o2 = o1.
Proof.
  intros v c t0 t1 s Hv Hs Ht Hh Hr H0 H1 H2.
  pose proof (sc_request_new v c t0 s Hs Ht Hh Hr) as A. cbv zeta in A. destruct (sc_run v c t0 s) as [s1 o1].
  destruct A as (Ao & As & Af & Al & Als & Aos & Aa & _).
  unfold sc_run. rewrite As, Hv, Als, Aos, (clamp_le t0 t1 ltac:(lia)). unfold PLL_AVAILABLE, PLL_IDLE, PLL_REQ_STATUS, PLL_RESET, PLL_SEND_CONFIRM, PLL_TIMEOUT, PLL_REQUEST_RESPOND.
  settle. rewrite Ao, Al, Af, Aa, negb_involutive. reflexivity.
Qed.

(* the original code repeats a class 1 request as a class 2 request *)
Theorem sc_request_repeat_refuted : exists v c t0 t1 s,
  fc_ v = false /\ sc_ps s = PLL_AVAILABLE /\ sc_r1 s = true /\ t0 + t_ack c < t1 /\ t1 <= t0 + t_rep c /\
  let '(s1, o1) := sc_run v c t0 s in let '(s2, o2) := sc_run v c t1 s1 in
  o1 = [OTx (enc_fixed 1 10 1 true false true true)] /\ o2 = [OTx (enc_fixed 1 11 1 true false true true)].
Proof.
  exists {| fa := false; fb := false; fc_ := false; fd := false; fe := false; ff := false; fg := false; fh := false; fi := false |},
         {| alen := 1; single_ack := false; t_ack := 200; t_rep := 1000; t_ls := 5000 |}, 1000, 1250,
         (sc_mk (sc_init 1) LS_AVAILABLE PLL_AVAILABLE false [] 0 0 true false false false true 11).
  split; [reflexivity|]. split; [reflexivity|]. split; [reflexivity|]. split; [reflexivity|]. split; [discriminate|].
  vm_compute. split; reflexivity.
Qed.

Theorem sc_reset_fcb : forall v c now s, fa v = true -> sc_ps s = PLL_REQ_STATUS ->
  (forall acd address msg uds udl, sc_nfcb (fst (sc_handle v c now s 11 acd false address msg uds udl)) = true) /\
  (sc_wait s = false -> sc_nfcb (fst (sc_run v c now s)) = true).
Proof.
  intros v c now s Hv Hs. split.
  - intros acd address msg uds udl. unfold sc_handle. rewrite Hv.
    replace (sc_ps (if acd then sc_with_r s true (sc_r2 s) else s)) with (sc_ps s) by (destruct acd; reflexivity).
    rewrite Hs. unfold PLL_REQ_STATUS. cbn [Z.eqb Pos.eqb orb andb negb]. cbv beta iota.
    unfold sc_set_state. destruct acd; cbn [sc_ls sc_mk sc_with_r];
      match goal with |- context [if ?b then _ else _] => destruct b end; reflexivity.
  - intros Hw. unfold sc_run. rewrite Hs, Hw. reflexivity.
Qed.

Theorem sc_reset_fcb_refuted : exists v c now s,
  fa v = false /\ sc_ps s = PLL_REQ_STATUS /\ sc_nfcb (fst (sc_handle v c now s 11 false false 1 [] 0 0)) = false /\
  In (OTx (reset_frame c 1 false)) (snd (sc_handle v c now s 11 false false 1 [] 0 0)).
Proof.
  exists {| fa := false; fb := false; fc_ := false; fd := false; fe := false; ff := false; fg := false; fh := false; fi := false |},
         {| alen := 1; single_ack := false; t_ack := 200; t_rep := 1000; t_ls := 5000 |}, 1000,
         (sc_mk (sc_init 1) LS_ERROR PLL_REQ_STATUS false [] 1000 0 false false true false false 11).
  vm_compute. repeat split; try reflexivity. left. reflexivity.
Qed.
