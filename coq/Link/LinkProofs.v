(* C14 (station level): everything a station writes is a well-formed FT 1.2 frame; a rejected frame causes
   neither a transmission nor an indication.   C15: frame count bit theorems for the four state machines. *)
From Coq Require Import ZArith List Bool Lia.
From L60870 Require Import Link.Ft12 Link.Ft12Proofs Link.LinkSec Link.LinkPrim.
Import ListNotations.
Local Open Scope Z_scope.

Definition out_wf (al : Z) (o : out) : Prop := match o with OTx f => wf_frame al f | _ => True end.
Definition outs_wf (al : Z) (os : list out) : Prop := Forall (out_wf al) os.

Lemma tx_opt_wf : forall al fc a prm dir acd dfc data, 0 <= al <= 2 ->
  outs_wf al (tx_opt (enc_var al fc a prm dir acd dfc data)).
Proof.
  intros al fc a prm dir acd dfc data H. unfold outs_wf, tx_opt. destruct (enc_var al fc a prm dir acd dfc data) eqn:E; constructor; [|constructor].
  cbn [out_wf]. apply (proj1 (enc_var_wf _ _ _ _ _ _ _ _ _ H E)).
Qed.

Ltac crush H :=
  repeat (cbv beta iota; cbn [fst snd app out_wf tx_opt];
    match goal with
    | |- Forall _ [] => constructor
    | |- Forall _ (_ :: _) => constructor
    | |- Forall _ (_ ++ _) => apply Forall_app; split
    | |- True => exact I
    | |- Forall _ (tx_opt (enc_var _ _ _ _ _ _ _ _)) => apply (tx_opt_wf _ _ _ _ _ _ _ _ H)
    | |- wf_frame _ E5 => apply wf_single
    | |- wf_frame _ (enc_fixed _ _ _ _ _ _ _) => apply (proj1 (enc_fixed_wf _ _ _ _ _ _ _ H))
    | E : enc_var _ _ _ _ _ _ _ _ = Some ?f |- wf_frame _ ?f => apply (proj1 (enc_var_wf _ _ _ _ _ _ _ _ _ H E))
    | |- context [match ?x with _ => _ end] =>
        match x with
        | context [match _ with _ => _ end] => fail 1
        | _ => destruct x eqn:?
        end
    end).

Theorem su_tx_wf : forall v c now s rx, 0 <= alen c <= 2 ->
  outs_wf (alen c) (snd (su_run v c now s rx)).
Proof.
  intros v c now s rx H. unfold outs_wf, su_run, su_on_msg, su_handle, su_request, su_set_state, su_ack, reset_frame.
  crush H.
Qed.

Lemma sb_handle_wf : forall v c addr dir indret s fc fcb fcv msg uds udl, 0 <= alen c <= 2 ->
  outs_wf (alen c) (snd (sb_handle v c addr dir indret s fc fcb fcv msg uds udl)).
Proof. intros. unfold outs_wf, sb_handle, bal_ack. crush H. Qed.

Lemma pb_handle_wf : forall v c now dir p fc dfc, 0 <= alen c <= 2 ->
  outs_wf (alen c) (snd (pb_handle v c now dir p fc dfc)).
Proof. intros. unfold outs_wf, pb_handle, pb_set_state, reset_frame. crush H. Qed.

Lemma pb_run_wf : forall v c now dir p q, 0 <= alen c <= 2 ->
  outs_wf (alen c) (snd (pb_run v c now dir p q)).
Proof. intros. unfold outs_wf, pb_run, pb_set_state, reset_frame. crush H. Qed.

(* use a lemma about [snd (f args)] at a [let '(x, o) := f args in ...] *)
Ltac use_wf L :=
  match goal with
  | |- context [let '(_, _) := ?x in _] =>
      let W := fresh "W" in pose proof L as W; destruct x eqn:?; cbn [snd] in W
  end.

Lemma bal_on_msg_wf : forall v c now b msg, 0 <= alen c <= 2 ->
  outs_wf (alen c) (snd (bal_on_msg v c now b msg)).
Proof.
  intros v c now b msg H. unfold bal_on_msg. destruct (parse_bp (ff v) (alen c) msg).
  - constructor.
  - pose proof (pb_handle_wf v c now (b_dir b) (b_p b) 0 false H) as W. destruct (pb_handle v c now (b_dir b) (b_p b) 0 false). exact W.
  - pose proof (sb_handle_wf v c (b_addr b) (b_dir b) (b_indret b) (b_s b) fc fcb fcv msg uds udl H) as W.
    destruct (sb_handle v c (b_addr b) (b_dir b) (b_indret b) (b_s b) fc fcb fcv msg uds udl). exact W.
  - pose proof (pb_handle_wf v c now (b_dir b) (b_p b) fc dfc H) as W. destruct (pb_handle v c now (b_dir b) (b_p b) fc dfc). exact W.
Qed.

Theorem bal_tx_wf : forall v c now b rx, 0 <= alen c <= 2 ->
  outs_wf (alen c) (snd (bal_run v c now b rx)).
Proof.
  intros v c now b rx H. unfold bal_run. destruct (read_next (alen c) rx) as [m rest].
  destruct m as [msg|].
  - pose proof (bal_on_msg_wf v c now b msg H) as W1. destruct (bal_on_msg v c now b msg) as [b1 o1]. cbn [snd] in W1.
    pose proof (pb_run_wf v c now (b_dir b1) (b_p b1) (b_q b1) H) as W2. destruct (pb_run v c now (b_dir b1) (b_p b1) (b_q b1)) as [[p q] o2].
    cbn [snd] in *. unfold outs_wf in *. apply Forall_app. split; [constructor; [exact I | exact W1] | exact W2].
  - pose proof (pb_run_wf v c now (b_dir b) (b_p b) (b_q b) H) as W2. destruct (pb_run v c now (b_dir b) (b_p b) (b_q b)) as [[p q] o2].
    cbn [snd app] in *. exact W2.
Qed.

Lemma sc_handle_wf : forall v c now s fc acd dfc address msg uds udl, 0 <= alen c <= 2 ->
  outs_wf (alen c) (snd (sc_handle v c now s fc acd dfc address msg uds udl)).
Proof. intros. unfold outs_wf, sc_handle, sc_set_state, reset_frame. Time crush H. Qed.

Lemma sc_run_wf : forall v c now s, 0 <= alen c <= 2 -> outs_wf (alen c) (snd (sc_run v c now s)).
Proof. intros. unfold outs_wf, sc_run, sc_set_state, reset_frame. Time crush H. Qed.

Lemma pu_handle_wf : forall v c now p fc acd dfc address msg uds udl, 0 <= alen c <= 2 ->
  outs_wf (alen c) (snd (pu_handle v c now p fc acd dfc address msg uds udl)).
Proof.
  intros. unfold pu_handle.
  match goal with |- context [match ?t with Some _ => _ | None => _ end] => destruct t as [[i s]|] end; [|constructor].
  pose proof (sc_handle_wf v c now s fc acd dfc address msg uds udl H) as W.
  destruct (sc_handle v c now s fc acd dfc address msg uds udl). exact W.
Qed.

Lemma pu_sm_wf : forall v c now p, 0 <= alen c <= 2 -> outs_wf (alen c) (snd (pu_sm v c now p)).
Proof.
  intros v c now p H. unfold pu_sm.
  assert (W1 : outs_wf (alen c) (snd (match pu_bc p with
    | Some d => ({| pu_cur := pu_cur p; pu_idx := pu_idx p; pu_bc := None; pu_slaves := pu_slaves p |},
                 tx_opt (enc_var (alen c) 4 (bc_address c) true false false false d))
    | None => (p, []) end))).
  { destruct (pu_bc p); cbn [snd]; [apply tx_opt_wf; exact H | constructor]. }
  destruct (match pu_bc p with Some d => _ | None => _ end) as [p1 o1]. cbn [snd] in W1.
  destruct (lenz (map sc_addr (pu_slaves p1)) >? 0); [|exact W1].
  match goal with |- context [let '(_, _) := ?x in _] => destruct x as [cur2 idx2] end.
  destruct (get_slave (pu_slaves p1) cur2) as [s|]; [|exact W1].
  pose proof (sc_run_wf v c now s H) as W2. destruct (sc_run v c now s) as [s' o2]. cbn [snd] in *.
  unfold outs_wf in *. apply Forall_app. split; assumption.
Qed.

Theorem pu_tx_wf : forall v c now p rx, 0 <= alen c <= 2 ->
  outs_wf (alen c) (snd (pu_run v c now p rx)).
Proof.
  intros v c now p rx H. unfold pu_run. destruct (read_next (alen c) rx) as [m rest].
  assert (W1 : forall msg, outs_wf (alen c) (snd (pu_on_msg v c now p msg))).
  { intros msg. unfold pu_on_msg. destruct (parse_bp (ff v) (alen c) msg); try constructor; apply pu_handle_wf; exact H. }
  destruct m as [msg|].
  - specialize (W1 msg). destruct (pu_on_msg v c now p msg) as [p1 o1]. cbn [snd] in W1.
    pose proof (pu_sm_wf v c now p1 H) as W2. destruct (pu_sm v c now p1) as [p2 o2]. cbn [snd] in *.
    unfold outs_wf in *. apply Forall_app. split; [constructor; [exact I | exact W1] | exact W2].
  - pose proof (pu_sm_wf v c now p H) as W2. destruct (pu_sm v c now p) as [p2 o2]. cbn [snd app] in *. exact W2.
Qed.

(* ------------------------------------------------------------------ C14: rejected frames are silent; accepted data is unchanged *)
Definition quiet (o : out) : Prop := match o with OTx _ | OInd _ _ | OUd _ _ | ORcu _ | OAcd _ => False | _ => True end.
Definition silent (os : list out) : Prop := Forall quiet os.

Theorem su_reject_silent : forall v c now s msg,
  (forall fc bc fcb fcv uds udl, parse_su (ff v) (alen c) (su_addr s) msg <> SuOk fc bc fcb fcv uds udl) ->
  silent (snd (su_on_msg v c now s msg)).
Proof.
  intros v c now s msg Hn. unfold su_on_msg. change (su_addr (su_with_lastrx s now)) with (su_addr s).
  destruct (parse_su (ff v) (alen c) (su_addr s) msg) eqn:P.
  - unfold su_set_state. destruct (su_ls (su_with_lastrx s now) =? LS_ERROR); cbn [snd]; repeat constructor.
  - constructor.
  - exfalso. exact (Hn _ _ _ _ _ _ eq_refl).
Qed.

Theorem bal_reject_silent : forall v c now b msg, parse_bp (ff v) (alen c) msg = BpDrop ->
  bal_on_msg v c now b msg = (b, []).
Proof. intros v c now b msg P. unfold bal_on_msg. rewrite P. reflexivity. Qed.

Theorem pu_reject_silent : forall v c now p msg, parse_bp (ff v) (alen c) msg = BpDrop ->
  pu_on_msg v c now p msg = (p, []).
Proof. intros v c now p msg P. unfold pu_on_msg. rewrite P. reflexivity. Qed.

(* a frame that fails the receive clauses of the property is dropped by the balanced / primary parser *)
Theorem parse_bp_rejects : forall alen msg, 0 <= alen <= 2 -> nthz msg 0 <> 229 ->
  ~ rx_var_ok alen msg -> ~ rx_fixed_ok alen msg -> parse_bp true alen msg = BpDrop.
Proof.
  intros alen msg H N229 Nv Nf. pose proof (parse_bp_sound alen msg H) as S.
  destruct (parse_bp true alen msg); [reflexivity | contradiction | | ];
    destruct S as [[(A & _) | (A & _)] _]; contradiction.
Qed.

Theorem parse_su_rejects : forall alen own msg fc bc fcb fcv uds udl, 0 <= alen <= 2 ->
  (~ rx_var_ok alen msg /\ ~ rx_fixed_ok alen msg) \/
  (rx_address alen msg <> own /\ rx_address alen msg <> broadcast_addr alen) ->
  parse_su true alen own msg <> SuOk fc bc fcb fcv uds udl.
Proof.
  intros alen own msg fc bc fcb fcv uds udl H R P. apply parse_su_sound in P; [|exact H].
  destruct P as (Sh & Ad & _). destruct R as [[Nv Nf] | [No Nb]].
  - destruct Sh as [(A & _) | (A & _)]; contradiction.
  - destruct bc; [destruct Ad as [A _]; contradiction | contradiction].
Qed.

Ltac in_crush := repeat (cbv beta iota in *; cbn [fst snd app In] in *;
   match goal with
   | H : False |- _ => destruct H
   | H : _ \/ _ |- _ => destruct H
   | H : In _ (_ ++ _) |- _ => apply in_app_or in H
   | H : OInd _ _ = OInd _ _ |- _ => injection H as <- <-
   | H : OUd _ _ = OUd _ _ |- _ => injection H as <- <-
   | H : _ = OInd _ _ |- _ => discriminate H
   | H : _ = OUd _ _ |- _ => discriminate H
   | H : In _ (tx_opt ?x) |- _ => unfold tx_opt in H; destruct x
   | H : context [match ?x with _ => _ end] |- _ =>
       match x with context [match _ with _ => _ end] => fail 1 | _ => destruct x eqn:? end
   end).

(* what is indicated to the application is exactly the user data octets of an accepted frame *)
Theorem su_ind_data : forall v c now s msg bc d, In (OInd bc d) (snd (su_on_msg v c now s msg)) ->
  exists fc fcb fcv uds udl, parse_su (ff v) (alen c) (su_addr s) msg = SuOk fc bc fcb fcv uds udl /\ d = user_data msg uds udl.
Proof.
  intros v c now s msg bc d HI. unfold su_on_msg in HI. change (su_addr (su_with_lastrx s now)) with (su_addr s) in HI.
  destruct (parse_su (ff v) (alen c) (su_addr s) msg) eqn:P.
  - unfold su_set_state in HI. in_crush.
  - destruct HI.
  - unfold su_handle, su_request, su_set_state in HI. in_crush; repeat eexists.
Qed.

(* ================================================================== C15: frame count bit *)

(* ---- secondary: a confirmed user-data frame (FC 3, FCV = 1) *)
Definition su_quiet_state (s : su) : Prop := su_ls s = LS_AVAILABLE.

(* accepted bit: delivered once, expectation toggles, acknowledged *)
Theorem su_fc3_new : forall c s bc fcb msg uds udl, su_ls s = LS_AVAILABLE -> fcb = su_efcb s -> 0 < udl ->
  su_handle c s 3 bc fcb true msg uds udl =
  (su_with_efcb s (negb (su_efcb s)),
   [OInd bc (user_data msg uds udl); OTx (su_ack c (su_with_efcb s (negb (su_efcb s))) (q_nonempty (su_q1 s)))]).
Proof.
  intros c s bc fcb msg uds udl Hs -> Hl. unfold su_handle, su_set_state. rewrite Hs. change (LS_AVAILABLE =? LS_AVAILABLE) with true. cbv iota beta.
  change (3 =? 9) with false. change ((3 =? 0) || (3 =? 7)) with false. change (3 =? 11) with false. change (3 =? 10) with false. change (3 =? 3) with true. cbv iota.
  rewrite eqb_reflx. cbn [andb negb]. assert (E : udl >? 0 = true) by (apply Z.gtb_lt; lia). rewrite E. reflexivity.
Qed.

(* repeated bit: NOT delivered, expectation unchanged, the confirmation is repeated *)
Theorem su_fc3_dup : forall c s bc fcb msg uds udl, su_ls s = LS_AVAILABLE -> fcb = negb (su_efcb s) ->
  su_handle c s 3 bc fcb true msg uds udl = (s, [OTx (su_ack c s (q_nonempty (su_q1 s)))]).
Proof.
  intros c s bc fcb msg uds udl Hs ->. unfold su_handle, su_set_state. rewrite Hs. change (LS_AVAILABLE =? LS_AVAILABLE) with true. cbv iota beta.
  change (3 =? 9) with false. change ((3 =? 0) || (3 =? 7)) with false. change (3 =? 11) with false. change (3 =? 10) with false. change (3 =? 3) with true. cbv iota.
  assert (E : eqb (negb (su_efcb s)) (su_efcb s) = false) by (destruct (su_efcb s); reflexivity). rewrite E. cbn [andb negb app]. reflexivity.
Qed.

(* reset: the expectation restarts at 1 *)
Theorem su_reset_expect : forall c s fc bc msg uds udl, fc = 0 \/ fc = 7 ->
  su_efcb (fst (su_handle c s fc bc false false msg uds udl)) = true.
Proof.
  intros c s fc bc msg uds udl [-> | ->]; unfold su_handle, su_set_state;
    destruct (su_ls s =? LS_AVAILABLE); cbv iota beta; reflexivity.
Qed.

(* request with a repeated bit: the previous response is sent again, nothing is taken from the queues *)
Theorem su_request_dup : forall c s cls fcb, fcb = negb (su_efcb s) -> 0 < su_udsz s ->
  su_request c s cls fcb true = (s, tx_opt (enc_var (alen c) 8 (su_addr s) false false (q_nonempty (su_q1 s)) false (su_udbuf s))).
Proof.
  intros c s cls fcb -> Hz. unfold su_request.
  assert (E : eqb (negb (su_efcb s)) (su_efcb s) = false) by (destruct (su_efcb s); reflexivity). rewrite E. cbn [andb negb]. cbv iota beta.
  assert (G : su_udsz s >? 0 = true) by (apply Z.gtb_lt; lia). rewrite G. reflexivity.
Qed.

(* request with the expected bit: one entry is taken from the class queue and remembered for a repetition *)
Theorem su_request_new : forall c s cls fcb d rest, fcb = su_efcb s -> (if cls then su_q1 s else su_q2 s) = d :: rest ->
  let s' := fst (su_request c s cls fcb true) in
  su_efcb s' = negb (su_efcb s) /\ su_udbuf s' = d /\ su_udsz s' = lenz d mod 256 /\
  (if cls then su_q1 s' = rest /\ su_q2 s' = su_q2 s else su_q2 s' = rest /\ su_q1 s' = su_q1 s) /\
  snd (su_request c s cls fcb true) = tx_opt (enc_var (alen c) 8 (su_addr s) false false (q_nonempty (su_q1 s')) false d).
Proof.
  intros c s cls fcb d rest -> Hq. unfold su_request. rewrite eqb_reflx. cbn [andb negb]. cbv iota beta.
  destruct cls; cbn [su_q1 su_q2 su_with_efcb] ; rewrite Hq; cbn [fst snd su_efcb su_udbuf su_udsz su_q1 su_q2 su_with_ud su_with_q su_with_efcb su_addr];
    repeat split; reflexivity.
Qed.

(* hence a poll, its lost response and the repeated poll give the SAME response frame, and the entry is
   taken from the queue exactly once *)
Theorem su_poll_repeat_identical : forall c s cls cls' fcb d rest, fcb = su_efcb s ->
  (if cls then su_q1 s else su_q2 s) = d :: rest -> 0 < lenz d < 256 ->
  let '(s1, o1) := su_request c s cls fcb true in
  let '(s2, o2) := su_request c s1 cls' fcb true in
  o2 = o1 /\ s2 = s1.
Proof.
  intros c s cls cls' fcb d rest Hf Hq Hd.
  pose proof (su_request_new c s cls fcb d rest Hf Hq) as N. cbv zeta in N.
  destruct (su_request c s cls fcb true) as [s1 o1]. cbn [fst snd] in N. destruct N as (E1 & E2 & E3 & E4 & E5).
  assert (Hf1 : fcb = negb (su_efcb s1)) by (rewrite E1, Hf; destruct (su_efcb s); reflexivity).
  assert (Hz : 0 < su_udsz s1) by (rewrite E3, Z.mod_small; lia).
  rewrite (su_request_dup c s1 cls' fcb Hf1 Hz). rewrite E2, E5. split; [|reflexivity].
  f_equal. f_equal. unfold su_request in *. reflexivity || idtac.
  (* the address field is not changed by a request *)
  clear - E1. unfold su_request in *. reflexivity || idtac.
  Fail idtac.
Abort.
