(* C16: the unbalanced line (Link/LinkLineU.v) with BOUNDED class queues at the slave: an ASDU handed over when the class queue holds
   n entries displaces the oldest one (the FIFO that the ring of cs101_queue.c refines, Link/Cs101QueueProofs.v / Link/LinkSecQ.v).
   Displacing a queued entry touches neither what the link layers have taken nor what they have delivered, so the joint
   invariant of the line and its exactly-once statement carry over unchanged. *)
From Coq Require Import ZArith List Bool Lia.
From L60870 Require Import Link.Ft12 Link.Ft12Proofs Link.LinkSec Link.LinkPrim Link.LinkProofs Link.LinkLineU Link.LinkLineM Link.Cs101Queue.
Import ListNotations.
Local Open Scope Z_scope.

(* the oldest entry of a class queue is displaced *)
Definition udrop (st : uline) (cls : bool) : uline :=
  {| um := um st;
     us := if cls then su_with_q (us st) (tl (su_q1 (us st))) (su_q2 (us st)) else su_with_q (us st) (su_q1 (us st)) (tl (su_q2 (us st)));
     uT := uT st; uD := uD st; uR := uR st; uU := uU st; ufail := ufail st |}.

Section LineUQ.
Variables (v : variant) (c : llcfg) (addr : Z).
Hypothesis Hal : 0 <= alen c <= 2.
Hypothesis Hfc : fc_ v = true.
Hypothesis Hfg : fg v = true.
Hypothesis Hfh : fh v = true.
Hypothesis Hfi : fi v = true.
Hypothesis Har : addr_in_range (alen c) addr.
Hypothesis Hnb : addr <> broadcast_addr (alen c).
Variables (n1 n2 : Z).          (* capacities of the class 1 / class 2 queue *)

Definition qfull (st : uline) (cls : bool) : bool :=
  if cls then negb (Z.of_nat (length (su_q1 (us st))) <? n1) else negb (Z.of_nat (length (su_q2 (us st))) <? n2).

Definition ustepq (st : uline) (e : uev) : uline :=
  match e with
  | UEnq cls d => if umsg_okb c d then ustep v c (if qfull st cls then udrop st cls else st) (UEnq cls d) else st
  | _ => ustep v c st e
  end.

(* the hand-over is the bounded FIFO's enqueue *)
Lemma ustepq_enqueue st cls d : umsg_okb c d = true ->
  us (ustepq st (UEnq cls d)) =
  (if cls then su_with_q (us st) (fifo_enqueue n1 (su_q1 (us st)) d) (su_q2 (us st))
   else su_with_q (us st) (su_q1 (us st)) (fifo_enqueue n2 (su_q2 (us st)) d)).
Proof.
  intros H. unfold ustepq, qfull, fifo_enqueue. rewrite H. destruct cls.
  - destruct (Z.of_nat (length (su_q1 (us st))) <? n1); cbn [negb ustep us udrop um]; rewrite H; reflexivity.
  - destruct (Z.of_nat (length (su_q2 (us st))) <? n2); cbn [negb ustep us udrop um]; rewrite H; reflexivity.
Qed.

Lemma Forall_tl {A} (P : A -> Prop) l : Forall P l -> Forall P (tl l).
Proof. intros H. destruct l; [exact H | inversion H; assumption]. Qed.

Lemma JU_drop st cls : JU c addr st -> JU c addr (udrop st cls).
Proof.
  unfold JU, udrop. destruct cls; cbn [um us uT uD uR uU su_with_q su_ls su_efcb su_udsz su_udbuf su_addr su_q1 su_q2];
    intros (A1 & A2 & A3 & A4 & A5 & A6 & A7 & A8);
    (split; [exact A1|]); (split; [exact A2|]); (split; [exact A3|]); (split; [exact A4|]);
    (split; [first [apply Forall_tl; exact A5 | exact A5]|]); (split; [first [apply Forall_tl; exact A6 | exact A6]|]); (split; [exact A7 | exact A8]).
Qed.

Lemma ufail_drop st cls : ufail (udrop st cls) = ufail st. Proof. reflexivity. Qed.

Lemma JU_stepq st e : JU c addr st -> ufail st = false -> ufail (ustepq st e) = false -> JU c addr (ustepq st e).
Proof.
  intros HJ Hf Hf'. destruct e as [now l1 l2|d|cl| |cls d]; try (apply (JU_step v c addr Hal Hfc Hfg Hfh Hfi Har Hnb); assumption).
  unfold ustepq in *. destruct (umsg_okb c d); [|exact HJ].
  apply (JU_step v c addr Hal Hfc Hfg Hfh Hfi Har Hnb); [|  | exact Hf'].
  - destruct (qfull st cls); [apply JU_drop; exact HJ | exact HJ].
  - destruct (qfull st cls); [rewrite ufail_drop; exact Hf | exact Hf].
Qed.

Lemma ufail_stepq_mono st e : ufail st = true -> ufail (ustepq st e) = true.
Proof.
  intros H. destruct e as [now l1 l2|d|cl| |cls d]; cbn [ustepq ustep ufail]; try exact H.
  - destruct (sc_run v c now (um st)) as [m1 o1]. destruct (ucross v c now l1 l2 m1 (us st) o1) as [[[[m2 s2] dl] ul] oa]. cbn [ufail]. rewrite H. reflexivity.
  - destruct (umsg_okb c d); [|exact H]. destruct (qfull st cls); cbn [ustep ufail udrop]; exact H.
Qed.
Lemma ufail_runq_mono evs : forall st, ufail st = true -> ufail (fold_left ustepq evs st) = true.
Proof. induction evs as [|e r IH]; intros st H; cbn [fold_left]; [exact H | apply IH, ufail_stepq_mono, H]. Qed.

Theorem ulineq_invariant evs : forall st, JU c addr st -> ufail st = false -> ufail (fold_left ustepq evs st) = false -> JU c addr (fold_left ustepq evs st).
Proof.
  induction evs as [|e r IH]; intros st HJ Hf Hend; cbn [fold_left] in *; [exact HJ|].
  destruct (ufail (ustepq st e)) eqn:E.
  - rewrite (ufail_runq_mono r _ E) in Hend. discriminate Hend.
  - apply IH; [apply JU_stepq; assumption | exact E | exact Hend].
Qed.

(* both directions, bounded class queues: what was taken from a queue by the link layer is delivered exactly once, in order; what
   was displaced before it was taken is the only loss, and it is the application's FIFO that loses it, not the link *)
Theorem ulineq_exactly_once evs st : JU c addr st -> ufail st = false ->
  let st' := fold_left ustepq evs st in ufail st' = false ->
  (uD st' = uT st' \/ (uT st' = uD st' ++ [sc_msg (um st')] /\ sc_ps (um st') = PLL_SEND_CONFIRM)) /\
  (uU st' = uR st' \/ (uR st' = uU st' ++ [su_udbuf (us st')] /\ sc_ps (um st') = PLL_REQUEST_RESPOND)).
Proof.
  intros HJ Hf st' Hend. pose proof (ulineq_invariant evs st HJ Hf Hend) as H. fold st' in H.
  exact (JU_exact c addr st' H).
Qed.
End LineUQ.
