(* C16: the balanced line with frames IN TRANSIT.  Same stations as Link/LinkLine.v (literal pb_run / pb_handle of station A, literal
   sb_handle of station B, octets parsed with the literal parse_bp), but a frame written by A stays on the line until a later event
   delivers it to B or loses it, and likewise B's answer: runs of A, deliveries and losses interleave in any order.
   SEND/CONFIRM with an unnumbered acknowledgement tolerates delay only up to its timing assumption (IEC 60870-5-2: the
   acknowledgement timeout is longer than the round trip, so a repetition is never sent while the frame or its answer is still in
   transit).  That assumption is the flag `dtim`: it is raised when A transmits while something is in transit; the theorem is about
   histories in which it stays down. *)
From Coq Require Import ZArith List Bool Lia.
From L60870 Require Import Link.Ft12 Link.Ft12Proofs Link.Ft12Bp Link.LinkSec Link.LinkPrim Link.LinkProofs Link.LinkLine.
Import ListNotations.
Local Open Scope Z_scope.

Section LineD.
Variables (v : variant) (c : llcfg).
Variables (addrB : Z) (dirA dirB : bool).
Hypothesis Hal : 0 <= alen c <= 2.
Hypothesis Hfb : fb v = true.
Hypothesis Hfg : fg v = true.
Hypothesis HaB : addr_in_range (alen c) addrB.

Record dline := { dp : pb; dq : list (list Z); dsb : sb; dT : list (list Z); dD : list (list Z);
                  dAB : option (list Z); dBA : option (list Z); dfail : bool; dtim : bool }.

Inductive dev :=
| DRun (now : Z)       (* A's station runs *)
| DToB                 (* the frame in transit reaches B *)
| DToA (now : Z)       (* B's answer in transit reaches A *)
| DLoseAB | DLoseBA    (* what is in transit is lost *)
| DTouch (now : Z) | DTest | DEnq (d : list Z).

Definition first_frame (o : list out) : option (list Z) := match frames o with f :: _ => Some f | [] => None end.
Definition occupied (st : dline) : bool := match dAB st, dBA st with None, None => false | _, _ => true end.

Definition dstep (st : dline) (e : dev) : dline :=
  match e with
  | DRun now =>
      let '(p1, q1, o1) := pb_run v c now dirA (dp st) (dq st) in
      match first_frame o1 with
      | Some f => {| dp := p1; dq := q1; dsb := dsb st; dT := dT st ++ dequeued (dq st) q1; dD := dD st; dAB := Some f; dBA := dBA st;
                     dfail := dfail st || reports_error o1; dtim := dtim st || occupied st |}
      | None => {| dp := p1; dq := q1; dsb := dsb st; dT := dT st ++ dequeued (dq st) q1; dD := dD st; dAB := dAB st; dBA := dBA st;
                   dfail := dfail st || reports_error o1; dtim := dtim st |}
      end
  | DToB =>
      match dAB st with
      | Some f => let '(s1, ob) := b_recv v c addrB dirB (dsb st) f in
                  {| dp := dp st; dq := dq st; dsb := s1; dT := dT st; dD := dD st ++ inds ob; dAB := None;
                     dBA := match first_frame ob with Some a => Some a | None => dBA st end; dfail := dfail st;
                     dtim := dtim st || (match first_frame ob, dBA st with Some _, Some _ => true | _, _ => false end) |}
      | None => st
      end
  | DToA now =>
      match dBA st with
      | Some a => let '(p2, oa) := a_recv v c dirA now (dp st) a in
                  {| dp := p2; dq := dq st; dsb := dsb st; dT := dT st; dD := dD st; dAB := dAB st; dBA := None;
                     dfail := dfail st || reports_error oa; dtim := dtim st |}
      | None => st
      end
  | DLoseAB => {| dp := dp st; dq := dq st; dsb := dsb st; dT := dT st; dD := dD st; dAB := None; dBA := dBA st; dfail := dfail st; dtim := dtim st |}
  | DLoseBA => {| dp := dp st; dq := dq st; dsb := dsb st; dT := dT st; dD := dD st; dAB := dAB st; dBA := None; dfail := dfail st; dtim := dtim st |}
  | DTouch now => {| dp := pb_with_lastrx (dp st) now; dq := dq st; dsb := dsb st; dT := dT st; dD := dD st; dAB := dAB st; dBA := dBA st; dfail := dfail st; dtim := dtim st |}
  | DTest => {| dp := pb_with_test (dp st) true; dq := dq st; dsb := dsb st; dT := dT st; dD := dD st; dAB := dAB st; dBA := dBA st; dfail := dfail st; dtim := dtim st |}
  | DEnq d => {| dp := dp st; dq := if msg_okb c d then dq st ++ [d] else dq st; dsb := dsb st; dT := dT st; dD := dD st; dAB := dAB st; dBA := dBA st;
                 dfail := dfail st; dtim := dtim st |}
  end.

(* the frame A is waiting to have confirmed *)
Definition outstanding (p : pb) : option (list Z) :=
  if pb_tout p then Some (enc_fixed (alen c) 2 (pb_other p) true dirA (negb (pb_nfcb p)) true)
  else enc_var (alen c) 3 (pb_other p) true dirA (negb (pb_nfcb p)) true (pb_last p).

(* where things are while A waits: the frame on its way (B1), nothing on the line (B2), the acknowledgement on its way (B3) *)
Definition transit_ok (st : dline) : Prop :=
  (dAB st = outstanding (dp st) /\ dAB st <> None /\ dBA st = None) \/
  (dAB st = None /\ dBA st = None) \/
  (dAB st = None /\ dBA st = Some (bal_ack c addrB dirB) /\ sb_efcb (dsb st) = pb_nfcb (dp st)).

Definition JD (st : dline) : Prop :=
  let p := dp st in let s := dsb st in
  pb_ls p = LS_AVAILABLE /\ Forall (msg_ok c) (dq st) /\
  ((pb_ps p = PLL_AVAILABLE /\ pb_nfcb p = sb_efcb s /\ dD st = dT st /\ dAB st = None /\ dBA st = None) \/
   (pb_ps p = PLL_SEND_CONFIRM /\ pb_tout p = true /\ dD st = dT st /\ transit_ok st) \/
   (pb_ps p = PLL_SEND_CONFIRM /\ pb_tout p = false /\ msg_ok c (pb_last p) /\ transit_ok st /\
      exists pre, dT st = pre ++ [pb_last p] /\
        ((sb_efcb s = negb (pb_nfcb p) /\ dD st = pre) \/ (sb_efcb s = pb_nfcb p /\ dD st = pre ++ [pb_last p])))).

Ltac dns := cbn [dp dq dsb dT dD dAB dBA dfail dtim].
Ltac pbs := cbn [pb_ps pb_nfcb pb_ls pb_last pb_other pb_tout pb_test pb_wait pb_lastsend pb_origsend pb_lastrx pb_idle
                 pb_upd pb_with_ps pb_with_wait pb_with_test pb_with_lastrx pb_with_tout sb_efcb fst snd].
Ltac dns_in H := cbn [dp dq dsb dT dD dAB dBA dfail dtim] in H.
Ltac pbs_in H := cbn [pb_ps pb_nfcb pb_ls pb_last pb_other pb_tout pb_test pb_wait pb_lastsend pb_origsend pb_lastrx pb_idle sb_efcb] in H.
Ltac fr := cbn [frames inds flat_map app reports_error existsb orb first_frame].

Definition PB (ps : Z) (x3 : bool) (x4 x5 : Z) (x6 x7 : bool) (x8 : Z) (x9 : list Z) (x10 x11 : Z) (x12 : bool) : pb :=
  {| pb_ls := LS_AVAILABLE; pb_ps := ps; pb_wait := x3; pb_lastsend := x4; pb_origsend := x5; pb_test := x6; pb_nfcb := x7;
     pb_other := x8; pb_last := x9; pb_lastrx := x10; pb_idle := x11; pb_tout := x12 |}.

Lemma negb_neq (b : bool) : b = negb b -> False. Proof. destruct b; discriminate. Qed.

(* ---- A runs *)
Lemma JD_run_available x3 x4 x5 x6 x7 x8 x9 x10 x11 x12 q T now :
  let st := {| dp := PB PLL_AVAILABLE x3 x4 x5 x6 x7 x8 x9 x10 x11 x12; dq := q; dsb := {| sb_efcb := x7 |}; dT := T; dD := T;
              dAB := None; dBA := None; dfail := false; dtim := false |} in
  Forall (msg_ok c) q -> JD (dstep st (DRun now)).
Proof.
  intros st Hq. unfold st, dstep, PB. dns. unfold pb_run. pbs. rewrite Hfg.
  unfold PLL_AVAILABLE, PLL_IDLE, PLL_REQ_STATUS, PLL_RESET, PLL_SEND_CONFIRM. cbn [Z.eqb Pos.eqb negb].
  set (lr := clamp x10 now).
  assert (TEST : JD {| dp := {| pb_ls := LS_AVAILABLE; pb_ps := 4; pb_wait := x3; pb_lastsend := now; pb_origsend := now; pb_test := false; pb_nfcb := negb x7;
                                pb_other := x8; pb_last := x9; pb_lastrx := lr; pb_idle := x11; pb_tout := true |};
                       dq := q; dsb := {| sb_efcb := x7 |}; dT := T ++ dequeued q q; dD := T;
                       dAB := Some (enc_fixed (alen c) 2 x8 true dirA x7 true); dBA := None; dfail := false || false; dtim := false || false |}).
  { unfold JD. dns. pbs. rewrite dequeued_same, app_nil_r. split; [reflexivity|]. split; [exact Hq|]. right; left.
    split; [reflexivity|]. split; [reflexivity|]. split; [reflexivity|]. left. unfold outstanding. dns. pbs. rewrite negb_involutive.
    split; [reflexivity|]. split; [discriminate | reflexivity]. }
  destruct (now - lr >? x11) eqn:Ei.
  { cbn [negb]. fr. unfold occupied. dns. exact TEST. }
  destruct x6.
  { cbn [negb]. fr. unfold occupied. dns. exact TEST. }
  destruct q as [|d rest].
  - fr. unfold JD. dns. pbs. rewrite dequeued_same, app_nil_r. split; [reflexivity|]. split; [constructor|]. left. repeat split; reflexivity.
  - apply Forall_cons_iff in Hq. destruct Hq as [Hd Hrest].
    destruct (enc_var_some c 3 x8 dirA x7 true d Hd) as (f & Ef). rewrite Ef. cbn [tx_opt]. fr. unfold occupied. dns.
    rewrite dequeued_head. unfold JD. dns. pbs. split; [reflexivity|]. split; [exact Hrest|]. right; right.
    split; [reflexivity|]. split; [reflexivity|]. split; [exact Hd|]. split.
    + left. unfold outstanding. dns. pbs. rewrite negb_involutive, Ef. split; [reflexivity|]. split; [discriminate | reflexivity].
    + exists T. split; [reflexivity|]. left. split; [rewrite negb_involutive; reflexivity | reflexivity].
Qed.

Lemma occupied_false st : occupied st = false -> dAB st = None /\ dBA st = None.
Proof. unfold occupied. destruct (dAB st), (dBA st); intros H; try discriminate H; split; reflexivity. Qed.

Lemma JD_run_send_confirm x3 x4 x5 x6 x7 x8 x9 x10 x11 x12 q e T D ab ba now :
  let st := {| dp := PB PLL_SEND_CONFIRM x3 x4 x5 x6 x7 x8 x9 x10 x11 x12; dq := q; dsb := {| sb_efcb := e |}; dT := T; dD := D;
              dAB := ab; dBA := ba; dfail := false; dtim := false |} in
  JD st -> dfail (dstep st (DRun now)) = false -> dtim (dstep st (DRun now)) = false -> JD (dstep st (DRun now)).
Proof.
  intros st HJ. unfold st in HJ |- *. unfold dstep, PB in *. dns. unfold pb_run. pbs. rewrite Hfg.
  unfold PLL_AVAILABLE, PLL_IDLE, PLL_REQ_STATUS, PLL_RESET, PLL_SEND_CONFIRM in *. cbn [Z.eqb Pos.eqb negb].
  set (lsd := clamp x4 now).
  unfold JD in HJ. dns_in HJ. pbs_in HJ. destruct HJ as (_ & Hq & HJ).
  destruct HJ as [(X & _) | HJ]; [discriminate X|].
  destruct (now >? lsd + t_ack c) eqn:Ea.
  2:{ (* no acknowledgement timeout yet *)
      fr. intros _ _. unfold JD. dns. pbs. rewrite dequeued_same, app_nil_r. split; [reflexivity|]. split; [exact Hq|].
      destruct HJ as [(_ & -> & HD & Htr) | (_ & -> & Hok & Htr & Hrec)].
      - right; left. split; [reflexivity|]. split; [reflexivity|]. split; [exact HD|]. exact Htr.
      - right; right. split; [reflexivity|]. split; [reflexivity|]. split; [exact Hok|]. split; [exact Htr | exact Hrec]. }
  destruct (now >? x5 + t_rep c) eqn:Er.
  { unfold pb_set_state. pbs. unfold LS_AVAILABLE, LS_ERROR. cbn [Z.eqb Pos.eqb]. fr. cbn [Z.eqb Pos.eqb orb]. intros X. discriminate X. }
  destruct HJ as [(_ & -> & HD & Htr) | (_ & -> & Hok & Htr & Hrec)].
  - (* the test frame again *)
    fr. intros _ Ht. cbn [orb] in Ht. destruct (occupied_false _ Ht) as [A B]. dns_in A. dns_in B. subst ab ba.
    unfold JD. dns. pbs. rewrite dequeued_same, app_nil_r. split; [reflexivity|]. split; [exact Hq|]. right; left.
    split; [reflexivity|]. split; [reflexivity|]. split; [exact HD|]. left. unfold outstanding. dns. pbs.
    split; [reflexivity|]. split; [discriminate | reflexivity].
  - (* the message again *)
    destruct (enc_var_some c 3 x8 dirA (negb x7) true x9 Hok) as (f & Ef). rewrite Ef. cbn [tx_opt]. fr. intros _ Ht. cbn [orb] in Ht.
    destruct (occupied_false _ Ht) as [A B]. dns_in A. dns_in B. subst ab ba.
    unfold JD. dns. pbs. rewrite dequeued_same, app_nil_r. split; [reflexivity|]. split; [exact Hq|]. right; right.
    split; [reflexivity|]. split; [reflexivity|]. split; [exact Hok|]. split; [|exact Hrec].
    left. unfold outstanding. dns. pbs. rewrite Ef. split; [reflexivity|]. split; [discriminate | reflexivity].
Qed.

(* ---- the frame in transit reaches B *)
Lemma JD_toB x2 x3 x4 x5 x6 x7 x8 x9 x10 x11 x12 q e T D ab ba :
  let st := {| dp := PB x2 x3 x4 x5 x6 x7 x8 x9 x10 x11 x12; dq := q; dsb := {| sb_efcb := e |}; dT := T; dD := D;
              dAB := ab; dBA := ba; dfail := false; dtim := false |} in
  JD st -> JD (dstep st DToB).
Proof.
  intros st HJ. unfold st in HJ |- *. unfold dstep. dns. destruct ab as [f|]; [|exact HJ].
  unfold JD, PB in HJ. dns_in HJ. pbs_in HJ. destruct HJ as (_ & Hq & HJ).
  destruct HJ as [(_ & _ & _ & X & _) | HJ]; [discriminate X|].
  destruct HJ as [(-> & -> & HD & Htr) | (-> & -> & Hok & Htr & pre & HT & Hrec)].
  - (* a test frame *)
    unfold transit_ok in Htr. dns_in Htr. destruct Htr as [(Hf & _ & ->) | [(X & _) | (X & _)]]; try discriminate X.
    unfold outstanding, PB in Hf. dns_in Hf. pbs_in Hf. inversion Hf; subst f. clear Hf.
    rewrite (b_gets_fixed v c addrB dirA dirB Hal _ 2 x8 (negb x7) true ltac:(lia)), (sb_test v c addrB dirB Hfb). cbn [sb_efcb].
    assert (E : (if Bool.eqb (negb x7) e then negb e else e) = x7) by (destruct x7, e; reflexivity).
    destruct (Bool.eqb (negb x7) e); fr; rewrite app_nil_r; unfold JD, PB; dns; pbs;
      (split; [reflexivity|]); (split; [exact Hq|]); right; left; (split; [reflexivity|]); (split; [reflexivity|]); (split; [exact HD|]);
      right; right; (split; [reflexivity|]); (split; [reflexivity|]); cbn [sb_efcb]; exact E.
  - (* a message *)
    unfold transit_ok in Htr. dns_in Htr. destruct Htr as [(Hf & _ & ->) | [(X & _) | (X & _)]]; try discriminate X.
    unfold outstanding, PB in Hf. dns_in Hf. pbs_in Hf. symmetry in Hf.
    destruct (b_gets_data v c addrB dirA dirB Hal {| sb_efcb := e |} x8 (negb x7) x9 f Hf) as [Eb Eu].
    rewrite Eb, (sb_data v c addrB dirB Hfb) by (destruct Hok; lia). cbn [sb_efcb]. rewrite Eu.
    destruct Hrec as [(-> & ->) | (-> & ->)].
    + rewrite Bool.eqb_reflx. fr. unfold JD, PB. dns. pbs. split; [reflexivity|]. split; [exact Hq|]. right; right.
      split; [reflexivity|]. split; [reflexivity|]. split; [exact Hok|]. split.
      * right; right. split; [reflexivity|]. split; [reflexivity|]. cbn [sb_efcb]. apply negb_involutive.
      * exists pre. split; [exact HT|]. right. split; [apply negb_involutive | reflexivity].
    + rewrite (eqb_negb_l x7). fr. rewrite app_nil_r. unfold JD, PB. dns. pbs. split; [reflexivity|]. split; [exact Hq|]. right; right.
      split; [reflexivity|]. split; [reflexivity|]. split; [exact Hok|]. split.
      * right; right. split; [reflexivity|]. split; reflexivity.
      * exists pre. split; [exact HT|]. right. split; reflexivity.
Qed.

(* ---- B's answer in transit reaches A *)
Lemma JD_toA x2 x3 x4 x5 x6 x7 x8 x9 x10 x11 x12 q e T D ab ba now :
  let st := {| dp := PB x2 x3 x4 x5 x6 x7 x8 x9 x10 x11 x12; dq := q; dsb := {| sb_efcb := e |}; dT := T; dD := D;
              dAB := ab; dBA := ba; dfail := false; dtim := false |} in
  JD st -> JD (dstep st (DToA now)).
Proof.
  intros st HJ. unfold st in HJ |- *. unfold dstep. dns. destruct ba as [a|]; [|exact HJ].
  unfold JD, PB in HJ. dns_in HJ. pbs_in HJ. destruct HJ as (_ & Hq & HJ).
  destruct HJ as [(_ & _ & _ & _ & X) | HJ]; [discriminate X|].
  assert (Hack : forall Htr : transit_ok {| dp := PB x2 x3 x4 x5 x6 x7 x8 x9 x10 x11 x12; dq := q; dsb := {| sb_efcb := e |}; dT := T; dD := D;
                                             dAB := ab; dBA := Some a; dfail := false; dtim := false |},
                  ab = None /\ a = bal_ack c addrB dirB /\ e = x7).
  { intros Htr. unfold transit_ok in Htr. dns_in Htr. destruct Htr as [(_ & _ & X) | [(_ & X) | (A & B & C)]]; try discriminate X. cbn [sb_efcb PB pb_nfcb dp dsb] in C.
    inversion B. repeat split; assumption. }
  destruct HJ as [(-> & -> & HD & Htr) | (-> & -> & Hok & Htr & pre & HT & Hrec)].
  - destruct (Hack Htr) as (-> & -> & ->).
    rewrite (a_gets_ack v c addrB dirA dirB Hal HaB), (pb_ack_in_send_confirm v c dirA Hfg) by reflexivity. fr.
    unfold JD, PB. dns. pbs. split; [reflexivity|]. split; [exact Hq|]. left. repeat split; try reflexivity. exact HD.
  - destruct (Hack Htr) as (-> & -> & ->).
    rewrite (a_gets_ack v c addrB dirA dirB Hal HaB), (pb_ack_in_send_confirm v c dirA Hfg) by reflexivity. fr.
    unfold JD, PB. dns. pbs. split; [reflexivity|]. split; [exact Hq|]. left.
    destruct Hrec as [(X & _) | (_ & ->)]; [exfalso; exact (negb_neq _ X)|]. repeat split; try reflexivity. symmetry. exact HT.
Qed.

(* what is in transit is lost: A keeps waiting with nothing on the line *)
Lemma transit_lost st st' : transit_ok st -> dp st' = dp st -> dsb st' = dsb st -> dAB st' = None -> dBA st' = None -> transit_ok st'.
Proof. intros _ _ _ A B. right; left. split; assumption. Qed.

Lemma JD_lose st st' : JD st -> dp st' = dp st -> dq st' = dq st -> dsb st' = dsb st -> dT st' = dT st -> dD st' = dD st ->
  (dAB st' = None /\ dBA st' = dBA st \/ dAB st' = dAB st /\ dBA st' = None) -> JD st'.
Proof.
  intros (Hls & Hq & HJ) Ep Eq Es ET ED Hch. unfold JD. rewrite Ep, Eq, Es, ET, ED. split; [exact Hls|]. split; [exact Hq|].
  assert (Htr : transit_ok st -> transit_ok st').
  { unfold transit_ok. rewrite Ep, Es. intros [(A & B & C) | [(A & B) | (A & B & C)]].
    - destruct Hch as [(X & Y) | (X & Y)].
      + right; left. split; [exact X | rewrite Y; exact C].
      + left. rewrite X. split; [exact A|]. split; [exact B | exact Y].
    - right; left. destruct Hch as [(X & Y) | (X & Y)]; (split; [congruence | congruence]).
    - destruct Hch as [(X & Y) | (X & Y)].
      + right; right. split; [exact X|]. split; [rewrite Y; exact B | exact C].
      + right; left. split; [rewrite X; exact A | exact Y]. }
  destruct HJ as [(A & B & C & D1 & D2) | [(A & B & C & D1) | (A & B & C & D1 & D2)]].
  - left. split; [exact A|]. split; [exact B|]. split; [exact C|]. destruct Hch as [(X & Y) | (X & Y)]; (split; congruence).
  - right; left. split; [exact A|]. split; [exact B|]. split; [exact C | exact (Htr D1)].
  - right; right. split; [exact A|]. split; [exact B|]. split; [exact C|]. split; [exact (Htr D1) | exact D2].
Qed.

Lemma JD_step st e : JD st -> dfail st = false -> dtim st = false ->
  dfail (dstep st e) = false -> dtim (dstep st e) = false -> JD (dstep st e).
Proof.
  intros HJ Hf Ht Hf' Ht'. destruct st as [p q s T D ab ba fl tm]. cbn [dfail dtim] in Hf, Ht. subst fl tm.
  destruct p as [x1 x2 x3 x4 x5 x6 x7 x8 x9 x10 x11 x12]. destruct s as [e0].
  assert (Hls : x1 = LS_AVAILABLE) by (destruct HJ as (X & _); exact X). subst x1.
  change {| pb_ls := LS_AVAILABLE; pb_ps := x2; pb_wait := x3; pb_lastsend := x4; pb_origsend := x5; pb_test := x6; pb_nfcb := x7;
            pb_other := x8; pb_last := x9; pb_lastrx := x10; pb_idle := x11; pb_tout := x12 |} with (PB x2 x3 x4 x5 x6 x7 x8 x9 x10 x11 x12) in *.
  destruct e as [now| |now| | |now| |d].
  - assert (Hps : x2 = PLL_AVAILABLE \/ x2 = PLL_SEND_CONFIRM).
    { destruct HJ as (_ & _ & [(X & _) | [(X & _) | (X & _)]]); [left | right | right]; exact X. }
    destruct Hps as [-> | ->].
    + destruct HJ as (_ & Hq & [(_ & A & B & C & D1) | [(X & _) | (X & _)]]); try discriminate X.
      dns_in A. dns_in B. dns_in C. dns_in D1. cbn [PB pb_nfcb sb_efcb] in A. subst e0 D ab ba. apply JD_run_available. exact Hq.
    + apply JD_run_send_confirm; assumption.
  - apply JD_toB. exact HJ.
  - apply JD_toA. exact HJ.
  - eapply JD_lose; [exact HJ | reflexivity ..|]. left. split; reflexivity.
  - eapply JD_lose; [exact HJ | reflexivity ..|]. right. split; reflexivity.
  - exact HJ.
  - exact HJ.
  - unfold JD in *. cbn [dstep] in *. dns. dns_in HJ. destruct HJ as (A & B & C). split; [exact A|]. split; [|exact C].
    destruct (msg_okb c d) eqn:E; [|exact B]. apply Forall_app. split; [exact B|]. constructor; [apply msg_okb_ok, E | constructor].
Qed.

Lemma dfail_step_mono st e : dfail st = true -> dfail (dstep st e) = true.
Proof.
  intros H. destruct e as [now| |now| | |now| |d]; cbn [dstep]; try exact H.
  - destruct (pb_run v c now dirA (dp st) (dq st)) as [[p1 q1] o1]. destruct (first_frame o1); cbn [dfail]; rewrite H; reflexivity.
  - destruct (dAB st); [|exact H]. destruct (b_recv v c addrB dirB (dsb st) l) as [s1 ob]. exact H.
  - destruct (dBA st); [|exact H]. destruct (a_recv v c dirA now (dp st) l) as [p2 oa]. cbn [dfail]. rewrite H. reflexivity.
Qed.

Lemma dtim_step_mono st e : dtim st = true -> dtim (dstep st e) = true.
Proof.
  intros H. destruct e as [now| |now| | |now| |d]; cbn [dstep]; try exact H.
  - destruct (pb_run v c now dirA (dp st) (dq st)) as [[p1 q1] o1]. destruct (first_frame o1); cbn [dtim]; rewrite H; reflexivity.
  - destruct (dAB st); [|exact H]. destruct (b_recv v c addrB dirB (dsb st) l) as [s1 ob]. cbn [dtim]. rewrite H. reflexivity.
  - destruct (dBA st); [|exact H]. destruct (a_recv v c dirA now (dp st) l) as [p2 oa]. exact H.
Qed.

Lemma dfail_run_mono evs : forall st, dfail st = true -> dfail (fold_left dstep evs st) = true.
Proof. induction evs as [|e r IH]; intros st H; cbn [fold_left]; [exact H | apply IH, dfail_step_mono, H]. Qed.
Lemma dtim_run_mono evs : forall st, dtim st = true -> dtim (fold_left dstep evs st) = true.
Proof. induction evs as [|e r IH]; intros st H; cbn [fold_left]; [exact H | apply IH, dtim_step_mono, H]. Qed.

(* every history of runs, deliveries, losses, requests and enqueues - in any order - in which the link was not given up and no
   frame was transmitted while another was still in transit *)
Theorem dline_invariant evs : forall st, JD st -> dfail st = false -> dtim st = false ->
  dfail (fold_left dstep evs st) = false -> dtim (fold_left dstep evs st) = false -> JD (fold_left dstep evs st).
Proof.
  induction evs as [|e r IH]; intros st HJ Hf Ht Hfe Hte; cbn [fold_left] in *; [exact HJ|].
  destruct (dfail (dstep st e)) eqn:E1; [rewrite (dfail_run_mono r _ E1) in Hfe; discriminate Hfe|].
  destruct (dtim (dstep st e)) eqn:E2; [rewrite (dtim_run_mono r _ E2) in Hte; discriminate Hte|].
  apply IH; [apply JD_step; assumption | exact E1 | exact E2 | exact Hfe | exact Hte].
Qed.

Theorem dline_exactly_once evs st : JD st -> dfail st = false -> dtim st = false ->
  let st' := fold_left dstep evs st in dfail st' = false -> dtim st' = false ->
  dD st' = dT st' \/ (dT st' = dD st' ++ [pb_last (dp st')] /\ pb_ps (dp st') = PLL_SEND_CONFIRM).
Proof.
  intros HJ Hf Ht st' Hfe Hte. pose proof (dline_invariant evs st HJ Hf Ht Hfe Hte) as (_ & _ & H). fold st' in H.
  destruct H as [(_ & _ & HD & _) | [(_ & _ & HD & _) | (Hps & _ & _ & _ & pre & HT & [(_ & HD) | (_ & HD)])]].
  - left; exact HD.
  - left; exact HD.
  - right. rewrite HD. split; [exact HT | exact Hps].
  - left. rewrite HD, HT. reflexivity.
Qed.

(* in the quiescent state nothing is on the line either *)
Theorem dline_quiescent evs st : JD st -> dfail st = false -> dtim st = false ->
  let st' := fold_left dstep evs st in dfail st' = false -> dtim st' = false -> pb_ps (dp st') = PLL_AVAILABLE ->
  dD st' = dT st' /\ dAB st' = None /\ dBA st' = None /\ pb_nfcb (dp st') = sb_efcb (dsb st').
Proof.
  intros HJ Hf Ht st' Hfe Hte Hps. pose proof (dline_invariant evs st HJ Hf Ht Hfe Hte) as (_ & _ & H). fold st' in H.
  destruct H as [(_ & A & B & C & D1) | [(X & _) | (X & _)]]; try (rewrite Hps in X; discriminate X).
  repeat split; assumption.
Qed.
End LineD.

(* non-vacuity: two messages; the first transmission is delayed and then lost, the repetition arrives, its acknowledgement is
   lost, the second repetition is confirmed; the second message goes through with delays: both delivered once, in order *)
Definition exd_st : dline :=
  {| dp := lp ex_st; dq := []; dsb := {| sb_efcb := true |}; dT := []; dD := []; dAB := None; dBA := None; dfail := false; dtim := false |}.
Definition exd_m1 : list Z := [45; 1; 6; 0; 1; 0; 7; 0].
Definition exd_m2 : list Z := [45; 1; 6; 0; 2; 0; 8; 1].
Definition exd_evs : list dev :=
  [DEnq exd_m1; DEnq exd_m2; DRun 10; DRun 100; DLoseAB; DRun 250; DRun 300; DToB; DLoseBA; DRun 500; DToB; DRun 550; DToA 560;
   DTest; DRun 600; DRun 650; DToB; DRun 700; DToA 710; DRun 800; DToB; DToA 820; DRun 900].
Example dline_hypotheses : JD ex_c 2 true false exd_st.
Proof. unfold JD. cbn. split; [reflexivity|]. split; [constructor|]. left. repeat split; reflexivity. Qed.
Example dline_example :
  let st' := fold_left (dstep ex_v ex_c 2 true false) exd_evs exd_st in
  dfail st' = false /\ dtim st' = false /\ dD st' = [exd_m1; exd_m2] /\ dT st' = dD st' /\ dq st' = [] /\ dAB st' = None /\ dBA st' = None.
Proof. vm_compute. repeat split; reflexivity. Qed.

(* the timing assumption is needed, as it is for the procedure of the standard: when the acknowledgement timeout is shorter
   than the round trip, A repeats while the acknowledgement is under way, the acknowledgement of the repetition arrives after A has
   sent the next message, and A takes it for the confirmation of that message, which was lost *)
Example dline_needs_timing :
  let st' := fold_left (dstep ex_v ex_c 2 true false)
               [DEnq exd_m1; DEnq exd_m2; DRun 10; DToB; DRun 250; DToA 260; DToB; DRun 270; DLoseAB; DToA 280] exd_st in
  dfail st' = false /\ dtim st' = true /\ pb_ps (dp st') = PLL_AVAILABLE /\ dT st' = [exd_m1; exd_m2] /\ dD st' = [exd_m1].
Proof. vm_compute. repeat split; reflexivity. Qed.
