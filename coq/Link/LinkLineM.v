(* C16: several slaves on one unbalanced line.  The literal master (pu_sm: round robin over the slave connections, one outstanding
   request; pu_on_msg: routing of the answers) and n literal slave stations that all see every frame of the master.  Each master
   run is, for the slave connection the scheduler selected, exactly one run of the single-connection line of LinkLineU.v; the other
   connections are untouched and the other stations ignore the frame.  Hence the exactly-once statement holds for every slave,
   whatever the scheduler does. *)
From Coq Require Import ZArith List Bool Lia.
From L60870 Require Import Link.Ft12 Link.Ft12Proofs Link.Ft12Bp Link.LinkSec Link.LinkPrim Link.LinkProofs Link.LinkLineU.
Import ListNotations.
Local Open Scope Z_scope.

Section LineM.
Variables (v : variant) (c : llcfg).
Hypothesis Hal : 0 <= alen c <= 2.

(* every frame the master writes for a slave connection is addressed to that slave *)
Definition to_addr (a : Z) (f : list Z) : Prop :=
  (exists fc fcb fcv, f = enc_fixed (alen c) fc a true false fcb fcv) \/
  (exists fc fcb fcv d, enc_var (alen c) fc a true false fcb fcv d = Some f).

Lemma tx_opt_in f (x : option (list Z)) : In f (uframes (tx_opt x)) -> x = Some f.
Proof. destruct x as [y|]; cbn; [intros [<-|[]]; reflexivity | intros []]. Qed.

Lemma sc_run_addressed now s f : In f (uframes (snd (sc_run v c now s))) -> to_addr (sc_addr s) f.
Proof.
  unfold sc_run, sc_set_state, reset_frame.
  repeat match goal with
         | |- context [if ?b then _ else _] => destruct b
         | |- context [let '(_, _) := ?x in _] => destruct x
         end; cbn [snd]; intros Hin;
  first [ apply tx_opt_in in Hin; right; eexists; eexists; eexists; eexists; exact Hin
        | cbn [uframes flat_map app] in Hin;
          repeat match goal with
                 | H : _ \/ _ |- _ => destruct H
                 | H : False |- _ => destruct H
                 | H : In _ [] |- _ => destruct H
                 | H : In _ (_ :: _) |- _ => destruct H
                 end; subst; left; eexists; eexists; eexists; reflexivity ].
Qed.

(* a station with another address ignores the frame (it only notes that the line is alive) *)
Lemma su_ignores now s a f : to_addr a f -> addr_in_range (alen c) a -> addr_in_range (alen c) (su_addr s) ->
  a <> broadcast_addr (alen c) -> a <> su_addr s -> su_on_msg v c now s f = (su_with_lastrx s now, []).
Proof.
  intros Hf Ha Hs Hnb Hne. unfold su_on_msg. cbn [su_addr su_with_lastrx].
  destruct Hf as [(fc & fcb & fcv & ->) | (fc & fcb & fcv & d & E)].
  - rewrite (parse_su_fixed_other (ff v) (alen c) (su_addr s) a fc false fcb fcv Hal Hs Ha Hnb Hne). reflexivity.
  - rewrite (parse_su_var_other (ff v) (alen c) (su_addr s) a fc false fcb fcv d f Hal Hs Ha Hnb Hne E). reflexivity.
Qed.

(* ---- list helpers for the connection table *)
Lemma get_slave_nth (l : list sc) (i : nat) : get_slave l (Z.of_nat i) = nth_error l i.
Proof. unfold get_slave. assert (E : Z.of_nat i <? 0 = false) by (apply Z.ltb_ge; lia). rewrite E, Nat2Z.id. reflexivity. Qed.

Lemma set_slave_length : forall (l : list sc) i x, length (set_slave l i x) = length l.
Proof. induction l as [|h t IH]; intros [|i] x; cbn [set_slave length]; try reflexivity; rewrite IH; reflexivity. Qed.

Lemma set_slave_nth_same : forall (l : list sc) i x, (i < length l)%nat -> nth_error (set_slave l i x) i = Some x.
Proof. induction l as [|h t IH]; intros [|i] x H; cbn [set_slave length nth_error] in *; try lia; [reflexivity | apply IH; lia]. Qed.

Lemma set_slave_nth_other : forall (l : list sc) i j x, i <> j -> nth_error (set_slave l i x) j = nth_error l j.
Proof.
  induction l as [|h t IH]; intros [|i] [|j] x H; cbn [set_slave nth_error]; try reflexivity; try congruence.
  apply IH. congruence.
Qed.

Lemma find_slave_spec : forall (l : list sc) a k i s, nth_error l i = Some s -> sc_addr s = a ->
  (forall j s', (j < i)%nat -> nth_error l j = Some s' -> sc_addr s' <> a) ->
  find_slave l a k = Some (k + Z.of_nat i, s).
Proof.
  induction l as [|h t IH]; intros a k [|i] s Hn Ha Hfirst; cbn [nth_error] in Hn; try discriminate.
  - inversion Hn; subst h. cbn [find_slave]. rewrite Ha, Z.eqb_refl. f_equal. f_equal. lia.
  - cbn [find_slave]. assert (E : sc_addr h =? a = false).
    { apply Z.eqb_neq. apply (Hfirst 0%nat h); [lia | reflexivity]. }
    rewrite E. rewrite (IH a (k + 1) i s Hn Ha).
    + f_equal. f_equal. lia.
    + intros j s' Hj Hs'. apply (Hfirst (S j) s'); [lia | exact Hs'].
Qed.

(* the scheduler runs exactly one slave connection (no broadcast pending) *)
Lemma pu_sm_runs_one now (p : pu) : pu_bc p = None -> (0 < length (pu_slaves p))%nat -> 0 <= pu_idx p < Z.of_nat (length (pu_slaves p)) ->
  exists (i : nat) s idx', (i < length (pu_slaves p))%nat /\ nth_error (pu_slaves p) i = Some s /\
    0 <= idx' < Z.of_nat (length (pu_slaves p)) /\
    pu_sm v c now p = ({| pu_cur := Z.of_nat i; pu_idx := idx'; pu_bc := None; pu_slaves := set_slave (pu_slaves p) i (fst (sc_run v c now s)) |},
                       snd (sc_run v c now s)).
Proof.
  intros Hbc Hn Hidx. unfold pu_sm. rewrite Hbc. cbn [pu_cur pu_idx pu_bc pu_slaves].
  unfold lenz. rewrite map_length. set (n := Z.of_nat (length (pu_slaves p))) in *.
  assert (Hn0 : n >? 0 = true) by (apply Z.gtb_lt; unfold n; lia). rewrite Hn0. cbn [app]. rewrite ?Hbc.
  assert (Hmod : 0 <= (pu_idx p + 1) mod n < n) by (apply Z.mod_pos_bound; unfold n; lia).
  assert (Hsel : forall (cur2 idx2 : Z), 0 <= cur2 < n -> 0 <= idx2 < n ->
     exists (i : nat) s idx', (i < length (pu_slaves p))%nat /\ nth_error (pu_slaves p) i = Some s /\ 0 <= idx' < n /\
       match get_slave (pu_slaves p) cur2 with
       | Some s0 => let '(s', o2) := sc_run v c now s0 in
                    ({| pu_cur := cur2; pu_idx := idx2; pu_bc := None; pu_slaves := set_slave (pu_slaves p) (Z.to_nat cur2) s' |}, o2)
       | None => ({| pu_cur := cur2; pu_idx := idx2; pu_bc := None; pu_slaves := pu_slaves p |}, [])
       end = ({| pu_cur := Z.of_nat i; pu_idx := idx'; pu_bc := None; pu_slaves := set_slave (pu_slaves p) i (fst (sc_run v c now s)) |},
              snd (sc_run v c now s))).
  { intros cur2 idx2 Hc Hi. assert (Ec : cur2 = Z.of_nat (Z.to_nat cur2)) by lia.
    assert (Hlt : (Z.to_nat cur2 < length (pu_slaves p))%nat) by (unfold n in Hc; lia).
    destruct (nth_error (pu_slaves p) (Z.to_nat cur2)) as [s0|] eqn:En; [|apply nth_error_None in En; lia].
    exists (Z.to_nat cur2), s0, idx2. split; [exact Hlt|]. split; [exact En|]. split; [exact Hi|].
    rewrite Ec at 1. rewrite get_slave_nth, En. destruct (sc_run v c now s0) as [s' o2]. cbn [fst snd]. rewrite <- Ec. reflexivity. }
  destruct (get_slave (pu_slaves p) (pu_cur p)) as [s0|] eqn:Eg.
  - destruct (sc_wait s0).
    + destruct (pu_cur p =? -1) eqn:E1.
      * apply (Hsel (pu_idx p) ((pu_idx p + 1) mod n)); assumption.
      * assert (Hc : 0 <= pu_cur p < n).
        { unfold get_slave in Eg. destruct (pu_cur p <? 0) eqn:El; [discriminate|]. apply Z.ltb_ge in El.
          assert (X : nth_error (pu_slaves p) (Z.to_nat (pu_cur p)) <> None) by congruence. apply nth_error_Some in X. unfold n. lia. }
        apply (Hsel (pu_cur p) (pu_idx p)); assumption.
    + cbn [Z.eqb Pos.eqb]. apply (Hsel (pu_idx p) ((pu_idx p + 1) mod n)); assumption.
  - cbn [Z.eqb Pos.eqb]. apply (Hsel (pu_idx p) ((pu_idx p + 1) mod n)); assumption.
Qed.

(* every frame a slave station writes carries its own address (or is the single character) *)
Definition from_addr (a : Z) (f : list Z) : Prop :=
  f = E5 \/ (exists fc acd, 0 <= fc < 16 /\ f = enc_fixed (alen c) fc a false false acd false) \/
  (exists acd d, enc_var (alen c) 8 a false false acd false d = Some f).

Lemma su_frames_from now s f0 f : In f (uframes (snd (su_on_msg v c now s f0))) -> from_addr (su_addr s) f.
Proof.
  unfold su_on_msg. cbn [su_addr su_with_lastrx].
  destruct (parse_su (ff v) (alen c) (su_addr s) f0) as [| |fc bc fcb fcv uds udl].
  - unfold su_set_state. destruct (_ =? _); cbn; intros [].
  - cbn. intros [].
  - unfold su_handle, su_request, su_set_state, su_ack.
    repeat match goal with
           | |- context [if ?b then _ else _] => destruct b
           | |- context [match ?x with [] => _ | _ :: _ => _ end] => destruct x
           | |- context [match ?x with Some _ => _ | None => _ end] => destruct x
           | |- context [let '(_, _) := ?x in _] => destruct x
           end; cbn [snd fst su_addr su_with_lastrx su_with_efcb su_with_ud su_with_q su_with_ls];
    try (rewrite ?app_nil_r; cbn [uframes flat_map app]);
    intros Hin;
    repeat match goal with
           | H : In _ (uframes (_ ++ _)) |- _ => unfold uframes in H; rewrite flat_map_app in H; apply in_app_or in H; fold uframes in H
           | H : _ \/ _ |- _ => destruct H
           | H : False |- _ => destruct H
           | H : In _ (uframes (tx_opt _)) |- _ => apply tx_opt_in in H
           | H : In ?g (flat_map _ (tx_opt ?x)) |- _ => change (In g (uframes (tx_opt x))) in H; apply tx_opt_in in H
           | H : In _ [] |- _ => destruct H
           | H : In _ (_ :: _) |- _ => destruct H
           | H : In _ (flat_map _ _) |- _ => cbn [flat_map app] in H
           end; subst;
    first [ left; reflexivity
          | right; left; eexists; eexists; split; [|reflexivity]; lia
          | right; right; eexists; eexists; eassumption
          | idtac ].
Qed.

Lemma parse_from a f : from_addr a f -> addr_in_range (alen c) a ->
  match parse_bp (ff v) (alen c) f with BpAck => True | BpPri _ _ _ _ address _ _ => address = a | _ => False end.
Proof.
  intros [-> | [(fc & acd & Hfc & ->) | (acd & d & E)]] Ha.
  - exact I.
  - rewrite (parse_bp_fixed_sec (ff v) (alen c) fc a false acd false Hal Hfc Ha). reflexivity.
  - destruct (parse_bp_var_sec (ff v) (alen c) 8 a false acd false d f Hal ltac:(lia) Ha E) as [P _]. rewrite P. reflexivity.
Qed.

Lemma set_slave_same : forall (l : list sc) i x, nth_error l i = Some x -> set_slave l i x = l.
Proof. induction l as [|h t IH]; intros [|i] x H; cbn [set_slave nth_error] in *; try discriminate; [inversion H; reflexivity | rewrite IH by exact H; reflexivity]. Qed.

(* the master routes the answer of the slave it is talking to back to that slave connection *)
Lemma pu_routes now (p : pu) (i : nat) m a :
  pu_cur p = Z.of_nat i -> nth_error (pu_slaves p) i = Some m ->
  (forall j m', (j < i)%nat -> nth_error (pu_slaves p) j = Some m' -> sc_addr m' <> sc_addr m) ->
  from_addr (sc_addr m) a -> addr_in_range (alen c) (sc_addr m) ->
  pu_on_msg v c now p a = (pu_with_slaves p (set_slave (pu_slaves p) i (fst (m_recv v c now m a))), snd (m_recv v c now m a)).
Proof.
  intros Hcur Hn Hfirst Hfrom Ha. pose proof (parse_from _ _ Hfrom Ha) as Hp. unfold pu_on_msg, m_recv.
  destruct (parse_bp (ff v) (alen c) a) as [| |fc fcb fcv uds udl|fc dir dfc acd address uds udl]; [destruct Hp | | destruct Hp | subst address].
  - unfold pu_handle. rewrite Z.eqb_refl, Hcur, get_slave_nth, Hn.
    destruct (sc_handle v c now m 0 false false (-1) [] 0 0) as [m' o]. cbn [fst snd]. rewrite Nat2Z.id. reflexivity.
  - unfold pu_handle. assert (E : sc_addr m =? -1 = false).
    { apply Z.eqb_neq. unfold addr_in_range in Ha. destruct Ha as [H0 _]. lia. }
    rewrite E. rewrite (find_slave_spec (pu_slaves p) (sc_addr m) 0 i m Hn eq_refl Hfirst).
    destruct (sc_handle v c now m fc acd dfc (sc_addr m) a uds udl) as [m' o]. cbn [fst snd].
    replace (Z.to_nat (0 + Z.of_nat i)) with i by lia. reflexivity.
Qed.

(* ---- the line with several slaves: the state is a list of single-connection lines (LinkLineU.uline) plus the scheduler *)
Record mline := { mcur : Z; midx : Z; mpairs : list uline }.

Definition m_pu (st : mline) : pu := {| pu_cur := mcur st; pu_idx := midx st; pu_bc := None; pu_slaves := map um (mpairs st) |}.

Inductive mev :=
| MRun (now : Z) (l1 l2 : bool)       (* the master station runs once; l1: its frame is lost, l2: the answer is lost *)
| MApp (a : Z) (e : uev).             (* an application call concerning the slave with address a (send, request, test, slave-side enqueue) *)

Definition lookup (l : list sc) (a : Z) (dflt : sc) : sc := match find_slave l a 0 with Some (_, m) => m | None => dflt end.
Definition sel_addr (p1 : pu) : Z := match get_slave (pu_slaves p1) (pu_cur p1) with Some m => sc_addr m | None => -2 end.

(* what happens to one connection / station in a master run: its connection object is looked up in the master's table by its
   address; its station sees the frame (if it was not lost); the observations of the run are booked on the connection the scheduler
   selected *)
Definition upd (now : Z) (delivered : option (list Z)) (pr pf : pu) (a_sel : Z) (o1 oa : list out) (p : uline) : uline :=
  let mr := lookup (pu_slaves pr) (sc_addr (um p)) (um p) in       (* after the run of the state machine *)
  let m' := lookup (pu_slaves pf) (sc_addr (um p)) (um p) in       (* after the answer was handled *)
  let '(s', ob) := match delivered with Some f => su_on_msg v c now (us p) f | None => (us p, []) end in
  if sc_addr (um p) =? a_sel
  then {| um := m'; us := s'; uT := uT p ++ unew (um p) mr; uD := uD p ++ uinds ob; uR := uR p ++ udeq (us p) s'; uU := uU p ++ uuds oa;
          ufail := ufail p || ureports_error o1 || ureports_error oa |}
  else {| um := m'; us := s'; uT := uT p; uD := uD p ++ uinds ob; uR := uR p ++ udeq (us p) s'; uU := uU p; ufail := ufail p |}.

Definition mk (pf : pu) (ps : list uline) : mline := {| mcur := pu_cur pf; midx := pu_idx pf; mpairs := ps |}.

Definition mstep (st : mline) (e : mev) : mline :=
  match e with
  | MRun now l1 l2 =>
      let '(p1, o1) := pu_sm v c now (m_pu st) in
      let a_sel := sel_addr p1 in
      match uframes o1 with
      | f :: _ =>
          if l1 then mk p1 (map (upd now None p1 p1 a_sel o1 []) (mpairs st))
          else match flat_map (fun p => uframes (snd (su_on_msg v c now (us p) f))) (mpairs st) with
               | a :: _ =>
                   if l2 then mk p1 (map (upd now (Some f) p1 p1 a_sel o1 []) (mpairs st))
                   else let '(p2, oa) := pu_on_msg v c now p1 a in mk p2 (map (upd now (Some f) p1 p2 a_sel o1 oa) (mpairs st))
               | [] => mk p1 (map (upd now (Some f) p1 p1 a_sel o1 []) (mpairs st))
               end
      | [] => mk p1 (map (upd now None p1 p1 a_sel o1 []) (mpairs st))
      end
  | MApp a e =>
      match e with
      | URun _ _ _ => st
      | _ => {| mcur := mcur st; midx := midx st; mpairs := map (fun p => if sc_addr (um p) =? a then ustep v c p e else p) (mpairs st) |}
      end
  end.

(* ---- the connection objects keep their address *)
Lemma sc_run_addr now s : sc_addr (fst (sc_run v c now s)) = sc_addr s.
Proof.
  unfold sc_run, sc_set_state.
  repeat match goal with
         | |- context [if ?b then _ else _] => destruct b
         | |- context [let '(_, _) := ?x in _] => destruct x
         end; reflexivity.
Qed.

Lemma sc_handle_addr now s fc acd dfc address msg uds udl : sc_addr (fst (sc_handle v c now s fc acd dfc address msg uds udl)) = sc_addr s.
Proof.
  unfold sc_handle, sc_set_state.
  repeat match goal with
         | |- context [if ?b then _ else _] => destruct b
         | |- context [let '(_, _) := ?x in _] => destruct x
         end; reflexivity.
Qed.

Lemma m_recv_addr now m a : sc_addr (fst (m_recv v c now m a)) = sc_addr m.
Proof. unfold m_recv. destruct (parse_bp (ff v) (alen c) a); try reflexivity; apply sc_handle_addr. Qed.

(* ---- the connection table: lookup by address after one entry was replaced *)
Definition addrs (l : list sc) : list Z := map sc_addr l.

Lemma find_slave_set_same : forall (l : list sc) i m x k, NoDup (addrs l) -> nth_error l i = Some m -> sc_addr x = sc_addr m ->
  find_slave (set_slave l i x) (sc_addr m) k = Some (k + Z.of_nat i, x).
Proof.
  induction l as [|h t IH]; intros [|i] m x k Hnd Hn Hx; cbn [nth_error] in Hn; try discriminate.
  - inversion Hn; subst h. cbn [set_slave find_slave]. rewrite Hx, Z.eqb_refl. f_equal. f_equal. lia.
  - cbn [set_slave find_slave]. cbn [addrs map] in Hnd. apply NoDup_cons_iff in Hnd. destruct Hnd as [Hnot Hnd].
    assert (E : sc_addr h =? sc_addr m = false).
    { apply Z.eqb_neq. intros E. apply Hnot. rewrite E. apply in_map. apply (nth_error_In _ _ Hn). }
    rewrite E. rewrite (IH i m x (k + 1) Hnd Hn Hx). f_equal. f_equal. lia.
Qed.

Lemma find_slave_set_other : forall (l : list sc) i m x a k, nth_error l i = Some m -> sc_addr x = sc_addr m -> a <> sc_addr m ->
  match find_slave (set_slave l i x) a k, find_slave l a k with
  | Some (j1, y1), Some (j2, y2) => j1 = j2 /\ y1 = y2
  | None, None => True
  | _, _ => False
  end.
Proof.
  induction l as [|h t IH]; intros [|i] m x a k Hn Hx Ha; cbn [nth_error] in Hn; try discriminate.
  - inversion Hn; subst h. cbn [set_slave find_slave]. rewrite Hx.
    assert (E : sc_addr m =? a = false) by (apply Z.eqb_neq; congruence). rewrite E.
    destruct (find_slave t a (k + 1)) as [[j y]|]; [split; reflexivity | exact I].
  - cbn [set_slave find_slave]. destruct (sc_addr h =? a); [split; reflexivity|]. apply (IH i m x a (k + 1) Hn Hx Ha).
Qed.

Lemma find_slave_self : forall (l : list sc) i m k, NoDup (addrs l) -> nth_error l i = Some m -> find_slave l (sc_addr m) k = Some (k + Z.of_nat i, m).
Proof.
  induction l as [|h t IH]; intros [|i] m k Hnd Hn; cbn [nth_error] in Hn; try discriminate.
  - inversion Hn; subst h. cbn [find_slave]. rewrite Z.eqb_refl. f_equal. f_equal. lia.
  - cbn [find_slave]. cbn [addrs map] in Hnd. apply NoDup_cons_iff in Hnd. destruct Hnd as [Hnot Hnd].
    assert (E : sc_addr h =? sc_addr m = false).
    { apply Z.eqb_neq. intros E. apply Hnot. rewrite E. apply in_map. apply (nth_error_In _ _ Hn). }
    rewrite E, (IH i m (k + 1) Hnd Hn). f_equal. f_equal. lia.
Qed.

Lemma lookup_set_same (l : list sc) i m x d : NoDup (addrs l) -> nth_error l i = Some m -> sc_addr x = sc_addr m ->
  lookup (set_slave l i x) (sc_addr m) d = x.
Proof. intros Hnd Hn Hx. unfold lookup. rewrite (find_slave_set_same l i m x 0 Hnd Hn Hx). reflexivity. Qed.

Lemma lookup_self (l : list sc) j y d : NoDup (addrs l) -> nth_error l j = Some y -> lookup l (sc_addr y) d = y.
Proof. intros Hnd Hn. unfold lookup. rewrite (find_slave_self l j y 0 Hnd Hn). reflexivity. Qed.

Lemma lookup_set_other (l : list sc) i m x j y d : NoDup (addrs l) -> nth_error l i = Some m -> sc_addr x = sc_addr m ->
  nth_error l j = Some y -> sc_addr y <> sc_addr m -> lookup (set_slave l i x) (sc_addr y) d = y.
Proof.
  intros Hnd Hn Hx Hj Hne. unfold lookup.
  pose proof (find_slave_set_other l i m x (sc_addr y) 0 Hn Hx Hne) as H. rewrite (find_slave_self l j y 0 Hnd Hj) in H.
  destruct (find_slave (set_slave l i x) (sc_addr y) 0) as [[j1 y1]|]; [destruct H as [_ ->]; reflexivity | destruct H].
Qed.

Lemma addrs_set_slave : forall (l : list sc) i m x, nth_error l i = Some m -> sc_addr x = sc_addr m -> addrs (set_slave l i x) = addrs l.
Proof.
  induction l as [|h t IH]; intros [|i] m x Hn Hx; cbn [nth_error] in Hn; try discriminate; cbn [set_slave addrs map].
  - inversion Hn; subst h. rewrite Hx. reflexivity.
  - f_equal. apply (IH i m x Hn Hx).
Qed.

(* ---- well-formed configurations: distinct station addresses, each station paired with its connection object *)
Definition pair_ok (p : uline) : Prop :=
  su_addr (us p) = sc_addr (um p) /\ addr_in_range (alen c) (sc_addr (um p)) /\ sc_addr (um p) <> broadcast_addr (alen c).
Definition WF (st : mline) : Prop :=
  NoDup (map (fun p => sc_addr (um p)) (mpairs st)) /\ Forall pair_ok (mpairs st) /\
  (0 < length (mpairs st))%nat /\ 0 <= midx st < Z.of_nat (length (mpairs st)).

(* only the addressed station answers *)
Lemma bus_frames now f a : forall (ps : list uline) i p, to_addr a f -> Forall pair_ok ps -> NoDup (map (fun p => sc_addr (um p)) ps) ->
  nth_error ps i = Some p -> sc_addr (um p) = a ->
  flat_map (fun q => uframes (snd (su_on_msg v c now (us q) f))) ps = uframes (snd (su_on_msg v c now (us p) f)).
Proof.
  induction ps as [|h t IH]; intros [|i] p Hf Hok Hnd Hn Ha; cbn [nth_error] in Hn; try discriminate.
  - inversion Hn; subst h. cbn [flat_map].
    assert (Ht : flat_map (fun q => uframes (snd (su_on_msg v c now (us q) f))) t = []).
    { apply Forall_cons_iff in Hok. destruct Hok as [Hp Hok]. cbn [map] in Hnd. apply NoDup_cons_iff in Hnd. destruct Hnd as [Hnot _].
      clear IH Hn. revert Hok Hnot. induction t as [|q t IHt]; intros Hok Hnot; [reflexivity|]. cbn [flat_map].
      apply Forall_cons_iff in Hok. destruct Hok as [(Hq1 & Hq2 & Hq3) Hok].
      destruct Hp as (Hp1 & Hp2 & Hp3).
      rewrite (su_ignores now (us q) a f Hf ltac:(rewrite <- Ha; exact Hp2) ltac:(rewrite Hq1; exact Hq2) ltac:(rewrite <- Ha; exact Hp3)).
      + cbn [snd uframes flat_map app]. apply IHt; [exact Hok|]. intros X. apply Hnot. right. exact X.
      + rewrite Hq1, <- Ha. intros E. apply Hnot. left. symmetry. exact E. }
    rewrite Ht, app_nil_r. reflexivity.
  - cbn [flat_map]. apply Forall_cons_iff in Hok. destruct Hok as [(Hh1 & Hh2 & Hh3) Hok]. cbn [map] in Hnd. apply NoDup_cons_iff in Hnd. destruct Hnd as [Hnot Hnd].
    pose proof (nth_error_In _ _ Hn) as Hin.
    assert (Hpa : pair_ok p) by (apply (proj1 (Forall_forall _ _) Hok p Hin)). destruct Hpa as (Hp1 & Hp2 & Hp3).
    rewrite (su_ignores now (us h) a f Hf ltac:(rewrite <- Ha; exact Hp2) ltac:(rewrite Hh1; exact Hh2) ltac:(rewrite <- Ha; exact Hp3)).
    + cbn [snd uframes flat_map app]. apply (IH i p Hf Hok Hnd Hn Ha).
    + rewrite Hh1, <- Ha. intros E. apply Hnot. rewrite <- E. apply (in_map (fun p => sc_addr (um p)) _ _ Hin).
Qed.

(* a station that only heard a frame for somebody else *)
Definition touch (now : Z) (p : uline) : uline :=
  {| um := um p; us := su_with_lastrx (us p) now; uT := uT p; uD := uD p; uR := uR p; uU := uU p; ufail := ufail p |}.

Lemma JU_touch a now p : JU c a p -> JU c a (touch now p).
Proof. destruct p as [m s T D R U fl]. destruct s as [b1 e usz ubuf lrx idl b7 q1 q2]. unfold JU, touch. cbn. tauto. Qed.

Lemma udeq_touch now s : udeq s (su_with_lastrx s now) = [].
Proof. unfold udeq. cbn [su_with_lastrx su_q1 su_q2]. rewrite !Nat.sub_diag. reflexivity. Qed.

(* the state predicate of the whole line: every connection that has not reported a failure satisfies the joint invariant of
   LinkLineU.v (and hence its exactly-once corollary) *)
Definition MJ (st : mline) : Prop := Forall (fun p => ufail p = true \/ JU c (sc_addr (um p)) p) (mpairs st).

Lemma nth_map_um (ps : list uline) i p : nth_error ps i = Some p -> nth_error (map um ps) i = Some (um p).
Proof. intros H. rewrite nth_error_map, H. reflexivity. Qed.

Lemma addrs_map_um (ps : list uline) : addrs (map um ps) = map (fun p => sc_addr (um p)) ps.
Proof. unfold addrs. rewrite map_map. reflexivity. Qed.

Lemma same_addr_same_pair (ps : list uline) i p q : NoDup (map (fun p => sc_addr (um p)) ps) -> nth_error ps i = Some p -> In q ps ->
  sc_addr (um q) = sc_addr (um p) -> q = p.
Proof.
  intros Hnd Hn Hin Ha. apply In_nth_error in Hin. destruct Hin as [j Hj].
  assert (E : i = j).
  { apply (proj1 (NoDup_nth_error _) Hnd).
    - rewrite map_length. apply nth_error_Some. congruence.
    - rewrite !nth_error_map, Hn, Hj. cbn. rewrite Ha. reflexivity. }
  subst j. congruence.
Qed.

(* ---- one master run, seen from the connection the scheduler selected and from the others *)
Section OneRun.
Variables (now : Z) (ps : list uline) (i : nat) (pi : uline) (idx' : Z).
Hypothesis Hnd : NoDup (map (fun p => sc_addr (um p)) ps).
Hypothesis Hok : Forall pair_ok ps.
Hypothesis Hi : nth_error ps i = Some pi.

Let m1 := fst (sc_run v c now (um pi)).
Let o1 := snd (sc_run v c now (um pi)).
Let p1 := {| pu_cur := Z.of_nat i; pu_idx := idx'; pu_bc := None; pu_slaves := set_slave (map um ps) i m1 |}.
Let ai := sc_addr (um pi).

Lemma m1_addr : sc_addr m1 = ai. Proof. apply sc_run_addr. Qed.

Lemma sel_is_ai : sel_addr p1 = ai.
Proof.
  unfold sel_addr, p1. cbn [pu_cur pu_slaves]. rewrite get_slave_nth.
  rewrite set_slave_nth_same by (rewrite map_length; apply nth_error_Some; congruence). apply m1_addr.
Qed.

Lemma lookup_p1_sel : lookup (pu_slaves p1) ai (um pi) = m1.
Proof.
  unfold p1. cbn [pu_slaves]. apply (lookup_set_same (map um ps) i (um pi) m1); [rewrite addrs_map_um; exact Hnd | apply nth_map_um, Hi | apply m1_addr].
Qed.

Lemma lookup_p1_other q : In q ps -> sc_addr (um q) <> ai -> lookup (pu_slaves p1) (sc_addr (um q)) (um q) = um q.
Proof.
  intros Hin Hne. apply In_nth_error in Hin. destruct Hin as [j Hj]. unfold p1. cbn [pu_slaves].
  apply (lookup_set_other (map um ps) i (um pi) m1 j (um q)); [rewrite addrs_map_um; exact Hnd | apply nth_map_um, Hi | apply m1_addr | apply nth_map_um, Hj | exact Hne].
Qed.

Lemma pair_ok_pi : pair_ok pi. Proof. apply (proj1 (Forall_forall _ _) Hok pi (nth_error_In _ _ Hi)). Qed.

(* the frame of the run (if any) is addressed to the selected station; the others only note it *)
Lemma frame_to_sel f rest : uframes o1 = f :: rest -> to_addr ai f.
Proof. intros E. apply (sc_run_addressed now (um pi)). fold o1. rewrite E. left. reflexivity. Qed.

Lemma other_ignores f rest q : uframes o1 = f :: rest -> In q ps -> sc_addr (um q) <> ai ->
  su_on_msg v c now (us q) f = (su_with_lastrx (us q) now, []).
Proof.
  intros E Hin Hne. destruct pair_ok_pi as (P1 & P2 & P3). destruct (proj1 (Forall_forall _ _) Hok q Hin) as (Q1 & Q2 & Q3).
  apply (su_ignores now (us q) ai f (frame_to_sel f rest E)); [exact P2 | rewrite Q1; exact Q2 | exact P3 | rewrite Q1; congruence].
Qed.

(* the answer of the selected station is routed back to its connection object *)
Lemma answer_routed f a : In a (uframes (snd (su_on_msg v c now (us pi) f))) ->
  pu_on_msg v c now p1 a = (pu_with_slaves p1 (set_slave (pu_slaves p1) i (fst (m_recv v c now m1 a))), snd (m_recv v c now m1 a)).
Proof.
  intros Hin. destruct pair_ok_pi as (P1 & P2 & P3).
  assert (Hn1 : nth_error (pu_slaves p1) i = Some m1).
  { unfold p1. cbn [pu_slaves]. apply set_slave_nth_same. rewrite map_length. apply nth_error_Some. congruence. }
  apply (pu_routes now p1 i m1 a); [reflexivity | exact Hn1 | | | rewrite m1_addr; exact P2].
  - intros j m' Hj Hm'. unfold p1 in Hm'. cbn [pu_slaves] in Hm'. rewrite set_slave_nth_other in Hm' by lia.
    rewrite nth_error_map in Hm'. destruct (nth_error ps j) as [q|] eqn:Eq; [|discriminate]. cbn in Hm'. inversion Hm'; subst m'. rewrite m1_addr.
    intros E. assert (X : q = pi) by (apply (same_addr_same_pair ps i pi q Hnd Hi (nth_error_In _ _ Eq) E)). subst q.
    assert (Y : j = i). { apply (proj1 (NoDup_nth_error _) Hnd); [rewrite map_length; apply nth_error_Some; congruence | rewrite !nth_error_map, Eq, Hi; reflexivity]. }
    lia.
  - rewrite m1_addr. unfold ai. rewrite <- P1. apply (su_frames_from now (us pi) f a Hin).
Qed.

(* ---- the selected connection does exactly one step of the single-connection line; the others are untouched *)
Lemma upd_other_quiet pr pf oa q : In q ps -> sc_addr (um q) <> ai -> lookup (pu_slaves pf) (sc_addr (um q)) (um q) = um q ->
  upd now None pr pf ai o1 oa q = q.
Proof.
  intros Hin Hne Hl. unfold upd. rewrite Hl. assert (E : sc_addr (um q) =? ai = false) by (apply Z.eqb_neq; exact Hne). rewrite E.
  cbn [uinds flat_map]. unfold udeq. rewrite !Nat.sub_diag. cbn [firstn app]. rewrite !app_nil_r. destruct q; reflexivity.
Qed.

Lemma upd_other_heard pr pf f rest oa q : uframes o1 = f :: rest -> In q ps -> sc_addr (um q) <> ai ->
  lookup (pu_slaves pf) (sc_addr (um q)) (um q) = um q -> upd now (Some f) pr pf ai o1 oa q = touch now q.
Proof.
  intros Ef Hin Hne Hl. unfold upd. rewrite Hl, (other_ignores f rest q Ef Hin Hne).
  assert (E : sc_addr (um q) =? ai = false) by (apply Z.eqb_neq; exact Hne). rewrite E.
  cbn [uinds flat_map]. rewrite udeq_touch, !app_nil_r. reflexivity.
Qed.

Lemma upd_sel_lost : uframes o1 = [] \/ True ->
  upd now None p1 p1 ai o1 [] pi =
  {| um := m1; us := us pi; uT := uT pi ++ unew (um pi) m1; uD := uD pi ++ []; uR := uR pi ++ udeq (us pi) (us pi); uU := uU pi ++ [];
     ufail := ufail pi || ureports_error o1 || false |}.
Proof. intros _. unfold upd. fold ai. rewrite !lookup_p1_sel, Z.eqb_refl. reflexivity. Qed.

Lemma ustep_unfold l1 l2 : ustep v c pi (URun now l1 l2) =
  let '(m2, s2, dl, ul, oa) := ucross v c now l1 l2 m1 (us pi) o1 in
  {| um := m2; us := s2; uT := uT pi ++ unew (um pi) m1; uD := uD pi ++ dl; uR := uR pi ++ udeq (us pi) s2; uU := uU pi ++ ul;
     ufail := ufail pi || ureports_error o1 || ureports_error oa |}.
Proof. unfold ustep, m1, o1. destruct (sc_run v c now (um pi)) as [x y]. reflexivity. Qed.

Lemma sel_quiet l1 l2 : uframes o1 = [] -> upd now None p1 p1 ai o1 [] pi = ustep v c pi (URun now l1 l2).
Proof. intros E. rewrite ustep_unfold. unfold ucross. rewrite E. apply upd_sel_lost. left. exact E. Qed.

Lemma sel_lost f rest l2 : uframes o1 = f :: rest -> upd now None p1 p1 ai o1 [] pi = ustep v c pi (URun now true l2).
Proof. intros E. rewrite ustep_unfold. unfold ucross. rewrite E. apply upd_sel_lost. right. exact I. Qed.

Lemma sel_heard f rest l2 : uframes o1 = f :: rest ->
  (uframes (snd (su_on_msg v c now (us pi) f)) = [] \/ l2 = true) ->
  upd now (Some f) p1 p1 ai o1 [] pi = ustep v c pi (URun now false l2).
Proof.
  intros E Hq. rewrite ustep_unfold. unfold ucross. rewrite E. unfold upd. fold ai. rewrite !lookup_p1_sel, Z.eqb_refl.
  destruct (su_on_msg v c now (us pi) f) as [s' ob]. cbn [snd] in Hq.
  destruct (uframes ob) as [|a ra] eqn:Eo.
  - reflexivity.
  - destruct Hq as [Hq | ->]; [discriminate Hq | reflexivity].
Qed.

Lemma sel_answered f rest a ra : uframes o1 = f :: rest -> uframes (snd (su_on_msg v c now (us pi) f)) = a :: ra ->
  let p2 := fst (pu_on_msg v c now p1 a) in let oa := snd (pu_on_msg v c now p1 a) in
  upd now (Some f) p1 p2 ai o1 oa pi = ustep v c pi (URun now false false) /\
  (forall q, In q ps -> sc_addr (um q) <> ai -> lookup (pu_slaves p2) (sc_addr (um q)) (um q) = um q) /\
  pu_idx p2 = idx' /\ addrs (pu_slaves p2) = addrs (map um ps).
Proof.
  intros E Ea. cbv zeta.
  assert (Hin : In a (uframes (snd (su_on_msg v c now (us pi) f)))) by (rewrite Ea; left; reflexivity).
  rewrite (answer_routed f a Hin). cbn [fst snd].
  assert (Hn1 : nth_error (pu_slaves p1) i = Some m1).
  { unfold p1. cbn [pu_slaves]. apply set_slave_nth_same. rewrite map_length. apply nth_error_Some. congruence. }
  assert (Hnd1 : NoDup (addrs (pu_slaves p1))).
  { unfold p1. cbn [pu_slaves]. rewrite (addrs_set_slave (map um ps) i (um pi) m1 (nth_map_um ps i pi Hi) m1_addr), addrs_map_um. exact Hnd. }
  split; [|split; [|split]].
  - rewrite ustep_unfold. unfold ucross. rewrite E. unfold upd. fold ai. rewrite lookup_p1_sel. cbn [pu_with_slaves pu_slaves].
    rewrite <- m1_addr. rewrite (lookup_set_same (pu_slaves p1) i m1 (fst (m_recv v c now m1 a)) (um pi) Hnd1 Hn1 (m_recv_addr now m1 a)).
    rewrite m1_addr, Z.eqb_refl.
    destruct (su_on_msg v c now (us pi) f) as [s' ob]. cbn [snd] in Ea. rewrite Ea.
    destruct (m_recv v c now m1 a) as [m2 oa]. reflexivity.
  - intros q Hq Hne. cbn [pu_with_slaves pu_slaves]. apply In_nth_error in Hq. destruct Hq as [j Hj].
    assert (Hjq : nth_error (pu_slaves p1) j = Some (um q)).
    { unfold p1. cbn [pu_slaves]. rewrite set_slave_nth_other.
      - apply nth_map_um, Hj.
      - intros X. subst j. rewrite Hi in Hj. inversion Hj; subst q. apply Hne. reflexivity. }
    apply (lookup_set_other (pu_slaves p1) i m1 (fst (m_recv v c now m1 a)) j (um q) (um q) Hnd1 Hn1 (m_recv_addr now m1 a) Hjq).
    rewrite m1_addr. exact Hne.
  - reflexivity.
  - cbn [pu_with_slaves pu_slaves]. rewrite (addrs_set_slave (pu_slaves p1) i m1 _ Hn1 (m_recv_addr now m1 a)).
    unfold p1. cbn [pu_slaves]. apply (addrs_set_slave (map um ps) i (um pi) m1 (nth_map_um ps i pi Hi) m1_addr).
Qed.
End OneRun.

(* ---- the stations keep their address, the connection objects too (single-connection step) *)
Lemma su_on_msg_addr now s f : su_addr (fst (su_on_msg v c now s f)) = su_addr s.
Proof.
  unfold su_on_msg. cbn [su_addr su_with_lastrx].
  destruct (parse_su (ff v) (alen c) (su_addr s) f) as [| |fc bc fcb fcv uds udl].
  - unfold su_set_state. destruct (_ =? _); reflexivity.
  - reflexivity.
  - unfold su_handle, su_request, su_set_state.
    repeat match goal with
           | |- context [if ?b then _ else _] => destruct b
           | |- context [match ?x with [] => _ | _ :: _ => _ end] => destruct x
           | |- context [match ?x with Some _ => _ | None => _ end] => destruct x
           | |- context [let '(_, _) := ?x in _] => destruct x
           end; reflexivity.
Qed.

Lemma ustep_addrs p e : sc_addr (um (ustep v c p e)) = sc_addr (um p) /\ su_addr (us (ustep v c p e)) = su_addr (us p).
Proof.
  destruct e as [now l1 l2|d|cls| |cls d]; cbn [ustep].
  - destruct (sc_run v c now (um p)) as [m1 o1] eqn:Er.
    assert (A1 : sc_addr m1 = sc_addr (um p)) by (change m1 with (fst (m1, o1)); rewrite <- Er; apply sc_run_addr).
    unfold ucross. destruct (uframes o1) as [|f rest]; [cbn [um us]; split; [exact A1 | reflexivity]|].
    destruct l1; [cbn [um us]; split; [exact A1 | reflexivity]|].
    destruct (su_on_msg v c now (us p) f) as [s1 ob] eqn:Es.
    assert (A2 : su_addr s1 = su_addr (us p)) by (change s1 with (fst (s1, ob)); rewrite <- Es; apply su_on_msg_addr).
    destruct (uframes ob) as [|a ra]; [cbn [um us]; split; assumption|].
    destruct l2; [cbn [um us]; split; assumption|].
    destruct (m_recv v c now m1 a) as [m2 oa] eqn:Em. cbn [um us]. split; [|exact A2].
    change m2 with (fst (m2, oa)). rewrite <- Em, m_recv_addr. exact A1.
  - cbn [um us]. split; [|reflexivity]. destruct (negb (sc_has (um p)) && umsg_okb c d); reflexivity.
  - cbn [um us]. split; [|reflexivity]. destruct cls; reflexivity.
  - cbn [um us]. split; reflexivity.
  - cbn [um us]. split; [reflexivity|]. destruct (umsg_okb c d); [destruct cls|]; reflexivity.
Qed.

(* ---- every event of the whole line *)
Hypothesis Hfc : fc_ v = true.
Hypothesis Hfg : fg v = true.
Hypothesis Hfh : fh v = true.
Hypothesis Hfi : fi v = true.

Definition Pp (p : uline) : Prop := ufail p = true \/ JU c (sc_addr (um p)) p.

Lemma Pp_ustep p e : pair_ok p -> Pp p -> Pp (ustep v c p e).
Proof.
  intros (K1 & K2 & K3) [Hf | HJ].
  - left. apply ufail_step_mono. exact Hf.
  - destruct (ufail p) eqn:Ef; [left; apply ufail_step_mono; exact Ef|].
    destruct (ufail (ustep v c p e)) eqn:Ef'; [left; exact Ef'|]. right.
    rewrite (proj1 (ustep_addrs p e)). apply (JU_step v c (sc_addr (um p)) Hal Hfc Hfg Hfh Hfi K2 K3 p e HJ Ef Ef').
Qed.

Lemma Pp_touch now p : Pp p -> Pp (touch now p).
Proof. intros [Hf | HJ]; [left; exact Hf | right; apply JU_touch; exact HJ]. Qed.

Lemma pair_ok_ustep p e : pair_ok p -> pair_ok (ustep v c p e).
Proof. intros (K1 & K2 & K3). destruct (ustep_addrs p e) as [A B]. unfold pair_ok. rewrite A, B. split; [exact K1 | split; [exact K2 | exact K3]]. Qed.

Lemma pair_ok_touch now p : pair_ok p -> pair_ok (touch now p).
Proof. intros K. exact K. Qed.

(* how one event may change one connection / station pair *)
Definition Rel (now : Z) (q q' : uline) : Prop := (exists e, q' = ustep v c q e) \/ q' = touch now q \/ q' = q.

Lemma Rel_addr now q q' : Rel now q q' -> sc_addr (um q') = sc_addr (um q).
Proof. intros [(e & ->) | [-> | ->]]; [apply (proj1 (ustep_addrs q e)) | reflexivity | reflexivity]. Qed.

Lemma Rel_keeps now (g : uline -> uline) (ps : list uline) :
  (forall q, In q ps -> Rel now q (g q)) -> NoDup (map (fun p => sc_addr (um p)) ps) -> Forall pair_ok ps -> Forall Pp ps ->
  NoDup (map (fun p => sc_addr (um p)) (map g ps)) /\ Forall pair_ok (map g ps) /\ Forall Pp (map g ps) /\ length (map g ps) = length ps.
Proof.
  intros HR Hnd Hok HP.
  assert (Ea : map (fun p => sc_addr (um p)) (map g ps) = map (fun p => sc_addr (um p)) ps).
  { rewrite map_map. apply map_ext_in. intros q Hq. apply (Rel_addr now q (g q) (HR q Hq)). }
  split; [rewrite Ea; exact Hnd|]. split; [|split; [|apply map_length]].
  - apply Forall_forall. intros x Hx. apply in_map_iff in Hx. destruct Hx as (q & <- & Hq).
    pose proof (proj1 (Forall_forall _ _) Hok q Hq) as K.
    destruct (HR q Hq) as [(e & ->) | [-> | ->]]; [apply pair_ok_ustep; exact K | exact K | exact K].
  - apply Forall_forall. intros x Hx. apply in_map_iff in Hx. destruct Hx as (q & <- & Hq).
    pose proof (proj1 (Forall_forall _ _) Hok q Hq) as K. pose proof (proj1 (Forall_forall _ _) HP q Hq) as P.
    destruct (HR q Hq) as [(e & ->) | [-> | ->]]; [apply Pp_ustep; assumption | apply Pp_touch; exact P | exact P].
Qed.

Theorem mstep_run_inv st now l1 l2 : WF st -> Forall Pp (mpairs st) ->
  WF (mstep st (MRun now l1 l2)) /\ Forall Pp (mpairs (mstep st (MRun now l1 l2))).
Proof.
  intros (Hnd & Hok & Hlen & Hidx) HP. set (ps := mpairs st) in *.
  destruct (pu_sm_runs_one now (m_pu st) eq_refl) as (i & s & idx' & Hilt & Hn & Hidx' & Esm).
  { unfold m_pu. cbn [pu_slaves]. rewrite map_length. exact Hlen. }
  { unfold m_pu. cbn [pu_slaves pu_idx]. rewrite map_length. exact Hidx. }
  unfold m_pu in Hn, Hidx', Esm, Hilt. cbn [pu_slaves] in Hn, Hidx', Esm, Hilt. rewrite map_length in Hidx', Hilt. fold ps in Hn, Esm.
  rewrite nth_error_map in Hn. destruct (nth_error ps i) as [pi|] eqn:Hi; [|discriminate]. cbn in Hn. inversion Hn; subst s. clear Hn.
  unfold mstep. fold ps. unfold m_pu at 1. fold ps. change (pu_sm v c now {| pu_cur := mcur st; pu_idx := midx st; pu_bc := None; pu_slaves := map um ps |}) with (pu_sm v c now (m_pu st)).
  unfold m_pu. fold ps. rewrite Esm. cbv zeta.
  rewrite (sel_is_ai now ps i pi idx' Hi).
  set (m1 := fst (sc_run v c now (um pi))) in *. set (o1 := snd (sc_run v c now (um pi))) in *.
  set (p1 := {| pu_cur := Z.of_nat i; pu_idx := idx'; pu_bc := None; pu_slaves := set_slave (map um ps) i m1 |}) in *.
  set (ai := sc_addr (um pi)) in *.
  assert (Hfin : forall (g : uline -> uline) pf, pu_idx pf = idx' -> (forall q, In q ps -> Rel now q (g q)) ->
            WF (mk pf (map g ps)) /\ Forall Pp (mpairs (mk pf (map g ps)))).
  { intros g pf Hpi HR. destruct (Rel_keeps now g ps HR Hnd Hok HP) as (A & B & C & D). unfold WF, mk. cbn [mpairs midx].
    rewrite D, Hpi. split; [split; [exact A | split; [exact B | split; [exact Hlen | exact Hidx']]] | exact C]. }
  assert (Hsame : forall q, In q ps -> sc_addr (um q) = ai -> q = pi).
  { intros q Hq Ha. apply (same_addr_same_pair ps i pi q Hnd Hi Hq Ha). }
  destruct (uframes o1) as [|f rest] eqn:Ef.
  - (* nothing to send *)
    apply Hfin; [reflexivity|]. intros q Hq. destruct (Z.eq_dec (sc_addr (um q)) ai) as [Ea | Ea].
    + rewrite (Hsame q Hq Ea). left. exists (URun now l1 l2). apply (sel_quiet now ps i pi idx' Hnd Hi l1 l2 Ef).
    + right; right. apply (upd_other_quiet now ps pi p1 p1 [] q Hq Ea). apply (lookup_p1_other now ps i pi idx' Hnd Hi q Hq Ea).
  - destruct l1.
    + (* the frame is lost *)
      apply Hfin; [reflexivity|]. intros q Hq. destruct (Z.eq_dec (sc_addr (um q)) ai) as [Ea | Ea].
      * rewrite (Hsame q Hq Ea). left. exists (URun now true l2). apply (sel_lost now ps i pi idx' Hnd Hi f rest l2 Ef).
      * right; right. apply (upd_other_quiet now ps pi p1 p1 [] q Hq Ea). apply (lookup_p1_other now ps i pi idx' Hnd Hi q Hq Ea).
    + (* every station sees the frame *)
      rewrite (bus_frames now f ai ps i pi (frame_to_sel now pi f rest Ef) Hok Hnd Hi eq_refl).
      destruct (uframes (snd (su_on_msg v c now (us pi) f))) as [|a ra] eqn:Ea0.
      * apply Hfin; [reflexivity|]. intros q Hq. destruct (Z.eq_dec (sc_addr (um q)) ai) as [Ea | Ea].
        -- rewrite (Hsame q Hq Ea). left. exists (URun now false l2). apply (sel_heard now ps i pi idx' Hnd Hi f rest l2 Ef). left. exact Ea0.
        -- right; left. apply (upd_other_heard now ps i pi Hok Hi p1 p1 f rest [] q Ef Hq Ea). apply (lookup_p1_other now ps i pi idx' Hnd Hi q Hq Ea).
      * destruct l2.
        -- apply Hfin; [reflexivity|]. intros q Hq. destruct (Z.eq_dec (sc_addr (um q)) ai) as [Ea | Ea].
           ++ rewrite (Hsame q Hq Ea). left. exists (URun now false true). apply (sel_heard now ps i pi idx' Hnd Hi f rest true Ef). right. reflexivity.
           ++ right; left. apply (upd_other_heard now ps i pi Hok Hi p1 p1 f rest [] q Ef Hq Ea). apply (lookup_p1_other now ps i pi idx' Hnd Hi q Hq Ea).
        -- destruct (pu_on_msg v c now p1 a) as [p2 oa] eqn:Ep.
           pose proof (sel_answered now ps i pi idx' Hnd Hok Hi f rest a ra Ef Ea0) as S. cbv zeta in S.
           unfold p1, m1 in Ep. rewrite Ep in S. cbn [fst snd] in S. destruct S as (S1 & S2 & S3 & S4). fold m1 in Ep. fold p1 in Ep.
           apply Hfin; [exact S3|]. intros q Hq. destruct (Z.eq_dec (sc_addr (um q)) ai) as [Ea | Ea].
           ++ rewrite (Hsame q Hq Ea). left. exists (URun now false false). exact S1.
           ++ right; left. apply (upd_other_heard now ps i pi Hok Hi p1 p2 f rest oa q Ef Hq Ea). apply (S2 q Hq Ea).
Qed.

Theorem mstep_inv st e : WF st -> Forall Pp (mpairs st) -> WF (mstep st e) /\ Forall Pp (mpairs (mstep st e)).
Proof.
  intros HW HP. destruct e as [now l1 l2 | a e].
  - apply mstep_run_inv; assumption.
  - destruct HW as (Hnd & Hok & Hlen & Hidx).
    assert (G : forall e', WF {| mcur := mcur st; midx := midx st; mpairs := map (fun p => if sc_addr (um p) =? a then ustep v c p e' else p) (mpairs st) |} /\
                       Forall Pp (map (fun p => if sc_addr (um p) =? a then ustep v c p e' else p) (mpairs st))).
    { intros e'. destruct (Rel_keeps 0 (fun p => if sc_addr (um p) =? a then ustep v c p e' else p) (mpairs st)) as (A & B & C & D); try assumption.
      - intros q _. destruct (sc_addr (um q) =? a); [left; exists e'; reflexivity | right; right; reflexivity].
      - unfold WF. cbn [mpairs midx]. rewrite D. split; [split; [exact A | split; [exact B | split; [exact Hlen | exact Hidx]]] | exact C]. }
    destruct e as [now l1 l2|d|cls| |cls d]; cbn [mstep].
    + split; [split; [exact Hnd | split; [exact Hok | split; [exact Hlen | exact Hidx]]] | exact HP].
    + apply (G (UMsg d)).
    + apply (G (UReq cls)).
    + apply (G UTest).
    + apply (G (UEnq cls d)).
Qed.

Theorem mline_invariant evs : forall st, WF st -> Forall Pp (mpairs st) ->
  WF (fold_left mstep evs st) /\ Forall Pp (mpairs (fold_left mstep evs st)).
Proof.
  induction evs as [|e r IH]; intros st HW HP; cbn [fold_left]; [split; assumption|].
  destruct (mstep_inv st e HW HP) as [HW' HP']. apply IH; assumption.
Qed.

(* what the invariant of a connection says about its two applications (same statement as LinkLineU.uline_exactly_once) *)
Lemma JU_exact a p : JU c a p ->
  (uD p = uT p \/ (uT p = uD p ++ [sc_msg (um p)] /\ sc_ps (um p) = PLL_SEND_CONFIRM)) /\
  (uU p = uR p \/ (uR p = uU p ++ [su_udbuf (us p)] /\ sc_ps (um p) = PLL_REQUEST_RESPOND)).
Proof.
  intros (_ & _ & _ & _ & _ & _ & _ & H).
  destruct H as [(_ & _ & HD & HU) | [(Hps & _ & HU & pre & HT & [(_ & HD) | (_ & HD)]) | [(_ & _ & HD & HU) | (Hps & _ & HD & [(_ & HU) | (_ & [(_ & HU) | (pre & d & HR & HU & Hb & _)])])]]].
  - split; left; assumption.
  - split; [right; rewrite HD; split; [exact HT | exact Hps] | left; exact HU].
  - split; [left; rewrite HD, HT; reflexivity | left; exact HU].
  - split; left; assumption.
  - split; left; assumption.
  - split; left; assumption.
  - split; [left; exact HD | right; rewrite HU, Hb; split; [exact HR | exact Hps]].
Qed.

(* every history of the whole line (master runs with whatever scheduling the literal scheduler does, losses, application calls for
   any slave): for EVERY slave whose connection has not been reported in error, in both directions, delivered = taken, in order,
   each once, except possibly the one outstanding item *)
Theorem mline_exactly_once evs st : WF st -> Forall Pp (mpairs st) ->
  Forall (fun p => ufail p = false ->
            (uD p = uT p \/ (uT p = uD p ++ [sc_msg (um p)] /\ sc_ps (um p) = PLL_SEND_CONFIRM)) /\
            (uU p = uR p \/ (uR p = uU p ++ [su_udbuf (us p)] /\ sc_ps (um p) = PLL_REQUEST_RESPOND)))
         (mpairs (fold_left mstep evs st)).
Proof.
  intros HW HP. destruct (mline_invariant evs st HW HP) as [_ H].
  apply Forall_forall. intros p Hp Hf. pose proof (proj1 (Forall_forall _ _) H p Hp) as [X | X]; [congruence|].
  apply (JU_exact _ p X).
Qed.
End LineM.

(* non-vacuity: two slaves (addresses 3 and 5) on one line; data queued at both, a message for slave 5, requests, losses.
   The hypotheses of the theorem hold for the initial state, and the run delivers everything once, per slave, in order *)
Definition mex_pair (a : Z) : uline :=
  {| um := SC a PLL_AVAILABLE false [] 0 0 false false false false true 11; us := SU a true 0 [] 0 100000 [] [];
     uT := []; uD := []; uR := []; uU := []; ufail := false |}.
Definition mex_st : mline := {| mcur := -1; midx := 0; mpairs := [mex_pair 3; mex_pair 5] |}.
Definition mex_evs : list mev :=
  [MApp 3 (UEnq true [30; 1; 3; 0; 1; 0; 1]); MApp 5 (UEnq true [30; 1; 3; 0; 1; 0; 2]); MApp 5 (UEnq false [9; 1; 3; 0; 1; 0; 3]);
   MApp 3 (UReq true); MApp 5 (UReq true); MApp 5 (UMsg [45; 1; 6; 0; 1; 0; 7]);
   MRun 10 false true; MRun 250 false false; MRun 300 true false; MRun 550 false false; MRun 600 false false; MRun 700 false false;
   MApp 5 (UReq false); MRun 800 false false; MRun 900 false false; MRun 1000 false false; MRun 1100 false false].

Example mline_hypotheses : WF uex_c mex_st /\ Forall (Pp uex_c) (mpairs mex_st).
Proof.
  split.
  - unfold WF, mex_st. cbn [mpairs midx length map]. split; [|split; [|split; [lia | cbn; lia]]].
    + repeat constructor; cbn; intuition discriminate.
    + repeat constructor; cbn; try lia; try discriminate.
  - assert (G : forall a, Pp uex_c (mex_pair a)).
    { intros a. right. unfold JU, mex_pair, SC, SU. cbn.
      split; [reflexivity|]. split; [reflexivity|]. split; [reflexivity|]. split; [reflexivity|]. split; [constructor|]. split; [constructor|].
      split; [discriminate|]. left. repeat split; reflexivity. }
    cbn [mpairs mex_st]. apply Forall_cons; [apply G | apply Forall_cons; [apply G | apply Forall_nil]].
Qed.

Example mline_example :
  let st' := fold_left (mstep uex_v uex_c) mex_evs mex_st in
  map (fun p => (sc_addr (um p), ufail p, uD p, uU p)) (mpairs st') =
  [(3, false, [], [[30; 1; 3; 0; 1; 0; 1]]);
   (5, false, [[45; 1; 6; 0; 1; 0; 7]], [[30; 1; 3; 0; 1; 0; 2]; [9; 1; 3; 0; 1; 0; 3]])] /\
  map (fun p => (uT p, uR p)) (mpairs st') = map (fun p => (uD p, uU p)) (mpairs st').
Proof. vm_compute. split; reflexivity. Qed.
