(* C integer helpers used by the generated definitions (translate/c2gallina.py). *)
From Coq Require Export ZArith List Bool.
From Coq Require String.
Export ListNotations.
Local Open Scope Z_scope.

Inductive unrecognised : Type := Unrecognised (why : String.string).

Definition b2z (b : bool) : Z := if b then 1 else 0.

Definition u8 (x : Z) : Z := x mod 256.
Definition u16 (x : Z) : Z := x mod 65536.
Definition u32 (x : Z) : Z := x mod 4294967296.
Definition u64 (x : Z) : Z := x mod 18446744073709551616.
Definition swrap (m : Z) (x : Z) : Z := let r := x mod (2 * m) in if r <? m then r else r - 2 * m.
Definition s8 := swrap 128.
Definition s16 := swrap 32768.
Definition s32 := swrap 2147483648.
Definition s64 := swrap 9223372036854775808.

(* byte buffers *)
Definition nthz (i : Z) (l : list Z) : Z := nth (Z.to_nat i) l 0.

Fixpoint upd_nat (i : nat) (v : Z) (l : list Z) : list Z :=
  match l, i with
  | [], _ => []
  | _ :: t, O => v :: t
  | h :: t, S j => h :: upd_nat j v t
  end.
Definition upd (i : Z) (v : Z) (l : list Z) : list Z := upd_nat (Z.to_nat i) v l.

(* memset(buf, 0, n) on a buffer: first n cells become 0 (never grows the buffer) *)
Fixpoint zfill_nat (n : nat) (l : list Z) : list Z :=
  match n, l with
  | O, _ => l
  | _, [] => []
  | S m, _ :: t => 0 :: zfill_nat m t
  end.
Definition zfill (n : Z) (l : list Z) : list Z := zfill_nat (Z.to_nat n) l.

(* little-endian byte view of a 32-bit integer object *)
Definition byte_of (v : Z) (i : Z) : Z := (u32 v / 256 ^ i) mod 256.
Definition set_byte32 (v : Z) (i : Z) (b : Z) : Z :=
  s32 (u32 v - byte_of v i * 256 ^ i + (b mod 256) * 256 ^ i).

Definition byteb (b : Z) : bool := (0 <=? b) && (b <? 256).
Definition bytesb (l : list Z) : bool := forallb byteb l.
