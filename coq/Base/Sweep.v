(* Proof by exhaustive evaluation of a FINITE domain: a proposition built from bounded
   quantifiers over Z ranges and decidable equalities is turned into a boolean by type-class
   resolution; `sweep` then asks the kernel to evaluate it (vm_compute).  The bounds are part
   of the statement proved, so this is a proof for exactly the stated domain, not a sample. *)
From Coq Require Import ZArith List Bool Lia.
Import ListNotations.
Local Open Scope Z_scope.

Fixpoint zrange_nat (lo : Z) (n : nat) : list Z :=
  match n with O => [] | S m => lo :: zrange_nat (lo + 1) m end.
Definition zrange (lo hi : Z) : list Z := zrange_nat lo (Z.to_nat (hi - lo)).

Lemma zrange_nat_in lo n x : lo <= x < lo + Z.of_nat n -> In x (zrange_nat lo n).
Proof.
  revert lo; induction n as [|n IH]; intros lo H; [lia|].
  cbn [zrange_nat]. destruct (Z.eq_dec lo x) as [->|Hne]; [left; reflexivity|].
  right. apply IH. lia.
Qed.

Lemma zrange_in lo hi x : lo <= x < hi -> In x (zrange lo hi).
Proof. intros H. unfold zrange. apply zrange_nat_in. lia. Qed.

Class Decb (P : Prop) := { decb : bool; decb_ok : decb = true -> P }.
Arguments decb P {_}.
Arguments decb_ok P {_} _.

#[export, refine] Instance Decb_eqZ (a b : Z) : Decb (a = b) := {| decb := Z.eqb a b; decb_ok := _ |}.
Proof. apply Z.eqb_eq. Defined.

#[export, refine] Instance Decb_eqbool (a b : bool) : Decb (a = b) := {| decb := Bool.eqb a b; decb_ok := _ |}.
Proof. apply Bool.eqb_prop. Defined.

Fixpoint list_eqb (a b : list Z) : bool :=
  match a, b with
  | [], [] => true
  | x :: a', y :: b' => Z.eqb x y && list_eqb a' b'
  | _, _ => false
  end.
Lemma list_eqb_eq a b : list_eqb a b = true -> a = b.
Proof.
  revert b; induction a as [|x a IH]; destruct b as [|y b]; cbn; try discriminate; auto.
  intros H. apply andb_prop in H as [H1 H2]. apply Z.eqb_eq in H1. f_equal; auto.
Qed.
#[export, refine] Instance Decb_eqlist (a b : list Z) : Decb (a = b) := {| decb := list_eqb a b; decb_ok := _ |}.
Proof. apply list_eqb_eq. Defined.

#[export, refine] Instance Decb_and (P Q : Prop) `{Decb P} `{Decb Q} : Decb (P /\ Q) := {| decb := decb P && decb Q; decb_ok := _ |}.
Proof. intros H1. apply andb_prop in H1 as [A B]. split; [apply (decb_ok P A) | apply (decb_ok Q B)]. Defined.

#[export, refine] Instance Decb_True : Decb True := {| decb := true; decb_ok := _ |}.
Proof. auto. Defined.

#[export, refine] Instance Decb_le (a b : Z) : Decb (a <= b) := {| decb := Z.leb a b; decb_ok := _ |}.
Proof. apply Z.leb_le. Defined.
#[export, refine] Instance Decb_lt (a b : Z) : Decb (a < b) := {| decb := Z.ltb a b; decb_ok := _ |}.
Proof. apply Z.ltb_lt. Defined.

#[export, refine] Instance Decb_forall_range (lo hi : Z) (P : Z -> Prop) `{forall x, Decb (P x)} :
  Decb (forall x, lo <= x < hi -> P x) := {| decb := forallb (fun x => decb (P x)) (zrange lo hi); decb_ok := _ |}.
Proof.
  intros Hall x Hx. rewrite forallb_forall in Hall.
  apply (decb_ok (P x)). apply Hall. apply zrange_in. exact Hx.
Defined.

#[export, refine] Instance Decb_impl_bool (b : bool) (Q : Prop) `{Decb Q} : Decb (b = true -> Q) :=
  {| decb := negb b || decb Q |}.
Proof. intros H1 Hb. subst b. cbn in H1. apply (decb_ok Q H1). Defined.

#[export, refine] Instance Decb_impl_eqZ (a b : Z) (Q : Prop) `{Decb Q} : Decb (a = b -> Q) :=
  {| decb := negb (Z.eqb a b) || decb Q; decb_ok := _ |}.
Proof. intros H1 Hab. apply Z.eqb_eq in Hab. rewrite Hab in H1. cbn in H1. apply (decb_ok Q H1). Defined.

(* the kernel evaluates the boolean once, at Qed (vm cast) *)
Ltac sweep := match goal with |- ?G => apply (decb_ok G) end; vm_cast_no_check (eq_refl true).
