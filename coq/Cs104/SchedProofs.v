(* C13: order of transmission on one server connection (Cs104/Server.v: sendASDUInternal,
   sendNextHighPriorityASDU loop, sendWaitingASDUs). *)
From Coq Require Import ZArith List Bool Lia.
From RecordUpdate Require Import RecordSet.
From L60870 Require Import Apci.Reasm Apci.Frame Cs104.Server.
Import ListNotations RecordSetNotations.
Local Open Scope Z_scope.

(* the ASDUs carried by the frames written in a list of observations, in order *)
Fixpoint itx (o : list obs) : list (list Z) :=
  match o with
  | [] => []
  | OTx _ b :: r => skipn 6 b :: itx r
  | _ :: r => itx r
  end.
Lemma itx_app a b : itx (a ++ b) = itx a ++ itx b.
Proof. induction a as [|x a IH]; [reflexivity|]. destruct x; cbn; rewrite ?IH; reflexivity. Qed.

Lemma send_i_obs now c a e : wmode c = 0 ->
  itx (snd (send_i now c a e)) = [a] /\ hp (fst (send_i now c a e)) = hp c /\ wmode (fst (send_i now c a e)) = 0 /\
  running (fst (send_i now c a e)) = running c /\ st (fst (send_i now c a e)) = st c.
Proof.
  intros Hw. unfold send_i, wr. rewrite Hw. change (0 =? 1) with false. change (0 =? 2) with false. cbv iota.
  assert (P : 0 <? Z.of_nat (length (enc_i (vs c) (vr c) a)) = true).
  { apply Z.ltb_lt. unfold enc_i. cbn [app length]. lia. }
  rewrite P. cbn [fst snd itx]. unfold enc_i. cbn [app skipn]. repeat split; try reflexivity; cbn; assumption.
Qed.

(* a response handed to sendASDUInternal is either written now -- only if nothing is parked -- or parked at
   the TAIL of the high-priority FIFO: in both cases  (written now) ++ (parked after)  =  (parked before) ++ [a] *)
Lemma internal_fifo g now c a : st c = STARTED -> wmode c = 0 ->
  let '(c', r, o) := send_asdu_internal g now c a in
  r = true /\ itx o ++ hp c' = hp c ++ [a] /\ wmode c' = 0 /\ st c' = STARTED.
Proof.
  intros Hs Hw. unfold send_asdu_internal. rewrite Hs. change (STARTED =? STARTED) with true. cbv iota.
  destruct (negb (kfull (c_k g) c) && match hp c with [] => true | _ => false end) eqn:E.
  - apply andb_prop in E. destruct E as [_ E]. destruct (hp c) eqn:H; [|discriminate].
    destruct (send_i_obs now c a None Hw) as (A & B & C & _ & D).
    destruct (send_i now c a None) as [c' o]. cbn [fst snd] in *. rewrite A, B, H, D. cbn. auto.
  - cbn. auto.
Qed.

(* draining: frames written are a PREFIX of the parked responses, in order; what stays parked is the rest *)
Lemma send_hp_fifo : forall fuel g now c, wmode c = 0 ->
  let '(c', go, o) := send_hp fuel g now c in
  itx o ++ hp c' = hp c /\ (go = true -> hp c' = []) /\ wmode c' = 0 /\ st c' = st c.
Proof.
  induction fuel as [|f IH]; intros g now c Hw; cbn [send_hp]; [cbn; auto|].
  - repeat split; auto. discriminate.
  - destruct (hp c) as [|a rest] eqn:H; [cbn; rewrite H; auto|].
    destruct (kfull (c_k g) c); [cbn; rewrite H; repeat split; auto; discriminate|].
    assert (Hw' : wmode (c <| hp := rest |>) = 0) by exact Hw.
    destruct (send_i_obs now (c <| hp := rest |>) a None Hw') as (A & B & C & D & E).
    destruct (send_i now (c <| hp := rest |>) a None) as [c1 o1]. cbn [fst snd] in *.
    destruct (negb (running c1)).
    + cbn. rewrite A, B. cbn. repeat split; auto. discriminate.
    + specialize (IH g now c1 C). destruct (send_hp f g now c1) as [[c2 b] o2].
      destruct IH as (I1 & I2 & I3 & I4). rewrite itx_app, A. cbn [app].
      rewrite I1, B. cbn. repeat split; auto. rewrite I4, E. reflexivity.
Qed.

(* sendWaitingASDUs: parked responses first (in order); an event ASDU follows only when nothing stays parked,
   and it is the oldest waiting event *)
Lemma send_waiting_order g now s c : wmode c = 0 ->
  let '(s', c', o) := send_waiting g now s c in
  exists sent ev, itx o = sent ++ ev /\ sent ++ hp c' = hp c /\
                  (ev = [] \/ (hp c' = [] /\ exists e q', Server.mq_next_waiting (mq s) = Some (e, q') /\ ev = [q_asdu e] /\ mq s' = q')).
Proof.
  intros Hw. unfold send_waiting.
  pose proof (send_hp_fifo (S (length (hp c))) g now c Hw) as H.
  destruct (send_hp (S (length (hp c))) g now c) as [[c1 go] o1]. destruct H as (H1 & H2 & H3 & H4).
  destruct go.
  - specialize (H2 eq_refl). destruct (kfull (c_k g) c1).
    + exists (itx o1), []. rewrite app_nil_r. repeat split; auto.
    + destruct (Server.mq_next_waiting (mq s)) as [[e q']|] eqn:E.
      * destruct (send_i_obs now c1 (q_asdu e) (Some (q_id e)) H3) as (A & B & _).
        destruct (send_i now c1 (q_asdu e) (Some (q_id e))) as [c2 o2]. cbn [fst snd] in *.
        exists (itx o1), [q_asdu e]. rewrite itx_app, A. repeat split; auto.
        -- rewrite B. exact H1.
        -- right. split; [rewrite B; exact H2|]. exists e, q'. auto.
      * exists (itx o1), []. rewrite app_nil_r. repeat split; auto.
  - exists (itx o1), []. rewrite app_nil_r. repeat split; auto.
Qed.
