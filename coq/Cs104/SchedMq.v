(* C06 / C13: composition of the event path of the scheduler (Cs104/Server.v) with the byte ring of MessageQueue (Cs104/MsgQueue.v,
   mq_ functions; proved in MqRingProofs.v, abstracted to the list of Server.v in QueueRefine.v).
   The server model keeps the event queue as a list of entries identified by their id, without capacity; the C code keeps them in the
   ring and remembers, in the k-buffer entry of every event it transmitted, the entry's address and id (MessageQueue_markAsduAsConfirmed
   (queue, entry, id)).  Here the four places where the server touches the event queue are transcribed with the literal ring:
     ev_send_r   sendNextLowPriorityASDU   (getNextWaitingASDU, sendASDU, remember (id, offset))
     release_r   the release loop of checkSequenceNumber (markAsduAsConfirmed for every released event entry)
     mq_enqueue  CS104_Slave_enqueueASDU
     mq_reset_waiting  setWaitingForTransmissionWhenNotConfirmed when a connection ends
   and shown to be the list versions: for every ring state that represents the list (Rq: MQInv, absq, every remembered pair valid)
   each returns without a fault, writes the same frames, leaves the same connection, and the ring represents the list version's
   queue - except that an enqueue first DISPLACES the D oldest entries (D = 0 while there is room), which the list model does not do
   by itself. *)
From Coq Require Import ZArith List Bool Lia.
From RecordUpdate Require Import RecordSet.
From L60870 Require Import Apci.Reasm Apci.Frame Cs104.Server Cs104.SchedProofs Cs104.MsgQueue Cs104.MqRingProofs Cs104.QueueRefine.
Import ListNotations RecordSetNotations.
Local Open Scope Z_scope.

(* (id, offset) of the event entries handed out so far: what the k-buffer entries point to *)
Definition offs_t := list (Z * Z).
Fixpoint off_of (id : Z) (t : offs_t) : option Z :=
  match t with [] => None | (i, o) :: r => if i =? id then Some o else off_of id r end.

(* sendNextLowPriorityASDU *)
Definition ev_send_r (g : cfg) (now : Z) (c : conn) (q : mqs) (t : offs_t) : res (conn * mqs * offs_t * list obs) :=
  if kfull (c_k g) c then Ok (c, q, t, [])
  else match mq_next q with
       | Fault w => Fault w
       | Ok (None, q') => Ok (c, q', t, [])
       | Ok (Some (o, e), q') => let '(c2, o2) := send_i now c (e_asdu e) (Some (e_id e)) in Ok (c2, q', (e_id e, o) :: t, o2)
       end.

(* the same step of Server.v (the tail of send_waiting) *)
Definition ev_send (g : cfg) (now : Z) (s : server) (c : conn) : server * conn * list obs :=
  if kfull (c_k g) c then (s, c, [])
  else match Server.mq_next_waiting (mq s) with
       | None => (s, c, [])
       | Some (e, q') => let '(c2, o2) := send_i now c (q_asdu e) (Some (q_id e)) in (s <| mq := q' |>, c2, o2)
       end.

Lemma send_waiting_split g now s c :
  send_waiting g now s c =
  let '(c1, go, o1) := send_hp (S (length (hp c))) g now c in
  if go then let '(s', c2, o2) := ev_send g now s c1 in (s', c2, o1 ++ o2) else (s, c1, o1).
Proof.
  unfold send_waiting, ev_send. destruct (send_hp (S (length (hp c))) g now c) as [[c1 go] o1]. destruct go; [|reflexivity].
  destruct (kfull (c_k g) c1); [rewrite app_nil_r; reflexivity|].
  destruct (Server.mq_next_waiting (mq s)) as [[e q']|]; [|rewrite app_nil_r; reflexivity].
  destruct (send_i now c1 (q_asdu e) (Some (q_id e))) as [c2 o2]. reflexivity.
Qed.

(* the release loop of checkSequenceNumber on the ring *)
Fixpoint release_r (n : nat) (kb : list kent) (t : offs_t) (q : mqs) : res (list kent * mqs) :=
  match n, kb with
  | S m, e :: r =>
      match k_entry e with
      | Some id => match off_of id t with
                   | Some o => match mq_confirm q o id with Ok q' => release_r m r t q' | Fault w => Fault w end
                   | None => Fault (-2)        (* an event entry without a remembered address: excluded by the invariant *)
                   end
      | None => release_r m r t q
      end
  | _, _ => Ok (kb, q)
  end.

(* ---- the relation between the ring side (q, t) and the list side (kb, ql) *)
Definition known (t : offs_t) (kb : list kent) : Prop :=
  Forall (fun e => match k_entry e with Some id => off_of id t <> None | None => True end) kb.
Definition Rq (q : mqs) (t : offs_t) (kb : list kent) (ql : list qent) : Prop :=
  exists l, MQInv q l /\ absq l = ql /\ Forall (fun p => valid_pair q l (snd p) (fst p)) t /\ known t kb.

Lemma off_of_in : forall t id o, off_of id t = Some o -> In (id, o) t.
Proof.
  induction t as [|[i o1] r IH]; intros id o H; [discriminate|]. cbn [off_of] in H. destruct (i =? id) eqn:E.
  - inversion H; subst. apply Z.eqb_eq in E. subst. left. reflexivity.
  - right. apply IH. exact H.
Qed.

Lemma known_cons t p kb : known t kb -> known (p :: t) kb.
Proof.
  unfold known. intros H. apply Forall_forall. intros e He. pose proof (proj1 (Forall_forall _ _) H e He) as X. cbv beta in X.
  destruct (k_entry e) as [id|]; [|exact I]. destruct p as [i o]. cbn [off_of]. destruct (i =? id); [discriminate | exact X].
Qed.

Lemma send_i_kbuf now c a e : exists x, kbuf (fst (send_i now c a e)) = kbuf c ++ [x] /\ k_entry x = e.
Proof.
  destruct c as [a1 a2 a3 a4 a5 a6 a7 a8 a9 a10 a11 a12 a13 a14 a15 a16 wm a18]. unfold send_i, wr. cbn.
  destruct (wm =? 1); [eexists; split; reflexivity|]. destruct (wm =? 2); [eexists; split; reflexivity|].
  destruct (0 <? _); eexists; split; reflexivity.
Qed.

(* ---- sendNextLowPriorityASDU *)
Theorem ev_send_ring g now s c q t : Rq q t (kbuf c) (mq s) ->
  exists c' q' t' o, ev_send_r g now c q t = Ok (c', q', t', o) /\
    exists s', ev_send g now s c = (s', c', o) /\ Rq q' t' (kbuf c') (mq s') /\ nid q' = nid q.
Proof.
  intros (l & HI & Habs & Hv & Hk). unfold ev_send_r, ev_send. destruct (kfull (c_k g) c).
  { exists c, q, t, []. split; [reflexivity|]. exists s. split; [reflexivity|]. split; [|reflexivity]. exists l. auto. }
  pose proof (mq_next_spec q l HI) as S. pose proof (refine_next l (inv_offsets_nodup q l HI)) as RN. rewrite <- Habs.
  destruct (first_waiting l) as [[o e]|] eqn:F.
  - destruct S as (q' & E & HI' & Hin & Hn & Hc & _). rewrite E, RN. cbn [absent q_asdu q_id].
    destruct (send_i_kbuf now c (e_asdu e) (Some (e_id e))) as (x & Ekb & Ex).
    destruct (send_i now c (e_asdu e) (Some (e_id e))) as [c2 o2]. cbn [fst] in Ekb.
    exists c2, q', ((e_id e, o) :: t), o2. split; [reflexivity|]. exists (s <| mq := absq (upd_at o QSENT l) |>). split; [reflexivity|].
    split; [|exact Hn]. exists (upd_at o QSENT l). split; [exact HI'|]. split; [destruct s; reflexivity|]. split.
    + constructor.
      * cbn [fst snd]. apply (valid_pair_upd q q'); try assumption.
        destruct HI as (_ & _ & _ & _ & Hid & Hn0 & _). pose proof (ids_in_range _ _ (o, e) Hid Hin) as Hr. cbn [snd] in Hr.
        split; [lia | right; exists e; split; [exact Hin | reflexivity]].
      * apply Forall_forall. intros p Hp. pose proof (proj1 (Forall_forall _ _) Hv p Hp) as X. cbv beta in X.
        apply (valid_pair_upd q q'); assumption.
    + rewrite Ekb. unfold known. apply Forall_app. split; [apply known_cons; exact Hk|]. constructor; [|constructor].
      rewrite Ex. cbn [off_of]. rewrite Z.eqb_refl. discriminate.
  - rewrite S, RN. exists c, q, t, []. split; [reflexivity|]. exists s. split; [reflexivity|]. split; [|reflexivity]. exists l. auto.
Qed.

(* ---- the release loop *)
Theorem release_ring : forall n kb q t ql, Rq q t kb ql -> nid q < TWO64 ->
  exists kb' q', release_r n kb t q = Ok (kb', q') /\ Rq q' t kb' (snd (release n kb ql)) /\ fst (release n kb ql) = kb' /\ nid q' = nid q.
Proof.
  induction n as [|m IH]; intros kb q t ql HR Hn; cbn [release_r release].
  { exists kb, q. split; [destruct kb; reflexivity|]. cbn [fst snd]. auto. }
  destruct kb as [|e r].
  { exists [], q. split; [reflexivity|]. cbn [fst snd]. auto. }
  destruct HR as (l & HI & Habs & Hv & Hk). inversion Hk as [|? ? He Hr]; subst.
  destruct (k_entry e) as [id|] eqn:Ee.
  - destruct (off_of id t) as [o|] eqn:Eo; [|exfalso; apply He; reflexivity].
    pose proof (off_of_in t id o Eo) as Hin. pose proof (proj1 (Forall_forall _ _) Hv _ Hin) as Hvp. cbn [fst snd] in Hvp.
    destruct (mq_confirm_spec q l o id HI Hn Hvp) as (q' & E & HI' & Hn' & _). rewrite E.
    assert (HR' : Rq q' t r (Server.mq_mark id (absq l))).
    { exists (confirm_lay q l o id). split; [exact HI'|]. split; [apply refine_confirm; assumption|]. split; [|exact Hr].
      apply Forall_forall. intros p Hp. pose proof (proj1 (Forall_forall _ _) Hv p Hp) as X. cbv beta in X.
      apply (valid_pair_confirm q q'); assumption. }
    destruct (IH r q' t _ HR' ltac:(lia)) as (kb' & q2 & E2 & HR2 & Hf & Hn2). exists kb', q2. split; [exact E2|].
    split; [exact HR2|]. split; [exact Hf | lia].
  - assert (HR' : Rq q t r (absq l)) by (exists l; auto).
    destruct (IH r q t _ HR' Hn) as (kb' & q2 & E2 & HR2 & Hf & Hn2). exists kb', q2. auto.
Qed.

(* ---- CS104_Slave_enqueueASDU: the ring displaces its D oldest entries (none while there is room), then appends *)
Theorem enqueue_ring q t kb ql a : Rq q t kb ql -> lenz a <= 250 ->
  exists q' D, mq_enqueue q a = Ok q' /\ (D <= length ql)%nat /\
    Rq q' t kb (skipn D ql ++ [{| q_id := nid q; q_asdu := a; q_st := Server.QWAIT |}]) /\ nid q' = nid q + 1.
Proof.
  intros (l & HI & Habs & Hv & Hk) Hlen. destruct (mq_enqueue_spec q l a HI) as [_ Hs].
  destruct (Hs Hlen) as (q' & D & nx & E & HD & HI' & Hn & _). exists q', D. split; [exact E|].
  split; [subst ql; unfold absq; rewrite map_length; exact HD|]. split; [|exact Hn].
  exists (skipn D l ++ [(nx, new_ent q a)]). split; [exact HI'|]. split; [rewrite refine_enqueue, Habs; reflexivity|]. split; [|exact Hk].
  apply Forall_forall. intros p Hp. pose proof (proj1 (Forall_forall _ _) Hv p Hp) as X. cbv beta in X.
  apply (valid_pair_enq q q' l D nx); assumption.
Qed.
Theorem enqueue_ring_oversized q a : 250 < lenz a -> forall l, MQInv q l -> mq_enqueue q a = Ok q.
Proof. intros H l HI. destruct (mq_enqueue_spec q l a HI) as [Hb _]. exact (Hb H). Qed.

(* ---- a connection ends: sent-but-unconfirmed entries wait again; the k-buffer is gone *)
Theorem reset_ring q t kb ql : Rq q t kb ql ->
  exists q', mq_reset_waiting q = Ok q' /\ Rq q' t [] (Server.mq_reset_waiting ql) /\ nid q' = nid q.
Proof.
  intros (l & HI & Habs & Hv & Hk). destruct (mq_reset_waiting_spec q l HI) as (q' & E & HI' & Hn & Hc & _).
  exists q'. split; [exact E|]. split; [|exact Hn]. exists (reset_lay l l). split; [exact HI'|].
  split; [rewrite <- Habs; apply refine_reset, (inv_offsets_nodup q l HI)|]. split; [|constructor].
  apply Forall_forall. intros p Hp. pose proof (proj1 (Forall_forall _ _) Hv p Hp) as X. cbv beta in X.
  apply (valid_pair_reset l q q'); assumption.
Qed.

Lemma Rq_new n : 1 <= n -> Rq (mq_new n) [] [] [].
Proof. intros H. exists []. split; [apply MQInv_new; exact H|]. split; [reflexivity|]. split; constructor. Qed.

(* ---- sendWaitingASDUs with BOTH rings: parked responses from the high-priority ring first, then one event from the event ring *)
From L60870 Require Import Cs104.HpRingProofs Cs104.SchedRing.

Definition send_waiting_rr (g : cfg) (now : Z) (c : conn) (hq : hpq) (q : mqs) (t : offs_t) : res (conn * hpq * mqs * offs_t * list obs) :=
  match send_hp_r (S (Z.to_nat (hcnt hq))) g now c hq with
  | Fault w => Fault w
  | Ok (c1, hq1, go, o1) =>
    if go then match ev_send_r g now c1 q t with
               | Ok (c2, q2, t2, o2) => Ok (c2, hq1, q2, t2, o1 ++ o2)
               | Fault w => Fault w
               end
    else Ok (c1, hq1, q, t, o1)
  end.

Lemma known_app t a b : known t (a ++ b) <-> known t a /\ known t b. Proof. apply Forall_app. Qed.

Lemma send_hp_known t : forall fuel g now c, known t (kbuf c) -> known t (kbuf (fst (fst (send_hp fuel g now c)))).
Proof.
  induction fuel as [|f IH]; intros g now c H; cbn [send_hp]; [exact H|].
  destruct (hp c) as [|a rest]; [exact H|]. destruct (kfull (c_k g) c); [exact H|].
  destruct (send_i_kbuf now (c <| hp := rest |>) a None) as (x & Ekb & Ex).
  destruct (send_i now (c <| hp := rest |>) a None) as [c1 o1]. cbn [fst] in Ekb.
  assert (H1 : known t (kbuf c1)).
  { rewrite Ekb. apply known_app. split; [destruct c; exact H|]. constructor; [rewrite Ex; exact I | constructor]. }
  destruct (negb (running c1)); [exact H1|]. specialize (IH g now c1 H1).
  destruct (send_hp f g now c1) as [[c2 b] o2]. exact IH.
Qed.

Lemma kbuf_set_hp c L : kbuf (c <| hp := L |>) = kbuf c. Proof. destruct c. reflexivity. Qed.

Lemma ev_send_hp g now s c L :
  ev_send g now s (c <| hp := L |>) =
  let '(s', c', o) := ev_send g now s c in (s', c' <| hp := L |>, o).
Proof.
  unfold ev_send. rewrite kfull_hp. destruct (kfull (c_k g) c); [reflexivity|].
  destruct (Server.mq_next_waiting (mq s)) as [[e q']|]; [|reflexivity].
  rewrite send_i_hp. destruct (send_i now c (q_asdu e) (Some (q_id e))) as [c2 o2]. reflexivity.
Qed.

Theorem send_waiting_rings g now s c hq L q t : HPInv hq L -> Rq q t (kbuf c) (mq s) ->
  exists c' hq' q' t' o, send_waiting_rr g now c hq q t = Ok (c', hq', q', t', o) /\
    let '(sm, cm, om) := send_waiting g now s (c <| hp := L |>) in
    c' <| hp := hp cm |> = cm /\ o = om /\ HPInv hq' (hp cm) /\ Rq q' t' (kbuf cm) (mq sm) /\ nid q' = nid q.
Proof.
  intros HH HR. unfold send_waiting_rr. rewrite send_waiting_split, hp_set.
  assert (Hf : S (Z.to_nat (hcnt hq)) = S (length L)) by (destruct HH as (Hc & _); rewrite Hc, Nat2Z.id; reflexivity). rewrite Hf.
  destruct (send_hp_ring (S (length L)) g now c hq L HH) as (c1 & hq1 & go & o1 & E & H). rewrite E.
  assert (HK : known t (kbuf (fst (fst (send_hp (S (length L)) g now (c <| hp := L |>)))))).
  { apply send_hp_known. rewrite kbuf_set_hp. destruct HR as (l & _ & _ & _ & Hk). exact Hk. }
  destruct (send_hp (S (length L)) g now (c <| hp := L |>)) as [[cm gm] om]. cbn [fst] in HK. destruct H as (A & B & C & D). subst go o1.
  assert (Ek : kbuf c1 = kbuf cm) by (rewrite <- A; symmetry; apply kbuf_set_hp).
  destruct gm.
  - assert (HR1 : Rq q t (kbuf c1) (mq s)).
    { destruct HR as (l & X1 & X2 & X3 & _). exists l. rewrite Ek. auto. }
    destruct (ev_send_ring g now s c1 q t HR1) as (c2 & q2 & t2 & o2 & E2 & s' & EL & HR2 & Hn). rewrite E2.
    rewrite <- A, ev_send_hp, EL.
    exists c2, hq1, q2, t2, (om ++ o2). split; [reflexivity|]. rewrite hp_set, kbuf_set_hp.
    split; [reflexivity|]. split; [reflexivity|]. split; [exact D|]. split; [exact HR2 | exact Hn].
  - exists c1, hq1, q, t, om. split; [reflexivity|]. split; [exact A|]. split; [reflexivity|]. split; [exact D|].
    split; [|reflexivity]. destruct HR as (l & X1 & X2 & X3 & _). exists l. auto.
Qed.

(* non-vacuity: event ring of one slot pair (n = 1), window k = 2: three events enqueued, two go out, the peer acknowledges the first,
   the third goes out, the connection ends: the two unacknowledged ones wait again *)
Definition exm_g : cfg := {| c_k := 2; c_w := 8; c_t1 := 15; c_t2 := 10; c_t3 := 20; c_interrog := true; c_hret := true; c_burst := 0;
                             c_bsize := 0; c_term := false; c_reqret := true |}.
Definition exm_c : conn := new_conn exm_g 0 1 <| st := STARTED |>.
Definition exm_ev (n : Z) : list Z := [30; 1; 3; 0; 1; 0; n; 0; 0].
Definition exm_run : option (list (list Z) * list Z * list Z) :=
  match mq_enqueue (mq_new 1) (exm_ev 1) with
  | Ok q1 => match mq_enqueue q1 (exm_ev 2) with
    | Ok q2 => match mq_enqueue q2 (exm_ev 3) with
      | Ok q3 => match send_waiting_rr exm_g 0 exm_c (hp_new 1) q3 [] with
        | Ok (c1, h1, q4, t1, o1) => match send_waiting_rr exm_g 0 c1 h1 q4 t1 with
          | Ok (c2, h2, q5, t2, o2) => match send_waiting_rr exm_g 0 c2 h2 q5 t2 with
            | Ok (c3, h3, q6, t3, o3) => match release_r 1 (kbuf c3) t3 q6 with
              | Ok (kb, q7) => match send_waiting_rr exm_g 0 (c3 <| kbuf := kb |>) h3 q7 t3 with
                | Ok (c4, h4, q8, t4, o4) => match mq_reset_waiting q8, mq_entries q8 with
                  | Ok q9, Ok l8 => match mq_entries q9 with
                    | Ok l9 => Some (itx (o1 ++ o2 ++ o3 ++ o4), map (fun p => e_st (snd p)) l8, map (fun p => e_st (snd p)) l9)
                    | Fault _ => None end
                  | _, _ => None end
                | Fault _ => None end
              | Fault _ => None end
            | Fault _ => None end
          | Fault _ => None end
        | Fault _ => None end
      | Fault _ => None end
    | Fault _ => None end
  | Fault _ => None end.
Example sched_mq_example : exm_run = Some ([exm_ev 1; exm_ev 2; exm_ev 3], [QSENT; QSENT], [QWAIT; QWAIT]) /\ Rq (mq_new 1) [] (kbuf exm_c) [].
Proof. split; [vm_compute; reflexivity | apply Rq_new; lia]. Qed.
