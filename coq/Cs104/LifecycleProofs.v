(* C18: proofs about Cs104/Lifecycle.v -- for every operation sequence from the initial state and every table size:
   accounting (openConnections = slots in use), per-connection event grammar and its link to the slot state,
   CLOSED for every connection reaped while the server runs, stop closes everything, slot reuse,
   no event for a connection that is neither open nor pending, every socket pending / open / destroyed. *)
From Coq Require Import ZArith List Bool Lia Permutation.
From L60870 Require Import Cs104.Lifecycle.
Import ListNotations.
Local Open Scope Z_scope.

(* ------------------------------------------------------------------ event grammar *)
Lemma events_of_app : forall id a b, events_of id (a ++ b) = events_of id a ++ events_of id b.
Proof. intros; unfold events_of; rewrite filter_app, map_app; reflexivity. Qed.

Lemma phase_of_app : forall lg evs id, phase_of (lg ++ evs) id = fold_left ev_step (events_of id evs) (phase_of lg id).
Proof. intros; unfold phase_of; rewrite events_of_app, fold_left_app; reflexivity. Qed.

Lemma phase_of_snoc_same : forall lg id e, phase_of (lg ++ [(id, e)]) id = ev_step (phase_of lg id) e.
Proof. intros; rewrite phase_of_app; unfold events_of; cbn; rewrite Z.eqb_refl; reflexivity. Qed.

Lemma phase_of_snoc_other : forall lg id e id', id' <> id -> phase_of (lg ++ [(id, e)]) id' = phase_of lg id'.
Proof.
  intros lg id e id' Hne; rewrite phase_of_app; unfold events_of; cbn.
  destruct (id =? id') eqn:E; [apply Z.eqb_eq in E; congruence | reflexivity].
Qed.

Lemma events_of_none : forall id l, (forall p, In p l -> fst p <> id) -> events_of id l = [].
Proof.
  intros id l; induction l as [|p r IH]; intros H; [reflexivity|].
  unfold events_of in *; cbn. destruct (fst p =? id) eqn:E.
  - apply Z.eqb_eq in E; exfalso; exact (H p (or_introl eq_refl) E).
  - apply IH; intros q Hq; apply H; right; exact Hq.
Qed.

(* ------------------------------------------------------------------ slot table *)
Lemma upd_length : forall i f l, length (upd i f l) = length l.
Proof. intros i f l; revert i; induction l as [|x r IH]; intros [|j]; cbn; auto. Qed.

Lemma upd_none : forall i f l, nth_error l i = None -> upd i f l = l.
Proof. intros i f l; revert i; induction l as [|x r IH]; intros [|j] H; cbn in *; try reflexivity; [discriminate | rewrite IH; auto]. Qed.

Lemma upd_split : forall i f l x, nth_error l i = Some x ->
  exists l1 l2, l = l1 ++ x :: l2 /\ length l1 = i /\ upd i f l = l1 ++ f x :: l2.
Proof.
  intros i f l; revert i; induction l as [|y r IH]; intros [|j] x H; cbn in H; try discriminate.
  - injection H as ->. exists [], r; cbn; auto.
  - destruct (IH j x H) as (l1 & l2 & E & L & U). exists (y :: l1), l2; cbn; rewrite <- E, L, U; auto.
Qed.

Lemma nth_error_upd : forall i j f l,
  nth_error (upd j f l) i = if Nat.eqb i j then option_map f (nth_error l i) else nth_error l i.
Proof.
  intros i j f l; revert i j; induction l as [|x r IH]; intros i j.
  - destruct j, i; cbn; try reflexivity; destruct (Nat.eqb i j); reflexivity.
  - destruct j as [|j], i as [|i]; cbn; try reflexivity. apply IH.
Qed.

Lemma used_sids_app : forall a b, used_sids (a ++ b) = used_sids a ++ used_sids b.
Proof. intros; unfold used_sids; rewrite filter_app, map_app; reflexivity. Qed.
Lemma used_sids_cons : forall x r, used_sids (x :: r) = (if c_used x then [c_sid x] else []) ++ used_sids r.
Proof. intros; unfold used_sids; cbn; destruct (c_used x); reflexivity. Qed.
Lemma count_used_app : forall a b, count_used (a ++ b) = count_used a + count_used b.
Proof. induction a as [|x r IH]; intros; cbn; [reflexivity | rewrite IH; lia]. Qed.
Lemma count_used_bounds : forall l, 0 <= count_used l <= Z.of_nat (length l).
Proof. induction l as [|x r IH]; cbn [count_used length]; [lia | destruct (c_used x); lia]. Qed.
Lemma used_sids_in : forall l id, In id (used_sids l) <-> exists x, In x l /\ c_used x = true /\ c_sid x = id.
Proof.
  intros; unfold used_sids; rewrite in_map_iff; split.
  - intros (x & E & H); apply filter_In in H; destruct H; eauto.
  - intros (x & H & U & E); exists x; split; [auto | apply filter_In; auto].
Qed.

Lemma find_free_some : forall l i, find_free l = Some i -> exists x, nth_error l i = Some x /\ c_used x = false.
Proof.
  induction l as [|y r IH]; intros i H; cbn in H; [discriminate|].
  destruct (c_used y) eqn:U.
  - destruct (find_free r) as [k|] eqn:F; [|discriminate]. injection H as <-. cbn. apply IH; reflexivity.
  - injection H as <-. exists y; auto.
Qed.
Lemma find_free_none : forall l, find_free l = None -> count_used l = Z.of_nat (length l).
Proof.
  induction l as [|y r IH]; intros H; cbn in *; [reflexivity|].
  destruct (c_used y); [|discriminate]. destruct (find_free r); [discriminate|]. rewrite IH by reflexivity. lia.
Qed.

(* ------------------------------------------------------------------ invariant *)
Definition slot_ok' (nx : Z) (ph : phase) (x : cslot) : Prop :=
  (c_used x = true ->
     0 <= c_sid x < nx /\ (ph = PStopped \/ ph = PStarted) /\ (c_st x = 1 -> ph = PStarted) /\
     (c_run x = true -> ph = PStarted -> c_st x = 1)) /\
  (c_used x = false -> c_st x = 0).
Definition slot_ok (lg : list (Z * Z)) (nx : Z) (x : cslot) : Prop := slot_ok' nx (phase_of lg (c_sid x)) x.

Record InvC (sl : list cslot) (op : Z) (bl : list (Z * option Z)) (nx : Z) (lg : list (Z * Z)) (dd : list Z) : Prop := {
  ic_open : op = count_used sl;
  ic_nodup : NoDup (used_sids sl);
  ic_slots : Forall (slot_ok lg nx) sl;
  ic_bl_nodup : NoDup (map fst bl);
  ic_bl : forall id, In id (map fst bl) ->
            0 <= id < nx /\ phase_of lg id = PNone /\ ~ In id (used_sids sl) /\ ~ In id dd;
  ic_fresh : forall id, ~ (0 <= id < nx) -> phase_of lg id = PNone;
  ic_noerr : forall id, phase_of lg id <> PErr;
  ic_cover : forall id, 0 <= id < nx -> In id (map fst bl) \/ In id (used_sids sl) \/ In id dd;
  ic_dead : forall id, In id (used_sids sl) -> ~ In id dd;
  ic_dead_rng : forall id, In id dd -> 0 <= id < nx;
  ic_next : 0 <= nx }.

Lemma used_in_range : forall sl op bl nx lg dd id, InvC sl op bl nx lg dd -> In id (used_sids sl) -> 0 <= id < nx.
Proof.
  intros sl op bl nx lg dd id I H. apply used_sids_in in H. destruct H as (x & Hx & U & <-).
  pose proof (ic_slots _ _ _ _ _ _ I) as F. rewrite Forall_forall in F. destruct (F x Hx) as [OK _]. destruct (OK U) as (R & _). exact R.
Qed.

Lemma slot_ok_unused : forall nx ph ph' x, c_used x = false -> slot_ok' nx ph x -> slot_ok' nx ph' x.
Proof. intros nx ph ph' x U [_ H]; split; [congruence | exact H]. Qed.

Lemma Forall_upd : forall (P : cslot -> Prop) i f l,
  Forall P l -> (forall x, nth_error l i = Some x -> P x -> P (f x)) -> Forall P (upd i f l).
Proof.
  intros P i f l; revert i; induction l as [|y r IH]; intros [|j] H Hf; cbn; inversion H; subst; constructor; auto.
Qed.

Lemma nodup_mid : forall (a : Z) l1 l2, NoDup (l1 ++ a :: l2) <-> NoDup (a :: l1 ++ l2).
Proof.
  intros; split; intros H.
  - eapply Permutation_NoDup; [symmetry; apply Permutation_middle | exact H].
  - eapply Permutation_NoDup; [apply Permutation_middle | exact H].
Qed.

(* sids of the used slots around position i, when slot i itself is used *)
Lemma used_split : forall l1 x l2, c_used x = true ->
  used_sids (l1 ++ x :: l2) = used_sids l1 ++ c_sid x :: used_sids l2.
Proof. intros; rewrite used_sids_app, used_sids_cons, H; reflexivity. Qed.
Lemma unused_split : forall l1 x l2, c_used x = false ->
  used_sids (l1 ++ x :: l2) = used_sids l1 ++ used_sids l2.
Proof. intros; rewrite used_sids_app, used_sids_cons, H; reflexivity. Qed.

(* G1: a used-ness and id preserving change of slot i, no event *)
Lemma inv_upd_quiet : forall sl op bl nx lg dd i x f,
  InvC sl op bl nx lg dd -> nth_error sl i = Some x ->
  c_used (f x) = c_used x -> c_sid (f x) = c_sid x ->
  (slot_ok' nx (phase_of lg (c_sid x)) x -> slot_ok' nx (phase_of lg (c_sid x)) (f x)) ->
  InvC (upd i f sl) op bl nx lg dd /\ used_sids (upd i f sl) = used_sids sl.
Proof.
  intros sl op bl nx lg dd i x f I N HU HS HOK.
  destruct (upd_split i f sl x N) as (l1 & l2 & E & L & U).
  assert (US : used_sids (upd i f sl) = used_sids sl).
  { rewrite U, E, !used_sids_app, !used_sids_cons, HU, HS; reflexivity. }
  assert (CU : count_used (upd i f sl) = count_used sl).
  { rewrite U, E, !count_used_app; cbn [count_used]; rewrite HU; reflexivity. }
  split; [|exact US].
  destruct I as [I1 I2 I3 I4 I5 I6 I7 I8 I9 I11 I10].
  constructor; try rewrite US; try rewrite CU; auto.
  apply Forall_upd; [exact I3|]. intros y Ny Hy. assert (y = x) by congruence; subst y.
  unfold slot_ok in *. rewrite HS. apply HOK; exact Hy.
Qed.

(* G2: an event for the connection in (used) slot i together with a change of that slot *)
Lemma inv_upd_event : forall sl op bl nx lg dd i x f e,
  InvC sl op bl nx lg dd -> nth_error sl i = Some x -> c_used x = true ->
  c_used (f x) = true -> c_sid (f x) = c_sid x ->
  slot_ok' nx (ev_step (phase_of lg (c_sid x)) e) (f x) ->
  InvC (upd i f sl) op bl nx (lg ++ [(c_sid x, e)]) dd /\ used_sids (upd i f sl) = used_sids sl.
Proof.
  intros sl op bl nx lg dd i x f e I N UX HU HS HOK.
  destruct (upd_split i f sl x N) as (l1 & l2 & E & L & U).
  assert (US : used_sids (upd i f sl) = used_sids sl).
  { rewrite U, E, !used_sids_app, !used_sids_cons, HU, HS, UX; reflexivity. }
  assert (CU : count_used (upd i f sl) = count_used sl).
  { rewrite U, E, !count_used_app; cbn [count_used]; rewrite HU, UX; reflexivity. }
  split; [|exact US].
  destruct I as [I1 I2 I3 I4 I5 I6 I7 I8 I9 I11 I10].
  assert (INX : In (c_sid x) (used_sids sl)).
  { apply used_sids_in; exists x; split; [eapply nth_error_In; eauto | auto]. }
  assert (RNG : 0 <= c_sid x < nx).
  { rewrite Forall_forall in I3. destruct (I3 x (nth_error_In _ _ N)) as [H _]. destruct (H UX) as [R _]; exact R. }
  assert (PH : ev_step (phase_of lg (c_sid x)) e = PStopped \/ ev_step (phase_of lg (c_sid x)) e = PStarted).
  { destruct HOK as [H _]. destruct (H HU) as (_ & P & _); exact P. }
  constructor; try rewrite US; try rewrite CU; auto.
  - (* slots *)
    rewrite U. rewrite E in I3, I2. apply Forall_app in I3. destruct I3 as [F1 F2]. apply Forall_cons_iff in F2; destruct F2 as [Fx F3].
    rewrite used_split in I2 by exact UX. apply nodup_mid in I2. apply NoDup_cons_iff in I2; destruct I2 as [NI ND].
    assert (OTH : forall y, In y (l1 ++ l2) -> slot_ok lg nx y -> slot_ok (lg ++ [(c_sid x, e)]) nx y).
    { intros y Iy Hy. unfold slot_ok in *. destruct (c_used y) eqn:UY.
      - rewrite phase_of_snoc_other; [exact Hy|]. intros EQ. apply NI. rewrite <- EQ, <- used_sids_app.
        apply used_sids_in; exists y; auto.
      - eapply slot_ok_unused; eauto. }
    apply Forall_app; split.
    + rewrite Forall_forall in *; intros y Iy; apply OTH; [apply in_or_app; auto | auto].
    + constructor.
      * unfold slot_ok. rewrite HS, phase_of_snoc_same. exact HOK.
      * rewrite Forall_forall in *; intros y Iy; apply OTH; [apply in_or_app; auto | auto].
  - (* backlog *)
    intros id Hid. destruct (I5 id Hid) as (R & P & NU & ND). repeat split; try tauto.
    rewrite phase_of_snoc_other; [exact P | intros EQ; subst; tauto].
  - intros id Hid. rewrite phase_of_snoc_other; [auto | intros EQ; subst; tauto].
  - intros id. destruct (Z.eq_dec id (c_sid x)) as [->|NE].
    + rewrite phase_of_snoc_same. destruct PH as [-> | ->]; discriminate.
    + rewrite phase_of_snoc_other by exact NE. apply I7.
Qed.

(* G3: reaping the (used) slot i: CLOSED, slot released, counter decremented, socket destroyed *)
Lemma inv_reap : forall sl op bl nx lg dd i x,
  InvC sl op bl nx lg dd -> nth_error sl i = Some x -> c_used x = true ->
  let sl' := upd i (fun y => set_st 0 (set_used false y)) sl in
  InvC sl' (op - 1) bl nx (lg ++ [(c_sid x, 1)]) (c_sid x :: dd) /\
  (forall id, In id (used_sids sl') <-> In id (used_sids sl) /\ id <> c_sid x) /\
  phase_of (lg ++ [(c_sid x, 1)]) (c_sid x) = PClosed.
Proof.
  intros sl op bl nx lg dd i x I N UX sl'.
  destruct (upd_split i (fun y => set_st 0 (set_used false y)) sl x N) as (l1 & l2 & E & L & U).
  destruct I as [I1 I2 I3 I4 I5 I6 I7 I8 I9 I11 I10].
  assert (US : used_sids sl' = used_sids l1 ++ used_sids l2).
  { unfold sl'; rewrite U, unused_split; reflexivity. }
  assert (US0 : used_sids sl = used_sids l1 ++ c_sid x :: used_sids l2).
  { rewrite E, used_split; auto. }
  assert (ND0 : NoDup (c_sid x :: used_sids l1 ++ used_sids l2)).
  { apply nodup_mid; rewrite <- US0; exact I2. }
  apply NoDup_cons_iff in ND0; destruct ND0 as [NI ND].
  assert (MEM : forall id, In id (used_sids sl') <-> In id (used_sids sl) /\ id <> c_sid x).
  { intros id; rewrite US, US0; split.
    - intros H; split; [apply in_app_or in H; apply in_or_app; destruct H; [left | right; right]; auto | intros ->; tauto].
    - intros [H NE]. apply in_app_or in H. apply in_or_app. destruct H as [H | [H | H]]; [left | congruence | right]; auto. }
  assert (OKX : slot_ok lg nx x). { rewrite Forall_forall in I3; apply I3; eapply nth_error_In; eauto. }
  destruct OKX as [OKX _]. destruct (OKX UX) as (RNG & PH & _).
  assert (PC : phase_of (lg ++ [(c_sid x, 1)]) (c_sid x) = PClosed).
  { rewrite phase_of_snoc_same. destruct PH as [-> | ->]; reflexivity. }
  split; [|split; [exact MEM | exact PC]].
  constructor; auto.
  - unfold sl'; rewrite U, E in *. rewrite !count_used_app in *; cbn [count_used set_st set_used c_used] in *. rewrite UX in I1. lia.
  - rewrite US; exact ND.
  - unfold sl'; rewrite U. rewrite E in I3. apply Forall_app in I3. destruct I3 as [F1 F2]. apply Forall_cons_iff in F2; destruct F2 as [Fx F3].
    assert (OTH : forall y, In y (l1 ++ l2) -> slot_ok lg nx y -> slot_ok (lg ++ [(c_sid x, 1)]) nx y).
    { intros y Iy Hy. unfold slot_ok in *. destruct (c_used y) eqn:UY.
      - rewrite phase_of_snoc_other; [exact Hy|]. intros EQ. apply NI. rewrite <- EQ, <- used_sids_app.
        apply used_sids_in; exists y; auto.
      - eapply slot_ok_unused; eauto. }
    apply Forall_app; split.
    + rewrite Forall_forall in *; intros y Iy; apply OTH; [apply in_or_app; auto | auto].
    + constructor.
      * split; cbn; [discriminate | reflexivity].
      * rewrite Forall_forall in *; intros y Iy; apply OTH; [apply in_or_app; auto | auto].
  - intros id Hid. destruct (I5 id Hid) as (R & P & NU & NDd).
    assert (id <> c_sid x). { intros ->. apply NU. rewrite US0. apply in_or_app; right; left; reflexivity. }
    repeat split; try tauto.
    + rewrite phase_of_snoc_other; auto.
    + intros H'; apply MEM in H'; tauto.
    + intros [H' | H']; [congruence | tauto].
  - intros id Hid. rewrite phase_of_snoc_other; [auto | intros ->; tauto].
  - intros id. destruct (Z.eq_dec id (c_sid x)) as [->|NE].
    + rewrite PC; discriminate.
    + rewrite phase_of_snoc_other by exact NE. apply I7.
  - intros id Hid. destruct (Z.eq_dec id (c_sid x)) as [->|NE]; [right; right; left; reflexivity|].
    destruct (I8 id Hid) as [H | [H | H]]; [left; auto | right; left; apply MEM; auto | right; right; right; auto].
  - intros id Hid [H | H]; apply MEM in Hid; [destruct Hid; congruence | destruct Hid as [Hid _]; exact (I9 id Hid H)].
  - intros id [<- | H]; [exact RNG | auto].
Qed.

(* G4: accepting the head of the backlog into the free slot i *)
Lemma inv_accept : forall sl op bl nx lg dd i x id g g' rest,
  InvC sl op bl nx lg dd -> bl = (id, g) :: rest -> nth_error sl i = Some x -> c_used x = false ->
  let sl' := upd i (fun y => mkSlot true true (c_st y) id g') sl in
  InvC sl' (op + 1) rest nx (lg ++ [(id, 0)]) dd /\
  (forall k, In k (used_sids sl') <-> In k (used_sids sl) \/ k = id).
Proof.
  intros sl op bl nx lg dd i x id g g' rest I -> N UX sl'.
  destruct (upd_split i (fun y => mkSlot true true (c_st y) id g') sl x N) as (l1 & l2 & E & L & U).
  destruct I as [I1 I2 I3 I4 I5 I6 I7 I8 I9 I11 I10].
  assert (US : used_sids sl' = used_sids l1 ++ id :: used_sids l2).
  { unfold sl'; rewrite U, used_split; reflexivity. }
  assert (US0 : used_sids sl = used_sids l1 ++ used_sids l2).
  { rewrite E, unused_split; auto. }
  assert (MEM : forall k, In k (used_sids sl') <-> In k (used_sids sl) \/ k = id).
  { intros k; rewrite US, US0; split; intros H.
    - apply in_app_or in H. destruct H as [H | [H | H]]; [left; apply in_or_app; auto | right; auto | left; apply in_or_app; auto].
    - apply in_or_app. destruct H as [H | ->]; [apply in_app_or in H; destruct H; [left | right; right]; auto | right; left; reflexivity]. }
  cbn [map fst] in I4, I5, I8.
  destruct (I5 id (or_introl eq_refl)) as (RNG & PN & NU & NDd).
  apply NoDup_cons_iff in I4; destruct I4 as [NIr NDr].
  assert (STX : c_st x = 0).
  { rewrite Forall_forall in I3. destruct (I3 x (nth_error_In _ _ N)) as [_ H]; auto. }
  split; [|exact MEM].
  constructor; auto.
  - unfold sl'; rewrite U, E in *. rewrite !count_used_app in *; cbn [count_used c_used] in *. rewrite UX in I1. lia.
  - rewrite US. apply nodup_mid. constructor; [rewrite <- US0; exact NU | rewrite <- US0; exact I2].
  - unfold sl'; rewrite U. rewrite E in I3. apply Forall_app in I3. destruct I3 as [F1 F2]. apply Forall_cons_iff in F2; destruct F2 as [Fx F3].
    assert (OTH : forall y, In y (l1 ++ l2) -> slot_ok lg nx y -> slot_ok (lg ++ [(id, 0)]) nx y).
    { intros y Iy Hy. unfold slot_ok in *. destruct (c_used y) eqn:UY.
      - rewrite phase_of_snoc_other; [exact Hy|]. intros EQ. apply NU. rewrite US0, <- EQ, <- used_sids_app.
        apply used_sids_in; exists y; auto.
      - eapply slot_ok_unused; eauto. }
    apply Forall_app; split.
    + rewrite Forall_forall in *; intros y Iy; apply OTH; [apply in_or_app; auto | auto].
    + constructor.
      * unfold slot_ok, slot_ok'; cbn [c_sid c_used c_st c_run]. rewrite phase_of_snoc_same, PN. cbn [ev_step Z.eqb].
        split; [intros _; split; [lia|]; split; [left; reflexivity|]; split; [intros H1; lia | intros _ H2; discriminate] | intros H; discriminate].
      * rewrite Forall_forall in *; intros y Iy; apply OTH; [apply in_or_app; auto | auto].
  - intros k Hk. destruct (I5 k (or_intror Hk)) as (R & P & NUk & NDk).
    assert (k <> id) by (intros ->; tauto).
    repeat split; try tauto.
    + rewrite phase_of_snoc_other; auto.
    + intros H'; apply MEM in H'; tauto.
  - intros k Hk. rewrite phase_of_snoc_other; [auto | intros ->; tauto].
  - intros k. destruct (Z.eq_dec k id) as [->|NE].
    + rewrite phase_of_snoc_same, PN; discriminate.
    + rewrite phase_of_snoc_other by exact NE. apply I7.
  - intros k Hk. destruct (I8 k Hk) as [[H | H] | [H | H]];
      [right; left; apply MEM; right; auto | left; auto | right; left; apply MEM; auto | right; right; auto].
  - intros k Hk H. apply MEM in Hk. destruct Hk as [Hk | ->]; [exact (I9 k Hk H) | tauto].
Qed.

(* G5: the head of the backlog is turned away: its socket is destroyed *)
Lemma inv_refuse : forall sl op bl nx lg dd id g rest,
  InvC sl op bl nx lg dd -> bl = (id, g) :: rest -> InvC sl op rest nx lg (id :: dd).
Proof.
  intros sl op bl nx lg dd id g rest I ->.
  destruct I as [I1 I2 I3 I4 I5 I6 I7 I8 I9 I11 I10]. cbn [map fst] in I4, I5, I8.
  destruct (I5 id (or_introl eq_refl)) as (RNG & PN & NU & NDd).
  apply NoDup_cons_iff in I4; destruct I4 as [NIr NDr].
  constructor; auto.
  - intros k Hk. destruct (I5 k (or_intror Hk)) as (R & P & NUk & NDk).
    repeat split; try tauto. intros [H | H]; [subst; tauto | tauto].
  - intros k Hk. destruct (I8 k Hk) as [[H | H] | [H | H]]; [right; right; left; auto | left; auto | right; left; auto | right; right; right; auto].
  - intros k Hk [H | H]; [subst; tauto | exact (I9 k Hk H)].
  - intros k [<- | H]; [exact RNG | auto].
Qed.

(* G6: CS104_Slave_closeAllConnections *)
Lemma close_all_unused : forall sl, used_sids (map close_slot sl) = [] /\ count_used (map close_slot sl) = 0.
Proof.
  induction sl as [|x r [IH1 IH2]]; [split; reflexivity|].
  cbn [map]. rewrite used_sids_cons. cbn [count_used]. rewrite IH1, IH2.
  unfold close_slot. destruct (c_used x) eqn:U; cbn [c_used set_st set_used]; rewrite ?U; split; reflexivity.
Qed.
Lemma inv_close_all : forall sl op bl nx lg dd,
  InvC sl op bl nx lg dd -> InvC (map close_slot sl) 0 bl nx lg (used_sids sl ++ dd).
Proof.
  intros sl op bl nx lg dd I. pose proof (fun id => used_in_range _ _ _ _ _ _ id I) as UR.
  destruct I as [I1 I2 I3 I4 I5 I6 I7 I8 I9 I11 I10].
  destruct (close_all_unused sl) as [CU CC].
  constructor; auto; rewrite ?CU.
  - constructor.
  - apply Forall_forall. intros y Hy. apply in_map_iff in Hy. destruct Hy as (x & <- & Hx).
    rewrite Forall_forall in I3. specialize (I3 x Hx). unfold close_slot. destruct (c_used x) eqn:U; [|exact I3].
    split; cbn; [discriminate | reflexivity].
  - intros id Hid. destruct (I5 id Hid) as (R & P & NU & ND). split; [exact R|]; split; [exact P|]; split; [intros []|].
    intros H; apply in_app_or in H; tauto.
  - intros id Hid. destruct (I8 id Hid) as [H | [H | H]]; [left; auto | right; right; apply in_or_app; auto | right; right; apply in_or_app; auto].
  - intros id [].
  - intros id H. apply in_app_or in H. destruct H; auto.
Qed.

(* G7: a new pending connection *)
Lemma inv_connect : forall sl op bl nx lg dd g,
  InvC sl op bl nx lg dd -> InvC sl op (bl ++ [(nx, g)]) (nx + 1) lg dd.
Proof.
  intros sl op bl nx lg dd g I. pose proof (used_in_range _ _ _ _ _ _ nx I) as UR.
  destruct I as [I1 I2 I3 I4 I5 I6 I7 I8 I9 I11 I10].
  assert (NB : ~ In nx (map fst bl)). { intros H. destruct (I5 nx H) as (R & _). lia. }
  assert (NU : ~ In nx (used_sids sl)). { intros H. specialize (UR H). lia. }
  assert (NDd : ~ In nx dd). { intros H. specialize (I11 nx H). lia. }
  constructor; auto.
  - rewrite Forall_forall in *. intros x Hx. destruct (I3 x Hx) as [A B]. split; [|exact B].
    intros U. destruct (A U) as (R & REST). split; [lia | exact REST].
  - rewrite map_app; cbn [map fst]. apply nodup_mid. rewrite app_nil_r. constructor; auto.
  - intros id Hid. rewrite map_app in Hid. apply in_app_or in Hid. destruct Hid as [Hid | [Hid | []]].
    + destruct (I5 id Hid) as (R & P & A & B). split; [lia | auto].
    + cbn in Hid; subst id. split; [lia|]. split; [apply I6; lia | auto].
  - intros id Hid. apply I6. lia.
  - intros id Hid. rewrite map_app. destruct (Z.eq_dec id nx) as [->|NE].
    + left. apply in_or_app; right; left; reflexivity.
    + destruct (I8 id ltac:(lia)) as [H | H]; [left; apply in_or_app; auto | right; exact H].
  - intros id Hid. specialize (I11 id Hid). lia.
  - lia.
Qed.

(* G8: a new server object: an all-free table *)
Lemma used_sids_repeat : forall n, used_sids (repeat empty_slot n) = [] /\ count_used (repeat empty_slot n) = 0.
Proof. induction n as [|n [IH1 IH2]]; [split; reflexivity|]. cbn [repeat]. rewrite used_sids_cons. cbn [count_used empty_slot c_used]. rewrite IH1, IH2. split; reflexivity. Qed.
Lemma inv_create : forall sl op bl nx lg dd n,
  InvC sl op bl nx lg dd -> used_sids sl = [] -> InvC (repeat empty_slot n) 0 bl nx lg dd.
Proof.
  intros sl op bl nx lg dd n I E. destruct I as [I1 I2 I3 I4 I5 I6 I7 I8 I9 I11 I10].
  destruct (used_sids_repeat n) as [U C]. rewrite E in *.
  constructor; rewrite ?U, ?C; auto; try solve [constructor].
  apply Forall_forall. intros x Hx. apply repeat_spec in Hx. subst x. split; cbn; [discriminate | reflexivity].
Qed.

(* ------------------------------------------------------------------ state level *)
Definition used_ids (s : lsrv) : list Z := used_sids (v_slots s).
Definition backlog_ids (s : lsrv) : list Z := map fst (v_backlog s).

Record Inv (s : lsrv) : Prop := {
  inv_core : InvC (v_slots s) (v_open s) (v_backlog s) (v_next s) (v_log s) (v_dead s);
  inv_noserver : v_exists s = false -> used_ids s = [] }.

Ltac simp_srv :=
  cbn [v_slots v_open v_running v_exists v_backlog v_maxopen v_mode v_reqret v_next v_log v_reqs v_dead v_inq v_pclosed
       v_wfail v_crashed v_fixnull with_slots with_open with_running with_exists with_backlog with_config with_reqret
       with_next with_log with_reqs with_dead with_inq with_pclosed with_wfail with_crashed upd_slot log_ev kill] in *.

Lemma inv_ext : forall s s',
  v_slots s' = v_slots s -> v_open s' = v_open s -> v_backlog s' = v_backlog s -> v_next s' = v_next s ->
  v_log s' = v_log s -> v_dead s' = v_dead s -> v_exists s' = v_exists s -> Inv s -> Inv s'.
Proof.
  intros s s' E1 E2 E3 E4 E5 E6 E7 [C N]. constructor; unfold used_ids in *; rewrite ?E1, ?E2, ?E3, ?E4, ?E5, ?E6, ?E7; auto.
Qed.

(* a step that only touches the state of used slots and reports events for used connections *)
Record benign (s s' : lsrv) : Prop := {
  bn_used : used_ids s' = used_ids s;
  bn_backlog : v_backlog s' = v_backlog s;
  bn_next : v_next s' = v_next s;
  bn_dead : v_dead s' = v_dead s;
  bn_open : v_open s' = v_open s;
  bn_len : length (v_slots s') = length (v_slots s);
  bn_log : exists l, v_log s' = v_log s ++ l /\ forall p, In p l -> In (fst p) (used_ids s);
  bn_cfg : v_exists s' = v_exists s /\ v_crashed s' = v_crashed s /\ v_fixnull s' = v_fixnull s /\
           v_maxopen s' = v_maxopen s /\ v_mode s' = v_mode s /\ v_running s' = v_running s /\ v_reqret s' = v_reqret s /\
           v_wfail s' = v_wfail s /\ v_pclosed s' = v_pclosed s /\ v_reqs s' = v_reqs s }.

Lemma benign_refl : forall s, benign s s.
Proof. intros s; constructor; auto; [exists []; rewrite app_nil_r; split; [reflexivity | intros p []] | repeat split]. Qed.

Lemma benign_trans : forall a b c, benign a b -> benign b c -> benign a c.
Proof.
  intros a b c [A1 A2 A3 A4 A5 A6 (la & LA & PA) A8] [B1 B2 B3 B4 B5 B6 (lb & LB & PB) B8].
  constructor; try congruence.
  - exists (la ++ lb). split; [rewrite LB, LA, app_assoc; reflexivity|].
    intros p Hp. apply in_app_or in Hp. destruct Hp as [Hp | Hp]; [auto | rewrite <- A1; auto].
  - destruct A8 as (? & ? & ? & ? & ? & ? & ? & ? & ? & ?), B8 as (? & ? & ? & ? & ? & ? & ? & ? & ? & ?).
    repeat split; congruence.
Qed.

(* the part of a slot the activation loop never changes *)
Definition shape (x : cslot) := (c_used x, c_run x, c_sid x, c_grp x).
Definition shape_eq (s s' : lsrv) : Prop := map shape (v_slots s') = map shape (v_slots s).
Lemma shape_upd_st : forall i v l, map shape (upd i (set_st v) l) = map shape l.
Proof. intros i v l; revert i; induction l as [|x r IH]; intros [|j]; cbn; try reflexivity; rewrite IH; reflexivity. Qed.
Lemma shape_nth : forall s s' i x', shape_eq s s' -> nth_error (v_slots s') i = Some x' ->
  exists x, nth_error (v_slots s) i = Some x /\ shape x = shape x'.
Proof.
  intros s s' i x' E N. apply (map_nth_error shape) in N. rewrite E in N.
  destruct (nth_error (v_slots s) i) as [x|] eqn:Nx.
  - rewrite (map_nth_error shape _ _ Nx) in N. exists x; split; congruence.
  - exfalso. apply nth_error_None in Nx. assert (nth_error (map shape (v_slots s)) i = None) by (apply nth_error_None; rewrite map_length; exact Nx). congruence.
Qed.
Lemma shape_nth' : forall s s' i x, shape_eq s s' -> nth_error (v_slots s) i = Some x ->
  exists x', nth_error (v_slots s') i = Some x' /\ shape x' = shape x.
Proof.
  intros s s' i x E N. apply (map_nth_error shape) in N. rewrite <- E in N.
  destruct (nth_error (v_slots s') i) as [x'|] eqn:Nx.
  - rewrite (map_nth_error shape _ _ Nx) in N. exists x'; split; congruence.
  - exfalso. apply nth_error_None in Nx. assert (nth_error (map shape (v_slots s')) i = None) by (apply nth_error_None; rewrite map_length; exact Nx). congruence.
Qed.

(* M1: quiet update of slot i *)
Lemma step_upd_quiet : forall s i f,
  Inv s ->
  (forall x, nth_error (v_slots s) i = Some x ->
     c_used (f x) = c_used x /\ c_sid (f x) = c_sid x /\
     (slot_ok' (v_next s) (phase_of (v_log s) (c_sid x)) x -> slot_ok' (v_next s) (phase_of (v_log s) (c_sid x)) (f x))) ->
  Inv (upd_slot i f s) /\ benign s (upd_slot i f s).
Proof.
  intros s i f [C N] H.
  destruct (nth_error (v_slots s) i) as [x|] eqn:Nx.
  - destruct (H x eq_refl) as (HU & HS & HOK).
    destruct (inv_upd_quiet _ _ _ _ _ _ i x f C Nx HU HS HOK) as [C' US].
    split.
    + constructor; unfold used_ids; simp_srv; [exact C' | rewrite US; exact N].
    + constructor; unfold used_ids; simp_srv; auto; [apply upd_length | exists []; rewrite app_nil_r; split; [reflexivity | intros p []] | repeat split].
  - assert (E : upd i f (v_slots s) = v_slots s) by (apply upd_none; exact Nx).
    split.
    + apply (inv_ext s); simp_srv; auto. constructor; auto.
    + constructor; unfold used_ids; simp_srv; rewrite ?E; auto; [exists []; rewrite app_nil_r; split; [reflexivity | intros p []] | repeat split].
Qed.

(* M2: event for the connection of the used slot i, with an update of that slot *)
Lemma step_upd_event : forall s i x f e,
  Inv s -> nth_error (v_slots s) i = Some x -> c_used x = true ->
  c_used (f x) = true -> c_sid (f x) = c_sid x ->
  slot_ok' (v_next s) (ev_step (phase_of (v_log s) (c_sid x)) e) (f x) ->
  Inv (log_ev (c_sid x) e (upd_slot i f s)) /\ benign s (log_ev (c_sid x) e (upd_slot i f s)).
Proof.
  intros s i x f e [C N] Nx UX HU HS HOK.
  destruct (inv_upd_event _ _ _ _ _ _ i x f e C Nx UX HU HS HOK) as [C' US].
  split.
  - constructor; unfold used_ids; simp_srv; [exact C' | rewrite US; exact N].
  - constructor; unfold used_ids; simp_srv; auto; [apply upd_length | | repeat split].
    exists [(c_sid x, e)]. split; [reflexivity|]. intros p [<- | []]. cbn [fst].
    apply used_sids_in. exists x. split; [eapply nth_error_In; eauto | auto].
Qed.

Lemma slot_ok_of : forall s i x, Inv s -> nth_error (v_slots s) i = Some x -> slot_ok (v_log s) (v_next s) x.
Proof.
  intros s i x [C _] N. pose proof (ic_slots _ _ _ _ _ _ C) as F. rewrite Forall_forall in F. apply F. eapply nth_error_In; eauto.
Qed.

(* MasterConnection_deactivate on a used slot *)
Lemma deactivate_ok : forall s j x,
  Inv s -> nth_error (v_slots s) j = Some x -> c_used x = true ->
  Inv (deactivate j s) /\ benign s (deactivate j s) /\ shape_eq s (deactivate j s) /\
  nth_error (v_slots (deactivate j s)) j = Some (if c_st x =? 1 then set_st 2 x else x).
Proof.
  intros s j x I N UX. unfold deactivate. rewrite N, UX. cbn [andb].
  pose proof (slot_ok_of s j x I N) as [OK _]. destruct (OK UX) as (RNG & PH & S1 & S2).
  assert (NTH : nth_error (upd j (set_st 2) (v_slots s)) j = Some (set_st 2 x)).
  { rewrite nth_error_upd, Nat.eqb_refl, N; reflexivity. }
  destruct (c_st x =? 1) eqn:E.
  - apply Z.eqb_eq in E.
    destruct (step_upd_event s j x (set_st 2) 3 I N UX UX eq_refl) as [I' B'].
    { rewrite (S1 E). cbn [ev_step Z.eqb]. split; cbn [c_used c_sid c_st c_run set_st]; [intros _ | congruence].
      split; [exact RNG|]. split; [left; reflexivity|]. split; [intros H; discriminate | intros _ H; discriminate]. }
    split; [exact I'|]. split; [exact B'|]. split; [|simp_srv; exact NTH].
    unfold shape_eq; simp_srv. apply shape_upd_st.
  - (* not started: nothing changes *)
    split; [exact I|]. split; [apply benign_refl|]. split; [reflexivity | exact N].
Qed.

(* MasterConnection_activate on a used, running slot *)
Lemma activate_self_ok : forall s i x,
  Inv s -> nth_error (v_slots s) i = Some x -> c_used x = true -> c_run x = true ->
  Inv (activate_self i s) /\ benign s (activate_self i s) /\ shape_eq s (activate_self i s).
Proof.
  intros s i x I N UX RX. unfold activate_self. rewrite N.
  pose proof (slot_ok_of s i x I N) as [OK _]. destruct (OK UX) as (RNG & PH & S1 & S2).
  destruct (c_st x =? 1) eqn:E; cbn [negb].
  - apply Z.eqb_eq in E.
    destruct (step_upd_quiet s i (set_st 1) I) as [I' B'].
    { intros y Ny. assert (y = x) by congruence; subst y. split; [reflexivity|]. split; [reflexivity|].
      intros _. split; cbn [c_used c_sid c_st c_run set_st]; [intros _ | congruence].
      split; [exact RNG|]. split; [exact PH|]. split; [intros _; auto | intros _ _; reflexivity]. }
    split; [exact I'|]. split; [exact B'|]. unfold shape_eq; simp_srv. apply shape_upd_st.
  - apply Z.eqb_neq in E.
    assert (PS : phase_of (v_log s) (c_sid x) = PStopped).
    { destruct PH as [P | P]; [exact P | exfalso; apply E; auto]. }
    destruct (step_upd_event s i x (set_st 1) 2 I N UX UX eq_refl) as [I' B'].
    { rewrite PS. cbn [ev_step Z.eqb]. split; cbn [c_used c_sid c_st c_run set_st]; [intros _ | congruence].
      split; [exact RNG|]. split; [right; reflexivity|]. split; [intros _; reflexivity | intros _ _; reflexivity]. }
    split; [exact I'|]. split; [exact B'|]. unfold shape_eq; simp_srv. apply shape_upd_st.
Qed.

Lemma shape_eq_refl : forall s, shape_eq s s.  Proof. intros; reflexivity. Qed.
Lemma shape_eq_trans : forall a b c, shape_eq a b -> shape_eq b c -> shape_eq a c.
Proof. unfold shape_eq; intros; congruence. Qed.

Lemma deact_other_ok : forall i g s j,
  Inv s -> Inv (deact_other i g s j) /\ benign s (deact_other i g s j) /\ shape_eq s (deact_other i g s j).
Proof.
  intros i g s j I. unfold deact_other.
  destruct (nth_error (v_slots s) j) as [x|] eqn:N; [|split; [exact I | split; [apply benign_refl | apply shape_eq_refl]]].
  destruct (c_used x) eqn:UX; cbn [andb]; [|split; [exact I | split; [apply benign_refl | apply shape_eq_refl]]].
  destruct (negb (Nat.eqb j i) && match g with None => true | Some gi => c_grp x =? gi end);
    [|split; [exact I | split; [apply benign_refl | apply shape_eq_refl]]].
  destruct (deactivate_ok s j x I N UX) as (A & B & C & _). auto.
Qed.

Lemma deact_fold_ok : forall i g idx s,
  Inv s -> let s' := fold_left (deact_other i g) idx s in Inv s' /\ benign s s' /\ shape_eq s s'.
Proof.
  intros i g idx; induction idx as [|j r IH]; intros s I; cbn [fold_left].
  - split; [exact I | split; [apply benign_refl | apply shape_eq_refl]].
  - destruct (deact_other_ok i g s j I) as (I1 & B1 & S1).
    destruct (IH _ I1) as (I2 & B2 & S2).
    split; [exact I2 | split; [eapply benign_trans; eauto | eapply shape_eq_trans; eauto]].
Qed.

Lemma shape_fields : forall x y, shape x = shape y -> c_used x = c_used y /\ c_run x = c_run y /\ c_sid x = c_sid y /\ c_grp x = c_grp y.
Proof. unfold shape; intros x y H; injection H; auto. Qed.

(* CS104_Slave_activate for the used, running slot i *)
Lemma activate_ok : forall s i x,
  Inv s -> nth_error (v_slots s) i = Some x -> c_used x = true -> c_run x = true ->
  Inv (activate i s) /\ benign s (activate i s) /\ shape_eq s (activate i s).
Proof.
  intros s i x I N UX RX. unfold activate. rewrite N.
  set (idx := seq 0 (length (v_slots s))).
  assert (STEP : forall s1, Inv s1 -> benign s s1 -> shape_eq s s1 ->
            Inv (activate_self i s1) /\ benign s (activate_self i s1) /\ shape_eq s (activate_self i s1)).
  { intros s1 I1 B1 S1. destruct (shape_nth' s s1 i x S1 N) as (x1 & N1 & SH).
    apply shape_fields in SH. destruct SH as (SU & SR & _).
    destruct (activate_self_ok s1 i x1 I1 N1) as (I2 & B2 & S2); [congruence | congruence |].
    split; [exact I2 | split; [eapply benign_trans; eauto | eapply shape_eq_trans; eauto]]. }
  destruct (v_mode s).
  - destruct (deact_fold_ok i None idx s I) as (I1 & B1 & S1). apply STEP; auto.
  - apply STEP; [exact I | apply benign_refl | apply shape_eq_refl].
  - destruct (deact_fold_ok i (Some (c_grp x)) idx s I) as (I1 & B1 & S1). apply STEP; auto.
Qed.

Lemma set_run_false_ok : forall s i, Inv s -> Inv (upd_slot i (set_run false) s) /\ benign s (upd_slot i (set_run false) s).
Proof.
  intros s i I. apply step_upd_quiet; [exact I|]. intros x N. split; [reflexivity|]. split; [reflexivity|].
  intros [A B]. split; cbn [c_used c_sid c_st c_run set_run]; [|exact B].
  intros U. destruct (A U) as (R & P & S1 & S2). split; [exact R|]. split; [exact P|]. split; [exact S1 | intros H; discriminate].
Qed.

Lemma after_write_ok : forall s i id, Inv s -> Inv (after_write i id s) /\ benign s (after_write i id s).
Proof.
  intros s i id I. unfold after_write. destruct (mem id (v_wfail s)); [apply set_run_false_ok; exact I | split; [exact I | apply benign_refl]].
Qed.

(* handleMessage for the used, running slot i *)
Lemma handle_msg_ok : forall s i x m,
  Inv s -> nth_error (v_slots s) i = Some x -> c_used x = true -> c_run x = true ->
  Inv (handle_msg i (c_sid x) m s) /\ benign s (handle_msg i (c_sid x) m s).
Proof.
  intros s i x m I N UX RX. destruct m; cbn [handle_msg].
  - destruct (mem (c_sid x) (v_wfail s)); [apply set_run_false_ok; exact I|].
    destruct (activate_ok s i x I N UX RX) as (I1 & B1 & _). split; assumption.
  - destruct (deactivate_ok s i x I N UX) as (I1 & B1 & _ & N1).
    destruct (step_upd_quiet (deactivate i s) i (set_st 0) I1) as (I2 & B2).
    { intros y Ny. assert (y = if c_st x =? 1 then set_st 2 x else x) by congruence; subst y.
      destruct (c_st x =? 1) eqn:E1; (split; [reflexivity|]; split; [reflexivity|]);
      intros [A B]; (split; cbn [c_used c_sid c_st c_run set_st] in *; [|intros _; reflexivity]);
      intros U; destruct (A U) as (R & P & S1 & S2); (split; [exact R|]); (split; [exact P|]);
      (split; [intros H; discriminate | intros Hr Hp; specialize (S2 Hr Hp); first [discriminate | apply Z.eqb_neq in E1; exfalso; apply E1; exact S2]]). }
    destruct (after_write_ok _ i (c_sid x) I2) as (I3 & B3).
    split; [exact I3 | eapply benign_trans; [exact B1 | eapply benign_trans; eauto]].
  - apply after_write_ok; exact I.
  - split; [exact I | apply benign_refl].
  - apply set_run_false_ok; exact I.
Qed.

Lemma with_inq_ok : forall s q, Inv s -> Inv (with_inq s q) /\ benign s (with_inq s q).
Proof.
  intros s q I. split; [apply (inv_ext s); auto|].
  constructor; unfold used_ids; simp_srv; auto; [exists []; rewrite app_nil_r; split; [reflexivity | intros p []] | repeat split].
Qed.

(* MasterConnection_handleTcpConnection *)
Lemma handle_slot_ok : forall s i, Inv s -> Inv (handle_slot s i) /\ benign s (handle_slot s i).
Proof.
  intros s i I. unfold handle_slot.
  destruct (nth_error (v_slots s) i) as [x|] eqn:N; [|split; [exact I | apply benign_refl]].
  destruct (c_used x) eqn:UX; [|split; [exact I | apply benign_refl]].
  destruct (next_input (c_sid x) s) as [| |m rest]; [split; [exact I | apply benign_refl] | apply set_run_false_ok; exact I |].
  destruct (with_inq_ok s rest I) as (I1 & B1).
  destruct (c_run x) eqn:RX; [|split; assumption].
  destruct (handle_msg_ok (with_inq s rest) i x m I1 N UX RX) as (I2 & B2).
  split; [exact I2 | eapply benign_trans; eauto].
Qed.

Lemma handle_fold_ok : forall idx s, Inv s -> Inv (fold_left handle_slot idx s) /\ benign s (fold_left handle_slot idx s).
Proof.
  induction idx as [|j r IH]; intros s I; cbn [fold_left]; [split; [exact I | apply benign_refl]|].
  destruct (handle_slot_ok s j I) as (I1 & B1). destruct (IH _ I1) as (I2 & B2).
  split; [exact I2 | eapply benign_trans; eauto].
Qed.

(* ------------------------------------------------------------------ what any part of a tick guarantees *)
Definition same_cfg (s s' : lsrv) : Prop :=
  v_exists s' = v_exists s /\ v_fixnull s' = v_fixnull s /\ v_maxopen s' = v_maxopen s /\ v_mode s' = v_mode s /\
  length (v_slots s') = length (v_slots s) /\ v_running s' = v_running s.

Record tstep (s s' : lsrv) : Prop := {
  ts_next : v_next s' = v_next s;
  ts_used : forall id, In id (used_ids s') -> In id (used_ids s) \/ In id (backlog_ids s);
  ts_backlog : forall id, In id (backlog_ids s') -> In id (backlog_ids s);
  ts_log : exists l, v_log s' = v_log s ++ l /\ forall p, In p l -> In (fst p) (used_ids s) \/ In (fst p) (backlog_ids s);
  ts_keep : forall id, In id (used_ids s) ->
              In id (used_ids s') \/
              (phase_of (v_log s') id = PClosed /\ ~ In id (used_ids s') /\ ~ In id (backlog_ids s') /\ In id (v_dead s'));
  ts_dead : forall id, In id (v_dead s) -> In id (v_dead s');
  ts_cfg : same_cfg s s' }.

Lemma same_cfg_refl : forall s, same_cfg s s. Proof. intros; repeat split. Qed.
Lemma same_cfg_trans : forall a b c, same_cfg a b -> same_cfg b c -> same_cfg a c.
Proof. unfold same_cfg; intros a b c (?&?&?&?&?&?) (?&?&?&?&?&?); repeat split; congruence. Qed.

Lemma tstep_refl : forall s, tstep s s.
Proof.
  intros s; constructor; auto; [exists []; rewrite app_nil_r; split; [reflexivity | intros p []] | apply same_cfg_refl].
Qed.

Lemma tstep_trans : forall a b c, tstep a b -> tstep b c -> tstep a c.
Proof.
  intros a b c [A1 A2 A3 (la & LA & PA) A5 A6 A7] [B1 B2 B3 (lb & LB & PB) B5 B6 B7].
  assert (SUB : forall id, In id (used_ids b) \/ In id (backlog_ids b) -> In id (used_ids a) \/ In id (backlog_ids a)).
  { intros id [H | H]; [apply A2; exact H | right; apply A3; exact H]. }
  constructor.
  - congruence.
  - intros id H. apply SUB. apply B2. exact H.
  - intros id H. apply A3, B3, H.
  - exists (la ++ lb). split; [rewrite LB, LA, app_assoc; reflexivity|].
    intros p Hp. apply in_app_or in Hp. destruct Hp as [Hp | Hp]; [auto | apply SUB; auto].
  - intros id Hid. destruct (A5 id Hid) as [H | (PC & NU & NB & DD)]; [apply B5; exact H|].
    right. split; [|split; [|split]].
    + rewrite LB, phase_of_app, events_of_none; [exact PC|].
      intros p Hp EQ. destruct (PB p Hp) as [H | H]; rewrite EQ in H; tauto.
    + intros H. destruct (B2 id H); tauto.
    + intros H. apply B3 in H. tauto.
    + apply B6; exact DD.
  - intros id H. apply B6, A6, H.
  - eapply same_cfg_trans; eauto.
Qed.

Lemma benign_tstep : forall s s', benign s s' -> tstep s s'.
Proof.
  intros s s' [B1 B2 B3 B4 B5 B6 (l & L & P) (C1 & C2 & C3 & C4 & C5 & C6 & _)].
  constructor; unfold backlog_ids; rewrite ?B1, ?B2, ?B4; auto.
  - exists l; split; auto.
  - repeat split; auto.
Qed.

(* reap loop body *)
Lemma reap_slot_ok : forall s i, Inv s -> Inv (reap_slot s i) /\ tstep s (reap_slot s i) /\
  v_crashed (reap_slot s i) = v_crashed s.
Proof.
  intros s i I. unfold reap_slot.
  destruct (nth_error (v_slots s) i) as [x|] eqn:N; [|split; [exact I | split; [apply tstep_refl | reflexivity]]].
  destruct (c_used x) eqn:UX; cbn [andb]; [|split; [exact I | split; [apply tstep_refl | reflexivity]]].
  destruct (c_run x); cbn [negb]; [split; [exact I | split; [apply tstep_refl | reflexivity]]|].
  destruct I as [C NS].
  destruct (inv_reap _ _ _ _ _ _ i x C N UX) as (C' & MEM & PC).
  assert (INX : In (c_sid x) (used_sids (v_slots s))).
  { apply used_sids_in. exists x. split; [eapply nth_error_In; eauto | auto]. }
  split; [|split; [|reflexivity]].
  - constructor; unfold used_ids in *; simp_srv; [exact C'|].
    intros E. rewrite (NS E) in INX. destruct INX.
  - constructor; unfold used_ids, backlog_ids; simp_srv; auto.
    + intros id H. apply MEM in H. left; tauto.
    + exists [(c_sid x, 1)]. split; [reflexivity|]. intros p [<- | []]. left. exact INX.
    + intros id Hid. destruct (Z.eq_dec id (c_sid x)) as [->|NE].
      * right. split; [exact PC|]. split; [intros H; apply MEM in H; tauto|]. split; [|left; reflexivity].
        intros H. destruct (ic_bl _ _ _ _ _ _ C _ H) as (_ & _ & NU & _). tauto.
      * left. apply MEM. tauto.
    + intros id H; right; exact H.
    + repeat split; auto. apply upd_length.
Qed.

Lemma reap_fold_ok : forall idx s, Inv s ->
  Inv (fold_left reap_slot idx s) /\ tstep s (fold_left reap_slot idx s) /\ v_crashed (fold_left reap_slot idx s) = v_crashed s.
Proof.
  induction idx as [|j r IH]; intros s I; cbn [fold_left]; [split; [exact I | split; [apply tstep_refl | reflexivity]]|].
  destruct (reap_slot_ok s j I) as (I1 & T1 & C1). destruct (IH _ I1) as (I2 & T2 & C2).
  split; [exact I2 | split; [eapply tstep_trans; eauto | congruence]].
Qed.

Lemma benign_crashed : forall s s', benign s s' -> v_crashed s' = v_crashed s.
Proof. intros s s' B. destruct (bn_cfg _ _ B) as (_ & H & _). exact H. Qed.

(* handleClientConnections *)
Lemma handle_clients_ok : forall s, Inv s ->
  Inv (handle_clients s) /\ tstep s (handle_clients s) /\ v_crashed (handle_clients s) = v_crashed s.
Proof.
  intros s I. unfold handle_clients.
  destruct (0 <? v_open s); [|split; [exact I | split; [apply tstep_refl | reflexivity]]].
  set (idx := seq 0 (length (v_slots s))).
  destruct (reap_fold_ok idx s I) as (I1 & T1 & C1).
  destruct (existsb _ _); [|split; [exact I1 | split; [exact T1 | exact C1]]].
  destruct (handle_fold_ok idx _ I1) as (I2 & B2).
  split; [exact I2 | split; [eapply tstep_trans; [exact T1 | apply benign_tstep; exact B2] | rewrite (benign_crashed _ _ B2); exact C1]].
Qed.

(* ------------------------------------------------------------------ accept path *)
Section Accept.
Variable s : lsrv.
Variables (id : Z) (g : option Z) (rest : list (Z * option Z)) (rq : list Z).
Hypothesis I : Inv s.
Hypothesis BL : v_backlog s = (id, g) :: rest.
Let s1 := with_reqs (with_backlog s rest) rq.

Lemma head_in_backlog : In id (backlog_ids s).
Proof. unfold backlog_ids; rewrite BL; left; reflexivity. Qed.

Lemma refuse_ok : Inv (kill id s1) /\ tstep s (kill id s1) /\ v_crashed (kill id s1) = v_crashed s.
Proof.
  destruct I as [C NS]. pose proof (inv_refuse _ _ _ _ _ _ id g rest C BL) as C'.
  split; [|split; [|reflexivity]].
  - constructor; unfold used_ids in *; subst s1; simp_srv; auto.
  - constructor; unfold used_ids, backlog_ids; subst s1; simp_srv; auto.
    + intros k H. rewrite BL. right; exact H.
    + exists []; rewrite app_nil_r; split; [reflexivity | intros p []].
    + intros k H; right; exact H.
    + repeat split.
Qed.

Hypothesis EX : v_exists s = true.

Lemma take_slot_ok : forall i x g',
  nth_error (v_slots s) i = Some x -> c_used x = false ->
  Inv (take_slot i id g' s1) /\ tstep s (take_slot i id g' s1) /\ v_crashed (take_slot i id g' s1) = v_crashed s /\
  v_open (take_slot i id g' s1) = v_open s + 1 /\ v_log (take_slot i id g' s1) = v_log s ++ [(id, 0)] /\
  In id (used_ids (take_slot i id g' s1)).
Proof.
  intros i x g' N UX. destruct I as [C NS].
  destruct (inv_accept _ _ _ _ _ _ i x id g g' rest C BL N UX) as (C' & MEM).
  unfold take_slot; subst s1. split; [|split; [|split; [reflexivity | split; [reflexivity | split; [reflexivity|]]]]].
  - constructor; unfold used_ids in *; simp_srv; [exact C' | intros E; congruence].
  - constructor; unfold used_ids, backlog_ids; simp_srv; auto.
    + intros k H. apply MEM in H. destruct H as [H | ->]; [left; exact H | right; rewrite BL; left; reflexivity].
    + intros k H. rewrite BL. right; exact H.
    + exists [(id, 0)]. split; [reflexivity|]. intros p [<- | []]. right. rewrite BL; left; reflexivity.
    + intros k H. left. apply MEM. left; exact H.
    + repeat split. apply upd_length.
  - unfold used_ids; simp_srv. apply MEM. right; reflexivity.
Qed.

Lemma accept_in_ok : forall g',
  Inv (accept_in id g' s1) /\ tstep s (accept_in id g' s1) /\ v_crashed (accept_in id g' s1) = v_crashed s.
Proof.
  intros g'. unfold accept_in. change (v_slots s1) with (v_slots s).
  destruct (find_free (v_slots s)) as [i|] eqn:F.
  - destruct (find_free_some _ _ F) as (x & N & UX).
    destruct (take_slot_ok i x g' N UX) as (A & B & C & _). auto.
  - apply refuse_ok.
Qed.
End Accept.

Lemma accept_step_ok : forall s, Inv s -> v_exists s = true ->
  Inv (accept_step s) /\ tstep s (accept_step s) /\
  (v_crashed (accept_step s) = v_crashed s \/
   (v_fixnull s = false /\ v_mode s = LConn /\ find_free (v_slots s) = None /\
    ((v_maxopen s <? 1) || (v_open s <? v_maxopen s)) = true)).
Proof.
  intros s I EX. unfold accept_step.
  destruct ((v_maxopen s <? 1) || (v_open s <? v_maxopen s)) eqn:GATE; [|split; [exact I | split; [apply tstep_refl | left; reflexivity]]].
  destruct (v_running s); [|split; [exact I | split; [apply tstep_refl | left; reflexivity]]].
  destruct (v_backlog s) as [|[id g] rest] eqn:BL; [split; [exact I | split; [apply tstep_refl | left; reflexivity]]|].
  destruct (v_reqret s).
  - destruct (v_mode s) eqn:MD.
    + destruct (accept_in_ok s id g rest (v_reqs s ++ [id]) I BL EX 0) as (A & B & C). auto.
    + change (v_slots (with_reqs (with_backlog s rest) (v_reqs s ++ [id]))) with (v_slots s).
      destruct (find_free (v_slots s)) as [i|] eqn:F.
      * destruct (find_free_some _ _ F) as (x & N & UX).
        destruct (take_slot_ok s id g rest (v_reqs s ++ [id]) I BL EX i x 0 N UX) as (A & B & C & _). auto.
      * change (v_fixnull (with_reqs (with_backlog s rest) (v_reqs s ++ [id]))) with (v_fixnull s).
        destruct (v_fixnull s) eqn:FX.
        -- destruct (refuse_ok s id g rest (v_reqs s ++ [id]) I BL) as (A & B & C). auto.
        -- split; [apply (inv_ext s); auto|]. split; [|right; auto].
           constructor; unfold used_ids, backlog_ids; simp_srv; auto;
             [exists []; rewrite app_nil_r; split; [reflexivity | intros p []] | repeat split].
    + destruct g as [gi|].
      * destruct (accept_in_ok s id (Some gi) rest (v_reqs s ++ [id]) I BL EX gi) as (A & B & C). auto.
      * destruct (refuse_ok s id None rest (v_reqs s ++ [id]) I BL) as (A & B & C). auto.
  - destruct (refuse_ok s id g rest (v_reqs s ++ [id]) I BL) as (A & B & C). auto.
Qed.

(* ------------------------------------------------------------------ tick, stop, step *)
Lemma tick_ok : forall s, Inv s -> Inv (tick s) /\ tstep s (tick s).
Proof.
  intros s I. unfold tick.
  destruct (v_exists s) eqn:EX; cbn [andb]; [|split; [exact I | apply tstep_refl]].
  destruct (v_crashed s); cbn [negb]; [split; [exact I | apply tstep_refl]|].
  destruct (accept_step_ok s I EX) as (I1 & T1 & _).
  destruct (handle_clients_ok _ I1) as (I2 & T2 & _).
  split; [exact I2 | eapply tstep_trans; eauto].
Qed.

Lemma count_used_length : forall l, count_used l = Z.of_nat (length (used_sids l)).
Proof.
  induction l as [|x r IH]; [reflexivity|]. rewrite used_sids_cons, app_length. cbn [count_used].
  destruct (c_used x); cbn [length]; lia.
Qed.

Lemma close_all_ok : forall s, Inv s ->
  Inv (close_all s) /\ used_ids (close_all s) = [] /\ v_open (close_all s) = 0 /\
  (forall id, In id (used_ids s) \/ In id (v_dead s) -> In id (v_dead (close_all s))) /\
  v_log (close_all s) = v_log s /\ v_backlog (close_all s) = v_backlog s /\ v_next (close_all s) = v_next s.
Proof.
  intros s [C NS]. pose proof (inv_close_all _ _ _ _ _ _ C) as C'. destruct (close_all_unused (v_slots s)) as [U _].
  unfold close_all, used_ids; simp_srv.
  split; [constructor; unfold used_ids; simp_srv; [exact C' | intros _; exact U]|].
  split; [exact U|]. split; [reflexivity|]. split; [intros id H; apply in_or_app; exact H|]. repeat split.
Qed.

Lemma stop_ok : forall s, Inv s -> Inv (stop s).
Proof.
  intros s I. unfold stop. destruct (v_exists s && negb (v_crashed s)); [|exact I].
  apply close_all_ok. apply (inv_ext s); auto.
Qed.

Lemma appclose_ok : forall s i, Inv s ->
  Inv (upd_slot i (fun y => set_st 0 (set_run false y)) s) /\ benign s (upd_slot i (fun y => set_st 0 (set_run false y)) s).
Proof.
  intros s i I. apply step_upd_quiet; [exact I|]. intros x N. split; [reflexivity|]. split; [reflexivity|].
  intros [A B]. split; cbn [c_used c_sid c_st c_run set_run set_st]; [|intros _; reflexivity].
  intros U. destruct (A U) as (R & P & S1 & S2). split; [exact R|]. split; [exact P|]. split; [intros H; discriminate | intros H; discriminate].
Qed.

Lemma step_inv : forall s o, Inv s -> Inv (step s o).
Proof.
  intros s o I. destruct o; cbn [step].
  - (* create *)
    destruct (v_exists s) eqn:EX; cbn [orb]; [exact I|]. destruct (v_crashed s); [exact I|].
    destruct I as [C NS]. specialize (NS EX).
    pose proof (inv_create _ _ _ _ _ _ (length (v_slots s)) C NS) as C'.
    constructor; unfold used_ids; simp_srv; [exact C' | intros; apply used_sids_repeat].
  - destruct (v_exists s && negb (v_crashed s)); [apply (inv_ext s); auto | exact I].
  - apply stop_ok; exact I.
  - destruct (v_crashed s) eqn:CR; [exact I|].
    unfold stop. rewrite CR. cbn [negb]. rewrite andb_true_r.
    destruct (v_exists s) eqn:EX.
    + destruct (close_all_ok (with_running s false)) as (A & U & _); [apply (inv_ext s); auto|].
      constructor; [apply A | intros _; exact U].
    + apply (inv_ext s); auto.
  - (* connect *)
    destruct I as [C NS]. constructor; unfold used_ids in *; simp_srv; [apply inv_connect; exact C | exact NS].
  - apply (inv_ext s); auto.
  - apply (inv_ext s); auto.
  - apply (inv_ext s); auto.
  - apply (inv_ext s); auto.
  - destruct (v_exists s && negb (v_crashed s)); [|exact I].
    destruct (find_sid id (v_slots s) 0); [apply appclose_ok; exact I | exact I].
  - apply tick_ok; exact I.
Qed.

Lemma init_inv : forall n fx, Inv (init n fx).
Proof.
  intros n fx. destruct (used_sids_repeat n) as [U C].
  constructor; unfold init, used_ids; simp_srv; [|intros _; exact U].
  constructor; rewrite ?U, ?C; cbn [map].
  - reflexivity.
  - constructor.
  - apply Forall_forall. intros x Hx. apply repeat_spec in Hx. subst x. split; cbn; [discriminate | reflexivity].
  - constructor.
  - intros id [].
  - intros id _. reflexivity.
  - intros id. cbn. discriminate.
  - intros id H. lia.
  - intros id [].
  - intros id [].
  - lia.
Qed.

Lemma run_inv : forall ops s, Inv s -> Inv (run_ops s ops).
Proof. induction ops as [|o r IH]; intros s I; cbn; [exact I | apply IH, step_inv, I]. Qed.

Theorem reachable_inv : forall n fx ops, Inv (run_ops (init n fx) ops).
Proof. intros; apply run_inv, init_inv. Qed.

(* ------------------------------------------------------------------ the theorems *)
Definition reach (n : nat) (fx : bool) (ops : list lop) : lsrv := run_ops (init n fx) ops.

(* T1 *)
Theorem accounting : forall n fx ops, v_open (reach n fx ops) = count_used (v_slots (reach n fx ops)).
Proof. intros. apply (ic_open _ _ _ _ _ _ (inv_core _ (reachable_inv n fx ops))). Qed.

(* T2 *)
Theorem grammar : forall n fx ops id, phase_of (v_log (reach n fx ops)) id <> PErr.
Proof. intros. apply (ic_noerr _ _ _ _ _ _ (inv_core _ (reachable_inv n fx ops))). Qed.

Theorem state_matches_events : forall n fx ops x, let s := reach n fx ops in
  In x (v_slots s) -> c_used x = true ->
  (phase_of (v_log s) (c_sid x) = PStopped \/ phase_of (v_log s) (c_sid x) = PStarted) /\
  (c_st x = 1 -> phase_of (v_log s) (c_sid x) = PStarted) /\
  (c_run x = true -> (c_st x = 1 <-> phase_of (v_log s) (c_sid x) = PStarted)).
Proof.
  intros n fx ops x s Hx U.
  pose proof (ic_slots _ _ _ _ _ _ (inv_core _ (reachable_inv n fx ops))) as F. rewrite Forall_forall in F.
  destruct (F x Hx) as [OK _]. destruct (OK U) as (_ & P & S1 & S2).
  split; [exact P|]. split; [exact S1|]. intros R. split; [exact S1 | exact (S2 R)].
Qed.

Theorem distinct_connections : forall n fx ops, NoDup (used_ids (reach n fx ops)).
Proof. intros. apply (ic_nodup _ _ _ _ _ _ (inv_core _ (reachable_inv n fx ops))). Qed.

(* T3: a connection that leaves the table by anything but stop / destroy got CLOSED as its last event *)
Lemma closed_when_released_step : forall s o id, Inv s -> o <> OStop -> o <> ODestroy ->
  In id (used_ids s) -> ~ In id (used_ids (step s o)) ->
  phase_of (v_log (step s o)) id = PClosed /\ In id (v_dead (step s o)).
Proof.
  intros s o id I NS ND U NU. destruct o; cbn [step] in *; try congruence; try (exfalso; exact (NU U)).
  - destruct (v_exists s) eqn:EX; cbn [orb] in *; [exfalso; exact (NU U)|].
    rewrite (inv_noserver _ I EX) in U. destruct U.
  - destruct (v_exists s && negb (v_crashed s)); exfalso; exact (NU U).
  - destruct (v_exists s && negb (v_crashed s)); [|exfalso; exact (NU U)].
    destruct (find_sid id0 (v_slots s) 0); [|exfalso; exact (NU U)].
    destruct (appclose_ok s n I) as (_ & B). rewrite (bn_used _ _ B) in NU. exfalso; exact (NU U).
  - destruct (tick_ok s I) as (_ & T). destruct (ts_keep _ _ T id U) as [H | (PC & _ & _ & DD)]; [exfalso; exact (NU H) | auto].
Qed.

Theorem closed_when_released : forall n fx ops o id, let s := reach n fx ops in
  o <> OStop -> o <> ODestroy -> In id (used_ids s) -> ~ In id (used_ids (step s o)) ->
  phase_of (v_log (step s o)) id = PClosed /\ In id (v_dead (step s o)).
Proof. intros n fx ops o id s. apply closed_when_released_step. apply reachable_inv. Qed.

(* T4: stop / destroy *)
Lemma stop_closes_step : forall s, Inv s -> v_crashed s = false ->
  used_ids (stop s) = [] /\ v_open (stop s) = 0 /\ (forall id, In id (used_ids s) -> In id (v_dead (stop s))) /\
  v_log (stop s) = v_log s.
Proof.
  intros s I CR. unfold stop. rewrite CR. cbn [negb]. rewrite andb_true_r.
  destruct (v_exists s) eqn:EX.
  - destruct (close_all_ok (with_running s false)) as (_ & U & O & D & L & _); [apply (inv_ext s); auto|].
    split; [exact U|]. split; [exact O|]. split; [|exact L]. intros id H. apply D. left. exact H.
  - pose proof (inv_noserver _ I EX) as E. split; [exact E|]. split; [|split; [rewrite E; intros id []|reflexivity]].
    rewrite (ic_open _ _ _ _ _ _ (inv_core _ I)), count_used_length. unfold used_ids in E. rewrite E. reflexivity.
Qed.

Theorem stop_closes_all : forall n fx ops o, let s := reach n fx ops in
  v_crashed s = false -> o = OStop \/ o = ODestroy ->
  used_ids (step s o) = [] /\ v_open (step s o) = 0 /\ Forall (fun x => c_used x = false) (v_slots (step s o)) /\
  (forall id, In id (used_ids s) -> In id (v_dead (step s o))) /\ v_log (step s o) = v_log s.
Proof.
  intros n fx ops o s CR HO.
  assert (I : Inv s) by apply reachable_inv.
  destruct (stop_closes_step s I CR) as (U & O & D & L).
  assert (G : used_ids (step s o) = [] /\ v_open (step s o) = 0 /\
              (forall id, In id (used_ids s) -> In id (v_dead (step s o))) /\ v_log (step s o) = v_log s).
  { destruct HO as [-> | ->]; cbn [step]; [auto|]. rewrite CR. unfold used_ids in *. simp_srv. auto. }
  destruct G as (G1 & G2 & G3 & G4). split; [exact G1|]. split; [exact G2|]. split; [|split; [exact G3 | exact G4]].
  apply Forall_forall. intros x Hx. destruct (c_used x) eqn:UX; [|reflexivity].
  assert (In (c_sid x) (used_ids (step s o))) by (apply used_sids_in; exists x; auto). rewrite G1 in H. destruct H.
Qed.

(* T5: a free slot is reused *)
Lemma accept_reuses_step : forall s id g rest, Inv s ->
  v_exists s = true -> v_crashed s = false -> v_running s = true -> v_backlog s = (id, g) :: rest -> v_reqret s = true ->
  (v_maxopen s <? 1) || (v_open s <? v_maxopen s) = true -> (v_mode s = LMulti -> g <> None) ->
  count_used (v_slots s) < Z.of_nat (length (v_slots s)) ->
  let a := accept_step s in
  v_open a = v_open s + 1 /\ v_log a = v_log s ++ [(id, 0)] /\ In id (used_ids a) /\ v_backlog a = rest /\
  tick s = handle_clients a /\ exists l, v_log (tick s) = v_log s ++ (id, 0) :: l.
Proof.
  intros s id g rest I EX CR RUN BL RR GATE MG FREE a.
  assert (FF : exists i x, find_free (v_slots s) = Some i /\ nth_error (v_slots s) i = Some x /\ c_used x = false).
  { destruct (find_free (v_slots s)) as [i|] eqn:F.
    - destruct (find_free_some _ _ F) as (x & N & UX). exists i, x. auto.
    - apply find_free_none in F. lia. }
  destruct FF as (i & x & F & N & UX).
  assert (A : exists g', a = take_slot i id g' (with_reqs (with_backlog s rest) (v_reqs s ++ [id]))).
  { unfold a, accept_step. rewrite GATE, RUN, BL, RR. destruct (v_mode s) eqn:MD.
    - exists 0. unfold accept_in. change (v_slots (with_reqs _ _)) with (v_slots s). rewrite F. reflexivity.
    - exists 0. change (v_slots (with_reqs _ _)) with (v_slots s). rewrite F. reflexivity.
    - destruct g as [gi|]; [|exfalso; apply MG; reflexivity]. exists gi. unfold accept_in.
      change (v_slots (with_reqs _ _)) with (v_slots s). rewrite F. reflexivity. }
  destruct A as (g' & A).
  destruct (take_slot_ok s id g rest (v_reqs s ++ [id]) I BL EX i x g' N UX) as (I1 & T1 & C1 & O1 & L1 & U1).
  rewrite <- A in *.
  split; [exact O1|]. split; [exact L1|]. split; [exact U1|]. split; [rewrite A; reflexivity|].
  assert (TK : tick s = handle_clients a). { unfold tick. rewrite EX, CR. reflexivity. }
  split; [exact TK|].
  destruct (handle_clients_ok a I1) as (_ & T2 & _). destruct (ts_log _ _ T2) as (l & L & _).
  exists l. rewrite TK, L, L1, <- app_assoc. reflexivity.
Qed.

Theorem accept_reuses_slot : forall n fx ops id g rest, let s := reach n fx ops in
  v_exists s = true -> v_crashed s = false -> v_running s = true -> v_backlog s = (id, g) :: rest -> v_reqret s = true ->
  (v_maxopen s <? 1) || (v_open s <? v_maxopen s) = true -> (v_mode s = LMulti -> g <> None) ->
  count_used (v_slots s) < Z.of_nat (length (v_slots s)) ->
  let a := accept_step s in
  v_open a = v_open s + 1 /\ v_log a = v_log s ++ [(id, 0)] /\ In id (used_ids a) /\ v_backlog a = rest /\
  tick s = handle_clients a /\ exists l, v_log (tick s) = v_log s ++ (id, 0) :: l.
Proof. intros n fx ops id g rest s. apply accept_reuses_step. apply reachable_inv. Qed.

(* T6: every connection ever attempted is pending, or open in exactly one slot, or its socket was destroyed *)
Theorem sockets_accounted : forall n fx ops id, let s := reach n fx ops in
  (0 <= id < v_next s ->
     (In id (backlog_ids s) /\ ~ In id (used_ids s) /\ ~ In id (v_dead s)) \/
     (~ In id (backlog_ids s) /\ In id (used_ids s) /\ ~ In id (v_dead s)) \/
     (~ In id (backlog_ids s) /\ ~ In id (used_ids s) /\ In id (v_dead s))) /\
  (~ (0 <= id < v_next s) -> ~ In id (backlog_ids s) /\ ~ In id (used_ids s) /\ ~ In id (v_dead s)).
Proof.
  intros n fx ops id s. pose proof (inv_core _ (reachable_inv n fx ops)) as C. fold s in C.
  pose proof (ic_bl _ _ _ _ _ _ C id) as B. pose proof (ic_dead _ _ _ _ _ _ C id) as D.
  pose proof (ic_dead_rng _ _ _ _ _ _ C id) as DR. pose proof (used_in_range _ _ _ _ _ _ id C) as UR.
  unfold backlog_ids, used_ids in *. split.
  - intros R. destruct (ic_cover _ _ _ _ _ _ C id R) as [H | [H | H]].
    + left. destruct (B H) as (_ & _ & NU & NDd). auto.
    + right; left. split; [intros H'; destruct (B H') as (_ & _ & NU & _); tauto | split; [exact H | exact (D H)]].
    + right; right. split; [intros H'; destruct (B H') as (_ & _ & _ & NDd); tauto | split; [intros H'; exact (D H' H) | exact H]].
  - intros NR. split; [intros H; destruct (B H) as (R & _); tauto | split; [intros H; apply NR, UR, H | intros H; apply NR, DR, H]].
Qed.

(* T7: nothing is ever reported for a connection that is neither open nor pending *)
Lemma silent_step : forall s o id, Inv s ->
  id < v_next s -> ~ In id (used_ids s) -> ~ In id (backlog_ids s) ->
  events_of id (v_log (step s o)) = events_of id (v_log s) /\
  id < v_next (step s o) /\ ~ In id (used_ids (step s o)) /\ ~ In id (backlog_ids (step s o)).
Proof.
  intros s o id I LT NU NB.
  destruct o; cbn [step]; unfold used_ids, backlog_ids in *.
  - destruct (v_exists s || v_crashed s); [auto|]. simp_srv. destruct (used_sids_repeat (length (v_slots s))) as [E _]. rewrite E. auto.
  - destruct (v_exists s && negb (v_crashed s)); auto.
  - unfold stop. destruct (v_exists s && negb (v_crashed s)); [|auto].
    unfold close_all; simp_srv. destruct (close_all_unused (v_slots s)) as [E _]. rewrite E. auto.
  - destruct (v_crashed s); [auto|]. unfold stop. destruct (v_exists s && negb (v_crashed s)); simp_srv; [|auto].
    unfold close_all; simp_srv. destruct (close_all_unused (v_slots s)) as [E _]. rewrite E. auto.
  - simp_srv. split; [reflexivity|]. split; [lia|]. split; [exact NU|]. rewrite map_app. intros H. apply in_app_or in H.
    destruct H as [H | [H | []]]; [tauto | cbn in H; lia].
  - auto.
  - auto.
  - auto.
  - auto.
  - destruct (v_exists s && negb (v_crashed s)); [|auto].
    destruct (find_sid id0 (v_slots s) 0); [|auto]. simp_srv.
    destruct (appclose_ok s n I) as (_ & B). pose proof (bn_used _ _ B) as E. unfold used_ids in E; simp_srv. rewrite E. auto.
  - destruct (tick_ok s I) as (_ & T). destruct (ts_log _ _ T) as (l & L & P).
    split; [|split; [rewrite (ts_next _ _ T); exact LT | split]].
    + rewrite L, events_of_app, (events_of_none id l), app_nil_r; [reflexivity|].
      intros p Hp EQ. destruct (P p Hp) as [H | H]; rewrite EQ in H; unfold used_ids, backlog_ids in H; tauto.
    + intros H. destruct (ts_used _ _ T id H); unfold used_ids, backlog_ids in *; tauto.
    + intros H. apply (ts_backlog _ _ T) in H. unfold backlog_ids in *; tauto.
Qed.

Theorem silent_when_not_open : forall n fx ops more id, let s := reach n fx ops in
  id < v_next s -> ~ In id (used_ids s) -> ~ In id (backlog_ids s) ->
  events_of id (v_log (run_ops s more)) = events_of id (v_log s).
Proof.
  intros n fx ops more id s. assert (I : Inv s) by apply reachable_inv. revert I. generalize s. clear s.
  induction more as [|o r IH]; intros s I LT NU NB; cbn [run_ops fold_left]; [reflexivity|].
  destruct (silent_step s o id I LT NU NB) as (E & LT' & NU' & NB').
  change (fold_left step r (step s o)) with (run_ops (step s o) r).
  rewrite (IH _ (step_inv s o I) LT' NU' NB'). exact E.
Qed.

(* ------------------------------------------------------------------ the NULL connection in CONNECTION_IS_REDUNDANCY_GROUP mode *)
Lemma tick_cfg : forall s, Inv s -> same_cfg s (tick s).
Proof. intros s I. destruct (tick_ok s I) as (_ & T). exact (ts_cfg _ _ T). Qed.

Lemma tick_crash : forall s, Inv s -> v_crashed s = false -> v_crashed (tick s) = true ->
  v_fixnull s = false /\ v_mode s = LConn /\ find_free (v_slots s) = None /\ (v_maxopen s <? 1) || (v_open s <? v_maxopen s) = true.
Proof.
  intros s I CR H. unfold tick in H. destruct (v_exists s) eqn:EX; cbn [andb] in H; [|congruence].
  rewrite CR in H. cbn [negb] in H.
  destruct (accept_step_ok s I EX) as (I1 & _ & [C | C]); [|exact C].
  destruct (handle_clients_ok _ I1) as (_ & _ & C2). congruence.
Qed.

Lemma step_fixnull : forall s o, Inv s -> v_fixnull (step s o) = v_fixnull s.
Proof.
  intros s o I. destruct o; cbn [step]; try reflexivity.
  - destruct (v_exists s || v_crashed s); reflexivity.
  - destruct (v_exists s && negb (v_crashed s)); reflexivity.
  - unfold stop. destruct (v_exists s && negb (v_crashed s)); reflexivity.
  - destruct (v_crashed s); [reflexivity|]. unfold stop. destruct (v_exists s && negb (v_crashed s)); reflexivity.
  - destruct (v_exists s && negb (v_crashed s)); [|reflexivity]. destruct (find_sid id (v_slots s) 0); reflexivity.
  - destruct (tick_cfg s I) as (_ & H & _). exact H.
Qed.

Lemma step_crashed_other : forall s o, o <> OTick -> v_crashed (step s o) = v_crashed s.
Proof.
  intros s o NT. destruct o; cbn [step]; try reflexivity; try congruence.
  - destruct (v_exists s || v_crashed s); reflexivity.
  - destruct (v_exists s && negb (v_crashed s)); reflexivity.
  - unfold stop. destruct (v_exists s && negb (v_crashed s)); reflexivity.
  - destruct (v_crashed s) eqn:CR; [exact CR|]. unfold stop. destruct (v_exists s && negb (v_crashed s)); simp_srv; exact CR.
  - destruct (v_exists s && negb (v_crashed s)); [|reflexivity]. destruct (find_sid id (v_slots s) 0); reflexivity.
Qed.

Lemma lop_eq_tick : forall o, o = OTick \/ o <> OTick.
Proof. intros o; destruct o; try (right; discriminate); left; reflexivity. Qed.

Theorem no_crash_when_fixed : forall n ops, v_crashed (reach n true ops) = false.
Proof.
  intros n ops. unfold reach.
  assert (G : forall s, Inv s -> v_fixnull s = true -> v_crashed s = false -> v_crashed (run_ops s ops) = false).
  { induction ops as [|o r IH]; intros s I FX CR; cbn [run_ops fold_left]; [exact CR|].
    change (fold_left step r (step s o)) with (run_ops (step s o) r).
    apply IH; [apply step_inv; exact I | rewrite step_fixnull; auto|].
    destruct (lop_eq_tick o) as [-> | NT]; [|rewrite step_crashed_other; auto].
    cbn [step]. destruct (v_crashed (tick s)) eqn:E; [|reflexivity].
    destruct (tick_crash s I CR E) as (F & _). congruence. }
  apply G; [apply init_inv | reflexivity | reflexivity].
Qed.

Definition limited_op (o : lop) : Prop := match o with OCreate _ (Some v) => 1 <= v | _ => True end.

Lemma step_limit : forall s o, Inv s -> limited_op o ->
  1 <= v_maxopen s <= Z.of_nat (length (v_slots s)) ->
  1 <= v_maxopen (step s o) <= Z.of_nat (length (v_slots (step s o))).
Proof.
  intros s o I LO H. destruct o; cbn [step]; try exact H.
  - destruct (v_exists s || v_crashed s); [exact H|]. simp_srv. rewrite repeat_length.
    destruct maxset as [v|]; [|lia]. cbn in LO. unfold clamp_max.
    destruct ((0 <? Z.of_nat (length (v_slots s))) && (Z.of_nat (length (v_slots s)) <? v)) eqn:E; [lia|].
    apply andb_false_iff in E. destruct E as [E | E]; [apply Z.ltb_ge in E | apply Z.ltb_ge in E]; lia.
  - destruct (v_exists s && negb (v_crashed s)); exact H.
  - unfold stop. destruct (v_exists s && negb (v_crashed s)); [|exact H]. unfold close_all; simp_srv. rewrite map_length. exact H.
  - destruct (v_crashed s); [exact H|]. unfold stop. destruct (v_exists s && negb (v_crashed s)); simp_srv; [|exact H].
    unfold close_all; simp_srv. rewrite map_length. exact H.
  - destruct (v_exists s && negb (v_crashed s)); [|exact H]. destruct (find_sid id (v_slots s) 0); [|exact H].
    simp_srv. rewrite upd_length. exact H.
  - destruct (tick_cfg s I) as (_ & _ & M & _ & L & _). rewrite M, L. exact H.
Qed.

Theorem no_crash_with_limit : forall n fx ops, (1 <= n)%nat -> Forall limited_op ops -> v_crashed (reach n fx ops) = false.
Proof.
  intros n fx ops N1 LO. unfold reach.
  assert (G : forall s, Inv s -> 1 <= v_maxopen s <= Z.of_nat (length (v_slots s)) -> v_crashed s = false ->
               v_crashed (run_ops s ops) = false).
  { induction LO as [|o r LOo LOr IH]; intros s I LM CR; cbn [run_ops fold_left]; [exact CR|].
    change (fold_left step r (step s o)) with (run_ops (step s o) r).
    apply IH; [apply step_inv; exact I | apply step_limit; auto|].
    destruct (lop_eq_tick o) as [-> | NT]; [|rewrite step_crashed_other; auto].
    cbn [step]. destruct (v_crashed (tick s)) eqn:E; [|reflexivity].
    destruct (tick_crash s I CR E) as (_ & _ & F & GATE). exfalso.
    apply find_free_none in F. rewrite <- (ic_open _ _ _ _ _ _ (inv_core _ I)) in F.
    apply orb_true_iff in GATE. destruct GATE as [G | G]; apply Z.ltb_lt in G; lia. }
  apply G; [apply init_inv | cbn [init v_maxopen v_slots]; rewrite repeat_length; lia | reflexivity].
Qed.

(* the defect: no open-connection limit (CS104_Slave_setMaxOpenConnections(slave, 0)), connection-is-group mode,
   one more connection than table slots *)
Theorem null_connection_refuted : exists n ops, v_crashed (reach n false ops) = true.
Proof.
  exists 2%nat, [OCreate LConn (Some 0); OStart; OConnect (Some 0); OConnect (Some 0); OConnect (Some 0); OTick; OTick; OTick].
  vm_compute. reflexivity.
Qed.

(* ------------------------------------------------------------------ examples: the hypotheses are inhabited *)
Example ex_lifecycle :
  let ops := [OCreate LSingle None; OStart; OConnect (Some 0); OConnect (Some 0); OTick; OTick;
              OFeed 0 MStart; OTick; OFeed 1 MStart; OTick; OFeed 1 MStop; OTick; OPeerClose 0; OTick; OTick; OStop] in
  let s := reach 3 false ops in
  v_log s = [(0, 0); (1, 0); (0, 2); (0, 3); (1, 2); (1, 3); (0, 1)] /\ v_open s = 0 /\ v_dead s = [1; 0] /\
  phase_of (v_log s) 0 = PClosed /\ phase_of (v_log s) 1 = PStopped.
Proof. vm_compute. repeat split. Qed.

Example ex_reuse :
  let ops := [OCreate LConn (Some 1); OStart; OConnect (Some 0); OTick; OConnect (Some 0); OTick; OAppClose 0; OTick; OTick] in
  let s := reach 1 false ops in
  v_log s = [(0, 0); (0, 1); (1, 0)] /\ v_open s = 1 /\ used_ids s = [1].
Proof. vm_compute. repeat split. Qed.

(* ------------------------------------------------------------------ STARTDT / STOPDT handling and the reported events *)
Lemma activate_self_slot : forall s i x, nth_error (v_slots s) i = Some x ->
  nth_error (v_slots (activate_self i s)) i = Some (set_st 1 x).
Proof.
  intros s i x N. unfold activate_self. rewrite N.
  destruct (negb (c_st x =? 1)); simp_srv; rewrite nth_error_upd, Nat.eqb_refl, N; reflexivity.
Qed.

(* (the confirmation is written first; when that write fails the connection ends without having been activated) *)
Theorem startdt_handled : forall s i x, Inv s -> nth_error (v_slots s) i = Some x -> c_used x = true -> c_run x = true ->
  mem (c_sid x) (v_wfail s) = false ->
  let s' := handle_msg i (c_sid x) MStart s in
  exists x', nth_error (v_slots s') i = Some x' /\ c_st x' = 1 /\ c_sid x' = c_sid x /\
             phase_of (v_log s') (c_sid x) = PStarted.
Proof.
  intros s i x I N UX RX WF s'.
  destruct (handle_msg_ok s i x MStart I N UX RX) as (I' & _). fold s' in I'.
  assert (A : exists x1, nth_error (v_slots (activate i s)) i = Some (set_st 1 x1) /\ shape x1 = shape x).
  { unfold activate. rewrite N. set (idx := seq 0 (length (v_slots s))).
    assert (G : forall s1, shape_eq s s1 -> exists x1, nth_error (v_slots (activate_self i s1)) i = Some (set_st 1 x1) /\ shape x1 = shape x).
    { intros s1 S1. destruct (shape_nth' s s1 i x S1 N) as (x1 & N1 & SH). exists x1. split; [apply activate_self_slot; exact N1 | exact SH]. }
    destruct (v_mode s).
    - apply G. apply (deact_fold_ok i None idx s I).
    - apply G. apply shape_eq_refl.
    - apply G. apply (deact_fold_ok i (Some (c_grp x)) idx s I). }
  destruct A as (x1 & N1 & SH). apply shape_fields in SH. destruct SH as (SU & SR & SS & _).
  assert (B : exists x', nth_error (v_slots s') i = Some x' /\ c_st x' = 1 /\ c_sid x' = c_sid x /\ c_used x' = true).
  { unfold s'. cbn [handle_msg]. rewrite WF.
    rewrite N1. eexists; split; [reflexivity|]. cbn. rewrite SS, SU. auto. }
  destruct B as (x' & N' & ST & SID & U'). exists x'. split; [exact N'|]. split; [exact ST|]. split; [exact SID|].
  pose proof (slot_ok_of s' i x' I' N') as [OK _]. destruct (OK U') as (_ & _ & S1 & _). rewrite <- SID. apply S1. exact ST.
Qed.

Theorem stopdt_handled : forall s i x, Inv s -> nth_error (v_slots s) i = Some x -> c_used x = true -> c_run x = true ->
  mem (c_sid x) (v_wfail s) = false ->
  let s' := handle_msg i (c_sid x) MStop s in
  exists x', nth_error (v_slots s') i = Some x' /\ c_st x' = 0 /\ c_sid x' = c_sid x /\
             phase_of (v_log s') (c_sid x) = PStopped.
Proof.
  intros s i x I N UX RX WF s'.
  destruct (handle_msg_ok s i x MStop I N UX RX) as (I' & _). fold s' in I'.
  destruct (deactivate_ok s i x I N UX) as (_ & B1 & _ & N1).
  assert (W : mem (c_sid x) (v_wfail (upd_slot i (set_st 0) (deactivate i s))) = false).
  { simp_srv. destruct (bn_cfg _ _ B1) as (_ & _ & _ & _ & _ & _ & _ & E & _). rewrite E. exact WF. }
  assert (N' : nth_error (v_slots s') i = Some (set_st 0 x)).
  { unfold s'. cbn [handle_msg]. unfold after_write. rewrite W. simp_srv. rewrite nth_error_upd, Nat.eqb_refl, N1.
    destruct (c_st x =? 1); reflexivity. }
  exists (set_st 0 x). split; [exact N'|]. split; [reflexivity|]. split; [reflexivity|].
  pose proof (slot_ok_of s' i _ I' N') as [OK _]. cbn [c_used c_sid c_st c_run set_st] in OK.
  destruct (OK UX) as (_ & P & _ & S2). destruct P as [P | P]; [exact P|]. specialize (S2 RX P). discriminate.
Qed.
