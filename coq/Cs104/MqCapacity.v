(* C06, capacity clause: "a queue configured for N entries retains at least the N most recent ASDUs when they are of
   equal size".  On the literal ring model (MsgQueue.v), for every ring size n >= 1, every ASDU size z and every history of
   enqueue / getNextWaiting / confirm / resetWaiting / reads in which all enqueued ASDUs have z octets: an enqueue
   displaces entries only if afterwards at least n entries are in the ring (and it displaces at most one).  Together with
   mq_enqueue_spec (what is retained is a suffix of the old layout plus the new entry) this is the clause. *)
From Coq Require Import ZArith List Bool Lia.
From L60870 Require Import Cs104.MsgQueue Cs104.MqRingProofs.
Import ListNotations.
Local Open Scope Z_scope.

Definition eqsz (W : Z) (l : lay_t) : Prop := Forall (fun p => esz (snd p) = W) l.

(* extra invariant for equal sizes: the first entry sits at a multiple of W, and while the ring is wrapped the upper run
   reaches into the last slot *)
Definition Ext (W : Z) (q : mqs) (l : lay_t) : Prop :=
  eqsz W l /\ (l <> [] -> (exists k, first q = k * W) /\ (last q < first q -> qsize q < lib q + 2 * W)).

Lemma mul_sandwich W b k : 0 < W -> b * W <= k * W < b * W + W -> k = b.
Proof. intros HS [H1 H2]. nia. Qed.

Lemma eqsz_app W a b : eqsz W (a ++ b) <-> eqsz W a /\ eqsz W b. Proof. apply Forall_app. Qed.
Lemma eqsz_skipn W d l : eqsz W l -> eqsz W (skipn d l). Proof. apply Forall_skipn. Qed.

Lemma endof_eq W : forall l o, eqsz W l -> endof o l = o + Z.of_nat (length l) * W.
Proof.
  induction l as [|[o1 e] r IH]; intros o H; cbn [endof length]; [lia|].
  apply Forall_cons_iff in H. destruct H as [H1 H2]. cbn [snd] in H1. rewrite IH by exact H2. rewrite H1. lia.
Qed.

Lemma contig_skipn W : forall d l o, eqsz W l -> contig o l -> contig (o + Z.of_nat d * W) (skipn d l).
Proof.
  induction d as [|d IH]; intros l o He Hc; cbn [skipn]; [replace (o + Z.of_nat 0 * W) with o by lia; exact Hc|].
  destruct l as [|[o1 e] r]; [exact I|]. cbn [contig] in Hc. destruct Hc as [-> Hc].
  apply Forall_cons_iff in He. destruct He as [H1 H2]. cbn [snd] in H1.
  replace (o + Z.of_nat (Datatypes.S d) * W) with (o + esz e + Z.of_nat d * W) by lia. apply IH; assumption.
Qed.

(* ------------------------------------------------------------------ make_room with slots of equal width *)
Lemma make_room_keep f q next W : next + W <= first q -> make_room (S f) q next W = Ok q.
Proof. intros H. cbn [make_room]. rewrite (gtb_false _ _ H). reflexivity. Qed.

Lemma make_room_drop_only f q next W : first q < next + W -> 0 < cnt q -> first q = lib q ->
  make_room (S f) q next W = Ok (setq q (cnt q - 1) 0 (last q) next).
Proof.
  intros H Hc Hl. cbn [make_room]. rewrite (gtb_true _ _ H). assert (P : 0 <? cnt q = true) by (apply Z.ltb_lt; lia). rewrite P. rs.
  assert (E : first q =? lib q = true) by (apply Z.eqb_eq; exact Hl). rewrite E. reflexivity.
Qed.

Lemma make_room_drop_one f q next W e1 : first q < next + W -> 0 < cnt q -> first q <> lib q ->
  find (cells q) (first q) = Some e1 -> next + W <= first q + esz e1 ->
  make_room (S (S f)) q next W = Ok (setq q (cnt q - 1) (first q + esz e1) (last q) (lib q)).
Proof.
  intros H Hc Hl Hf Hn. cbn [make_room]. rewrite (gtb_true _ _ H). assert (P : 0 <? cnt q = true) by (apply Z.ltb_lt; lia). rewrite P. rs.
  assert (E : first q =? lib q = false) by (apply Z.eqb_neq; exact Hl). rewrite E, Hf.
  replace (first q + HDR + e_sz e1) with (first q + esz e1) by (unfold esz; lia).
  rewrite (gtb_false _ _ Hn). reflexivity.
Qed.

Lemma FUEL_ge2 q : 272 <= qsize q -> exists f, FUEL q = S (S f).
Proof.
  intros H. unfold FUEL. assert (1 <= qsize q / HDR) by (unfold HDR; apply Z.div_le_lower_bound; lia).
  destruct (Z.to_nat (qsize q / HDR)) as [|f] eqn:E; [lia|]. exists f. reflexivity.
Qed.

(* ------------------------------------------------------------------ what enqueue does to the header fields *)
Definition enq_fields (W : Z) (q q' : mqs) : Prop :=
  (exists k, first q' = k * W) /\ (last q' < first q' -> qsize q' < lib q' + 2 * W) /\ qsize q' = qsize q /\
  (cnt q' = cnt q + 1 \/ (cnt q' = cnt q /\ qsize q < (cnt q' + 1) * W)).

Lemma lastoff_in (l : lay_t) : l <> [] -> exists e, In (lastoff l, e) l.
Proof.
  intros H. destruct (snoc_cases l H) as (l' & [pl el] & ->). rewrite lastoff_snoc. exists el. apply in_or_app. right. left. reflexivity.
Qed.

Lemma eqsz_in W l p : eqsz W l -> In p l -> esz (snd p) = W.
Proof. intros H Hin. exact (proj1 (Forall_forall _ _) H p Hin). Qed.

Lemma contig_last W : forall l o, l <> [] -> eqsz W l -> contig o l -> lastoff l + W = endof o l.
Proof.
  intros l o Hne He Hc. destruct (snoc_cases l Hne) as (l' & [pl el] & ->).
  rewrite lastoff_snoc, endof_snoc. apply contig_snoc in Hc. destruct Hc as [_ ->].
  apply eqsz_app in He. destruct He as [_ He]. apply Forall_cons_iff in He. destruct He as [He _]. cbn [snd] in He. lia.
Qed.

Lemma stored_find cs l p : stored cs l -> In p l -> find cs (fst p) = Some (snd p).
Proof. intros H Hin. exact (proj1 (Forall_forall _ _) H p Hin). Qed.

Lemma hd_in_contig : forall (l : lay_t) o, l <> [] -> contig o l -> exists e, In (o, e) l.
Proof. intros [|[o1 e] r] o Hne Hc; [congruence|]. cbn [contig] in Hc. destruct Hc as [-> _]. exists e. left. reflexivity. Qed.

Ltac rsi H := cbn [qsize cnt first last lib nid cells setq fst snd andb orb negb] in H.
Ltac done_with kk := splits; try lia; try (exists kk; lia); try (intros; nia); try (right; split; [lia|nia]); try (left; lia).
Ltac fin E q' := inversion E; subst q'; clear E; unfold enq_fields; rs.

Lemma enqueue_fields W q l a q' : MQInv q l -> Ext W q l -> W = HDR + lenz a -> lenz a <= 250 ->
  mq_enqueue q a = Ok q' -> enq_fields W q q'.
Proof.
  intros H (Heq & Hx) HW Hlen E. pose proof H as (Hc & Hq & Hs & Hst & Hid & Hn & Hg).
  assert (HW0 : 16 <= W) by (unfold lenz, HDR in HW; lia).
  unfold mq_enqueue in E. fold (lenz a) in E. change (256 - 6) with 250 in E. rewrite (gtb_false _ _ Hlen) in E.
  rewrite <- HW in E.
  destruct l as [|x0 r0].
  { cbn [length] in Hc. assert (E0 : cnt q =? 0 = true) by (apply Z.eqb_eq; lia). rewrite E0 in E. rsi E. fin E q'.
    done_with 0. }
  assert (Hne : x0 :: r0 <> []) by discriminate. set (l := x0 :: r0) in *.
  assert (Hpos : 0 < cnt q) by (unfold l in Hc; cbn [length] in Hc; lia).
  assert (E0 : cnt q =? 0 = false) by (apply Z.eqb_neq; lia). rewrite E0 in E.
  destruct (Hx Hne) as [(k & Hk) Hwrap].
  destruct (FUEL_ge2 q Hq) as (f & HF).
  destruct Hg as [Hn0 | [HL | HWr]]; [congruence| |].
  - (* ---------------- linear *)
    destruct HL as (H0 & Hcg & Hlast & Hli & He).
    destruct (lastoff_in l Hne) as (el & Hinl). rewrite <- Hlast in Hinl.
    pose proof (stored_find _ _ _ Hst Hinl) as Hfl. cbn [fst snd] in Hfl. rewrite Hfl in E.
    pose proof (eqsz_in _ _ _ Heq Hinl) as Hel. cbn [snd] in Hel. unfold esz in Hel.
    pose proof (contig_last W l (first q) Hne Heq Hcg) as Hnx. rewrite <- Hlast in Hnx.
    rewrite (endof_eq W l (first q) Heq) in Hnx, He.
    replace (last q + HDR + e_sz el) with (last q + W) in E by lia.
    assert (Hlen1 : 1 <= Z.of_nat (length l)) by lia.
    assert (Hk0 : 0 <= k) by nia.
    destruct (last q + W + W >? qsize q) eqn:G.
    + apply gtb_true_inv in G.
      assert (Z0 : last q + W <=? first q = false) by (apply Z.leb_gt; nia). rewrite Z0 in E.
      assert (Z1 : last q >=? first q = true) by (apply geb_true; nia). rewrite Z1 in E. rsi E.
      assert (Z2 : 0 <=? first q = true) by (apply Z.leb_le; lia). rewrite Z2 in E.
      set (q2 := setq q (cnt q) (first q) (last q) (last q)) in *.
      destruct (Z.eq_dec k 0) as [-> | Hk1].
      * (* the ring starts at offset 0: its first entry makes room *)
        assert (Hf0 : first q = 0) by lia.
        destruct (Z.eq_dec (first q) (last q)) as [Hfl1 | Hfl1].
        -- rewrite HF in E. rewrite (make_room_drop_only _ q2 0 W) in E; try (unfold q2; rs; lia).
           unfold q2 in E. rsi E. fin E q'.
           done_with 0.
        -- destruct (hd_in_contig l (first q) Hne Hcg) as (e1 & Hin1).
           pose proof (stored_find _ _ _ Hst Hin1) as Hf1. cbn [fst snd] in Hf1.
           pose proof (eqsz_in _ _ _ Heq Hin1) as He1. cbn [snd] in He1.
           rewrite HF in E. rewrite (make_room_drop_one _ q2 0 W e1) in E; try (unfold q2; rs; lia); try (unfold q2; rs; exact Hf1).
           unfold q2 in E. rsi E. fin E q'. rewrite (gtb_false 0 (last q) ltac:(nia)).
           done_with 1.
      * rewrite HF in E. rewrite (make_room_keep _ q2 0 W) in E by (unfold q2; rs; nia).
        unfold q2 in E. rsi E. fin E q'. rewrite (gtb_false 0 (last q) ltac:(nia)).
        done_with k.
    + apply gtb_false_inv in G.
      assert (Z0 : last q + W <=? first q = false) by (apply Z.leb_gt; nia). rewrite Z0 in E.
      fin E q'. rewrite Hli, (gtb_true (last q + W) (last q) ltac:(lia)).
      done_with k.
  - (* ---------------- wrapped *)
    destruct HWr as (A & B & EAB & HA & HB & HcA & Hli & HeA & HcB & Hlast & HeB).
    assert (HeqA : eqsz W A /\ eqsz W B) by (apply eqsz_app; rewrite <- EAB; exact Heq). destruct HeqA as [HeqA HeqB].
    assert (HstAB : stored (cells q) A /\ stored (cells q) B) by (apply stored_app; rewrite <- EAB; exact Hst). destruct HstAB as [HstA HstB].
    destruct (lastoff_in B HB) as (eb & Hinb). rewrite <- Hlast in Hinb.
    pose proof (stored_find _ _ _ HstB Hinb) as Hfl. cbn [fst snd] in Hfl. rewrite Hfl in E.
    pose proof (eqsz_in _ _ _ HeqB Hinb) as Hel. cbn [snd] in Hel. unfold esz in Hel.
    pose proof (contig_last W B 0 HB HeqB HcB) as HnxB. rewrite <- Hlast in HnxB.
    pose proof (contig_last W A (first q) HA HeqA HcA) as HnxA. rewrite <- Hli in HnxA.
    rewrite (endof_eq W B 0 HeqB) in HnxB, HeB. rewrite (endof_eq W A (first q) HeqA) in HnxA, HeA.
    replace (last q + HDR + e_sz eb) with (last q + W) in E by lia.
    assert (HlenA : 1 <= Z.of_nat (length A)) by (destruct A; [congruence | cbn [length]; lia]).
    assert (HlenB : 1 <= Z.of_nat (length B)) by (destruct B; [congruence | cbn [length]; lia]).
    assert (Hcnt : cnt q = Z.of_nat (length A) + Z.of_nat (length B)).
    { rewrite Hc. unfold l. fold l. rewrite EAB, app_length. lia. }
    assert (Hlow : last q < first q) by nia.
    pose proof (Hwrap Hlow) as Hfull.
    assert (G : last q + W + W >? qsize q = false) by (apply gtb_false; nia). rewrite G in E.
    assert (Z0 : last q + W <=? first q = true) by (apply Z.leb_le; lia). rewrite Z0 in E.
    destruct (Z_le_gt_dec (last q + W + W) (first q)) as [Hroom | Hroom].
    + rewrite HF in E. rewrite (make_room_keep _ q (last q + W) W) in E by lia.
      fin E q'. rewrite (gtb_false (last q + W) (lib q) ltac:(nia)).
      done_with k.
    + (* the new entry reaches the first entry of the upper run: that one goes *)
      assert (Hfeq : first q = last q + W).
      { assert (k = Z.of_nat (length B)) by (apply (mul_sandwich W); nia). nia. }
      destruct (Z.eq_dec (first q) (lib q)) as [Hfl1 | Hfl1].
      * rewrite HF in E. rewrite (make_room_drop_only _ q (last q + W) W) in E; try lia.
        fin E q'. rewrite (gtb_false (last q + W) (last q + W) ltac:(lia)).
        done_with 0.
      * destruct (hd_in_contig A (first q) HA HcA) as (e1 & Hin1).
        pose proof (stored_find _ _ _ HstA Hin1) as Hf1. cbn [fst snd] in Hf1.
        pose proof (eqsz_in _ _ _ HeqA Hin1) as He1. cbn [snd] in He1.
        rewrite HF in E. rewrite (make_room_drop_one _ q (last q + W) W e1) in E; try lia; try exact Hf1.
        fin E q'. rewrite (gtb_false (last q + W) (lib q) ltac:(nia)). rewrite He1.
        done_with (k + 1).
Qed.

(* ------------------------------------------------------------------ removing the head keeps the extra invariant *)
Lemma lastoff_cons_ne (p : Z * ent) (r : lay_t) : r <> [] -> lastoff (p :: r) = lastoff r.
Proof. intros H. destruct r as [|x r']; [congruence|]. reflexivity. Qed.

Lemma remove_first_ext W q p r q' : 0 < W -> MQInv q (p :: r) -> Ext W q (p :: r) -> remove_first q = Ok q' -> Ext W q' r.
Proof.
  intros HW0 H (Heq & Hx) E. pose proof H as (Hc & Hq & Hs & Hst & Hid & Hn & Hg).
  destruct (remove_first_spec q p r H) as (Hfp & _).
  apply Forall_cons_iff in Heq. destruct Heq as [Hep Heqr]. split; [exact Heqr|]. intros Hr.
  destruct (Hx ltac:(discriminate)) as [(k & Hk) Hwrap].
  destruct p as [o1 e1]. cbn [fst snd] in *. subst o1.
  pose proof (stored_find _ _ (first q, e1) Hst ltac:(left; reflexivity)) as Hf1. cbn [fst snd] in Hf1.
  apply Forall_cons_iff in Hs. destruct Hs as [Hs1 Hsr]. cbn [snd] in Hs1.
  (* geometry of the tail *)
  assert (Hgeo : (first q <= last q -> first q + W <= last q /\ lib q = last q) /\ (last q < first q -> 0 <= last q)).
  { destruct Hg as [Hn0 | [HL | HWr]]; [discriminate| |].
    - destruct HL as (H0 & Hcg & Hlast & Hli & He). cbn [contig] in Hcg. destruct Hcg as [_ Hcg].
      rewrite lastoff_cons_ne in Hlast by exact Hr. destruct (lastoff_in r Hr) as (el & Hinl). rewrite <- Hlast in Hinl.
      destruct (contig_bounds r _ _ Hsr Hcg Hinl) as [Hb _]. cbn [fst] in Hb. split; [intros _; split; [lia | exact Hli] | intros; lia].
    - destruct HWr as (A & B & EAB & HA & HB & HcA & Hli & HeA & HcB & Hlast & HeB).
      assert (HsB : sane B). { assert (X : sane (A ++ B)) by (rewrite <- EAB; constructor; assumption). apply sane_app in X. apply X. }
      destruct (lastoff_in B HB) as (eb & Hinb). rewrite <- Hlast in Hinb.
      destruct (contig_bounds B 0 _ HsB HcB Hinb) as [Hb1 Hb2]. cbn [fst snd] in Hb1, Hb2.
      pose proof (esz_ge eb) as Hg16.
      assert (Hsb : 0 <= e_sz eb) by (pose proof (proj1 (Forall_forall _ _) HsB _ Hinb) as X; cbn [snd] in X; lia).
      split; [intros; lia | intros; lia]. }
  destruct Hgeo as [HgL HgW].
  unfold remove_first in E.
  destruct (first q =? lib q) eqn:E1.
  - apply Z.eqb_eq in E1. destruct (first q =? last q) eqn:E2.
    + apply Z.eqb_eq in E2. destruct (HgL ltac:(lia)) as [X _]. lia.
    + apply Z.eqb_neq in E2. inversion E; subst q'; clear E. rs.
      assert (last q < first q). { destruct (Z_lt_le_dec (last q) (first q)) as [X|X]; [exact X|]. destruct (HgL X) as [_ Y]. lia. }
      split; [exists 0; lia | intros; lia].
  - apply Z.eqb_neq in E1. rewrite Hf1 in E. inversion E; subst q'; clear E. rs.
    replace (first q + HDR + e_sz e1) with (first q + W) by (unfold esz in Hep; lia).
    split; [exists (k + 1); lia|]. intros Hp.
    destruct (Z_lt_le_dec (last q) (first q)) as [X|X]; [exact (Hwrap X)|]. destruct (HgL X) as [Y _]. lia.
Qed.

(* ------------------------------------------------------------------ operations that only change entry states *)
Lemma eqsz_upd_at W o st l : eqsz W l -> eqsz W (upd_at o st l).
Proof.
  intros H. unfold upd_at. apply Forall_forall. intros p Hin. apply in_map_iff in Hin. destruct Hin as (p0 & <- & Hin).
  pose proof (eqsz_in _ _ _ H Hin) as X. destruct (fst p0 =? o); [cbn [snd]; unfold esz, upd in *; cbn [e_sz]; exact X | exact X].
Qed.

Lemma eqsz_reset_lay W : forall l1 l, eqsz W l -> eqsz W (reset_lay l1 l).
Proof.
  induction l1 as [|p r IH]; intros l H; cbn [reset_lay fold_left]; [exact H|].
  destruct (e_st (snd p) =? QSENT); [apply IH, eqsz_upd_at, H | apply IH, H].
Qed.

Lemma reset_lay_length : forall l1 l, length (reset_lay l1 l) = length l.
Proof.
  induction l1 as [|p r IH]; intros l; cbn [reset_lay fold_left]; [reflexivity|].
  destruct (e_st (snd p) =? QSENT); [change (length (reset_lay r (upd_at (fst p) QWAIT l)) = length l); rewrite IH; apply upd_at_length | apply IH].
Qed.

Lemma ext_same W q q' l l' : first q' = first q -> last q' = last q -> lib q' = lib q -> qsize q' = qsize q ->
  eqsz W l' -> (l' <> [] -> l <> []) -> Ext W q l -> Ext W q' l'.
Proof.
  intros Hf Hl Hb Hs He Hne (_ & Hx). split; [exact He|]. intros H. rewrite Hf, Hl, Hb, Hs. apply Hx, Hne, H.
Qed.

Lemma len_ne {A} (l l' : list A) : length l' = length l -> l' <> [] -> l <> [].
Proof. intros H Hn ->. destruct l'; [congruence | discriminate]. Qed.

Lemma mq_next_fields q x q' : mq_next q = Ok (x, q') -> first q' = first q /\ last q' = last q /\ lib q' = lib q /\ qsize q' = qsize q.
Proof.
  unfold mq_next. destruct (mq_entries q) as [l|w]; [|discriminate]. destruct (first_waiting l) as [[o e]|]; intros H; inversion H; subst; rs; splits; reflexivity.
Qed.

Lemma mq_reset_fields q q' : mq_reset_waiting q = Ok q' -> first q' = first q /\ last q' = last q /\ lib q' = lib q /\ qsize q' = qsize q.
Proof.
  unfold mq_reset_waiting. destruct (mq_entries q) as [l|w]; [|discriminate]. intros H; inversion H; subst; rs; splits; reflexivity.
Qed.

Lemma confirm_ext W q l o id q' : 0 < W -> MQInv q l -> Ext W q l -> nid q < TWO64 -> valid_pair q l o id ->
  mq_confirm q o id = Ok q' -> Ext W q' (confirm_lay q l o id).
Proof.
  intros HW0 H HE Hn64 (Hid0 & Hv) E. pose proof H as (Hc & Hq & Hs & Hst & Hid & Hn & Hg).
  unfold mq_confirm in E. unfold confirm_lay. fold TWO64 in E.
  destruct (0 <? cnt q) eqn:Epos.
  2:{ apply Z.ltb_ge in Epos. assert (l = []) by (destruct l; [reflexivity | cbn [length] in Hc; lia]). subst l.
      inversion E; subst q'. destruct (id <? nid q - cnt q); [|destruct (o =? first q)]; cbn [upd_at map tl]; exact HE. }
  apply Z.ltb_lt in Epos.
  destruct Hv as [Hstale | (e & Hin & He)].
  - assert (E0 : id <? nid q - cnt q = true) by (apply Z.ltb_lt; lia). rewrite E0.
    assert (Hd : (nid q - 1 - id) mod TWO64 = nid q - 1 - id) by (apply Z.mod_small; lia). rewrite Hd in E.
    assert (E2 : nid q - 1 - id <? cnt q = false) by (apply Z.ltb_ge; lia). rewrite E2 in E. inversion E; subst q'. exact HE.
  - pose proof (ids_in_range l _ (o, e) Hid Hin) as Hr. cbn [snd] in Hr. rewrite He in Hr.
    assert (E0 : id <? nid q - cnt q = false) by (apply Z.ltb_ge; lia). rewrite E0.
    assert (Hd : (nid q - 1 - id) mod TWO64 = nid q - 1 - id) by (apply Z.mod_small; lia). rewrite Hd in E.
    assert (E2 : nid q - 1 - id <? cnt q = true) by (apply Z.ltb_lt; lia). rewrite E2 in E.
    pose proof (stored_find _ _ _ Hst Hin) as Hfd. cbn [fst snd] in Hfd. rewrite Hfd in E.
    assert (E3 : e_id e =? id = true) by (apply Z.eqb_eq; exact He). rewrite E3 in E.
    pose proof (inv_upd_at q l o QCONF H) as H1. unfold with_cells in H1.
    assert (HE1 : Ext W {| qsize := qsize q; cnt := cnt q; first := first q; last := last q; lib := lib q; nid := nid q; cells := set_state (cells q) o QCONF |} (upd_at o QCONF l)).
    { apply (ext_same W q _ l); try reflexivity; [apply eqsz_upd_at, HE | apply len_ne, upd_at_length | exact HE]. }
    rsi E. destruct (o =? first q) eqn:Ef.
    + destruct (upd_at o QCONF l) as [|p r] eqn:EU.
      { apply upd_at_nil_iff in EU. subst l. destruct Hin. }
      cbn [tl]. exact (remove_first_ext W _ p r q' HW0 H1 HE1 E).
    + inversion E; subst q'. exact HE1.
Qed.

(* ------------------------------------------------------------------ one step of any history *)
Theorem cap_step W z q l issued o : 0 <= z <= 250 -> W = HDR + z -> MQInv q l -> Ext W q l -> Issued q l issued -> nid q < TWO64 - 1 ->
  (forall a, o = MEnq a -> lenz a = z) ->
  exists q' l' issued' out, mq_step q issued o = Ok (q', issued', out) /\ MQInv q' l' /\ Ext W q' l' /\ Issued q' l' issued' /\
    nid q <= nid q' <= nid q + 1 /\ qsize q' = qsize q /\
    (forall a, o = MEnq a -> cnt q' = cnt q + 1 \/ (cnt q' = cnt q /\ qsize q < (cnt q' + 1) * W)).
Proof.
  intros Hz HW H HE HI Hn Hsz. assert (HW0 : 0 < W) by (unfold HDR in HW; lia).
  destruct o as [a| |i| |]; cbn [mq_step].
  - pose proof (Hsz a eq_refl) as Hla. destruct (mq_enqueue_spec q l a H) as [_ Hsmall].
    destruct (Hsmall ltac:(lia)) as (q' & D & nx & E & HD & Hi & Hni & Hqs). rewrite E.
    pose proof (enqueue_fields W q l a q' H HE ltac:(lia) ltac:(lia) E) as (Hk & Hwr & _ & Hcount).
    exists q', (skipn D l ++ [(nx, new_ent q a)]), issued, None. splits; first [assumption | lia | reflexivity | idtac].
    + split.
      * apply eqsz_app. split; [apply eqsz_skipn, HE|]. constructor; [|constructor]. cbn [snd]. unfold esz, new_ent. cbn [e_sz]. fold (lenz a). lia.
      * intros _. split; assumption.
    + apply Forall_forall. intros p Hp. pose proof (proj1 (Forall_forall _ _) HI p Hp) as Hv. cbn beta in Hv.
      apply (valid_pair_enq q q' l D nx); assumption.
  - pose proof (mq_next_spec q l H) as Sp. destruct (first_waiting l) as [[off e]|] eqn:F.
    + destruct Sp as (q' & E & Hi & Hin & Hni & Hcn & Hqs). rewrite E.
      destruct (mq_next_fields _ _ _ E) as (F1 & F2 & F3 & F4).
      exists q', (upd_at off QSENT l), (issued ++ [(off, e_id e)]), (Some (off, e)). splits; first [assumption | lia | reflexivity | discriminate | idtac].
      * apply (ext_same W q q' l); try assumption; [apply eqsz_upd_at, HE | apply len_ne, upd_at_length].
      * apply Forall_app. split.
        -- apply Forall_forall. intros p Hp. pose proof (proj1 (Forall_forall _ _) HI p Hp) as Hv. cbn beta in Hv.
           apply (valid_pair_upd q q'); assumption.
        -- constructor; [|constructor]. cbn [fst snd]. apply (valid_pair_upd q q'); try assumption.
           destruct H as (_ & _ & _ & _ & Hid & Hn0 & _). pose proof (ids_in_range _ _ (off, e) Hid Hin) as Hr. cbn [snd] in Hr.
           split; [lia | right; exists e; split; [exact Hin | reflexivity]].
    + rewrite Sp. exists q, l, issued, None. splits; first [assumption | lia | reflexivity | discriminate | idtac].
  - destruct (nth_error issued i) as [[off id]|] eqn:En.
    + pose proof (nth_error_In _ _ En) as Hin. pose proof (proj1 (Forall_forall _ _) HI _ Hin) as Hv. cbn [fst snd] in Hv.
      destruct (mq_confirm_spec q l off id H ltac:(lia) Hv) as (q' & E & Hi & Hni & Hqs). rewrite E.
      exists q', (confirm_lay q l off id), issued, None. splits; first [assumption | lia | reflexivity | discriminate | idtac].
      * apply (confirm_ext W q l off id q'); try assumption; lia.
      * apply Forall_forall. intros p Hp. pose proof (proj1 (Forall_forall _ _) HI p Hp) as Hv2. cbn beta in Hv2.
        apply (valid_pair_confirm q q'); assumption.
    + exists q, l, issued, None. splits; first [assumption | lia | reflexivity | discriminate | idtac].
  - destruct (mq_reset_waiting_spec q l H) as (q' & E & Hi & Hni & Hcn & Hqs). rewrite E.
    destruct (mq_reset_fields _ _ E) as (F1 & F2 & F3 & F4).
    exists q', (reset_lay l l), issued, None. splits; first [assumption | lia | reflexivity | discriminate | idtac].
    + apply (ext_same W q q' l); try assumption; [apply eqsz_reset_lay, HE | apply len_ne, reset_lay_length].
    + apply Forall_forall. intros p Hp. pose proof (proj1 (Forall_forall _ _) HI p Hp) as Hv. cbn beta in Hv.
      apply (valid_pair_reset l q q'); assumption.
  - destruct (mq_reads_ok q l H) as [E1 E2]. rewrite E1, E2.
    exists q, l, issued, None. splits; first [assumption | lia | reflexivity | discriminate | idtac].
Qed.

(* ------------------------------------------------------------------ every history *)
(* along the run: every enqueue either displaces nothing, or leaves at least n entries in the ring (and has displaced exactly one) *)
Fixpoint cap_run (n : Z) (q : mqs) (issued : list (Z * Z)) (ops : list mop) : Prop :=
  match ops with
  | [] => True
  | o :: r => match mq_step q issued o with
              | Fault _ => False
              | Ok (q', issued', _) =>
                match o with MEnq _ => cnt q' = cnt q + 1 \/ (cnt q' = cnt q /\ n <= cnt q') | _ => True end /\ cap_run n q' issued' r
              end
  end.

Theorem mq_capacity_gen n z : 0 <= z <= 250 -> forall ops q l issued,
  MQInv q l -> Ext (HDR + z) q l -> Issued q l issued -> qsize q = n * (HDR + 256) ->
  nid q + Z.of_nat (length ops) < TWO64 - 1 -> (forall a, In (MEnq a) ops -> lenz a = z) ->
  cap_run n q issued ops.
Proof.
  intros Hz. induction ops as [|o r IH]; intros q l issued H HE HI Hqs Hn Hsz; cbn [cap_run]; [exact I|].
  cbn [length] in Hn.
  destruct (cap_step (HDR + z) z q l issued o Hz eq_refl H HE HI ltac:(lia)) as (q1 & l1 & is1 & out & E & H1 & HE1 & HI1 & Hni & Hq1 & Hcnt).
  { intros a ->. apply Hsz. left. reflexivity. }
  rewrite E. split.
  - destruct o as [a| | | |]; try exact I. destruct (Hcnt a eq_refl) as [X | [X Y]]; [left; exact X | right; split; [exact X|]].
    rewrite Hqs in Y. unfold HDR in *.
    assert (0 <= cnt q1) by (destruct H1 as (Hc1 & _); lia). nia.
  - apply (IH q1 l1 is1); try assumption; try lia. intros a Hin. apply Hsz. right. exact Hin.
Qed.

Lemma Ext_new W n : Ext W (mq_new n) [].
Proof. split; [constructor | intros X; congruence]. Qed.

Theorem mq_capacity n z ops : 1 <= n -> 0 <= z <= 250 -> (forall a, In (MEnq a) ops -> lenz a = z) ->
  1 + Z.of_nat (length ops) < TWO64 - 1 -> cap_run n (mq_new n) [] ops.
Proof.
  intros Hn Hz Hsz Hlen. apply (mq_capacity_gen n z Hz ops (mq_new n) [] []); try assumption.
  - apply MQInv_new, Hn.
  - apply Ext_new.
  - constructor.
  - reflexivity.
Qed.

(* non-vacuity and sharpness: n = 2, ASDUs of 250 octets (the largest): the third and fourth enqueue displace one entry each and
   two remain; smaller equal-size ASDUs leave more than n entries (100 octets: four) *)
Example cap_example :
  match mq_run (mq_new 2) [] [MEnq (repeat 1 250); MEnq (repeat 2 250); MEnq (repeat 3 250); MEnq (repeat 4 250)] with
  | Ok (q, _) => cnt q = 2 /\ map (fun p => e_id (snd p)) (match mq_entries q with Ok l => l | Fault _ => [] end) = [3; 4]
  | Fault _ => False end.
Proof. vm_compute. split; reflexivity. Qed.
Example cap_example_small :
  match mq_run (mq_new 2) [] [MEnq (repeat 1 100); MEnq (repeat 2 100); MEnq (repeat 3 100); MEnq (repeat 4 100); MEnq (repeat 5 100)] with
  | Ok (q, _) => cnt q = 4 | Fault _ => False end.
Proof. vm_compute. reflexivity. Qed.
