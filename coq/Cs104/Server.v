(* CS104 server, one connection slot, SINGLE_REDUNDANCY_GROUP mode, threadless loop
   (CS104_Slave_tick -> handleConnectionsThreadless -> handleClientConnections), transcribed function
   by function from cs104_slave.c.  The event queue and the high-priority queue are abstract FIFOs here
   (their byte-exact rings are MsgQueue.v / HpQueue.v); the correspondence scripts for this model keep
   both below capacity, where the abstract and the byte-exact views coincide.  The application behind
   the callbacks is the harness' scripted one (h_cs104s.c: do_burst) and is part of the environment. *)
From Coq Require Import ZArith List Bool Lia.
From RecordUpdate Require Import RecordSet.
From L60870 Require Import Apci.Reasm Apci.Frame.
Import ListNotations RecordSetNotations.
Local Open Scope Z_scope.

Record cfg := { c_k : Z; c_w : Z; c_t1 : Z; c_t2 : Z; c_t3 : Z;
                c_interrog : bool;          (* interrogation handler registered *)
                c_hret : bool; c_burst : Z; c_bsize : Z; c_term : bool; c_reqret : bool }.
(* application-layer sizes are fixed to the defaults in this model: COT 2, CA 2, IOA 3 octets *)
Definition HDR := 6.

Definition QCONF := 0. Definition QWAIT := 1. Definition QSENT := 2.
Record qent := { q_id : Z; q_asdu : list Z; q_st : Z }.
Record kent := { k_ack : Z; k_time : Z; k_entry : option Z }.

Definition STOPPED := 0. Definition STARTED := 1. Definition UNCONF := 2.
Definition NOTIME := -1.            (* UINT64_MAX *)

Record conn := {
  cid : Z; st : Z; running : bool; vs : Z; vr : Z; unconf : Z; t2trig : bool; lastconf : Z;
  nextT3 : Z; wtest : bool; nextTest : Z; kbuf : list kent; hp : list (list Z); rs : rstate;
  avail : list Z; peer_closed : bool; wmode : Z;
  kmax : Z }.      (* maxSentASDUs: the k fixed when the connection was accepted (MasterConnection_init) *)
#[export] Instance eta_conn : Settable _ :=
  settable! Build_conn <cid; st; running; vs; vr; unconf; t2trig; lastconf; nextT3; wtest; nextTest; kbuf; hp; rs; avail; peer_closed; wmode; kmax>.

Record server := { con : option conn; pending : list Z; mq : list qent; next_id : Z; opencnt : Z; replyctr : Z;
                   to_close : list Z }.
#[export] Instance eta_server : Settable _ := settable! Build_server <con; pending; mq; next_id; opencnt; replyctr; to_close>.

Inductive obs :=
| OTx (c : Z) (bytes : list Z) | OEv (c : Z) (e : Z) | OReq (ret : bool)
| OCbAsdu (c : Z) (asdu : list Z) | OCbInterrog (c : Z) (qoi : Z) (asdu : list Z)
| OSend (c : Z) (what : Z) (ret : bool)       (* what: -1 ACT_CON, -2 ACT_TERM, n >= 0 reply id *)
| ORxStop (c : Z)                              (* marker: STOPDT act handled (used by the trace theorems) *)
| OClosed (c : Z).

Definition EV_OPENED := 0. Definition EV_CLOSED := 1. Definition EV_ACT := 2. Definition EV_DEACT := 3.

Definition server_init : server :=
  {| con := None; pending := []; mq := []; next_id := 1; opencnt := 0; replyctr := 0; to_close := [] |}.

(* ---- writing to the socket (Socket_write on the simulated socket) *)
Definition wr (c : conn) (bytes : list Z) : Z * list obs :=
  if wmode c =? 1 then (-1, []) else if wmode c =? 2 then (0, []) else (Z.of_nat (length bytes), [OTx (cid c) bytes]).

(* ---- sendIMessage + sendASDU (k-buffer append) *)
Definition send_i (now : Z) (c : conn) (asdu : list Z) (entry : option Z) : conn * list obs :=
  let frame := enc_i (vs c) (vr c) asdu in
  let '(r, o) := wr c frame in
  let c1 := if 0 <? r then c <| vs := (vs c + 1) mod 32768 |> <| unconf := 0 |> <| t2trig := false |>
            else c <| running := false |> <| unconf := 0 |> in
  (c1 <| kbuf := kbuf c1 ++ [{| k_ack := vs c1; k_time := now; k_entry := entry |}] |>, o).

(* isSentBufferFull: against the connection's own k; the first argument (the configured k) is kept for the callers' signature only *)
Definition kfull (k : Z) (c : conn) : bool := Z.of_nat (length (kbuf c)) >=? kmax c.

Definition send_s_raw (c : conn) : conn * list obs :=
  let '(r, o) := wr c (enc_s (vr c)) in
  ((if r <? 0 then c <| running := false |> else c), o).

(* sendASDUInternal: responses issued by the application / negative responses *)
Definition send_asdu_internal (g : cfg) (now : Z) (c : conn) (asdu : list Z) : conn * bool * list obs :=
  if st c =? STARTED then
    if negb (kfull (c_k g) c) && (match hp c with [] => true | _ => false end) then let '(c', o) := send_i now c asdu None in (c', true, o)
    else (c <| hp := hp c ++ [asdu] |>, true, [])     (* abstract high-priority FIFO, below capacity *)
  else (c, false, []).

(* ---- event queue (abstract) *)
Fixpoint mq_confirm (id : Z) (q : list qent) : list qent :=
  match q with
  | [] => []
  | e :: r => if q_id e =? id then {| q_id := id; q_asdu := q_asdu e; q_st := QCONF |} :: r else e :: mq_confirm id r
  end.
(* MessageQueue_markAsduAsConfirmed: mark; if it is the first entry remove it *)
Definition mq_mark (id : Z) (q : list qent) : list qent :=
  match q with
  | e :: r => if q_id e =? id then r else mq_confirm id q
  | [] => []
  end.
Fixpoint mq_has_sent (q : list qent) : bool :=
  match q with [] => false | e :: r => (q_st e =? QSENT) || mq_has_sent r end.
Fixpoint mq_next_waiting (q : list qent) : option (qent * list qent) :=
  match q with
  | [] => None
  | e :: r => if q_st e =? QWAIT then Some (e, {| q_id := q_id e; q_asdu := q_asdu e; q_st := QSENT |} :: r)
              else match mq_next_waiting r with Some (x, r') => Some (x, e :: r') | None => None end
  end.
Definition mq_reset_waiting (q : list qent) : list qent :=
  map (fun e => if q_st e =? QSENT then {| q_id := q_id e; q_asdu := q_asdu e; q_st := QWAIT |} else e) q.

(* ---- checkSequenceNumber on the abstract k-buffer (C04 proves the ring version equal to this rule) *)
Fixpoint release (n : nat) (kb : list kent) (q : list qent) : list kent * list qent :=
  match n, kb with
  | S m, e :: r => release m r (match k_entry e with Some id => mq_mark id q | None => q end)
  | _, _ => (kb, q)
  end.
Definition check_nr (c : conn) (q : list qent) (nr : Z) : option (conn * list qent) :=
  let cnt := Z.of_nat (length (kbuf c)) in
  let d := (nr - (vs c - cnt)) mod 32768 in
  if d <=? cnt then let '(kb, q') := release (Z.to_nat d) (kbuf c) q in Some (c <| kbuf := kb |>, q') else None.

(* ---- the scripted application (harness h_cs104s.c) *)
Definition set_cot (asdu : list Z) (cot : Z) (neg : bool) : list Z :=
  match asdu with
  | t :: v :: c :: r => t :: v :: (Z.lor (Z.land c 128) (Z.lor (if neg then 64 else 0) (Z.land cot 63))) :: r
  | _ => asdu
  end.
Definition reply_asdu (g : cfg) (req : list Z) (id : Z) : list Z :=
  let sz0 := if c_bsize g + HDR >? 249 then 249 - HDR else c_bsize g in
  let sz := if sz0 <? 2 then 2 else sz0 in
  [200; 1; 20; 0; nth 4 req 0; nth 5 req 0; id mod 256; (id / 256) mod 256] ++ repeat 238 (Z.to_nat (sz - 2)).

Fixpoint burst (n : nat) (g : cfg) (now : Z) (c : conn) (req : list Z) (id : Z) : conn * Z * list obs :=
  match n with
  | O => (c, id, [])
  | S m =>
    let '(c1, r, o1) := send_asdu_internal g now c (reply_asdu g req id) in
    let '(c2, id2, o2) := burst m g now c1 req (id + 1) in
    (c2, id2, o1 ++ [OSend (cid c) id r] ++ o2)
  end.

(* interrogation handler of the harness: prints, then (if hret) ACT_CON + burst + optional ACT_TERM *)
Definition app_interrogation (g : cfg) (now : Z) (s : server) (c : conn) (asdu : list Z) (qoi : Z) : server * conn * list obs :=
  let o0 := [OCbInterrog (cid c) qoi asdu] in
  if c_hret g then
    let '(c1, r1, o1) := send_asdu_internal g now c (set_cot asdu 7 false) in
    let '(c2, id2, o2) := burst (Z.to_nat (c_burst g)) g now c1 asdu (replyctr s) in
    let s2 := s <| replyctr := id2 |> in
    if c_term g then
      let '(c3, r3, o3) := send_asdu_internal g now c2 (set_cot asdu 10 false) in
      (s2, c3, o0 ++ o1 ++ [OSend (cid c) (-1) r1] ++ o2 ++ o3 ++ [OSend (cid c) (-2) r3])
    else (s2, c2, o0 ++ o1 ++ [OSend (cid c) (-1) r1] ++ o2)
  else (s, c, o0).

(* ---- handleASDU restricted to what the correspondence scripts send: C_IC_NA_1 and non-command types.
   Result: (server, conn, valid?, obs) *)
Definition handle_asdu (g : cfg) (now : Z) (s : server) (c : conn) (asdu : list Z) : server * conn * bool * list obs :=
  let typ := nth 0 asdu 0 in
  let cot := Z.land (nth 2 asdu 0) 63 in
  let unknown (s : server) (c : conn) (asdu : list Z) :=
      (* no handler took it: generic handler, else negative response 44 *)
      let '(c', _, o) := send_asdu_internal g now c (set_cot asdu 44 true) in (s, c', true, o) in
  if typ =? 100 then
    if (cot =? 6) || (cot =? 8) then
      if c_interrog g then
        (* getElementEx(asdu, 0): needs IOA (3) + QOI (1) octets *)
        if Z.of_nat (length asdu) - HDR <? 4 then (s, c, false, [])
        else
          let ioa := nth 6 asdu 0 + nth 7 asdu 0 * 256 + nth 8 asdu 0 * 65536 in
          if negb (ioa =? 0) then
            let '(c', _, o) := send_asdu_internal g now c (set_cot asdu 47 true) in (s, c', true, o)
          else
            let '(s', c', o) := app_interrogation g now s c asdu (nth 9 asdu 0) in
            if c_hret g then (s', c', true, o)
            else (* handler returned false: falls through to the generic handler *)
              (s', c', true, o ++ [OCbAsdu (cid c) asdu])
      else (s, c, true, [OCbAsdu (cid c) asdu])
    else
      let '(c', _, o) := send_asdu_internal g now c (set_cot asdu 45 true) in (s, c', true, o)
  else (s, c, true, [OCbAsdu (cid c) asdu]).

(* ---- handleMessage *)
Definition u_startdt_con := enc_u 11. Definition u_stopdt_con := enc_u 35.
Definition u_testfr_con := enc_u 131. Definition u_testfr_act := enc_u 67.

Definition handle_message (g : cfg) (now : Z) (s : server) (c : conn) (f : list Z) : server * conn * bool * list obs :=
  let b2 := nth 2 f 0 in
  let size := Z.of_nat (length f) in
  let done (s : server) (c : conn) (o : list obs) := (s, c <| nextT3 := now + c_t3 g * 1000 |>, true, o) in
  if Z.land b2 1 =? 0 then
    if size <? 7 then (s, c, false, [])
    else if negb (st c =? STARTED) then (s, c, false, [])
    else
      let c1 := if t2trig c then c else c <| t2trig := true |> <| lastconf := now |> in
      if negb (ns_dec f =? vr c1) then (s, c1, false, [])
      else match check_nr c1 (mq s) (nr_dec f) with
           | None => (s, c1, false, [])
           | Some (c2, q2) =>
             let s2 := s <| mq := q2 |> in
             let c3 := c2 <| vr := (vr c2 + 1) mod 32768 |> <| unconf := unconf c2 + 1 |> in
             let asdu := skipn 6 f in
             if Z.of_nat (length asdu) <? HDR then (s2, c3, false, [])
             else let '(s4, c4, ok, o) := handle_asdu g now s2 c3 asdu in
                  if ok then done s4 c4 o else (s4, c4, false, o)
           end
  else if Z.land b2 67 =? 67 then
    let '(r, o) := wr c u_testfr_con in if r <? 0 then (s, c, false, o) else done s c o
  else if Z.land b2 7 =? 7 then
    let o1 := if st c =? STARTED then [] else [OEv (cid c) EV_ACT] in
    let c1 := c <| st := STARTED |> <| hp := [] |> in
    let '(r, o) := wr c1 u_startdt_con in
    if r <? 0 then (s, c1, false, o1 ++ o) else done s c1 (o1 ++ o)
  else if Z.land b2 19 =? 19 then
    let o1 := (if st c =? STARTED then [OEv (cid c) EV_DEACT] else []) ++ [ORxStop (cid c)] in
    let c1 := c <| st := UNCONF |> in
    let '(c2, o2) := if 0 <? unconf c1 then
                       let '(cx, ox) := send_s_raw (c1 <| lastconf := now |> <| unconf := 0 |> <| t2trig := false |>) in (cx, ox)
                     else (c1, []) in
    if mq_has_sent (mq s) then done s c2 (o1 ++ o2)
    else
      let c3 := c2 <| st := STOPPED |> in
      let '(r, o3) := wr c3 u_stopdt_con in
      if r <? 0 then (s, c3, false, o1 ++ o2 ++ o3) else done s c3 (o1 ++ o2 ++ o3)
  else if Z.land b2 131 =? 131 then done s (c <| wtest := false |>) []
  else if b2 =? 1 then
    let nr := Z.quot (nth 4 f 0 + nth 5 f 0 * 256) 2 in
    match check_nr c (mq s) nr with
    | None => (s, c, false, [])
    | Some (c1, q1) =>
      let s1 := s <| mq := q1 |> in
      if st c1 =? UNCONF then
        if negb (mq_has_sent q1) then
          let c2 := c1 <| st := STOPPED |> in
          let '(r, o) := wr c2 u_stopdt_con in
          if r <? 0 then (s1, c2, false, o) else done s1 c2 o
        else done s1 c1 []
      else if st c1 =? STOPPED then (s1, c1, false, [])
      else done s1 c1 []
    end
  else (s, c, true, []).

(* ---- MasterConnection_handleTcpConnection *)
Definition handle_tcp (g : cfg) (now : Z) (s : server) (c : conn) : server * conn * list obs :=
  let '(rs', rest, r) := recv_call (rs c) (avail c) (peer_closed c) in
  let c1 := c <| rs := rs' |> <| avail := rest |> in
  match r with
  | RErr => (s, c1 <| running := false |>, [])
  | RNone => (s, c1, [])
  | RFrame f =>
    if running c1 then
      let '(s2, c2, ok, o) := handle_message g now s c1 f in
      let c3 := if ok then c2 else c2 <| running := false |> in
      if unconf c3 >=? c_w g then
        let '(c4, o4) := send_s_raw (c3 <| lastconf := now |> <| unconf := 0 |> <| t2trig := false |>) in
        (s2, c4, o ++ o4)
      else (s2, c3, o)
    else (s, c1, [])
  end.

(* ---- sendWaitingASDUs *)
Fixpoint send_hp (fuel : nat) (g : cfg) (now : Z) (c : conn) : conn * bool * list obs :=   (* bool: may go on to events *)
  match fuel with
  | O => (c, false, [])
  | S f =>
    match hp c with
    | [] => (c, true, [])
    | a :: rest =>
      if kfull (c_k g) c then (c, false, [])
      else
        let '(c1, o1) := send_i now (c <| hp := rest |>) a None in
        if negb (running c1) then (c1, false, o1)
        else let '(c2, b, o2) := send_hp f g now c1 in (c2, b, o1 ++ o2)
    end
  end.

Definition send_waiting (g : cfg) (now : Z) (s : server) (c : conn) : server * conn * list obs :=
  let '(c1, go, o1) := send_hp (S (length (hp c))) g now c in
  if go then
    if kfull (c_k g) c1 then (s, c1, o1)
    else match mq_next_waiting (mq s) with
         | None => (s, c1, o1)
         | Some (e, q') =>
           let '(c2, o2) := send_i now c1 (q_asdu e) (Some (q_id e)) in
           (s <| mq := q' |>, c2, o1 ++ o2)
         end
  else (s, c1, o1).

(* ---- handleTimeouts: four consecutive blocks of the C function *)
Definition tmo_t3 (g : cfg) (now : Z) (c : conn) : conn * list obs :=
  if wtest c then (c, [])
  else
    let c0 := if nextT3 c >? now + c_t3 g * 1000 then c <| nextT3 := now + c_t3 g * 1000 |> else c in
    if now >? nextT3 c0 then
      let '(r, o) := wr c0 u_testfr_act in
      let cx := if r <? 0 then c0 <| running := false |> else c0 in
      (cx <| wtest := true |> <| nextTest := now + c_t1 g * 1000 |>, o)
    else (c0, []).

Definition tmo_test (g : cfg) (now : Z) (c : conn) : conn * bool :=
  if wtest c then
    let cy := if nextTest c >? now + c_t1 g * 1000 then c <| nextTest := now + c_t1 g * 1000 |> else c in
    (cy, negb (now >? nextTest cy))
  else (c, true).

Definition tmo_t2 (g : cfg) (now : Z) (c : conn) : conn * list obs :=
  if 0 <? unconf c then
    let cz := if negb (lastconf c =? NOTIME) && (lastconf c >? now) then c <| lastconf := now |> else c in
    if negb (lastconf cz =? NOTIME) && (now >? lastconf cz) && (now - lastconf cz >=? c_t2 g * 1000) then
      send_s_raw (cz <| lastconf := now |> <| unconf := 0 |> <| t2trig := false |>)
    else (cz, [])
  else (c, []).

Definition tmo_t1 (g : cfg) (now : Z) (c : conn) : conn * bool :=
  match kbuf c with
  | [] => (c, true)
  | e :: r =>
    let e' := if k_time e >? now then {| k_ack := k_ack e; k_time := now; k_entry := k_entry e |} else e in
    (c <| kbuf := e' :: r |>, negb ((now >? k_time e') && (now - k_time e' >=? c_t1 g * 1000)))
  end.

Definition handle_timeouts (g : cfg) (now : Z) (c : conn) : conn * bool * list obs :=
  let '(c1, o1) := tmo_t3 g now c in
  let '(c2, ok2) := tmo_test g now c1 in
  let '(c3, o3) := tmo_t2 g now c2 in
  let '(c4, ok4) := tmo_t1 g now c3 in
  (c4, ok2 && ok4, o1 ++ o3).

(* ---- one CS104_Slave_tick *)
Definition new_conn (g : cfg) (now : Z) (id : Z) : conn :=
  {| cid := id; st := STOPPED; running := true; vs := 0; vr := 0; unconf := 0; t2trig := false; lastconf := NOTIME;
     nextT3 := now + c_t3 g * 1000; wtest := false; nextTest := 0; kbuf := []; hp := []; rs := rinit;
     avail := []; peer_closed := false; wmode := 0; kmax := c_k g |}.

Definition tick (g : cfg) (now : Z) (s : server) : server * list obs :=
  (* handleConnectionsThreadless: accept at most one pending connection (no open-connection limit here) *)
  let '(s1, o1) :=
    match pending s with
    | [] => (s, [])
    | id :: rest =>
      let s0 := s <| pending := rest |> in
      if c_reqret g then
        match con s0 with
        | None => (s0 <| con := Some (new_conn g now id) |> <| opencnt := opencnt s0 + 1 |>, [OReq true; OEv id EV_OPENED])
        | Some _ => (s0, [OReq true])      (* single slot model: scripts never open two at once *)
        end
      else (s0, [OReq false])
    end in
  (* handleClientConnections *)
  match con s1 with
  | None => (s1, o1)
  | Some c =>
    if negb (running c) then
      (s1 <| con := None |> <| mq := mq_reset_waiting (mq s1) |> <| opencnt := opencnt s1 - 1 |> <| to_close := to_close s1 ++ [cid c] |>,
       o1 ++ [OEv (cid c) EV_CLOSED])
    else
      let ready := negb (match avail c with [] => true | _ => false end) || peer_closed c in
      let '(s2, c2, o2) := if ready then handle_tcp g now s1 c else (s1, c, []) in
      if running c2 then
        let '(s3, c3, o3) := if st c2 =? STARTED then send_waiting g now s2 c2 else (s2, c2, []) in
        let '(c4, ok, o4) := handle_timeouts g now c3 in
        let c5 := if ok then c4 else c4 <| running := false |> in
        (s3 <| con := Some c5 |>, o1 ++ o2 ++ o3 ++ o4)
      else (s2 <| con := Some c2 |>, o1 ++ o2)
  end.

(* ---- script stimuli *)
Inductive stim :=
| SConnect (id : Z) | STick | SRx (bytes : list Z) | SEnq (asdu : list Z) | SPeerClose | SWmode (m : Z)
| SPoke (vs vr : Z).

Definition on_con (s : server) (f : conn -> conn) : server :=
  match con s with Some c => s <| con := Some (f c) |> | None => s end.

Definition step (g : cfg) (now : Z) (s : server) (x : stim) : server * list obs :=
  match x with
  | SConnect id => (s <| pending := pending s ++ [id] |>, [])
  | STick => tick g now s
  | SRx b => (on_con s (fun c => c <| avail := avail c ++ b |>), [])
  | SEnq a => (s <| mq := mq s ++ [{| q_id := next_id s; q_asdu := a; q_st := QWAIT |}] |> <| next_id := next_id s + 1 |>, [])
  | SPeerClose => (on_con s (fun c => c <| peer_closed := true |>), [])
  | SWmode m => (on_con s (fun c => c <| wmode := m |>), [])
  | SPoke a b => (on_con s (fun c => c <| vs := a |> <| vr := b |>), [])
  end.
