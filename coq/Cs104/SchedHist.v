(* C06 / C13: every HISTORY of scheduler operations on a connection with both rings in place (responses, events, scheduling rounds,
   acknowledgements, connection end, socket failure) is a history of the scheduler of the server model (Cs104/Server.v, lists without
   capacity) in which the environment makes two kinds of choices: how many of the oldest events an enqueue displaces first (D), and
   whether a response is refused (only possible when not started, oversized, or something is parked already).  Same frames, same
   return values, step by step; no fault, ever. *)
From Coq Require Import ZArith List Bool Lia.
From RecordUpdate Require Import RecordSet.
From L60870 Require Import Apci.Reasm Apci.Frame Cs104.Server Cs104.SchedProofs Cs104.MsgQueue Cs104.MqRingProofs Cs104.QueueRefine
  Cs104.HpRingProofs Cs104.SchedRing Cs104.SchedMq.
Import ListNotations RecordSetNotations.
Local Open Scope Z_scope.

Inductive sop :=
| SEnq (a : list Z)          (* CS104_Slave_enqueueASDU *)
| SResp (a : list Z)         (* sendASDUInternal *)
| SRound                     (* sendWaitingASDUs *)
| SAck (n : nat)             (* the peer acknowledges: the n oldest k-buffer entries are released *)
| SEnd                       (* the connection ends *)
| SWmode (m : Z)             (* the socket starts / stops failing *)
| SState (v : Z).            (* data transfer state of the connection (STARTED / STOPPED / UNCONF) set from outside *)

Record rst := { r_c : conn; r_hq : hpq; r_q : mqs; r_t : offs_t }.
Definition out_t := (list obs * option bool)%type.

Section Hist.
Variables (g : cfg) (now : Z).

Definition rstep (r : rst) (o : sop) : res (rst * out_t) :=
  match o with
  | SEnq a => match mq_enqueue (r_q r) a with
              | Ok q' => Ok ({| r_c := r_c r; r_hq := r_hq r; r_q := q'; r_t := r_t r |}, ([], None))
              | Fault w => Fault w
              end
  | SResp a => match send_asdu_internal_r g now (r_c r) (r_hq r) a with
               | Ok (c', hq', b, ob) => Ok ({| r_c := c'; r_hq := hq'; r_q := r_q r; r_t := r_t r |}, (ob, Some b))
               | Fault w => Fault w
               end
  | SRound => match send_waiting_rr g now (r_c r) (r_hq r) (r_q r) (r_t r) with
              | Ok (c', hq', q', t', ob) => Ok ({| r_c := c'; r_hq := hq'; r_q := q'; r_t := t' |}, (ob, None))
              | Fault w => Fault w
              end
  | SAck n => match release_r n (kbuf (r_c r)) (r_t r) (r_q r) with
              | Ok (kb, q') => Ok ({| r_c := r_c r <| kbuf := kb |>; r_hq := r_hq r; r_q := q'; r_t := r_t r |}, ([], None))
              | Fault w => Fault w
              end
  | SEnd => match mq_reset_waiting (r_q r) with
            | Ok q' => Ok ({| r_c := r_c r <| kbuf := [] |>; r_hq := r_hq r; r_q := q'; r_t := r_t r |}, ([], None))
            | Fault w => Fault w
            end
  | SWmode m => Ok ({| r_c := r_c r <| wmode := m |>; r_hq := r_hq r; r_q := r_q r; r_t := r_t r |}, ([], None))
  | SState v => Ok ({| r_c := r_c r <| st := v |>; r_hq := r_hq r; r_q := r_q r; r_t := r_t r |}, ([], None))
  end.

Fixpoint rrun (r : rst) (ops : list sop) : res (rst * list out_t) :=
  match ops with
  | [] => Ok (r, [])
  | o :: rest => match rstep r o with
                 | Fault w => Fault w
                 | Ok (r1, x) => match rrun r1 rest with Ok (r2, xs) => Ok (r2, x :: xs) | Fault w => Fault w end
                 end
  end.

(* the scheduler of the server model; ch = the environment's choice for this step: D for an enqueue, 0 = refuse for a response *)
Definition sstep (cs : conn * server) (o : sop) (ch : nat) : (conn * server) * out_t :=
  let '(c, s) := cs in
  match o with
  | SEnq a => if lenz a <=? 250
              then ((c, s <| mq := skipn ch (mq s) ++ [{| q_id := next_id s; q_asdu := a; q_st := Server.QWAIT |}] |> <| next_id := next_id s + 1 |>), ([], None))
              else ((c, s), ([], None))
  | SResp a => match ch with
               | O => ((c, s), ([], Some false))
               | _ => let '(c', b, ob) := send_asdu_internal g now c a in ((c', s), (ob, Some b))
               end
  | SRound => let '(s', c', ob) := send_waiting g now s c in ((c', s'), (ob, None))
  | SAck n => let '(kb, ql) := release n (kbuf c) (mq s) in ((c <| kbuf := kb |>, s <| mq := ql |>), ([], None))
  | SEnd => ((c <| kbuf := [] |>, s <| mq := Server.mq_reset_waiting (mq s) |>), ([], None))
  | SWmode m => ((c <| wmode := m |>, s), ([], None))
  | SState v => ((c <| st := v |>, s), ([], None))
  end.

Fixpoint srun (cs : conn * server) (ops : list sop) (chs : list nat) : (conn * server) * list out_t :=
  match ops, chs with
  | o :: rest, ch :: chr => let '(cs1, x) := sstep cs o ch in let '(cs2, xs) := srun cs1 rest chr in (cs2, x :: xs)
  | _, _ => (cs, [])
  end.

Definition Rel (r : rst) (cs : conn * server) : Prop :=
  let '(c, s) := cs in
  r_c r <| hp := hp c |> = c /\ HPInv (r_hq r) (hp c) /\ Rq (r_q r) (r_t r) (kbuf c) (mq s) /\ nid (r_q r) = next_id s.

Lemma set_hp_id c : c <| hp := hp c |> = c. Proof. destruct c. reflexivity. Qed.
Lemma hp_kbuf c kb : hp (c <| kbuf := kb |>) = hp c. Proof. destruct c. reflexivity. Qed.
Lemma hp_wmode c m : hp (c <| wmode := m |>) = hp c. Proof. destruct c. reflexivity. Qed.
Lemma kbuf_wmode c m : kbuf (c <| wmode := m |>) = kbuf c. Proof. destruct c. reflexivity. Qed.
Lemma kbuf_kbuf c kb : kbuf (c <| kbuf := kb |>) = kb. Proof. destruct c. reflexivity. Qed.
Lemma swap_hp_kbuf c L kb : c <| kbuf := kb |> <| hp := L |> = c <| hp := L |> <| kbuf := kb |>. Proof. destruct c. reflexivity. Qed.
Lemma swap_hp_wmode c L m : c <| wmode := m |> <| hp := L |> = c <| hp := L |> <| wmode := m |>. Proof. destruct c. reflexivity. Qed.
Lemma hp_st c v : hp (c <| st := v |>) = hp c. Proof. destruct c. reflexivity. Qed.
Lemma kbuf_st c v : kbuf (c <| st := v |>) = kbuf c. Proof. destruct c. reflexivity. Qed.
Lemma swap_hp_st c L v : c <| st := v |> <| hp := L |> = c <| hp := L |> <| st := v |>. Proof. destruct c. reflexivity. Qed.
Lemma mq_set s ql : mq (s <| mq := ql |>) = ql. Proof. destruct s. reflexivity. Qed.
Lemma next_id_mq s ql : next_id (s <| mq := ql |>) = next_id s. Proof. destruct s. reflexivity. Qed.

Theorem step_sim r cs o : Rel r cs -> nid (r_q r) < TWO64 ->
  exists ch r' x, rstep r o = Ok (r', x) /\ Rel r' (fst (sstep cs o ch)) /\ snd (sstep cs o ch) = x /\
                  nid (r_q r) <= nid (r_q r') <= nid (r_q r) + 1.
Proof.
  destruct cs as [c s]. intros (Hc & HH & HR & Hn) Hb. destruct r as [rc hq q t]. cbn [r_c r_hq r_q r_t] in *.
  destruct o as [a|a| |n| |m|v]; cbn [rstep sstep r_c r_hq r_q r_t].
  - (* enqueue *)
    destruct (lenz a <=? 250) eqn:El.
    + apply Z.leb_le in El. destruct (enqueue_ring q t (kbuf c) (mq s) a HR El) as (q' & D & E & HD & HR' & Hn').
      rewrite E. exists D. eexists. eexists. split; [reflexivity|]. cbn [fst snd r_c r_hq r_q r_t]. split; [|split; [reflexivity | lia]].
      split; [exact Hc|]. split; [exact HH|]. split.
      * destruct s; cbn in *. rewrite <- Hn. exact HR'.
      * destruct s; cbn in *. lia.
    + apply Z.leb_gt in El. destruct HR as (l & HI & X). rewrite (enqueue_ring_oversized q a El l HI).
      exists O. eexists. eexists. split; [reflexivity|]. cbn [fst snd r_c r_hq r_q r_t]. split; [|split; [reflexivity | lia]].
      split; [exact Hc|]. split; [exact HH|]. split; [exists l; split; [exact HI | exact X] | exact Hn].
  - (* response *)
    destruct (internal_ring g now rc hq a (hp c) HH) as (c' & hq' & b & ob & E & H). rewrite E. rewrite Hc in H.
    destruct b.
    + exists 1%nat. eexists. eexists. split; [reflexivity|]. cbn [sstep fst snd r_c r_hq r_q r_t].
      destruct (send_asdu_internal g now c a) as [[cm rm] om] eqn:EL. destruct H as (H1 & _). destruct (H1 eq_refl) as (A & B & C).
      cbn [fst snd]. split; [|split; [|lia]].
      * split; [exact A|]. split; [exact C|]. split; [|exact Hn].
        (* the k-buffer of the list result *)
        assert (Ek : kbuf cm = kbuf c \/ exists x, kbuf cm = kbuf c ++ [x] /\ k_entry x = None).
        { unfold send_asdu_internal in EL. destruct (st c =? STARTED); [|inversion EL; left; reflexivity].
          destruct (negb (kfull (c_k g) c) && match hp c with [] => true | _ => false end).
          - destruct (send_i_kbuf now c a None) as (x & Ex & Ee). destruct (send_i now c a None) as [cx ox]. inversion EL; subst. right. exists x. split; assumption.
          - inversion EL; subst. left. destruct c; reflexivity. }
        destruct HR as (l & X1 & X2 & X3 & X4). exists l. split; [exact X1|]. split; [exact X2|]. split; [exact X3|].
        destruct Ek as [-> | (x & -> & Ee)]; [exact X4|]. apply known_app. split; [exact X4|]. constructor; [rewrite Ee; exact I | constructor].
      * (* outputs *)
        assert (Hr : rm = true).
        { unfold send_asdu_internal in EL. destruct (st c =? STARTED) eqn:Es.
          - destruct (negb (kfull (c_k g) c) && match hp c with [] => true | _ => false end);
              [destruct (send_i now c a None); inversion EL; reflexivity | inversion EL; reflexivity].
          - (* not started: the ring version refuses as well *)
            exfalso. unfold send_asdu_internal_r in E. assert (Es' : st rc =? STARTED = false) by (rewrite <- Hc in Es; rewrite st_set in Es; exact Es).
            rewrite Es' in E. inversion E. }
        subst rm ob. reflexivity.
    + exists O. eexists. eexists. split; [reflexivity|]. cbn [sstep fst snd r_c r_hq r_q r_t].
      destruct (send_asdu_internal g now c a) as [[cm rm] om]. destruct H as (_ & H2). destruct (H2 eq_refl) as (A & B & C & _). subst c' ob.
      split; [|split; [reflexivity | lia]]. split; [exact Hc|]. split; [exact C|]. split; [exact HR | exact Hn].
  - (* a scheduling round *)
    assert (HR0 : Rq q t (kbuf rc) (mq s)) by (rewrite <- Hc in HR; rewrite kbuf_set_hp in HR; exact HR).
    destruct (send_waiting_rings g now s rc hq (hp c) q t HH HR0) as (c' & hq' & q' & t' & ob & E & H). rewrite E. rewrite Hc in H.
    exists O. eexists. eexists. split; [reflexivity|]. cbn [fst snd r_c r_hq r_q r_t].
    destruct (send_waiting g now s c) as [[sm cm] om] eqn:EL. destruct H as (A & B & C & D & Hn').
    cbn [fst snd]. split; [|split; [subst ob; reflexivity | lia]].
    split; [exact A|]. split; [exact C|]. split; [exact D|].
    (* next_id is not touched by send_waiting *)
    assert (Hid : next_id sm = next_id s).
    { rewrite send_waiting_split in EL. destruct (send_hp (S (length (hp c))) g now c) as [[c1 go] o1]. destruct go; [|inversion EL; reflexivity].
      unfold ev_send in EL. destruct (kfull (c_k g) c1); [inversion EL; reflexivity|].
      destruct (Server.mq_next_waiting (mq s)) as [[e q0]|]; [|inversion EL; reflexivity].
      destruct (send_i now c1 (q_asdu e) (Some (q_id e))) as [c2 o2]. inversion EL; subst. apply next_id_mq. }
    rewrite Hid, <- Hn. exact Hn'.
  - (* acknowledgement *)
    assert (HR0 : Rq q t (kbuf rc) (mq s)) by (rewrite <- Hc in HR; rewrite kbuf_set_hp in HR; exact HR).
    destruct (release_ring n (kbuf rc) q t (mq s) HR0 Hb) as (kb' & q' & E & HR' & Hf & Hn'). rewrite E.
    exists O. eexists. eexists. split; [reflexivity|]. cbn [fst snd r_c r_hq r_q r_t].
    assert (Ek : kbuf rc = kbuf c) by (rewrite <- Hc; symmetry; apply kbuf_set_hp). rewrite Ek in HR', Hf.
    destruct (release n (kbuf c) (mq s)) as [kb ql]. cbn [fst snd] in *. subst kb'.
    split; [|split; [reflexivity | lia]]. unfold Rel. cbn [r_c r_hq r_q r_t].
    split; [rewrite hp_kbuf, swap_hp_kbuf, Hc; reflexivity|]. split; [rewrite hp_kbuf; exact HH|].
    split; [rewrite kbuf_kbuf, mq_set; exact HR' | rewrite next_id_mq; lia].
  - (* the connection ends *)
    destruct (reset_ring q t (kbuf c) (mq s) HR) as (q' & E & HR' & Hn'). rewrite E.
    exists O. eexists. eexists. split; [reflexivity|]. cbn [fst snd r_c r_hq r_q r_t].
    split; [|split; [reflexivity | lia]]. unfold Rel. cbn [r_c r_hq r_q r_t].
    split; [rewrite hp_kbuf, swap_hp_kbuf, Hc; reflexivity|]. split; [rewrite hp_kbuf; exact HH|].
    split; [rewrite kbuf_kbuf, mq_set; exact HR' | rewrite next_id_mq; lia].
  - (* socket mode *)
    exists O. eexists. eexists. split; [reflexivity|]. cbn [fst snd r_c r_hq r_q r_t].
    split; [|split; [reflexivity | lia]]. unfold Rel. cbn [r_c r_hq r_q r_t].
    split; [rewrite hp_wmode, swap_hp_wmode, Hc; reflexivity|]. split; [rewrite hp_wmode; exact HH|].
    split; [rewrite kbuf_wmode; exact HR | exact Hn].
  - exists O. eexists. eexists. split; [reflexivity|]. cbn [fst snd r_c r_hq r_q r_t].
    split; [|split; [reflexivity | lia]]. unfold Rel. cbn [r_c r_hq r_q r_t].
    split; [rewrite hp_st, swap_hp_st, Hc; reflexivity|]. split; [rewrite hp_st; exact HH|].
    split; [rewrite kbuf_st; exact HR | exact Hn].
Qed.

Theorem history_sim : forall ops r cs, Rel r cs -> nid (r_q r) + Z.of_nat (length ops) < TWO64 ->
  exists chs r' xs, rrun r ops = Ok (r', xs) /\ length chs = length ops /\
                    snd (srun cs ops chs) = xs /\ Rel r' (fst (srun cs ops chs)).
Proof.
  induction ops as [|o rest IH]; intros r cs HR Hb; cbn [rrun length] in *.
  - exists [], r, []. split; [reflexivity|]. split; [reflexivity|]. split; [reflexivity | exact HR].
  - destruct (step_sim r cs o HR ltac:(lia)) as (ch & r1 & x & E & HR1 & Hx & Hn). rewrite E.
    destruct (IH r1 (fst (sstep cs o ch)) HR1 ltac:(lia)) as (chs & r2 & xs & E2 & Hl & Hxs & HR2). rewrite E2.
    exists (ch :: chs), r2, (x :: xs). split; [reflexivity|]. split; [cbn [length]; lia|]. cbn [srun].
    destruct (sstep cs o ch) as [cs1 x1]. cbn [fst snd] in *. subst x1.
    destruct (srun cs1 rest chs) as [cs2 xs2]. cbn [fst snd] in *. subst xs2. split; [reflexivity | exact HR2].
Qed.
End Hist.

(* the initial state: a fresh connection, both rings empty, the server model's queue empty with the same next id *)
Lemma Rel_init g now n m id : 1 <= n -> 1 <= m ->
  Rel {| r_c := new_conn g now id; r_hq := hp_new n; r_q := mq_new m; r_t := [] |} (new_conn g now id, server_init).
Proof.
  intros Hn Hm. unfold Rel. cbn [r_c r_hq r_q r_t]. split; [reflexivity|]. split; [apply HPInv_new; exact Hn|].
  split; [apply Rq_new; exact Hm | reflexivity].
Qed.

(* non-vacuity: from the initial state, a history with displacement (event ring of one entry pair), a refused response (ring for one
   worst-case entry, window k = 1 full), acknowledgements and a connection end runs without a fault *)
Definition exh_g : cfg := {| c_k := 1; c_w := 8; c_t1 := 15; c_t2 := 10; c_t3 := 20; c_interrog := true; c_hret := true; c_burst := 0;
                             c_bsize := 0; c_term := false; c_reqret := true |}.
Definition exh_ops : list sop :=
  [SState STARTED; SEnq (exm_ev 1); SEnq (exm_ev 2); SRound; SResp (exr_a 1); SResp (exr_a 2); SEnq (repeat 7 250); SEnq (repeat 8 250);
   SAck 1; SRound; SRound; SAck 1; SRound; SEnd; SRound; SAck 1; SRound].
Example history_example :
  match rrun exh_g 0 {| r_c := new_conn exh_g 0 1; r_hq := hp_new 1; r_q := mq_new 1; r_t := [] |} exh_ops with
  | Ok (_, xs) => map snd xs = [None; None; None; None; Some true; Some false; None; None; None; None; None; None; None; None; None; None; None] /\
                  itx (flat_map fst xs) = [exm_ev 1; exr_a 1; repeat 8 250; repeat 8 250]
  | Fault _ => False
  end.
Proof. vm_compute. split; reflexivity. Qed.
