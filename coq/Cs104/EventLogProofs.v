(* C06 at the level of the event log of Cs104/Server.v (the abstract view of the ring proved/validated
   separately): what is handed out, what is re-armed after a connection loss, what can never be sent again. *)
From Coq Require Import ZArith List Bool Lia.
From L60870 Require Import Cs104.Server.
Import ListNotations.
Local Open Scope Z_scope.

(* getNextWaitingASDU hands out the OLDEST waiting entry and marks exactly it as sent *)
Lemma next_waiting_spec : forall q e q', mq_next_waiting q = Some (e, q') ->
  exists pre post, q = pre ++ e :: post /\ q_st e = QWAIT /\ Forall (fun x => q_st x <> QWAIT) pre /\
                   q' = pre ++ {| q_id := q_id e; q_asdu := q_asdu e; q_st := QSENT |} :: post.
Proof.
  induction q as [|x r IH]; intros e q' H; cbn [mq_next_waiting] in H; [discriminate|].
  destruct (q_st x =? QWAIT) eqn:E.
  - inversion H; subst. exists [], r. apply Z.eqb_eq in E. repeat split; auto.
  - destruct (mq_next_waiting r) as [[y r']|] eqn:R; [|discriminate]. inversion H; subst.
    destruct (IH e r' eq_refl) as (pre & post & E1 & E2 & E3 & E4).
    exists (x :: pre), post. subst. repeat split; auto. constructor; [apply Z.eqb_neq; exact E | exact E3].
Qed.

Lemma next_waiting_none : forall q, mq_next_waiting q = None -> Forall (fun x => q_st x <> QWAIT) q.
Proof.
  induction q as [|x r IH]; intros H; [constructor|]. cbn [mq_next_waiting] in H.
  destruct (q_st x =? QWAIT) eqn:E; [discriminate|].
  destruct (mq_next_waiting r) as [[y r']|]; [discriminate|]. constructor; [apply Z.eqb_neq; exact E | apply IH; reflexivity].
Qed.

(* after a connection ends: nothing stays "sent", every entry that was sent-but-unconfirmed waits again,
   identities/payloads/order are untouched, confirmed entries stay confirmed *)
Lemma reset_waiting_spec : forall q,
  map q_id (mq_reset_waiting q) = map q_id q /\ map q_asdu (mq_reset_waiting q) = map q_asdu q /\
  Forall (fun x => q_st x <> QSENT) (mq_reset_waiting q) /\
  Forall2 (fun a b => q_st b = (if q_st a =? QSENT then QWAIT else q_st a)) q (mq_reset_waiting q).
Proof.
  induction q as [|x r (I1 & I2 & I3 & I4)]; [cbn; repeat split; constructor|].
  cbn [mq_reset_waiting map]. fold (mq_reset_waiting r).
  destruct (q_st x =? QSENT) eqn:E; cbn [q_id q_asdu q_st]; rewrite I1, I2; repeat split; auto.
  - constructor; [cbn; unfold QWAIT, QSENT; lia | exact I3].
  - constructor; [cbn; rewrite E; reflexivity | exact I4].
  - constructor; [apply Z.eqb_neq; exact E | exact I3].
  - constructor; [rewrite E; reflexivity | exact I4].
Qed.

(* ---- histories of the log: enqueue / hand out next / acknowledge id / connection lost *)
Inductive lop := LEnq (a : list Z) | LNext | LAck (id : Z) | LLost.
Definition lstate := (list qent * Z)%type.        (* log, next id *)
Definition lstep (s : lstate) (o : lop) : lstate * option Z :=
  let '(q, n) := s in
  match o with
  | LEnq a => ((q ++ [{| q_id := n; q_asdu := a; q_st := QWAIT |}], n + 1), None)
  | LNext => match mq_next_waiting q with Some (e, q') => ((q', n), Some (q_id e)) | None => ((q, n), None) end
  | LAck id => ((mq_mark id q, n), None)
  | LLost => ((mq_reset_waiting q, n), None)
  end.

Definition LInv (s : lstate) : Prop := NoDup (map q_id (fst s)) /\ Forall (fun e => q_id e < snd s) (fst s).

Lemma mq_confirm_ids id q : map q_id (mq_confirm id q) = map q_id q.
Proof. induction q as [|e r IH]; [reflexivity|]. cbn. destruct (q_id e =? id) eqn:E; cbn; [apply Z.eqb_eq in E; subst; reflexivity | rewrite IH; reflexivity]. Qed.

Lemma mq_confirm_lt id q n : Forall (fun e => q_id e < n) q -> Forall (fun e => q_id e < n) (mq_confirm id q).
Proof.
  induction q as [|e r IH]; intros H; [constructor|]. inversion H; subst. cbn.
  destruct (q_id e =? id) eqn:E; constructor; cbn; auto. apply Z.eqb_eq in E. lia.
Qed.

Lemma reset_lt q n : Forall (fun e => q_id e < n) q -> Forall (fun e => q_id e < n) (mq_reset_waiting q).
Proof.
  induction q as [|e r IH]; intros H; [constructor|]. inversion H; subst. cbn [mq_reset_waiting map]. fold (mq_reset_waiting r).
  constructor; [destruct (q_st e =? QSENT); cbn; assumption | apply IH; assumption].
Qed.

Lemma NoDup_snoc (l : list Z) x : NoDup l -> ~ In x l -> NoDup (l ++ [x]).
Proof.
  induction l as [|a l IH]; intros H Hx; cbn; [constructor; [intros []|constructor]|].
  inversion H; subst. constructor.
  - intros Hin. apply in_app_or in Hin. destruct Hin as [Hin | [E|[]]]; [contradiction|]. subst. apply Hx. left. reflexivity.
  - apply IH; [assumption|]. intros Hin. apply Hx. right. exact Hin.
Qed.

Lemma lstep_inv s o : LInv s -> LInv (fst (lstep s o)).
Proof.
  destruct s as [q n]. intros [Hnd Hlt]. cbn [fst snd] in *. destruct o as [a| |id|]; unfold lstep, LInv.
  - cbn [fst snd]. split.
    + rewrite map_app. cbn [map q_id]. apply NoDup_snoc; [exact Hnd|].
      intros Hx. apply in_map_iff in Hx. destruct Hx as (e & E1 & E2).
      rewrite Forall_forall in Hlt. specialize (Hlt e E2). lia.
    + apply Forall_app. split; [eapply Forall_impl; [|exact Hlt]; cbn; intros; lia | constructor; [cbn; lia | constructor]].
  - destruct (mq_next_waiting q) as [[e q']|] eqn:E; cbn [fst snd]; [|split; assumption].
    destruct (next_waiting_spec q e q' E) as (pre & post & E1 & _ & _ & E4). subst. split.
    + rewrite map_app in *. cbn [map q_id] in *. exact Hnd.
    + apply Forall_app in Hlt. destruct Hlt as [H1 H2]. inversion H2; subst. apply Forall_app. split; [exact H1|]. constructor; [cbn; assumption | assumption].
  - cbn [fst snd]. unfold mq_mark. destruct q as [|e r]; [split; constructor|].
    destruct (q_id e =? id).
    + cbn in Hnd. inversion Hnd; subst. inversion Hlt; subst. split; assumption.
    + split; [rewrite mq_confirm_ids; exact Hnd | apply mq_confirm_lt; exact Hlt].
  - cbn [fst snd]. destruct (reset_waiting_spec q) as (I1 & _). split; [rewrite I1; exact Hnd | apply reset_lt; exact Hlt].
Qed.

(* an acknowledged id is dead: absent or CONFIRMED *)
Definition dead (id : Z) (q : list qent) : Prop := Forall (fun e => q_id e = id -> q_st e = QCONF) q.

Lemma dead_after_confirm id q : NoDup (map q_id q) -> dead id (mq_confirm id q).
Proof.
  induction q as [|e r IH]; intros Hnd; [constructor|]. cbn [map] in Hnd. inversion Hnd as [|x l Hni Hnd']; subst. cbn [mq_confirm].
  destruct (q_id e =? id) eqn:E.
  - apply Z.eqb_eq in E. constructor; [cbn; auto|].
    unfold dead. rewrite Forall_forall. intros x Hx Hid. exfalso. apply Hni. rewrite E, <- Hid. apply in_map. exact Hx.
  - constructor; [intros X; apply Z.eqb_neq in E; contradiction | apply IH; exact Hnd'].
Qed.

Lemma dead_after_mark id q : NoDup (map q_id q) -> dead id (mq_mark id q).
Proof.
  intros Hnd. unfold mq_mark. destruct q as [|e r]; [constructor|].
  destruct (q_id e =? id) eqn:E; [|apply dead_after_confirm; exact Hnd].
  apply Z.eqb_eq in E. cbn [map] in Hnd. inversion Hnd as [|x l Hni _]; subst.
  unfold dead. rewrite Forall_forall. intros x Hx Hid. exfalso. apply Hni. rewrite <- Hid. apply in_map. exact Hx.
Qed.

Lemma dead_confirm_other id id' q : dead id q -> dead id (mq_confirm id' q).
Proof.
  induction q as [|e r IH]; intros H; [constructor|]. inversion H; subst. cbn [mq_confirm].
  destruct (q_id e =? id'); constructor; cbn; auto. apply IH. assumption.
Qed.

Lemma dead_step id s o : LInv s -> id < snd s -> dead id (fst s) -> dead id (fst (fst (lstep s o))).
Proof.
  destruct s as [q n]. intros [Hnd Hlt] Hid Hd. cbn [fst snd] in *. destruct o as [a| |id'|]; unfold lstep; cbn [fst snd].
  - apply Forall_app. split; [exact Hd|]. constructor; [cbn; intros; lia | constructor].
  - destruct (mq_next_waiting q) as [[e q']|] eqn:E; cbn [fst]; [|exact Hd].
    destruct (next_waiting_spec q e q' E) as (pre & post & E1 & E2 & _ & E4). subst.
    unfold dead in *. apply Forall_app in Hd. destruct Hd as [H1 H2]. inversion H2; subst.
    apply Forall_app. split; [exact H1|]. constructor; [|assumption].
    cbn. intros X. match goal with H : q_id e = id -> _ |- _ => specialize (H X) end. unfold QWAIT, QCONF in *. lia.
  - unfold mq_mark. destruct q as [|e r]; [constructor|]. destruct (q_id e =? id').
    + inversion Hd; assumption.
    + apply dead_confirm_other. exact Hd.
  - destruct (reset_waiting_spec q) as (I1 & _ & _ & I4). unfold dead in *.
    clear - Hd I1 I4. revert Hd I1 I4. generalize (mq_reset_waiting q). induction q as [|e r IH]; intros l Hd I1 I4.
    + inversion I4; constructor.
    + inversion I4 as [|x y l1 l2 Hxy Hrest]; subst. inversion Hd; subst. cbn [map] in I1. inversion I1.
      constructor; [|apply IH; assumption].
      intros X. rewrite Hxy. match goal with H : q_id e = id -> _ |- _ => rewrite (H ltac:(congruence)) end. reflexivity.
Qed.

Fixpoint lrun (s : lstate) (ops : list lop) : lstate * list (option Z) :=
  match ops with
  | [] => (s, [])
  | o :: r => let '(s1, out) := lstep s o in let '(s2, outs) := lrun s1 r in (s2, out :: outs)
  end.

Lemma snd_lstep_mono s o : snd s <= snd (fst (lstep s o)).
Proof. destruct s as [q n]. destruct o; unfold lstep; cbn [fst snd]; try lia. destruct (mq_next_waiting q) as [[e q']|]; cbn; lia. Qed.

(* C06: an acknowledged ASDU is never handed out for transmission again, whatever happens afterwards *)
Theorem acked_never_resent : forall ops s id, LInv s -> id < snd s -> dead id (fst s) ->
  ~ In (Some id) (snd (lrun s ops)).
Proof.
  induction ops as [|o r IH]; intros s id HI Hid Hd; cbn [lrun]; [intros []|].
  destruct (lstep s o) as [s1 out] eqn:E. destruct (lrun s1 r) as [s2 outs] eqn:R. cbn [snd].
  assert (HI1 : LInv s1) by (pose proof (lstep_inv s o HI) as X; rewrite E in X; exact X).
  assert (Hid1 : id < snd s1) by (pose proof (snd_lstep_mono s o) as X; rewrite E in X; cbn in X; lia).
  assert (Hd1 : dead id (fst s1)) by (pose proof (dead_step id s o HI Hid Hd) as X; rewrite E in X; exact X).
  intros [X | X].
  - (* this very step hands out id: impossible, next_waiting only returns WAITING entries *)
    subst out. destruct s as [q n]. destruct o; unfold lstep in E; try (inversion E; fail).
    destruct (mq_next_waiting q) as [[e q']|] eqn:NW; inversion E; subst.
    destruct (next_waiting_spec q e q' NW) as (pre & post & E1 & E2 & _ & _). subst q.
    cbn [fst] in Hd. unfold dead in Hd. apply Forall_app in Hd. destruct Hd as [_ H2]. inversion H2; subst.
    match goal with H : q_id e = q_id e -> _ |- _ => specialize (H eq_refl) end. unfold QWAIT, QCONF in *. lia.
  - specialize (IH s1 id HI1 Hid1 Hd1). rewrite R in IH. exact (IH X).
Qed.

