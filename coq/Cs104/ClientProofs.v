(* C04 / C11, client role: theorems about Cs104/Client.v (the connection loop of cs104_connection.c, executed against the
   real client on every run). *)
From Coq Require Import ZArith List Bool Lia.
From RecordUpdate Require Import RecordSet.
From L60870 Require Import Apci.Frame Apci.Reasm Cs104.Client.
Import ListNotations RecordSetNotations.
Local Open Scope Z_scope.

Definition lenkb (c : cli) : Z := Z.of_nat (length (ckb c)).

(* ------------------------------------------------------------------ the window: never more than k unacknowledged *)
Definition kinv (c : cli) : Prop := lenkb c <= Z.max 0 (ckmax c).

Lemma csend_asdu_kinv now c a : kinv c -> kinv (fst (fst (csend_asdu now c a))) /\ ckmax (fst (fst (csend_asdu now c a))) = ckmax c.
Proof.
  intros H. unfold csend_asdu. destruct (running c); [|split; [exact H | reflexivity]].
  destruct (ckfull c) eqn:F; [split; [exact H | reflexivity]|].
  destruct (cwmode c =? 0); [|split; [exact H | reflexivity]].
  unfold ckfull in F. rewrite Z.geb_leb in F. apply Z.leb_gt in F. unfold csend_i. cbn. split; [|reflexivity].
  unfold kinv, lenkb in *. cbn. rewrite app_length. cbn [length]. lia.
Qed.

(* a refused send transmits nothing and changes nothing; it is refused exactly while the window is full (or not connected) *)
Lemma csend_asdu_refused now c a : running c = true -> ckfull c = true -> csend_asdu now c a = (c, false, []).
Proof. intros R F. unfold csend_asdu. rewrite R, F. reflexivity. Qed.
Lemma csend_asdu_accepted now c a : running c = true -> ckfull c = false -> cwmode c = 0 ->
  csend_asdu now c a = (fst (csend_i now c a), true, [CTx (enc_i (cvs c) (cvr c) a) true]).
Proof. intros R F W. unfold csend_asdu, csend_i, cwr. rewrite R, F, W. reflexivity. Qed.
(* the socket takes nothing: the call reports failure, nothing is sent, no sequence number is used up, the window is unchanged *)
Lemma csend_asdu_not_written now c a : running c = true -> ckfull c = false -> cwmode c <> 0 ->
  csend_asdu now c a = (c, false, [CTx (enc_i (cvs c) (cvr c) a) false]).
Proof. intros R F W. unfold csend_asdu, cwr. rewrite R, F. apply Z.eqb_neq in W. rewrite W. reflexivity. Qed.

Lemma ccheck_nr_kinv c nr c' : ccheck_nr c nr = Some c' -> kinv c -> kinv c' /\ ckmax c' = ckmax c.
Proof.
  unfold ccheck_nr. destruct (_ <=? _); [|discriminate]. intros E H. inversion E; subst; clear E.
  unfold kinv, lenkb in *. cbn. rewrite skipn_length. split; [lia | reflexivity].
Qed.

Lemma check_message_kinv g now c f : kinv c ->
  kinv (fst (fst (check_message g now c f))) /\ ckmax (fst (fst (check_message g now c f))) = ckmax c.
Proof.
  intros H. unfold check_message.
  destruct (Z.land (nth 2 f 0) 1 =? 0).
  - (* I format *)
    set (c1 := if ct2trig c then c else _).
    assert (H1 : kinv c1 /\ ckmax c1 = ckmax c) by (unfold c1; destruct (ct2trig c); cbn; split; auto).
    destruct H1 as [H1 K1].
    destruct (Z.of_nat (length f) <? 7); [cbn; split; assumption|].
    destruct (negb (ns_dec f =? cvr c1)); [cbn; split; assumption|].
    destruct (ccheck_nr c1 (nr_dec f)) as [c2|] eqn:E; [|cbn; split; assumption].
    destruct (ccheck_nr_kinv _ _ _ E H1) as [H2 K2].
    destruct (_ <? 2 + cc_cot g + cc_ca g); [cbn; split; [exact H2 | congruence]|].
    destruct (0 <? ccbsend _).
    + match goal with |- context [csend_asdu now ?X ?A] => pose proof (csend_asdu_kinv now X A) as S; destruct (csend_asdu now X A) as [[c4 r4] o4] end.
      cbn [fst] in S. destruct S as [S1 S2]; [exact H2|]. cbn. split; [exact S1 | cbn in S2; congruence].
    + cbn. split; [exact H2 | congruence].
  - destruct (Z.land (nth 2 f 0) 3 =? 3).
    + destruct (nth 2 f 0 =? 67); [cbn; split; auto|].
      destruct (nth 2 f 0 =? 131); [cbn; split; auto|].
      destruct (nth 2 f 0 =? 7); [cbn; split; auto|].
      destruct (nth 2 f 0 =? 11); [cbn; split; auto|].
      destruct (nth 2 f 0 =? 35); cbn; split; auto.
    + destruct (nth 2 f 0 =? 1); [|cbn; split; auto].
      destruct (ccheck_nr c _) as [c1|] eqn:E; [|cbn; split; auto].
      destruct (ccheck_nr_kinv _ _ _ E H) as [H2 K2]. cbn. split; [exact H2 | exact K2].
Qed.

Lemma confirm_kinv now c : kinv c -> kinv (fst (confirm_outstanding now c)) /\ ckmax (fst (confirm_outstanding now c)) = ckmax c.
Proof. intros H. unfold confirm_outstanding. cbn. split; auto. Qed.

Lemma timeouts_kinv g now c : kinv c -> kinv (fst (fst (chandle_timeouts g now c))) /\ ckmax (fst (fst (chandle_timeouts g now c))) = ckmax c.
Proof.
  intros H. unfold chandle_timeouts. destruct (ctmo_u now c); [cbn; split; auto|].
  unfold ctmo_t3. destruct (cnt3 c <? now).
  - destruct (negb (cumt c =? 0)).
    { cbn [negb]. unfold ctmo_t2. match goal with |- context [if ?B then confirm_outstanding now ?X else _] => destruct B end; cbn; split; auto. }
    destruct (2 <? couttest c); [cbn; split; auto|]. cbn [negb]. unfold ctmo_t2.
    match goal with |- context [if ?B then confirm_outstanding now ?X else _] => destruct B end; cbn; split; auto.
  - cbn [negb]. unfold ctmo_t2. destruct (_ && _ && _); cbn; split; auto.
Qed.

Lemma cexit_kinv now c : kinv c -> kinv (fst (cexit now c)) /\ ckmax (fst (cexit now c)) = ckmax c.
Proof. intros H. unfold cexit. destruct (0 <? cunconf c); cbn; split; auto. Qed.

Lemma cprocess_kinv g now c0 r : kinv c0 ->
  kinv (fst (fst (cprocess g now c0 r))) /\ ckmax (fst (fst (cprocess g now c0 r))) = ckmax c0.
Proof.
  intros H0. unfold cprocess. destruct r as [f| |]; [|cbn; split; auto | cbn; split; auto].
  pose proof (check_message_kinv g now c0 f H0) as S. destruct (check_message g now c0 f) as [[c2 ok] o2]. cbn [fst] in S. destruct S as [S1 S2].
  cbv zeta. destruct ok; cbn; split; auto.
Qed.

Lemma cwack_kinv g now cm : kinv cm -> kinv (fst (cwack g now cm)) /\ ckmax (fst (cwack g now cm)) = ckmax cm.
Proof. intros H. unfold cwack. destruct (_ || _); cbn; split; auto. Qed.

Lemma cfinish_kinv g now c1 go1 o1 : kinv c1 -> kinv (fst (cfinish g now c1 go1 o1)) /\ ckmax (fst (cfinish g now c1 go1 o1)) = ckmax c1.
Proof.
  intros H1. unfold cfinish.
  pose proof (timeouts_kinv g now c1 H1) as S. destruct (chandle_timeouts g now c1) as [[c4 okt] o4]. cbn [fst] in S. destruct S as [S1 S2].
  destruct (go1 && okt && negb (closef c4)); [cbn; split; [exact S1 | congruence]|].
  pose proof (cexit_kinv now c4 S1) as X. destruct (cexit now c4) as [c5 o5]. cbn [fst] in *. destruct X as [X1 X2]. split; [exact X1 | congruence].
Qed.

Lemma cstep_kinv g now c : kinv c -> kinv (fst (cstep g now c)) /\ ckmax (fst (cstep g now c)) = ckmax c.
Proof.
  intros H. unfold cstep. destruct (negb (running c)); [cbn; split; auto|].
  destruct (_ || cpclosed c); [|apply cfinish_kinv; exact H].
  destruct (recv_call (crs c) (cavail c) (cpclosed c)) as [[rs' rest] r].
  set (c0 := c <| crs := rs' |> <| cavail := rest |>).
  assert (H0 : kinv c0 /\ ckmax c0 = ckmax c) by (unfold c0; cbn; split; auto). destruct H0 as [H0 K0].
  pose proof (cprocess_kinv g now c0 r H0) as P. destruct (cprocess g now c0 r) as [[cm gm] om]. cbn [fst] in P. destruct P as [P1 P2].
  pose proof (cwack_kinv g now cm P1) as W. destruct (cwack g now cm) as [c1 oc]. cbn [fst] in W. destruct W as [W1 W2].
  destruct (cfinish_kinv g now c1 gm (om ++ oc) W1) as [F1 F2]. split; [exact F1 | congruence].
Qed.

(* ---- every history of a connection *)
Inductive cop :=
| OStep | ORx (b : list Z) | OPeerClose | OWmode (m : Z) | OStartDT | OStopDT | OSend (a : list Z) | OClose | OCbSend (n : Z).

Definition capply (g : ccfg) (c : cli) (x : Z * cop) : cli * list cobs :=
  let now := fst x in
  match snd x with
  | OStep => cstep g now c
  | ORx b => (c <| cavail := cavail c ++ b |>, [])
  | OPeerClose => (c <| cpclosed := true |>, [])
  | OWmode m => (c <| cwmode := m |>, [])
  | OStartDT => cstartdt c
  | OStopDT => cstopdt now c
  | OSend a => capp_send now c a
  | OClose => cclose g now c
  | OCbSend n => (c <| ccbsend := n |>, [])
  end.

Lemma capply_kinv g c x : kinv c -> kinv (fst (capply g c x)) /\ ckmax (fst (capply g c x)) = ckmax c.
Proof.
  intros H. destruct x as [now o]. unfold capply. cbn [fst snd]. destruct o; try (cbn; split; auto; fail).
  - apply cstep_kinv; exact H.
  - unfold cstartdt. destruct (running c); cbn; split; auto.
  - unfold cstopdt. destruct (running c); cbn; split; auto.
  - unfold capp_send. pose proof (csend_asdu_kinv now c a H) as S. destruct (csend_asdu now c a) as [[c' r] o]. cbn [fst] in *. exact S.
  - unfold cclose. assert (H' : kinv (c <| closef := true |>)) by (cbn; exact H).
    destruct (cstep_kinv g now _ H') as [S1 S2]. split; [exact S1 | rewrite S2; reflexivity].
Qed.

Definition crun (g : ccfg) (c : cli) (xs : list (Z * cop)) : cli := fold_left (fun c x => fst (capply g c x)) xs c.

(* along every history of a connection made with k = cc_k g (any times, any input, any application calls) the number of
   I-format APDUs sent and not yet acknowledged never exceeds k *)
Theorem client_window_bound : forall xs g now0 c0,
  let c := fst (cconnect g now0 c0 true) in
  lenkb (crun g c xs) <= Z.max 0 (cc_k g).
Proof.
  intros xs g now0 c0 c.
  assert (G : forall xs c1, kinv c1 -> ckmax c1 = cc_k g -> kinv (crun g c1 xs) /\ ckmax (crun g c1 xs) = cc_k g).
  { induction xs0 as [|x r IH]; intros c1 H K; [split; assumption|]. cbn [crun fold_left].
    destruct (capply_kinv g c1 x H) as [H1 K1]. apply IH; [exact H1 | congruence]. }
  destruct (G xs c) as [H K]; [unfold c, cconnect, kinv, lenkb; cbn; lia | reflexivity|].
  unfold kinv in H. rewrite K in H. exact H.
Qed.

(* ------------------------------------------------------------------ timers (handleTimeouts) *)
(* t1 for TESTFR act: closed once the deadline has passed, never before *)
Lemma client_testfr_t1_closes g now c : cumt c <> 0 -> cumt c < now -> chandle_timeouts g now c = (c, false, []).
Proof.
  intros H1 H2. unfold chandle_timeouts, ctmo_u. assert (E1 : cumt c =? 0 = false) by (apply Z.eqb_neq; exact H1).
  assert (E2 : cumt c <? now = true) by (apply Z.ltb_lt; exact H2). rewrite E1, E2. reflexivity.
Qed.
Lemma client_testfr_t1_not_before now c : now <= cumt c -> ctmo_u now c = false.
Proof. intros H. unfold ctmo_u. assert (E : cumt c <? now = false) by (apply Z.ltb_ge; exact H). rewrite E. apply andb_false_r. Qed.

(* t3: after t3 without receiving, TESTFR act is written and supervised with t1 *)
Lemma client_t3_sends_testfr g now c : cumt c = 0 -> cnt3 c < now -> couttest c <= 2 ->
  exists c1, ctmo_t3 g now c = (c1, true, [CTx (enc_u 67) (cwmode c =? 0)]) /\ cumt c1 = now + cc_t1 g * 1000 /\
             cnt3 c1 = now + cc_t3 g * 1000 /\ couttest c1 = couttest c + 1.
Proof.
  intros H0 H1 H2. unfold ctmo_t3. assert (E1 : cnt3 c <? now = true) by (apply Z.ltb_lt; exact H1).
  assert (E2 : 2 <? couttest c = false) by (apply Z.ltb_ge; exact H2). rewrite E1, H0, E2. cbn [negb Z.eqb]. eexists. split; [reflexivity|]. cbn. repeat split.
Qed.
(* while a TESTFR act is unanswered no further one is sent: t3 is re-armed, the t1 deadline of the pending one stays *)
Lemma client_t3_pending g now c : cumt c <> 0 -> cnt3 c < now ->
  exists c1, ctmo_t3 g now c = (c1, true, []) /\ cumt c1 = cumt c /\ cnt3 c1 = now + cc_t3 g * 1000.
Proof.
  intros H0 H1. unfold ctmo_t3. assert (E1 : cnt3 c <? now = true) by (apply Z.ltb_lt; exact H1).
  assert (E0 : cumt c =? 0 = false) by (apply Z.eqb_neq; exact H0). rewrite E1, E0. cbn [negb]. eexists. split; [reflexivity|]. cbn. split; reflexivity.
Qed.
Lemma client_t3_quiet g now c : now <= cnt3 c -> ctmo_t3 g now c = (c, true, []).
Proof. intros H. unfold ctmo_t3. assert (E : cnt3 c <? now = false) by (apply Z.ltb_ge; exact H). rewrite E. reflexivity. Qed.

(* t2: the acknowledgement is written t2 after the first unacknowledged I-format APDU, with N(R) = V(R) *)
Lemma client_t2_fires g now c : 0 < cunconf c -> clastconf c < now -> cc_t2 g * 1000 <= now - clastconf c ->
  exists c1, ctmo_t2 g now c = (c1, [CTx (enc_s (cvr c)) (cwmode c =? 0)]) /\ cunconf c1 = 0 /\ ct2trig c1 = false /\ clastconf c1 = now.
Proof.
  intros H1 H2 H3. unfold ctmo_t2.
  assert (E : (0 <? cunconf c) && (clastconf c <? now) && (cc_t2 g * 1000 <=? now - clastconf c) = true).
  { apply andb_true_intro. split; [apply andb_true_intro; split; apply Z.ltb_lt; assumption | apply Z.leb_le; exact H3]. }
  rewrite E. unfold confirm_outstanding. eexists. split; [reflexivity|]. cbn. repeat split.
Qed.
Lemma client_t2_quiet g now c : cunconf c = 0 \/ now - clastconf c < cc_t2 g * 1000 -> ctmo_t2 g now c = (c, []).
Proof.
  intros H. unfold ctmo_t2. destruct H as [H | H].
  - rewrite H. reflexivity.
  - assert (E : cc_t2 g * 1000 <=? now - clastconf c = false) by (apply Z.leb_gt; exact H). rewrite E, andb_false_r. reflexivity.
Qed.

(* t1 for I-format APDUs: the oldest unacknowledged one decides *)
Lemma client_t1_rule g now c t r : ckb c = t :: r -> ctmo_t1 g now c = (t <? now) && (cc_t1 g * 1000 <=? now - t).
Proof. intros H. unfold ctmo_t1. rewrite H. reflexivity. Qed.
Lemma client_t1_empty g now c : ckb c = [] -> ctmo_t1 g now c = false.
Proof. intros H. unfold ctmo_t1. rewrite H. reflexivity. Qed.

(* w: once w I-format APDUs are unacknowledged the acknowledgement is written in the same loop iteration *)
Lemma client_w_rule g now cm : cc_w g <= cunconf cm ->
  cwack g now cm = confirm_outstanding now cm /\ snd (cwack g now cm) = [CTx (enc_s (cvr cm)) (cwmode cm =? 0)].
Proof.
  intros H. unfold cwack. assert (E : cc_w g <=? cunconf cm = true) by (apply Z.leb_le; exact H). rewrite E. cbn [orb]. split; reflexivity.
Qed.
Lemma client_w_quiet g now cm : cunconf cm < cc_w g -> cstate cm <> ST_WAIT_STOP -> cwack g now cm = (cm, []).
Proof.
  intros H1 H2. unfold cwack. assert (E1 : cc_w g <=? cunconf cm = false) by (apply Z.leb_gt; exact H1).
  assert (E2 : cstate cm =? ST_WAIT_STOP = false) by (apply Z.eqb_neq; exact H2). rewrite E1, E2. reflexivity.
Qed.

(* before stopping data transfer or closing on its own initiative the client acknowledges what it has received *)
Lemma client_stopdt_acks_first now c : running c = true ->
  snd (cstopdt now c) = [CTx (enc_s (cvr c)) (cwmode c =? 0); CTx (enc_u 19) (cwmode c =? 0)].
Proof. intros R. unfold cstopdt. rewrite R. reflexivity. Qed.
Lemma client_exit_acks now c : 0 < cunconf c -> snd (cexit now c) = [CTx (enc_s (cvr c)) (cwmode c =? 0); CEv 1].
Proof. intros H. unfold cexit. assert (E : 0 <? cunconf c = true) by (apply Z.ltb_lt; exact H). rewrite E. reflexivity. Qed.

(* the configured k is the one in force on the connection *)
Lemma client_connect_uses_k g now c : ckmax (fst (cconnect g now c true)) = cc_k g /\ ckb (fst (cconnect g now c true)) = [].
Proof. unfold cconnect. cbn. split; reflexivity. Qed.
