(* C03 / C04 / C11 (client role): literal transcription of the connection loop of cs104_connection.c
   (handleConnection: receiveMessage / checkMessage / the w-acknowledgement / handleTimeouts / close), of
   sendIMessage, confirmOutstandingMessages, CS104_Connection_sendStartDT / sendStopDT / sendASDU, with the k-buffer
   as the list of the transmission times of the unacknowledged I-format APDUs (its ring is the subject of C04).
   One `cstep` is one iteration of the loop, the unit in which harness/h_cs104c.c releases the real client thread. *)
From Coq Require Import ZArith List Bool Lia.
From RecordUpdate Require Import RecordSet.
From L60870 Require Import Apci.Frame Apci.Reasm.
Import ListNotations RecordSetNotations.
Local Open Scope Z_scope.

Record ccfg := { cc_k : Z; cc_w : Z; cc_t1 : Z; cc_t2 : Z; cc_t3 : Z; cc_cot : Z; cc_ca : Z; cc_ioa : Z; cc_cav : Z }.

Definition ST_IDLE := 0. Definition ST_INACTIVE := 1. Definition ST_ACTIVE := 2.
Definition ST_WAIT_START := 3. Definition ST_WAIT_STOP := 4.
Definition NEVER := 18446744073709551615.     (* UINT64_MAX *)

Record cli := {
  running : bool; failure : bool; closef : bool; cstate : Z;
  cvs : Z; cvr : Z; cunconf : Z; clastconf : Z; ct2trig : bool;
  cumt : Z; cnt3 : Z; couttest : Z;
  ckb : list Z;            (* sentTime of every unacknowledged I-format APDU, oldest first *)
  ckmax : Z;               (* maxSentASDUs *)
  crs : rstate; cavail : list Z; cpclosed : bool; cwmode : Z;
  ccbsend : Z }.           (* scripted application: the next n received-ASDU callbacks send a read command *)
#[export] Instance eta_cli : Settable _ :=
  settable! Build_cli <running; failure; closef; cstate; cvs; cvr; cunconf; clastconf; ct2trig; cumt; cnt3; couttest; ckb; ckmax; crs; cavail; cpclosed; cwmode; ccbsend>.

Inductive cobs :=
| CTx (b : list Z) (delivered : bool)      (* writeToSocket: raw handler always, the peer only when the socket took it *)
| CIn (b : list Z)                         (* raw handler, received APDU *)
| CEv (e : Z)                              (* 0 OPENED 1 CLOSED 2 STARTDT_CON 3 STOPDT_CON 4 FAILED *)
| CCb (a : list Z)                         (* received-ASDU handler *)
| CRet (r : bool).                         (* result of a send call of the application *)

Definition cli_idle : cli :=
  {| running := false; failure := false; closef := false; cstate := ST_IDLE; cvs := 0; cvr := 0; cunconf := 0;
     clastconf := NEVER; ct2trig := false; cumt := 0; cnt3 := 0; couttest := 0; ckb := []; ckmax := 0;
     crs := rinit; cavail := []; cpclosed := false; cwmode := 0; ccbsend := 0 |}.

Definition cwr (c : cli) (b : list Z) : list cobs := [CTx b (cwmode c =? 0)].

(* resetConnection + the start of handleConnection *)
Definition cconnect (g : ccfg) (now : Z) (c : cli) (accepted : bool) : cli * list cobs :=
  let c0 := cli_idle <| ckmax := cc_k g |> <| cnt3 := now + cc_t3 g * 1000 |> <| ccbsend := ccbsend c |> in
  if accepted then (c0 <| running := true |> <| cstate := ST_INACTIVE |>, [CEv 0])
  else (c0 <| failure := true |>, [CEv 4]).

Definition confirm_outstanding (now : Z) (c : cli) : cli * list cobs :=
  (c <| clastconf := now |> <| cunconf := 0 |> <| ct2trig := false |>, cwr c (enc_s (cvr c))).

(* sendIMessage + sendIMessageAndUpdateSentASDUs *)
Definition csend_i (now : Z) (c : cli) (asdu : list Z) : cli * list cobs :=
  (c <| cvs := (cvs c + 1) mod 32768 |> <| cunconf := 0 |> <| ct2trig := false |> <| ckb := ckb c ++ [now] |>,
   cwr c (enc_i (cvs c) (cvr c) asdu)).

Definition ckfull (c : cli) : bool := Z.of_nat (length (ckb c)) >=? ckmax c.

(* sendASDUInternal *)
Definition csend_asdu (now : Z) (c : cli) (asdu : list Z) : cli * bool * list cobs :=
  if running c then
    if ckfull c then (c, false, [])
    else if cwmode c =? 0 then let '(c', o) := csend_i now c asdu in (c', true, o)
    else (c, false, cwr c (enc_i (cvs c) (cvr c) asdu))     (* the socket takes nothing: the frame is not sent, its number not used up, the call fails *)
  else (c, false, []).

(* checkSequenceNumber: accepted iff N(R) lies between the oldest unacknowledged N(S) and V(S); everything below is released *)
Definition ccheck_nr (c : cli) (nr : Z) : option cli :=
  let cnt := Z.of_nat (length (ckb c)) in
  let d := (nr - (cvs c - cnt)) mod 32768 in
  if d <=? cnt then Some (c <| ckb := skipn (Z.to_nat d) (ckb c) |>) else None.

(* the read command the scripted application sends from inside the callback: C_RD_NA_1, cause 5, object address 77 *)
Definition le_bytes (n v : Z) : list Z :=
  if n =? 1 then [v mod 256] else if n =? 2 then [v mod 256; (v / 256) mod 256] else [v mod 256; (v / 256) mod 256; (v / 65536) mod 256].
Definition read_cmd (g : ccfg) : list Z :=
  [102; 1; 5] ++ (if cc_cot g =? 2 then [0] else []) ++ le_bytes (cc_ca g) (cc_cav g) ++ le_bytes (cc_ioa g) 77.

(* checkMessage; the bool is its return value *)
Definition check_message (g : ccfg) (now : Z) (c : cli) (f : list Z) : cli * bool * list cobs :=
  let b2 := nth 2 f 0 in
  let size := Z.of_nat (length f) in
  let done (c : cli) (o : list cobs) := (c <| cnt3 := now + cc_t3 g * 1000 |>, true, o) in
  if Z.land b2 1 =? 0 then
    let c1 := if ct2trig c then c else c <| ct2trig := true |> <| clastconf := now |> in
    if size <? 7 then (c1, false, [])
    else if negb (ns_dec f =? cvr c1) then (c1, false, [])
    else match ccheck_nr c1 (nr_dec f) with
         | None => (c1, false, [])
         | Some c2 =>
           let c3 := c2 <| cvr := (cvr c2 + 1) mod 32768 |> <| cunconf := cunconf c2 + 1 |> in
           let asdu := skipn 6 f in
           if Z.of_nat (length asdu) <? 2 + cc_cot g + cc_ca g then (c3, false, [])
           else
             if 0 <? ccbsend c3 then
               let '(c4, _, o4) := csend_asdu now (c3 <| ccbsend := ccbsend c3 - 1 |>) (read_cmd g) in done c4 (CCb asdu :: o4)
             else done c3 [CCb asdu]
         end
  else if Z.land b2 3 =? 3 then
    if b2 =? 67 then done c (cwr c (enc_u 131))
    else if b2 =? 131 then done (c <| couttest := 0 |> <| cumt := 0 |>) []
    else if b2 =? 7 then done (c <| cstate := ST_ACTIVE |>) (cwr c (enc_u 11))
    else if b2 =? 11 then done (c <| cstate := ST_ACTIVE |>) []
    else if b2 =? 35 then done (c <| cstate := ST_INACTIVE |>) []
    else done c []
  else if b2 =? 1 then
    let nr := Z.quot (nth 4 f 0 + nth 5 f 0 * 256) 2 in
    match ccheck_nr c nr with
    | None => (c, false, [])
    | Some c1 => done c1 []
    end
  else done c [].

(* handleTimeouts, split like the C function *)
Definition ctmo_u (now : Z) (c : cli) : bool := negb (cumt c =? 0) && (cumt c <? now).     (* true: close *)
Definition ctmo_t3 (g : ccfg) (now : Z) (c : cli) : cli * bool * list cobs :=              (* bool: keep going *)
  if cnt3 c <? now then
    if negb (cumt c =? 0) then (c <| cnt3 := now + cc_t3 g * 1000 |>, true, [])   (* a TESTFR act is unanswered: its t1 decides *)
    else if 2 <? couttest c then (c, false, [])
    else (c <| cumt := now + cc_t1 g * 1000 |> <| couttest := couttest c + 1 |> <| cnt3 := now + cc_t3 g * 1000 |>,
          true, cwr c (enc_u 67))
  else (c, true, []).
Definition ctmo_t2 (g : ccfg) (now : Z) (c : cli) : cli * list cobs :=
  if (0 <? cunconf c) && (clastconf c <? now) && (cc_t2 g * 1000 <=? now - clastconf c) then confirm_outstanding now c
  else (c, []).
Definition ctmo_t1 (g : ccfg) (now : Z) (c : cli) : bool :=                                (* true: close *)
  match ckb c with
  | [] => false
  | t :: _ => (t <? now) && (cc_t1 g * 1000 <=? now - t)
  end.
Definition chandle_timeouts (g : ccfg) (now : Z) (c : cli) : cli * bool * list cobs :=
  if ctmo_u now c then (c, false, [])
  else
    let '(c1, ok, o1) := ctmo_t3 g now c in
    if negb ok then (c1, false, o1)
    else
      let '(c2, o2) := ctmo_t2 g now c1 in
      (c2, negb (ctmo_t1 g now c2), o1 ++ o2).

(* leaving the loop: acknowledge what is still unacknowledged, release the socket, report CLOSED *)
Definition cexit (now : Z) (c : cli) : cli * list cobs :=
  let '(c1, o1) := if 0 <? cunconf c then confirm_outstanding now c else (c, []) in
  (c1 <| cstate := ST_IDLE |> <| running := false |>, o1 ++ [CEv 1]).

(* one iteration of the connection loop, in its three parts *)
Definition cprocess (g : ccfg) (now : Z) (c0 : cli) (r : rres) : cli * bool * list cobs :=
  match r with
  | RErr => (c0 <| failure := true |>, false, [])
  | RNone => (c0, true, [])
  | RFrame f =>
    let old := cstate c0 in
    let '(c2, ok, o2) := check_message g now c0 f in
    let c3 := if ok then c2 else c2 <| failure := true |> in
    let ev := if cstate c3 =? old then [] else if cstate c3 =? ST_ACTIVE then [CEv 2] else if cstate c3 =? ST_INACTIVE then [CEv 3] else [] in
    (c3, ok, CIn f :: o2 ++ ev)
  end.
(* acknowledgement after w received I-format APDUs (and whenever something arrives while STOPDT con is awaited) *)
Definition cwack (g : ccfg) (now : Z) (cm : cli) : cli * list cobs :=
  if (cc_w g <=? cunconf cm) || (cstate cm =? ST_WAIT_STOP) then confirm_outstanding now cm else (cm, []).
Definition cfinish (g : ccfg) (now : Z) (c1 : cli) (go1 : bool) (o1 : list cobs) : cli * list cobs :=
  let '(c4, ok_t, o4) := chandle_timeouts g now c1 in
  if go1 && ok_t && negb (closef c4) then (c4, o1 ++ o4)
  else let '(c5, o5) := cexit now c4 in (c5, o1 ++ o4 ++ o5).

Definition cstep (g : ccfg) (now : Z) (c : cli) : cli * list cobs :=
  if negb (running c) then (c, [])
  else
    let ready := negb (match cavail c with [] => true | _ => false end) || cpclosed c in
    if ready then
      let '(rs', rest, r) := recv_call (crs c) (cavail c) (cpclosed c) in
      let '(cm, gm, om) := cprocess g now (c <| crs := rs' |> <| cavail := rest |>) r in
      let '(c1, oc) := cwack g now cm in
      cfinish g now c1 gm (om ++ oc)
    else cfinish g now c true [].

(* application calls *)
Definition cstartdt (c : cli) : cli * list cobs :=
  if running c then (c <| cstate := ST_WAIT_START |>, cwr c (enc_u 7)) else (c, []).
Definition cstopdt (now : Z) (c : cli) : cli * list cobs :=
  if running c then let '(c1, o1) := confirm_outstanding now c in (c1 <| cstate := ST_WAIT_STOP |>, o1 ++ cwr c (enc_u 19)) else (c, []).
Definition capp_send (now : Z) (c : cli) (asdu : list Z) : cli * list cobs :=
  let '(c', r, o) := csend_asdu now c asdu in (c', o ++ [CRet r]).
(* CS104_Connection_close while the thread is parked: the loop finishes its iteration and sees the flag *)
Definition cclose (g : ccfg) (now : Z) (c : cli) : cli * list cobs :=
  cstep g now (c <| closef := true |>).
