(* C18: connection lifecycle of the CS104 server in threadless mode, transcribed from cs104_slave.c:
     getFreeConnection, CS104_Slave_setMaxOpenConnections, handleConnectionsThreadless (accept path),
     handleClientConnections (reap loop, message loop), MasterConnection_handleTcpConnection,
     handleMessage (U-frame branches), CS104_Slave_activate, MasterConnection_activate / _deactivate / _close /
     _deinit, CS104_Slave_closeAllConnections, CS104_Slave_startThreadless / stopThreadless / destroy.
   What is abstract: the octets on the wire (a connection's input is a queue of already classified messages),
   timers and event / response queues (the correspondence scripts of this model advance no clock, send no
   I-frames and enqueue nothing, so MasterConnection_executePeriodicTasks has no effect and
   MasterConnection_hasUnconfirmedMessages is false).  Connection identities are the harness' socket labels;
   the model hands them out itself (v_next), one per incoming TCP connection.
   The listen backlog is the simulated HAL's (harness/simhal): it outlives the listening socket.
   No proofs in this file. *)
From Coq Require Import ZArith List Bool Lia.
Import ListNotations.
Local Open Scope Z_scope.

(* CS104_PeerConnectionEvent: 0 OPENED, 1 CLOSED, 2 ACTIVATED, 3 DEACTIVATED.
   MasterConnectionState:     0 M_CON_STATE_STOPPED, 1 M_CON_STATE_STARTED, 2 M_CON_STATE_UNCONFIRMED_STOPPED *)

Inductive lmode := LSingle | LConn | LMulti.
(* one complete input of a connection, as handleMessage / receiveMessage classify it *)
Inductive lmsg :=
| MStart     (* STARTDT act *)
| MStop      (* STOPDT act *)
| MTest      (* TESTFR act: answered with TESTFR con *)
| MIgnore    (* TESTFR con, or a U-frame the server ignores: no answer *)
| MBad.      (* anything that makes receiveMessage return -1 or handleMessage return false in every state *)

Record cslot := mkSlot { c_used : bool; c_run : bool; c_st : Z; c_sid : Z; c_grp : Z }.
Definition empty_slot : cslot := mkSlot false false 0 (-1) (-1).      (* MasterConnection_create *)

Record lsrv := mkSrv {
  v_slots : list cslot;              (* masterConnections[] *)
  v_open : Z;                        (* openConnections *)
  v_running : bool;                  (* isRunning / serverSocket != NULL *)
  v_exists : bool;                   (* a CS104_Slave object exists (between create and destroy) *)
  v_backlog : list (Z * option Z);   (* pending TCP connections: (id, redundancy group its address selects, None = no group) *)
  v_maxopen : Z;                     (* maxOpenConnections *)
  v_mode : lmode;                    (* serverMode *)
  v_reqret : bool;                   (* what the application's connection request handler answers *)
  v_next : Z;                        (* next connection id *)
  v_log : list (Z * Z);              (* connection events reported so far: (id, event) *)
  v_reqs : list Z;                   (* ids for which the connection request handler was called *)
  v_dead : list Z;                   (* ids whose socket the library destroyed *)
  v_inq : list (Z * lmsg);           (* readable input, oldest first *)
  v_pclosed : list Z;                (* ids whose peer closed: read returns -1 once the input is drained *)
  v_wfail : list Z;                  (* ids on which Socket_write fails *)
  v_crashed : bool;                  (* the library dereferenced a NULL connection (see accept_step) *)
  v_fixnull : bool }.                (* variant: proposed fix C18-null-free-connection applied *)

(* ---- field updates *)
Definition with_slots (s : lsrv) (x : list cslot) : lsrv :=
  mkSrv x (v_open s) (v_running s) (v_exists s) (v_backlog s) (v_maxopen s) (v_mode s) (v_reqret s) (v_next s) (v_log s)
        (v_reqs s) (v_dead s) (v_inq s) (v_pclosed s) (v_wfail s) (v_crashed s) (v_fixnull s).
Definition with_open (s : lsrv) (x : Z) : lsrv :=
  mkSrv (v_slots s) x (v_running s) (v_exists s) (v_backlog s) (v_maxopen s) (v_mode s) (v_reqret s) (v_next s) (v_log s)
        (v_reqs s) (v_dead s) (v_inq s) (v_pclosed s) (v_wfail s) (v_crashed s) (v_fixnull s).
Definition with_running (s : lsrv) (x : bool) : lsrv :=
  mkSrv (v_slots s) (v_open s) x (v_exists s) (v_backlog s) (v_maxopen s) (v_mode s) (v_reqret s) (v_next s) (v_log s)
        (v_reqs s) (v_dead s) (v_inq s) (v_pclosed s) (v_wfail s) (v_crashed s) (v_fixnull s).
Definition with_exists (s : lsrv) (x : bool) : lsrv :=
  mkSrv (v_slots s) (v_open s) (v_running s) x (v_backlog s) (v_maxopen s) (v_mode s) (v_reqret s) (v_next s) (v_log s)
        (v_reqs s) (v_dead s) (v_inq s) (v_pclosed s) (v_wfail s) (v_crashed s) (v_fixnull s).
Definition with_backlog (s : lsrv) (x : list (Z * option Z)) : lsrv :=
  mkSrv (v_slots s) (v_open s) (v_running s) (v_exists s) x (v_maxopen s) (v_mode s) (v_reqret s) (v_next s) (v_log s)
        (v_reqs s) (v_dead s) (v_inq s) (v_pclosed s) (v_wfail s) (v_crashed s) (v_fixnull s).
Definition with_config (s : lsrv) (mx : Z) (m : lmode) : lsrv :=
  mkSrv (v_slots s) (v_open s) (v_running s) (v_exists s) (v_backlog s) mx m (v_reqret s) (v_next s) (v_log s)
        (v_reqs s) (v_dead s) (v_inq s) (v_pclosed s) (v_wfail s) (v_crashed s) (v_fixnull s).
Definition with_reqret (s : lsrv) (x : bool) : lsrv :=
  mkSrv (v_slots s) (v_open s) (v_running s) (v_exists s) (v_backlog s) (v_maxopen s) (v_mode s) x (v_next s) (v_log s)
        (v_reqs s) (v_dead s) (v_inq s) (v_pclosed s) (v_wfail s) (v_crashed s) (v_fixnull s).
Definition with_next (s : lsrv) (x : Z) : lsrv :=
  mkSrv (v_slots s) (v_open s) (v_running s) (v_exists s) (v_backlog s) (v_maxopen s) (v_mode s) (v_reqret s) x (v_log s)
        (v_reqs s) (v_dead s) (v_inq s) (v_pclosed s) (v_wfail s) (v_crashed s) (v_fixnull s).
Definition with_log (s : lsrv) (x : list (Z * Z)) : lsrv :=
  mkSrv (v_slots s) (v_open s) (v_running s) (v_exists s) (v_backlog s) (v_maxopen s) (v_mode s) (v_reqret s) (v_next s) x
        (v_reqs s) (v_dead s) (v_inq s) (v_pclosed s) (v_wfail s) (v_crashed s) (v_fixnull s).
Definition with_reqs (s : lsrv) (x : list Z) : lsrv :=
  mkSrv (v_slots s) (v_open s) (v_running s) (v_exists s) (v_backlog s) (v_maxopen s) (v_mode s) (v_reqret s) (v_next s) (v_log s)
        x (v_dead s) (v_inq s) (v_pclosed s) (v_wfail s) (v_crashed s) (v_fixnull s).
Definition with_dead (s : lsrv) (x : list Z) : lsrv :=
  mkSrv (v_slots s) (v_open s) (v_running s) (v_exists s) (v_backlog s) (v_maxopen s) (v_mode s) (v_reqret s) (v_next s) (v_log s)
        (v_reqs s) x (v_inq s) (v_pclosed s) (v_wfail s) (v_crashed s) (v_fixnull s).
Definition with_inq (s : lsrv) (x : list (Z * lmsg)) : lsrv :=
  mkSrv (v_slots s) (v_open s) (v_running s) (v_exists s) (v_backlog s) (v_maxopen s) (v_mode s) (v_reqret s) (v_next s) (v_log s)
        (v_reqs s) (v_dead s) x (v_pclosed s) (v_wfail s) (v_crashed s) (v_fixnull s).
Definition with_pclosed (s : lsrv) (x : list Z) : lsrv :=
  mkSrv (v_slots s) (v_open s) (v_running s) (v_exists s) (v_backlog s) (v_maxopen s) (v_mode s) (v_reqret s) (v_next s) (v_log s)
        (v_reqs s) (v_dead s) (v_inq s) x (v_wfail s) (v_crashed s) (v_fixnull s).
Definition with_wfail (s : lsrv) (x : list Z) : lsrv :=
  mkSrv (v_slots s) (v_open s) (v_running s) (v_exists s) (v_backlog s) (v_maxopen s) (v_mode s) (v_reqret s) (v_next s) (v_log s)
        (v_reqs s) (v_dead s) (v_inq s) (v_pclosed s) x (v_crashed s) (v_fixnull s).
Definition with_crashed (s : lsrv) (x : bool) : lsrv :=
  mkSrv (v_slots s) (v_open s) (v_running s) (v_exists s) (v_backlog s) (v_maxopen s) (v_mode s) (v_reqret s) (v_next s) (v_log s)
        (v_reqs s) (v_dead s) (v_inq s) (v_pclosed s) (v_wfail s) x (v_fixnull s).

Definition mem (x : Z) (l : list Z) : bool := existsb (Z.eqb x) l.

(* ---- slot table helpers *)
Fixpoint upd (i : nat) (f : cslot -> cslot) (l : list cslot) : list cslot :=
  match l, i with
  | [], _ => []
  | x :: r, O => f x :: r
  | x :: r, S j => x :: upd j f r
  end.
Definition upd_slot (i : nat) (f : cslot -> cslot) (s : lsrv) : lsrv := with_slots s (upd i f (v_slots s)).

Definition set_used (b : bool) (x : cslot) : cslot := mkSlot b (c_run x) (c_st x) (c_sid x) (c_grp x).
Definition set_run (b : bool) (x : cslot) : cslot := mkSlot (c_used x) b (c_st x) (c_sid x) (c_grp x).
Definition set_st (v : Z) (x : cslot) : cslot := mkSlot (c_used x) (c_run x) v (c_sid x) (c_grp x).

Definition log_ev (id e : Z) (s : lsrv) : lsrv := with_log s (v_log s ++ [(id, e)]).
Definition kill (id : Z) (s : lsrv) : lsrv := with_dead s (id :: v_dead s).        (* Socket_destroy *)

Fixpoint count_used (l : list cslot) : Z :=
  match l with [] => 0 | x :: r => (if c_used x then 1 else 0) + count_used r end.

(* getFreeConnection: the first slot that is not in use *)
Fixpoint find_free (l : list cslot) : option nat :=
  match l with
  | [] => None
  | x :: r => if c_used x then match find_free r with Some i => Some (S i) | None => None end else Some O
  end.

(* CS104_Slave_setMaxOpenConnections *)
Definition clamp_max (n : nat) (m : Z) : Z :=
  if (0 <? Z.of_nat n) && (Z.of_nat n <? m) then Z.of_nat n else m.

(* ---- MasterConnection_deactivate / MasterConnection_activate on slot j *)
Definition deactivate (j : nat) (s : lsrv) : lsrv :=
  match nth_error (v_slots s) j with
  | None => s
  | Some x =>
    let notify := c_used x && (c_st x =? 1) in
    let s1 := if c_st x =? 1 then upd_slot j (set_st 2) s else s in       (* only a started connection changes state (fix 4f33a48) *)
    if notify then log_ev (c_sid x) 3 s1 else s1
  end.
Definition activate_self (i : nat) (s : lsrv) : lsrv :=
  match nth_error (v_slots s) i with
  | None => s
  | Some x =>
    let notify := negb (c_st x =? 1) in
    let s1 := upd_slot i (set_st 1) s in
    if notify then log_ev (c_sid x) 2 s1 else s1
  end.

(* CS104_Slave_activate: the loop over masterConnections[] that deactivates the other used connections
   (of the same redundancy group in MULTIPLE_REDUNDANCY_GROUPS mode), then the connection itself *)
Definition deact_other (i : nat) (g : option Z) (s : lsrv) (j : nat) : lsrv :=
  match nth_error (v_slots s) j with
  | None => s
  | Some x =>
    if c_used x && negb (Nat.eqb j i) && match g with None => true | Some gi => c_grp x =? gi end
    then deactivate j s else s
  end.
Definition activate (i : nat) (s : lsrv) : lsrv :=
  match nth_error (v_slots s) i with
  | None => s
  | Some me =>
    let idx := seq 0 (length (v_slots s)) in
    let s1 := match v_mode s with
              | LSingle => fold_left (deact_other i None) idx s
              | LMulti => fold_left (deact_other i (Some (c_grp me))) idx s
              | LConn => s
              end in
    activate_self i s1
  end.

(* ---- input of one connection: Socket_read on the simulated socket *)
Inductive linput := InNone | InClosed | InMsg (m : lmsg) (rest : list (Z * lmsg)).
Fixpoint take_msg (id : Z) (q : list (Z * lmsg)) : option (lmsg * list (Z * lmsg)) :=
  match q with
  | [] => None
  | (i, m) :: r => if i =? id then Some (m, r)
                   else match take_msg id r with Some (m', r') => Some (m', (i, m) :: r') | None => None end
  end.
Definition next_input (id : Z) (s : lsrv) : linput :=
  match take_msg id (v_inq s) with
  | Some (m, r) => InMsg m r
  | None => if mem id (v_pclosed s) then InClosed else InNone
  end.

(* handleMessage: U-frame branches; the result is written with writeToSocket, a failing write ends the connection *)
Definition after_write (i : nat) (id : Z) (s : lsrv) : lsrv :=
  if mem id (v_wfail s) then upd_slot i (set_run false) s else s.
Definition handle_msg (i : nat) (id : Z) (m : lmsg) (s : lsrv) : lsrv :=
  match m with
  | MStart => (* STARTDT con is written first; a failing write ends the connection without activating it (fix: ACTIVATED after the con) *)
              if mem id (v_wfail s) then upd_slot i (set_run false) s else activate i s
  | MStop => after_write i id (upd_slot i (set_st 0) (deactivate i s))
  | MTest => after_write i id s
  | MIgnore => s
  | MBad => upd_slot i (set_run false) s
  end.

(* MasterConnection_handleTcpConnection for slot i *)
Definition handle_slot (s : lsrv) (i : nat) : lsrv :=
  match nth_error (v_slots s) i with
  | None => s
  | Some x =>
    if c_used x then
      match next_input (c_sid x) s with
      | InNone => s
      | InClosed => upd_slot i (set_run false) s
      | InMsg m rest => let s1 := with_inq s rest in if c_run x then handle_msg i (c_sid x) m s1 else s1
      end
    else s
  end.

(* reap loop body of handleClientConnections for slot i: CLOSED event, isUsed = false, openConnections--,
   MasterConnection_deinit (socket destroyed, state = STOPPED) *)
Definition reap_slot (s : lsrv) (i : nat) : lsrv :=
  match nth_error (v_slots s) i with
  | None => s
  | Some x =>
    if c_used x && negb (c_run x) then
      let s1 := log_ev (c_sid x) 1 s in
      let s2 := upd_slot i (fun y => set_st 0 (set_used false y)) s1 in
      kill (c_sid x) (with_open s2 (v_open s2 - 1))
    else s
  end.

(* Handleset_waitReady over the running connections' sockets *)
Definition slot_ready (s : lsrv) (x : cslot) : bool :=
  c_used x && c_run x && (match take_msg (c_sid x) (v_inq s) with Some _ => true | None => false end || mem (c_sid x) (v_pclosed s)).

Definition handle_clients (s : lsrv) : lsrv :=
  if 0 <? v_open s then
    let idx := seq 0 (length (v_slots s)) in
    let s1 := fold_left reap_slot idx s in
    if existsb (slot_ready s1) (v_slots s1) then fold_left handle_slot idx s1 else s1
  else s.

(* accept path of handleConnectionsThreadless *)
Definition take_slot (i : nat) (id g : Z) (s : lsrv) : lsrv :=
  let s1 := upd_slot i (fun y => mkSlot true true (c_st y) id g) s in
  log_ev id 0 (with_open s1 (v_open s1 + 1)).
Definition accept_in (id g : Z) (s : lsrv) : lsrv :=
  match find_free (v_slots s) with
  | Some i => take_slot i id g s
  | None => kill id s
  end.
Definition accept_step (s : lsrv) : lsrv :=
  if (v_maxopen s <? 1) || (v_open s <? v_maxopen s) then
    if v_running s then
      match v_backlog s with
      | [] => s
      | (id, g) :: rest =>
        let s1 := with_reqs (with_backlog s rest) (v_reqs s ++ [id]) in     (* callConnectionRequestHandler *)
        if v_reqret s then
          match v_mode s with
          | LMulti => match g with
                      | Some gi => accept_in id gi s1
                      | None => kill id s1
                      end
          | LSingle => accept_in id 0 s1
          | LConn =>
            (* `lowPrioQueue = connection->lowPrioQueue` is executed before `if (connection)` *)
            match find_free (v_slots s1) with
            | Some i => take_slot i id 0 s1
            | None => if v_fixnull s1 then kill id s1 else with_crashed (with_reqs s (v_reqs s ++ [id])) true
            end
          end
        else kill id s1
      end
    else s
  else s.

Definition tick (s : lsrv) : lsrv :=
  if v_exists s && negb (v_crashed s) then handle_clients (accept_step s) else s.

(* CS104_Slave_closeAllConnections *)
Definition close_slot (x : cslot) : cslot := if c_used x then set_st 0 (set_used false x) else x.
Definition used_sids (l : list cslot) : list Z := map c_sid (filter c_used l).
Definition close_all (s : lsrv) : lsrv :=
  with_open (with_dead (with_slots s (map close_slot (v_slots s))) (used_sids (v_slots s) ++ v_dead s)) 0.

Definition stop (s : lsrv) : lsrv :=
  if v_exists s && negb (v_crashed s) then close_all (with_running s false) else s.

(* ---- operations of the environment / application *)
Inductive lop :=
| OCreate (mode : lmode) (maxset : option Z)     (* CS104_Slave_create + setServerMode [+ setMaxOpenConnections] *)
| OStart | OStop | ODestroy
| OConnect (g : option Z)                        (* a peer connects; its address selects group g *)
| OFeed (id : Z) (m : lmsg) | OPeerClose (id : Z) | OWriteFail (id : Z) (b : bool)
| OReqRet (b : bool)
| OAppClose (id : Z)                             (* IMasterConnection_close on the connection with this id *)
| OTick.

Fixpoint find_sid (id : Z) (l : list cslot) (i : nat) : option nat :=
  match l with
  | [] => None
  | x :: r => if c_used x && (c_sid x =? id) then Some i else find_sid id r (S i)
  end.

Definition remove_z (x : Z) (l : list Z) : list Z := filter (fun y => negb (y =? x)) l.

Definition step (s : lsrv) (o : lop) : lsrv :=
  match o with
  | OCreate m mx =>
    if v_exists s || v_crashed s then s else
    let n := length (v_slots s) in
    let s1 := with_slots (with_open (with_running (with_exists s true) false) 0) (repeat empty_slot n) in
    with_config s1 (match mx with Some v => clamp_max n v | None => Z.of_nat n end) m
  | OStart => if v_exists s && negb (v_crashed s) then with_running s true else s
  | OStop => stop s
  | ODestroy => if v_crashed s then s else with_exists (stop s) false
  | OConnect g => with_next (with_backlog s (v_backlog s ++ [(v_next s, g)])) (v_next s + 1)
  | OFeed id m => with_inq s (v_inq s ++ [(id, m)])
  | OPeerClose id => with_pclosed s (id :: v_pclosed s)
  | OWriteFail id b => with_wfail s (if b then id :: v_wfail s else remove_z id (v_wfail s))
  | OReqRet b => with_reqret s b
  | OAppClose id =>
    if v_exists s && negb (v_crashed s) then
      match find_sid id (v_slots s) O with
      | Some i => upd_slot i (fun y => set_st 0 (set_run false y)) s      (* MasterConnection_close *)
      | None => s
      end
    else s
  | OTick => tick s
  end.

Definition run_ops (s : lsrv) (ops : list lop) : lsrv := fold_left step ops s.

(* no server object yet; n = CONFIG_CS104_MAX_CLIENT_CONNECTIONS *)
Definition init (n : nat) (fixnull : bool) : lsrv :=
  mkSrv (repeat empty_slot n) 0 false false [] (Z.of_nat n) LSingle true 0 [] [] [] [] [] [] false fixnull.

(* ---- the per-connection event grammar *)
Inductive phase := PNone | PStopped | PStarted | PClosed | PErr.
Definition ev_step (p : phase) (e : Z) : phase :=
  match p with
  | PNone => if e =? 0 then PStopped else PErr
  | PStopped => if e =? 2 then PStarted else if e =? 1 then PClosed else PErr
  | PStarted => if e =? 3 then PStopped else if e =? 1 then PClosed else PErr
  | PClosed => PErr
  | PErr => PErr
  end.
Definition events_of (id : Z) (l : list (Z * Z)) : list Z := map snd (filter (fun p => fst p =? id) l).
Definition phase_of (l : list (Z * Z)) (id : Z) : phase := fold_left ev_step (events_of id l) PNone.
