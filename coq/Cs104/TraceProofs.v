(* C07, history level: along EVERY sequence of stimuli (connections, ticks, received octets in any segmentation, enqueued
   events, peer closes, write failures) of the server model Cs104/Server.v, an I-format APDU is written only while data
   transfer is started -- between the step that handled STARTDT act (reported ACTIVATED) and the step that handled STOPDT
   act / ended the connection.  The monitor `mon` reads the observation stream only. *)
From Coq Require Import ZArith List Bool Lia.
From RecordUpdate Require Import RecordSet.
From L60870 Require Import Apci.Reasm Apci.Frame Cs104.Server.
Import ListNotations RecordSetNotations.
Local Open Scope Z_scope.

Definition is_i (b : list Z) : bool := Z.land (nth 2 b 0) 1 =? 0.

(* started flag maintained from the observations: ACTIVATED sets it; DEACTIVATED, the STOPDT marker, OPENED and CLOSED clear
   it; an I-format APDU written while it is clear is an error *)
Fixpoint mon (f : bool) (o : list obs) : option bool :=
  match o with
  | [] => Some f
  | OTx _ b :: r => if is_i b then (if f then mon f r else None) else mon f r
  | OEv _ e :: r => mon (e =? EV_ACT) r
  | ORxStop _ :: r => mon false r
  | _ :: r => mon f r
  end.

Lemma mon_app : forall a b f, mon f (a ++ b) = match mon f a with Some f' => mon f' b | None => None end.
Proof.
  induction a as [|x a IH]; intros b f; [reflexivity|]. destruct x; cbn [app mon]; try apply IH.
  destruct (is_i bytes); [destruct f; [apply IH | reflexivity] | apply IH].
Qed.

(* observations that neither write an I-format APDU nor move the flag *)
Definition plain (x : obs) : Prop :=
  match x with OTx _ b => is_i b = false | OEv _ _ => False | ORxStop _ => False | _ => True end.
(* ... or write an I-format APDU *)
Definition iok (x : obs) : Prop := match x with OTx _ _ => True | OEv _ _ => False | ORxStop _ => False | _ => True end.

Lemma mon_plain : forall o f, Forall plain o -> mon f o = Some f.
Proof.
  induction o as [|x o IH]; intros f H; [reflexivity|]. inversion H as [|? ? Hx Ho]; subst.
  destruct x; cbn [mon plain] in *; try (apply IH; exact Ho); try contradiction. rewrite Hx. apply IH; exact Ho.
Qed.
Lemma mon_iok : forall o, Forall iok o -> mon true o = Some true.
Proof.
  induction o as [|x o IH]; intros H; [reflexivity|]. inversion H as [|? ? Hx Ho]; subst.
  destruct x; cbn [mon iok] in *; try (apply IH; exact Ho); try contradiction. destruct (is_i bytes); apply IH; exact Ho.
Qed.
Lemma plain_iok x : plain x -> iok x. Proof. destruct x; cbn; auto. Qed.
Lemma Forall_plain_iok o : Forall plain o -> Forall iok o.
Proof. intros H. eapply Forall_impl; [|exact H]. apply plain_iok. Qed.

(* a function of the sending side: keeps st, and writes I-format APDUs only when st = STARTED *)
Definition sendok (c : conn) (o : list obs) (c' : conn) : Prop :=
  st c' = st c /\ (st c = STARTED -> Forall iok o) /\ (st c <> STARTED -> Forall plain o).

Lemma sendok_mon c o c' : sendok c o c' -> mon (st c =? STARTED) o = Some (st c' =? STARTED).
Proof.
  intros (E & H1 & H2). rewrite E. destruct (Z.eq_dec (st c) STARTED) as [Hs | Hs].
  - rewrite Hs. change (STARTED =? STARTED) with true. apply mon_iok. apply H1. exact Hs.
  - assert (F : st c =? STARTED = false) by (apply Z.eqb_neq; exact Hs). rewrite F. apply mon_plain. apply H2. exact Hs.
Qed.
Lemma sendok_refl c : sendok c [] c. Proof. repeat split; constructor. Qed.
Lemma sendok_trans c o1 c1 o2 c2 : sendok c o1 c1 -> sendok c1 o2 c2 -> sendok c (o1 ++ o2) c2.
Proof.
  intros (E1 & A1 & B1) (E2 & A2 & B2). split; [congruence|]. split; intros H; apply Forall_app; split; auto.
  - apply A2. congruence.
  - apply B2. congruence.
Qed.
Lemma sendok_plain c o c' : st c' = st c -> Forall plain o -> sendok c o c'.
Proof. intros E H. split; [exact E|]. split; intros _; [apply Forall_plain_iok|]; exact H. Qed.
Lemma sendok_cons_plain c x o c' : plain x -> sendok c o c' -> sendok c (x :: o) c'.
Proof. intros Hx (E & A & B). split; [exact E|]. split; intros H; constructor; auto. apply plain_iok; exact Hx. Qed.
Lemma sendok_snoc_plain c x o c' : plain x -> sendok c o c' -> sendok c (o ++ [x]) c'.
Proof. intros Hx H. eapply sendok_trans; [exact H|]. apply sendok_plain; [reflexivity | constructor; [exact Hx | constructor]]. Qed.

(* ------------------------------------------------------------------ frames *)
Lemma is_i_enc_s nr : is_i (enc_s nr) = false. Proof. reflexivity. Qed.
Lemma is_i_u11 : is_i u_startdt_con = false. Proof. reflexivity. Qed.
Lemma is_i_u35 : is_i u_stopdt_con = false. Proof. reflexivity. Qed.
Lemma is_i_u131 : is_i u_testfr_con = false. Proof. reflexivity. Qed.
Lemma is_i_u67 : is_i u_testfr_act = false. Proof. reflexivity. Qed.

Lemma wr_obs c b : snd (wr c b) = [] \/ snd (wr c b) = [OTx (cid c) b].
Proof. unfold wr. destruct (wmode c =? 1); [left; reflexivity|]. destruct (wmode c =? 2); [left | right]; reflexivity. Qed.
Lemma wr_plain c b : is_i b = false -> Forall plain (snd (wr c b)).
Proof. intros H. destruct (wr_obs c b) as [E | E]; rewrite E; [constructor | constructor; [exact H | constructor]]. Qed.

Lemma send_s_raw_ok c : sendok c (snd (send_s_raw c)) (fst (send_s_raw c)).
Proof.
  unfold send_s_raw. pose proof (wr_plain c (enc_s (vr c)) (is_i_enc_s _)) as P. destruct (wr c (enc_s (vr c))) as [r o]. cbn [fst snd] in *.
  apply sendok_plain; [destruct (r <? 0); reflexivity | exact P].
Qed.

Lemma send_i_ok now c a e : st c = STARTED -> sendok c (snd (send_i now c a e)) (fst (send_i now c a e)).
Proof.
  intros Hs. unfold send_i. destruct (wr_obs c (enc_i (vs c) (vr c) a)) as [E | E]; destruct (wr c (enc_i (vs c) (vr c) a)) as [r o]; cbn [snd] in E; subst o;
    cbn [fst snd]; (split; [destruct (0 <? r); reflexivity|]); split; intros H; try contradiction; repeat constructor.
Qed.

Lemma send_asdu_internal_ok g now c a :
  let '(c', r, o) := send_asdu_internal g now c a in sendok c o c'.
Proof.
  unfold send_asdu_internal. destruct (st c =? STARTED) eqn:E; [|apply sendok_refl].
  apply Z.eqb_eq in E. destruct (_ && _).
  - pose proof (send_i_ok now c a None E) as S. destruct (send_i now c a None) as [c' o]. exact S.
  - apply sendok_plain; [reflexivity | constructor].
Qed.

Lemma burst_ok : forall n g now c req id, let '(c', id', o) := burst n g now c req id in sendok c o c'.
Proof.
  induction n as [|n IH]; intros g now c req id; cbn [burst]; [apply sendok_refl|].
  pose proof (send_asdu_internal_ok g now c (reply_asdu g req id)) as S1. destruct (send_asdu_internal g now c (reply_asdu g req id)) as [[c1 r] o1].
  specialize (IH g now c1 req (id + 1)). destruct (burst n g now c1 req (id + 1)) as [[c2 id2] o2].
  eapply sendok_trans; [exact S1|]. apply sendok_cons_plain; [exact I|].
  destruct IH as (E & A & B). destruct S1 as (E1 & _ & _). split; [exact E|]. split; intros H; [apply A | apply B]; congruence.
Qed.

Lemma app_interrogation_ok g now s c asdu qoi :
  let '(s', c', o) := app_interrogation g now s c asdu qoi in sendok c o c'.
Proof.
  unfold app_interrogation. destruct (c_hret g); [|apply sendok_plain; [reflexivity | constructor; [exact I | constructor]]].
  pose proof (send_asdu_internal_ok g now c (set_cot asdu 7 false)) as S1. destruct (send_asdu_internal g now c (set_cot asdu 7 false)) as [[c1 r1] o1].
  pose proof (burst_ok (Z.to_nat (c_burst g)) g now c1 asdu (replyctr s)) as S2. destruct (burst (Z.to_nat (c_burst g)) g now c1 asdu (replyctr s)) as [[c2 id2] o2].
  destruct (c_term g).
  - pose proof (send_asdu_internal_ok g now c2 (set_cot asdu 10 false)) as S3. destruct (send_asdu_internal g now c2 (set_cot asdu 10 false)) as [[c3 r3] o3].
    apply sendok_cons_plain; [exact I|].
    eapply sendok_trans; [exact S1|]. apply sendok_cons_plain; [exact I|].
    eapply sendok_trans; [exact S2|]. apply sendok_snoc_plain; [exact I | exact S3].
  - apply sendok_cons_plain; [exact I|]. eapply sendok_trans; [exact S1|]. apply sendok_cons_plain; [exact I | exact S2].
Qed.

Lemma handle_asdu_ok g now s c asdu :
  let '(s', c', ok, o) := handle_asdu g now s c asdu in sendok c o c'.
Proof.
  unfold handle_asdu.
  assert (U : forall a cot neg, let '(c', _, o) := send_asdu_internal g now c (set_cot a cot neg) in sendok c o c').
  { intros a cot neg. apply send_asdu_internal_ok. }
  destruct (nth 0 asdu 0 =? 100); [|apply sendok_plain; [reflexivity | constructor; [exact I | constructor]]].
  destruct ((Z.land (nth 2 asdu 0) 63 =? 6) || (Z.land (nth 2 asdu 0) 63 =? 8)).
  - destruct (c_interrog g); [|apply sendok_plain; [reflexivity | constructor; [exact I | constructor]]].
    destruct (Z.of_nat (length asdu) - HDR <? 4); [apply sendok_refl|].
    destruct (negb (_ =? 0)).
    + specialize (U asdu 47 true). destruct (send_asdu_internal g now c (set_cot asdu 47 true)) as [[c' r] o]. exact U.
    + pose proof (app_interrogation_ok g now s c asdu (nth 9 asdu 0)) as A. destruct (app_interrogation g now s c asdu (nth 9 asdu 0)) as [[s' c'] o].
      destruct (c_hret g); [exact A | apply sendok_snoc_plain; [exact I | exact A]].
  - specialize (U asdu 45 true). destruct (send_asdu_internal g now c (set_cot asdu 45 true)) as [[c' r] o]. exact U.
Qed.

(* ------------------------------------------------------------------ handleMessage *)
Lemma check_nr_st c q nr c' q' : check_nr c q nr = Some (c', q') -> st c' = st c.
Proof.
  unfold check_nr. destruct (_ <=? _); [|discriminate]. destruct (release _ _ _) as [kb q2]. intros E. inversion E; subst. reflexivity.
Qed.

Definition monok (c : conn) (o : list obs) (c' : conn) : Prop := mon (st c =? STARTED) o = Some (st c' =? STARTED).

Lemma monok_same c o c' : st c' = st c -> Forall plain o -> monok c o c'.
Proof. intros E H. unfold monok. rewrite E. apply mon_plain. exact H. Qed.

Lemma handle_message_mon g now s c f :
  let '(s', c', ok, o) := handle_message g now s c f in monok c o c'.
Proof.
  unfold handle_message.
  destruct (Z.land (nth 2 f 0) 1 =? 0).
  { (* I format *)
    destruct (Z.of_nat (length f) <? 7); [apply monok_same; [reflexivity | constructor]|].
    destruct (negb (st c =? STARTED)); [apply monok_same; [reflexivity | constructor]|].
    set (c1 := if t2trig c then c else _). assert (E1 : st c1 = st c) by (unfold c1; destruct (t2trig c); reflexivity).
    destruct (negb (ns_dec f =? vr c1)); [apply monok_same; [exact E1 | constructor]|].
    destruct (check_nr c1 (mq s) (nr_dec f)) as [[c2 q2]|] eqn:EN; [|apply monok_same; [exact E1 | constructor]].
    pose proof (check_nr_st _ _ _ _ _ EN) as E2.
    set (c3 := c2 <| vr := (vr c2 + 1) mod 32768 |> <| unconf := unconf c2 + 1 |>). assert (E3 : st c3 = st c) by (unfold c3; cbn; congruence).
    destruct (Z.of_nat (length (skipn 6 f)) <? HDR); [apply monok_same; [exact E3 | constructor]|].
    pose proof (handle_asdu_ok g now (s <| mq := q2 |>) c3 (skipn 6 f)) as HA. destruct (handle_asdu g now (s <| mq := q2 |>) c3 (skipn 6 f)) as [[[s4 c4] ok] o].
    pose proof (sendok_mon _ _ _ HA) as M. unfold monok. rewrite <- E3. destruct ok; cbn; exact M. }
  destruct (Z.land (nth 2 f 0) 67 =? 67).
  { pose proof (wr_plain c u_testfr_con is_i_u131) as P. destruct (wr c u_testfr_con) as [r o]. cbn [snd] in P.
    destruct (r <? 0); apply monok_same; try reflexivity; exact P. }
  destruct (Z.land (nth 2 f 0) 7 =? 7).
  { set (c1 := c <| st := STARTED |> <| hp := [] |>).
    pose proof (wr_plain c1 u_startdt_con is_i_u11) as P. destruct (wr c1 u_startdt_con) as [r o]. cbn [snd] in P.
    assert (M : monok c ((if st c =? STARTED then [] else [OEv (cid c) EV_ACT]) ++ o) c1).
    { unfold monok. rewrite mon_app. destruct (st c =? STARTED) eqn:E; cbn [mon]; [apply mon_plain; exact P|].
      change (EV_ACT =? EV_ACT) with true. apply mon_plain. exact P. }
    destruct (r <? 0); exact M. }
  destruct (Z.land (nth 2 f 0) 19 =? 19).
  { set (c1 := c <| st := UNCONF |>).
    set (o1 := (if st c =? STARTED then [OEv (cid c) EV_DEACT] else []) ++ [ORxStop (cid c)]).
    assert (M1 : mon (st c =? STARTED) o1 = Some false).
    { unfold o1. destruct (st c =? STARTED); reflexivity. }
    assert (S2 : exists c2 o2, (if 0 <? unconf c1 then let '(cx, ox) := send_s_raw (c1 <| lastconf := now |> <| unconf := 0 |> <| t2trig := false |>) in (cx, ox) else (c1, [])) = (c2, o2)
                 /\ st c2 = UNCONF /\ Forall plain o2).
    { destruct (0 <? unconf c1).
      - pose proof (send_s_raw_ok (c1 <| lastconf := now |> <| unconf := 0 |> <| t2trig := false |>)) as (E & _ & B).
        destruct (send_s_raw _) as [cx ox]. cbn [fst snd] in *. exists cx, ox. split; [reflexivity|]. split; [exact E|]. apply B. cbn. unfold UNCONF, STARTED. lia.
      - exists c1, []. repeat split. constructor. }
    destruct S2 as (c2 & o2 & ES & E2 & P2). rewrite ES.
    destruct (mq_has_sent (mq s)).
    - unfold monok. rewrite mon_app, M1. cbn. rewrite E2. change (UNCONF =? STARTED) with false. apply mon_plain. exact P2.
    - set (c3 := c2 <| st := STOPPED |>). pose proof (wr_plain c3 u_stopdt_con is_i_u35) as P3. destruct (wr c3 u_stopdt_con) as [r o3]. cbn [snd] in P3.
      assert (M : monok c (o1 ++ o2 ++ o3) c3).
      { unfold monok. rewrite mon_app, M1. change (st c3 =? STARTED) with false. apply mon_plain. apply Forall_app. split; assumption. }
      destruct (r <? 0); exact M. }
  destruct (Z.land (nth 2 f 0) 131 =? 131); [apply monok_same; [reflexivity | constructor]|].
  destruct (nth 2 f 0 =? 1); [|apply monok_same; [reflexivity | constructor]].
  destruct (check_nr c (mq s) _) as [[c1 q1]|] eqn:EN; [|apply monok_same; [reflexivity | constructor]].
  pose proof (check_nr_st _ _ _ _ _ EN) as E1.
  destruct (st c1 =? UNCONF) eqn:EU.
  - apply Z.eqb_eq in EU. destruct (negb (mq_has_sent q1)); [|apply monok_same; [cbn; exact E1 | constructor]].
    set (c2 := c1 <| st := STOPPED |>). pose proof (wr_plain c2 u_stopdt_con is_i_u35) as P. destruct (wr c2 u_stopdt_con) as [r o]. cbn [snd] in P.
    assert (M : monok c o c2).
    { unfold monok. rewrite <- E1, EU. change (UNCONF =? STARTED) with false. change (st c2 =? STARTED) with false. apply mon_plain. exact P. }
    destruct (r <? 0); exact M.
  - destruct (st c1 =? STOPPED); apply monok_same; try (cbn; exact E1); constructor.
Qed.

(* ------------------------------------------------------------------ the rest of a tick *)
Lemma monok_trans c o1 c1 o2 c2 : monok c o1 c1 -> monok c1 o2 c2 -> monok c (o1 ++ o2) c2.
Proof. unfold monok. intros H1 H2. rewrite mon_app, H1. exact H2. Qed.
Lemma monok_of_sendok c o c' : sendok c o c' -> monok c o c'. Proof. apply sendok_mon. Qed.
Lemma monok_st c o c' c'' : monok c o c' -> st c'' = st c' -> monok c o c''.
Proof. unfold monok. intros H E. rewrite E. exact H. Qed.
Lemma monok_st0 c c0 o c' : monok c o c' -> st c0 = st c -> monok c0 o c'.
Proof. unfold monok. intros H E. rewrite E. exact H. Qed.

Lemma handle_tcp_mon g now s c : let '(s', c', o) := handle_tcp g now s c in monok c o c'.
Proof.
  unfold handle_tcp. destruct (recv_call (rs c) (avail c) (peer_closed c)) as [[rs' rest] r].
  set (c1 := c <| rs := rs' |> <| avail := rest |>).
  destruct r as [f| |]; [|apply monok_same; [reflexivity | constructor] | apply monok_same; [reflexivity | constructor]].
  destruct (running c1); [|apply monok_same; [reflexivity | constructor]].
  pose proof (handle_message_mon g now s c1 f) as HM. destruct (handle_message g now s c1 f) as [[[s2 c2] ok] o].
  set (c3 := if ok then c2 else c2 <| running := false |>). assert (E3 : st c3 = st c2) by (unfold c3; destruct ok; reflexivity).
  assert (M3 : monok c o c3). { apply (monok_st0 c1); [|reflexivity]. eapply monok_st; [exact HM | exact E3]. }
  destruct (unconf c3 >=? c_w g); [|exact M3].
  pose proof (send_s_raw_ok (c3 <| lastconf := now |> <| unconf := 0 |> <| t2trig := false |>)) as S4.
  destruct (send_s_raw _) as [c4 o4]. cbn [fst snd] in S4.
  eapply monok_trans; [exact M3|]. apply (monok_st0 (c3 <| lastconf := now |> <| unconf := 0 |> <| t2trig := false |>)); [|reflexivity].
  apply monok_of_sendok. exact S4.
Qed.

Lemma send_hp_ok : forall fuel g now c, st c = STARTED -> let '(c', go, o) := send_hp fuel g now c in sendok c o c'.
Proof.
  induction fuel as [|f IH]; intros g now c Hs; cbn [send_hp]; [apply sendok_refl|].
  destruct (hp c) as [|a rest]; [apply sendok_refl|].
  destruct (kfull (c_k g) c); [apply sendok_refl|].
  assert (Hs' : st (c <| hp := rest |>) = STARTED) by exact Hs.
  pose proof (send_i_ok now (c <| hp := rest |>) a None Hs') as S1. destruct (send_i now (c <| hp := rest |>) a None) as [c1 o1]. cbn [fst snd] in S1.
  assert (S1' : sendok c o1 c1). { destruct S1 as (E & A & B). split; [exact E|]. split; [exact A | exact B]. }
  destruct (negb (running c1)); [exact S1'|].
  assert (Hs1 : st c1 = STARTED) by (destruct S1 as (E & _); rewrite E; exact Hs).
  specialize (IH g now c1 Hs1). destruct (send_hp f g now c1) as [[c2 b] o2]. eapply sendok_trans; [exact S1' | exact IH].
Qed.

Lemma send_waiting_ok g now s c : st c = STARTED -> let '(s', c', o) := send_waiting g now s c in sendok c o c'.
Proof.
  intros Hs. unfold send_waiting.
  pose proof (send_hp_ok (S (length (hp c))) g now c Hs) as S1. destruct (send_hp (S (length (hp c))) g now c) as [[c1 go] o1].
  destruct go; [|exact S1]. destruct (kfull (c_k g) c1); [exact S1|].
  destruct (mq_next_waiting (mq s)) as [[e q']|]; [|exact S1].
  assert (Hs1 : st c1 = STARTED) by (destruct S1 as (E & _); rewrite E; exact Hs).
  pose proof (send_i_ok now c1 (q_asdu e) (Some (q_id e)) Hs1) as S2. destruct (send_i now c1 (q_asdu e) (Some (q_id e))) as [c2 o2]. cbn [fst snd] in S2.
  eapply sendok_trans; [exact S1 | exact S2].
Qed.

Lemma handle_timeouts_ok g now c : let '(c', ok, o) := handle_timeouts g now c in sendok c o c'.
Proof.
  unfold handle_timeouts.
  assert (T3 : sendok c (snd (tmo_t3 g now c)) (fst (tmo_t3 g now c))).
  { unfold tmo_t3. destruct (wtest c); [apply sendok_refl|].
    set (c0 := if nextT3 c >? now + c_t3 g * 1000 then _ else c). assert (E0 : st c0 = st c) by (unfold c0; destruct (_ >? _); reflexivity).
    destruct (now >? nextT3 c0); [|apply sendok_plain; [exact E0 | constructor]].
    pose proof (wr_plain c0 u_testfr_act is_i_u67) as P. destruct (wr c0 u_testfr_act) as [r o]. cbn [fst snd] in *.
    apply sendok_plain; [destruct (r <? 0); cbn; exact E0 | exact P]. }
  destruct (tmo_t3 g now c) as [c1 o1]. cbn [fst snd] in T3.
  assert (TT : st (fst (tmo_test g now c1)) = st c1).
  { unfold tmo_test. destruct (wtest c1); [|reflexivity]. cbn [fst]. destruct (_ >? _); reflexivity. }
  destruct (tmo_test g now c1) as [c2 ok2]. cbn [fst] in TT.
  assert (T2 : sendok c2 (snd (tmo_t2 g now c2)) (fst (tmo_t2 g now c2))).
  { unfold tmo_t2. destruct (0 <? unconf c2); [|apply sendok_refl].
    set (cz := if _ && _ then _ else c2). assert (Ez : st cz = st c2) by (unfold cz; destruct (_ && _); reflexivity).
    destruct (_ && _ && _); [|apply sendok_plain; [exact Ez | constructor]].
    pose proof (send_s_raw_ok (cz <| lastconf := now |> <| unconf := 0 |> <| t2trig := false |>)) as (E & A & B).
    split; [rewrite E; exact Ez|]. split; intros H; [apply A | apply B]; cbn; congruence. }
  destruct (tmo_t2 g now c2) as [c3 o3]. cbn [fst snd] in T2.
  assert (T1 : st (fst (tmo_t1 g now c3)) = st c3).
  { unfold tmo_t1. destruct (kbuf c3); reflexivity. }
  destruct (tmo_t1 g now c3) as [c4 ok4]. cbn [fst] in T1.
  destruct T3 as (E3 & A3 & B3). destruct T2 as (E2 & A2 & B2).
  split; [congruence|]. split; intros H; apply Forall_app; split; auto; [apply A2 | apply B2]; congruence.
Qed.

Definition flag_of (s : server) : bool := match con s with Some c => st c =? STARTED | None => false end.

Lemma tick_mon g now s : mon (flag_of s) (snd (tick g now s)) = Some (flag_of (fst (tick g now s))).
Proof.
  unfold tick.
  (* accept *)
  set (acc := match pending s with [] => (s, []) | id :: rest => _ end).
  assert (A : mon (flag_of s) (snd acc) = Some (flag_of (fst acc))).
  { unfold acc. destruct (pending s) as [|id rest]; [reflexivity|].
    destruct (c_reqret g); [|reflexivity].
    unfold flag_of. cbn [con set]. destruct (con s) as [c|] eqn:EC; cbn; rewrite ?EC; reflexivity. }
  destruct acc as [s1 o1]. cbn [fst snd] in A.
  destruct (con s1) as [c|] eqn:EC; [|cbn [fst snd]; exact A].
  assert (F1 : flag_of s1 = (st c =? STARTED)) by (unfold flag_of; rewrite EC; reflexivity).
  destruct (negb (running c)).
  { cbn [fst snd]. rewrite mon_app, A. cbn. reflexivity. }
  set (ready := _ || peer_closed c).
  assert (H2 : exists s2 c2 o2, (if ready then handle_tcp g now s1 c else (s1, c, [])) = (s2, c2, o2) /\ monok c o2 c2).
  { destruct ready.
    - pose proof (handle_tcp_mon g now s1 c) as M. destruct (handle_tcp g now s1 c) as [[s2 c2] o2]. eauto.
    - exists s1, c, []. split; [reflexivity | apply monok_same; [reflexivity | constructor]]. }
  destruct H2 as (s2 & c2 & o2 & E2 & M2). rewrite E2.
  destruct (running c2).
  - assert (H3 : exists s3 c3 o3, (if st c2 =? STARTED then send_waiting g now s2 c2 else (s2, c2, [])) = (s3, c3, o3) /\ sendok c2 o3 c3).
    { destruct (st c2 =? STARTED) eqn:ES.
      - apply Z.eqb_eq in ES. pose proof (send_waiting_ok g now s2 c2 ES) as S. destruct (send_waiting g now s2 c2) as [[s3 c3] o3]. eauto.
      - exists s2, c2, []. split; [reflexivity | apply sendok_refl]. }
    destruct H3 as (s3 & c3 & o3 & E3 & S3). rewrite E3.
    pose proof (handle_timeouts_ok g now c3) as S4. destruct (handle_timeouts g now c3) as [[c4 ok] o4].
    cbn [fst snd]. rewrite mon_app, A, F1. rewrite mon_app.
    unfold monok in M2. rewrite M2. rewrite mon_app. rewrite (sendok_mon _ _ _ S3). rewrite (sendok_mon _ _ _ S4).
    unfold flag_of. cbn. destruct ok; reflexivity.
  - cbn [fst snd]. rewrite mon_app, A, F1. unfold monok in M2. rewrite M2. unfold flag_of. cbn. reflexivity.
Qed.

Lemma step_mon g now s x : mon (flag_of s) (snd (step g now s x)) = Some (flag_of (fst (step g now s x))).
Proof.
  destruct x; cbn [step];
    first [ apply tick_mon
          | (cbn [fst snd mon]; unfold flag_of, on_con; destruct (con s) as [c|] eqn:E; cbn; rewrite ?E; reflexivity)
          | reflexivity ].
Qed.

(* every history: stimuli with arbitrary (also non-monotone) clock values *)
Fixpoint srun (g : cfg) (s : server) (xs : list (Z * stim)) : server * list obs :=
  match xs with
  | [] => (s, [])
  | (now, x) :: r => let '(s1, o1) := step g now s x in let '(s2, o2) := srun g s1 r in (s2, o1 ++ o2)
  end.

Theorem no_iframe_outside_started : forall xs g s,
  mon (flag_of s) (snd (srun g s xs)) = Some (flag_of (fst (srun g s xs))).
Proof.
  induction xs as [|[now x] r IH]; intros g s; [reflexivity|]. cbn [srun].
  pose proof (step_mon g now s x) as M. destruct (step g now s x) as [s1 o1]. cbn [fst snd] in M.
  specialize (IH g s1). destruct (srun g s1 r) as [s2 o2]. cbn [fst snd] in *. rewrite mon_app, M. exact IH.
Qed.

(* readable corollary: at every I-format APDU of the observation stream the flag is set, i.e. the last state-changing
   observation before it is ACTIVATED *)
Corollary iframe_only_when_started : forall xs g pre c b post,
  snd (srun g server_init xs) = pre ++ OTx c b :: post -> is_i b = true -> mon false pre = Some true.
Proof.
  intros xs g pre c b post E Hi. pose proof (no_iframe_outside_started xs g server_init) as M.
  change (flag_of server_init) with false in M. rewrite E, mon_app in M.
  destruct (mon false pre) as [[|]|]; [reflexivity | cbn [mon] in M; rewrite Hi in M; discriminate | discriminate].
Qed.
