(* C06 / C13: the event queue of the server model (Cs104/Server.v: a list of entries identified by their id, no capacity) is the
   abstraction of the byte ring (Cs104/MsgQueue.v, proved in MqRingProofs.v): every ring operation commutes with the
   corresponding list operation of Server.v under `absq`, displacement of the D oldest entries being the only difference. *)
From Coq Require Import ZArith List Bool Lia.
From L60870 Require Import Cs104.MsgQueue Cs104.MqRingProofs.
From L60870 Require Cs104.Server.
Import ListNotations.
Local Open Scope Z_scope.

Definition absent (e : ent) : Server.qent := {| Server.q_id := e_id e; Server.q_asdu := e_asdu e; Server.q_st := e_st e |}.
Definition absq (l : lay_t) : list Server.qent := map (fun p => absent (snd p)) l.

(* ------------------------------------------------------------------ offsets and ids of a layout are pairwise different *)
Lemma contig_offsets_gt : forall l o p, sane l -> contig o l -> In p l -> o <= fst p.
Proof. intros l o p Hs Hc Hin. destruct (contig_bounds l o p Hs Hc Hin). assumption. Qed.

Lemma contig_nodup : forall l o, sane l -> contig o l -> NoDup (map fst l).
Proof.
  induction l as [|[o1 e] r IH]; intros o Hs Hc; cbn [map]; [constructor|].
  apply sane_cons in Hs. destruct Hs as [H1 H2]. cbn [snd] in H1. cbn [contig] in Hc. destruct Hc as [-> Hc].
  constructor; [|apply (IH _ H2 Hc)]. cbn [fst]. intros Hin. apply in_map_iff in Hin. destruct Hin as (p & Ep & Hp).
  pose proof (contig_offsets_gt r _ p H2 Hc Hp). pose proof (esz_ge e ltac:(lia)). lia.
Qed.

Lemma nodup_app_disjoint {A} (a b : list A) : NoDup a -> NoDup b -> (forall x, In x a -> In x b -> False) -> NoDup (a ++ b).
Proof.
  induction a as [|x a IH]; intros Ha Hb Hd; [exact Hb|]. inversion Ha; subst. cbn [app]. constructor.
  - intros Hin. apply in_app_or in Hin. destruct Hin as [Hin | Hin]; [contradiction | apply (Hd x); [left; reflexivity | exact Hin]].
  - apply IH; [assumption | exact Hb | intros y Hy1 Hy2; apply (Hd y); [right; exact Hy1 | exact Hy2]].
Qed.

Lemma inv_offsets_nodup q l : MQInv q l -> NoDup (map fst l).
Proof.
  intros (Hc & Hq & Hs & Hst & Hid & Hn & Hg). destruct Hg as [-> | [HL | HW]]; [constructor| |].
  - destruct HL as (_ & Hcg & _). apply (contig_nodup l (first q) Hs Hcg).
  - destruct HW as (A & B & -> & HA & HB & HcA & _ & HeA & HcB & _ & HeB).
    apply sane_app in Hs. destruct Hs as [HsA HsB]. rewrite map_app. apply nodup_app_disjoint.
    + apply (contig_nodup A (first q) HsA HcA).
    + apply (contig_nodup B 0 HsB HcB).
    + intros x Hx1 Hx2. apply in_map_iff in Hx1. destruct Hx1 as (p1 & E1 & H1). apply in_map_iff in Hx2. destruct Hx2 as (p2 & E2 & H2).
      pose proof (contig_offsets_gt A _ p1 HsA HcA H1). destruct (contig_bounds B 0 p2 HsB HcB H2) as [_ Hb].
      pose proof (proj1 (Forall_forall _ _) HsB p2 H2) as S2. cbn beta in S2. pose proof (esz_ge (snd p2) ltac:(lia)). lia.
Qed.

Lemma ids_from_lt : forall l k p, ids_from k l -> In p l -> k <= e_id (snd p).
Proof. intros l k p H Hin. pose proof (ids_in_range l k p H Hin). lia. Qed.

Lemma ids_nodup : forall l k, ids_from k l -> NoDup (map (fun p => e_id (snd p)) l).
Proof.
  induction l as [|p r IH]; intros k H; cbn [map]; [constructor|]. cbn [ids_from] in H. destruct H as [H1 H2].
  constructor; [|apply (IH _ H2)]. intros Hin. apply in_map_iff in Hin. destruct Hin as (p2 & E2 & Hp2).
  pose proof (ids_from_lt r (k + 1) p2 H2 Hp2). lia.
Qed.

Lemma upd_at_notin o st : forall l, ~ In o (map fst l) -> upd_at o st l = l.
Proof.
  induction l as [|p r IH]; intros H; [reflexivity|]. cbn [upd_at map]. cbn [map] in H.
  assert (E : fst p =? o = false) by (apply Z.eqb_neq; intros E; apply H; left; exact E). rewrite E. f_equal. apply IH. intros Hin. apply H. right. exact Hin.
Qed.

(* ------------------------------------------------------------------ getNextWaitingASDU *)
Theorem refine_next : forall l, NoDup (map fst l) ->
  match first_waiting l with
  | Some (o, e) => Server.mq_next_waiting (absq l) = Some (absent e, absq (upd_at o MsgQueue.QSENT l))
  | None => Server.mq_next_waiting (absq l) = None
  end.
Proof.
  induction l as [|[o1 e1] r IH]; intros Hnd; [reflexivity|]. cbn [map] in Hnd. inversion Hnd as [|? ? Hni Hnd']; subst.
  cbn [first_waiting absq map snd Server.mq_next_waiting absent Server.q_st].
  change Server.QWAIT with MsgQueue.QWAIT. destruct (e_st e1 =? MsgQueue.QWAIT) eqn:E.
  - cbn [upd_at map fst snd]. rewrite Z.eqb_refl. fold (upd_at o1 MsgQueue.QSENT r). rewrite (upd_at_notin o1 MsgQueue.QSENT r Hni). reflexivity.
  - specialize (IH Hnd'). destruct (first_waiting r) as [[o e]|] eqn:F.
    + fold (absq r). rewrite IH. cbn [upd_at map fst snd].
      assert (En : o1 =? o = false).
      { apply Z.eqb_neq. intros ->. apply Hni. destruct (first_waiting_in r o e F) as [Hin _]. apply in_map_iff. exists (o, e). split; [reflexivity | exact Hin]. }
      rewrite En. reflexivity.
    + fold (absq r). rewrite IH. reflexivity.
Qed.

(* ------------------------------------------------------------------ setWaitingForTransmissionWhenNotConfirmed *)
Definition rearm (l : lay_t) : lay_t := map (fun p => if e_st (snd p) =? MsgQueue.QSENT then (fst p, upd MsgQueue.QWAIT (snd p)) else p) l.

Lemma rearm_offsets l : map fst (rearm l) = map fst l.
Proof. unfold rearm. rewrite map_map. apply map_ext. intros p. destruct (_ =? _); reflexivity. Qed.

Lemma absq_rearm l : absq (rearm l) = Server.mq_reset_waiting (absq l).
Proof.
  unfold absq, rearm, Server.mq_reset_waiting. rewrite !map_map. apply map_ext. intros p. cbn [absent Server.q_st Server.q_id Server.q_asdu].
  change Server.QSENT with MsgQueue.QSENT. change Server.QWAIT with MsgQueue.QWAIT. destruct (e_st (snd p) =? MsgQueue.QSENT); reflexivity.
Qed.

Lemma upd_at_middle st : forall a x r, NoDup (map fst (a ++ x :: r)) -> upd_at (fst x) st (a ++ x :: r) = a ++ (fst x, upd st (snd x)) :: r.
Proof.
  intros a x r H. rewrite upd_at_app. rewrite map_app in H. cbn [map] in H.
  assert (Ha : ~ In (fst x) (map fst a)). { intros Hin. apply NoDup_remove_2 in H. apply H. apply in_or_app. left. exact Hin. }
  assert (Hr : ~ In (fst x) (map fst r)). { intros Hin. apply NoDup_remove_2 in H. apply H. apply in_or_app. right. exact Hin. }
  rewrite (upd_at_notin _ st a Ha). f_equal. cbn [upd_at map]. rewrite Z.eqb_refl. f_equal. apply (upd_at_notin _ st r Hr).
Qed.

Lemma reset_lay_prefix : forall l1 l0, NoDup (map fst (l0 ++ l1)) -> reset_lay l1 (rearm l0 ++ l1) = rearm (l0 ++ l1).
Proof.
  induction l1 as [|x r IH]; intros l0 H; cbn [reset_lay fold_left].
  - rewrite !app_nil_r. reflexivity.
  - assert (H' : NoDup (map fst ((l0 ++ [x]) ++ r))) by (rewrite <- app_assoc; exact H).
    specialize (IH (l0 ++ [x]) H'). fold (reset_lay r) in *.
    assert (E : (if e_st (snd x) =? MsgQueue.QSENT then upd_at (fst x) MsgQueue.QWAIT (rearm l0 ++ x :: r) else rearm l0 ++ x :: r) = rearm (l0 ++ [x]) ++ r).
    { unfold rearm at 2 3. rewrite map_app. cbn [map]. fold (rearm l0). destruct (e_st (snd x) =? MsgQueue.QSENT).
      - rewrite upd_at_middle; [rewrite <- app_assoc; reflexivity|]. rewrite map_app, rearm_offsets, <- map_app. exact H.
      - rewrite <- app_assoc. reflexivity. }
    unfold reset_lay in *. rewrite E. rewrite IH. rewrite <- app_assoc. reflexivity.
Qed.

Theorem refine_reset l : NoDup (map fst l) -> absq (reset_lay l l) = Server.mq_reset_waiting (absq l).
Proof. intros H. pose proof (reset_lay_prefix l [] H) as E. cbn [rearm map app] in E. rewrite E. apply absq_rearm. Qed.

(* ------------------------------------------------------------------ markAsduAsConfirmed *)
Lemma absq_confirm_live : forall l o e (st : Z), NoDup (map fst l) -> NoDup (map (fun p => e_id (snd p)) l) -> In (o, e) l ->
  absq (upd_at o MsgQueue.QCONF l) = Server.mq_confirm (e_id e) (absq l).
Proof.
  induction l as [|[o1 e1] r IH]; intros o e st Hno Hni Hin; [destruct Hin|].
  cbn [map] in Hno, Hni. inversion Hno as [|? ? Ho1 Hno']; subst. inversion Hni as [|? ? Hi1 Hni']; subst. cbn [fst snd] in *.
  cbn [upd_at map absq fst snd Server.mq_confirm absent Server.q_id].
  destruct Hin as [E | Hin].
  - inversion E; subst. rewrite !Z.eqb_refl. fold (upd_at o MsgQueue.QCONF r). rewrite (upd_at_notin o MsgQueue.QCONF r Ho1). reflexivity.
  - assert (En : o1 =? o = false).
    { apply Z.eqb_neq. intros ->. apply Ho1. apply in_map_iff. exists (o, e). split; [reflexivity | exact Hin]. }
    assert (Ei : e_id e1 =? e_id e = false).
    { apply Z.eqb_neq. intros EE. apply Hi1. apply in_map_iff. exists (o, e). split; [cbn; congruence | exact Hin]. }
    rewrite En, Ei. f_equal. apply (IH o e st Hno' Hni' Hin).
Qed.

Lemma mq_confirm_absent id : forall q, ~ In id (map Server.q_id q) -> Server.mq_confirm id q = q.
Proof.
  induction q as [|e r IH]; intros H; [reflexivity|]. cbn [Server.mq_confirm]. cbn [map] in H.
  assert (E : Server.q_id e =? id = false) by (apply Z.eqb_neq; intros EE; apply H; left; exact EE). rewrite E. f_equal. apply IH. intros Hin. apply H. right. exact Hin.
Qed.

(* the ring's confirmation of a pair handed out before = Server.v's mq_mark of its id *)
Theorem refine_confirm q l o id : MQInv q l -> valid_pair q l o id ->
  absq (confirm_lay q l o id) = Server.mq_mark id (absq l).
Proof.
  intros H (Hid0 & Hv). pose proof (inv_offsets_nodup q l H) as Hno. pose proof H as (Hc & Hq & Hs & Hst & Hid & Hn & Hg).
  pose proof (ids_nodup l _ Hid) as Hni. unfold confirm_lay.
  assert (Habs : forall p, In p l -> nid q - cnt q <= e_id (snd p)) by (intros p Hp; apply (ids_from_lt l _ p Hid Hp)).
  destruct Hv as [Hstale | (e & Hin & He)].
  - assert (E : id <? nid q - cnt q = true) by (apply Z.ltb_lt; exact Hstale). rewrite E.
    assert (Hnot : ~ In id (map Server.q_id (absq l))).
    { unfold absq. rewrite map_map. cbn [absent Server.q_id]. intros Hin. apply in_map_iff in Hin. destruct Hin as (p & Ep & Hp). pose proof (Habs p Hp). lia. }
    unfold Server.mq_mark. destruct (absq l) as [|x r] eqn:EA; [reflexivity|].
    assert (Ex : Server.q_id x =? id = false). { apply Z.eqb_neq. intros EE. apply Hnot. left. exact EE. } rewrite Ex.
    rewrite <- EA. rewrite mq_confirm_absent; [reflexivity | rewrite EA; exact Hnot].
  - pose proof (Habs (o, e) Hin) as Hge. cbn [snd] in Hge. rewrite He in Hge.
    assert (E : id <? nid q - cnt q = false) by (apply Z.ltb_ge; lia). rewrite E.
    (* the head of the layout sits at first q *)
    destruct l as [|[o1 e1] r]; [destruct Hin|].
    assert (Hfirst : o1 = first q).
    { destruct Hg as [Hn0 | [HL | HW]]; [discriminate| |].
      - destruct HL as (_ & Hcg & _). cbn [contig] in Hcg. tauto.
      - destruct HW as (A & B & EAB & HA & _ & HcA & _). destruct A as [|a A']; [congruence|]. cbn [app] in EAB. inversion EAB; subst a. cbn [contig] in HcA. tauto. }
    subst o1. unfold Server.mq_mark. cbn [absq map snd absent]. cbn [Server.q_id].
    cbn [map fst] in Hno. inversion Hno as [|? ? Ho1 Hno']; subst. cbn [map snd] in Hni. inversion Hni as [|? ? Hi1 Hni']; subst.
    destruct Hin as [EE | Hin].
    + inversion EE; subst. cbn [absent Server.q_id]. rewrite !Z.eqb_refl. cbn [upd_at map fst snd tl].
      fold (upd_at (first q) MsgQueue.QCONF r). rewrite (upd_at_notin _ _ r Ho1). reflexivity.
    + assert (En : o =? first q = false).
      { apply Z.eqb_neq. intros ->. apply Ho1. apply in_map_iff. exists (first q, e). split; [reflexivity | exact Hin]. }
      assert (Ei : e_id e1 =? e_id e = false).
      { apply Z.eqb_neq. intros EE. apply Hi1. apply in_map_iff. exists (o, e). split; [cbn; congruence | exact Hin]. }
      cbn [absent Server.q_id]. rewrite En, Ei.
      change (absent e1 :: map (fun p => absent (snd p)) r) with (absq ((first q, e1) :: r)).
      apply (absq_confirm_live ((first q, e1) :: r) o e 0); [exact Hno | exact Hni | right; exact Hin].
Qed.

(* ------------------------------------------------------------------ enqueueASDU *)
Theorem refine_enqueue q l a D nx : absq (skipn D l ++ [(nx, new_ent q a)]) =
  skipn D (absq l) ++ [{| Server.q_id := nid q; Server.q_asdu := a; Server.q_st := Server.QWAIT |}].
Proof. unfold absq. rewrite map_app, <- skipn_map. reflexivity. Qed.
