From Coq Require Import ZArith List Bool Lia.
From L60870 Require Import Cs104.Groups.
Import ListNotations.
Local Open Scope Z_scope.

(* ---- getMatchingRedundancyGroup *)
Lemma match_group_listed : forall gs a idx ca pre g post,
  gs = pre ++ g :: post -> g_matches g a = true -> Forall (fun x => g_matches x a = false) pre ->
  match_group gs a idx ca = Some (idx + Z.of_nat (length pre)).
Proof.
  induction gs as [|x r IH]; intros a idx ca pre g post E Hm Hpre.
  - destruct pre; discriminate.
  - destruct pre as [|p pre]; cbn [app] in E; inversion E; subst; cbn [match_group length].
    + rewrite Hm. f_equal. lia.
    + inversion Hpre; subst. match goal with H : g_matches p a = false |- _ => rewrite H end.
      rewrite (IH a (idx + 1) _ pre g post eq_refl Hm); [f_equal; lia | assumption].
Qed.

Lemma match_group_unlisted : forall gs a idx ca, Forall (fun x => g_matches x a = false) gs ->
  match_group gs a idx ca =
  match filter (fun p => g_catchall (snd p)) (combine (map (fun n => idx + Z.of_nat n) (seq 0 (length gs))) gs) with
  | [] => ca
  | l => Some (fst (last l (0, {| g_allowed := None |})))
  end.
Proof.
  induction gs as [|x r IH]; intros a idx ca H; [reflexivity|].
  inversion H; subst. cbn [match_group]. match goal with E : g_matches x a = false |- _ => rewrite E end.
  rewrite (IH a (idx + 1) _ ltac:(assumption)).
  cbn [length seq map combine filter snd]. rewrite Z.add_0_r.
  assert (M : map (fun n => idx + 1 + Z.of_nat n) (seq 0 (length r)) = map (fun n => idx + Z.of_nat n) (seq 1 (length r))).
  { rewrite <- seq_shift, map_map. apply map_ext. intros n. lia. }
  rewrite M.
  destruct (g_catchall x) eqn:C.
  - destruct (filter _ (combine (map (fun n => idx + Z.of_nat n) (seq 1 (length r))) r)) as [|y ys] eqn:F; [reflexivity|].
    cbn [last]. reflexivity.
  - reflexivity.
Qed.

Lemma match_group_none : forall gs a idx, Forall (fun x => g_matches x a = false) gs -> Forall (fun x => g_catchall x = false) gs ->
  match_group gs a idx None = None.
Proof.
  induction gs as [|x r IH]; intros a idx H1 H2; [reflexivity|].
  inversion H1; inversion H2; subst. cbn [match_group].
  repeat match goal with E : _ = false |- _ => rewrite E; clear E end. apply IH; assumption.
Qed.

(* ---- admission *)
Lemma admission_limit mode gs maxopen opencnt reqret free peer :
  1 <= maxopen <= opencnt -> admission mode gs maxopen opencnt reqret free peer = None.
Proof.
  intros H. unfold admission. assert (E : (1 <=? maxopen) && (maxopen <=? opencnt) = true) by (apply andb_true_intro; split; apply Z.leb_le; lia).
  rewrite E. reflexivity.
Qed.
Lemma admission_callback_refuses mode gs maxopen opencnt free peer : admission mode gs maxopen opencnt false free peer = None.
Proof. unfold admission. destruct ((1 <=? maxopen) && (maxopen <=? opencnt)); reflexivity. Qed.
Lemma admission_multi mode gs maxopen opencnt peer : mode = MULTI -> (1 <=? maxopen) && (maxopen <=? opencnt) = false ->
  admission mode gs maxopen opencnt true true peer = match_group gs (parse_ip (peer_ip peer)) 0 None.
Proof. intros -> E. unfold admission. rewrite E. cbn. destruct (match_group gs _ 0 None); reflexivity. Qed.

(* ---- activation: after STARTDT on slot i no OTHER used slot of the same group is started *)
Lemma activate_aux_spec : forall mode me i l j k x, nth_error (activate_aux mode me i j l) k = Some x ->
  (j + k)%nat <> i -> s_used x = true -> same_group mode me x = true -> s_st x <> STARTED.
Proof.
  induction l as [|y r IH]; intros j k x H Hne Hu Hs; [destruct k; discriminate|].
  cbn [activate_aux] in H. destruct k as [|k]; cbn [nth_error] in H.
  - inversion H; subst; clear H. assert (E : Nat.eqb i j = false) by (apply Nat.eqb_neq; lia). rewrite E in *.
    destruct (s_used y && same_group mode me y) eqn:C.
    + cbn. unfold UNCONF, STARTED. destruct (s_st y =? 1) eqn:Q; [lia | apply Z.eqb_neq in Q; exact Q].
    + (* x = y unchanged, but then used && same_group = false contradicts the hypotheses *)
      rewrite Hu, Hs in C. discriminate C.
  - apply (IH (S j) k x H); try assumption. lia.
Qed.

Lemma same_group_set mode me x st' :
  same_group mode me {| s_used := s_used x; s_group := s_group x; s_st := st' |} = same_group mode me x.
Proof. destruct mode; reflexivity. Qed.

Theorem one_active_after_startdt : forall mode l i me k x,
  nth_error l i = Some me -> nth_error (activate mode l i) k = Some x -> k <> i ->
  s_used x = true -> same_group mode me x = true -> s_st x <> STARTED.
Proof.
  intros mode l i me k x Hme H Hne Hu Hs. unfold activate in H. rewrite Hme in H.
  apply (activate_aux_spec mode me i l 0%nat k x H); try assumption.
Qed.

Lemma activate_aux_me : forall mode me i l j, (j <= i)%nat -> (i < j + length l)%nat ->
  exists y, nth_error (activate_aux mode me i j l) (i - j) = Some y /\ s_st y = STARTED.
Proof.
  induction l as [|x r IH]; intros j H1 H2; cbn [length] in H2; [lia|].
  cbn [activate_aux]. destruct (Nat.eq_dec i j) as [->|Hne].
  - rewrite Nat.sub_diag. cbn [nth_error]. rewrite Nat.eqb_refl. eexists. split; reflexivity.
  - assert (E : Nat.eqb i j = false) by (apply Nat.eqb_neq; exact Hne). rewrite E.
    replace (i - j)%nat with (S (i - S j)) by lia. cbn [nth_error]. apply IH; lia.
Qed.

(* in connection-is-group mode a STARTDT on one connection leaves every other connection untouched *)
Theorem conn_is_group_independent : forall l i me k, nth_error l i = Some me -> k <> i ->
  nth_error (activate CONN_IS_GROUP l i) k = nth_error l k.
Proof.
  intros l i me k Hme Hne. unfold activate. rewrite Hme.
  assert (G : forall l j k, (j + k)%nat <> i -> nth_error (activate_aux CONN_IS_GROUP me i j l) k = nth_error l k).
  { induction l0 as [|y r IH]; intros j k0 H; [reflexivity|]. cbn [activate_aux]. destruct k0 as [|k0]; cbn [nth_error].
    - assert (E : Nat.eqb i j = false) by (apply Nat.eqb_neq; lia). rewrite E. cbn. rewrite andb_false_r. reflexivity.
    - apply IH. lia. }
  apply G. lia.
Qed.
