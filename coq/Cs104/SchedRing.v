(* C13: composition of the scheduler of Cs104/Server.v with the byte ring of HighPriorityASDUQueue (Cs104/MsgQueue.v, hp_ functions).
   The server model parks responses in a list (`hp c`, "abstract FIFO, below capacity"); the C code parks them in the ring and
   sendASDUInternal reports failure when the ring refuses.  Here the three scheduler functions are transcribed once more with the
   literal ring in place of the list (the `hp` field of the connection record is not read by them), and shown to be the list
   versions as long as the ring accepts: for every ring state q that represents the list L (HPInv q L, the invariant every
   history of ring operations keeps) the ring version returns without a fault, writes the same frames, leaves the connection in the
   same state and the ring in a state that represents the list version's remaining list; and when the ring refuses, the call
   reports failure and changes nothing. *)
From Coq Require Import ZArith List Bool Lia.
From RecordUpdate Require Import RecordSet.
From L60870 Require Import Apci.Reasm Apci.Frame Cs104.Server Cs104.SchedProofs Cs104.MsgQueue Cs104.HpRingProofs.
Import ListNotations RecordSetNotations.
Local Open Scope Z_scope.

(* HighPriorityASDUQueue_isAsduAvailable *)
Definition hp_avail (q : hpq) : bool := 0 <? hcnt q.

(* sendASDUInternal with the ring *)
Definition send_asdu_internal_r (g : cfg) (now : Z) (c : conn) (q : hpq) (asdu : list Z) : res (conn * hpq * bool * list obs) :=
  if st c =? STARTED then
    if negb (kfull (c_k g) c) && negb (hp_avail q) then let '(c', o) := send_i now c asdu None in Ok (c', q, true, o)
    else match hp_enqueue q asdu with
         | Ok (b, q') => Ok (c, q', b, [])
         | Fault w => Fault w
         end
  else Ok (c, q, false, []).

(* the loop of sendWaitingASDUs over sendNextHighPriorityASDU *)
Fixpoint send_hp_r (fuel : nat) (g : cfg) (now : Z) (c : conn) (q : hpq) : res (conn * hpq * bool * list obs) :=
  match fuel with
  | O => Ok (c, q, false, [])
  | S f =>
    if hp_avail q then
      if kfull (c_k g) c then Ok (c, q, false, [])
      else match hp_next q with
           | Fault w => Fault w
           | Ok (None, q1) => Ok (c, q1, false, [])
           | Ok (Some a, q1) =>
             let '(c1, o1) := send_i now c a None in
             if negb (running c1) then Ok (c1, q1, false, o1)
             else match send_hp_r f g now c1 q1 with
                  | Ok (c2, q2, b, o2) => Ok (c2, q2, b, o1 ++ o2)
                  | Fault w => Fault w
                  end
           end
    else Ok (c, q, true, [])
  end.

Definition send_waiting_r (g : cfg) (now : Z) (s : server) (c : conn) (q : hpq) : res (server * conn * hpq * list obs) :=
  match send_hp_r (S (Z.to_nat (hcnt q))) g now c q with
  | Fault w => Fault w
  | Ok (c1, q1, go, o1) =>
    if go then
      if kfull (c_k g) c1 then Ok (s, c1, q1, o1)
      else match Server.mq_next_waiting (mq s) with
           | None => Ok (s, c1, q1, o1)
           | Some (e, m') => let '(c2, o2) := send_i now c1 (q_asdu e) (Some (q_id e)) in Ok (s <| mq := m' |>, c2, q1, o1 ++ o2)
           end
    else Ok (s, c1, q1, o1)
  end.

(* ---- the scheduler functions do not read the list field *)
Lemma send_i_hp now c a e L : send_i now (c <| hp := L |>) a e = (fst (send_i now c a e) <| hp := L |>, snd (send_i now c a e)).
Proof.
  destruct c as [a1 a2 a3 a4 a5 a6 a7 a8 a9 a10 a11 a12 a13 a14 a15 a16 wm a18]. unfold send_i, wr. cbn.
  destruct (wm =? 1); [reflexivity|]. destruct (wm =? 2); [reflexivity|]. destruct (0 <? _); reflexivity.
Qed.
Lemma kfull_hp k c L : kfull k (c <| hp := L |>) = kfull k c.
Proof. destruct c. reflexivity. Qed.
Lemma set_hp_twice c L1 L2 : c <| hp := L1 |> <| hp := L2 |> = c <| hp := L2 |>.
Proof. destruct c. reflexivity. Qed.
Lemma hp_set c L : hp (c <| hp := L |>) = L. Proof. destruct c. reflexivity. Qed.
Lemma st_set c L : st (c <| hp := L |>) = st c. Proof. destruct c. reflexivity. Qed.
Lemma send_i_keeps_hp now c a e : hp (fst (send_i now c a e)) = hp c.
Proof.
  destruct c as [a1 a2 a3 a4 a5 a6 a7 a8 a9 a10 a11 a12 a13 a14 a15 a16 wm a18]. unfold send_i, wr. cbn.
  destruct (wm =? 1); [reflexivity|]. destruct (wm =? 2); [reflexivity|]. destruct (0 <? _); reflexivity.
Qed.

Lemma avail_iff q L : HPInv q L -> hp_avail q = match L with [] => false | _ => true end.
Proof.
  intros (Hc & _). unfold hp_avail. destruct L as [|a r]; cbn [length] in Hc.
  - apply Z.ltb_ge. lia.
  - apply Z.ltb_lt. lia.
Qed.

(* ---- sendASDUInternal *)
Theorem internal_ring g now c q a L : HPInv q L ->
  exists c' q' r o, send_asdu_internal_r g now c q a = Ok (c', q', r, o) /\
    let '(cm, rm, om) := send_asdu_internal g now (c <| hp := L |>) a in
    (r = true -> c' <| hp := hp cm |> = cm /\ o = om /\ HPInv q' (hp cm)) /\
    (r = false -> c' = c /\ o = [] /\ HPInv q' L /\
                  (st c <> STARTED \/ 250 < lenz a \/ L <> [])).
Proof.
  intros HI. unfold send_asdu_internal_r, send_asdu_internal. rewrite st_set, kfull_hp, hp_set, (avail_iff q L HI).
  destruct (st c =? STARTED) eqn:Es.
  2:{ exists c, q, false, []. split; [reflexivity|]. cbv iota beta. split; [discriminate|]. intros _. split; [reflexivity|]. split; [reflexivity|]. split; [exact HI|].
      left. intros X. rewrite X in Es. discriminate Es. }
  destruct (kfull (c_k g) c) eqn:Ek; cbn [negb andb].
  - destruct (hp_enqueue_spec q L a HI) as (b & q' & E & HI' & Hb1 & Hb2). rewrite E. exists c, q', b, []. split; [reflexivity|].
    assert (X : (if match L with [] => true | _ :: _ => false end then false else false) = false) by (destruct L; reflexivity).
    destruct L as [|x r]; cbn [negb andb]; (split; [intros ->; rewrite hp_set; split; [reflexivity|]; split; [reflexivity | exact HI'] |]);
      intros ->; (split; [reflexivity|]); (split; [reflexivity|]); (split; [exact HI'|]).
    + right; left. destruct (Z_le_gt_dec (lenz a) 250) as [Hle|Hgt]; [specialize (Hb2 eq_refl Hle); discriminate Hb2 | lia].
    + right; right. discriminate.
  - destruct L as [|x r]; cbn [negb andb].
    + rewrite send_i_hp. destruct (send_i now c a None) as [c1 o1] eqn:E1. cbn [fst snd]. exists c1, q, true, o1. split; [reflexivity|].
      split; [|discriminate]. intros _. rewrite hp_set. split; [reflexivity|]. split; [reflexivity | exact HI].
    + destruct (hp_enqueue_spec q (x :: r) a HI) as (b & q' & E & HI' & Hb1 & Hb2). rewrite E. exists c, q', b, []. split; [reflexivity|].
      split; intros ->.
      * rewrite hp_set. split; [reflexivity|]. split; [reflexivity | exact HI'].
      * split; [reflexivity|]. split; [reflexivity|]. split; [exact HI'|]. right; right. discriminate.
Qed.

(* ---- the drain loop *)
Theorem send_hp_ring : forall fuel g now c q L, HPInv q L ->
  exists c' q' go o, send_hp_r fuel g now c q = Ok (c', q', go, o) /\
    let '(cm, gm, om) := send_hp fuel g now (c <| hp := L |>) in
    c' <| hp := hp cm |> = cm /\ go = gm /\ o = om /\ HPInv q' (hp cm).
Proof.
  induction fuel as [|f IH]; intros g now c q L HI; cbn [send_hp_r send_hp].
  - exists c, q, false, []. split; [reflexivity|]. rewrite hp_set. split; [reflexivity|]. split; [reflexivity|]. split; [reflexivity | exact HI].
  - rewrite (avail_iff q L HI), hp_set, kfull_hp. destruct L as [|a r].
    + exists c, q, true, []. split; [reflexivity|]. rewrite hp_set. split; [reflexivity|]. split; [reflexivity|]. split; [reflexivity | exact HI].
    + destruct (kfull (c_k g) c).
      * exists c, q, false, []. split; [reflexivity|]. rewrite hp_set. split; [reflexivity|]. split; [reflexivity|]. split; [reflexivity | exact HI].
      * pose proof (hp_next_spec q (a :: r) HI) as (q1 & E & HI1). rewrite E.
        rewrite set_hp_twice, send_i_hp. destruct (send_i now c a None) as [c1 o1] eqn:E1. cbn [fst snd].
        assert (Hr : running (c1 <| hp := r |>) = running c1) by (destruct c1; reflexivity). rewrite Hr.
        destruct (negb (running c1)).
        -- exists c1, q1, false, o1. split; [reflexivity|]. rewrite hp_set. split; [reflexivity|]. split; [reflexivity|]. split; [reflexivity | exact HI1].
        -- destruct (IH g now c1 q1 r HI1) as (c2 & q2 & b & o2 & E2 & H2). rewrite E2.
           destruct (send_hp f g now (c1 <| hp := r |>)) as [[cm gm] om]. destruct H2 as (A & B & C & D).
           exists c2, q2, b, (o1 ++ o2). split; [reflexivity|]. subst b o2. split; [exact A|]. split; [reflexivity|]. split; [reflexivity | exact D].
Qed.

(* ---- sendWaitingASDUs *)
Theorem send_waiting_ring g now s c q L : HPInv q L ->
  exists s' c' q' o, send_waiting_r g now s c q = Ok (s', c', q', o) /\
    let '(sm, cm, om) := send_waiting g now s (c <| hp := L |>) in
    s' = sm /\ c' <| hp := hp cm |> = cm /\ o = om /\ HPInv q' (hp cm).
Proof.
  intros HI. unfold send_waiting_r, send_waiting. rewrite hp_set.
  assert (Hf : S (Z.to_nat (hcnt q)) = S (length L)) by (destruct HI as (Hc & _); rewrite Hc, Nat2Z.id; reflexivity). rewrite Hf.
  destruct (send_hp_ring (S (length L)) g now c q L HI) as (c1 & q1 & go & o1 & E & H). rewrite E.
  destruct (send_hp (S (length L)) g now (c <| hp := L |>)) as [[cm gm] om]. destruct H as (A & B & C & D). subst go o1.
  destruct gm.
  - assert (Hk : kfull (c_k g) cm = kfull (c_k g) c1) by (rewrite <- A; apply kfull_hp). rewrite Hk.
    destruct (kfull (c_k g) c1).
    + exists s, c1, q1, om. split; [reflexivity|]. split; [reflexivity|]. split; [exact A|]. split; [reflexivity | exact D].
    + destruct (Server.mq_next_waiting (mq s)) as [[e m']|].
      * rewrite <- A, send_i_hp. destruct (send_i now c1 (q_asdu e) (Some (q_id e))) as [c2 o2]. cbn [fst snd].
        exists (s <| mq := m' |>), c2, q1, (om ++ o2). split; [reflexivity|]. rewrite hp_set. split; [reflexivity|]. split; [reflexivity|]. split; [reflexivity | exact D].
      * exists s, c1, q1, om. split; [reflexivity|]. split; [reflexivity|]. split; [exact A|]. split; [reflexivity | exact D].
  - exists s, c1, q1, om. split; [reflexivity|]. split; [reflexivity|]. split; [exact A|]. split; [reflexivity | exact D].
Qed.

(* ---- what C13 says, on the ring: a response is written now or parked at the tail, or the call reports failure and nothing
   changed; draining writes a prefix in order; events only when nothing stays parked *)
Corollary response_order_ring g now c q a L : HPInv q L -> st c = STARTED -> wmode c = 0 ->
  exists c' q' r o, send_asdu_internal_r g now c q a = Ok (c', q', r, o) /\
    ((r = true /\ exists L', HPInv q' L' /\ itx o ++ L' = L ++ [a]) \/
     (r = false /\ c' = c /\ o = [] /\ HPInv q' L)).
Proof.
  intros HI Hs Hw. destruct (internal_ring g now c q a L HI) as (c' & q' & r & o & E & H). exists c', q', r, o. split; [exact E|].
  assert (Hs' : st (c <| hp := L |>) = STARTED) by (rewrite st_set; exact Hs).
  assert (Hw' : wmode (c <| hp := L |>) = 0) by (destruct c; exact Hw).
  pose proof (internal_fifo g now (c <| hp := L |>) a Hs' Hw') as F.
  destruct (send_asdu_internal g now (c <| hp := L |>) a) as [[cm rm] om]. destruct H as (H1 & H2). destruct F as (_ & F & _).
  destruct r.
  - left. split; [reflexivity|]. destruct (H1 eq_refl) as (_ & -> & HI'). exists (hp cm). split; [exact HI'|]. rewrite hp_set in F. exact F.
  - right. destruct (H2 eq_refl) as (A & B & C & _). split; [reflexivity|]. split; [exact A|]. split; [exact B | exact C].
Qed.

Corollary drain_order_ring fuel g now c q L : HPInv q L -> wmode c = 0 ->
  exists c' q' go o L', send_hp_r fuel g now c q = Ok (c', q', go, o) /\ HPInv q' L' /\ itx o ++ L' = L /\ (go = true -> L' = []).
Proof.
  intros HI Hw. destruct (send_hp_ring fuel g now c q L HI) as (c' & q' & go & o & E & H).
  assert (Hw' : wmode (c <| hp := L |>) = 0) by (destruct c; exact Hw).
  pose proof (send_hp_fifo fuel g now (c <| hp := L |>) Hw') as F.
  destruct (send_hp fuel g now (c <| hp := L |>)) as [[cm gm] om]. destruct H as (_ & -> & -> & HI'). destruct F as (F1 & F2 & _).
  exists c', q', gm, om, (hp cm). rewrite hp_set in F1. split; [exact E|]. split; [exact HI'|]. split; [exact F1 | exact F2].
Qed.

Corollary responses_before_events_ring g now s c q L : HPInv q L -> wmode c = 0 ->
  exists s' c' q' o L' sent ev, send_waiting_r g now s c q = Ok (s', c', q', o) /\ HPInv q' L' /\
    itx o = sent ++ ev /\ sent ++ L' = L /\
    (ev = [] \/ (L' = [] /\ exists e m', Server.mq_next_waiting (mq s) = Some (e, m') /\ ev = [q_asdu e] /\ mq s' = m')).
Proof.
  intros HI Hw. destruct (send_waiting_ring g now s c q L HI) as (s' & c' & q' & o & E & H).
  assert (Hw' : wmode (c <| hp := L |>) = 0) by (destruct c; exact Hw).
  pose proof (send_waiting_order g now s (c <| hp := L |>) Hw') as F.
  destruct (send_waiting g now s (c <| hp := L |>)) as [[sm cm] om]. destruct H as (-> & _ & -> & HI').
  destruct F as (sent & ev & F1 & F2 & F3). rewrite hp_set in F2.
  exists sm, c', q', om, (hp cm), sent, ev. split; [exact E|]. split; [exact HI'|]. split; [exact F1|]. split; [exact F2 | exact F3].
Qed.

(* non-vacuity: a ring for two worst-case entries, window of 1 already full: three responses; the first two are parked, the third
   is refused (the call reports failure); after the acknowledgement the drain writes the two parked ones in order *)
Definition exr_g : cfg := {| c_k := 3; c_w := 8; c_t1 := 15; c_t2 := 10; c_t3 := 20; c_interrog := true; c_hret := true; c_burst := 0;
                             c_bsize := 0; c_term := false; c_reqret := true |}.
Definition exr_k : kent := {| k_ack := 0; k_time := 0; k_entry := None |}.
Definition exr_c : conn := new_conn exr_g 0 1 <| st := STARTED |> <| kbuf := [exr_k; exr_k; exr_k] |>.
Definition exr_a (n : Z) : list Z := repeat n 250.
Definition exr_run : option (list bool * list (list Z) * bool) :=
  match send_asdu_internal_r exr_g 0 exr_c (hp_new 2) (exr_a 1) with
  | Ok (c1, q1, r1, _) =>
    match send_asdu_internal_r exr_g 0 c1 q1 (exr_a 2) with
    | Ok (c2, q2, r2, _) =>
      match send_asdu_internal_r exr_g 0 c2 q2 (exr_a 3) with
      | Ok (c3, q3, r3, _) =>
        match send_hp_r 5 exr_g 0 (c3 <| kbuf := [] |>) q3 with
        | Ok (c4, q4, go, o) => Some ([r1; r2; r3], itx o, go)
        | Fault _ => None
        end
      | Fault _ => None
      end
    | Fault _ => None
    end
  | Fault _ => None
  end.
Example sched_ring_example : exr_run = Some ([true; true; false], [exr_a 1; exr_a 2], true) /\ HPInv (hp_new 2) [] /\ wmode exr_c = 0.
Proof. split; [vm_compute; reflexivity|]. split; [apply HPInv_new; lia | reflexivity]. Qed.
