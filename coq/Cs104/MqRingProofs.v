(* C06 / C13 / C10: the byte-offset ring of MessageQueue (mq_* in MsgQueue.v, a literal transcription of cs104_slave.c)
   refines, along EVERY sequence of operations, a FIFO log in which the only loss is displacement of the oldest
   entries; no header is ever read where no live entry starts (outcome Fault) and live entries stay inside the arena.
   The abstract state is the layout itself: the list of (offset, entry) pairs of the live entries, oldest first. *)
From Coq Require Import ZArith List Bool Lia.
From L60870 Require Import Cs104.MsgQueue.
Import ListNotations.
Local Open Scope Z_scope.

Ltac splits := repeat match goal with |- _ /\ _ => split end.
Ltac rs := cbn [qsize cnt first last lib nid cells setq fst snd andb orb negb e_id e_st e_sz e_asdu].

Definition lay_t := list (Z * ent).
Definition esz (e : ent) : Z := HDR + e_sz e.
Definition dummy : Z * ent := (0, {| e_id := 0; e_st := 0; e_sz := 0; e_asdu := [] |}).
Definition lastoff (l : lay_t) : Z := fst (List.last l dummy).

Fixpoint contig (o : Z) (l : lay_t) : Prop :=
  match l with [] => True | (o1, e) :: r => o1 = o /\ contig (o + esz e) r end.
Fixpoint endof (o : Z) (l : lay_t) : Z := match l with [] => o | (_, e) :: r => endof (o + esz e) r end.
Definition stored (cs : lay_t) (l : lay_t) : Prop := Forall (fun p => find cs (fst p) = Some (snd p)) l.
Definition sane (l : lay_t) : Prop := Forall (fun p => 0 <= e_sz (snd p) <= 250) l.
Fixpoint ids_from (k : Z) (l : lay_t) : Prop :=
  match l with [] => True | p :: r => e_id (snd p) = k /\ ids_from (k + 1) r end.

Definition Lin (q : mqs) (l : lay_t) : Prop :=
  0 <= first q /\ contig (first q) l /\ last q = lastoff l /\ lib q = last q /\ endof (first q) l <= qsize q.
Definition Wrp (q : mqs) (l : lay_t) : Prop :=
  exists A B, l = A ++ B /\ A <> [] /\ B <> [] /\
    contig (first q) A /\ lib q = lastoff A /\ endof (first q) A <= qsize q /\
    contig 0 B /\ last q = lastoff B /\ endof 0 B <= first q.
Definition MQInv (q : mqs) (l : lay_t) : Prop :=
  cnt q = Z.of_nat (length l) /\ 272 <= qsize q /\ sane l /\ stored (cells q) l /\
  ids_from (nid q - cnt q) l /\ 0 <= nid q - cnt q /\
  (l = [] \/ Lin q l \/ Wrp q l).

(* ------------------------------------------------------------------ small facts *)
Lemma gtb_false x y : x <= y -> (x >? y) = false.
Proof. intros H. rewrite Z.gtb_ltb. apply Z.ltb_ge. exact H. Qed.
Lemma gtb_false_inv x y : (x >? y) = false -> x <= y.
Proof. rewrite Z.gtb_ltb. apply Z.ltb_ge. Qed.
Lemma gtb_true x y : y < x -> (x >? y) = true.
Proof. intros H. apply Z.gtb_lt. exact H. Qed.
Lemma gtb_true_inv x y : (x >? y) = true -> y < x.
Proof. apply Z.gtb_lt. Qed.

Lemma esz_ge e : 0 <= e_sz e -> 16 <= esz e. Proof. unfold esz, HDR. lia. Qed.

Lemma sane_app a b : sane (a ++ b) <-> sane a /\ sane b. Proof. apply Forall_app. Qed.
Lemma stored_app cs a b : stored cs (a ++ b) <-> stored cs a /\ stored cs b. Proof. apply Forall_app. Qed.

Lemma endof_app : forall l1 l2 o, endof o (l1 ++ l2) = endof (endof o l1) l2.
Proof. induction l1 as [|[o1 e] r IH]; intros l2 o; cbn [endof app]; [reflexivity | apply IH]. Qed.

Lemma contig_app : forall l1 l2 o, contig o (l1 ++ l2) <-> contig o l1 /\ contig (endof o l1) l2.
Proof. induction l1 as [|[o1 e] r IH]; intros l2 o; cbn [contig endof app]; [tauto|]. rewrite IH. tauto. Qed.

Lemma endof_ge : forall l o, sane l -> o + 16 * Z.of_nat (length l) <= endof o l.
Proof.
  induction l as [|[o1 e] r IH]; intros o H; cbn [endof length]; [lia|].
  inversion H as [|? ? H1 H2]; subst. cbn [snd] in H1. pose proof (IH (o + esz e) H2). pose proof (esz_ge e ltac:(lia)). lia.
Qed.

Lemma lastoff_snoc l o e : lastoff (l ++ [(o, e)]) = o.
Proof. unfold lastoff. rewrite last_last. reflexivity. Qed.

Lemma contig_snoc l o o1 e : contig o (l ++ [(o1, e)]) <-> contig o l /\ o1 = endof o l.
Proof. rewrite contig_app. cbn [contig]. tauto. Qed.

Lemma endof_snoc l o o1 e : endof o (l ++ [(o1, e)]) = endof o l + esz e.
Proof. rewrite endof_app. reflexivity. Qed.

(* offsets inside a contiguous run *)
Lemma contig_bounds : forall l o p, sane l -> contig o l -> In p l -> o <= fst p /\ fst p + esz (snd p) <= endof o l.
Proof.
  induction l as [|[o1 e] r IH]; intros o p Hs Hc Hin; [destruct Hin|].
  inversion Hs as [|? ? H1 H2]; subst. cbn [snd] in H1. cbn [contig] in Hc. destruct Hc as [-> Hc]. cbn [endof].
  pose proof (esz_ge e ltac:(lia)). pose proof (endof_ge r (o + esz e) H2).
  destruct Hin as [<- | Hin]; cbn [fst snd]; [lia|]. destruct (IH _ _ H2 Hc Hin). lia.
Qed.

(* every element but the last lies strictly below the last offset *)
Lemma contig_before_last l o o1 e p : sane (l ++ [(o1, e)]) -> contig o (l ++ [(o1, e)]) -> In p l -> fst p < o1.
Proof.
  intros Hs Hc Hin. apply sane_app in Hs. destruct Hs as [Hs1 Hs2]. apply contig_snoc in Hc. destruct Hc as [Hc ->].
  destruct (contig_bounds l o p Hs1 Hc Hin) as [_ H]. inversion Hs1; subst; [destruct Hin|].
  assert (0 <= e_sz (snd p)). { pose proof (proj1 (Forall_forall _ _) Hs1 p Hin). cbn in *. lia. }
  pose proof (esz_ge (snd p) ltac:(lia)). lia.
Qed.

(* ------------------------------------------------------------------ the cell map *)
Lemma find_write_same cs o e : find (write cs o e) o = Some e.
Proof. unfold write. cbn [find]. rewrite Z.eqb_refl. reflexivity. Qed.

Lemma find_filter_keep (P : Z * ent -> bool) : forall cs o e, find cs o = Some e -> P (o, e) = true -> find (filter P cs) o = Some e.
Proof.
  induction cs as [|[o1 e1] r IH]; intros o e H HP; [discriminate|]. cbn [find] in H. cbn [filter].
  destruct (o1 =? o) eqn:E.
  - apply Z.eqb_eq in E. subst o1. inversion H; subst e1. rewrite HP. cbn [find]. rewrite Z.eqb_refl. reflexivity.
  - destruct (P (o1, e1)); [cbn [find]; rewrite E|]; apply IH; assumption.
Qed.

Lemma find_write_other cs o e o' e' : find cs o' = Some e' -> 0 <= e_sz e -> 0 <= e_sz e' ->
  o' + esz e' <= o \/ o + esz e <= o' -> find (write cs o e) o' = Some e'.
Proof.
  intros H H1 H2 D. unfold write. cbn [find].
  pose proof (esz_ge e H1). pose proof (esz_ge e' H2).
  assert (E : o =? o' = false) by (apply Z.eqb_neq; lia). rewrite E.
  apply find_filter_keep; [exact H|]. cbn [fst snd]. unfold overlaps. fold (esz e). fold (esz e').
  apply negb_true_iff. apply andb_false_iff. destruct D; [left | right]; apply Z.ltb_ge; lia.
Qed.

Lemma stored_write cs l o0 o e : sane l -> contig o0 l -> stored cs l -> 0 <= e_sz e ->
  endof o0 l <= o \/ o + esz e <= o0 -> stored (write cs o e) l.
Proof.
  intros Hs Hc Hst He D. apply Forall_forall. intros p Hin.
  pose proof (proj1 (Forall_forall _ _) Hst p Hin) as Hf. pose proof (proj1 (Forall_forall _ _) Hs p Hin) as Hp.
  destruct (contig_bounds l o0 p Hs Hc Hin) as [B1 B2]. cbn beta in Hf, Hp.
  apply find_write_other; try assumption; lia.
Qed.

Definition upd (st : Z) (e : ent) : ent := {| e_id := e_id e; e_st := st; e_sz := e_sz e; e_asdu := e_asdu e |}.

Lemma find_set_state : forall cs o st o',
  find (set_state cs o st) o' = if o' =? o then option_map (upd st) (find cs o') else find cs o'.
Proof.
  induction cs as [|[o1 e1] r IH]; intros o st o'; cbn [set_state find].
  - destruct (o' =? o); reflexivity.
  - destruct (o1 =? o) eqn:E1.
    + apply Z.eqb_eq in E1. subst o1. cbn [find]. destruct (o =? o') eqn:E2.
      * apply Z.eqb_eq in E2. subst o'. rewrite Z.eqb_refl. reflexivity.
      * rewrite Z.eqb_sym, E2. reflexivity.
    + cbn [find]. destruct (o1 =? o') eqn:E2.
      * apply Z.eqb_eq in E2. subst o'. rewrite E1. reflexivity.
      * apply IH.
Qed.

(* set the state of the entry stored at offset o, in the layout *)
Definition upd_at (o st : Z) (l : lay_t) : lay_t := map (fun p => if fst p =? o then (fst p, upd st (snd p)) else p) l.

Lemma stored_set_state cs l o st : stored cs l -> stored (set_state cs o st) (upd_at o st l).
Proof.
  intros H. unfold upd_at. apply Forall_forall. intros p Hin. apply in_map_iff in Hin. destruct Hin as (p0 & <- & Hin).
  pose proof (proj1 (Forall_forall _ _) H p0 Hin) as Hf. rewrite find_set_state.
  destruct (fst p0 =? o) eqn:E; cbn [fst snd]; rewrite E; [rewrite Hf; reflexivity | exact Hf].
Qed.

Lemma upd_at_length o st l : length (upd_at o st l) = length l. Proof. apply map_length. Qed.
Lemma upd_at_app o st a b : upd_at o st (a ++ b) = upd_at o st a ++ upd_at o st b. Proof. apply map_app. Qed.
Lemma upd_at_nil_iff o st l : upd_at o st l = [] <-> l = [].
Proof. destruct l; cbn; split; intros; congruence. Qed.

Lemma contig_upd_at : forall l o0 o st, contig o0 l -> contig o0 (upd_at o st l).
Proof.
  induction l as [|[o1 e] r IH]; intros o0 o st H; cbn [upd_at map contig]; [exact I|].
  cbn [contig] in H. destruct H as [-> H]. cbn [fst snd]. destruct (o0 =? o); cbn [contig esz upd e_sz]; (split; [reflexivity|]); apply IH; exact H.
Qed.
Lemma endof_upd_at : forall l o0 o st, endof o0 (upd_at o st l) = endof o0 l.
Proof.
  induction l as [|[o1 e] r IH]; intros o0 o st; cbn [upd_at map endof]; [reflexivity|].
  cbn [fst snd]. destruct (o1 =? o); cbn [endof]; unfold esz; cbn [upd e_sz]; apply IH.
Qed.
Lemma sane_upd_at l o st : sane l -> sane (upd_at o st l).
Proof.
  intros H. apply Forall_forall. intros p Hin. apply in_map_iff in Hin. destruct Hin as (p0 & <- & Hin).
  pose proof (proj1 (Forall_forall _ _) H p0 Hin). destruct (fst p0 =? o); cbn [snd upd e_sz]; assumption.
Qed.
Lemma ids_upd_at : forall l k o st, ids_from k l -> ids_from k (upd_at o st l).
Proof.
  induction l as [|p r IH]; intros k o st H; cbn [upd_at map ids_from]; [exact I|].
  cbn [ids_from] in H. destruct H as [H1 H2]. split; [destruct (fst p =? o); cbn [snd upd e_id]; exact H1 | apply IH; exact H2].
Qed.
Lemma lastoff_upd_at l o st : lastoff (upd_at o st l) = lastoff l.
Proof.
  destruct l as [|p0 r0]; [reflexivity|]. destruct (@exists_last _ (p0 :: r0) ltac:(discriminate)) as (l' & p & E). rewrite E.
  unfold upd_at. rewrite map_app. cbn [map]. destruct p as [o1 e]. cbn [fst snd].
  destruct (o1 =? o); rewrite !lastoff_snoc; reflexivity.
Qed.

(* ------------------------------------------------------------------ walking the ring *)
Lemma stored_cons cs p l : stored cs (p :: l) <-> find cs (fst p) = Some (snd p) /\ stored cs l.
Proof. unfold stored. split; [intros H; inversion H; subst; split; assumption | intros [H1 H2]; constructor; assumption]. Qed.
Lemma sane_cons p l : sane (p :: l) <-> 0 <= e_sz (snd p) <= 250 /\ sane l.
Proof. unfold sane. split; [intros H; inversion H; subst; split; assumption | intros [H1 H2]; constructor; assumption]. Qed.

Lemma walk_stop : forall l' fuel q o acc p e,
  sane (l' ++ [(p, e)]) -> contig o (l' ++ [(p, e)]) -> stored (cells q) (l' ++ [(p, e)]) ->
  (length (l' ++ [(p, e)]) <= fuel)%nat -> last q = p -> (forall x, In x l' -> fst x <> lib q) ->
  walk fuel q o acc = Ok (acc ++ l' ++ [(p, e)]).
Proof.
  induction l' as [|[o1 e1] r IH]; intros fuel q o acc p e Hs Hc Hst Hf Hl Hlib.
  - cbn [app] in *. destruct fuel as [|f]; [cbn in Hf; lia|]. cbn [walk].
    apply stored_cons in Hst. destruct Hst as [Hfd _]. cbn [fst snd] in Hfd. cbn [contig] in Hc. destruct Hc as [-> _].
    rewrite Hfd. rewrite Hl, Z.eqb_refl. reflexivity.
  - cbn [app] in Hs, Hc, Hst, Hf. destruct fuel as [|f]; [cbn in Hf; lia|]. cbn [walk].
    pose proof Hs as Hs0. pose proof Hc as Hc0.
    apply sane_cons in Hs. destruct Hs as [Hs1 Hs2]. cbn [snd] in Hs1.
    apply stored_cons in Hst. destruct Hst as [Hfd Hst]. cbn [fst snd] in Hfd.
    cbn [contig] in Hc. destruct Hc as [-> Hc]. rewrite Hfd.
    assert (Hlt : o < p).
    { apply (contig_before_last ((o, e1) :: r) o p e (o, e1)); [exact Hs0 | exact Hc0 | left; reflexivity]. }
    assert (E1 : o =? last q = false) by (apply Z.eqb_neq; lia). rewrite E1.
    assert (E2 : o =? lib q = false). { apply Z.eqb_neq. apply (Hlib (o, e1)). left. reflexivity. } rewrite E2.
    replace (o + HDR + e_sz e1) with (o + esz e1) by (unfold esz; lia).
    rewrite (IH f q (o + esz e1) (acc ++ [(o, e1)]) p e Hs2 Hc Hst); [rewrite <- app_assoc; reflexivity | cbn [length] in Hf; lia | exact Hl |].
    intros x Hx. apply Hlib. right. exact Hx.
Qed.

Lemma walk_jump : forall l' fuel q o acc p e,
  sane (l' ++ [(p, e)]) -> contig o (l' ++ [(p, e)]) -> stored (cells q) (l' ++ [(p, e)]) ->
  (length (l' ++ [(p, e)]) <= fuel)%nat -> lib q = p -> (forall x, In x (l' ++ [(p, e)]) -> fst x <> last q) ->
  walk fuel q o acc = walk (fuel - length (l' ++ [(p, e)])) q 0 (acc ++ l' ++ [(p, e)]).
Proof.
  induction l' as [|[o1 e1] r IH]; intros fuel q o acc p e Hs Hc Hst Hf Hl Hlast.
  - cbn [app] in *. destruct fuel as [|f]; [cbn in Hf; lia|]. cbn [walk length].
    apply stored_cons in Hst. destruct Hst as [Hfd _]. cbn [fst snd] in Hfd. cbn [contig] in Hc. destruct Hc as [-> _].
    rewrite Hfd.
    assert (E1 : o =? last q = false). { apply Z.eqb_neq. apply (Hlast (o, e)). left. reflexivity. } rewrite E1.
    rewrite Hl, Z.eqb_refl. replace (S f - 1)%nat with f by lia. reflexivity.
  - cbn [app] in Hs, Hc, Hst, Hf, Hlast. destruct fuel as [|f]; [cbn in Hf; lia|]. cbn [walk].
    pose proof Hs as Hs0. pose proof Hc as Hc0.
    apply sane_cons in Hs. destruct Hs as [Hs1 Hs2]. cbn [snd] in Hs1.
    apply stored_cons in Hst. destruct Hst as [Hfd Hst]. cbn [fst snd] in Hfd.
    cbn [contig] in Hc. destruct Hc as [-> Hc]. rewrite Hfd.
    assert (Hlt : o < p).
    { apply (contig_before_last ((o, e1) :: r) o p e (o, e1)); [exact Hs0 | exact Hc0 | left; reflexivity]. }
    assert (E1 : o =? last q = false). { apply Z.eqb_neq. apply (Hlast (o, e1)). left. reflexivity. } rewrite E1.
    assert (E2 : o =? lib q = false) by (apply Z.eqb_neq; lia). rewrite E2.
    replace (o + HDR + e_sz e1) with (o + esz e1) by (unfold esz; lia).
    rewrite (IH f q (o + esz e1) (acc ++ [(o, e1)]) p e Hs2 Hc Hst); [| cbn [length] in Hf; lia | exact Hl | intros x Hx; apply Hlast; right; exact Hx].
    cbn [app length]. rewrite <- app_assoc. reflexivity.
Qed.

Lemma length_bound l o : sane l -> 16 * Z.of_nat (length l) <= endof o l - o.
Proof. intros H. pose proof (endof_ge l o H). lia. Qed.

Lemma fuel_ok q (l : lay_t) : 0 <= qsize q -> 16 * Z.of_nat (length l) <= qsize q -> (length l <= Z.to_nat (qsize q / HDR))%nat.
Proof.
  intros H0 H. unfold HDR. assert (Z.of_nat (length l) <= qsize q / 16) by (apply Z.div_le_lower_bound; lia). lia.
Qed.

Lemma snoc_cases {A} (l : list A) : l <> [] -> exists l' x, l = l' ++ [x].
Proof. intros H. destruct (exists_last H) as (l' & x & E). eauto. Qed.

(* the size of the live entries never exceeds the arena *)
Lemma inv_total q l : MQInv q l -> 16 * Z.of_nat (length l) <= qsize q.
Proof.
  intros (Hc & Hq & Hs & Hst & Hid & Hn & Hg). destruct Hg as [-> | [HL | HW]]; [cbn; lia| |].
  - destruct HL as (H0 & Hcg & _ & _ & He). pose proof (length_bound l (first q) Hs). lia.
  - destruct HW as (A & B & -> & _ & _ & HcA & _ & HeA & HcB & _ & HeB).
    apply sane_app in Hs. destruct Hs as [HsA HsB].
    pose proof (length_bound A (first q) HsA). pose proof (length_bound B 0 HsB). rewrite app_length. lia.
Qed.

Theorem mq_entries_spec q l : MQInv q l -> mq_entries q = Ok l.
Proof.
  intros H. pose proof (inv_total q l H) as Htot. destruct H as (Hc & Hq & Hs & Hst & Hid & Hn & Hg). unfold mq_entries.
  destruct Hg as [-> | [HL | HW]].
  - cbn [length] in Hc. rewrite Hc. reflexivity.
  - destruct HL as (H0 & Hcg & Hla & Hli & He).
    destruct l as [|x r]; [cbn [length] in Hc; rewrite Hc; reflexivity|].
    assert (E : cnt q =? 0 = false) by (apply Z.eqb_neq; cbn [length] in Hc; lia). rewrite E.
    destruct (snoc_cases (x :: r) ltac:(discriminate)) as (l' & [p e] & EL). rewrite EL in *.
    rewrite lastoff_snoc in Hla.
    rewrite (walk_stop l' (FUEL q) q (first q) [] p e Hs Hcg Hst); [reflexivity | | exact Hla |].
    + unfold FUEL. pose proof (fuel_ok q (l' ++ [(p, e)]) ltac:(lia) Htot). lia.
    + intros y Hy. rewrite Hli, Hla. pose proof (contig_before_last l' (first q) p e y Hs Hcg Hy). lia.
  - destruct HW as (A & B & -> & HA & HB & HcA & Hli & HeA & HcB & Hla & HeB).
    assert (E : cnt q =? 0 = false). { apply Z.eqb_neq. rewrite Hc, app_length. destruct A; [congruence | cbn [length]; lia]. } rewrite E.
    apply sane_app in Hs. destruct Hs as [HsA HsB]. apply stored_app in Hst. destruct Hst as [HstA HstB].
    destruct (snoc_cases A HA) as (A' & [pa ea] & EA). destruct (snoc_cases B HB) as (B' & [pb eb] & EB). rewrite EA, EB in *.
    rewrite lastoff_snoc in Hli, Hla.
    assert (Hfu : (length ((A' ++ [(pa, ea)]) ++ B' ++ [(pb, eb)]) <= Z.to_nat (qsize q / HDR))%nat) by (apply fuel_ok; lia).
    assert (Hlow : pb < first q).
    { apply contig_snoc in HcB. destruct HcB as [_ ->]. rewrite endof_snoc in HeB.
      apply sane_app in HsB. destruct HsB as [_ HsB]. apply sane_cons in HsB. destruct HsB as [Hb _]. cbn [snd] in Hb.
      pose proof (esz_ge eb ltac:(lia)). lia. }
    rewrite (walk_jump A' (FUEL q) q (first q) [] pa ea HsA HcA HstA); [| unfold FUEL; rewrite app_length in Hfu; lia | exact Hli |].
    + rewrite (walk_stop B' _ q 0 _ pb eb HsB HcB HstB); [reflexivity | | exact Hla |].
      * unfold FUEL. rewrite app_length in Hfu. lia.
      * intros y Hy. pose proof (contig_before_last B' 0 pb eb y HsB HcB Hy).
        assert (first q <= pa). { destruct (contig_bounds (A' ++ [(pa, ea)]) (first q) (pa, ea) HsA HcA) as [Hb1 _]; [apply in_or_app; right; left; reflexivity | exact Hb1]. }
        lia.
    + intros y Hy. destruct (contig_bounds _ _ y HsA HcA Hy) as [Hb1 _]. lia.
Qed.

(* ------------------------------------------------------------------ state changes of one entry *)
Definition with_cells (q : mqs) (cs : lay_t) : mqs :=
  {| qsize := qsize q; cnt := cnt q; first := first q; last := last q; lib := lib q; nid := nid q; cells := cs |}.

Lemma inv_upd_at q l o st : MQInv q l -> MQInv (with_cells q (set_state (cells q) o st)) (upd_at o st l).
Proof.
  intros (Hc & Hq & Hs & Hst & Hid & Hn & Hg). unfold MQInv, with_cells. rs.
  rewrite upd_at_length. splits; try assumption.
  - apply sane_upd_at; exact Hs.
  - apply stored_set_state; exact Hst.
  - apply ids_upd_at; exact Hid.
  - destruct Hg as [-> | [HL | HW]]; [left; reflexivity | right; left | right; right].
    + destruct HL as (H0 & Hcg & Hla & Hli & He). unfold Lin. rs.
      rewrite lastoff_upd_at, endof_upd_at. splits; try assumption. apply contig_upd_at; exact Hcg.
    + destruct HW as (A & B & -> & HA & HB & HcA & Hli & HeA & HcB & Hla & HeB).
      exists (upd_at o st A), (upd_at o st B). rs. rewrite !lastoff_upd_at, !endof_upd_at.
      splits; try assumption; try (apply contig_upd_at; assumption).
      * apply upd_at_app.
      * intros E. apply upd_at_nil_iff in E. contradiction.
      * intros E. apply upd_at_nil_iff in E. contradiction.
Qed.

Lemma first_waiting_in : forall l o e, first_waiting l = Some (o, e) -> In (o, e) l /\ e_st e = QWAIT.
Proof.
  induction l as [|[o1 e1] r IH]; intros o e H; [discriminate|]. cbn [first_waiting] in H.
  destruct (e_st e1 =? QWAIT) eqn:E.
  - inversion H; subst. split; [left; reflexivity | apply Z.eqb_eq; exact E].
  - destruct (IH _ _ H). split; [right|]; assumption.
Qed.

Theorem mq_next_spec q l : MQInv q l ->
  match first_waiting l with
  | None => mq_next q = Ok (None, q)
  | Some (o, e) => exists q', mq_next q = Ok (Some (o, e), q') /\ MQInv q' (upd_at o QSENT l) /\ In (o, e) l /\
                              nid q' = nid q /\ cnt q' = cnt q /\ qsize q' = qsize q
  end.
Proof.
  intros H. unfold mq_next. rewrite (mq_entries_spec q l H).
  destruct (first_waiting l) as [[o e]|] eqn:F; [|reflexivity].
  eexists. split; [reflexivity|]. split; [exact (inv_upd_at q l o QSENT H)|].
  split; [apply (first_waiting_in l o e F) | splits; reflexivity].
Qed.

Theorem mq_reads_ok q l : MQInv q l ->
  mq_has_unconfirmed q = Ok (existsb (fun p => e_st (snd p) =? QSENT) l) /\
  mq_available q = Ok (match first_waiting l with Some _ => true | None => false end).
Proof. intros H. unfold mq_has_unconfirmed, mq_available. rewrite (mq_entries_spec q l H). split; reflexivity. Qed.

(* MessageQueue_setWaitingForTransmissionWhenNotConfirmed: one set_state per SENT entry of the walk *)
Definition reset_lay (l1 l : lay_t) : lay_t :=
  fold_left (fun l p => if e_st (snd p) =? QSENT then upd_at (fst p) QWAIT l else l) l1 l.

Lemma reset_fold_inv : forall l1 q l, MQInv q l ->
  MQInv (with_cells q (fold_left (fun cs p => if e_st (snd p) =? QSENT then set_state cs (fst p) QWAIT else cs) l1 (cells q))) (reset_lay l1 l).
Proof.
  induction l1 as [|p r IH]; intros q l H; cbn [fold_left reset_lay].
  - destruct q; exact H.
  - destruct (e_st (snd p) =? QSENT).
    + pose proof (IH _ _ (inv_upd_at q l (fst p) QWAIT H)) as H2. unfold with_cells in *. cbn [cells qsize cnt first last lib nid] in H2. exact H2.
    + apply IH. exact H.
Qed.

Theorem mq_reset_waiting_spec q l : MQInv q l ->
  exists q', mq_reset_waiting q = Ok q' /\ MQInv q' (reset_lay l l) /\ nid q' = nid q /\ cnt q' = cnt q /\ qsize q' = qsize q.
Proof.
  intros H. unfold mq_reset_waiting. rewrite (mq_entries_spec q l H). eexists. split; [reflexivity|].
  split; [exact (reset_fold_inv l q l H) | splits; reflexivity].
Qed.

Lemma inv_release q l : MQInv q l -> 0 <= nid q -> MQInv (mq_release q) [].
Proof.
  intros (Hc & Hq & Hs & Hst & Hid & Hn & Hg) Hn0. unfold MQInv, mq_release. rs. cbn [length].
  splits; first [assumption | lia | reflexivity | (left; reflexivity) | constructor].
Qed.

(* ------------------------------------------------------------------ removing the head *)
Lemma ids_tail k p r : ids_from k (p :: r) -> ids_from (k + 1) r. Proof. cbn [ids_from]. tauto. Qed.

Lemma ids_in_range : forall l k p, ids_from k l -> In p l -> k <= e_id (snd p) < k + Z.of_nat (length l).
Proof.
  induction l as [|x r IH]; intros k p H Hin; [destruct Hin|]. cbn [ids_from] in H. destruct H as [H1 H2]. cbn [length].
  destruct Hin as [<- | Hin]; [lia|]. pose proof (IH _ _ H2 Hin). lia.
Qed.

Theorem remove_first_spec q p r : MQInv q (p :: r) ->
  fst p = first q /\ exists q', remove_first q = Ok q' /\ MQInv q' r /\ nid q' = nid q /\ cnt q' = cnt q - 1 /\ qsize q' = qsize q.
Proof.
  intros (Hc & Hq & Hs & Hst & Hid & Hn & Hg). destruct p as [o1 e1].
  pose proof Hs as Hs0. apply sane_cons in Hs. destruct Hs as [Hs1 Hs2]. cbn [snd] in Hs1.
  pose proof Hst as Hst0. apply stored_cons in Hst. destruct Hst as [Hfd Hst]. cbn [fst snd] in Hfd.
  cbn [length] in Hc. pose proof (ids_tail _ _ _ Hid) as Hid2. pose proof (esz_ge e1 ltac:(lia)) as He1.
  unfold remove_first. destruct Hg as [Hn0 | [HL | HW]]; [discriminate| |].
  - (* linear *)
    destruct HL as (H0 & Hcg & Hla & Hli & He). cbn [contig] in Hcg. destruct Hcg as [-> Hcg]. split; [reflexivity|].
    destruct r as [|p2 r2].
    + (* the only entry *)
      cbn in Hla. assert (E1 : first q =? lib q = true) by (apply Z.eqb_eq; lia). rewrite E1.
      assert (E2 : first q =? last q = true) by (apply Z.eqb_eq; lia). rewrite E2.
      eexists. split; [reflexivity|]. unfold MQInv. rs. cbn [length] in *.
      splits; first [assumption | lia | reflexivity | (left; reflexivity) | constructor].
    + destruct (snoc_cases (p2 :: r2) ltac:(discriminate)) as (l' & [pl el] & EL).
      assert (Hlast : last q = pl). { rewrite Hla. change ((first q, e1) :: p2 :: r2) with ([(first q, e1)] ++ (p2 :: r2)). rewrite EL, app_assoc. apply lastoff_snoc. }
      assert (Hlt : first q < pl).
      { apply (contig_before_last ((first q, e1) :: l') (first q) pl el (first q, e1)); [| | left; reflexivity].
        - change (sane ([(first q, e1)] ++ l' ++ [(pl, el)])). rewrite <- EL. exact Hs0.
        - change (contig (first q) ([(first q, e1)] ++ l' ++ [(pl, el)])). rewrite <- EL. cbn [app contig]. split; [reflexivity | exact Hcg]. }
      assert (E1 : first q =? lib q = false) by (apply Z.eqb_neq; lia). rewrite E1, Hfd.
      eexists. split; [reflexivity|]. unfold MQInv. rs. cbn [length] in *.
      splits; first [assumption | lia | (replace (nid q - (cnt q - 1)) with (nid q - cnt q + 1) by lia; exact Hid2) | (apply sane_app; split; assumption) | (apply stored_app; split; assumption) | idtac].
      right; left. unfold Lin. rs. replace (first q + HDR + e_sz e1) with (first q + esz e1) by (unfold esz; lia).
      cbn [endof] in He. splits; try assumption; try lia.
      all: try (rewrite Hlast, EL; symmetry; apply lastoff_snoc).
  - (* wrapped *)
    destruct HW as (A & B & EAB & HA & HB & HcA & Hli & HeA & HcB & Hla & HeB).
    destruct A as [|a1 A']; [congruence|]. cbn [app] in EAB. inversion EAB; subst a1 r. clear EAB.
    cbn [contig] in HcA. destruct HcA as [-> HcA]. split; [reflexivity|].
    apply sane_app in Hs2. destruct Hs2 as [HsA' HsB]. apply stored_app in Hst. destruct Hst as [HstA' HstB].
    destruct (snoc_cases B HB) as (B' & [pb eb] & EB).
    assert (Hlow : last q < first q).
    { rewrite Hla, EB, lastoff_snoc. rewrite EB in HcB, HeB, HsB. apply contig_snoc in HcB. destruct HcB as [_ ->]. rewrite endof_snoc in HeB.
      apply sane_app in HsB. destruct HsB as [_ HsB]. apply sane_cons in HsB. destruct HsB as [Hb _]. cbn [snd] in Hb.
      pose proof (esz_ge eb ltac:(lia)). lia. }
    destruct A' as [|a2 A2].
    + (* the upper run is exhausted *)
      cbn in Hli. assert (E1 : first q =? lib q = true) by (apply Z.eqb_eq; lia). rewrite E1.
      assert (E2 : first q =? last q = false) by (apply Z.eqb_neq; lia). rewrite E2.
      eexists. split; [reflexivity|]. unfold MQInv. rs. cbn [app length] in *.
      splits; first [assumption | lia | (replace (nid q - (cnt q - 1)) with (nid q - cnt q + 1) by lia; exact Hid2) | (apply sane_app; split; assumption) | (apply stored_app; split; assumption) | idtac].
      right; left. unfold Lin. rs. cbn [endof] in HeA. splits; try assumption; try lia.
    + destruct (snoc_cases (a2 :: A2) ltac:(discriminate)) as (l' & [pl el] & EL).
      assert (Hlib : lib q = pl). { rewrite Hli. change ((first q, e1) :: a2 :: A2) with ([(first q, e1)] ++ (a2 :: A2)). rewrite EL, app_assoc. apply lastoff_snoc. }
      assert (Hlt : first q < pl).
      { apply (contig_before_last ((first q, e1) :: l') (first q) pl el (first q, e1)); [| | left; reflexivity].
        - change (sane ([(first q, e1)] ++ l' ++ [(pl, el)])). rewrite <- EL. apply sane_cons. split; [exact Hs1 | exact HsA'].
        - change (contig (first q) ([(first q, e1)] ++ l' ++ [(pl, el)])). rewrite <- EL. cbn [app contig]. split; [reflexivity | exact HcA]. }
      assert (E1 : first q =? lib q = false) by (apply Z.eqb_neq; lia). rewrite E1, Hfd.
      eexists. split; [reflexivity|]. unfold MQInv. rs. cbn [app length] in *.
      splits; first [assumption | lia | (replace (nid q - (cnt q - 1)) with (nid q - cnt q + 1) by lia; exact Hid2)
                    | (apply (proj2 (sane_app (a2 :: A2) B)); split; assumption) | (apply (proj2 (stored_app (cells q) (a2 :: A2) B)); split; assumption) | idtac].
      right; right. exists (a2 :: A2), B. rs. replace (first q + HDR + e_sz e1) with (first q + esz e1) by (unfold esz; lia).
      cbn [endof] in HeA. splits; try assumption; try lia; try discriminate; try reflexivity.
      all: try (rewrite Hlib, EL; symmetry; apply lastoff_snoc).
Qed.

(* ------------------------------------------------------------------ MessageQueue_markAsduAsConfirmed *)
Definition TWO64 := 18446744073709551616.

(* the pair (entry pointer, entry id) kept in the k-buffer: either the id has left the queue, or the entry is still where
   it was when getNextWaitingASDU handed it out *)
Definition valid_pair (q : mqs) (l : lay_t) (o id : Z) : Prop :=
  0 <= id /\ (id < nid q - cnt q \/ exists e, In (o, e) l /\ e_id e = id).

Definition confirm_lay (q : mqs) (l : lay_t) (o id : Z) : lay_t :=
  if id <? nid q - cnt q then l
  else if o =? first q then tl (upd_at o QCONF l) else upd_at o QCONF l.

Theorem mq_confirm_spec q l o id : MQInv q l -> nid q < TWO64 -> valid_pair q l o id ->
  exists q', mq_confirm q o id = Ok q' /\ MQInv q' (confirm_lay q l o id) /\ nid q' = nid q /\ qsize q' = qsize q.
Proof.
  intros H Hn64 (Hid0 & Hv). pose proof H as (Hc & Hq & Hs & Hst & Hid & Hn & Hg).
  unfold mq_confirm, confirm_lay. fold TWO64.
  destruct (0 <? cnt q) eqn:Epos.
  2:{ apply Z.ltb_ge in Epos. assert (l = []) by (destruct l; [reflexivity | cbn [length] in Hc; lia]). subst l.
      exists q. destruct (id <? nid q - cnt q); [|destruct (o =? first q)]; cbn [upd_at map tl]; splits; try reflexivity; exact H. }
  apply Z.ltb_lt in Epos.
  destruct Hv as [Hstale | (e & Hin & He)].
  - assert (E : id <? nid q - cnt q = true) by (apply Z.ltb_lt; lia). rewrite E.
    assert (Hd : (nid q - 1 - id) mod TWO64 = nid q - 1 - id) by (apply Z.mod_small; lia). rewrite Hd.
    assert (E2 : nid q - 1 - id <? cnt q = false) by (apply Z.ltb_ge; lia). rewrite E2.
    exists q. splits; try reflexivity; exact H.
  - pose proof (ids_in_range l _ (o, e) Hid Hin) as Hr. cbn [snd] in Hr. rewrite He in Hr.
    assert (E : id <? nid q - cnt q = false) by (apply Z.ltb_ge; lia). rewrite E.
    assert (Hd : (nid q - 1 - id) mod TWO64 = nid q - 1 - id) by (apply Z.mod_small; lia). rewrite Hd.
    assert (E2 : nid q - 1 - id <? cnt q = true) by (apply Z.ltb_lt; lia). rewrite E2.
    pose proof (proj1 (Forall_forall _ _) Hst (o, e) Hin) as Hfd. cbn [fst snd] in Hfd. rewrite Hfd.
    assert (E3 : e_id e =? id = true) by (apply Z.eqb_eq; exact He). rewrite E3.
    pose proof (inv_upd_at q l o QCONF H) as H1. unfold with_cells in H1. rs.
    destruct (o =? first q) eqn:Ef.
    + destruct (upd_at o QCONF l) as [|p r] eqn:EU.
      { apply upd_at_nil_iff in EU. subst l. destruct Hin. }
      destruct (remove_first_spec _ p r H1) as (_ & q' & Er & Hi & Hn' & _ & Hqs). rs.
      exists q'. cbn [tl]. splits; assumption.
    + eexists. splits; try reflexivity. exact H1.
Qed.

(* ------------------------------------------------------------------ the two loops of enqueue *)
Lemma count_to_end_spec : forall l' fuel q o p e,
  sane (l' ++ [(p, e)]) -> contig o (l' ++ [(p, e)]) -> stored (cells q) (l' ++ [(p, e)]) ->
  (length (l' ++ [(p, e)]) <= fuel)%nat -> lib q = p ->
  count_to_end fuel q o = Ok (Z.of_nat (length (l' ++ [(p, e)]))).
Proof.
  induction l' as [|[o1 e1] r IH]; intros fuel q o p e Hs Hc Hst Hf Hl.
  - cbn [app] in *. destruct fuel as [|f]; [cbn in Hf; lia|]. cbn [count_to_end].
    apply stored_cons in Hst. destruct Hst as [Hfd _]. cbn [fst snd] in Hfd. cbn [contig] in Hc. destruct Hc as [-> _].
    rewrite Hfd, Hl, Z.eqb_refl. reflexivity.
  - cbn [app] in Hs, Hc, Hst, Hf. destruct fuel as [|f]; [cbn in Hf; lia|]. cbn [count_to_end].
    pose proof Hs as Hs0. pose proof Hc as Hc0.
    apply sane_cons in Hs. destruct Hs as [Hs1 Hs2]. apply stored_cons in Hst. destruct Hst as [Hfd Hst]. cbn [fst snd] in Hfd.
    cbn [contig] in Hc. destruct Hc as [-> Hc]. rewrite Hfd.
    assert (Hlt : o < p).
    { apply (contig_before_last ((o, e1) :: r) o p e (o, e1)); [exact Hs0 | exact Hc0 | left; reflexivity]. }
    assert (E2 : o =? lib q = false) by (apply Z.eqb_neq; lia). rewrite E2.
    replace (o + HDR + e_sz e1) with (o + esz e1) by (unfold esz; lia).
    rewrite (IH f q (o + esz e1) p e Hs2 Hc Hst); [| cbn [length] in Hf; lia | exact Hl].
    f_equal. cbn [app length]. lia.
Qed.

Lemma lastoff_cons2 (x y : Z * ent) r : lastoff (x :: y :: r) = lastoff (y :: r). Proof. reflexivity. Qed.

(* make_room drops d entries from the front of the upper run U (which starts at first q and ends at lib q) *)
Lemma make_room_spec : forall U fuel q next esize,
  U <> [] -> sane U -> contig (first q) U -> stored (cells q) U -> lib q = lastoff U ->
  Z.of_nat (length U) <= cnt q -> (length U < fuel)%nat ->
  exists q' d, make_room fuel q next esize = Ok q' /\ (d <= length U)%nat /\
    cnt q' = cnt q - Z.of_nat d /\ qsize q' = qsize q /\ last q' = last q /\ nid q' = nid q /\ cells q' = cells q /\
    ((d < length U)%nat /\ contig (first q') (skipn d U) /\ lib q' = lib q /\ next + esize <= first q' /\
       endof (first q') (skipn d U) = endof (first q) U /\ lastoff (skipn d U) = lastoff U /\ first q <= first q'
     \/ d = length U /\ first q' = 0 /\ lib q' = next).
Proof.
  induction U as [|[o1 e1] r IH]; intros fuel q next esize Hne Hs Hc Hst Hl Hcnt Hf; [congruence|].
  destruct fuel as [|f]; [lia|]. cbn [make_room].
  cbn [contig] in Hc. destruct Hc as [Ho1 Hc]. subst o1.
  destruct (next + esize >? first q) eqn:G.
  2:{ (* already enough room *) apply gtb_false_inv in G. cbn [andb].
      exists q, 0%nat. cbn [skipn length]. splits; try reflexivity; try lia.
      left. splits; try reflexivity; try lia. cbn [contig]. split; [reflexivity | exact Hc]. }
  assert (P : 0 <? cnt q = true) by (apply Z.ltb_lt; cbn [length] in Hcnt; lia). rewrite P. cbn [andb]. rs.
  apply sane_cons in Hs. destruct Hs as [Hs1 Hs2]. cbn [snd] in Hs1.
  apply stored_cons in Hst. destruct Hst as [Hfd Hst]. cbn [fst snd] in Hfd.
  destruct r as [|p2 r2].
  - (* the last entry of the run goes: continue at the buffer start *)
    cbn in Hl. assert (E : first q =? lib q = true) by (apply Z.eqb_eq; lia). rewrite E.
    eexists. exists 1%nat. split; [reflexivity|]. rs. cbn [length]. splits; try reflexivity; try lia.
    all: try (right; splits; reflexivity).
  - rewrite lastoff_cons2 in Hl.
    assert (Hlt : first q < lib q).
    { destruct (snoc_cases (p2 :: r2) ltac:(discriminate)) as (l' & [pl el] & EL).
      rewrite Hl, EL, lastoff_snoc.
      apply (contig_before_last ((first q, e1) :: l') (first q) pl el (first q, e1)); [| | left; reflexivity].
      - change (sane ([(first q, e1)] ++ l' ++ [(pl, el)])). rewrite <- EL. apply sane_cons. split; assumption.
      - change (contig (first q) ([(first q, e1)] ++ l' ++ [(pl, el)])). rewrite <- EL. cbn [app contig]. split; [reflexivity | exact Hc]. }
    assert (E : first q =? lib q = false) by (apply Z.eqb_neq; lia). rewrite E, Hfd.
    replace (first q + HDR + e_sz e1) with (first q + esz e1) by (unfold esz; lia).
    set (q2 := setq (setq q (cnt q - 1) (first q) (last q) (lib q)) (cnt q - 1) (first q + esz e1) (last q) (lib q)).
    destruct (IH f q2 next esize ltac:(discriminate) Hs2) as (q' & d & Em & Hd & Hcn & Hqs & Hla & Hni & Hce & Hres).
    + unfold q2. rs. exact Hc.
    + unfold q2. rs. exact Hst.
    + unfold q2. rs. exact Hl.
    + unfold q2. rs. cbn [length] in Hcnt |- *. lia.
    + cbn [length] in Hf |- *. lia.
    + exists q', (S d). split; [exact Em|]. unfold q2 in *. cbn [qsize cnt first last lib nid cells setq] in *.
      cbn [length skipn] in *. pose proof (esz_ge e1 ltac:(lia)).
      splits; try assumption; try lia.
      destruct Hres as [(H1 & H2 & H3 & H4 & H5 & H6 & H7) | (H1 & H2 & H3)]; [left | right].
      * cbn [endof]. splits; try assumption; try lia.
      * splits; try assumption; lia.
Qed.

(* ------------------------------------------------------------------ list helpers *)
Lemma Forall_skipn {A} (P : A -> Prop) : forall d l, Forall P l -> Forall P (skipn d l).
Proof. induction d as [|d IH]; intros l H; [exact H|]. destruct l; [constructor|]. inversion H; subst. cbn [skipn]. apply IH. assumption. Qed.

Lemma ids_from_app : forall a b k, ids_from k (a ++ b) <-> ids_from k a /\ ids_from (k + Z.of_nat (length a)) b.
Proof.
  induction a as [|x r IH]; intros b k; cbn [app ids_from length].
  - rewrite Z.add_0_r. tauto.
  - rewrite IH. replace (k + 1 + Z.of_nat (length r)) with (k + Z.of_nat (S (length r))) by lia. tauto.
Qed.

Lemma ids_from_skipn : forall d l k, (d <= length l)%nat -> ids_from k l -> ids_from (k + Z.of_nat d) (skipn d l).
Proof.
  induction d as [|d IH]; intros l k Hd H; [rewrite Z.add_0_r; exact H|].
  destruct l as [|x r]; [cbn in Hd; lia|]. cbn [skipn]. cbn [ids_from] in H. destruct H as [_ H]. cbn [length] in Hd.
  replace (k + Z.of_nat (S d)) with (k + 1 + Z.of_nat d) by lia. apply IH; [lia | exact H].
Qed.

Lemma skipn_length_le {A} d (l : list A) : (d <= length l)%nat -> length (skipn d l) = (length l - d)%nat.
Proof. intros _. apply skipn_length. Qed.

(* ------------------------------------------------------------------ the last step of enqueue: write the entry *)
Definition new_ent (q : mqs) (a : list Z) : ent := {| e_id := nid q; e_st := QWAIT; e_sz := Z.of_nat (length a); e_asdu := a |}.

Definition finish (q5 : mqs) (nx : Z) (e : ent) : mqs :=
  {| qsize := qsize q5; cnt := cnt q5 + 1; first := first q5; last := nx;
     lib := (if nx >? lib q5 then nx else lib q5); nid := nid q5 + 1; cells := write (cells q5) nx e |}.

Definition geom (q5 : mqs) (K : lay_t) (nx : Z) (e : ent) : Prop :=
  (K = [] /\ nx = 0 /\ first q5 = 0 /\ lib q5 = 0) \/
  (K <> [] /\ 0 <= first q5 /\ contig (first q5) K /\ nx = endof (first q5) K /\ lib q5 <= nx /\ nx + esz e <= qsize q5) \/
  (exists A B', K = A ++ B' /\ A <> [] /\ contig (first q5) A /\ lib q5 = lastoff A /\ endof (first q5) A <= qsize q5 /\
                contig 0 B' /\ nx = endof 0 B' /\ nx + esz e <= first q5).

Lemma finish_inv q5 K nx e :
  cnt q5 = Z.of_nat (length K) -> 272 <= qsize q5 -> sane K -> stored (cells q5) K ->
  ids_from (nid q5 - cnt q5) K -> 0 <= nid q5 - cnt q5 -> e_id e = nid q5 -> 0 <= e_sz e <= 250 ->
  geom q5 K nx e -> MQInv (finish q5 nx e) (K ++ [(nx, e)]).
Proof.
  intros Hc Hq Hs Hst Hid Hn Hei Hes Hg. pose proof (esz_ge e ltac:(lia)) as He16.
  assert (Hesz : esz e <= 266) by (unfold esz, HDR; lia).
  unfold MQInv, finish. rs. rewrite app_length. cbn [length].
  assert (Hsane : sane (K ++ [(nx, e)])) by (apply sane_app; split; [exact Hs | constructor; [exact Hes | constructor]]).
  assert (Hids : ids_from (nid q5 + 1 - (cnt q5 + 1)) (K ++ [(nx, e)])).
  { replace (nid q5 + 1 - (cnt q5 + 1)) with (nid q5 - cnt q5) by lia. apply ids_from_app. split; [exact Hid|].
    cbn [ids_from snd]. split; [lia | exact I]. }
  destruct Hg as [(-> & -> & Hf & Hl) | [(Kne & H0 & Hcg & -> & Hl & Hfit) | (A & B' & -> & HA & HcA & Hl & HeA & HcB & -> & Hfit)]].
  - (* first entry of an empty queue *)
    cbn [app length] in *. splits; try assumption; try lia.
    + constructor; [cbn [fst snd]; apply find_write_same | constructor].
    + right; left. unfold Lin. rs. rewrite Hf, Hl. cbn [contig endof lastoff List.last fst]. splits; try reflexivity; try lia.
  - (* behind the last entry *)
    splits; try assumption; try lia.
    + apply stored_app. split.
      * apply (stored_write _ K (first q5)); try assumption; try lia.
      * constructor; [cbn [fst snd]; apply find_write_same | constructor].
    + right; left. unfold Lin. rs. rewrite lastoff_snoc, endof_snoc.
      assert (El : (if endof (first q5) K >? lib q5 then endof (first q5) K else lib q5) = endof (first q5) K).
      { destruct (endof (first q5) K >? lib q5) eqn:G; [reflexivity | apply gtb_false_inv in G; lia]. }
      rewrite El. splits; try reflexivity; try lia. apply contig_snoc. split; [exact Hcg | reflexivity].
  - (* below the upper run *)
    apply sane_app in Hs. destruct Hs as [HsA HsB]. apply stored_app in Hst. destruct Hst as [HstA HstB].
    assert (Hn0 : 0 <= endof 0 B') by (pose proof (endof_ge B' 0 HsB); lia).
    assert (Hlibge : first q5 <= lib q5).
    { destruct (snoc_cases A HA) as (A' & [pa ea] & EA). rewrite EA in *. rewrite Hl, lastoff_snoc.
      destruct (contig_bounds _ _ (pa, ea) HsA HcA) as [Hb _]; [apply in_or_app; right; left; reflexivity | exact Hb]. }
    splits; try assumption; try lia.
    + apply stored_app. split; [apply stored_app; split|].
      * apply (stored_write _ A (first q5)); try assumption; try lia.
      * apply (stored_write _ B' 0); try assumption; try lia.
      * constructor; [cbn [fst snd]; apply find_write_same | constructor].
    + right; right. exists A, (B' ++ [(endof 0 B', e)]). rs.
      assert (El : (if endof 0 B' >? lib q5 then endof 0 B' else lib q5) = lib q5).
      { destruct (endof 0 B' >? lib q5) eqn:G; [apply gtb_true_inv in G; lia | reflexivity]. }
      rewrite El, lastoff_snoc, endof_snoc.
      splits; try assumption; try lia.
      * rewrite app_assoc. reflexivity.
      * destruct B'; discriminate.
      * apply contig_snoc. split; [exact HcB | reflexivity].
Qed.


(* ------------------------------------------------------------------ MessageQueue_enqueueASDU *)
Definition lenz (a : list Z) : Z := Z.of_nat (length a).

Lemma geb_true x y : y <= x -> (x >=? y) = true. Proof. intros H. apply Z.geb_le. exact H. Qed.

Lemma skipn_all_app {A} (a b : list A) d : skipn (length a + d) (a ++ b) = skipn d b.
Proof. rewrite skipn_app. rewrite skipn_all2 by lia. replace (length a + d - length a)%nat with d by lia. reflexivity. Qed.

Lemma skipn_app_le {A} (a b : list A) d : (d <= length a)%nat -> skipn d (a ++ b) = skipn d a ++ b.
Proof. intros H. rewrite skipn_app. replace (d - length a)%nat with 0%nat by lia. reflexivity. Qed.

Theorem mq_enqueue_spec q l a : MQInv q l ->
  (250 < lenz a -> mq_enqueue q a = Ok q) /\
  (lenz a <= 250 -> exists q' D nx, mq_enqueue q a = Ok q' /\ (D <= length l)%nat /\
       MQInv q' (skipn D l ++ [(nx, new_ent q a)]) /\ nid q' = nid q + 1 /\ qsize q' = qsize q).
Proof.
  intros H. pose proof (inv_total q l H) as Htot. pose proof H as (Hc & Hq & Hs & Hst & Hid & Hn & Hg).
  unfold mq_enqueue. fold (lenz a). change (256 - 6) with 250.
  split; intros Hlen.
  { rewrite (gtb_true _ _ Hlen). reflexivity. }
  rewrite (gtb_false _ _ Hlen).
  assert (Hla0 : 0 <= lenz a) by (unfold lenz; lia).
  set (e := new_ent q a).
  assert (Hes : 0 <= e_sz e <= 250) by (unfold e, new_ent; cbn [e_sz]; fold (lenz a); lia).
  assert (Hesz : esz e = HDR + lenz a) by reflexivity.
  assert (Hfu : (length l <= Z.to_nat (qsize q / HDR))%nat) by (apply fuel_ok; lia).
  destruct l as [|x0 r0].
  - (* empty queue *)
    cbn [length] in Hc. assert (E : cnt q =? 0 = true) by (apply Z.eqb_eq; lia). rewrite E. rs.
    exists (finish (setq q (cnt q) 0 (last q) 0) 0 e), 0%nat, 0. split; [reflexivity|]. cbn [skipn app length].
    split; [lia|]. split; [|split; reflexivity].
    apply (finish_inv (setq q (cnt q) 0 (last q) 0) [] 0 e); rs; cbn [length]; try assumption; try lia; try constructor.
    splits; reflexivity.
  - assert (Hpos : 0 < cnt q) by (cbn [length] in Hc; lia).
    assert (E : cnt q =? 0 = false) by (apply Z.eqb_neq; lia). rewrite E.
    destruct Hg as [Hn0 | [HL | HW]]; [discriminate| |].
    + (* ---------------- linear *)
      destruct HL as (H0 & Hcg & Hlast & Hli & He).
      destruct (snoc_cases (x0 :: r0) ltac:(discriminate)) as (l' & [pl el] & EL). rewrite EL in *.
      rewrite lastoff_snoc in Hlast.
      pose proof (proj1 (Forall_forall _ _) Hst (pl, el) ltac:(apply in_or_app; right; left; reflexivity)) as Hfl. cbn [fst snd] in Hfl.
      rewrite Hlast, Hfl.
      assert (Hnx : pl + HDR + e_sz el = endof (first q) (l' ++ [(pl, el)])).
      { rewrite endof_snoc. apply contig_snoc in Hcg. destruct Hcg as [_ ->]. unfold esz. lia. }
      rewrite Hnx. set (nx0 := endof (first q) (l' ++ [(pl, el)])) in *.
      assert (Hgt : first q < nx0).
      { pose proof (endof_ge (l' ++ [(pl, el)]) (first q) Hs). rewrite app_length in H1. cbn [length] in H1. unfold nx0. lia. }
      assert (Hel : 0 <= e_sz el <= 250).
      { pose proof (proj1 (Forall_forall _ _) Hs (pl, el) ltac:(apply in_or_app; right; left; reflexivity)) as X. exact X. }
      assert (Hpl : pl + 16 <= nx0) by (unfold HDR in Hnx; lia).
      destruct (nx0 + (HDR + lenz a) >? qsize q) eqn:W.
      * (* L2: does not fit behind the last entry: wrap to offset 0, drop from the front *)
        assert (Z0 : nx0 <=? first q = false) by (apply Z.leb_gt; lia). rewrite Z0.
        assert (Hfl2 : first q <= pl).
        { destruct (contig_bounds _ _ (pl, el) Hs Hcg) as [Hb _]; [apply in_or_app; right; left; reflexivity | exact Hb]. }
        rewrite Hlast. rewrite (geb_true pl (first q) Hfl2). rs.
        assert (Z1 : 0 <=? first q = true) by (apply Z.leb_le; lia). rewrite Z1.
        set (q2 := setq q (cnt q) (first q) pl pl).
        set (U := l' ++ [(pl, el)]) in *.
        destruct (make_room_spec U (FUEL q) q2 0 (HDR + lenz a)) as (q4 & d & Em & Hd & Hcn & Hqs & Hla4 & Hni & Hce & Hres);
          try (unfold q2; rs; assumption).
        { unfold U. destruct l'; discriminate. }
        { unfold q2. rs. unfold U. rewrite lastoff_snoc. reflexivity. }
        { unfold q2. rs. lia. }
        { unfold FUEL. lia. }
        rewrite Em. unfold q2 in Hcn, Hqs, Hla4, Hni, Hce, Hres. cbn [qsize cnt first last lib nid cells setq] in Hcn, Hqs, Hla4, Hni, Hce, Hres.
        eexists. exists d, 0. split; [reflexivity|]. split; [exact Hd|]. split; [|split; [rs; lia | rs; lia]].
        match goal with |- MQInv ?Q _ => replace Q with (finish q4 0 e) by (unfold finish, e, new_ent; rewrite Hni; reflexivity) end.
        assert (HsK : sane (skipn d U)) by (apply Forall_skipn; exact Hs).
        assert (HstK : stored (cells q4) (skipn d U)) by (rewrite Hce; apply Forall_skipn; exact Hst).
        assert (HidK : ids_from (nid q4 - cnt q4) (skipn d U)).
        { rewrite Hni, Hcn. replace (nid q - (cnt q - Z.of_nat d)) with (nid q - cnt q + Z.of_nat d) by lia. apply ids_from_skipn; assumption. }
        apply (finish_inv q4 (skipn d U) 0 e); try assumption; try lia.
        -- rewrite Hcn, skipn_length. lia.
        -- unfold e, new_ent. cbn [e_id]. lia.
        -- destruct Hres as [(H1 & H2 & H3 & H4 & H5 & H6 & H7) | (H1 & H2 & H3)].
           ++ right; right. exists (skipn d U), []. rewrite app_nil_r. cbn [contig endof].
              splits; first [ assumption | reflexivity | lia
                | (intros E0; apply (f_equal (@length _)) in E0; rewrite skipn_length in E0; cbn [length] in E0; lia)
                | (rewrite H3; unfold q2; rs; rewrite H6; unfold U; rewrite lastoff_snoc; reflexivity)
                | (rewrite H5; unfold q2; rs; lia)
                | (rewrite Hesz; lia) ].
           ++ left. rewrite H1, skipn_all. splits; try reflexivity; assumption.
      * (* L1: fits behind the last entry *)
        apply gtb_false_inv in W.
        assert (Z0 : nx0 <=? first q = false) by (apply Z.leb_gt; lia). rewrite Z0.
        exists (finish q nx0 e), 0%nat, nx0. split; [reflexivity|]. cbn [skipn]. split; [lia|]. split; [|split; reflexivity].
        apply (finish_inv q (l' ++ [(pl, el)]) nx0 e); try assumption; try reflexivity.
        right; left. splits; try assumption; try reflexivity; try lia. destruct l'; discriminate.
    + (* ---------------- wrapped *)
      destruct HW as (A & B & EAB & HA & HB & HcA & Hli & HeA & HcB & Hlast & HeB). rewrite EAB in *.
      apply sane_app in Hs. destruct Hs as [HsA HsB]. apply stored_app in Hst. destruct Hst as [HstA HstB].
      destruct (snoc_cases B HB) as (B' & [pb eb] & EB).
      assert (Hlastpb : last q = pb) by (rewrite Hlast, EB; apply lastoff_snoc).
      assert (Hfl : find (cells q) pb = Some eb).
      { apply (proj1 (Forall_forall _ _) HstB (pb, eb)). rewrite EB. apply in_or_app; right; left; reflexivity. }
      rewrite Hlastpb, Hfl.
      assert (Hnx : pb + HDR + e_sz eb = endof 0 B).
      { rewrite EB, endof_snoc. rewrite EB in HcB. apply contig_snoc in HcB. destruct HcB as [_ ->]. unfold esz. lia. }
      rewrite Hnx. set (nx0 := endof 0 B) in *.
      assert (Heb : 0 <= e_sz eb <= 250).
      { pose proof (proj1 (Forall_forall _ _) HsB (pb, eb)) as X. apply X. rewrite EB. apply in_or_app; right; left; reflexivity. }
      assert (Hpb0 : 0 <= pb).
      { destruct (contig_bounds B 0 (pb, eb) HsB HcB) as [Hb _]; [rewrite EB; apply in_or_app; right; left; reflexivity | exact Hb]. }
      assert (Hpb : pb + 16 <= nx0) by (unfold HDR in Hnx; lia).
      rewrite app_length in Hc, Hfu, Htot.
      assert (HlenA : (0 < length A)%nat) by (destruct A; [congruence | cbn; lia]).
      assert (HlenB : (0 < length B)%nat) by (destruct B; [congruence | cbn; lia]).
      apply ids_from_app in Hid. destruct Hid as [HidA HidB].
      destruct (nx0 + (HDR + lenz a) >? qsize q) eqn:W.
      * (* W2: does not fit at the end: the upper run is dropped as a whole, then entries of the lower run from offset 0 *)
        assert (Z0 : nx0 <=? first q = true) by (apply Z.leb_le; lia). rewrite Z0.
        destruct (snoc_cases A HA) as (A' & [pa ea] & EA).
        assert (Hcount : count_to_end (FUEL q) q (first q) = Ok (Z.of_nat (length A))).
        { rewrite EA. apply count_to_end_spec; try (rewrite <- EA; assumption).
          - rewrite <- EA. unfold FUEL. lia.
          - rewrite Hli, EA. apply lastoff_snoc. }
        rewrite Hcount. rs. rewrite (geb_true pb 0 Hpb0). rs.
        set (q2 := setq (setq q (cnt q - Z.of_nat (length A)) 0 pb (lib q)) (cnt q - Z.of_nat (length A)) 0 pb pb).
        destruct (make_room_spec B (FUEL q) q2 0 (HDR + lenz a)) as (q4 & d & Em & Hd & Hcn & Hqs & Hla4 & Hni & Hce & Hres);
          try (unfold q2; rs; assumption).
        { unfold q2. rs. rewrite EB. rewrite lastoff_snoc. reflexivity. }
        { unfold q2. rs. lia. }
        { unfold FUEL. lia. }
        rewrite Em. unfold q2 in Hcn, Hqs, Hla4, Hni, Hce, Hres. cbn [qsize cnt first last lib nid cells setq] in Hcn, Hqs, Hla4, Hni, Hce, Hres.
        eexists. exists (length A + d)%nat, 0. split; [reflexivity|]. split; [rewrite app_length; lia|]. split; [|split; [rs; lia | rs; lia]].
        rewrite skipn_all_app.
        match goal with |- MQInv ?Q _ => replace Q with (finish q4 0 e) by (unfold finish, e, new_ent; rewrite Hni; reflexivity) end.
        assert (HsK : sane (skipn d B)) by (apply Forall_skipn; exact HsB).
        assert (HstK : stored (cells q4) (skipn d B)) by (rewrite Hce; apply Forall_skipn; exact HstB).
        assert (HidK : ids_from (nid q4 - cnt q4) (skipn d B)).
        { rewrite Hni, Hcn. replace (nid q - (cnt q - Z.of_nat (length A) - Z.of_nat d)) with (nid q - cnt q + Z.of_nat (length A) + Z.of_nat d) by lia.
          apply ids_from_skipn; assumption. }
        apply (finish_inv q4 (skipn d B) 0 e); try assumption; try lia.
        -- rewrite Hcn, skipn_length. lia.
        -- unfold e, new_ent. cbn [e_id]. lia.
        -- destruct Hres as [(H1 & H2 & H3 & H4 & H5 & H6 & H7) | (H1 & H2 & H3)].
           ++ right; right. exists (skipn d B), []. rewrite app_nil_r. cbn [contig endof].
              splits; first [ assumption | reflexivity | lia
                | (intros E0; apply (f_equal (@length _)) in E0; rewrite skipn_length in E0; cbn [length] in E0; lia)
                | (rewrite H3; unfold q2; rs; rewrite H6; rewrite EB; rewrite lastoff_snoc; reflexivity)
                | (rewrite H5, Hqs; fold nx0; pose proof (endof_ge A (first q) HsA); lia)
                | (rewrite Hesz; lia) ].
           ++ left. rewrite H1, skipn_all. splits; try reflexivity; assumption.
      * (* W1: fits behind the lower run; entries of the upper run that are in the way are dropped *)
        apply gtb_false_inv in W.
        assert (Z0 : nx0 <=? first q = true) by (apply Z.leb_le; lia). rewrite Z0.
        destruct (make_room_spec A (FUEL q) q nx0 (HDR + lenz a)) as (q4 & d & Em & Hd & Hcn & Hqs & Hla4 & Hni & Hce & Hres); try assumption.
        { lia. }
        { unfold FUEL. lia. }
        rewrite Em.
        eexists. exists d, nx0. split; [reflexivity|]. split; [rewrite app_length; lia|]. split; [|split; [rs; lia | rs; lia]].
        rewrite (skipn_app_le A B d Hd).
        match goal with |- MQInv ?Q _ => replace Q with (finish q4 nx0 e) by (unfold finish, e, new_ent; rewrite Hni; reflexivity) end.
        assert (HsK : sane (skipn d A ++ B)) by (apply sane_app; split; [apply Forall_skipn; exact HsA | exact HsB]).
        assert (HstK : stored (cells q4) (skipn d A ++ B)) by (rewrite Hce; apply stored_app; split; [apply Forall_skipn; exact HstA | exact HstB]).
        assert (HidK : ids_from (nid q4 - cnt q4) (skipn d A ++ B)).
        { rewrite Hni, Hcn. replace (nid q - (cnt q - Z.of_nat d)) with (nid q - cnt q + Z.of_nat d) by lia.
          apply ids_from_app. split; [apply ids_from_skipn; assumption|].
          rewrite skipn_length. replace (nid q - cnt q + Z.of_nat d + Z.of_nat (length A - d)) with (nid q - cnt q + Z.of_nat (length A)) by lia. exact HidB. }
        apply (finish_inv q4 (skipn d A ++ B) nx0 e); try assumption; try lia.
        -- rewrite Hcn, app_length, skipn_length. lia.
        -- unfold e, new_ent. cbn [e_id]. lia.
        -- destruct Hres as [(H1 & H2 & H3 & H4 & H5 & H6 & H7) | (H1 & H2 & H3)].
           ++ right; right. exists (skipn d A), B.
              splits; first [ assumption | reflexivity | lia
                | (intros E0; apply (f_equal (@length _)) in E0; rewrite skipn_length in E0; cbn [length] in E0; lia)
                | (rewrite H3, H6; exact Hli)
                | (rewrite H5; exact HeA)
                | (rewrite Hesz; lia) ].
           ++ right; left. rewrite H1, skipn_all, H2. cbn [app].
              splits; first [ assumption | reflexivity | lia | (rewrite Hesz; lia) ].
Qed.

(* ------------------------------------------------------------------ pairs handed out stay valid *)
Lemma inv_cnt q l : MQInv q l -> cnt q = Z.of_nat (length l). Proof. intros (H & _). exact H. Qed.

Lemma in_upd_at o1 st : forall l o e, In (o, e) l -> exists e', In (o, e') (upd_at o1 st l) /\ e_id e' = e_id e.
Proof.
  intros l o e H. unfold upd_at. destruct (o =? o1) eqn:E.
  - exists (upd st e). split; [|reflexivity]. apply in_map_iff. exists (o, e). cbn [fst snd]. rewrite E. split; [reflexivity | exact H].
  - exists e. split; [|reflexivity]. apply in_map_iff. exists (o, e). cbn [fst snd]. rewrite E. split; [reflexivity | exact H].
Qed.

Lemma valid_pair_upd q q' l o1 st o id : nid q' = nid q -> cnt q' = cnt q ->
  valid_pair q l o id -> valid_pair q' (upd_at o1 st l) o id.
Proof.
  intros Hn Hc (H0 & Hv). split; [exact H0|]. rewrite Hn, Hc. destruct Hv as [Hs | (e & Hin & He)]; [left; exact Hs | right].
  destruct (in_upd_at o1 st l o e Hin) as (e' & Hin' & He'). exists e'. split; [exact Hin' | congruence].
Qed.

Lemma valid_pair_enq q q' l D nx e o id : MQInv q l -> MQInv q' (skipn D l ++ [(nx, e)]) -> (D <= length l)%nat ->
  nid q' = nid q + 1 -> valid_pair q l o id -> valid_pair q' (skipn D l ++ [(nx, e)]) o id.
Proof.
  intros H H' HD Hn (H0 & Hv). split; [exact H0|].
  pose proof (inv_cnt _ _ H) as Hc. pose proof (inv_cnt _ _ H') as Hc'. rewrite app_length, skipn_length in Hc'. cbn [length] in Hc'.
  destruct H as (_ & _ & _ & _ & Hid & _).
  destruct Hv as [Hs | (e0 & Hin & He)]; [left; lia|].
  rewrite <- (firstn_skipn D l) in Hin, Hid. apply in_app_or in Hin. destruct Hin as [Hin | Hin].
  - left. apply ids_from_app in Hid. destruct Hid as [Hid1 _].
    pose proof (ids_in_range _ _ (o, e0) Hid1 Hin) as Hr. cbn [snd] in Hr. rewrite firstn_length in Hr. lia.
  - right. exists e0. split; [apply in_or_app; left; exact Hin | exact He].
Qed.

Lemma valid_pair_reset : forall l1 q q' l o id, nid q' = nid q -> cnt q' = cnt q ->
  valid_pair q l o id -> valid_pair q' (reset_lay l1 l) o id.
Proof.
  induction l1 as [|p r IH]; intros q q' l o id Hn Hc Hv; cbn [reset_lay fold_left].
  - destruct Hv as (H0 & Hv). split; [exact H0|]. rewrite Hn, Hc. exact Hv.
  - destruct (e_st (snd p) =? QSENT).
    + apply (IH q q'); try assumption. apply (valid_pair_upd q q); try reflexivity. exact Hv.
    + apply (IH q q'); assumption.
Qed.

Lemma ids_head k p r : ids_from k (p :: r) -> e_id (snd p) = k. Proof. cbn [ids_from]. tauto. Qed.

Lemma valid_pair_confirm q q' l o1 id1 o id : MQInv q l -> MQInv q' (confirm_lay q l o1 id1) -> nid q' = nid q ->
  valid_pair q l o id -> valid_pair q' (confirm_lay q l o1 id1) o id.
Proof.
  intros H H' Hn Hv. pose proof (inv_cnt _ _ H) as Hc. pose proof (inv_cnt _ _ H') as Hc'. revert H' Hc'. unfold confirm_lay.
  destruct (id1 <? nid q - cnt q).
  - intros H' Hc'. destruct Hv as (H0 & Hv). split; [exact H0|]. rewrite Hn. replace (cnt q') with (cnt q) by lia. exact Hv.
  - destruct (o1 =? first q).
    + intros H' Hc'. pose proof (valid_pair_upd q q l o1 QCONF o id eq_refl eq_refl Hv) as (H0 & Hv2). split; [exact H0|].
      destruct H as (_ & _ & _ & _ & Hid & _). pose proof (ids_upd_at l _ o1 QCONF Hid) as Hid2.
      destruct (upd_at o1 QCONF l) as [|p r] eqn:EU.
      * cbn [tl] in *. destruct Hv2 as [Hs | (e & Hin & _)]; [left; rewrite Hn; cbn [length] in Hc'; lia | destruct Hin].
      * cbn [tl] in *. assert (Hl : length l = S (length r)). { rewrite <- (upd_at_length o1 QCONF l), EU. reflexivity. }
        rewrite Hn. destruct Hv2 as [Hs | (e & Hin & He)]; [left; lia|].
        destruct Hin as [Hp | Hin]; [left | right; exists e; split; assumption].
        pose proof (ids_head _ _ _ Hid2) as Hh. rewrite Hp in Hh. cbn [snd] in Hh. lia.
    + intros H' Hc'. rewrite upd_at_length in Hc'. apply (valid_pair_upd q q'); try assumption. lia.
Qed.

(* ------------------------------------------------------------------ every history *)
Inductive mop := MEnq (a : list Z) | MNext | MConf (i : nat) | MReset | MReads.

(* state of a run: the ring and the (entry pointer, entry id) pairs handed out so far (what the k-buffers may hold) *)
Definition mq_step (q : mqs) (issued : list (Z * Z)) (o : mop) : res (mqs * list (Z * Z) * option (Z * ent)) :=
  match o with
  | MEnq a => match mq_enqueue q a with Ok q' => Ok (q', issued, None) | Fault w => Fault w end
  | MNext => match mq_next q with
             | Ok (Some (off, e), q') => Ok (q', issued ++ [(off, e_id e)], Some (off, e))
             | Ok (None, q') => Ok (q', issued, None)
             | Fault w => Fault w
             end
  | MConf i => match nth_error issued i with
               | Some (off, id) => match mq_confirm q off id with Ok q' => Ok (q', issued, None) | Fault w => Fault w end
               | None => Ok (q, issued, None)
               end
  | MReset => match mq_reset_waiting q with Ok q' => Ok (q', issued, None) | Fault w => Fault w end
  | MReads => match mq_has_unconfirmed q, mq_available q with
              | Ok _, Ok _ => Ok (q, issued, None)
              | Fault w, _ => Fault w
              | _, Fault w => Fault w
              end
  end.

Definition Issued (q : mqs) (l : lay_t) (issued : list (Z * Z)) : Prop := Forall (fun p => valid_pair q l (fst p) (snd p)) issued.

Theorem mq_step_ok q l issued o : MQInv q l -> Issued q l issued -> nid q < TWO64 - 1 ->
  exists q' l' issued' out, mq_step q issued o = Ok (q', issued', out) /\ MQInv q' l' /\ Issued q' l' issued' /\
    nid q <= nid q' <= nid q + 1 /\ qsize q' = qsize q /\
    (forall p, out = Some p -> In p l /\ e_st (snd p) = QWAIT).
Proof.
  intros H HI Hn. destruct o as [a| |i| |]; cbn [mq_step].
  - destruct (mq_enqueue_spec q l a H) as [Hbig Hsmall]. destruct (Z_lt_le_dec 250 (lenz a)) as [Hl | Hl].
    + rewrite (Hbig Hl). exists q, l, issued, None. splits; first [assumption | lia | reflexivity | discriminate | idtac].
    + destruct (Hsmall Hl) as (q' & D & nx & E & HD & Hi & Hni & Hqs). rewrite E.
      exists q', (skipn D l ++ [(nx, new_ent q a)]), issued, None. splits; first [assumption | lia | reflexivity | discriminate | idtac].
      apply Forall_forall. intros p Hp. pose proof (proj1 (Forall_forall _ _) HI p Hp) as Hv. cbn beta in Hv.
      apply (valid_pair_enq q q' l D nx); assumption.
  - pose proof (mq_next_spec q l H) as S. destruct (first_waiting l) as [[off e]|] eqn:F.
    + destruct S as (q' & E & Hi & Hin & Hni & Hcn & Hqs). rewrite E.
      exists q', (upd_at off QSENT l), (issued ++ [(off, e_id e)]), (Some (off, e)). splits; first [assumption | lia | reflexivity | idtac].
      * apply Forall_app. split.
        -- apply Forall_forall. intros p Hp. pose proof (proj1 (Forall_forall _ _) HI p Hp) as Hv. cbn beta in Hv.
           apply (valid_pair_upd q q'); assumption.
        -- constructor; [|constructor]. cbn [fst snd]. apply (valid_pair_upd q q'); try assumption.
           destruct H as (_ & _ & _ & _ & Hid & Hn0 & _). pose proof (ids_in_range _ _ (off, e) Hid Hin) as Hr. cbn [snd] in Hr.
           split; [lia | right; exists e; split; [exact Hin | reflexivity]].
      * intros p Hp. inversion Hp; subst. apply (first_waiting_in l off e F).
    + rewrite S. exists q, l, issued, None. splits; first [assumption | lia | reflexivity | discriminate | idtac].
  - destruct (nth_error issued i) as [[off id]|] eqn:En.
    + pose proof (nth_error_In _ _ En) as Hin. pose proof (proj1 (Forall_forall _ _) HI _ Hin) as Hv. cbn [fst snd] in Hv.
      destruct (mq_confirm_spec q l off id H ltac:(lia) Hv) as (q' & E & Hi & Hni & Hqs). rewrite E.
      exists q', (confirm_lay q l off id), issued, None. splits; first [assumption | lia | reflexivity | discriminate | idtac].
      apply Forall_forall. intros p Hp. pose proof (proj1 (Forall_forall _ _) HI p Hp) as Hv2. cbn beta in Hv2.
      apply (valid_pair_confirm q q'); assumption.
    + exists q, l, issued, None. splits; first [assumption | lia | reflexivity | discriminate | idtac].
  - destruct (mq_reset_waiting_spec q l H) as (q' & E & Hi & Hni & Hcn & Hqs). rewrite E.
    exists q', (reset_lay l l), issued, None. splits; first [assumption | lia | reflexivity | discriminate | idtac].
    apply Forall_forall. intros p Hp. pose proof (proj1 (Forall_forall _ _) HI p Hp) as Hv. cbn beta in Hv.
    apply (valid_pair_reset l q q'); assumption.
  - destruct (mq_reads_ok q l H) as [E1 E2]. rewrite E1, E2.
    exists q, l, issued, None. splits; first [assumption | lia | reflexivity | discriminate | idtac].
Qed.

Fixpoint mq_run (q : mqs) (issued : list (Z * Z)) (ops : list mop) : res (mqs * list (option (Z * ent))) :=
  match ops with
  | [] => Ok (q, [])
  | o :: r => match mq_step q issued o with
              | Fault w => Fault w
              | Ok (q', issued', out) => match mq_run q' issued' r with
                                         | Fault w => Fault w
                                         | Ok (q'', outs) => Ok (q'', out :: outs)
                                         end
              end
  end.

(* every history of enqueue / getNextWaiting / confirm (of any pair handed out before) / resetWaiting / reads on a ring of
   any size: no header is read where no live entry starts, the invariant holds at the end *)
Theorem mq_no_fault : forall ops q l issued, MQInv q l -> Issued q l issued ->
  nid q + Z.of_nat (length ops) < TWO64 - 1 ->
  exists q' outs l', mq_run q issued ops = Ok (q', outs) /\ MQInv q' l'.
Proof.
  induction ops as [|o r IH]; intros q l issued H HI Hn; cbn [mq_run].
  - exists q, [], l. split; [reflexivity | exact H].
  - cbn [length] in Hn. destruct (mq_step_ok q l issued o H HI ltac:(lia)) as (q1 & l1 & is1 & out & E & H1 & HI1 & Hni & _ & _). rewrite E.
    destruct (IH q1 l1 is1 H1 HI1 ltac:(lia)) as (q2 & outs & l2 & E2 & H2). rewrite E2. eauto.
Qed.

Lemma MQInv_new n : 1 <= n -> MQInv (mq_new n) [].
Proof.
  intros H. unfold MQInv, mq_new. cbn [qsize cnt first last lib nid cells length]. unfold HDR.
  splits; first [lia | (left; reflexivity) | constructor].
Qed.

(* live entries lie inside the arena *)
Theorem mq_entries_in_arena q l p : MQInv q l -> In p l -> 0 <= fst p /\ fst p + esz (snd p) <= qsize q.
Proof.
  intros (Hc & Hq & Hs & Hst & Hid & Hn & Hg) Hin. destruct Hg as [-> | [HL | HW]]; [destruct Hin| |].
  - destruct HL as (H0 & Hcg & _ & _ & He). destruct (contig_bounds l (first q) p Hs Hcg Hin). lia.
  - destruct HW as (A & B & -> & HA & HB & HcA & _ & HeA & HcB & _ & HeB).
    apply sane_app in Hs. destruct Hs as [HsA HsB].
    pose proof (endof_ge A (first q) HsA). pose proof (endof_ge B 0 HsB).
    apply in_app_or in Hin. destruct Hin as [Hin | Hin].
    + destruct (contig_bounds A (first q) p HsA HcA Hin). lia.
    + destruct (contig_bounds B 0 p HsB HcB Hin). lia.
Qed.
