(* C06 / C13: the two ring buffers of cs104_slave.c with byte offsets for pointers (-1 = NULL).
   MessageQueue: entries = 16-octet header (entryId, state, size) + ASDU, in an arena of
   N*(16+256) octets.  HighPriorityASDUQueue: 2-octet size prefix + ASDU, arena N*(2+256).
   The arena content is kept as a map offset -> entry; writing an entry destroys every entry it
   overlaps; reading a header where no entry starts is the outcome Fault (the C code would read
   stale or foreign octets there). *)
From Coq Require Import ZArith List Bool Lia.
Import ListNotations.
Local Open Scope Z_scope.

Definition QCONF := 0. Definition QWAIT := 1. Definition QSENT := 2.
Record ent := { e_id : Z; e_st : Z; e_sz : Z; e_asdu : list Z }.
Record mqs := { qsize : Z; cnt : Z; first : Z; last : Z; lib : Z; nid : Z; cells : list (Z * ent) }.

Definition HDR := 16.
Definition mq_new (n : Z) : mqs :=
  {| qsize := n * (HDR + 256); cnt := 0; first := -1; last := -1; lib := -1; nid := 1; cells := [] |}.

Fixpoint find (cs : list (Z * ent)) (o : Z) : option ent :=
  match cs with [] => None | (o', e) :: r => if o' =? o then Some e else find r o end.
Definition overlaps (o s o' s' : Z) : bool := (o <? o' + s') && (o' <? o + s).
Definition write (cs : list (Z * ent)) (o : Z) (e : ent) : list (Z * ent) :=
  (o, e) :: filter (fun p => negb (overlaps o (HDR + e_sz e) (fst p) (HDR + e_sz (snd p)))) cs.
Fixpoint set_state (cs : list (Z * ent)) (o st : Z) : list (Z * ent) :=
  match cs with
  | [] => []
  | (o', e) :: r => if o' =? o then (o', {| e_id := e_id e; e_st := st; e_sz := e_sz e; e_asdu := e_asdu e |}) :: r
                    else (o', e) :: set_state r o st
  end.

Inductive res (A : Type) := Ok (a : A) | Fault (why : Z).     (* why: offset whose header was read without an entry *)
Arguments Ok {A}. Arguments Fault {A}.

Definition setq (q : mqs) (c f l b : Z) : mqs :=
  {| qsize := qsize q; cnt := c; first := f; last := l; lib := b; nid := nid q; cells := cells q |}.

(* MessageQueue_countEntriesUntilEndOfBuffer *)
Fixpoint count_to_end (fuel : nat) (q : mqs) (p : Z) : res Z :=
  match fuel with
  | O => Fault (-2)
  | S f =>
    match find (cells q) p with
    | None => Fault p
    | Some e => if p =? lib q then Ok 1
                else match count_to_end f q (p + HDR + e_sz e) with Ok n => Ok (1 + n) | Fault w => Fault w end
    end
  end.

(* the `while` that frees space in front of firstEntry *)
Fixpoint make_room (fuel : nat) (q : mqs) (next esize : Z) : res mqs :=
  match fuel with
  | O => Fault (-2)
  | S f =>
    if (next + esize >? first q) && (0 <? cnt q) then
      let q1 := setq q (cnt q - 1) (first q) (last q) (lib q) in
      if first q1 =? lib q1 then Ok (setq q1 (cnt q1) 0 (last q1) next)
      else match find (cells q1) (first q1) with
           | None => Fault (first q1)
           | Some e => make_room f (setq q1 (cnt q1) (first q1 + HDR + e_sz e) (last q1) (lib q1)) next esize
           end
    else Ok q
  end.

Definition FUEL (q : mqs) : nat := S (Z.to_nat (qsize q / HDR)).

(* MessageQueue_enqueueASDU *)
Definition mq_enqueue (q : mqs) (asdu : list Z) : res mqs :=
  let asz := Z.of_nat (length asdu) in
  if asz >? 256 - 6 then Ok q
  else
    let esize := HDR + asz in
    let step1 : res (mqs * Z) :=
      if cnt q =? 0 then Ok (setq q (cnt q) 0 (last q) 0, 0)
      else
        match find (cells q) (last q) with
        | None => Fault (last q)
        | Some le =>
          let next := last q + HDR + e_sz le in
          let r2 : res (mqs * Z) :=
            if next + esize >? qsize q then
              let r1 : res mqs :=
                if next <=? first q then
                  match count_to_end (FUEL q) q (first q) with
                  | Ok n => Ok (setq q (cnt q - n) 0 (last q) (lib q))
                  | Fault w => Fault w
                  end
                else Ok q in
              match r1 with
              | Fault w => Fault w
              | Ok q1 => let q2 := if last q1 >=? first q1 then setq q1 (cnt q1) (first q1) (last q1) (last q1) else q1 in Ok (q2, 0)
              end
            else Ok (q, next) in
          match r2 with
          | Fault w => Fault w
          | Ok (q3, nx) =>
            if nx <=? first q3 then
              match make_room (FUEL q) q3 nx esize with Ok q4 => Ok (q4, nx) | Fault w => Fault w end
            else Ok (q3, nx)
          end
        end in
    match step1 with
    | Fault w => Fault w
    | Ok (q5, nx) =>
      let lib' := if nx >? lib q5 then nx else lib q5 in
      Ok {| qsize := qsize q5; cnt := cnt q5 + 1; first := first q5; last := nx; lib := lib'; nid := nid q5 + 1;
            cells := write (cells q5) nx {| e_id := nid q5; e_st := QWAIT; e_sz := asz; e_asdu := asdu |} |}
    end.

(* walk from first to last following the lastInBuffer wrap; used by several functions *)
Fixpoint walk (fuel : nat) (q : mqs) (p : Z) (acc : list (Z * ent)) : res (list (Z * ent)) :=
  match fuel with
  | O => Fault (-2)
  | S f =>
    match find (cells q) p with
    | None => Fault p
    | Some e =>
      let acc' := acc ++ [(p, e)] in
      if p =? last q then Ok acc'
      else walk f q (if p =? lib q then 0 else p + HDR + e_sz e) acc'
    end
  end.
Definition mq_entries (q : mqs) : res (list (Z * ent)) := if cnt q =? 0 then Ok [] else walk (FUEL q) q (first q) [].

(* MessageQueue_getNextWaitingASDU: first WAITING entry on the walk, marked SENT *)
Fixpoint first_waiting (l : list (Z * ent)) : option (Z * ent) :=
  match l with [] => None | (o, e) :: r => if e_st e =? QWAIT then Some (o, e) else first_waiting r end.
Definition mq_next (q : mqs) : res (option (Z * ent) * mqs) :=
  match mq_entries q with
  | Fault w => Fault w
  | Ok l => match first_waiting l with
            | None => Ok (None, q)
            | Some (o, e) => Ok (Some (o, e), {| qsize := qsize q; cnt := cnt q; first := first q; last := last q; lib := lib q; nid := nid q;
                                                 cells := set_state (cells q) o QSENT |})
            end
  end.

(* removeFirstEntry *)
Definition remove_first (q : mqs) : res mqs :=
  if first q =? lib q then
    if first q =? last q then Ok (setq q (cnt q - 1) (-1) (-1) (-1))
    else Ok (setq q (cnt q - 1) 0 (last q) (last q))
  else match find (cells q) (first q) with
       | None => Fault (first q)
       | Some e => Ok (setq q (cnt q - 1) (first q + HDR + e_sz e) (last q) (lib q))
       end.

(* MessageQueue_markAsduAsConfirmed(queueEntry, entryId) *)
Definition mq_confirm (q : mqs) (o id : Z) : res mqs :=
  if 0 <? cnt q then
    let diff := (nid q - 1 - id) mod 18446744073709551616 in
    if diff <? cnt q then
      match find (cells q) o with
      | None => Fault o
      | Some e =>
        if e_id e =? id then
          let q1 := {| qsize := qsize q; cnt := cnt q; first := first q; last := last q; lib := lib q; nid := nid q;
                       cells := set_state (cells q) o QCONF |} in
          if o =? first q1 then remove_first q1 else Ok q1
        else Ok q
      end
    else Ok q
  else Ok q.

Definition mq_has_unconfirmed (q : mqs) : res bool :=
  match mq_entries q with Fault w => Fault w | Ok l => Ok (existsb (fun p => e_st (snd p) =? QSENT) l) end.
Definition mq_available (q : mqs) : res bool :=
  match mq_entries q with Fault w => Fault w | Ok l => Ok (match first_waiting l with Some _ => true | None => false end) end.
Definition mq_reset_waiting (q : mqs) : res mqs :=
  match mq_entries q with
  | Fault w => Fault w
  | Ok l => Ok {| qsize := qsize q; cnt := cnt q; first := first q; last := last q; lib := lib q; nid := nid q;
                  cells := fold_left (fun cs p => if e_st (snd p) =? QSENT then set_state cs (fst p) QWAIT else cs) l (cells q) |}
  end.
Definition mq_release (q : mqs) : mqs := setq q 0 (-1) (-1) (-1).

(* ------------------------------------------------------------------ HighPriorityASDUQueue *)
Record hpq := { hsize : Z; hcnt : Z; hfirst : Z; hlast : Z; hlib : Z; hcells : list (Z * list Z) }.
Definition hp_new (n : Z) : hpq := {| hsize := n * (2 + 256); hcnt := 0; hfirst := -1; hlast := -1; hlib := -1; hcells := [] |}.
Fixpoint hfind (cs : list (Z * list Z)) (o : Z) : option (list Z) :=
  match cs with [] => None | (o', e) :: r => if o' =? o then Some e else hfind r o end.
Definition hwrite (cs : list (Z * list Z)) (o : Z) (a : list Z) : list (Z * list Z) :=
  (o, a) :: filter (fun p => negb (overlaps o (2 + Z.of_nat (length a)) (fst p) (2 + Z.of_nat (length (snd p))))) cs.

(* HighPriorityASDUQueue_enqueue *)
Definition hp_enqueue (q : hpq) (asdu : list Z) : res (bool * hpq) :=
  let asz := Z.of_nat (length asdu) in
  if asz >? 250 then Ok (false, q)
  else
    let esize := 2 + asz in
    let r1 : res (hpq * Z) :=
      if hcnt q =? 0 then Ok ({| hsize := hsize q; hcnt := hcnt q; hfirst := 0; hlast := hlast q; hlib := 0; hcells := hcells q |}, 0)
      else match hfind (hcells q) (hlast q) with
           | None => Fault (hlast q)
           | Some a => Ok (q, hlast q + 2 + Z.of_nat (length a))
           end in
    match r1 with
    | Fault w => Fault w
    | Ok (q1, nx0) =>
      let '(q2, nx) := if (nx0 + esize >? hsize q1) && ((hcnt q1 =? 0) || (nx0 >? hfirst q1))
                       then ({| hsize := hsize q1; hcnt := hcnt q1; hfirst := hfirst q1; hlast := hlast q1; hlib := hlast q1; hcells := hcells q1 |}, 0)
                       else (q1, nx0) in
      let '(q3, enq) :=
        if 0 <? hcnt q2 then
          if nx <=? hfirst q2 then (q2, negb (nx + esize >? hfirst q2))
          else ({| hsize := hsize q2; hcnt := hcnt q2; hfirst := hfirst q2; hlast := hlast q2; hlib := nx; hcells := hcells q2 |}, true)
        else (q2, true) in
      if enq then Ok (true, {| hsize := hsize q3; hcnt := hcnt q3 + 1; hfirst := hfirst q3; hlast := nx; hlib := hlib q3; hcells := hwrite (hcells q3) nx asdu |})
      else Ok (false, q3)
    end.

(* HighPriorityASDUQueue_getNextASDU *)
Definition hp_next (q : hpq) : res (option (list Z) * hpq) :=
  if 0 <? hcnt q then
    match hfind (hcells q) (hfirst q) with
    | None => Fault (hfirst q)
    | Some a =>
      let c := hcnt q - 1 in
      let q' :=
        if 0 <? c then
          if hfirst q =? hlast q then {| hsize := hsize q; hcnt := c; hfirst := -1; hlast := -1; hlib := -1; hcells := hcells q |}
          else if hfirst q =? hlib q then {| hsize := hsize q; hcnt := c; hfirst := 0; hlast := hlast q; hlib := hlast q; hcells := hcells q |}
          else {| hsize := hsize q; hcnt := c; hfirst := hfirst q + 2 + Z.of_nat (length a); hlast := hlast q; hlib := hlib q; hcells := hcells q |}
        else {| hsize := hsize q; hcnt := c; hfirst := hfirst q; hlast := hlast q; hlib := hlib q; hcells := hcells q |} in
      Ok (Some a, q')
    end
  else Ok (None, q).

(* HighPriorityASDUQueue_isFull (worst-case entry of 2 + 250 octets) *)
Definition hp_full (q : hpq) : res bool :=
  if 0 <? hcnt q then
    match hfind (hcells q) (hlast q) with
    | None => Fault (hlast q)
    | Some a =>
      let nx0 := hlast q + 2 + Z.of_nat (length a) in
      let nx := if (nx0 + 252 >? hsize q) && (nx0 >? hfirst q) then 0 else nx0 in
      Ok ((nx <=? hfirst q) && (nx + 252 >? hfirst q))
    end
  else Ok false.
Definition hp_reset (q : hpq) : hpq := {| hsize := hsize q; hcnt := 0; hfirst := -1; hlast := -1; hlib := -1; hcells := hcells q |}.
