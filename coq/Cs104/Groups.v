(* C08: admission of incoming connections and redundancy-group activation (cs104_slave.c:
   CS104_IPAddress_setFromString, CS104_RedundancyGroup_matches, getMatchingRedundancyGroup,
   handleConnectionsThreadless / serverThread admission, CS104_Slave_activate).
   Strings are lists of character codes. *)
From Coq Require Import ZArith List Bool Lia.
Import ListNotations.
Local Open Scope Z_scope.

(* ---- strtoul(s, NULL, base) for base 10 / 16: optional leading blanks and sign are not produced by the
   callers' strings; digits are accumulated until the first non-digit (no digits -> 0) *)
Definition digit (base c : Z) : option Z :=
  if (48 <=? c) && (c <=? 57) then Some (c - 48)
  else if base =? 16 then
    if (97 <=? c) && (c <=? 102) then Some (c - 87)
    else if (65 <=? c) && (c <=? 70) then Some (c - 55) else None
  else None.
Fixpoint strtoul_acc (base : Z) (s : list Z) (acc : Z) : Z :=
  match s with
  | [] => acc
  | c :: r => match digit base c with Some d => strtoul_acc base r (acc * base + d) | None => acc end
  end.
Definition strtoul (base : Z) (s : list Z) : Z := strtoul_acc base s 0.

(* strchr(s, ch): the suffix starting at the first occurrence *)
Fixpoint strchr (s : list Z) (ch : Z) : option (list Z) :=
  match s with [] => None | c :: r => if c =? ch then Some s else strchr r ch end.

Inductive ipaddr := IP4 (b : list (option Z)) | IP6 (b : list (option Z)).   (* octets the parser does not write stay uninitialised: None *)

Fixpoint parse4 (n : nat) (s : list Z) (acc : list (option Z)) : list (option Z) :=
  match n with
  | O => acc
  | S m =>
    let acc' := acc ++ [Some ((strtoul 10 s) mod 256)] in
    match strchr s 46 with
    | None => acc'
    | Some (_ :: rest) => parse4 m rest acc'
    | Some [] => acc'
    end
  end.
Fixpoint parse6 (n : nat) (s : list Z) (acc : list (option Z)) : list (option Z) :=
  match n with
  | O => acc
  | S m =>
    let v := strtoul 16 s in
    let acc' := acc ++ [Some ((v / 256) mod 256); Some (v mod 256)] in
    match strchr s 58 with
    | None => acc'
    | Some (_ :: rest) => parse6 m rest acc'
    | Some [] => acc'
    end
  end.
Definition pad {A} (n : nat) (l : list A) (d : A) : list A := l ++ repeat d (n - length l).

Definition parse_ip (s : list Z) : ipaddr :=
  match strchr s 46 with
  | Some _ => IP4 (pad 4 (parse4 4 s []) None)
  | None => IP6 (pad 16 (parse6 8 s []) None)
  end.

(* CS104_IPAddress_equals: an uninitialised octet compares unpredictably -> modelled as "not reliably equal" *)
Definition ip_eq (a b : ipaddr) : bool :=
  match a, b with
  | IP4 x, IP4 y => forallb (fun p => match fst p, snd p with Some u, Some v => u =? v | _, _ => false end) (combine x y) && (length x =? length y)%nat
  | IP6 x, IP6 y => forallb (fun p => match fst p, snd p with Some u, Some v => u =? v | _, _ => false end) (combine x y) && (length x =? length y)%nat
  | _, _ => false
  end.

(* getPeerAddress: strip the port ("a.b.c.d:port" / "[v6]:port") *)
Fixpoint take_until (s : list Z) (ch : Z) : list Z :=
  match s with [] => [] | c :: r => if c =? ch then [] else c :: take_until r ch end.
Definition peer_ip (s : list Z) : list Z :=
  match s with
  | 91 :: r => take_until r 93
  | _ => take_until s 58
  end.

(* ---- groups: allowed = None is a catch-all group *)
Record group := { g_allowed : option (list ipaddr) }.
Definition g_matches (g : group) (a : ipaddr) : bool :=
  match g_allowed g with None => false | Some l => existsb (ip_eq a) l end.
Definition g_catchall (g : group) : bool := match g_allowed g with None => true | Some _ => false end.

(* getMatchingRedundancyGroup: first group listing the address; otherwise the LAST catch-all group seen *)
Fixpoint match_group (gs : list group) (a : ipaddr) (idx : Z) (catchall : option Z) : option Z :=
  match gs with
  | [] => catchall
  | g :: r => if g_matches g a then Some idx
              else match_group r a (idx + 1) (if g_catchall g then Some idx else catchall)
  end.

Inductive smode := SINGLE | CONN_IS_GROUP | MULTI.

(* admission decision for one incoming connection: Some group index (0 for the non-group modes) or None = refused *)
Definition admission (mode : smode) (gs : list group) (maxopen opencnt : Z) (reqret : bool) (free_slot : bool) (peer : list Z) : option Z :=
  if (1 <=? maxopen) && (maxopen <=? opencnt) then None
  else if negb reqret then None
  else match mode with
       | MULTI => match match_group gs (parse_ip (peer_ip peer)) 0 None with
                  | Some gi => if free_slot then Some gi else None
                  | None => None
                  end
       | _ => if free_slot then Some 0 else None
       end.

(* ---- activation: connection slots with (group, state); STARTDT act on slot i *)
Definition STOPPED := 0. Definition STARTED := 1. Definition UNCONF := 2.
Record slot := { s_used : bool; s_group : Z; s_st : Z }.

Definition same_group (mode : smode) (a b : slot) : bool :=
  match mode with SINGLE => true | MULTI => s_group a =? s_group b | CONN_IS_GROUP => false end.

Fixpoint activate_aux (mode : smode) (me : slot) (i j : nat) (l : list slot) : list slot :=
  match l with
  | [] => []
  | x :: r =>
    (if Nat.eqb i j then {| s_used := s_used x; s_group := s_group x; s_st := STARTED |}
     else if s_used x && same_group mode me x then      (* MasterConnection_deactivate: a started connection is stopped pending its
                                                            acknowledgements, one that is not started stays as it is *)
       {| s_used := s_used x; s_group := s_group x; s_st := if s_st x =? STARTED then UNCONF else s_st x |}
     else x) :: activate_aux mode me i (S j) r
  end.
Definition activate (mode : smode) (l : list slot) (i : nat) : list slot :=
  match nth_error l i with Some me => activate_aux mode me i 0 l | None => l end.

Definition started_in (mode : smode) (g : Z) (l : list slot) : list slot :=
  filter (fun x => s_used x && (s_st x =? STARTED) && match mode with SINGLE => true | _ => s_group x =? g end) l.
